package main

// Regenerated tie by translation for C09, second part (Extension resil, notes/C09.md) → module FactsC09IRb:
//
//   filter RateLimiter.Handle (pkg/filters/ratelimiter/ratelimiter.go): first matching rule, 429 mapping,
//     break / continue / return, nil limiter                               → handleIR (+ _loop1) = RateLimiterFilter.handle
//   mqttproxy newLimiter / Limiter.acquirePermission (pkg/object/mqttproxy/ratelimiter.go)
//                                                                          → newLimiterIR, limiterAcquireIR
//   util RateLimiter.SetState (pkg/util/ratelimiter/ratelimiter.go)        → setStateIR = RateLimiter.setState

import (
	"fmt"
	"go/ast"
	"go/token"
	"strconv"
	"strings"
)

// c09IotaIndex: position of name in the `const ( X = iota … )` block that declares it.
func c09IotaIndex(r *Repo, rel, name string) (int, error) {
	f, err := r.File(rel)
	if err != nil {
		return 0, err
	}
	for _, d := range f.Decls {
		gd, ok := d.(*ast.GenDecl)
		if !ok || gd.Tok != token.CONST || len(gd.Specs) == 0 {
			continue
		}
		first, ok := gd.Specs[0].(*ast.ValueSpec)
		if !ok || len(first.Values) != 1 || r.Src(first.Values[0]) != "iota" {
			continue
		}
		idx := 0
		for _, sp := range gd.Specs {
			vs := sp.(*ast.ValueSpec)
			if idx > 0 && len(vs.Values) != 0 {
				break // an explicit value after the first line: not a plain iota enumeration
			}
			for _, n := range vs.Names {
				if n.Name == name {
					return idx, nil
				}
			}
			idx++
		}
	}
	return 0, fmt.Errorf("%s: %s is not declared in a plain iota block", rel, name)
}

func c09IgnoreLogger(src string, st ast.Stmt) bool {
	if es, ok := st.(*ast.ExprStmt); ok {
		if ce, ok := es.X.(*ast.CallExpr); ok {
			if se, ok := ce.Fun.(*ast.SelectorExpr); ok {
				if id, ok := se.X.(*ast.Ident); ok && id.Name == "logger" {
					return true
				}
			}
		}
	}
	return false
}

func c09HandleSpec(r *Repo) (*irSpec, error) {
	e, err := r.PkgValue("pkg/filters/ratelimiter/ratelimiter.go", "resultRateLimited")
	if err != nil {
		return nil, err
	}
	bl, ok := e.(*ast.BasicLit)
	if !ok || bl.Kind != token.STRING {
		return nil, fmt.Errorf("resultRateLimited is not a string literal")
	}
	rateLimited, err := strconv.Unquote(bl.Value)
	if err != nil {
		return nil, err
	}
	s := &irSpec{
		Name:    "handleIR",
		Binders: "(now : Nat → Int) (cancelled : Bool) (us : List (Bool × Option Nat)) (h0 : Heap)",
		BNames:  []string{"now", "cancelled", "us", "h0"},
		RetTy:   "Option (Heap × HOut)",
		Recv:    irTerm{"()", "Filter"},
		Params:  []irTerm{{"()", "PCtx"}},
		State: []irLet{{"heap", "Heap", "h0"}, {"status", "Status", "(none : Option Nat)"}, {"asked", "Lim?", "(none : Option Nat)"},
			{"waited", "Int", "0"}},
		LeanTy: map[string]string{"Status": "Option Nat", "Lim?": "Option Nat", "URL": "Bool × Option Nat", "Filter": "Unit", "PCtx": "Unit",
			"FSpec": "Unit", "Any": "Unit", "Req": "Unit", "StdReq": "Unit", "StdCtx": "Unit", "Resp": "Unit", "StdResp": "Unit", "Hdr": "Unit",
			"Timer": "Int", "RLOut": "RL × Out"},
		Consts: map[string]irTerm{
			"resultRateLimited":          {Str(rateLimited), "String"},
			"http.StatusTooManyRequests": {"429", "Nat"}, // net/http constant
		},
		Fields: map[string]irField{
			"Filter.spec":    {Fmt: "()", Ty: "FSpec"},
			"FSpec.URLs":     {Fmt: "us", Ty: "List URL"},
			"URL.rl":         {Fmt: "%s.2", Ty: "Lim?"},
			"StdResp.Header": {Fmt: "()", Ty: "Hdr"},
		},
		Methods: map[string]irCall{
			"PCtx.GetInputRequest": {Fmt: "()", Ty: "Any", NArgs: 0},
			"Req.Std":              {Fmt: "()", Ty: "StdReq", NArgs: 0},
			"Req.Context":          {Fmt: "()", Ty: "StdCtx", NArgs: 0},
			"Resp.Std":             {Fmt: "()", Ty: "StdResp", NArgs: 0},
			// URLRule.Match(req): the harness' oracle "rule i matches the request"
			"URL.Match": {Fmt: "%[1]s.1", Ty: "Bool", NArgs: 1},
		},
		Funcs: map[string]irCall{
			"httpprot.NewResponse": {Fmt: "((), false)", Ty: "Resp × Error", NArgs: 1},
			// which clause of the select runs: the environment's choice
			"§select": {Fmt: "cancelled", Ty: "Bool", NArgs: 1},
		},
		EffMethods: map[string]irEffCall{
			// u.rl.AcquirePermission(): nil limiter / dangling id ⇒ nil dereference (Panic); otherwise the
			// util limiter's `acquire` with count 1 on the heap object, at that limiter's own clock
			"Lim?.AcquirePermission": {NArgs: 0, Fmt: "(§tmp.2.permitted, §tmp.2.wait)", Ty: "Bool × Int",
				Guard: "§tmp_g",
				Pre: []irLet{
					{"§tmp_g", "Bool", "(%[1]s.isSome && (heapGet heap (%[1]s.getD 0)).isSome)"},
					{"§tmp_l", "Lim", "((heapGet heap (%[1]s.getD 0)).getD ⟨⟨0, 0, 0⟩, init⟩)"},
					{"§tmp", "RLOut", "(acquire §tmp_l.policy §tmp_l.state (now (%[1]s.getD 0)) 1)"},
					{"heap", "Heap", "(heapSet heap (%[1]s.getD 0) { §tmp_l with state := §tmp.1 })"},
					{"asked", "Lim?", "%[1]s"}}},
		},
		EffFuncs: map[string]irEffCall{
			// time.NewTimer(d): the wait is reported, not executed
			"time.NewTimer": {NArgs: 1, Fmt: "%[1]s", Ty: "Timer", Pre: []irLet{{"waited", "Int", "%[1]s"}}},
		},
		SelectComm: []irComm{{"<-StdCtx.Done", "§done"}, {"<-Timer.C", "§fired"}},
		StmtFuncs:  map[string]irStmtCall{"§done": {NArgs: 0}, "§fired": {NArgs: 1}},
		StmtMethods: map[string]irStmtCall{
			"PCtx.SetOutputResponse": {NArgs: 1}, "PCtx.AddTag": {NArgs: -1}, "Hdr.Set": {NArgs: 2}, "Timer.Stop": {NArgs: 0},
			"Resp.SetStatusCode": {NArgs: 1, Lets: []irLet{{"status", "Status", "(some %[2]s)"}}},
		},
		Panic:  "none",
		Ignore: c09IgnoreLogger,
		Hook: func(t *irT, e ast.Expr, env *irEnv) (irTerm, bool, error) {
			// ctx.GetInputRequest().(*httpprot.Request)
			if ta, ok := e.(*ast.TypeAssertExpr); ok && ta.Type != nil && t.r.Src(ta.Type) == "*httpprot.Request" {
				if v, err := t.tryExpr(ta.X, env); err == nil && v.Ty == "Any" {
					return irTerm{"()", "Req"}, true, nil
				}
			}
			return irTerm{}, false, nil
		},
		Ret: func(v []irTerm) (string, error) {
			if len(v) != 1 || v[0].Ty != "String" {
				return "", errUnsupportedReturn
			}
			return "some (heap, (⟨" + v[0].S + ", status, asked, waited⟩ : HOut))", nil
		},
	}
	return s, nil
}

// c09MqttSpec: shared tables of newLimiter / acquirePermission. A `*Limiter` under construction is the
// triple of its three fields (state variables); limiter objects are `Option` values of the model types.
func c09MqttSpec(name string) *irSpec {
	return &irSpec{
		Name: name,
		LeanTy: map[string]string{"Spec?": "Option RateLimitSpec", "LimPtr": "Unit", "ML?": "Option (MPolicy × MRL)", "RL?": "Option (Policy × RL)",
			"MPol": "MPolicy", "Pol": "Policy", "ML": "MPolicy × MRL", "RLim": "Policy × RL", "Ints": "List Int",
			"MOut3": "Bool × Int × Bool", "ROut2": "Bool × Int"},
		Fields: map[string]irField{
			"Spec?.RequestRate":     {Fmt: "(%s.getD ⟨0, 0, 0⟩).requestRate", Ty: "Int"},
			"Spec?.BytesRate":       {Fmt: "(%s.getD ⟨0, 0, 0⟩).bytesRate", Ty: "Int"},
			"Spec?.TimePeriod":      {Fmt: "(%s.getD ⟨0, 0, 0⟩).timePeriod", Ty: "Int"},
			"LimPtr.multiLimiter":   {Fmt: "l_multi", Ty: "ML?", State: true},
			"LimPtr.requestLimiter": {Fmt: "l_req", Ty: "RL?", State: true},
			"LimPtr.byteLimiter":    {Fmt: "l_byte", Ty: "RL?", State: true},
		},
		Consts: map[string]irTerm{"time.Second": {"second", "Int"}},
		Funcs: map[string]irCall{
			"ratelimiter.NewMultiPolicy": {Fmt: "(⟨%[3]s, %[2]s, %[1]s⟩ : MPolicy)", Ty: "MPol", NArgs: 3},
			"ratelimiter.NewPolicy":      {Fmt: "(⟨%[3]s, %[2]s, %[1]s⟩ : Policy)", Ty: "Pol", NArgs: 3},
			"ratelimiter.NewMulti":       {Fmt: "(some (%[1]s, minit %[1]s))", Ty: "ML?", NArgs: 1},
			"ratelimiter.New":            {Fmt: "(some (%[1]s, init))", Ty: "RL?", NArgs: 1},
		},
		Hook: func(t *irT, e ast.Expr, env *irEnv) (irTerm, bool, error) {
			switch x := e.(type) {
			case *ast.UnaryExpr:
				// &Limiter{}
				if cl, ok := x.X.(*ast.CompositeLit); ok && x.Op == token.AND && t.r.Src(cl.Type) == "Limiter" && len(cl.Elts) == 0 {
					return irTerm{"()", "LimPtr"}, true, nil
				}
			case *ast.CompositeLit:
				// []int{a, b, …}
				if t.r.Src(x.Type) == "[]int" {
					var parts []string
					for _, el := range x.Elts {
						v, err := t.expr(el, env)
						if err != nil {
							return irTerm{}, true, err
						}
						if v.Ty != "Int" && v.Ty != "lit" {
							return irTerm{}, true, fmt.Errorf("[]int element of type %s", v.Ty)
						}
						parts = append(parts, v.S)
					}
					s := "["
					for i, p := range parts {
						if i > 0 {
							s += ", "
						}
						s += p
					}
					return irTerm{"(" + s + "] : List Int)", "Ints"}, true, nil
				}
			}
			return irTerm{}, false, nil
		},
	}
}

func init() {
	register(Extractor{Module: "FactsC09IRb", Imports: []string{"EgVerif.Model.RateLimiterFilter", "EgVerif.Model.MultiRateLimiter"}, Run: func(r *Repo, w *Lean) error {
		w.Line("set_option linter.unusedVariables false")
		w.Line("open EgVerif.RateLimiter EgVerif.RateLimiterFilter")
		w.Line("")
		hs, err := c09HandleSpec(r)
		if err != nil {
			return err
		}
		if err := irEmit(r, w, "pkg/filters/ratelimiter/ratelimiter.go", "RateLimiter", "Handle", hs,
			"`us` = `rl.spec.URLs` as (does the rule match the request, its limiter id); `now id` = ns since limiter `id` was created;\n"+
				"`cancelled` = `<-req.Context().Done()` wins the `select`; result = `none` for a nil-pointer panic."); err != nil {
			return err
		}

		// mqttproxy newLimiter
		const mq = "pkg/object/mqttproxy/ratelimiter.go"
		s := c09MqttSpec("newLimiterIR")
		s.Binders, s.BNames, s.RetTy = "(spec : Option RateLimitSpec)", []string{"spec"}, "Limiter"
		s.Params = []irTerm{{"spec", "Spec?"}}
		s.State = []irLet{{"l_multi", "ML?", "(none : Option (MPolicy × MRL))"}, {"l_req", "RL?", "(none : Option (Policy × RL))"},
			{"l_byte", "RL?", "(none : Option (Policy × RL))"}}
		s.Ret = func(v []irTerm) (string, error) {
			if len(v) != 1 || v[0].Ty != "LimPtr" {
				return "", errUnsupportedReturn
			}
			return "(match l_multi, l_req, l_byte with\n" +
				"    | some m, _, _ => Limiter.multi m.1 m.2\n" +
				"    | none, some q, _ => Limiter.request q.1 q.2\n" +
				"    | none, none, some b => Limiter.byte b.1 b.2\n" +
				"    | none, none, none => Limiter.none)", nil
		}
		if err := irEmit(r, w, mq, "", "newLimiter", s,
			"The `*Limiter` under construction is its three fields; the result is read in the order `acquirePermission` tests them."); err != nil {
			return err
		}

		// mqttproxy Limiter.acquirePermission
		s = c09MqttSpec("limiterAcquireIR")
		s.Binders = "(lm : Option (MPolicy × MRL)) (lq lb : Option (Policy × RL)) (now byteNum : Int)"
		s.BNames, s.RetTy = []string{"lm", "lq", "lb", "now", "byteNum"}, "(Option (MPolicy × MRL) × Option (Policy × RL) × Option (Policy × RL)) × Bool"
		s.Recv = irTerm{"()", "LimPtr"}
		s.Params = []irTerm{{"byteNum", "Int"}}
		s.State = []irLet{{"l_multi", "ML?", "lm"}, {"l_req", "RL?", "lq"}, {"l_byte", "RL?", "lb"}}
		s.LeanTy["MRes"], s.LeanTy["RRes"] = "MRL × MOut", "RL × Out"
		dflM, dflR := "((⟨[], 0, 0⟩ : MPolicy), (⟨0, []⟩ : MRL))", "((⟨0, 0, 0⟩ : Policy), init)"
		s.EffMethods = map[string]irEffCall{
			// the limiters are non-nil where they are called (tested just before): getD never takes its default
			"ML?.AcquirePermission": {NArgs: 1, Fmt: "(§tmp.2.permitted, §tmp.2.wait, §tmp.2.err)", Ty: "Bool × Int × Error", Pre: []irLet{
				{"§tmp", "MRes", "(macquire (%[1]s.getD " + dflM + ").1 (%[1]s.getD " + dflM + ").2 now %[2]s)"},
				{"l_multi", "ML?", "(some ((%[1]s.getD " + dflM + ").1, §tmp.1))"}}},
			"RL?.AcquirePermission": {NArgs: 0, Fmt: "(§tmp.2.permitted, §tmp.2.wait)", Ty: "Bool × Int", Pre: []irLet{
				{"§tmp", "RRes", "(acquire (%[1]s.getD " + dflR + ").1 (%[1]s.getD " + dflR + ").2 now 1)"},
				{"%[1]s", "RL?", "(some ((%[1]s.getD " + dflR + ").1, §tmp.1))"}}},
			"RL?.AcquireNPermission": {NArgs: 1, Fmt: "(§tmp.2.permitted, §tmp.2.wait)", Ty: "Bool × Int", Pre: []irLet{
				{"§tmp", "RRes", "(acquire (%[1]s.getD " + dflR + ").1 (%[1]s.getD " + dflR + ").2 now %[2]s)"},
				{"%[1]s", "RL?", "(some ((%[1]s.getD " + dflR + ").1, §tmp.1))"}}},
		}
		s.Ret = func(v []irTerm) (string, error) {
			if len(v) != 1 || v[0].Ty != "Bool" {
				return "", errUnsupportedReturn
			}
			return "((l_multi, l_req, l_byte), " + v[0].S + ")", nil
		}
		if err := irEmit(r, w, mq, "Limiter", "acquirePermission", s,
			"`lm`, `lq`, `lb` = the three limiter fields (`none` = nil); result = (the fields afterwards, permitted)."); err != nil {
			return err
		}

		// util RateLimiter.SetState
		const ut = "pkg/util/ratelimiter/ratelimiter.go"
		disabled, err := c09IotaIndex(r, ut, "StateDisabled")
		if err != nil {
			return err
		}
		ss := &irSpec{
			Name:    "setStateIR",
			Binders: "(s : RL) (cur st : Nat)",
			BNames:  []string{"s", "cur", "st"},
			RetTy:   "RL × Nat × Bool",
			Recv:    irTerm{"()", "RLP"},
			Params:  []irTerm{{"st", "Nat"}},
			State: []irLet{{"rl_cycle", "Int", "s.cycle"}, {"rl_tokens", "Int", "s.tokens"}, {"rl_state", "Nat", "cur"},
				{"rl_start", "Start", "false"}},
			LeanTy: map[string]string{"Start": "Bool", "RLP": "Unit"},
			Fields: map[string]irField{
				"RLP.cycle":     {Fmt: "rl_cycle", Ty: "Int", State: true},
				"RLP.tokens":    {Fmt: "rl_tokens", Ty: "Int", State: true},
				"RLP.state":     {Fmt: "rl_state", Ty: "Nat", State: true},
				"RLP.startTime": {Fmt: "rl_start", Ty: "Start", State: true},
			},
			Consts: map[string]irTerm{"StateDisabled": {strconv.Itoa(disabled), "Nat"}},
			Funcs:  map[string]irCall{"nowFunc": {Fmt: "true", Ty: "Start", NArgs: 0}},
			Ignore: func(src string, st ast.Stmt) bool {
				switch st.(type) {
				case *ast.ExprStmt, *ast.DeferStmt:
					return strings.HasSuffix(src, ".lock.Lock()") || strings.HasSuffix(src, ".lock.Unlock()")
				}
				return false
			},
			Ret: func(v []irTerm) (string, error) {
				if len(v) != 0 {
					return "", errUnsupportedReturn
				}
				return "((⟨rl_cycle, rl_tokens⟩ : RL), rl_state, rl_start)", nil
			},
		}
		return irEmit(r, w, ut, "RateLimiter", "SetState", ss,
			"`cur` = `rl.state` before; result = (cycle / tokens, `rl.state`, was `startTime` reset to now).")
	}})
}
