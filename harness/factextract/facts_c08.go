package main

// Facts for C08: every CircuitBreaker method that touches the breaker's state
// runs inside the mutex (so concurrent callers are a sequential history in lock
// order), the shape of resilience.circuitBreakerWrapper.Wrap (one acquire, one
// record on each path), the order of the State / CallResult constants, and the
// proxy's mapping of ErrShortCircuited.

import (
	"fmt"
	"go/ast"
	"go/token"
	"sort"
	"strings"
)

const c08File = "pkg/util/circuitbreaker/circuitbreaker.go"

// c08LockedBeforeState: the body contains, at top level, `cb.lock.Lock()` directly followed by
// `defer cb.lock.Unlock()`, and no statement before it mentions a field of the receiver other
// than the immutable `policy`.
func c08LockedBeforeState(r *Repo, fd *ast.FuncDecl) bool {
	if fd.Body == nil || fd.Recv == nil || len(fd.Recv.List) != 1 || len(fd.Recv.List[0].Names) != 1 {
		return false
	}
	recv := fd.Recv.List[0].Names[0].Name
	for i, st := range fd.Body.List {
		if r.Src(st) == recv+".lock.Lock()" {
			return i+1 < len(fd.Body.List) && r.Src(fd.Body.List[i+1]) == "defer "+recv+".lock.Unlock()"
		}
		bad := false
		ast.Inspect(st, func(n ast.Node) bool {
			if se, ok := n.(*ast.SelectorExpr); ok {
				if id, ok := se.X.(*ast.Ident); ok && id.Name == recv && se.Sel.Name != "policy" {
					bad = true
				}
			}
			return true
		})
		if bad {
			return false
		}
	}
	return false
}

// c08Touches: the method assigns to a receiver field (other than listener), increments one, calls
// transitTo or pushes to the window.
func c08Touches(r *Repo, fd *ast.FuncDecl) (writes bool, transits bool) {
	if fd.Body == nil || fd.Recv == nil || len(fd.Recv.List) != 1 || len(fd.Recv.List[0].Names) != 1 {
		return
	}
	recv := fd.Recv.List[0].Names[0].Name
	isField := func(e ast.Expr) bool {
		se, ok := e.(*ast.SelectorExpr)
		if !ok {
			return false
		}
		id, ok := se.X.(*ast.Ident)
		return ok && id.Name == recv
	}
	ast.Inspect(fd.Body, func(n ast.Node) bool {
		switch x := n.(type) {
		case *ast.AssignStmt:
			for _, l := range x.Lhs {
				if isField(l) {
					writes = true
				}
			}
		case *ast.IncDecStmt:
			if isField(x.X) {
				writes = true
			}
		case *ast.CallExpr:
			s := r.Src(x.Fun)
			if s == recv+".transitTo" {
				transits = true
			}
			if s == recv+".window.Push" || s == recv+".window.Reset" {
				writes = true
			}
		}
		return true
	})
	return
}

func c08IotaNames(r *Repo, rel, first string) ([]string, error) {
	f, err := r.File(rel)
	if err != nil {
		return nil, err
	}
	for _, d := range f.Decls {
		gd, ok := d.(*ast.GenDecl)
		if !ok || gd.Tok != token.CONST {
			continue
		}
		var names []string
		for _, s := range gd.Specs {
			vs := s.(*ast.ValueSpec)
			for _, n := range vs.Names {
				names = append(names, n.Name)
			}
		}
		if len(names) > 0 && names[0] == first {
			vs := gd.Specs[0].(*ast.ValueSpec)
			if len(vs.Values) != 1 || r.Src(vs.Values[0]) != "iota" {
				return nil, fmt.Errorf("%s: const block %s does not start with iota", rel, first)
			}
			for _, s := range gd.Specs[1:] {
				if len(s.(*ast.ValueSpec).Values) != 0 {
					return nil, fmt.Errorf("%s: const block %s has explicit values", rel, first)
				}
			}
			return names, nil
		}
	}
	return nil, fmt.Errorf("%s: const block starting with %s not found", rel, first)
}

func init() {
	register(Extractor{Module: "FactsC08", Run: func(r *Repo, w *Lean) error {
		ms, err := r.Methods(c08File, "CircuitBreaker")
		if err != nil {
			return err
		}
		var locked, writers, transiters []string
		var rows []string
		for _, fd := range ms {
			l := c08LockedBeforeState(r, fd)
			wr, tr := c08Touches(r, fd)
			rows = append(rows, fmt.Sprintf("(%s, %s)", Str(fd.Name.Name), Bool(l)))
			if l {
				locked = append(locked, fd.Name.Name)
			}
			if wr {
				writers = append(writers, fd.Name.Name)
			}
			if tr {
				transiters = append(transiters, fd.Name.Name)
			}
		}
		if len(ms) == 0 {
			return fmt.Errorf("no CircuitBreaker methods")
		}
		sort.Strings(writers)
		sort.Strings(transiters)
		w.Line("/-- per method of `CircuitBreaker`: does it take `cb.lock` (with deferred unlock) before touching any field but `policy`? -/")
		w.Line("def lockedMethods : List (String × Bool) := [%s]", strings.Join(rows, ", "))
		w.Line("/-- methods that write a field of the breaker or push to its window -/")
		w.Line("def stateWriters : List String := %s", StrList(writers))
		w.Line("/-- methods that call `transitTo` -/")
		w.Line("def transitCallers : List String := %s", StrList(transiters))
		f, err := r.File(c08File)
		if err != nil {
			return err
		}
		w.Line("/-- `time.Now` is mentioned once (the initialiser of `nowFunc`): every clock read goes through `nowFunc`. -/")
		cnt := 0
		ast.Inspect(f, func(n ast.Node) bool {
			if se, ok := n.(*ast.SelectorExpr); ok && r.Src(se) == "time.Now" {
				cnt++
			}
			return true
		})
		w.Line("def timeNowMentions : Nat := %d", cnt)
		st, err := c08IotaNames(r, c08File, "StateDisabled")
		if err != nil {
			return err
		}
		w.Line("def stateConsts : List String := %s", StrList(st))
		cr, err := c08IotaNames(r, c08File, "CallResultUnknown")
		if err != nil {
			return err
		}
		w.Line("def callResultConsts : List String := %s", StrList(cr))

		// resilience.circuitBreakerWrapper.Wrap
		wf, err := r.Func("pkg/resilience/circuitbreaker.go", "circuitBreakerWrapper", "Wrap")
		if err != nil {
			return err
		}
		w.Line("/-- calls of `w.AcquirePermission` / `w.RecordResult` / `handler` in `Wrap` -/")
		w.Line("def wrapAcquireCalls : Nat := %d", r.CountCalls(wf.Body, "w.AcquirePermission"))
		w.Line("def wrapRecordCalls : Nat := %d", r.CountCalls(wf.Body, "w.RecordResult"))
		w.Line("def wrapHandlerCalls : Nat := %d", r.CountCalls(wf.Body, "handler"))
		// statement sequence of the returned closure, abstracted
		var seq []string
		ast.Inspect(wf.Body, func(n ast.Node) bool {
			fl, ok := n.(*ast.FuncLit)
			if !ok || len(seq) > 0 {
				return true
			}
			for _, st := range fl.Body.List {
				s := r.Src(st)
				switch {
				case strings.HasPrefix(s, "permitted, stateID := w.AcquirePermission()"):
					seq = append(seq, "acquire")
				case strings.HasPrefix(s, "if !permitted { return ErrShortCircuited }"):
					seq = append(seq, "reject")
				case s == "panicked := true":
					seq = append(seq, "panicked:=true")
				case strings.HasPrefix(s, "defer func() { if panicked { w.RecordResult(stateID, true,"):
					seq = append(seq, "defer-record-failure-if-panicked")
				case s == "err = handler(ctx)":
					seq = append(seq, "handler")
				case strings.HasPrefix(s, "w.RecordResult(stateID, err != nil,"):
					seq = append(seq, "record")
				case s == "panicked = false":
					seq = append(seq, "panicked=false")
				case s == "return err":
					seq = append(seq, "return")
				case strings.HasPrefix(s, "var err error"), strings.HasPrefix(s, "start := time.Now()"):
				default:
					seq = append(seq, "other:"+s)
				}
			}
			return false
		})
		w.Line("/-- the statements of the closure returned by `Wrap`, abstracted -/")
		w.Line("def wrapShape : List String := %s", StrList(seq))

		// proxy mapping
		hf, err := r.Func("pkg/filters/proxy/pool.go", "ServerPool", "handle")
		if err != nil {
			return err
		}
		var block []string
		ast.Inspect(hf.Body, func(n ast.Node) bool {
			is, ok := n.(*ast.IfStmt)
			if !ok || r.Src(is.Cond) != "err == resilience.ErrShortCircuited" {
				return true
			}
			for _, st := range is.Body.List {
				s := r.Src(st)
				if strings.HasPrefix(s, "logger.") || strings.HasPrefix(s, "spCtx.AddTag(") {
					continue
				}
				block = append(block, s)
			}
			return false
		})
		w.Line("/-- body of `if err == resilience.ErrShortCircuited` in `ServerPool.handle` (logging / tags dropped) -/")
		w.Line("def shortCircuitBlock : List String := %s", StrList(block))
		v, err := r.PkgValue("pkg/filters/proxy/proxy.go", "resultShortCircuited")
		if err != nil {
			return err
		}
		w.Line("def resultShortCircuited : String := %s", r.Src(v))
		return nil
	}})
}
