package main

// Facts for C06: the structure of Validator.Handle (order of the checks, status
// per check, what is handed to Signer.Verify), how parseCredentials splits,
// the constants and default literals of the signer, the order in which the
// canonical request and the string to sign are written, and the order of the
// checks in Signer.Verify.

import (
	"fmt"
	"go/ast"
	"go/token"
	"strconv"
	"strings"
)

func c06StrConst(r *Repo, rel, name string) (string, error) {
	e, err := r.PkgValue(rel, name)
	if err != nil {
		return "", err
	}
	bl, ok := e.(*ast.BasicLit)
	if !ok || bl.Kind != token.STRING {
		return "", fmt.Errorf("%s: %s is not a string literal", rel, name)
	}
	return strconv.Unquote(bl.Value)
}

// c06Writes lists, in order, the arguments of buf.WriteString / buf.WriteByte calls in a function body.
func c06Writes(r *Repo, body *ast.BlockStmt, recv string) []string {
	var out []string
	ast.Inspect(body, func(n ast.Node) bool {
		ce, ok := n.(*ast.CallExpr)
		if !ok {
			return true
		}
		f := r.Src(ce.Fun)
		if (f == recv+".WriteString" || f == recv+".WriteByte") && len(ce.Args) == 1 {
			out = append(out, r.Src(ce.Args[0]))
		}
		return true
	})
	return out
}

func init() {
	register(Extractor{Module: "FactsC06", Run: func(r *Repo, w *Lean) error {
		const vgo = "pkg/filters/validator/validator.go"
		const sgo = "pkg/util/signer/signer.go"
		fd, err := r.Func(vgo, "Validator", "Handle")
		if err != nil {
			return err
		}
		// order of the `if v.X != nil` blocks, the status used inside each, and every return expression
		var order, statuses, returns []string
		verifyArg := ""
		for _, st := range fd.Body.List {
			is, ok := st.(*ast.IfStmt)
			if !ok {
				continue
			}
			cond := r.Src(is.Cond)
			if !strings.HasPrefix(cond, "v.") || !strings.HasSuffix(cond, " != nil") {
				continue
			}
			name := strings.TrimSuffix(strings.TrimPrefix(cond, "v."), " != nil")
			order = append(order, name)
			status := ""
			ast.Inspect(is.Body, func(n ast.Node) bool {
				if ce, ok := n.(*ast.CallExpr); ok {
					// the error-response helper (a local function literal, whatever its name): first argument = status
					if _, isIdent := ce.Fun.(*ast.Ident); isIdent && len(ce.Args) > 0 && strings.HasPrefix(r.Src(ce.Args[0]), "http.Status") {
						status = r.Src(ce.Args[0])
					}
					if r.Src(ce.Fun) == "v.signer.Verify" && len(ce.Args) == 1 {
						verifyArg = r.Src(ce.Args[0])
					}
				}
				return true
			})
			statuses = append(statuses, status)
		}
		ast.Inspect(fd.Body, func(n ast.Node) bool {
			if _, ok := n.(*ast.FuncLit); ok {
				return false
			}
			if rs, ok := n.(*ast.ReturnStmt); ok && len(rs.Results) == 1 {
				returns = append(returns, r.Src(rs.Results[0]))
			}
			return true
		})
		src := r.Src(fd.Body)
		w.Line("/-- `Validator.Handle`: the `if v.X != nil` blocks in source order -/")
		w.Line("def handleOrder : List String := %s", StrList(order))
		w.Line("/-- status passed to `prepareErrorResponse` in each block -/")
		w.Line("def handleStatuses : List String := %s", StrList(statuses))
		w.Line("/-- every `return` expression of `Handle` -/")
		w.Line("def handleReturns : List String := %s", StrList(returns))
		w.Line("/-- argument of `v.signer.Verify(…)` -/")
		w.Line("def verifyArg : String := %s", Str(verifyArg))
		w.Line("/-- `Handle` hands `Verify` the raw `req.Std()` (whose Body `FetchPayload` drained) and never mentions the payload -/")
		w.Line("def verifyGetsDrainedStd : Bool := %s", Bool(verifyArg == "req.Std()" || !(strings.Contains(src, "GetPayload()") || strings.Contains(src, "RawPayload()"))))
		ri, err := c06StrConst(r, vgo, "resultInvalid")
		if err != nil {
			return err
		}
		w.Line("def resultInvalid : String := %s", Str(ri))

		// parseCredentials: the split call
		pc, err := r.Func("pkg/filters/validator/basicauth.go", "", "parseCredentials")
		if err != nil {
			return err
		}
		splitAll := false
		ast.Inspect(pc.Body, func(n ast.Node) bool {
			if ce, ok := n.(*ast.CallExpr); ok && r.Src(ce.Fun) == "strings.Split" {
				splitAll = true
			}
			return true
		})
		w.Line("/-- `parseCredentials` splits at *every* colon (`strings.Split`) -/")
		w.Line("def parseCredentialsSplitsAll : Bool := %s", Bool(splitAll))

		// prefixes
		for _, it := range []struct{ file, recv, fn, lean string }{
			{"pkg/filters/validator/jwt.go", "JWTValidator", "Validate", "jwtPrefix"},
			{"pkg/filters/validator/basicauth.go", "", "parseBasicAuthorizationHeader", "basicPrefix"},
		} {
			f, err := r.Func(it.file, it.recv, it.fn)
			if err != nil {
				return err
			}
			val := ""
			ast.Inspect(f.Body, func(n ast.Node) bool {
				if vs, ok := n.(*ast.ValueSpec); ok && len(vs.Names) == 1 && vs.Names[0].Name == "prefix" && len(vs.Values) == 1 {
					if bl, ok := vs.Values[0].(*ast.BasicLit); ok {
						val, _ = strconv.Unquote(bl.Value)
					}
				}
				return true
			})
			w.Line("def %s : String := %s", it.lean, Str(val))
		}

		// signer constants and default literal
		for _, c := range []string{"dateFormat", "timeFormat", "unsignedPayload", "sha256Empty", "authHeader", "hostHeader"} {
			v, err := c06StrConst(r, sgo, c)
			if err != nil {
				return err
			}
			w.Line("def %s : String := %s", c, Str(v))
		}
		dl, err := r.PkgValue(sgo, "defaultLiteral")
		if err != nil {
			return err
		}
		var lits []string
		ast.Inspect(dl, func(n ast.Node) bool {
			if kv, ok := n.(*ast.KeyValueExpr); ok {
				if bl, ok := kv.Value.(*ast.BasicLit); ok {
					v, _ := strconv.Unquote(bl.Value)
					lits = append(lits, r.Src(kv.Key)+"="+v)
				}
			}
			return true
		})
		w.Line("/-- `defaultLiteral` as `Field=value` -/")
		w.Line("def defaultLiteral : List String := %s", StrList(lits))
		nw, err := r.Func(sgo, "", "New")
		if err != nil {
			return err
		}
		var ign []string
		ast.Inspect(nw.Body, func(n ast.Node) bool {
			if kv, ok := n.(*ast.KeyValueExpr); ok && r.Src(kv.Value) == "true" {
				k := r.Src(kv.Key)
				if k == "authHeader" {
					k, _ = c06StrConst(r, sgo, "authHeader")
				} else if u, err := strconv.Unquote(k); err == nil {
					k = u
				}
				ign = append(ign, k)
			}
			return true
		})
		w.Line("/-- headers `New()` always ignores -/")
		w.Line("def alwaysIgnored : List String := %s", StrList(ign))

		// order of writes
		hc, err := r.Func(sgo, "SigningContext", "hashCanonicalRequest")
		if err != nil {
			return err
		}
		w.Line("/-- `hashCanonicalRequest`: what is written into the buffer, in order -/")
		w.Line("def canonicalRequestWrites : List String := %s", StrList(c06Writes(r, hc.Body, "buf")))
		sg, err := r.Func(sgo, "SigningContext", "sign")
		if err != nil {
			return err
		}
		w.Line("/-- `sign`: the string to sign, in order -/")
		w.Line("def stringToSignWrites : List String := %s", StrList(c06Writes(r, sg.Body, "buf")))

		// Verify: order of the failure messages; hashBody is called with verify=true
		vf, err := r.Func(sgo, "Signer", "Verify")
		if err != nil {
			return err
		}
		var errs []string
		hashBodyVerify := false
		ast.Inspect(vf.Body, func(n ast.Node) bool {
			if ce, ok := n.(*ast.CallExpr); ok {
				switch r.Src(ce.Fun) {
				case "fmt.Errorf":
					if len(ce.Args) > 0 {
						if bl, ok := ce.Args[0].(*ast.BasicLit); ok {
							s, _ := strconv.Unquote(bl.Value)
							errs = append(errs, s)
						}
					}
				case "ctx.hashBody":
					hashBodyVerify = len(ce.Args) == 2 && r.Src(ce.Args[1]) == "true"
				}
			}
			return true
		})
		w.Line("/-- `Verify`: error messages in source order -/")
		w.Line("def verifyErrors : List String := %s", StrList(errs))
		w.Line("def verifyIgnoresBodyHashHeader : Bool := %s", Bool(hashBodyVerify))
		w.Line("/-- number of wall-clock reads in `Verify` -/")
		w.Line("def verifyClockReads : Nat := %d", r.CountCalls(vf.Body, "time.Now"))
		return nil
	}})
}
