package main

// Regenerated tie by translation for C18 (irlib.go, notes/IR.md, notes/C18.md "Extension cluster"):
//
//   pkg/api/object.go   createObject / updateObject / deleteObject / upgradeConfigVersion
//   pkg/api/cluster.go  _getVersion / _plusOneVersion / _getObject / _putObject / _deleteObject
//   pkg/api/server.go   Server.Lock / Server.Unlock
//   pkg/cluster/mutex.go  mutex.Lock / mutex.Unlock
//
// → Gen.FactsC18IR.*IR; `<fn>_regenerated_from_source` (Proofs/AdminAPIIR.lean,
// Proofs/ClusterMutexIR.lean, re-exported by Props/C18.lean) prove them equal to the hand-written
// functions of Model/AdminAPI.lean and Model/ClusterMutex.lean for all inputs.
//
// `defer`, named results and `ClusterPanic` are outside irlib's subset; they are removed by a
// source-to-source desugaring of the function body *before* the translation (c18Desugar):
//
//   * a top-level `defer f()` / `defer func() { … }()` is run — last deferred first — in front of every
//     `return` that follows it (after the results have been evaluated into temporaries) and at the end
//     of a body without results. Deferred calls must have no arguments, deferred closures no
//     parameters and no `return`; a `defer` below the top level, or a `panic` while a defer is
//     pending (Go would run the deferred calls during unwinding), fails the extraction;
//   * named results become `var` declarations at the top of the body, `return` = `return <names>`,
//     `return e` = `<names> = e; <deferred>; return <names>`;
//   * a call statement of a configured never-returning function (`ClusterPanic`) becomes `panic(…)`.
//
// Calls of the `cancel` functions returned by `context.WithTimeout` are ignored (listed).

import (
	"fmt"
	"go/ast"
	"go/token"
	"strconv"
	"strings"
)

type c18Desugarer struct {
	r          *Repo
	panicFuncs map[string]bool
	named      []string // named results
	nres       int
	ntmp       int
}

func (d *c18Desugarer) deferredStmts(ds *ast.DeferStmt) ([]ast.Stmt, error) {
	if len(ds.Call.Args) != 0 {
		return nil, fmt.Errorf("deferred call with arguments not supported: %s", d.r.Src(ds))
	}
	if fl, ok := ds.Call.Fun.(*ast.FuncLit); ok {
		if fl.Type.Params != nil && len(fl.Type.Params.List) != 0 {
			return nil, fmt.Errorf("deferred closure with parameters: %s", d.r.Src(ds))
		}
		bad := false
		ast.Inspect(fl.Body, func(n ast.Node) bool {
			switch n.(type) {
			case *ast.ReturnStmt, *ast.DeferStmt:
				bad = true
			case *ast.FuncLit:
				return false
			}
			return true
		})
		if bad {
			return nil, fmt.Errorf("return / defer inside a deferred closure: %s", d.r.Src(ds))
		}
		return []ast.Stmt{&ast.BlockStmt{List: fl.Body.List}}, nil
	}
	return []ast.Stmt{&ast.ExprStmt{X: ds.Call}}, nil
}

func c18Simple(e ast.Expr) bool {
	switch x := e.(type) {
	case *ast.BasicLit:
		return true
	case *ast.Ident:
		return x.Name == "nil" || x.Name == "true" || x.Name == "false"
	}
	return false
}

// ret rewrites one return statement with the pending deferred statements (outermost last).
func (d *c18Desugarer) ret(x *ast.ReturnStmt, deferred []ast.Stmt) (ast.Stmt, error) {
	if len(deferred) == 0 && len(d.named) == 0 {
		return x, nil
	}
	var out []ast.Stmt
	var results []ast.Expr
	switch {
	case len(d.named) > 0:
		for _, n := range d.named {
			results = append(results, ast.NewIdent(n))
		}
		if len(x.Results) != 0 {
			if len(x.Results) != len(d.named) {
				return nil, fmt.Errorf("unsupported return %s", d.r.Src(x))
			}
			out = append(out, &ast.AssignStmt{Lhs: results, Tok: token.ASSIGN, Rhs: x.Results})
		}
	case len(x.Results) == 0:
	default:
		if len(x.Results) != d.nres {
			return nil, fmt.Errorf("unsupported return %s", d.r.Src(x))
		}
		for _, e := range x.Results {
			if c18Simple(e) {
				results = append(results, e)
				continue
			}
			d.ntmp++
			tmp := ast.NewIdent("ret" + strconv.Itoa(d.ntmp))
			out = append(out, &ast.AssignStmt{Lhs: []ast.Expr{tmp}, Tok: token.DEFINE, Rhs: []ast.Expr{e}})
			results = append(results, tmp)
		}
	}
	out = append(out, deferred...)
	out = append(out, &ast.ReturnStmt{Results: results})
	if len(out) == 1 {
		return out[0], nil
	}
	return &ast.BlockStmt{List: out}, nil
}

// list rewrites a statement list; top = the function body itself (where `defer` is allowed).
func (d *c18Desugarer) list(l []ast.Stmt, deferred []ast.Stmt, top bool) ([]ast.Stmt, error) {
	var out []ast.Stmt
	for i, s := range l {
		if ds, ok := s.(*ast.DeferStmt); ok {
			if !top {
				return nil, fmt.Errorf("defer below the top level of the function: %s", d.r.Src(s))
			}
			dd, err := d.deferredStmts(ds)
			if err != nil {
				return nil, err
			}
			rest, err := d.list(l[i+1:], append(append([]ast.Stmt{}, dd...), deferred...), true)
			if err != nil {
				return nil, err
			}
			return append(out, rest...), nil
		}
		n, err := d.stmt(s, deferred)
		if err != nil {
			return nil, err
		}
		out = append(out, n)
	}
	return out, nil
}

func (d *c18Desugarer) block(b *ast.BlockStmt, deferred []ast.Stmt) (*ast.BlockStmt, error) {
	if b == nil {
		return nil, nil
	}
	l, err := d.list(b.List, deferred, false)
	if err != nil {
		return nil, err
	}
	return &ast.BlockStmt{List: l}, nil
}

func (d *c18Desugarer) stmt(s ast.Stmt, deferred []ast.Stmt) (ast.Stmt, error) {
	switch x := s.(type) {
	case *ast.ReturnStmt:
		return d.ret(x, deferred)
	case *ast.ExprStmt:
		if ce, ok := x.X.(*ast.CallExpr); ok {
			f := d.r.Src(ce.Fun)
			if d.panicFuncs[f] || f == "panic" {
				if len(deferred) != 0 {
					return nil, fmt.Errorf("panic while a defer is pending is not modelled: %s", d.r.Src(s))
				}
				if d.panicFuncs[f] {
					return &ast.ExprStmt{X: &ast.CallExpr{Fun: ast.NewIdent("panic"), Args: ce.Args}}, nil
				}
			}
		}
		return s, nil
	case *ast.BlockStmt:
		return d.block(x, deferred)
	case *ast.IfStmt:
		n := *x
		b, err := d.block(x.Body, deferred)
		if err != nil {
			return nil, err
		}
		n.Body = b
		if x.Else != nil {
			e, err := d.stmt(x.Else, deferred)
			if err != nil {
				return nil, err
			}
			n.Else = e
		}
		return &n, nil
	case *ast.SwitchStmt:
		n := *x
		nb := &ast.BlockStmt{}
		for _, c := range x.Body.List {
			cc := *(c.(*ast.CaseClause))
			l, err := d.list(cc.Body, deferred, false)
			if err != nil {
				return nil, err
			}
			cc.Body = l
			nb.List = append(nb.List, &cc)
		}
		n.Body = nb
		return &n, nil
	case *ast.ForStmt:
		n := *x
		b, err := d.block(x.Body, deferred)
		if err != nil {
			return nil, err
		}
		n.Body = b
		return &n, nil
	case *ast.RangeStmt:
		n := *x
		b, err := d.block(x.Body, deferred)
		if err != nil {
			return nil, err
		}
		n.Body = b
		return &n, nil
	case *ast.DeferStmt:
		return nil, fmt.Errorf("defer below the top level of the function: %s", d.r.Src(s))
	case *ast.SelectStmt, *ast.TypeSwitchStmt, *ast.LabeledStmt, *ast.GoStmt:
		return nil, fmt.Errorf("unsupported statement %s", d.r.Src(s))
	}
	return s, nil
}

// c18Desugar returns a copy of fd without defers / named results / panic functions, and the names of
// the cancel functions bound from context.WithTimeout.
func c18Desugar(r *Repo, fd *ast.FuncDecl, panicFuncs map[string]bool) (*ast.FuncDecl, map[string]bool, error) {
	if fd.Body == nil {
		return nil, nil, fmt.Errorf("%s: no body", fd.Name.Name)
	}
	d := &c18Desugarer{r: r, panicFuncs: panicFuncs}
	nfd := *fd
	nty := *fd.Type
	var pre []ast.Stmt
	if fd.Type.Results != nil {
		res := &ast.FieldList{}
		for _, f := range fd.Type.Results.List {
			if len(f.Names) == 0 {
				d.nres++
				res.List = append(res.List, f)
				continue
			}
			for _, n := range f.Names {
				d.nres++
				d.named = append(d.named, n.Name)
				res.List = append(res.List, &ast.Field{Type: f.Type})
				pre = append(pre, &ast.DeclStmt{Decl: &ast.GenDecl{Tok: token.VAR,
					Specs: []ast.Spec{&ast.ValueSpec{Names: []*ast.Ident{ast.NewIdent(n.Name)}, Type: f.Type}}}})
			}
		}
		if len(d.named) != 0 && len(d.named) != d.nres {
			return nil, nil, fmt.Errorf("%s: mixed named / unnamed results", fd.Name.Name)
		}
		nty.Results = res
	}
	body := append([]ast.Stmt{}, fd.Body.List...)
	if d.nres == 0 {
		if n := len(body); n == 0 || func() bool { _, ok := body[n-1].(*ast.ReturnStmt); return !ok }() {
			body = append(body, &ast.ReturnStmt{})
		}
	}
	l, err := d.list(body, nil, true)
	if err != nil {
		return nil, nil, fmt.Errorf("%s: %v", fd.Name.Name, err)
	}
	nfd.Type = &nty
	nfd.Body = &ast.BlockStmt{List: append(pre, l...)}
	cancels := map[string]bool{}
	ast.Inspect(fd.Body, func(n ast.Node) bool {
		if as, ok := n.(*ast.AssignStmt); ok && len(as.Lhs) == 2 && len(as.Rhs) == 1 {
			if ce, ok := as.Rhs[0].(*ast.CallExpr); ok && r.Src(ce.Fun) == "context.WithTimeout" {
				if id, ok := as.Lhs[1].(*ast.Ident); ok {
					cancels[id.Name] = true
				}
			}
		}
		return true
	})
	return &nfd, cancels, nil
}

// c18Emit = irEmit on the desugared body.
func c18Emit(r *Repo, w *Lean, rel, recv, fn string, spec *irSpec, doc string) error {
	fd, err := r.Func(rel, recv, fn)
	if err != nil {
		return err
	}
	nfd, cancels, err := c18Desugar(r, fd, map[string]bool{"ClusterPanic": true})
	if err != nil {
		return err
	}
	inner := spec.Ignore
	spec.Ignore = func(src string, s ast.Stmt) bool {
		if es, ok := s.(*ast.ExprStmt); ok {
			if ce, ok := es.X.(*ast.CallExpr); ok && len(ce.Args) == 0 {
				if id, ok := ce.Fun.(*ast.Ident); ok && cancels[id.Name] {
					return true
				}
			}
		}
		return inner != nil && inner(src, s)
	}
	def, skipped, err := irTranslate(r, nfd, spec)
	if err != nil {
		return err
	}
	w.Line("/-! Translated from the body of `%s.%s` in %s (defers / named results / `ClusterPanic` desugared by", recv, fn, rel)
	w.Line("harness/factextract/facts_c18_ir.go, then go/ast → Lean by harness/factextract/irlib.go).")
	if doc != "" {
		w.Line("%s", doc)
	}
	if len(skipped) > 0 {
		w.Line("Ignored statements (no modelled effect):")
		for _, s := range skipped {
			w.Line("  * `%s`", strings.ReplaceAll(s, "-/", "- /"))
		}
	}
	w.Line("-/")
	w.sb.WriteString(def)
	w.Line("")
	return nil
}

// ---------------------------------------------------------------------------
// pkg/api

// c18Hook: `fmt.Sprintf("%d", n)` is the number itself (type Dec: a decimal rendering is kept as the
// number it denotes); `*p` of an optional value.
func c18Hook(t *irT, e ast.Expr, env *irEnv) (irTerm, bool, error) {
	switch x := e.(type) {
	case *ast.CallExpr:
		if t.r.Src(x.Fun) == "fmt.Sprintf" && len(x.Args) == 2 {
			if bl, ok := x.Args[0].(*ast.BasicLit); ok && bl.Kind == token.STRING && bl.Value == `"%d"` {
				v, err := t.expr(x.Args[1], env)
				if err != nil {
					return irTerm{}, true, err
				}
				if v.Ty != "Nat" {
					return irTerm{}, true, fmt.Errorf("fmt.Sprintf(\"%%d\") of %s", v.Ty)
				}
				return irTerm{v.S, "Dec"}, true, nil
			}
		}
	case *ast.StarExpr:
		v, err := t.expr(x.X, env)
		if err != nil {
			return irTerm{}, true, err
		}
		switch v.Ty {
		case "OptDec":
			return irTerm{"(" + v.S + ".getD 0)", "Dec"}, true, nil
		case "OptYaml":
			return irTerm{"(" + v.S + ".getD ⟨\"\", \"\"⟩)", "Yaml"}, true, nil
		}
		return irTerm{}, true, fmt.Errorf("dereference of %s", v.Ty)
	}
	return irTerm{}, false, nil
}

func c18APISpec(name, binders string, bnames []string, retTy string) *irSpec {
	return &irSpec{
		Name: name, Binders: binders, BNames: bnames, RetTy: retTy,
		Recv:   irTerm{"()", "Server"},
		LeanTy: map[string]string{"Dec": "Nat", "OptDec": "Option Nat", "Yaml": "Obj", "OptYaml": "Option Obj", "OptObj": "Option Obj", "CMutex": "Unit"},
		Fields: map[string]irField{
			"Server.cluster": {Fmt: "()", Ty: "Cluster"},
			"Server.super":   {Fmt: "()", Ty: "Super"},
		},
		Consts: map[string]irTerm{
			"http.StatusBadRequest": {"400", "Nat"}, "http.StatusConflict": {"409", "Nat"},
			"http.StatusNotFound": {"404", "Nat"}, "http.StatusCreated": {"201", "Nat"}, "http.StatusOK": {"200", "Nat"},
		},
		Funcs: map[string]irCall{
			"fmt.Errorf":       {Fmt: "true", Ty: "Error", NArgs: -1},
			"strconv.ParseInt": {Fmt: "(parseDec %[1]s)", Ty: "Nat × Error", NArgs: 3},
		},
		Methods: map[string]irCall{
			"Cluster.Layout":          {Fmt: "()", Ty: "Layout", NArgs: 0},
			"Layout.ConfigVersion":    {Fmt: "Key.version", Ty: "Key", NArgs: 0},
			"Layout.ConfigObjectKey":  {Fmt: "(Key.object %[2]s)", Ty: "Key", NArgs: 1},
			"Super.NewSpec":           {Fmt: "(newSpec %[2]s)", Ty: "Obj × Error", NArgs: 1},
			"Spec.Name":               {Fmt: "%[1]s.name", Ty: "String", NArgs: 0},
			"Spec.Kind":               {Fmt: "%[1]s.obj.kind", Ty: "String", NArgs: 0},
			"Spec.YAMLConfig":         {Fmt: "%[1]s.obj", Ty: "Yaml", NArgs: 0},
			"OptObj.Kind":             {Fmt: "(kindOf %[1]s)", Ty: "String", NArgs: 0},
			"W.Header":                {Fmt: "()", Ty: "Hdr", NArgs: 0},
			"Server.readObjectSpec":   {Fmt: "(sp0, rdErr0)", Ty: "Spec × Error", NArgs: 2},
			"Server.getMutex":         {Fmt: "((), gmErr)", Ty: "CMutex × Error", NArgs: 0},
		},
		StmtMethods: map[string]irStmtCall{},
		StmtFuncs:   map[string]irStmtCall{},
		EffMethods:  map[string]irEffCall{},
		Hook:        c18Hook,
		Panic:       "none",
	}
}

// handler level (object.go): etcd round trips succeed; `lk` = between s.Lock() and s.Unlock(),
// `bad` = an etcd access happened while `lk` was false.
func c18HandlerSpec(r *Repo, name, binders string, bnames []string) (*irSpec, error) {
	s := c18APISpec(name, binders, bnames, "HOut")
	s.Params = []irTerm{{"()", "W"}, {"()", "R"}}
	s.State = []irLet{{"kv", "Etcd", "e0"}, {"rw", "RW", "RW.init"}, {"lk", "Bool", "false"}, {"bad", "Bool", "false"}}
	cv, err := r.PkgValue("pkg/api/api.go", "ConfigVersionKey")
	if err != nil {
		return nil, err
	}
	bl, ok := cv.(*ast.BasicLit)
	if !ok || bl.Kind != token.STRING {
		return nil, fmt.Errorf("ConfigVersionKey is not a string literal")
	}
	key, err := strconv.Unquote(bl.Value)
	if err != nil {
		return nil, err
	}
	s.Consts["ConfigVersionKey"] = irTerm{Str(key), "String"}
	s.Funcs["chi.URLParam"] = irCall{Fmt: "name0", Ty: "String", NArgs: 2}
	access := irLet{"bad", "Bool", "(bad || !lk)"}
	s.EffMethods["Server._getObject"] = irEffCall{NArgs: 1, Pre: []irLet{access}, Fmt: "(kv.store.get %[2]s)", Ty: "OptObj"}
	s.EffMethods["Server._plusOneVersion"] = irEffCall{NArgs: 0, Pre: []irLet{access, {"kv", "Etcd", "{ kv with version := kv.version + 1 }"}},
		Fmt: "kv.version", Ty: "Nat"}
	s.StmtMethods["Server.Lock"] = irStmtCall{NArgs: 0, Lets: []irLet{{"lk", "Bool", "true"}}}
	s.StmtMethods["Server.Unlock"] = irStmtCall{NArgs: 0, Lets: []irLet{{"lk", "Bool", "false"}}}
	s.StmtMethods["Server._putObject"] = irStmtCall{NArgs: 1, Lets: []irLet{access,
		{"kv", "Etcd", "{ kv with store := kv.store.put %[2]s.name %[2]s.obj }"}}}
	s.StmtMethods["Server._deleteObject"] = irStmtCall{NArgs: 1, Lets: []irLet{access,
		{"kv", "Etcd", "{ kv with store := kv.store.del %[2]s }"}}}
	s.StmtMethods["Server.upgradeConfigVersion"] = irStmtCall{NArgs: 2, Lets: []irLet{access,
		{"u__", "Etcd × RW", "upgradeConfigVersion kv rw"}, {"kv", "Etcd", "u__.1"}, {"rw", "RW", "u__.2"}}}
	s.StmtMethods["W.WriteHeader"] = irStmtCall{NArgs: 1, Lets: []irLet{{"rw", "RW", "(rw.writeHeader %[2]s)"}}}
	s.StmtMethods["Hdr.Set"] = irStmtCall{NArgs: 2, Lets: []irLet{{"rw", "RW", "(rw.setHdr %[2]s %[3]s)"}}}
	s.StmtFuncs["HandleAPIError"] = irStmtCall{NArgs: 4, Lets: []irLet{{"rw", "RW", "(rw.writeHeader %[3]s)"}}}
	s.Ignore = func(src string, st ast.Stmt) bool {
		// the Location header of createObject (set after WriteHeader, i.e. never sent) is not modelled
		return strings.HasPrefix(src, "location := fmt.Sprintf(") || strings.HasPrefix(src, `w.Header().Set("Location", `)
	}
	s.Ret = func(v []irTerm) (string, error) {
		if len(v) != 0 {
			return "", errUnsupportedReturn
		}
		return "(⟨kv, rw, lk, bad⟩ : HOut)", nil
	}
	return s, nil
}

// helper level (cluster.go): one function each, etcd errors are oracles, `none` = ClusterPanic / panic.
func c18HelperSpec(name, binders string, bnames []string, retTy string) *irSpec {
	s := c18APISpec(name, binders, bnames, retTy)
	s.State = []irLet{{"kv", "Etcd", "e0"}}
	return s
}

func c18OptRet(inner func(v []irTerm) (string, bool)) func(v []irTerm) (string, error) {
	return func(v []irTerm) (string, error) {
		if s, ok := inner(v); ok {
			return "(some " + s + ")", nil
		}
		return "", errUnsupportedReturn
	}
}

// ---------------------------------------------------------------------------
// pkg/cluster/mutex.go

func c18MutexSpec(name string) *irSpec {
	ev := func(e string) irLet { return irLet{"tr", "List MEv", "(tr ++ [" + e + "])"} }
	return &irSpec{
		Name:    name,
		Binders: "(tmo : Nat) (lockO : Ctx → LockOutcome) (delO : Ctx → Bool) (held0 key0 : Bool)",
		BNames:  []string{"tmo", "lockO", "delO", "held0", "key0"},
		RetTy:   "MOut",
		Recv:    irTerm{"()", "Mutex"},
		State:   []irLet{{"m_held", "Bool", "held0"}, {"m_key", "Bool", "key0"}, {"tr", "List MEv", "[]"}, {"nctx", "Nat", "0"}},
		LeanTy:  map[string]string{"Dur": "Nat", "Cancel": "Unit"},
		Fields: map[string]irField{
			"Mutex.lock":    {Fmt: "()", Ty: "SyncMutex"},
			"Mutex.m":       {Fmt: "()", Ty: "EtcdMutex"},
			"Mutex.timeout": {Fmt: "tmo", Ty: "Dur"},
		},
		Funcs: map[string]irCall{
			"context.Background": {Fmt: "Ctx.background", Ty: "Ctx", NArgs: 0},
		},
		// the n-th context created by the call (a fresh context differs from an earlier, possibly expired one)
		EffFuncs: map[string]irEffCall{
			"context.WithTimeout": {NArgs: 2, Pre: []irLet{{"nctx", "Nat", "(nctx + 1)"}}, Fmt: "(Ctx.timeout %[2]s nctx, ())", Ty: "Ctx × Cancel"},
		},
		StmtMethods: map[string]irStmtCall{
			"SyncMutex.Lock":   {NArgs: 0, Lets: []irLet{{"m_held", "Bool", "true"}, ev("MEv.localLock")}},
			"SyncMutex.Unlock": {NArgs: 0, Lets: []irLet{{"m_held", "Bool", "false"}, ev("MEv.localUnlock")}},
			// the error of the cleanup unlock is dropped by the Go code
			"EtcdMutex.Unlock": {NArgs: 1, Lets: []irLet{{"m_key", "Bool", "(etcdUnlockCall m_key (delO %[2]s)).1"}, ev("MEv.etcdUnlock (delO %[2]s)")}},
		},
		EffMethods: map[string]irEffCall{
			"EtcdMutex.Lock": {NArgs: 1, Pre: []irLet{{"§tmp", "Bool × Error", "etcdLockCall m_key (lockO %[2]s)"}, {"m_key", "Bool", "§tmp.1"}, ev("MEv.etcdLock (lockO %[2]s)")},
				Fmt: "§tmp.2", Ty: "Error"},
			"EtcdMutex.Unlock": {NArgs: 1, Pre: []irLet{{"§tmp", "Bool × Error", "etcdUnlockCall m_key (delO %[2]s)"}, {"m_key", "Bool", "§tmp.1"}, ev("MEv.etcdUnlock (delO %[2]s)")},
				Fmt: "§tmp.2", Ty: "Error"},
		},
		Ret: func(v []irTerm) (string, error) {
			if len(v) != 1 || v[0].Ty != "Error" {
				return "", errUnsupportedReturn
			}
			return "(⟨m_held, m_key, " + v[0].S + ", tr⟩ : MOut)", nil
		},
	}
}

func init() {
	register(Extractor{Module: "FactsC18IR", Imports: []string{"EgVerif.Model.AdminAPI", "EgVerif.Model.ClusterMutex"}, Run: func(r *Repo, w *Lean) error {
		w.Line("set_option linter.unusedVariables false")
		w.Line("open EgVerif.AdminAPI EgVerif.ClusterMutex")
		w.Line("")
		const obj, clu, srv, mtx = "pkg/api/object.go", "pkg/api/cluster.go", "pkg/api/server.go", "pkg/cluster/mutex.go"
		const hdoc = "Round trips succeed (a failing one is `ClusterPanic`: see the helper functions). `lk`: between `s.Lock()` and the deferred `s.Unlock()`; `bad`: an etcd access while `lk` was false."

		// --- handlers
		s, err := c18HandlerSpec(r, "createObjectIR", "(e0 : Etcd) (sp0 : Spec) (rdErr0 : Bool)", []string{"e0", "sp0", "rdErr0"})
		if err != nil {
			return err
		}
		if err := c18Emit(r, w, obj, "Server", "createObject", s, hdoc); err != nil {
			return err
		}
		s, _ = c18HandlerSpec(r, "updateObjectIR", "(e0 : Etcd) (sp0 : Spec) (rdErr0 : Bool)", []string{"e0", "sp0", "rdErr0"})
		if err := c18Emit(r, w, obj, "Server", "updateObject", s, hdoc); err != nil {
			return err
		}
		s, _ = c18HandlerSpec(r, "deleteObjectIR", "(e0 : Etcd) (name0 : String)", []string{"e0", "name0"})
		if err := c18Emit(r, w, obj, "Server", "deleteObject", s, hdoc+" `name0` = `chi.URLParam(r, \"name\")`."); err != nil {
			return err
		}
		s, _ = c18HandlerSpec(r, "upgradeConfigVersionIR", "(e0 : Etcd) (w0 : RW)", []string{"e0", "w0"})
		s.RetTy = "Etcd × RW"
		s.State = []irLet{{"kv", "Etcd", "e0"}, {"rw", "RW", "w0"}, {"lk", "Bool", "true"}, {"bad", "Bool", "false"}}
		s.Ret = func(v []irTerm) (string, error) {
			if len(v) != 0 {
				return "", errUnsupportedReturn
			}
			return "(kv, rw)", nil
		}
		if err := c18Emit(r, w, obj, "Server", "upgradeConfigVersion", s, "`s._plusOneVersion()` is the model's `plusOneVersion` without errors (= `plusOneVersionIR`)."); err != nil {
			return err
		}

		// --- cluster.go helpers
		s = c18HelperSpec("getVersionIR", "(e0 : Etcd) (getErr : Bool)", []string{"e0", "getErr"}, "Option Nat")
		s.Methods["Cluster.Get"] = irCall{Fmt: "(kv.getVer %[2]s, getErr)", Ty: "OptDec × Error", NArgs: 1}
		s.Ret = c18OptRet(func(v []irTerm) (string, bool) {
			if len(v) == 1 && (v[0].Ty == "Nat" || v[0].Ty == "lit") {
				return v[0].S, true
			}
			return "", false
		})
		if err := c18Emit(r, w, clu, "Server", "_getVersion", s, "`none` = panic."); err != nil {
			return err
		}
		s = c18HelperSpec("plusOneVersionIR", "(e0 : Etcd) (getErr putErr : Bool)", []string{"e0", "getErr", "putErr"}, "Option (Etcd × Nat)")
		s.Methods["Server._getVersion"] = irCall{Fmt: "((getVersion kv getErr).getD 0)", Ty: "Nat", NArgs: 0, Guard: "(getVersion kv getErr).isSome"}
		s.EffMethods["Cluster.Put"] = irEffCall{NArgs: 2, Pre: []irLet{{"kv", "Etcd", "(if putErr then kv else kv.putVer %[2]s %[3]s)"}}, Fmt: "putErr", Ty: "Error"}
		s.Ret = c18OptRet(func(v []irTerm) (string, bool) {
			if len(v) == 1 && v[0].Ty == "Nat" {
				return "(kv, " + v[0].S + ")", true
			}
			return "", false
		})
		if err := c18Emit(r, w, clu, "Server", "_plusOneVersion", s, "`s._getVersion()` is the model's `getVersion` (= `getVersionIR`); `none` = panic."); err != nil {
			return err
		}
		s = c18HelperSpec("getObjectIR", "(e0 : Etcd) (name0 : String) (getErr : Bool)", []string{"e0", "name0", "getErr"}, "Option (Option Obj)")
		s.Params = []irTerm{{"name0", "String"}}
		s.Methods["Cluster.Get"] = irCall{Fmt: "(kv.getObj %[2]s, getErr)", Ty: "OptYaml × Error", NArgs: 1}
		s.Ret = c18OptRet(func(v []irTerm) (string, bool) {
			if len(v) == 1 && v[0].Ty == "nil" {
				return "none", true
			}
			if len(v) == 1 && v[0].Ty == "Obj" {
				return "(some " + v[0].S + ")", true
			}
			return "", false
		})
		if err := c18Emit(r, w, clu, "Server", "_getObject", s, "`none` = panic; `some none` = nil."); err != nil {
			return err
		}
		s = c18HelperSpec("putObjectIR", "(e0 : Etcd) (sp0 : Spec) (putErr : Bool)", []string{"e0", "sp0", "putErr"}, "Option Etcd")
		s.Params = []irTerm{{"sp0", "Spec"}}
		s.EffMethods["Cluster.Put"] = irEffCall{NArgs: 2, Pre: []irLet{{"kv", "Etcd", "(if putErr then kv else kv.putObj %[2]s %[3]s)"}}, Fmt: "putErr", Ty: "Error"}
		kvRet := c18OptRet(func(v []irTerm) (string, bool) { return "kv", len(v) == 0 })
		s.Ret = kvRet
		if err := c18Emit(r, w, clu, "Server", "_putObject", s, "`none` = panic."); err != nil {
			return err
		}
		s = c18HelperSpec("deleteObjectKeyIR", "(e0 : Etcd) (name0 : String) (delErr : Bool)", []string{"e0", "name0", "delErr"}, "Option Etcd")
		s.Params = []irTerm{{"name0", "String"}}
		s.EffMethods["Cluster.Delete"] = irEffCall{NArgs: 1, Pre: []irLet{{"kv", "Etcd", "(if delErr then kv else kv.delKey %[2]s)"}}, Fmt: "delErr", Ty: "Error"}
		s.Ret = kvRet
		if err := c18Emit(r, w, clu, "Server", "_deleteObject", s, "`none` = panic."); err != nil {
			return err
		}

		// --- Server.Lock / Unlock
		lkRet := c18OptRet(func(v []irTerm) (string, bool) { return "lk", len(v) == 0 })
		s = c18APISpec("serverLockIR", "(gmErr lkErr : Bool)", []string{"gmErr", "lkErr"}, "Option Bool")
		s.State = []irLet{{"lk", "Bool", "false"}}
		s.EffMethods["CMutex.Lock"] = irEffCall{NArgs: 0, Pre: []irLet{{"lk", "Bool", "(!lkErr)"}}, Fmt: "lkErr", Ty: "Error"}
		s.Ret = lkRet
		if err := c18Emit(r, w, srv, "Server", "Lock", s, "`none` = ClusterPanic (answered 503); otherwise the lock flag."); err != nil {
			return err
		}
		s = c18APISpec("serverUnlockIR", "(gmErr ulErr : Bool)", []string{"gmErr", "ulErr"}, "Option Bool")
		s.State = []irLet{{"lk", "Bool", "true"}}
		s.EffMethods["CMutex.Unlock"] = irEffCall{NArgs: 0, Pre: []irLet{{"lk", "Bool", "false"}}, Fmt: "ulErr", Ty: "Error"}
		s.Ret = lkRet
		if err := c18Emit(r, w, srv, "Server", "Unlock", s, "`none` = ClusterPanic."); err != nil {
			return err
		}

		// --- mutex.Lock / Unlock
		const mdoc = "`lockO ctx` / `delO ctx`: outcome of etcd's `concurrency.Mutex.Lock(ctx)` / success of `Unlock(ctx)` (environment); `tr` records the atomic events in program order. A panic inside `m.m.Lock` is not modelled (`panicked` is only read by the deferred closure)."
		if err := c18Emit(r, w, mtx, "mutex", "Lock", c18MutexSpec("lockIR"), mdoc); err != nil {
			return err
		}
		return c18Emit(r, w, mtx, "mutex", "Unlock", c18MutexSpec("unlockIR"), mdoc)
	}})
}
