package main

// Regenerated tie by translation for C06 (irlib.go, notes/IR.md); one generated module per source file, so that a
// change that cannot be translated any more breaks only the theorems about that file:
//
//   Gen.FactsC06IR       pkg/filters/validator/basicauth.go : parseCredentials, parseBasicAuthorizationHeader, BasicAuthValidator.Validate
//   Gen.FactsC06JwtIR    pkg/filters/validator/jwt.go       : JWTValidator.Validate (+ the key function literal handed to jwt.Parse)
//   Gen.FactsC06HandleIR pkg/filters/validator/validator.go : Validator.Handle (+ the prepareErrorResponse literal)
//   Gen.FactsC06HdrIR    pkg/protocols/httpprot/httpheader/validator.go : Validator.Validate
//   Gen.FactsC06OAuthIR  pkg/filters/validator/oauth2.go    : OAuth2Validator.Validate (+ its key function literal)
//
// Go strings are byte strings (`Bytes`); `strings.*` functions are the model's byte-string functions.
// `<fn>_regenerated_from_source` (Proofs/ValidatorIR.lean, re-exported by Props/C06.lean) prove the
// generated definitions equal to Model/Validator.lean for all inputs and oracles. The signer package
// is in facts_c06_signer_ir.go (module Gen.FactsC06SignerIR).

import (
	"fmt"
	"go/ast"
	"go/token"
	"strconv"
)

// c06OneByte: e is a string literal of exactly one byte, or a character literal < 256.
func c06OneByte(e ast.Expr) (int, bool) {
	bl, ok := e.(*ast.BasicLit)
	if !ok {
		return 0, false
	}
	switch bl.Kind {
	case token.STRING:
		s, err := strconv.Unquote(bl.Value)
		if err == nil && len(s) == 1 {
			return int(s[0]), true
		}
	case token.CHAR:
		s, err := strconv.Unquote(bl.Value)
		if err == nil && len(s) == 1 {
			return int(s[0]), true
		}
	}
	return 0, false
}

// c06StringsHook translates the calls of package strings whose separator must be a one-byte literal:
// strings.Split(s, "c") → splitOn c s, strings.SplitN(s, "c", 2) → splitN2 c s, strings.Join(l, "c") → joinB c l,
// strings.IndexByte(s, 'c') → indexByte c s, strings.LastIndexByte(s, 'c') → lastIndex c s.
func c06StringsHook(t *irT, e ast.Expr, env *irEnv) (irTerm, bool, error) {
	ce, ok := e.(*ast.CallExpr)
	if !ok {
		return irTerm{}, false, nil
	}
	fun := t.r.Src(ce.Fun)
	one := func(i int) (string, error) {
		c, ok := c06OneByte(ce.Args[i])
		if !ok {
			return "", fmt.Errorf("%s: separator is not a one-byte literal", t.r.Src(ce))
		}
		return strconv.Itoa(c), nil
	}
	switch fun {
	case "strings.Split", "strings.Join", "strings.IndexByte", "strings.LastIndexByte":
		if len(ce.Args) != 2 {
			return irTerm{}, true, fmt.Errorf("%s: 2 arguments expected", fun)
		}
		c, err := one(1)
		if err != nil {
			return irTerm{}, true, err
		}
		a, err := t.expr(ce.Args[0], env)
		if err != nil {
			return irTerm{}, true, err
		}
		switch {
		case fun == "strings.Split" && a.Ty == "Bytes":
			return irTerm{fmt.Sprintf("(splitOn %s %s)", c, a.S), "List Bytes"}, true, nil
		case fun == "strings.Join" && a.Ty == "List Bytes":
			return irTerm{fmt.Sprintf("(joinB %s %s)", c, a.S), "Bytes"}, true, nil
		case fun == "strings.IndexByte" && a.Ty == "Bytes":
			return irTerm{fmt.Sprintf("(indexByte %s %s)", c, a.S), "Int"}, true, nil
		case fun == "strings.LastIndexByte" && a.Ty == "Bytes":
			return irTerm{fmt.Sprintf("(lastIndex %s %s)", c, a.S), "Int"}, true, nil
		}
		return irTerm{}, true, fmt.Errorf("%s on %s", fun, a.Ty)
	case "strings.SplitN":
		if len(ce.Args) != 3 || t.r.Src(ce.Args[2]) != "2" {
			return irTerm{}, true, fmt.Errorf("%s: only SplitN(s, sep, 2) is modelled", t.r.Src(ce))
		}
		c, err := one(1)
		if err != nil {
			return irTerm{}, true, err
		}
		a, err := t.expr(ce.Args[0], env)
		if err != nil {
			return irTerm{}, true, err
		}
		if a.Ty != "Bytes" {
			return irTerm{}, true, fmt.Errorf("%s on %s", fun, a.Ty)
		}
		return irTerm{fmt.Sprintf("(splitN2 %s %s)", c, a.S), "List Bytes"}, true, nil
	}
	return irTerm{}, false, nil
}

// c06Base: what every C06 translation shares (byte strings, strings.* functions, errors as Bool).
func c06Base(name, binders string, bnames []string, retTy string) *irSpec {
	return &irSpec{
		Name: name, Binders: binders, BNames: bnames, RetTy: retTy,
		StrTy: "Bytes", StrLitFmt: "(b %s)", CharTy: "Byte", CharFmt: "(%d : UInt8)",
		GoTy:   map[string]string{"string": "Bytes", "bytes.Buffer": "Buf", "[]string": "List Bytes"},
		LeanTy: map[string]string{"Byte": "UInt8", "Buf": "Bytes", "HdrPtr": "Header", "Users": "Bytes → Bytes → Bool"},
		Zero:   map[string]string{"Bytes": "[]", "Buf": "[]"},
		Funcs: map[string]irCall{
			"strings.HasPrefix":  {Fmt: "(hasPrefix %[1]s %[2]s)", Ty: "Bool", NArgs: 2},
			"strings.TrimPrefix": {Fmt: "(trimPrefix %[1]s %[2]s)", Ty: "Bytes", NArgs: 2},
			"strings.TrimSpace":  {Fmt: "(trimSpace %[1]s)", Ty: "Bytes", NArgs: 1},
			"strings.ToLower":    {Fmt: "(lower %[1]s)", Ty: "Bytes", NArgs: 1},
			"len:Bytes":          {Fmt: "(Int.ofNat %[1]s.length)", Ty: "Int", NArgs: 1},
			"len:List Bytes":     {Fmt: "(Int.ofNat %[1]s.length)", Ty: "Int", NArgs: 1},
			"fmt.Errorf":         {Fmt: "true", Ty: "Error", NArgs: -1},
		},
		Methods: map[string]irCall{
			"HdrPtr.Get": {Fmt: "(hget %[1]s %[2]s)", Ty: "Bytes", NArgs: 1},
		},
		Conv:      map[string]irCall{"string:Bytes": {Fmt: "%[1]s", Ty: "Bytes"}},
		Index:     map[string]irCall{"List Bytes": {Fmt: "(%[1]s.getD (%[2]s : Int).toNat [])", Ty: "Bytes"}},
		SliceFrom: map[string]irCall{"Bytes": {Fmt: "(%[1]s.drop (%[2]s : Int).toNat)", Ty: "Bytes"}},
		Hook:      c06StringsHook,
	}
}

// c06OptRet: `return v…, err` ↦ `if err then none else some (v…)`; `nil` is "no error".
func c06OptRet(nvals int) func(v []irTerm) (string, error) {
	return func(v []irTerm) (string, error) {
		if len(v) != nvals+1 {
			return "", errUnsupportedReturn
		}
		e := v[nvals]
		val := "()"
		switch nvals {
		case 1:
			val = v[0].S
		case 2:
			val = "(" + v[0].S + ", " + v[1].S + ")"
		}
		switch e.Ty {
		case "nil":
			return "some " + val, nil
		case "Error":
			return fmt.Sprintf("if %s then none else some %s", e.S, val), nil
		}
		return "", errUnsupportedReturn
	}
}

const (
	c06Basic  = "pkg/filters/validator/basicauth.go"
	c06JWT    = "pkg/filters/validator/jwt.go"
	c06Valid  = "pkg/filters/validator/validator.go"
	c06HdrVal = "pkg/protocols/httpprot/httpheader/validator.go"
)

// c06Closure translates a function literal as a definition of its own. The receiver and the
// parameters of the enclosing function stay bound (by position: `spec.Params` = outer parameters
// followed by the literal's parameters).
func c06Closure(r *Repo, outer *ast.FuncDecl, fl *ast.FuncLit, spec *irSpec) (string, []string, error) {
	var fields []*ast.Field
	if outer.Type.Params != nil {
		fields = append(fields, outer.Type.Params.List...)
	}
	if fl.Type.Params != nil {
		fields = append(fields, fl.Type.Params.List...)
	}
	fd := &ast.FuncDecl{Recv: outer.Recv, Name: ast.NewIdent(spec.Name),
		Type: &ast.FuncType{Params: &ast.FieldList{List: fields}, Results: fl.Type.Results}, Body: fl.Body}
	return irTranslate(r, fd, spec)
}

func c06Header(w *Lean) {
	w.Line("set_option linter.unusedVariables false")
	w.Line("open EgVerif.Sha256 (Bytes)")
	w.Line("open EgVerif.Signer EgVerif.Validator")
	w.Line("")
}

// c06BasicIR: module Gen.FactsC06IR (basicauth.go)
func c06BasicIR(r *Repo, w *Lean) error {
	c06Header(w)

	// --- parseCredentials ---------------------------------------------------------------
	s := c06Base("parseCredentialsIR", "(creds : Bytes)", []string{"creds"}, "Option (Bytes × Bytes)")
	s.Params = []irTerm{{"creds", "Bytes"}}
	s.Ret = c06OptRet(2)
	if err := irEmit(r, w, c06Basic, "", "parseCredentials", s, "`none` = an error is returned."); err != nil {
		return err
	}

	// --- parseBasicAuthorizationHeader --------------------------------------------------
	s = c06Base("parseBasicAuthorizationHeaderIR", "(h : Header)", []string{"h"}, "Option Bytes")
	s.Params = []irTerm{{"h", "HdrPtr"}}
	s.Ret = c06OptRet(1)
	if err := irEmit(r, w, c06Basic, "", "parseBasicAuthorizationHeader", s, ""); err != nil {
		return err
	}

	// --- BasicAuthValidator.Validate ----------------------------------------------------
	s = c06Base("basicValidateIR", "(users : Bytes → Bytes → Bool) (h : Header)", []string{"users", "h"}, "Option (List (Bytes × Bytes))")
	s.Recv = irTerm{"users", "BAV"}
	s.Params = []irTerm{{"h", "HReq"}}
	s.LeanTy["BAV"], s.LeanTy["HReq"], s.LeanTy["HdrW"] = "Bytes → Bytes → Bool", "Header", "Header"
	s.LeanTy["SetList"] = "List (Bytes × Bytes)"
	s.State = []irLet{{"hdr_sets", "SetList", "[]"}}
	s.Fields = map[string]irField{
		"BAV.authorizedUsersCache": {Fmt: "%s", Ty: "Users"},
		"StdReqH.Header":           {Fmt: "%s", Ty: "Header"},
	}
	s.Consts = map[string]irTerm{"base64.StdEncoding": {"()", "B64Std"}}
	s.Methods["HReq.Std"] = irCall{Fmt: "%[1]s", Ty: "StdReqH", NArgs: 0}
	s.Methods["HReq.Header"] = irCall{Fmt: "%[1]s", Ty: "HdrW", NArgs: 0}
	s.Methods["Users.Match"] = irCall{Fmt: "(%[1]s %[2]s %[3]s)", Ty: "Bool", NArgs: 2}
	s.Methods["B64Std.DecodeString"] = irCall{Fmt: "(optPair (Sha256.b64Decode %[2]s))", Ty: "Bytes × Error", NArgs: 1}
	s.Methods["Error.Error"] = irCall{Fmt: "(b \"\")", Ty: "Bytes", NArgs: 0}
	s.Funcs["httpheader.New"] = irCall{Fmt: "%[1]s", Ty: "HdrPtr", NArgs: 1}
	s.Funcs["parseBasicAuthorizationHeader"] = irCall{Fmt: "(optPair (parseBasicAuthorizationHeader %[1]s))", Ty: "Bytes × Error", NArgs: 1}
	s.Funcs["parseCredentials"] = irCall{Fmt: "(optTriple (parseCreds %[1]s))", Ty: "Bytes × Bytes × Error", NArgs: 1}
	s.StmtMethods = map[string]irStmtCall{
		"HdrW.Set": {NArgs: 2, Lets: []irLet{{"hdr_sets", "SetList", "(hdr_sets ++ [(%[2]s, %[3]s)])"}}},
	}
	s.Ret = func(v []irTerm) (string, error) {
		if len(v) != 1 {
			return "", errUnsupportedReturn
		}
		switch v[0].Ty {
		case "nil":
			return "some hdr_sets", nil
		case "Error":
			return fmt.Sprintf("if %s then none else some hdr_sets", v[0].S), nil
		}
		return "", errUnsupportedReturn
	}
	if err := irEmit(r, w, c06Basic, "BasicAuthValidator", "Validate", s,
		"Result: `none` = an error is returned, `some l` = accepted, `l` = the `req.Header().Set(name, value)` calls made.\n"+
			"`users` is `authorizedUsersCache.Match`; the callees `parseBasicAuthorizationHeader` / `parseCredentials` are the model's\n"+
			"functions (tied by their own translations above)."); err != nil {
		return err
	}
	return nil
}

// c06JwtParseHook translates `jwt.Parse(token, func(token *jwt.Token) (interface{}, error) {…})`: the function literal becomes the
// definition `keyFuncName cfg alg` (its parameter is the token's `Method.Alg()`; `none` = error), the call itself the term
// `callFmt` (%s = the token string) of type "JwtTok × Error".
func c06JwtParseHook(fd *ast.FuncDecl, keyFuncName, recvTy string, fields map[string]irField, callFmt string, keyFuncDef *string,
	inner func(t *irT, e ast.Expr, env *irEnv) (irTerm, bool, error)) func(t *irT, e ast.Expr, env *irEnv) (irTerm, bool, error) {
	return func(t *irT, e ast.Expr, env *irEnv) (irTerm, bool, error) {
		ce, ok := e.(*ast.CallExpr)
		if !ok || t.r.Src(ce.Fun) != "jwt.Parse" {
			return inner(t, e, env)
		}
		if len(ce.Args) != 2 {
			return irTerm{}, true, fmt.Errorf("jwt.Parse: 2 arguments expected")
		}
		fl, ok := ce.Args[1].(*ast.FuncLit)
		if !ok {
			return irTerm{}, true, fmt.Errorf("jwt.Parse: key function is not a function literal")
		}
		ks := c06Base(keyFuncName, "(cfg : JwtCfg) (alg : Bytes)", []string{"cfg", "alg"}, "Option Bytes")
		ks.Recv = irTerm{"cfg", recvTy}
		ks.Params = []irTerm{{"", ""}, {"alg", "JwtTokenP"}}
		for _, k := range []string{recvTy, "JWTSpec", "OASpec", "OAJwt"} {
			ks.LeanTy[k] = "JwtCfg"
		}
		ks.LeanTy["JwtTokenP"], ks.LeanTy["JwtMethod"] = "Bytes", "Bytes"
		ks.Fields = fields
		ks.Methods["JwtMethod.Alg"] = irCall{Fmt: "%[1]s", Ty: "Bytes", NArgs: 0}
		ks.Ret = func(v []irTerm) (string, error) {
			if len(v) != 2 {
				return "", errUnsupportedReturn
			}
			switch {
			case v[0].Ty == "nil" && v[1].Ty == "Error":
				return fmt.Sprintf("if %s then none else some []", v[1].S), nil
			case v[0].Ty == "Bytes" && v[1].Ty == "nil":
				return "some " + v[0].S, nil
			}
			return "", errUnsupportedReturn
		}
		def, _, err := c06Closure(t.r, fd, fl, ks)
		if err != nil {
			return irTerm{}, true, err
		}
		*keyFuncDef = def
		tok, err := t.expr(ce.Args[0], env)
		if err != nil {
			return irTerm{}, true, err
		}
		if tok.Ty != "Bytes" {
			return irTerm{}, true, fmt.Errorf("jwt.Parse: token of type %s", tok.Ty)
		}
		return irTerm{fmt.Sprintf(callFmt, tok.S), "JwtTok × Error"}, true, nil
	}
}

// c06JwtIR: module Gen.FactsC06JwtIR (jwt.go): JWTValidator.Validate + the key function literal
func c06JwtIR(r *Repo, w *Lean) error {
	c06Header(w)
	fd, err := r.Func(c06JWT, "JWTValidator", "Validate")
	if err != nil {
		return err
	}
	jwtFields := map[string]irField{
		"JWTV.spec":          {Fmt: "%s", Ty: "JWTSpec"},
		"JWTV.secretBytes":   {Fmt: "%s.secret", Ty: "Bytes"},
		"JWTSpec.CookieName": {Fmt: "%s.cookieName", Ty: "Bytes"},
		"JWTSpec.Algorithm":  {Fmt: "%s.alg", Ty: "Bytes"},
		"Cookie.Value":       {Fmt: "%s", Ty: "Bytes"},
		"JwtTokenP.Method":   {Fmt: "%s", Ty: "JwtMethod"},
	}
	keyFuncDef := ""
	s := c06Base("jwtValidateIR", "(cfg : JwtCfg) (lib : JwtLib) (cookieOf : Bytes → Option Bytes) (h : Header)",
		[]string{"cfg", "lib", "cookieOf", "h"}, "Bool")
	s.Recv = irTerm{"cfg", "JWTV"}
	s.Params = []irTerm{{"h", "HReq"}}
	s.LeanTy["JWTV"], s.LeanTy["JWTSpec"], s.LeanTy["HReq"], s.LeanTy["Cookie"], s.LeanTy["JwtTok"] = "JwtCfg", "JwtCfg", "Header", "Bytes", "Unit"
	s.Fields = jwtFields
	s.Methods["HReq.Cookie"] = irCall{Fmt: "(cookieE cookieOf %[2]s)", Ty: "Cookie × Error", NArgs: 1}
	s.Methods["HReq.HTTPHeader"] = irCall{Fmt: "%[1]s", Ty: "HdrPtr", NArgs: 0}
	s.Hook = c06JwtParseHook(fd, "jwtKeyFuncIR", "JWTV", jwtFields, "((), !jwtParse lib %s (jwtKeyFuncIR cfg))", &keyFuncDef, c06StringsHook)
	s.Ret = func(v []irTerm) (string, error) {
		if len(v) != 1 || v[0].Ty != "Error" {
			return "", errUnsupportedReturn
		}
		return v[0].S, nil
	}
	def, skipped, err := irTranslate(r, fd, s)
	if err != nil {
		return err
	}
	if len(skipped) != 0 {
		return fmt.Errorf("JWTValidator.Validate: unexpected ignored statements %v", skipped)
	}
	w.Line("/-! Translated from `JWTValidator.Validate` in %s: the function literal handed to `jwt.Parse` (the key function;", c06JWT)
	w.Line("its parameter is the token's `Method.Alg()`, result `none` = error) and the method itself (result: an error is returned).")
	w.Line("`jwt.Parse(token, keyFunc)` is the contract `jwtParse lib token keyFunc` (golang-jwt); `cookieOf` is `req.Cookie`. -/")
	w.sb.WriteString(keyFuncDef)
	w.Line("")
	w.sb.WriteString(def)
	w.Line("")
	return nil
}

// c06OAuthIR: module Gen.FactsC06OAuthIR (oauth2.go): OAuth2Validator.Validate + its key function literal
func c06OAuthIR(r *Repo, w *Lean) error {
	c06Header(w)
	const rel = "pkg/filters/validator/oauth2.go"
	fd, err := r.Func(rel, "OAuth2Validator", "Validate")
	if err != nil {
		return err
	}
	fields := map[string]irField{
		"OAV.spec":               {Fmt: "%s", Ty: "OASpec"},
		"OASpec.JWT":             {Fmt: "%s", Ty: "OAJwt"},
		"OASpec.TokenIntrospect": {Fmt: "introspect", Ty: "OptIntro"},
		"OAJwt.Algorithm":        {Fmt: "%s.alg", Ty: "Bytes"},
		"OAJwt.secretBytes":      {Fmt: "%s.secret", Ty: "Bytes"},
		"JwtTokenP.Method":       {Fmt: "%s", Ty: "JwtMethod"},
		"TokInfo.Active":         {Fmt: "%s.1", Ty: "Bool"},
		"TokInfo.Subject":        {Fmt: "%s.2.1", Ty: "Bytes"},
		"TokInfo.Scope":          {Fmt: "%s.2.2", Ty: "Bytes"},
		"JwtTok.Claims":          {Fmt: "%s", Ty: "AnyClaims"},
	}
	keyFuncDef := ""
	s := c06Base("oauthValidateIR",
		"(cfg : JwtCfg) (lib : JwtLib) (introspect : Option (Bytes → Option (Bool × Bytes × Bytes))) (claimStr : Bytes → Bytes → Bytes) (h : Header)",
		[]string{"cfg", "lib", "introspect", "claimStr", "h"}, "Option (List (Bytes × Bytes))")
	s.Recv = irTerm{"cfg", "OAV"}
	s.Params = []irTerm{{"h", "HReq"}}
	for k, v := range map[string]string{"OAV": "JwtCfg", "OASpec": "JwtCfg", "OAJwt": "JwtCfg", "HReq": "Header", "JwtTok": "Bytes",
		"AnyClaims": "Bytes", "Claims": "Bytes", "OptIntro": "Option (Bytes → Option (Bool × Bytes × Bytes))", "TokInfo": "(Bool × Bytes × Bytes)",
		"SetList": "List (Bytes × Bytes)"} {
		s.LeanTy[k] = v
	}
	s.State = []irLet{{"hdr_sets", "SetList", "[]"}}
	s.Fields = fields
	s.Methods["HReq.HTTPHeader"] = irCall{Fmt: "%[1]s", Ty: "HdrPtr", NArgs: 0}
	s.Methods["OAV.introspectToken"] = irCall{Fmt: "(introspectE introspect %[2]s)", Ty: "TokInfo × Error", NArgs: 1}
	s.StmtMethods = map[string]irStmtCall{
		"HdrPtr.Set": {NArgs: 2, Lets: []irLet{{"hdr_sets", "SetList", "(hdr_sets ++ [(%[2]s, %[3]s)])"}}},
	}
	typeAssert := func(t *irT, e ast.Expr, env *irEnv) (irTerm, bool, error) {
		ta, ok := e.(*ast.TypeAssertExpr)
		if !ok || ta.Type == nil {
			return c06StringsHook(t, e, env)
		}
		// claims[<name>].(string): the string claim (empty when absent or of another type); the ok flag is not modelled
		if ie, ok := ta.X.(*ast.IndexExpr); ok && t.r.Src(ta.Type) == "string" {
			c, err := t.expr(ie.X, env)
			if err != nil {
				return irTerm{}, true, err
			}
			k, err := t.expr(ie.Index, env)
			if err != nil {
				return irTerm{}, true, err
			}
			if c.Ty == "Claims" && k.Ty == "Bytes" {
				return irTerm{fmt.Sprintf("(claimStr %s %s, true)", c.S, k.S), "Bytes × Bool"}, true, nil
			}
			return irTerm{}, true, fmt.Errorf("unsupported %s", t.r.Src(e))
		}
		// token.Claims.(jwt.MapClaims)
		a, err := t.expr(ta.X, env)
		if err != nil {
			return irTerm{}, true, err
		}
		if a.Ty == "AnyClaims" && t.r.Src(ta.Type) == "jwt.MapClaims" {
			return irTerm{a.S, "Claims"}, true, nil
		}
		return irTerm{}, true, fmt.Errorf("unsupported type assertion %s", t.r.Src(e))
	}
	s.Hook = c06JwtParseHook(fd, "oauthKeyFuncIR", "OAV", fields, "(%[1]s, !jwtParse lib %[1]s (oauthKeyFuncIR cfg))", &keyFuncDef, typeAssert)
	s.Ret = func(v []irTerm) (string, error) {
		if len(v) != 1 {
			return "", errUnsupportedReturn
		}
		switch v[0].Ty {
		case "nil":
			return "some hdr_sets", nil
		case "Error":
			return fmt.Sprintf("if %s then none else some hdr_sets", v[0].S), nil
		}
		return "", errUnsupportedReturn
	}
	def, skipped, err := irTranslate(r, fd, s)
	if err != nil {
		return err
	}
	if len(skipped) != 0 {
		return fmt.Errorf("OAuth2Validator.Validate: unexpected ignored statements %v", skipped)
	}
	w.Line("/-! Translated from `OAuth2Validator.Validate` in %s: the key function literal and the method (result: `none` = an error is", rel)
	w.Line("returned, `some l` = accepted with the header writes `l`). `introspect` = the token introspection mode (`none`: JWT mode;")
	w.Line("`some f`: `f token` = the introspection answer (active, subject, scope), `none` = request failed); `claimStr token name` = the")
	w.Line("string claim `name` of the parsed token (empty if absent / not a string). -/")
	w.sb.WriteString(keyFuncDef)
	w.Line("")
	w.sb.WriteString(def)
	w.Line("")
	return nil
}

// c06ReloadIR: module Gen.FactsC06ReloadIR — Validator.reload / Init / Inherit: every configured component of a generation is
// constructed afresh (nothing is taken from the previous generation: its user cache is closed by Pipeline.Inherit).
func c06ReloadIR(r *Repo, w *Lean) error {
	c06Header(w)
	s := c06Base("validatorReloadIR", "(hd jw sg oa ba : Bool)", []string{"hd", "jw", "sg", "oa", "ba"}, "Bool × Bool × Bool × Bool × Bool")
	s.Recv = irTerm{"()", "V2"}
	s.LeanTy["V2"], s.LeanTy["VSpec"], s.LeanTy["OptU"], s.LeanTy["SubSpec"], s.LeanTy["Super"] = "Unit", "Unit", "Option Unit", "Option Unit", "Unit"
	s.State = []irLet{{"f_headers", "Bool", "false"}, {"f_jwt", "Bool", "false"}, {"f_signer", "Bool", "false"},
		{"f_oauth2", "Bool", "false"}, {"f_basic", "Bool", "false"}}
	opt := func(b string) string { return "(if " + b + " then some () else none)" }
	s.Fields = map[string]irField{
		"V2.spec":         {Fmt: "()", Ty: "VSpec"},
		"VSpec.Headers":   {Fmt: opt("hd"), Ty: "OptU"},
		"VSpec.JWT":       {Fmt: opt("jw"), Ty: "OptU"},
		"VSpec.Signature": {Fmt: opt("sg"), Ty: "OptU"},
		"VSpec.OAuth2":    {Fmt: opt("oa"), Ty: "OptU"},
		"VSpec.BasicAuth": {Fmt: opt("ba"), Ty: "OptU"},
		"V2.headers":      {Fmt: "f_headers", Ty: "Bool", State: true},
		"V2.jwt":          {Fmt: "f_jwt", Ty: "Bool", State: true},
		"V2.signer":       {Fmt: "f_signer", Ty: "Bool", State: true},
		"V2.oauth2":       {Fmt: "f_oauth2", Ty: "Bool", State: true},
		"V2.basicAuth":    {Fmt: "f_basic", Ty: "Bool", State: true},
	}
	s.Methods["VSpec.Super"] = irCall{Fmt: "()", Ty: "Super", NArgs: 0}
	// constructors: `true` = a freshly built component
	s.Funcs["httpheader.NewValidator"] = irCall{Fmt: "true", Ty: "Bool", NArgs: 1}
	s.Funcs["NewJWTValidator"] = irCall{Fmt: "true", Ty: "Bool", NArgs: 1}
	s.Funcs["signer.CreateFromSpec"] = irCall{Fmt: "true", Ty: "Bool", NArgs: 1}
	s.Funcs["NewOAuth2Validator"] = irCall{Fmt: "true", Ty: "Bool", NArgs: 1}
	s.Funcs["NewBasicAuthValidator"] = irCall{Fmt: "true", Ty: "Bool", NArgs: 2}
	s.Ret = func(v []irTerm) (string, error) {
		if len(v) != 0 {
			return "", errUnsupportedReturn
		}
		return "(f_headers, f_jwt, f_signer, f_oauth2, f_basic)", nil
	}
	if err := irEmit(r, w, c06Valid, "Validator", "reload", s,
		"Result: which components were constructed by their constructor (`true` = fresh); `hd … ba` = the spec sections present."); err != nil {
		return err
	}
	for _, fn := range []string{"Init", "Inherit"} {
		g := c06Base("validator"+fn+"IR", "(u : Unit)", []string{"u"}, "Bool")
		g.Recv = irTerm{"()", "V2"}
		g.LeanTy["V2"] = "Unit"
		if fn == "Inherit" {
			g.Params = []irTerm{{"", ""}} // the previous generation must not be used
		}
		g.State = []irLet{{"reloaded", "Bool", "false"}}
		g.StmtMethods = map[string]irStmtCall{"V2.reload": {NArgs: 0, Lets: []irLet{{"reloaded", "Bool", "true"}}}}
		g.Ret = func(v []irTerm) (string, error) {
			if len(v) != 0 {
				return "", errUnsupportedReturn
			}
			return "reloaded", nil
		}
		if err := irEmit(r, w, c06Valid, "Validator", fn, g,
			"Result: `v.reload()` (no argument) was called; the previous generation is not mentioned."); err != nil {
			return err
		}
	}
	return nil
}

// c06DerefHook: `*p` for p of type "&T" is a T (value copy); `x.(*httpprot.Request)` of the context's request.
func c06DerefHook(t *irT, e ast.Expr, env *irEnv) (irTerm, bool, error) {
	switch x := e.(type) {
	case *ast.StarExpr:
		p, err := t.expr(x.X, env)
		if err != nil {
			return irTerm{}, true, err
		}
		if len(p.Ty) > 1 && p.Ty[0] == '&' {
			return irTerm{p.S, p.Ty[1:]}, true, nil
		}
		return irTerm{}, true, fmt.Errorf("dereference of %s", p.Ty)
	case *ast.TypeAssertExpr:
		a, err := t.expr(x.X, env)
		if err != nil {
			return irTerm{}, true, err
		}
		if a.Ty == "AnyReq" && x.Type != nil && t.r.Src(x.Type) == "*httpprot.Request" {
			return irTerm{a.S, "HReq"}, true, nil
		}
		return irTerm{}, true, fmt.Errorf("unsupported type assertion %s", t.r.Src(e))
	}
	return c06StringsHook(t, e, env)
}

func c06IsCallTo(s ast.Stmt, method string) bool {
	es, ok := s.(*ast.ExprStmt)
	if !ok {
		return false
	}
	ce, ok := es.X.(*ast.CallExpr)
	if !ok {
		return false
	}
	se, ok := ce.Fun.(*ast.SelectorExpr)
	return ok && se.Sel.Name == method
}

// c06HandleIR: Validator.Handle and the `prepareErrorResponse` function literal it defines.
func c06HandleIR(r *Repo, w *Lean) error {
	c06Header(w)
	fd, err := r.Func(c06Valid, "Validator", "Handle")
	if err != nil {
		return err
	}
	resultInvalid, err := c06StrConst(r, c06Valid, "resultInvalid")
	if err != nil {
		return err
	}
	common := func(s *irSpec) {
		s.Recv = irTerm{"cfg", "V"}
		for k, v := range map[string]string{"V": "Validator.Cfg", "Ctx": "Unit", "Resp": "Int", "OptResp": "Option Int",
			"HReq": "Request", "AnyReq": "Request", "&StdReqV": "StdReq", "StdReqV": "StdReq", "Body": "Option Bytes",
			"OptRules": "Option (List HeaderRule)", "OptJwt": "Option JwtCfg", "OptSigner": "Option Signer.Cfg",
			"OptOAuth": "Option JwtCfg", "OptBasic": "Option Unit"} {
			s.LeanTy[k] = v
		}
		s.Consts = map[string]irTerm{"http.StatusBadRequest": {"400", "Int"}, "http.StatusUnauthorized": {"401", "Int"},
			"resultInvalid": {"(b " + Str(resultInvalid) + ")", "Bytes"}}
	}
	closureDef, closureName := "", ""
	var closureSkipped []string
	s := c06Base("handleIR", "(cfg : Validator.Cfg) (env : Env) (rq : Request) (stream : Bool)",
		[]string{"cfg", "env", "rq", "stream"}, "Bytes × Option Int")
	common(s)
	s.Params = []irTerm{{"()", "Ctx"}}
	s.State = []irLet{{"resp_status", "OptResp", "none"}}
	s.Fields = map[string]irField{
		"V.headers":       {Fmt: "%s.headers", Ty: "OptRules"},
		"V.jwt":           {Fmt: "%s.jwt", Ty: "OptJwt"},
		"V.signer":        {Fmt: "%s.sig", Ty: "OptSigner"},
		"V.oauth2":        {Fmt: "%s.oauth2", Ty: "OptOAuth"},
		"V.basicAuth":     {Fmt: "(if %s.basic then some () else none)", Ty: "OptBasic"},
		"&StdReqV.Header": {Fmt: "%s.req.headers", Ty: "Header"},
	}
	s.Methods["Ctx.GetInputRequest"] = irCall{Fmt: "rq", Ty: "AnyReq", NArgs: 0}
	s.Methods["HReq.Std"] = irCall{Fmt: "(StdReq.mk %[1]s.std (some []))", Ty: "&StdReqV", NArgs: 0}
	s.Methods["HReq.IsStream"] = irCall{Fmt: "stream", Ty: "Bool", NArgs: 0}
	s.Methods["HReq.GetPayload"] = irCall{Fmt: "%[1]s.payload", Ty: "Bytes", NArgs: 0}
	s.Methods["OptRules.Validate"] = irCall{Fmt: "(!headersOK env.re %[2]s (%[1]s.getD []))", Ty: "Error", NArgs: 1}
	s.Methods["OptJwt.Validate"] = irCall{Fmt: "(match %[1]s with | some j => !jwtValidate j env.jwtLib env.cookie %[2]s.std.headers | none => false)", Ty: "Error", NArgs: 1}
	s.Methods["OptSigner.Verify"] = irCall{Fmt: "(match %[1]s with | some c => !sigValidateStd c env %[2]s | none => false)", Ty: "Error", NArgs: 1}
	s.Methods["OptOAuth.Validate"] = irCall{Fmt: "(match %[1]s with | some o => !oauthValidate o env.jwtLib %[2]s.std.headers | none => false)", Ty: "Error", NArgs: 1}
	s.Methods["OptBasic.Validate"] = irCall{Fmt: "(basicValidate env.users %[2]s.std.headers).isNone", Ty: "Error", NArgs: 1}
	s.Funcs["httpheader.New"] = irCall{Fmt: "%[1]s", Ty: "HdrPtr", NArgs: 1}
	s.Funcs["io.NopCloser"] = irCall{Fmt: "(some %[1]s)", Ty: "Body", NArgs: 1}
	s.StmtFuncs = map[string]irStmtCall{}
	s.Hook = c06DerefHook
	s.StmtHook = func(t *irT, st ast.Stmt, env *irEnv) ([]irLet, bool, error) {
		as, ok := st.(*ast.AssignStmt)
		if !ok || len(as.Lhs) != 1 || len(as.Rhs) != 1 {
			return nil, false, nil
		}
		// name := func(status int, tagPrefix string, err error) { … }: translated as a definition of its own;
		// calls `name(a, b, c)` then set the response status to what the literal computes.
		if fl, ok := as.Rhs[0].(*ast.FuncLit); ok && as.Tok == token.DEFINE {
			id, ok := as.Lhs[0].(*ast.Ident)
			if !ok || closureName != "" {
				return nil, true, fmt.Errorf("unsupported function literal %s", t.r.Src(as.Lhs[0]))
			}
			cs := c06Base("prepareErrorResponseIR", "(status : Int)", []string{"status"}, "Option Int")
			common(cs)
			cs.Params = []irTerm{{"()", "Ctx"}, {"status", "Int"}, {"", ""}, {"", ""}}
			cs.State = []irLet{{"out_resp", "OptResp", "none"}}
			cs.Funcs["httpprot.NewResponse"] = irCall{Fmt: "((200 : Int), false)", Ty: "Resp × Error", NArgs: 1}
			cs.StmtMethods = map[string]irStmtCall{
				"Resp.SetStatusCode":    {NArgs: 1, Lets: []irLet{{"%[1]s", "Resp", "%[2]s"}}},
				"Ctx.SetOutputResponse": {NArgs: 1, Lets: []irLet{{"out_resp", "OptResp", "(some %[2]s)"}}},
			}
			cs.Ignore = func(src string, x ast.Stmt) bool { return c06IsCallTo(x, "AddTag") }
			cs.Ret = func(v []irTerm) (string, error) {
				if len(v) != 0 {
					return "", errUnsupportedReturn
				}
				return "out_resp", nil
			}
			def, sk, err := c06Closure(t.r, fd, fl, cs)
			if err != nil {
				return nil, true, err
			}
			closureDef, closureName, closureSkipped = def, id.Name, sk
			t.spec.StmtFuncs[id.Name] = irStmtCall{NArgs: 3, Lets: []irLet{{"resp_status", "OptResp", "(prepareErrorResponseIR %[1]s)"}}}
			return nil, true, nil
		}
		// x.Body = v for a local copy x of the request
		if se, ok := as.Lhs[0].(*ast.SelectorExpr); ok && as.Tok == token.ASSIGN && se.Sel.Name == "Body" {
			if id, ok := se.X.(*ast.Ident); ok {
				if v, ok := env.vars[id.Name]; ok && v.Ty == "StdReqV" && !v.Param && v.Alias == nil {
					rhs, err := t.expr(as.Rhs[0], env)
					if err != nil {
						return nil, true, err
					}
					if rhs.Ty != "Body" {
						return nil, true, fmt.Errorf("%s: body of type %s", t.r.Src(st), rhs.Ty)
					}
					return []irLet{{v.Lean, "StdReqV", fmt.Sprintf("{ %s with body := %s }", v.Lean, rhs.S)}}, true, nil
				}
			}
		}
		return nil, false, nil
	}
	s.Ret = func(v []irTerm) (string, error) {
		if len(v) != 1 || v[0].Ty != "Bytes" {
			return "", errUnsupportedReturn
		}
		return "(" + v[0].S + ", resp_status)", nil
	}
	def, skipped, err := irTranslate(r, fd, s)
	if err != nil {
		return err
	}
	if closureName == "" {
		return fmt.Errorf("Validator.Handle: the prepareErrorResponse function literal was not found")
	}
	w.Line("/-! Translated from `Validator.Handle` in %s: the function literal `%s` (result: the status of the response it", c06Valid, closureName)
	w.Line("hands to `ctx.SetOutputResponse`) and the method itself (result: the returned string and the status of the response set, if any).")
	w.Line("`v.X != nil` is `cfg.X.isSome`; `X.Validate` / `Verify` are the model's functions (the validator-package ones tied by their own")
	w.Line("translations above, `Verify` by Gen.FactsC06SignerIR); `req.Std()` is the parsed request with the drained body (reads as empty);")
	w.Line("`stream` = `req.IsStream()` (stream mode is outside the model: the theorem takes `stream = false`); the OAuth2 validator is the")
	w.Line("model's JWT mode `oauthValidate` (token introspection needs a network endpoint: never configured).")
	for _, x := range append(closureSkipped, skipped...) {
		w.Line("Ignored statement (no modelled effect): `%s`", x)
	}
	w.Line("-/")
	w.sb.WriteString(closureDef)
	w.Line("")
	w.sb.WriteString(def)
	w.Line("")
	return nil
}

// c06HdrIR: module Gen.FactsC06HdrIR (httpheader.Validator.Validate)
func c06HdrIR(r *Repo, w *Lean) error {
	c06Header(w)
	hs := c06Base("headerValidateIR", "(re : Bytes → Bytes → Bool) (h : Header) (rules : List HeaderRule)",
		[]string{"re", "h", "rules"}, "Bool")
	hs.Recv = irTerm{"rules", "HV"}
	hs.Params = []irTerm{{"h", "HdrPtr"}}
	for k, v := range map[string]string{"HV": "List HeaderRule", "&Rules": "List (Bytes × HeaderRule)", "Rules": "List (Bytes × HeaderRule)",
		"&VV": "HeaderRule", "Regexp": "Option Bytes"} {
		hs.LeanTy[k] = v
	}
	hs.Fields = map[string]irField{
		"HV.spec":    {Fmt: "(%s.map fun r => (r.key, r))", Ty: "&Rules"},
		"&VV.Values": {Fmt: "%s.values", Ty: "List Bytes"},
		"&VV.re":     {Fmt: "%s.regexp", Ty: "Regexp"},
	}
	hs.RangeKV = map[string][2]string{"Rules": {"Bytes", "&VV"}}
	hs.Methods["HdrPtr.GetAll"] = irCall{Fmt: "(hvals %[1]s (canonKey %[2]s))", Ty: "List Bytes", NArgs: 1}
	hs.Methods["Regexp.MatchString"] = irCall{Fmt: "(re (%[1]s.getD []) %[2]s)", Ty: "Bool", NArgs: 1}
	hs.Funcs["stringtool.StrInSlice"] = irCall{Fmt: "(%[2]s.contains %[1]s)", Ty: "Bool", NArgs: 2}
	hs.Hook = c06DerefHook
	hs.Ret = func(v []irTerm) (string, error) {
		if len(v) != 1 {
			return "", errUnsupportedReturn
		}
		switch v[0].Ty {
		case "nil":
			return "false", nil
		case "Error":
			return v[0].S, nil
		}
		return "", errUnsupportedReturn
	}
	return irEmit(r, w, c06HdrVal, "Validator", "Validate", hs,
		"Result: an error is returned. The spec map is iterated in the order of `rules` (Go's map order is unspecified; the result\n"+
			"`err != nil` does not depend on it). `h.GetAll(key)` = the values under the canonical key; `re p v` = `regexp.MustCompile(p).MatchString(v)`.")
}

func init() {
	imp := []string{"EgVerif.Model.Validator"}
	register(Extractor{Module: "FactsC06IR", Imports: imp, Run: c06BasicIR})
	register(Extractor{Module: "FactsC06JwtIR", Imports: imp, Run: c06JwtIR})
	register(Extractor{Module: "FactsC06HandleIR", Imports: imp, Run: c06HandleIR})
	register(Extractor{Module: "FactsC06HdrIR", Imports: imp, Run: c06HdrIR})
	register(Extractor{Module: "FactsC06OAuthIR", Imports: imp, Run: c06OAuthIR})
	register(Extractor{Module: "FactsC06ReloadIR", Imports: imp, Run: c06ReloadIR})
}
