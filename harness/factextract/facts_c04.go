package main

// Facts for C04 (load balancers): the policy names NewLoadBalancer switches on,
// the jsonschema enum of LoadBalanceSpec.Policy, the nil guard that starts every
// ChooseServer, the panic sites of loadbalance.go, the single atomic fetch-add of
// round robin, the totalWeight guard of weightedRandom, and the single atomic
// Load/Store of the pool's balancer.

import (
	"fmt"
	"go/ast"
	"go/token"
	"reflect"
	"strconv"
	"strings"
)

func c04StructTag(r *Repo, rel, typ, field string) (string, error) {
	f, err := r.File(rel)
	if err != nil {
		return "", err
	}
	var tag string
	found := false
	ast.Inspect(f, func(n ast.Node) bool {
		ts, ok := n.(*ast.TypeSpec)
		if !ok || ts.Name.Name != typ {
			return true
		}
		st, ok := ts.Type.(*ast.StructType)
		if !ok {
			return true
		}
		for _, fl := range st.Fields.List {
			for _, nm := range fl.Names {
				if nm.Name == field && fl.Tag != nil {
					s, err := strconv.Unquote(fl.Tag.Value)
					if err == nil {
						tag, found = s, true
					}
				}
			}
		}
		return false
	})
	if !found {
		return "", fmt.Errorf("%s: tag of %s.%s not found", rel, typ, field)
	}
	return tag, nil
}

func init() {
	register(Extractor{Module: "FactsC04", Run: func(r *Repo, w *Lean) error {
		const lbFile = "pkg/filters/proxy/loadbalance.go"
		const poolFile = "pkg/filters/proxy/pool.go"

		// policy constants and the schema enum
		var consts []string
		for _, c := range []string{"LoadBalancePolicyRoundRobin", "LoadBalancePolicyRandom", "LoadBalancePolicyWeightedRandom",
			"LoadBalancePolicyIPHash", "LoadBalancePolicyHeaderHash"} {
			e, err := r.PkgValue(lbFile, c)
			if err != nil {
				return err
			}
			bl, ok := e.(*ast.BasicLit)
			if !ok || bl.Kind != token.STRING {
				return fmt.Errorf("%s is not a string literal", c)
			}
			s, _ := strconv.Unquote(bl.Value)
			consts = append(consts, s)
		}
		w.Line("/-- values of LoadBalancePolicyRoundRobin, …Random, …WeightedRandom, …IPHash, …HeaderHash -/")
		w.Line("def policyConsts : List String := %s", StrList(consts))
		tag, err := c04StructTag(r, lbFile, "LoadBalanceSpec", "Policy")
		if err != nil {
			return err
		}
		var enum []string
		for _, p := range strings.Split(reflect.StructTag(tag).Get("jsonschema"), ",") {
			if strings.HasPrefix(p, "enum=") {
				enum = append(enum, strings.TrimPrefix(p, "enum="))
			}
		}
		w.Line("/-- jsonschema enum of LoadBalanceSpec.Policy -/")
		w.Line("def policyEnum : List String := %s", StrList(enum))

		// the switch of NewLoadBalancer: case label text -> constructor called
		nf, err := r.Func(lbFile, "", "NewLoadBalancer")
		if err != nil {
			return err
		}
		var cases []string
		ast.Inspect(nf.Body, func(n ast.Node) bool {
			cc, ok := n.(*ast.CaseClause)
			if !ok {
				return true
			}
			var labels []string
			for _, e := range cc.List {
				labels = append(labels, r.Src(e))
			}
			callee := ""
			for _, st := range cc.Body {
				if rs, ok := st.(*ast.ReturnStmt); ok && len(rs.Results) == 1 {
					if ce, ok := rs.Results[0].(*ast.CallExpr); ok {
						callee = r.Src(ce.Fun)
					}
				}
			}
			lab := strings.Join(labels, "|")
			if cc.List == nil {
				lab = "default"
			}
			cases = append(cases, lab+" => "+callee)
			return true
		})
		w.Line("/-- `switch spec.Policy` of NewLoadBalancer: labels => constructor -/")
		w.Line("def newLBCases : List String := %s", StrList(cases))

		// every ChooseServer starts with the nil guard; panic sites; atomics
		recvs := []string{"randomLoadBalancer", "roundRobinLoadBalancer", "WeightedRandomLoadBalancer", "ipHashLoadBalancer", "headerHashLoadBalancer"}
		var guards, panics []string
		for _, rc := range recvs {
			fd, err := r.Func(lbFile, rc, "ChooseServer")
			if err != nil {
				return err
			}
			ok := false
			if len(fd.Body.List) > 0 {
				ok = r.Src(fd.Body.List[0]) == "if len(lb.Servers) == 0 { return nil }"
			}
			if ok {
				guards = append(guards, rc)
			}
			if c := r.CountCalls(fd.Body, "panic"); c > 0 {
				panics = append(panics, fmt.Sprintf("%s.ChooseServer:%d", rc, c))
			}
		}
		w.Line("/-- ChooseServer methods whose first statement is `if len(lb.Servers) == 0 { return nil }` -/")
		w.Line("def nilGuarded : List String := %s", StrList(guards))
		w.Line("/-- explicit `panic(` calls in the ChooseServer methods -/")
		w.Line("def panicSites : List String := %s", StrList(panics))
		f, err := r.File(lbFile)
		if err != nil {
			return err
		}
		w.Line("/-- all explicit `panic(` calls in loadbalance.go -/")
		w.Line("def panicCallsInFile : Nat := %d", r.CountCalls(f, "panic"))

		rr, _ := r.Func(lbFile, "roundRobinLoadBalancer", "ChooseServer")
		w.Line("/-- `atomic.AddUint64` calls in roundRobinLoadBalancer.ChooseServer -/")
		w.Line("def rrFetchAdds : Nat := %d", r.CountCalls(rr.Body, "atomic.AddUint64"))
		rrIndexed := false
		ast.Inspect(rr.Body, func(n ast.Node) bool {
			if rs, ok := n.(*ast.ReturnStmt); ok && len(rs.Results) == 1 && r.Src(rs.Results[0]) == "lb.Servers[int(counter)%len(lb.Servers)]" {
				rrIndexed = true
			}
			return true
		})
		w.Line("def rrIndexExpr : Bool := %s", Bool(rrIndexed))

		// weightedRandom: a `lb.totalWeight <= 0` guard precedes rand.Intn(lb.totalWeight)
		wr, _ := r.Func(lbFile, "WeightedRandomLoadBalancer", "ChooseServer")
		guardAt, intnAt := -1, -1
		for i, st := range wr.Body.List {
			if is, ok := st.(*ast.IfStmt); ok && guardAt < 0 && is.Init == nil {
				c := r.Src(is.Cond)
				if (c == "lb.totalWeight <= 0" || c == "lb.totalWeight < 1") && len(is.Body.List) > 0 {
					if _, ok := is.Body.List[len(is.Body.List)-1].(*ast.ReturnStmt); ok {
						guardAt = i
					}
				}
			}
			if intnAt < 0 && strings.Contains(r.Src(st), "rand.Intn(lb.totalWeight)") {
				intnAt = i
			}
		}
		w.Line("/-- weightedRandom: an `if lb.totalWeight <= 0 { …; return … }` precedes `rand.Intn(lb.totalWeight)` -/")
		w.Line("def weightedZeroGuarded : Bool := %s", Bool(guardAt >= 0 && intnAt > guardAt))
		// the loop skips servers without a positive weight, the constructor sums positive weights only
		skips := false
		ast.Inspect(wr.Body, func(n ast.Node) bool {
			if rs, ok := n.(*ast.RangeStmt); ok && len(rs.Body.List) > 0 {
				if r.Src(rs.Body.List[0]) == "if server.Weight <= 0 { continue }" {
					skips = true
				}
			}
			return true
		})
		w.Line("/-- the weighted loop starts with `if server.Weight <= 0 { continue }` -/")
		w.Line("def weightedLoopSkipsNonPositive : Bool := %s", Bool(skips))
		nw, err := r.Func(lbFile, "", "newWeightedRandomLoadBalancer")
		if err != nil {
			return err
		}
		sums := []string{}
		ast.Inspect(nw.Body, func(n ast.Node) bool {
			if rs, ok := n.(*ast.RangeStmt); ok {
				for _, st := range rs.Body.List {
					sums = append(sums, r.Src(st))
				}
			}
			return true
		})
		w.Line("/-- body of the summing loop of newWeightedRandomLoadBalancer -/")
		w.Line("def weightedSumLoop : List String := %s", StrList(sums))

		// hash policies use FNV-1 (New32), not FNV-1a
		w.Line("def fnvNew32Calls : Nat := %d", r.CountCalls(f, "fnv.New32"))
		w.Line("def fnvNew32aCalls : Nat := %d", r.CountCalls(f, "fnv.New32a"))

		// balancers are immutable after construction apart from the counter
		writes := 0
		ast.Inspect(f, func(n ast.Node) bool {
			if as, ok := n.(*ast.AssignStmt); ok {
				for _, l := range as.Lhs {
					s := r.Src(l)
					if strings.HasSuffix(s, ".Servers") || strings.HasSuffix(s, ".key") {
						writes++
					}
				}
			}
			return true
		})
		w.Line("/-- assignments to a balancer's `Servers`/`key` field outside composite literals -/")
		w.Line("def postConstructionWrites : Nat := %d", writes)

		// pool: one atomic Load per LoadBalancer(), one Store (createLoadBalancer), one choice per doHandle
		pf, err := r.File(poolFile)
		if err != nil {
			return err
		}
		lbm, err := r.Func(poolFile, "ServerPool", "LoadBalancer")
		if err != nil {
			return err
		}
		w.Line("def poolLoadsInLoadBalancer : Nat := %d", r.CountCalls(lbm.Body, "sp.loadBalancer.Load"))
		w.Line("def poolStoresInFile : Nat := %d", r.CountCalls(pf, "sp.loadBalancer.Store"))
		clb, err := r.Func(poolFile, "ServerPool", "createLoadBalancer")
		if err != nil {
			return err
		}
		w.Line("def poolStoresInCreate : Nat := %d", r.CountCalls(clb.Body, "sp.loadBalancer.Store"))
		dh, err := r.Func(poolFile, "ServerPool", "doHandle")
		if err != nil {
			return err
		}
		w.Line("def doHandleChoices : Nat := %d", r.CountCalls(dh.Body, "sp.LoadBalancer().ChooseServer"))
		nilRet := ""
		ast.Inspect(dh.Body, func(n ast.Node) bool {
			if is, ok := n.(*ast.IfStmt); ok && r.Src(is.Cond) == "svr == nil" {
				for _, st := range is.Body.List {
					if rs, ok := st.(*ast.ReturnStmt); ok && len(rs.Results) == 1 {
						nilRet = r.Src(rs.Results[0])
					}
				}
			}
			return true
		})
		w.Line("/-- what doHandle returns when ChooseServer returned nil -/")
		w.Line("def doHandleNilReturn : String := %s", Str(nilRet))
		return nil
	}})
}
