package main

import (
	"go/ast"
	"strings"
)

// Facts for C09: the modelled function is serialised by the limiter's mutex,
// and the constants the filter uses as defaults.

func init() {
	register(Extractor{Module: "FactsC09", Run: func(r *Repo, w *Lean) error {
		fd, err := r.Func("pkg/util/ratelimiter/ratelimiter.go", "RateLimiter", "acquirePermission")
		if err != nil {
			return err
		}
		w.Line("/-- `acquirePermission` starts with `rl.lock.Lock(); defer rl.lock.Unlock()`. -/")
		w.Line("def acquireLocksFirst : Bool := %s", Bool(r.LocksFirst(fd)))
		w.Line("/-- number of `nowFunc()` reads inside `acquirePermission` (one clock read per decision). -/")
		w.Line("def acquireClockReads : Nat := %d", r.CountCalls(fd.Body, "nowFunc"))

		// MultiRateLimiter.AcquirePermission
		md, err := r.Func("pkg/util/ratelimiter/multiratelimiter.go", "MultiRateLimiter", "AcquirePermission")
		if err != nil {
			return err
		}
		w.Line("def multiLocksFirst : Bool := %s", Bool(r.LocksFirst(md)))
		w.Line("def multiClockReads : Nat := %d", r.CountCalls(md.Body, "nowFunc"))

		// filter: createRateLimiter defaults, result / status of a rejection, reload's hand-over
		const ff = "pkg/filters/ratelimiter/ratelimiter.go"
		cf, err := r.Func(ff, "URLRule", "createRateLimiter")
		if err != nil {
			return err
		}
		var defaults []string
		ast.Inspect(cf.Body, func(n ast.Node) bool {
			as, ok := n.(*ast.AssignStmt)
			if !ok || len(as.Lhs) != 1 || len(as.Rhs) != 1 {
				return true
			}
			l, rr := r.Src(as.Lhs[0]), r.Src(as.Rhs[0])
			if strings.HasPrefix(l, "policy.") && !strings.Contains(rr, "(") {
				defaults = append(defaults, l+" = "+rr)
			}
			return true
		})
		w.Line("/-- literal defaults assigned in `createRateLimiter` -/")
		w.Line("def createDefaults : List String := %s", StrList(defaults))
		v, err := r.PkgValue(ff, "resultRateLimited")
		if err != nil {
			return err
		}
		w.Line("def resultRateLimited : String := %s", r.Src(v))
		hf, err := r.Func(ff, "RateLimiter", "Handle")
		if err != nil {
			return err
		}
		w.Line("def handleAcquireCalls : Nat := %d", r.CountCalls(hf.Body, "u.rl.AcquirePermission"))
		w.Line("def handleSetsTooManyRequests : Nat := %d", r.CountCalls(hf.Body, "resp.SetStatusCode"))
		codes := []string{}
		ast.Inspect(hf.Body, func(n ast.Node) bool {
			if ce, ok := n.(*ast.CallExpr); ok && r.Src(ce.Fun) == "resp.SetStatusCode" && len(ce.Args) == 1 {
				codes = append(codes, r.Src(ce.Args[0]))
			}
			return true
		})
		w.Line("def handleStatusCodes : List String := %s", StrList(codes))
		rf, err := r.Func(ff, "RateLimiter", "reload")
		if err != nil {
			return err
		}
		nils, shares := 0, 0
		ast.Inspect(rf.Body, func(n ast.Node) bool {
			if as, ok := n.(*ast.AssignStmt); ok {
				switch r.Src(as) {
				case "prev.rl = nil":
					nils++
				case "url.rl = prev.rl":
					shares++
				}
			}
			return true
		})
		w.Line("/-- `reload`: `url.rl = prev.rl` occurs once and the previous generation's pointer is not cleared -/")
		w.Line("def reloadSharesLimiter : Nat := %d", shares)
		w.Line("def reloadClearsPrev : Nat := %d", nils)
		return nil
	}})
}
