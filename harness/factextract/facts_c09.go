package main

// Facts for C09: the modelled function is serialised by the limiter's mutex,
// and the constants the filter uses as defaults.

func init() {
	register(Extractor{Module: "FactsC09", Run: func(r *Repo, w *Lean) error {
		fd, err := r.Func("pkg/util/ratelimiter/ratelimiter.go", "RateLimiter", "acquirePermission")
		if err != nil {
			return err
		}
		w.Line("/-- `acquirePermission` starts with `rl.lock.Lock(); defer rl.lock.Unlock()`. -/")
		w.Line("def acquireLocksFirst : Bool := %s", Bool(r.LocksFirst(fd)))
		w.Line("/-- number of `nowFunc()` reads inside `acquirePermission` (one clock read per decision). -/")
		w.Line("def acquireClockReads : Nat := %d", r.CountCalls(fd.Body, "nowFunc"))
		return nil
	}})
}
