package main

// Facts for C17: constants and call structure the connection-cap model assumes.

import (
	"sort"
	"go/ast"
	"strings"
)

func init() {
	register(Extractor{Module: "FactsC17", Run: func(r *Repo, w *Lean) error {
		mc, err := r.PkgValue("pkg/util/sem/semaphore.go", "maxCapacity")
		if err != nil {
			return err
		}
		w.Line("/-- sem/semaphore.go `maxCapacity` -/")
		w.Line("def maxCapacity : Int := %s", strings.ReplaceAll(r.Src(mc), "_", ""))

		ns, err := r.Func("pkg/util/sem/semaphore.go", "", "NewSem")
		if err != nil {
			return err
		}
		src := r.Src(ns.Body)
		w.Line("/-- NewSem: NewWeighted(maxCapacity), realCapacity = n, pre-acquire maxCapacity - realCapacity. -/")
		w.Line("def newSemShape : Bool := %s", Bool(strings.Contains(src, "semaphore.NewWeighted(maxCapacity)") &&
			strings.Contains(src, "realCapacity: int64(n)") && strings.Contains(src, "s.sem.Acquire(context.Background(), maxCapacity-s.realCapacity)")))

		sm, err := r.Func("pkg/util/sem/semaphore.go", "Semaphore", "SetMaxCount")
		if err != nil {
			return err
		}
		// bookkeeping under the lock, adjustment in a goroutine
		lockIdx, swapIdx, unlockIdx, goIdx := -1, -1, -1, -1
		goOK := false
		for i, st := range sm.Body.List {
			s := r.Src(st)
			switch {
			case s == "s.lock.Lock()":
				lockIdx = i
			case strings.HasSuffix(strings.SplitN(s, " = ", 2)[0], ".realCapacity") && strings.Contains(s, " = "):
				swapIdx = i // <recv>.realCapacity = <new value>
			case s == "s.lock.Unlock()":
				unlockIdx = i
			}
			if g, ok := st.(*ast.GoStmt); ok {
				goIdx = i
				b := r.Src(g.Call.Fun)
				// what the goroutine computes is tied by translation (facts_c17_ir.go: setMaxCountIR); here only:
				// the semaphore is adjusted inside the goroutine, i.e. after the lock has been released
				goOK = strings.Contains(b, ".sem.Release(") && strings.Contains(b, ".sem.Acquire(")
			}
		}
		w.Line("/-- SetMaxCount: old/realCapacity swapped between lock.Lock and lock.Unlock, then `go` Release(n-old) / Acquire(old-n). -/")
		w.Line("def setMaxShape : Bool := %s", Bool(lockIdx >= 0 && lockIdx < swapIdx && swapIdx < unlockIdx && unlockIdx < goIdx && goOK))

		acq, err := r.Func("pkg/util/sem/semaphore.go", "Semaphore", "AcquireWithContext")
		if err != nil {
			return err
		}
		rel, err := r.Func("pkg/util/sem/semaphore.go", "Semaphore", "Release")
		if err != nil {
			return err
		}
		w.Line("/-- unit acquire / release: `s.sem.Acquire(ctx, 1)`, `s.sem.Release(1)`. -/")
		w.Line("def unitOps : Bool := %s", Bool(strings.Contains(r.Src(acq.Body), "s.sem.Acquire(ctx, 1)") && strings.Contains(r.Src(rel.Body), "s.sem.Release(1)")))

		ac, err := r.Func("pkg/util/limitlistener/limitlistener.go", "LimitListener", "Accept")
		if err != nil {
			return err
		}
		a := c17Index(r, ac.Body, "l.acquire()")
		in := c17Index(r, ac.Body, "l.Listener.Accept()")
		ret := c17Index(r, ac.Body, "&limitListenerConn{Conn: c, release: l.release}")
		w.Line("/-- Accept: acquire first, then the inner Accept, then wrap with release. -/")
		w.Line("def acceptAcquiresFirst : Bool := %s", Bool(a >= 0 && a < in && in < ret))

		cl, err := r.Func("pkg/util/limitlistener/limitlistener.go", "limitListenerConn", "Close")
		if err != nil {
			return err
		}
		w.Line("/-- limitListenerConn.Close releases through sync.Once. -/")
		w.Line("def closeReleasesOnce : Bool := %s", Bool(strings.Contains(r.Src(cl.Body), "l.releaseOnce.Do(l.release)") && r.CountCalls(cl.Body, "l.release") == 0))

		// Where a connection's unit can be released: the method sets of the two types of limitlistener.go and every
		// function of the file that mentions the `release` / `releaseOnce` fields. A new method on the wrapper
		// (e.g. a Read that releases on EOF) or a new user of these fields changes the lists.
		llf, err := r.File("pkg/util/limitlistener/limitlistener.go")
		if err != nil {
			return err
		}
		var connMethods, listenerMethods, otherFuncs, releaseUsers []string
		for _, d := range llf.Decls {
			fd, ok := d.(*ast.FuncDecl)
			if !ok {
				continue
			}
			q := fd.Name.Name
			switch {
			case fd.Recv == nil:
				otherFuncs = append(otherFuncs, q)
			case len(fd.Recv.List) == 1 && recvName(fd.Recv.List[0].Type) == "limitListenerConn":
				connMethods = append(connMethods, q)
				q = "limitListenerConn." + q
			case len(fd.Recv.List) == 1 && recvName(fd.Recv.List[0].Type) == "LimitListener":
				listenerMethods = append(listenerMethods, q)
				q = "LimitListener." + q
			default:
				otherFuncs = append(otherFuncs, "?."+q)
			}
			uses := false
			if fd.Body != nil {
				ast.Inspect(fd.Body, func(n ast.Node) bool {
					switch x := n.(type) {
					case *ast.SelectorExpr:
						if x.Sel.Name == "release" || x.Sel.Name == "releaseOnce" {
							uses = true
						}
					case *ast.KeyValueExpr:
						if id, ok := x.Key.(*ast.Ident); ok && (id.Name == "release" || id.Name == "releaseOnce") {
							uses = true
						}
					}
					return true
				})
			}
			if uses {
				releaseUsers = append(releaseUsers, q)
			}
		}
		sort.Strings(connMethods)
		sort.Strings(listenerMethods)
		sort.Strings(otherFuncs)
		sort.Strings(releaseUsers)
		strList := func(xs []string) string {
			q := make([]string, len(xs))
			for i, x := range xs {
				q[i] = Str(x)
			}
			return "[" + strings.Join(q, ", ") + "]"
		}
		w.Line("/-- methods declared on limitListenerConn (everything else is the embedded net.Conn) -/")
		w.Line("def connMethods : List String := %s", strList(connMethods))
		w.Line("/-- methods declared on LimitListener -/")
		w.Line("def listenerMethods : List String := %s", strList(listenerMethods))
		w.Line("/-- plain functions (and methods of other types) of limitlistener.go -/")
		w.Line("def listenerOtherFuncs : List String := %s", strList(otherFuncs))
		w.Line("/-- functions of limitlistener.go that mention the `release` / `releaseOnce` fields or the listener's `release` method -/")
		w.Line("def releaseUsers : List String := %s", strList(releaseUsers))

		smc, err := r.Func("pkg/util/limitlistener/limitlistener.go", "LimitListener", "SetMaxConnection")
		if err != nil {
			return err
		}
		w.Line("/-- SetMaxConnection = sem.SetMaxCount(int64(n)). -/")
		w.Line("def setMaxConnectionDelegates : Bool := %s", Bool(r.Src(smc.Body) == "{ l.sem.SetMaxCount(int64(n)) }"))

		rl, err := r.Func("pkg/object/httpserver/runtime.go", "runtime", "reload")
		if err != nil {
			return err
		}
		w.Line("/-- runtime.reload applies the new spec's MaxConnections to the limit listener. -/")
		w.Line("def reloadSetsMaxConnection : Bool := %s", Bool(strings.Contains(r.Src(rl.Body), "r.limitListener.SetMaxConnection(nextSpec.MaxConnections)")))

		cp, err := r.Func("pkg/object/mqttproxy/broker.go", "Broker", "checkConnectPermission")
		if err != nil {
			return err
		}
		w.Line("/-- checkConnectPermission: len(b.clients) read under the lock, refusal when >= MaxAllowedConnection. -/")
		cps := r.Src(cp.Body)
		w.Line("def earlyCheckShape : Bool := %s", Bool(strings.Contains(cps, "b.Lock() connNum := len(b.clients) b.Unlock()") && strings.Contains(cps, "connNum >= b.spec.MaxAllowedConnection")))

		hc, err := r.Func("pkg/object/mqttproxy/broker.go", "Broker", "handleConn")
		if err != nil {
			return err
		}
		hs := r.Src(hc.Body)
		w.Line("/-- handleConn: takeover branch first, else cap check `len(b.clients) >= MaxAllowedConnection` with refusal, then registration - all in one locked section. -/")
		w.Line("def lockedCheckShape : Bool := %s", Bool(strings.Contains(hs, "if oldClient, ok := b.clients[cid]; ok {") &&
			strings.Contains(hs, "} else if b.spec.MaxAllowedConnection > 0 { if len(b.clients) >= b.spec.MaxAllowedConnection {") &&
			strings.Contains(hs, "connack.ReturnCode = packets.ErrRefusedServerUnavailable") &&
			strings.Index(hs, "b.Lock()") < strings.Index(hs, "if oldClient, ok") &&
			strings.Index(hs, "len(b.clients) >= b.spec.MaxAllowedConnection") < strings.Index(hs, "b.clients[client.info.cid] = client")))
		return nil
	}})
}

func c17Index(r *Repo, body *ast.BlockStmt, sub string) int {
	for i, st := range body.List {
		if strings.Contains(r.Src(st), sub) {
			return i
		}
	}
	return -1
}
