package main

// Regenerated tie by translation for C19 (irlib.go, notes/IR.md): the bodies of `isKeyValueEqual`,
// `isDataEqual`, `syncer.pull`, of the closure `pullCompareSend` inside `syncer.run` and of the four
// `fn` closures of `Sync` / `SyncRaw` / `SyncPrefix` / `SyncRawPrefix` (pkg/cluster/syncer.go)
// → Gen.FactsC19IR.*IR; `<fn>_regenerated_from_source` (Proofs/SyncerIR.lean, re-exported by
// Props/C19.lean) prove them equal to Model/Syncer.lean's functions for all inputs.
//
// Named closures (`name := func(…) {…}` inside a function) are translated as functions of their own
// (c19ClosureDecl): a synthetic FuncDecl whose receiver / parameters are those of the enclosing function
// followed by the closure's own parameters and by the captured locals the closure assigns (`data`);
// all of them are bound by position, so renaming any of them gives an α-equivalent definition.
// `ch <- x` inside the adapters' closures is rewritten to a synthetic statement call (c19RewriteSends).

import (
	"fmt"
	"go/ast"
	"go/token"
	"os"
	"strings"
)

const c19File = "pkg/cluster/syncer.go"

// c19Closure finds `name := func(…) {…}` among the top-level statements of fd.
func c19Closure(fd *ast.FuncDecl, name string) (*ast.FuncLit, error) {
	for _, st := range fd.Body.List {
		if as, ok := st.(*ast.AssignStmt); ok && as.Tok == token.DEFINE && len(as.Lhs) == 1 && len(as.Rhs) == 1 {
			if id, ok := as.Lhs[0].(*ast.Ident); ok && id.Name == name {
				if fl, ok := as.Rhs[0].(*ast.FuncLit); ok {
					return fl, nil
				}
			}
		}
	}
	return nil, fmt.Errorf("%s: closure %s not found", fd.Name.Name, name)
}

// c19Captured lists the variables the closure assigns with `=` but does not declare: captured
// mutable locals of the enclosing function (in order of first assignment).
func c19Captured(fl *ast.FuncLit) []string {
	declared := map[string]bool{}
	if fl.Type.Params != nil {
		for _, f := range fl.Type.Params.List {
			for _, n := range f.Names {
				declared[n.Name] = true
			}
		}
	}
	var out []string
	seen := map[string]bool{}
	ast.Inspect(fl.Body, func(n ast.Node) bool {
		switch x := n.(type) {
		case *ast.AssignStmt:
			for _, l := range x.Lhs {
				id, ok := l.(*ast.Ident)
				if !ok || id.Name == "_" {
					continue
				}
				if x.Tok == token.DEFINE {
					declared[id.Name] = true
				} else if !declared[id.Name] && !seen[id.Name] {
					seen[id.Name] = true
					out = append(out, id.Name)
				}
			}
		case *ast.RangeStmt:
			for _, e := range []ast.Expr{x.Key, x.Value} {
				if id, ok := e.(*ast.Ident); ok && x.Tok == token.DEFINE {
					declared[id.Name] = true
				}
			}
		}
		return true
	})
	return out
}

// c19ClosureDecl builds the synthetic declaration: receiver and parameters of fd, then the closure's
// parameters, then `extra` (captured locals) as further parameters; the body is the closure's.
func c19ClosureDecl(fd *ast.FuncDecl, fl *ast.FuncLit, name string, extra []string, body *ast.BlockStmt) *ast.FuncDecl {
	var fields []*ast.Field
	if fd.Type.Params != nil {
		fields = append(fields, fd.Type.Params.List...)
	}
	if fl.Type.Params != nil {
		fields = append(fields, fl.Type.Params.List...)
	}
	for _, n := range extra {
		fields = append(fields, &ast.Field{Names: []*ast.Ident{ast.NewIdent(n)}})
	}
	return &ast.FuncDecl{Recv: fd.Recv, Name: ast.NewIdent(name),
		Type: &ast.FuncType{Params: &ast.FieldList{List: fields}, Results: fl.Type.Results}, Body: body}
}

// c19ParamNames: the parameter names of fd by position.
func c19ParamNames(ft *ast.FuncType) []string {
	var out []string
	if ft.Params != nil {
		for _, f := range ft.Params.List {
			if len(f.Names) == 0 {
				out = append(out, "_")
			}
			for _, n := range f.Names {
				out = append(out, n.Name)
			}
		}
	}
	return out
}

// c19RewriteSends replaces every `c <- x` by the statement call `§chSend(x)` (`§chSendNil()` for
// `c <- nil`), copying the enclosing blocks; chans counts the distinct channel expressions seen.
func c19RewriteSends(r *Repo, b []ast.Stmt, chans map[string]bool) []ast.Stmt {
	out := make([]ast.Stmt, len(b))
	for i, s := range b {
		out[i] = c19RewriteSend(r, s, chans)
	}
	return out
}

func c19RewriteSend(r *Repo, s ast.Stmt, chans map[string]bool) ast.Stmt {
	switch x := s.(type) {
	case *ast.SendStmt:
		chans[r.Src(x.Chan)] = true
		chans["§value:"+r.Src(x.Value)] = true
		if id, ok := x.Value.(*ast.Ident); ok && id.Name == "nil" {
			return &ast.ExprStmt{X: &ast.CallExpr{Fun: ast.NewIdent("§chSendNil")}}
		}
		return &ast.ExprStmt{X: &ast.CallExpr{Fun: ast.NewIdent("§chSend"), Args: []ast.Expr{x.Value}}}
	case *ast.BlockStmt:
		return &ast.BlockStmt{List: c19RewriteSends(r, x.List, chans)}
	case *ast.IfStmt:
		n := *x
		n.Body = &ast.BlockStmt{List: c19RewriteSends(r, x.Body.List, chans)}
		if x.Else != nil {
			n.Else = c19RewriteSend(r, x.Else, chans)
		}
		return &n
	case *ast.RangeStmt:
		n := *x
		n.Body = &ast.BlockStmt{List: c19RewriteSends(r, x.Body.List, chans)}
		return &n
	}
	return s
}

// c19Spec: the common tables. `guardDeref`: a field read through a `*mvccpb.KeyValue` records the guard
// "pointer is not nil" (irCall.Guard mechanism: `if guard then … else <Panic>`).
func c19Spec(name string, guardDeref bool) *irSpec {
	sp := &irSpec{
		Name: name,
		LeanTy: map[string]string{"KVp": "Option KV", "Bytes": "String", "SMap": "List (String × String)",
			"Syncer": "String → Bool → Option Data", "Cl": "Bool → String → EtcdResp",
			"OpCluster": "(Bool → String → EtcdResp)", "Client": "(Bool → String → EtcdResp)", "Ctx": "Unit", "Cancel": "Unit", "Resp": "List KV"},
		Fields: map[string]irField{
			"KVp.Key":         {Fmt: "(kvKey %s)", Ty: "Bytes"},
			"KVp.Value":       {Fmt: "(kvValue %s)", Ty: "Bytes"},
			"SyncerC.cluster": {Fmt: "%s", Ty: "Cl"},
			"Resp.Kvs":        {Fmt: "(%s.map some)", Ty: "List KVp"},
		},
		Funcs: map[string]irCall{
			"len:Data":            {Fmt: "%[1]s.length", Ty: "Nat", NArgs: 1},
			"len:List KVp":        {Fmt: "%[1]s.length", Ty: "Nat", NArgs: 1},
			"bytes.Equal:Bytes":   {Fmt: "(%[1]s == %[2]s)", Ty: "Bool", NArgs: 2},
			"isKeyValueEqual:KVp": {Fmt: "(isKeyValueEqual %[1]s %[2]s)", Ty: "Bool", NArgs: 2},
			"isDataEqual:Data":    {Fmt: "(isDataEqual %[1]s %[2]s)", Ty: "Bool", NArgs: 2},
		},
		Methods: map[string]irCall{
			// the answer of the store to a (prefix?) read of a key is the binder `cl`
			"Cl.GetRawPrefix": {Fmt: "(getRawPrefix (%[1]s true %[2]s))", Ty: "Data × Error", NArgs: 1},
			"Cl.GetRaw":       {Fmt: "(getRaw (%[1]s false %[2]s))", Ty: "KVp × Error", NArgs: 1},
			// the outcome of `s.pull(key, prefix)` is the binder `pl` (none = error)
			"Syncer.pull": {Fmt: "(pullE (%[1]s %[2]s %[3]s))", Ty: "Data × Error", NArgs: 2},
			// op.go getters (receiver type OpCluster = the store's answers `cl`; `gc` = getClient fails)
			"OpCluster.getClient":      {Fmt: "(%[1]s, gc)", Ty: "Client × Error", NArgs: 0},
			"OpCluster.requestContext": {Fmt: "((), ())", Ty: "Ctx × Cancel", NArgs: 0},
			"OpCluster.GetRaw":         {Fmt: "(getRaw (respOf %[1]s gc false %[2]s))", Ty: "KVp × Error", NArgs: 1},
			"OpCluster.GetRawPrefix":   {Fmt: "(getRawPrefix (respOf %[1]s gc true %[2]s))", Ty: "Data × Error", NArgs: 1},
		},
		Conv:     map[string]irCall{"string:Bytes": {Fmt: "%[1]s", Ty: "String"}},
		IndexSet: map[string]string{"Data": "(mapSet %[1]s %[2]s %[3]s)", "SMap": "(smapSet %[1]s %[2]s %[3]s)"},
		RangeKV:  map[string][2]string{"Data": {"String", "KVp"}},
		Ignore: func(src string, s ast.Stmt) bool {
			if ds, ok := s.(*ast.DeferStmt); ok { // `defer cancel()` of a request context
				_, isId := ds.Call.Fun.(*ast.Ident)
				return isId && len(ds.Call.Args) == 0
			}
			_, ok := s.(*ast.ExprStmt)
			return ok && strings.HasPrefix(src, "logger.")
		},
	}
	sp.Hook = func(t *irT, e ast.Expr, env *irEnv) (irTerm, bool, error) {
		switch x := e.(type) {
		case *ast.CallExpr:
			// client.Get(ctx, k) / client.Get(ctx, k, clientv3.WithPrefix()): ONE read of the store; the answer is
			// `client pfx k`. Any other option list (WithRev, WithLimit, `opts...`, …) is outside the subset.
			if se, ok := x.Fun.(*ast.SelectorExpr); ok && se.Sel.Name == "Get" && irRootInEnv(se.X, env) {
				if cx, err := t.tryExpr(se.X, env); err == nil && cx.Ty == "Client" {
					if x.Ellipsis.IsValid() || len(x.Args) < 2 || len(x.Args) > 3 {
						return irTerm{}, true, fmt.Errorf("client.Get with an option list that is not fixed: %s", t.r.Src(x))
					}
					pfx := "false"
					if len(x.Args) == 3 {
						if t.r.Src(x.Args[2]) != "clientv3.WithPrefix()" {
							return irTerm{}, true, fmt.Errorf("client.Get with an unsupported option: %s", t.r.Src(x))
						}
						pfx = "true"
					}
					if c, err := t.expr(x.Args[0], env); err != nil || c.Ty != "Ctx" {
						return irTerm{}, true, fmt.Errorf("client.Get: first argument is not the request context: %s", t.r.Src(x))
					}
					k, err := t.expr(x.Args[1], env)
					if err != nil || k.Ty != "String" {
						return irTerm{}, true, fmt.Errorf("client.Get: key %s", t.r.Src(x.Args[1]))
					}
					return irTerm{fmt.Sprintf("(getE (%s %s %s))", cx.S, pfx, k.S), "Resp × Error"}, true, nil
				}
			}
			// func() (…) { ctx, cancel := c.requestContext(); defer cancel(); return E }(): inlined, value = E
			if fl, ok := x.Fun.(*ast.FuncLit); ok && len(x.Args) == 0 && (fl.Type.Params == nil || len(fl.Type.Params.List) == 0) {
				b := fl.Body.List
				if len(b) != 3 {
					return irTerm{}, true, fmt.Errorf("immediately invoked closure with an unsupported body: %s", t.r.Src(x))
				}
				as, ok1 := b[0].(*ast.AssignStmt)
				_, ok2 := b[1].(*ast.DeferStmt)
				rs, ok3 := b[2].(*ast.ReturnStmt)
				if !ok1 || !ok2 || !ok3 || as.Tok != token.DEFINE || len(as.Lhs) != 2 || len(as.Rhs) != 1 || len(rs.Results) != 1 || !t.ignorable(b[1]) {
					return irTerm{}, true, fmt.Errorf("immediately invoked closure with an unsupported body: %s", t.r.Src(x))
				}
				rc, err := t.expr(as.Rhs[0], env)
				if err != nil || rc.Ty != "Ctx × Cancel" {
					return irTerm{}, true, fmt.Errorf("immediately invoked closure: %s is not a request context", t.r.Src(as.Rhs[0]))
				}
				env2 := env.push()
				for i, ty := range []string{"Ctx", "Cancel"} {
					if id, ok := as.Lhs[i].(*ast.Ident); ok && id.Name != "_" {
						env2 = env2.with(id.Name, irVar{Lean: "()", Ty: ty, Depth: env2.depth, Param: true})
					}
				}
				v, err := t.expr(rs.Results[0], env2)
				return v, true, err
			}
			// make(map[string]*mvccpb.KeyValue[, n]) / make(map[string]string[, n]): the empty map
			if id, ok := x.Fun.(*ast.Ident); ok && id.Name == "make" && len(x.Args) >= 1 && !irInEnv(env, "make") {
				switch t.r.Src(x.Args[0]) {
				case "map[string]*mvccpb.KeyValue":
					return irTerm{"([] : Data)", "Data"}, true, nil
				case "map[string]string":
					return irTerm{"([] : List (String × String))", "SMap"}, true, nil
				}
			}
		case *ast.SelectorExpr:
			if !guardDeref || !irRootInEnv(x.X, env) {
				break
			}
			rx, err := t.tryExpr(x.X, env)
			if err != nil || rx.Ty != "KVp" {
				break
			}
			f, ok := t.spec.Fields["KVp."+x.Sel.Name]
			if !ok {
				break
			}
			t.guards = append(t.guards, rx.S+".isSome")
			return irTerm{irFmt(f.Fmt, []string{rx.S}), f.Ty}, true, nil
		}
		return irTerm{}, false, nil
	}
	return sp
}

func c19Preamble(w *Lean) {
	w.Line("open EgVerif.Syncer")
	w.Line("")
	w.Line("/-- `kv.Key` / `kv.Value` read through a `*mvccpb.KeyValue` (`none` = nil; where the translation")
	w.Line("records guards, a read through nil is the panic result instead). -/")
	w.Line("def kvKey : Option KV → String")
	w.Line("  | none => \"\"")
	w.Line("  | some kv => kv.key")
	w.Line("def kvValue : Option KV → String")
	w.Line("  | none => \"\"")
	w.Line("  | some kv => kv.value")
	w.Line("")
	w.Line("/-- `v, ok := m[k]` on a `map[string]*mvccpb.KeyValue`. -/")
	w.Line("def lookup2 (d : Data) (k : String) : Option KV × Bool :=")
	w.Line("  match d.lookup k with")
	w.Line("  | none => (none, false)")
	w.Line("  | some v => (v, true)")
	w.Line("")
	w.Line("/-- `m[k]` (zero value nil for a missing key). -/")
	w.Line("def lookup1 (d : Data) (k : String) : Option KV := (lookup2 d k).1")
	w.Line("")
	w.Line("/-- `m[k] = v`: replace the entry of an existing key, else add one. -/")
	w.Line("def mapSet (d : Data) (k : String) (v : Option KV) : Data :=")
	w.Line("  if (d.lookup k).isSome then d.map (fun e => if e.1 == k then (k, v) else e) else d ++ [(k, v)]")
	w.Line("def smapSet (d : List (String × String)) (k : String) (v : String) : List (String × String) :=")
	w.Line("  if (d.lookup k).isSome then d.map (fun e => if e.1 == k then (k, v) else e) else d ++ [(k, v)]")
	w.Line("")
	w.Line("/-- `(resp.Kvs, err)` of ONE `client.Get`. -/")
	w.Line("def getE : EtcdResp → List KV × Bool")
	w.Line("  | .error => ([], true)")
	w.Line("  | .kvs l => (l, false)")
	w.Line("")
	w.Line("/-- What the getters of op.go see of the store: `getClient` failed (`gc`), or the answer `cl pfx key` of the read. -/")
	w.Line("def respOf (cl : Bool → String → EtcdResp) (gc : Bool) (pfx : Bool) (key : String) : EtcdResp :=")
	w.Line("  if gc then .error else cl pfx key")
	w.Line("")
	w.Line("/-- `(map, err)` as `syncer.pull` returns it, from the outcome `none` = error. -/")
	w.Line("def pullE : Option Data → Data × Bool")
	w.Line("  | none => ([], true)")
	w.Line("  | some d => (d, false)")
	w.Line("")
}

func init() {
	register(Extractor{Module: "FactsC19IR", Imports: []string{"EgVerif.Model.Syncer"}, Run: func(r *Repo, w *Lean) error {
		c19Preamble(w)

		// A function that can no longer be translated breaks ITS theorems only (its definitions are absent from
		// the generated module, so `<fn>_regenerated_from_source` fails to elaborate and is named by bin/check).
		soft := func(err error) {
			fmt.Fprintf(os.Stderr, "factextract: FactsC19IR: %v\n", err)
			w.Line("/- extraction FAILED for one function (its theorems break): %s -/", strings.ReplaceAll(err.Error(), "-/", "- /"))
			w.Line("")
		}

		// --- isKeyValueEqual -------------------------------------------------------------------
		s := c19Spec("isKeyValueEqualIR", true)
		s.Binders, s.BNames, s.RetTy = "(kv1 kv2 : Option KV)", []string{"kv1", "kv2"}, "Option Bool"
		s.Params = []irTerm{{"kv1", "KVp"}, {"kv2", "KVp"}}
		s.Panic = "none"
		s.Ret = func(v []irTerm) (string, error) {
			if len(v) != 1 || v[0].Ty != "Bool" {
				return "", errUnsupportedReturn
			}
			return "some " + v[0].S, nil
		}
		if err := irEmit(r, w, c19File, "", "isKeyValueEqual", s,
			"`none` = nil pointer dereference (a `.Key` / `.Value` read through a nil `*mvccpb.KeyValue`)."); err != nil {
			soft(err)
		}

		// --- isDataEqual -----------------------------------------------------------------------
		s = c19Spec("isDataEqualIR", false)
		s.Binders, s.BNames, s.RetTy = "(data1 data2 : Data)", []string{"data1", "data2"}, "Bool"
		s.Params = []irTerm{{"data1", "Data"}, {"data2", "Data"}}
		s.Index = map[string]irCall{"Data": {Fmt: "(lookup2 %[1]s %[2]s)", Ty: "KVp × Bool"}}
		s.Ret = func(v []irTerm) (string, error) {
			if len(v) != 1 || v[0].Ty != "Bool" {
				return "", errUnsupportedReturn
			}
			return v[0].S, nil
		}
		if err := irEmit(r, w, c19File, "", "isDataEqual", s,
			"Go maps are association lists; the range loop visits the entries in list order."); err != nil {
			soft(err)
		}

		// --- syncer.pull -----------------------------------------------------------------------
		s = c19Spec("pullIR", false)
		s.Binders, s.BNames, s.RetTy = "(cl : Bool → String → EtcdResp) (key : String) (pfx : Bool)", []string{"cl", "key", "pfx"}, "Option Data"
		s.Recv = irTerm{"cl", "SyncerC"}
		s.Params = []irTerm{{"key", "String"}, {"pfx", "Bool"}}
		s.Ret = func(v []irTerm) (string, error) {
			if len(v) != 2 {
				return "", errUnsupportedReturn
			}
			res, e := v[0].S, v[1].S
			switch v[0].Ty {
			case "nil":
				res = "([] : Data)"
			case "Data":
			default:
				return "", errUnsupportedReturn
			}
			switch v[1].Ty {
			case "nil":
				e = "false"
			case "Error":
			default:
				return "", errUnsupportedReturn
			}
			return fmt.Sprintf("(if %s then none else some %s)", e, res), nil
		}
		if err := irEmit(r, w, c19File, "syncer", "pull", s,
			"`cl p k` is the store's answer to `client.Get` of key `k` (`p`: with prefix); the result `(map, err)` is read as the caller\nreads it: `none` when `err != nil`."); err != nil {
			soft(err)
		}

		// --- op.go: GetRaw, GetRawPrefix, Get, GetPrefix ---------------------------------------------
		const opFile = "pkg/cluster/op.go"
		opSpec := func(name, retTy string) *irSpec {
			s := c19Spec(name, false)
			s.Binders, s.BNames, s.RetTy = "(cl : Bool → String → EtcdResp) (gc : Bool) (key : String)", []string{"cl", "gc", "key"}, retTy
			s.Recv = irTerm{"cl", "OpCluster"}
			s.Params = []irTerm{{"key", "String"}}
			s.Index = map[string]irCall{"List KVp": {Fmt: "(%[1]s.getD %[2]s none)", Ty: "KVp"}}
			return s
		}
		pairRet := func(okTy string, zero string, wrap func(irTerm) (string, bool)) func(v []irTerm) (string, error) {
			return func(v []irTerm) (string, error) {
				if len(v) != 2 {
					return "", errUnsupportedReturn
				}
				res, e := "", v[1].S
				switch {
				case v[0].Ty == "nil":
					res = zero
				default:
					r, ok := wrap(v[0])
					if !ok {
						return "", errUnsupportedReturn
					}
					res = r
				}
				switch v[1].Ty {
				case "nil":
					e = "false"
				case "Error":
				default:
					return "", errUnsupportedReturn
				}
				return fmt.Sprintf("(%s, %s)", res, e), nil
			}
		}
		same := func(ty string) func(irTerm) (string, bool) {
			return func(x irTerm) (string, bool) { return x.S, x.Ty == ty }
		}
		s = opSpec("getRawIR", "Option KV × Bool")
		s.Ret = pairRet("KVp", "none", same("KVp"))
		if err := irEmit(r, w, opFile, "cluster", "GetRaw", s,
			"`cl pfx k` is the store's answer to ONE `client.Get` of `k` (`pfx`: `clientv3.WithPrefix()`), `gc`: `getClient` fails."); err != nil {
			soft(err)
		}
		s = opSpec("getRawPrefixIR", "Data × Bool")
		s.Ret = pairRet("Data", "([] : Data)", same("Data"))
		if err := irEmit(r, w, opFile, "cluster", "GetRawPrefix", s,
			"ONE `client.Get(ctx, prefix, clientv3.WithPrefix())` (the immediately invoked closure is inlined); the map is built from that\nresponse's `Kvs` only. A loop of reads / other options (`WithRev`, `WithLimit`, `opts...`) is outside the translated subset."); err != nil {
			soft(err)
		}
		s = opSpec("getIR", "Option String × Bool")
		s.Ret = pairRet("StrP", "none", func(x irTerm) (string, bool) { return "some " + x.S, x.Ty == "&String" })
		if err := irEmit(r, w, opFile, "cluster", "Get", s, ""); err != nil {
			soft(err)
		}
		s = opSpec("getPrefixIR", "List (String × String) × Bool")
		s.Ret = pairRet("SMap", "([] : List (String × String))", same("SMap"))
		if err := irEmit(r, w, opFile, "cluster", "GetPrefix", s, ""); err != nil {
			soft(err)
		}

		// --- the closure pullCompareSend inside run -----------------------------------------------
		if err := func() error {
			run, err := r.Func(c19File, "syncer", "run")
			if err != nil {
				return err
			}
			fl, err := c19Closure(run, "pullCompareSend")
			if err != nil {
				return err
			}
			capt := c19Captured(fl)
			if len(capt) != 1 {
				return fmt.Errorf("pullCompareSend: captured assigned variables %v, expected exactly one (the local `data` of run)", capt)
			}
			runParams := c19ParamNames(run.Type)
			if len(runParams) != 3 || len(c19ParamNames(fl.Type)) != 0 {
				return fmt.Errorf("run / pullCompareSend: unexpected parameter lists")
			}
			// the captured local's declaration in run
			dataInit := ""
			for _, st := range run.Body.List {
				if as, ok := st.(*ast.AssignStmt); ok && as.Tok == token.DEFINE && len(as.Lhs) == 1 && len(as.Rhs) == 1 {
					if id, ok := as.Lhs[0].(*ast.Ident); ok && id.Name == capt[0] {
						dataInit = r.Src(as.Rhs[0])
					}
				}
			}
			w.Line("/-- Initial value of the captured local of `run` that `pullCompareSend` compares with and assigns. -/")
			w.Line("def runDataInit : String := %s", Str(dataInit))
			w.Line("")
			dl := irIdent(capt[0])
			for _, n := range []string{"pl", "key", "pfx", "sent"} {
				if dl == n {
					dl += "_"
				}
			}
			s = c19Spec("pullCompareSendIR", false)
			s.Binders = fmt.Sprintf("(pl : String → Bool → Option Data) (key : String) (pfx : Bool) (%s : Data) (sent0 : List Data)", dl)
			s.BNames = []string{"pl", "key", "pfx", dl, "sent0"}
			s.RetTy = "Data × List Data"
			s.Recv = irTerm{"pl", "Syncer"}
			s.Params = []irTerm{{"key", "String"}, {"pfx", "Bool"}, {"", ""}, {dl, "Data"}}
			s.State = []irLet{{"sent", "List Data", "sent0"}}
			s.StmtFuncs = map[string]irStmtCall{
				// `send(x)`: the callee is run's third parameter, whatever its name
				runParams[2]: {NArgs: 1, Lets: []irLet{{"sent", "List Data", "(%[1]s :: sent)"}}},
			}
			s.Ret = func(v []irTerm) (string, error) {
				if len(v) != 0 {
					return "", errUnsupportedReturn
				}
				return fmt.Sprintf("(%s, sent)", dl), nil
			}
			decl := c19ClosureDecl(run, fl, "pullCompareSend", capt, fl.Body)
			def, skipped, err := irTranslate(r, decl, s)
			if err != nil {
				return err
			}
			c19Doc(w, "the closure `pullCompareSend` inside `syncer.run`", skipped,
				"`pl k p` is the outcome of `s.pull(k, p)` (`none` = error); the 4th binder is the captured local of `run`; `sent` collects the\narguments of `send`, newest first. Result: the captured local and `sent` when the closure returns.")
			w.sb.WriteString(def)
			w.Line("")

			return nil
		}(); err != nil {
			soft(err)
		}

		// --- the adapters' send closures ------------------------------------------------------------
		type adapter struct {
			fn, lean, retTy, outTy, send, sendNil, doc string
			index                                      irCall
			guard, copies                              bool
		}
		ads := []adapter{
			{fn: "Sync", lean: "syncSendIR", retTy: "List (Option String)", outTy: "List (Option String)",
				send: "(some %[1]s :: out)", sendNil: "(none :: out)", index: irCall{Fmt: "(lookup1 %[1]s %[2]s)", Ty: "KVp"}},
			{fn: "SyncRaw", lean: "syncRawSendIR", retTy: "List (Option KV)", outTy: "List (Option KV)",
				send: "(%[1]s :: out)", sendNil: "(none :: out)", index: irCall{Fmt: "(lookup1 %[1]s %[2]s)", Ty: "KVp"}},
			{fn: "SyncPrefix", lean: "syncPrefixSendIR", retTy: "Option (List (List (String × String)))", outTy: "List (List (String × String))",
				send: "(%[1]s :: out)", guard: true, copies: true, doc: "`none` = nil pointer dereference (`v.Value` on a nil entry)."},
			{fn: "SyncRawPrefix", lean: "syncRawPrefixSendIR", retTy: "List Data", outTy: "List Data",
				send: "(%[1]s :: out)", copies: true},
		}
		for _, a := range ads {
			a := a
			if err := func() error {
				fd, err := r.Func(c19File, "syncer", a.fn)
				if err != nil {
					return err
				}
				fl, err := c19Closure(fd, "fn")
				if err != nil {
					return err
				}
				if len(c19ParamNames(fd.Type)) != 1 || len(c19ParamNames(fl.Type)) != 1 {
					return fmt.Errorf("%s: unexpected parameter lists", a.fn)
				}
				if c := c19Captured(fl); len(c) != 0 {
					return fmt.Errorf("%s: the send closure assigns captured variables %v", a.fn, c)
				}
				chans := map[string]bool{}
				body := &ast.BlockStmt{List: c19RewriteSends(r, fl.Body.List, chans)}
				nch, fresh := 0, true
				for k := range chans {
					if !strings.HasPrefix(k, "§value:") {
						nch++
						continue
					}
					// the value sent must be a map made inside the closure (`v := make(…)`), never the parameter
					// (the copy cannot be seen by a value-level model: it is tied as this syntactic fact)
					if !c19MadeInside(r, fl, strings.TrimPrefix(k, "§value:")) {
						fresh = false
					}
				}
				if nch != 1 {
					return fmt.Errorf("%s: the send closure sends on %d channels", a.fn, nch)
				}
				if a.copies {
					w.Line("/-- `%s`: every value sent on the channel is a map made inside the closure, not the caller's `data`. -/", a.fn)
					w.Line("def %sFresh : Bool := %s", a.lean, Bool(fresh))
					w.Line("")
				}
				s = c19Spec(a.lean, a.guard)
				s.Binders, s.BNames, s.RetTy = fmt.Sprintf("(key : String) (data : Data) (out0 : %s)", a.outTy), []string{"key", "data", "out0"}, a.retTy
				s.Recv = irTerm{"()", "SyncerU"}
				s.Params = []irTerm{{"key", "String"}, {"data", "Data"}}
				s.State = []irLet{{"out", a.outTy, "out0"}}
				s.LeanTy["Out"] = a.outTy
				s.StmtFuncs = map[string]irStmtCall{"§chSend": {NArgs: 1, Lets: []irLet{{"out", a.outTy, a.send}}}}
				if a.sendNil != "" {
					s.StmtFuncs["§chSendNil"] = irStmtCall{NArgs: 0, Lets: []irLet{{"out", a.outTy, a.sendNil}}}
				}
				if a.index.Fmt != "" {
					s.Index = map[string]irCall{"Data": a.index}
				}
				guard := a.guard
				if guard {
					s.Panic = "none"
				}
				s.Ret = func(v []irTerm) (string, error) {
					if len(v) != 0 {
						return "", errUnsupportedReturn
					}
					if guard {
						return "some out", nil
					}
					return "out", nil
				}
				def, skipped, err := irTranslate(r, c19ClosureDecl(fd, fl, a.fn+".fn", nil, body), s)
				if err != nil {
					return err
				}
				c19Doc(w, "the closure `fn` inside `syncer."+a.fn+"`", skipped,
					"`out` collects the values sent on the channel, newest first (`ch <- x` is the only use of the channel). "+a.doc)
				w.sb.WriteString(def)
				w.Line("")
				return nil
			}(); err != nil {
				soft(err)
			}
		}
		return nil
	}})
}

// c19MadeInside: `name` is an identifier declared at the top level of the closure body by `name := make(…)`
// and is not one of the closure's parameters.
func c19MadeInside(r *Repo, fl *ast.FuncLit, name string) bool {
	for _, p := range c19ParamNames(fl.Type) {
		if p == name {
			return false
		}
	}
	for _, st := range fl.Body.List {
		if as, ok := st.(*ast.AssignStmt); ok && as.Tok == token.DEFINE && len(as.Lhs) == 1 && len(as.Rhs) == 1 {
			if id, ok := as.Lhs[0].(*ast.Ident); ok && id.Name == name {
				if ce, ok := as.Rhs[0].(*ast.CallExpr); ok && r.Src(ce.Fun) == "make" {
					return true
				}
			}
		}
	}
	return false
}

func c19Doc(w *Lean, what string, skipped []string, doc string) {
	w.Line("/-! Translated from the body of %s in %s (go/ast → Lean, harness/factextract/irlib.go).", what, c19File)
	if doc != "" {
		w.Line("%s", doc)
	}
	if len(skipped) > 0 {
		w.Line("Ignored statements (no modelled effect):")
		for _, s := range skipped {
			w.Line("  * `%s`", strings.ReplaceAll(s, "-/", "- /"))
		}
	}
	w.Line("-/")
}
