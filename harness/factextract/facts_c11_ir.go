package main

// Regenerated tie by translation for C11 (irlib.go, notes/IR.md):
//
//   * mux.reload      (pkg/object/httpserver/mux.go)     → Gen.FactsC11IR.muxReloadIR
//   * runtime.reload  (pkg/object/httpserver/runtime.go) → Gen.FactsC11IR.runtimeReloadIR
//
// `<fn>_regenerated_from_source` (Proofs/HotUpdateIR.lean, re-exported by Props/C11.lean) prove them
// equal to Model/HotUpdate.lean's `muxReload` / `runtimeReload` for all inputs. In addition the
// list of `Spec` fields `runtime.needRestartServer` blanks before comparing is regenerated
// (`needRestartIgnoredFields`; the function itself copies and mutates structs, which is outside the
// translator's subset).
//
// mux.reload: the new `*muxInstance` is a set of state variables (`inst_*`), initialised by the
// composite literal (which must name exactly the expected fields) and updated by `inst.cache = …`,
// `inst.rules[i] = …`; `m.inst.Store(inst)` appends `MuxEffect.store ⟨inst_*…⟩` to `effects`. The
// previous instance (`m.inst.Load().(*muxInstance)`) has type `OldInst`, for which only `.spec` and
// `.tracer` are configured: any other use of it fails the extraction.

import (
	"fmt"
	"go/ast"
	"go/token"
	"regexp"
	"sort"
	"strings"
)

var c11InstFields = []irLet{
	{"inst_superSpec", "SuperSpec", "superSpec"}, {"inst_spec", "Spec", "spec"}, {"inst_muxMapper", "Mapper", "muxMapper"},
	{"inst_httpStat", "HTTPStat", "0"}, {"inst_topN", "TopN", "0"}, {"inst_ipFilter", "IPFilter", "none"},
	{"inst_ipFilterChan", "Chain", "[]"}, {"inst_rules", "List RuleB", "[]"}, {"inst_tracer", "Tracer", "none"},
	{"inst_cache", "Cache", "none"},
}

// the Lean record built from the state variables (field order of Model/HotUpdate.MuxInst)
const c11InstTerm = "(⟨inst_superSpec, inst_spec, inst_muxMapper, inst_httpStat, inst_topN, inst_ipFilter, inst_ipFilterChan, inst_rules, inst_tracer, inst_cache⟩ : MuxInst)"

var c11DeferCloseRE = regexp.MustCompile(`^defer func\(\) \{ err := (\w+)\.tracer\.Close\(\) if err != nil \{ logger\.Errorf\([^{}]*\) \} \}\(\)$`)

func c11MuxReloadSpec() *irSpec {
	instName := "" // Go name of the local holding the new instance (learned from its defining statement)
	oldName := ""  // Go name of the local holding the previous instance
	s := &irSpec{
		Name: "muxReloadIR",
		Binders: "(newTracer : Option Nat → Option Nat × Bool) (newARC : Nat → Option Nat × Bool) (m : MuxShared) " +
			"(old : MuxInst) (superSpec : Nat) (spec : SrvSpec) (muxMapper : Nat)",
		BNames: []string{"newTracer", "newARC", "m", "old", "superSpec", "spec", "muxMapper"},
		RetTy:  "List MuxEffect",
		Recv:   irTerm{"m", "Mux"},
		Params: []irTerm{{"superSpec", "SuperSpec"}, {"muxMapper", "Mapper"}},
		State:  append(append([]irLet{}, c11InstFields...), irLet{"effects", "List MuxEffect", "[]"}),
		LeanTy: map[string]string{"SuperSpec": "Nat", "Spec": "SrvSpec", "Mapper": "Nat", "HTTPStat": "Nat", "TopN": "Nat",
			"IPFilterSpec": "Option Nat", "IPFilter": "Option Nat", "Chain": "List Nat", "Tracer": "Option Nat",
			"TracingSpec": "Option Nat", "Cache": "Option Nat", "RuleB": "Option BuiltRule", "PathB": "Option BuiltPath",
			"PathSpec": "Nat", "OldInst": "MuxInst", "NewInst": "MuxInst", "Mux": "MuxShared"},
		Fields: map[string]irField{
			"Mux.inst": {Fmt: "minst__", Ty: "AtomicInst"}, "Mux.httpStat": {Fmt: "%s.httpStat", Ty: "HTTPStat"}, "Mux.topN": {Fmt: "%s.topN", Ty: "TopN"},
			"Spec.Tracing": {Fmt: "%s.tracing", Ty: "TracingSpec"}, "Spec.IPFilter": {Fmt: "%s.ipFilter", Ty: "IPFilterSpec"},
			"Spec.CacheSize": {Fmt: "%s.cacheSize", Ty: "Nat"}, "Spec.Rules": {Fmt: "%s.rules", Ty: "List SpecRule"},
			"SpecRule.IPFilter": {Fmt: "%s.ipFilter", Ty: "IPFilterSpec"}, "SpecRule.Paths": {Fmt: "%s.paths", Ty: "List PathSpec"},
			// the previous instance: nothing but its tracing spec and its tracer may be read
			"OldInst.spec": {Fmt: "%s.spec", Ty: "Spec"}, "OldInst.tracer": {Fmt: "%s.tracer", Ty: "Tracer"},
			"NewInst.superSpec": {Fmt: "inst_superSpec", Ty: "SuperSpec", State: true}, "NewInst.spec": {Fmt: "inst_spec", Ty: "Spec", State: true},
			"NewInst.muxMapper": {Fmt: "inst_muxMapper", Ty: "Mapper", State: true}, "NewInst.httpStat": {Fmt: "inst_httpStat", Ty: "HTTPStat", State: true},
			"NewInst.topN": {Fmt: "inst_topN", Ty: "TopN", State: true}, "NewInst.ipFilter": {Fmt: "inst_ipFilter", Ty: "IPFilter", State: true},
			"NewInst.ipFilterChan": {Fmt: "inst_ipFilterChan", Ty: "Chain", State: true}, "NewInst.rules": {Fmt: "inst_rules", Ty: "List RuleB", State: true},
			"NewInst.tracer": {Fmt: "inst_tracer", Ty: "Tracer", State: true}, "NewInst.cache": {Fmt: "inst_cache", Ty: "Cache", State: true},
		},
		Consts: map[string]irTerm{"tracing.NoopTracer": {"(some 0)", "Tracer"}},
		Conv:   map[string]irCall{"int:Nat": {Fmt: "%[1]s", Ty: "Nat", NArgs: 1}},
		Funcs: map[string]irCall{
			"reflect.DeepEqual": {Fmt: "(decide (%[1]s = %[2]s))", Ty: "Bool", NArgs: 2},
			"tracing.New":       {Fmt: "(newTracer %[1]s)", Ty: "Tracer × Error", NArgs: 1},
			"lru.NewARC":        {Fmt: "(newARC %[1]s)", Ty: "Cache × Error", NArgs: 1},
			"newIPFilter":       {Fmt: "%[1]s", Ty: "IPFilter", NArgs: 1},
			"newIPFilterChain":  {Fmt: "(chainAppend %[1]s %[2]s)", Ty: "Chain", NArgs: 2},
			"newMuxPath":        {Fmt: "(some (BuiltPath.mk %[1]s %[2]s))", Ty: "PathB", NArgs: 2},
			"newMuxRule":        {Fmt: "(some (BuiltRule.mk %[1]s %[2]s %[3]s))", Ty: "RuleB", NArgs: 3},
			"len:List RuleB":    {Fmt: "%[1]s.length", Ty: "Nat", NArgs: 1},
			"len:List PathB":    {Fmt: "%[1]s.length", Ty: "Nat", NArgs: 1},
			"len:List SpecRule": {Fmt: "%[1]s.length", Ty: "Nat", NArgs: 1},
			"len:List PathSpec": {Fmt: "%[1]s.length", Ty: "Nat", NArgs: 1},
		},
		Index: map[string]irCall{
			"List SpecRule": {Fmt: "(%[1]s.getD %[2]s ⟨none, [], 0⟩)", Ty: "SpecRule"},
			"List PathSpec": {Fmt: "(%[1]s.getD %[2]s 0)", Ty: "PathSpec"},
		},
		IndexSet: map[string]string{"List RuleB": "(%[1]s.set %[2]s %[3]s)", "List PathB": "(%[1]s.set %[2]s %[3]s)"},
		StmtMethods: map[string]irStmtCall{
			"AtomicInst.Store": {NArgs: 1, Lets: []irLet{{"effects", "List MuxEffect", "(effects ++ [MuxEffect.store %[2]s])"}}},
		},
		Ext: irSpecExt{LenBoundElemSet: true},
		Ret: func(v []irTerm) (string, error) {
			if len(v) != 0 {
				return "", errUnsupportedReturn
			}
			return "effects", nil
		},
	}
	s.Ignore = func(src string, st ast.Stmt) bool {
		switch st.(type) {
		case *ast.ExprStmt:
			return strings.HasPrefix(src, "logger.")
		case *ast.DeferStmt:
			// closing the previous tracer when the tracing spec changed: exactly this shape, on the previous instance
			m := c11DeferCloseRE.FindStringSubmatch(src)
			return m != nil && oldName != "" && m[1] == oldName
		}
		return false
	}
	s.Hook = func(t *irT, e ast.Expr, env *irEnv) (irTerm, bool, error) {
		switch x := e.(type) {
		case *ast.Ident:
			if instName != "" && x.Name == instName && !irInEnv(env, x.Name) {
				return irTerm{c11InstTerm, "NewInst"}, true, nil
			}
		case *ast.TypeAssertExpr:
			ce, ok := x.X.(*ast.CallExpr)
			if !ok || len(ce.Args) != 0 {
				return irTerm{}, false, nil
			}
			se, ok := ce.Fun.(*ast.SelectorExpr)
			if !ok {
				return irTerm{}, false, nil
			}
			rx, err := t.expr(se.X, env)
			if err != nil {
				return irTerm{}, false, nil
			}
			ty := t.r.Src(x.Type)
			switch {
			case se.Sel.Name == "ObjectSpec" && rx.Ty == "SuperSpec" && rx.S == "superSpec" && ty == "*Spec":
				return irTerm{"spec", "Spec"}, true, nil
			case se.Sel.Name == "Load" && rx.Ty == "AtomicInst" && ty == "*muxInstance":
				return irTerm{"old", "OldInst"}, true, nil
			}
		case *ast.CallExpr:
			fun := t.r.Src(x.Fun)
			if fun == "newIPFilterChain" && len(x.Args) == 2 {
				if id, ok := x.Args[0].(*ast.Ident); ok && id.Name == "nil" && !irInEnv(env, "nil") {
					c, err := t.expr(x.Args[1], env)
					if err != nil {
						return irTerm{}, true, err
					}
					return irTerm{"(chainAppend [] " + c.S + ")", "Chain"}, true, nil
				}
			}
			if fun == "make" && len(x.Args) == 2 {
				ty := ""
				switch t.r.Src(x.Args[0]) {
				case "[]*muxRule":
					ty = "List RuleB"
				case "[]*MuxPath":
					ty = "List PathB"
				}
				if ty != "" {
					n, err := t.expr(x.Args[1], env)
					if err != nil {
						return irTerm{}, true, err
					}
					if n.Ty != "Nat" {
						return irTerm{}, true, fmt.Errorf("make: length of type %s", n.Ty)
					}
					return irTerm{"(List.replicate " + n.S + " none)", ty}, true, nil
				}
			}
		}
		return irTerm{}, false, nil
	}
	s.StmtHook = func(t *irT, st ast.Stmt, env *irEnv) ([]irLet, bool, error) {
		as, ok := st.(*ast.AssignStmt)
		if !ok || as.Tok != token.DEFINE || len(as.Lhs) != 1 || len(as.Rhs) != 1 {
			return nil, false, nil
		}
		id, ok := as.Lhs[0].(*ast.Ident)
		if !ok {
			return nil, false, nil
		}
		// remember the name of the previous instance (for the deferred tracer close)
		if ta, ok := as.Rhs[0].(*ast.TypeAssertExpr); ok && t.r.Src(ta.Type) == "*muxInstance" {
			oldName = id.Name
			return nil, false, nil
		}
		ue, ok := as.Rhs[0].(*ast.UnaryExpr)
		if !ok || ue.Op != token.AND {
			return nil, false, nil
		}
		cl, ok := ue.X.(*ast.CompositeLit)
		if !ok || t.r.Src(cl.Type) != "muxInstance" {
			return nil, false, nil
		}
		if instName != "" || irInEnv(env, id.Name) || t.inLoop {
			return nil, true, fmt.Errorf("second / nested muxInstance literal")
		}
		vals := map[string]irTerm{}
		for _, el := range cl.Elts {
			kv, ok := el.(*ast.KeyValueExpr)
			if !ok {
				return nil, true, fmt.Errorf("muxInstance literal without field names")
			}
			v, err := t.expr(kv.Value, env)
			if err != nil {
				return nil, true, err
			}
			vals[t.r.Src(kv.Key)] = v
		}
		var lets []irLet
		for _, f := range c11InstFields {
			name := strings.TrimPrefix(f.Var, "inst_")
			v, ok := vals[name]
			delete(vals, name)
			switch {
			case ok && v.Ty == f.Ty:
				lets = append(lets, irLet{f.Var, f.Ty, v.S})
			case ok:
				return nil, true, fmt.Errorf("muxInstance literal: field %s has type %s, expected %s", name, v.Ty, f.Ty)
			case name == "cache":
				lets = append(lets, irLet{f.Var, f.Ty, "none"}) // Go zero value: nil
			default:
				return nil, true, fmt.Errorf("muxInstance literal: field %s is not set", name)
			}
		}
		if len(vals) != 0 {
			var extra []string
			for k := range vals {
				extra = append(extra, k)
			}
			sort.Strings(extra)
			return nil, true, fmt.Errorf("muxInstance literal: unexpected fields %v", extra)
		}
		instName = id.Name
		return lets, true, nil
	}
	return s
}

func c11RuntimeReloadSpec() *irSpec {
	const rt = "(⟨rt_superSpec, rt_spec, r.hasLimitListener⟩ : Runtime)"
	s := &irSpec{
		Name:    "runtimeReloadIR",
		Binders: "(r : Runtime) (nextSuperSpec : Nat) (nextSpecIn : Option SrvSpec) (muxMapper : Nat)",
		BNames:  []string{"r", "nextSuperSpec", "nextSpecIn", "muxMapper"},
		RetTy:   "Runtime × List RtEffect",
		Recv:    irTerm{"r", "Runtime"},
		Params:  []irTerm{{"nextSuperSpec", "SuperSpec"}, {"muxMapper", "Mapper"}},
		State: []irLet{{"rt_superSpec", "SuperSpec", "r.superSpec"}, {"rt_spec", "SpecPtr", "r.spec"},
			{"effects", "List RtEffect", "[]"}},
		LeanTy: map[string]string{"SuperSpec": "Nat", "Mapper": "Nat", "SpecPtr": "Option SrvSpec", "LimitListener": "Option Unit"},
		Fields: map[string]irField{
			"Runtime.superSpec":      {Fmt: "rt_superSpec", Ty: "SuperSpec", State: true},
			"Runtime.spec":           {Fmt: "rt_spec", Ty: "SpecPtr", State: true},
			"Runtime.mux":            {Fmt: "rmux__", Ty: "MuxPtr"},
			"Runtime.limitListener":  {Fmt: "(if %s.hasLimitListener then some () else none)", Ty: "LimitListener"},
			"SpecPtr.MaxConnections": {Fmt: "(%s.map (·.maxConnections)).getD 0", Ty: "Nat"},
		},
		Methods: map[string]irCall{
			"Runtime.needRestartServer": {Fmt: "(needRestartOpt rt_spec %[2]s)", Ty: "Bool", NArgs: 1},
		},
		StmtMethods: map[string]irStmtCall{
			"MuxPtr.reload":                  {NArgs: 2, Lets: []irLet{{"effects", "List RtEffect", "(effects ++ [RtEffect.muxReload %[2]s %[3]s])"}}},
			"LimitListener.SetMaxConnection": {NArgs: 1, Lets: []irLet{{"effects", "List RtEffect", "(effects ++ [RtEffect.setMaxConnection (%[2]s)])"}}},
			"Runtime.startServer":            {NArgs: 0, Lets: []irLet{{"effects", "List RtEffect", "(effects ++ [RtEffect.startServer])"}}},
			"Runtime.closeServer":            {NArgs: 0, Lets: []irLet{{"effects", "List RtEffect", "(effects ++ [RtEffect.closeServer])"}}},
		},
		Ignore: func(src string, st ast.Stmt) bool {
			_, ok := st.(*ast.ExprStmt)
			return ok && strings.HasPrefix(src, "logger.")
		},
		Ret: func(v []irTerm) (string, error) {
			if len(v) != 0 {
				return "", errUnsupportedReturn
			}
			return "(" + rt + ", effects)", nil
		},
	}
	// `nextSuperSpec.ObjectSpec().(*Spec)` is the binder `nextSpecIn` (nil = none)
	s.Hook = func(t *irT, e ast.Expr, env *irEnv) (irTerm, bool, error) {
		x, ok := e.(*ast.TypeAssertExpr)
		if !ok || t.r.Src(x.Type) != "*Spec" {
			return irTerm{}, false, nil
		}
		ce, ok := x.X.(*ast.CallExpr)
		if !ok || len(ce.Args) != 0 {
			return irTerm{}, false, nil
		}
		se, ok := ce.Fun.(*ast.SelectorExpr)
		if !ok || se.Sel.Name != "ObjectSpec" {
			return irTerm{}, false, nil
		}
		rx, err := t.expr(se.X, env)
		if err != nil || rx.Ty != "SuperSpec" || rx.S != "nextSuperSpec" {
			return irTerm{}, false, nil
		}
		return irTerm{"nextSpecIn", "SpecPtr"}, true, nil
	}
	return s
}

// c11NeedRestartIgnored: the fields of x / y that runtime.needRestartServer sets to a zero value
// (pairwise, `x.F, y.F = z, z`) before `return !reflect.DeepEqual(x, y)`.
func c11NeedRestartIgnored(r *Repo) ([]string, error) {
	fd, err := r.Func("pkg/object/httpserver/runtime.go", "runtime", "needRestartServer")
	if err != nil {
		return nil, err
	}
	n := len(fd.Body.List)
	if n < 3 {
		return nil, fmt.Errorf("needRestartServer: unexpected shape")
	}
	copies := map[string]string{} // local → what it copies
	var out []string
	for i, st := range fd.Body.List {
		src := r.Src(st)
		as, isAssign := st.(*ast.AssignStmt)
		switch {
		case i == n-1:
			rs, ok := st.(*ast.ReturnStmt)
			if !ok || len(rs.Results) != 1 {
				return nil, fmt.Errorf("needRestartServer: last statement %s", src)
			}
			var names []string
			for k := range copies {
				names = append(names, k)
			}
			sort.Strings(names)
			if len(names) != 2 || r.Src(rs.Results[0]) != fmt.Sprintf("!reflect.DeepEqual(%s, %s)", names[0], names[1]) {
				return nil, fmt.Errorf("needRestartServer: result is %s", r.Src(rs.Results[0]))
			}
		case isAssign && as.Tok == token.DEFINE && len(as.Lhs) == 1 && len(as.Rhs) == 1:
			id, ok := as.Lhs[0].(*ast.Ident)
			se, ok2 := as.Rhs[0].(*ast.StarExpr)
			if !ok || !ok2 {
				return nil, fmt.Errorf("needRestartServer: %s", src)
			}
			copies[id.Name] = r.Src(se.X)
		case isAssign && as.Tok == token.ASSIGN && len(as.Lhs) == 2 && len(as.Rhs) == 2:
			a, ok1 := as.Lhs[0].(*ast.SelectorExpr)
			b, ok2 := as.Lhs[1].(*ast.SelectorExpr)
			if !ok1 || !ok2 || a.Sel.Name != b.Sel.Name || r.Src(a.X) == r.Src(b.X) || copies[r.Src(a.X)] == "" || copies[r.Src(b.X)] == "" {
				return nil, fmt.Errorf("needRestartServer: %s", src)
			}
			z0, z1 := r.Src(as.Rhs[0]), r.Src(as.Rhs[1])
			if z0 != z1 || (z0 != "0" && z0 != "false" && z0 != "nil" && z0 != `""`) {
				return nil, fmt.Errorf("needRestartServer: %s does not assign zero values", src)
			}
			out = append(out, a.Sel.Name)
		default:
			return nil, fmt.Errorf("needRestartServer: unexpected statement %s", src)
		}
	}
	if copies["x"] == "" && len(copies) != 2 {
		return nil, fmt.Errorf("needRestartServer: copies %v", copies)
	}
	vals := map[string]bool{}
	for _, v := range copies {
		vals[v] = true
	}
	if len(vals) != 2 || !vals["r.spec"] {
		return nil, fmt.Errorf("needRestartServer: compares %v", copies)
	}
	sort.Strings(out)
	return out, nil
}

func init() {
	register(Extractor{Module: "FactsC11IR", Imports: []string{"EgVerif.Model.HotUpdate"}, Run: func(r *Repo, w *Lean) error {
		w.Line("set_option linter.unusedVariables false")
		w.Line("open EgVerif.HotUpdate")
		w.Line("")
		w.Line("/-- `r.needRestartServer(nextSpec)` with the nil cases of the pointers made explicit (the Go code")
		w.Line("dereferences both; `runtime.reload` calls it only when both are non-nil). -/")
		w.Line("def needRestartOpt (cur next : Option SrvSpec) : Bool :=")
		w.Line("  match cur, next with")
		w.Line("  | some c, some n => needRestart c n")
		w.Line("  | _, _ => false")
		w.Line("")
		if err := irEmit(r, w, "pkg/object/httpserver/mux.go", "mux", "reload", c11MuxReloadSpec(),
			"The new `*muxInstance` is the tuple of state variables `inst_*`; `m.inst.Store(inst)` appends `MuxEffect.store`. "+
				"`old` is `m.inst.Load().(*muxInstance)`: only `.spec.Tracing` and `.tracer` are translatable. "+
				"`tracing.New` / `lru.NewARC` are the oracles `newTracer` / `newARC` (value, error?)."); err != nil {
			return err
		}
		if err := irEmit(r, w, "pkg/object/httpserver/runtime.go", "runtime", "reload", c11RuntimeReloadSpec(),
			"`nextSpecIn` is `nextSuperSpec.ObjectSpec().(*Spec)` (`none` = nil). Effects are appended in program order; "+
				"`r.needRestartServer` is the model's `needRestart` (see `needRestartIgnoredFields`)."); err != nil {
			return err
		}
		ign, err := c11NeedRestartIgnored(r)
		if err != nil {
			return err
		}
		w.Line("/-- the `Spec` fields `runtime.needRestartServer` blanks in both copies before `!reflect.DeepEqual(x, y)` (sorted). -/")
		w.Line("def needRestartIgnoredFields : List String := %s", StrList(ign))
		return nil
	}})
}
