package main

// Regenerated tie by translation for C02 (irlib.go, notes/IR.md): the bodies of
//
//	FlowNode.filterAlias, isBuiltInFilter, Pipeline.doHandle, Pipeline.Handle,
//	Pipeline.HandleWithBeforeAfter, Spec.ValidateJumpIf, Spec.Validate   (pkg/object/pipeline/pipeline.go)
//	Context.UseNamespace                                                (pkg/context/context.go)
//	GlobalFilter.Handle, globalfilter.Spec.Validate                     (pkg/object/globalfilter/globalfilter.go)
//
// are translated into Gen.FactsC02IR.*IR on every run; `<fn>_regenerated_from_source`
// (Proofs/PipelineIR.lean, re-exported from Props/C02.lean) prove them equal to the hand-written
// Model/Pipeline.lean for all inputs.
//
// Modelling decisions visible here (they are the same as in Model/Pipeline.lean):
//   * a filter is opaque: `node.filter.Handle(ctx)` is `res k`, k = number of filters run so far in
//     this request = `len(stats)` (every invocation appends exactly one stat);
//   * a FilterStat is recorded together with what the harness observes about the invocation (ghost
//     fields): `idx` = the loop's index variable, `filter` = the receiver of `.Handle(ctx)` (the
//     instance bound to the node: `node.filter`, identified by `node.FilterName`, as bound by
//     `Pipeline.reload`), `ns` = the namespace made active by the last `ctx.UseNamespace`;
//     `Duration` is dropped;
//   * Go maps are association lists (`validTargets`: name → count, `specs`: name → kind,
//     `JumpIf`: result → target); `range` over `JumpIf` iterates in list order, the proof shows the
//     result does not depend on it (`validateJumpIf_regenerated_from_source_loop_perm`);
//   * `panic(…)` inside `Validate` / `ValidateJumpIf` is "rejected" (`false`): `Validate`'s deferred
//     `recover()` turns it into the returned error (the defer is listed as ignored);
//   * `filters.NewSpec(nil, "", f)` accepts iff the name is a urlname and the kind is registered,
//     `resilience.NewPolicy(r)` is the Bool `r` (accepted or not);
//   * a `*Pipeline` that may be nil is `Option Pipe`; a `Pipe` is a flow bound to its filter table.

import (
	"fmt"
	"go/ast"
	"strings"
)

const c02PL = "pkg/object/pipeline/pipeline.go"
const c02GF = "pkg/object/globalfilter/globalfilter.go"

func c02Base(name string) *irSpec {
	return &irSpec{
		Name: name,
		LeanTy: map[string]string{
			"JumpIf": "List (String × String)", "Filter": "String", "KindRec": "String", "Ctx": "Unit",
			"Time": "Unit", "Dur": "Unit", "Recv": "Unit", "OptPipe": "Option Pipe", "Counter": "List (String × Int)",
			"Specs": "List (String × String)", "FSpec": "FSpecT", "OptKind": "Option String",
			"KindInfo": "List String", "Policy": "Unit", "Handler": "Option Pipe", "AtomicVal": "Option Pipe",
		},
		Fields: map[string]irField{
			"Node.FilterName":  {Fmt: "%s.filter", Ty: "String"},
			"Node.FilterAlias": {Fmt: "%s.alias", Ty: "String"},
			"Node.Namespace":   {Fmt: "%s.ns", Ty: "String"},
			"Node.JumpIf":      {Fmt: "%s.jumpIf", Ty: "JumpIf"},
			"Node.filter":      {Fmt: "%s.filter", Ty: "Filter"}, // the instance bound by reload: p.filters[node.FilterName]
			"KindRec.Name":     {Fmt: "%s", Ty: "String"},
		},
		Methods: map[string]irCall{
			"Node.filterAlias": {Fmt: "%[1]s.name", Ty: "String", NArgs: 0},
		},
		Funcs:  map[string]irCall{},
		Consts: map[string]irTerm{"BuiltInFilterEnd": {"END", "String"}, "pipeline.BuiltInFilterEnd": {"END", "String"}},
		Index: map[string]irCall{
			"JumpIf": {Fmt: "((%[1]s.lookup %[2]s).getD \"\")", Ty: "String"},
		},
		Ext: irSpecExt{ParamKeepsBinderName: true},
	}
}

func c02RetTuple(v []irTerm) (string, error) {
	if len(v) == 0 {
		return "()", nil
	}
	var ss []string
	for _, x := range v {
		ss = append(ss, x.S)
	}
	if len(ss) == 1 {
		return ss[0], nil
	}
	return "(" + strings.Join(ss, ", ") + ")", nil
}

// paramName returns the Go name of the i-th parameter of fd.
func c02ParamName(fd *ast.FuncDecl, i int) string {
	var names []string
	for _, f := range fd.Type.Params.List {
		for _, n := range f.Names {
			names = append(names, n.Name)
		}
	}
	if i < len(names) {
		return names[i]
	}
	return ""
}

// c02MakeHook: `make([]T, 0, n)` / `make(map…)` is the empty list (n must translate).
func c02Make(t *irT, e ast.Expr, env *irEnv, elemTy map[string]string) (irTerm, bool, error) {
	ce, ok := e.(*ast.CallExpr)
	if !ok {
		return irTerm{}, false, nil
	}
	if id, ok := ce.Fun.(*ast.Ident); !ok || id.Name != "make" || len(ce.Args) == 0 {
		return irTerm{}, false, nil
	}
	ty, ok := elemTy[t.r.Src(ce.Args[0])]
	if !ok {
		return irTerm{}, true, fmt.Errorf("make of %s not configured", t.r.Src(ce.Args[0]))
	}
	if len(ce.Args) >= 2 {
		if bl, ok := ce.Args[1].(*ast.BasicLit); !ok || bl.Value != "0" {
			return irTerm{}, true, fmt.Errorf("make with non-zero length: %s", t.r.Src(ce))
		}
	}
	if len(ce.Args) == 3 {
		if _, err := t.expr(ce.Args[2], env); err != nil {
			return irTerm{}, true, err
		}
	}
	return irTerm{"([] : " + t.leanTy(ty) + ")", ty}, true, nil
}

func c02DoHandleSpec(fd *ast.FuncDecl) *irSpec {
	s := c02Base("doHandleIR")
	s.Binders = "(kind : String → String) (res : Nat → String) (ns0 : String) (flow : List Node) (stats : List Stat)"
	s.BNames = []string{"kind", "res", "ns0", "flow", "stats"}
	s.RetTy = "String × List Stat × Bool"
	s.Recv = irTerm{"()", "Recv"}
	s.Params = []irTerm{{"()", "Ctx"}, {"flow", "List Node"}, {"stats", "List Stat"}}
	s.State = []irLet{{"activeNs", "String", "ns0"}}
	s.Ext.RangeKeyTy = "Nat"
	s.Funcs["fasttime.Now"] = irCall{Fmt: "()", Ty: "Time", NArgs: 0}
	s.Funcs["fasttime.Since"] = irCall{Fmt: "()", Ty: "Dur", NArgs: 1}
	s.Funcs["append:List Stat"] = irCall{Fmt: "(%[1]s ++ [%[2]s])", Ty: "List Stat", NArgs: 2}
	s.Methods["Filter.Kind"] = irCall{Fmt: "(kind %[1]s)", Ty: "KindRec", NArgs: 0}
	s.StmtMethods = map[string]irStmtCall{
		"Ctx.UseNamespace": {Lets: []irLet{{"activeNs", "String", "(useNs %[2]s)"}}, NArgs: 1},
	}
	s.Ret = c02RetTuple
	statsGo := c02ParamName(fd, 2)
	invoked := "" // receiver of the last `.Handle(ctx)` translated (source order)
	s.Hook = func(t *irT, e ast.Expr, env *irEnv) (irTerm, bool, error) {
		switch x := e.(type) {
		case *ast.CallExpr:
			se, ok := x.Fun.(*ast.SelectorExpr)
			if !ok || se.Sel.Name != "Handle" || len(x.Args) != 1 {
				return irTerm{}, false, nil
			}
			rx, err := t.tryExpr(se.X, env)
			if err != nil || rx.Ty != "Filter" {
				return irTerm{}, false, nil
			}
			if a, err := t.expr(x.Args[0], env); err != nil || a.Ty != "Ctx" {
				return irTerm{}, true, fmt.Errorf("filter invoked with %s, expected the context", t.r.Src(x.Args[0]))
			}
			st, ok := env.vars[statsGo]
			if !ok || st.Ty != "List Stat" {
				return irTerm{}, true, fmt.Errorf("stats parameter not found")
			}
			invoked = rx.S
			return irTerm{fmt.Sprintf("(res %s.length)", st.Lean), "String"}, true, nil
		case *ast.CompositeLit:
			if t.r.Src(x.Type) != "FilterStat" {
				return irTerm{}, false, nil
			}
			vals := map[string]irTerm{}
			for _, el := range x.Elts {
				kv, ok := el.(*ast.KeyValueExpr)
				if !ok {
					return irTerm{}, true, fmt.Errorf("FilterStat literal without field names")
				}
				v, err := t.expr(kv.Value, env)
				if err != nil {
					return irTerm{}, true, err
				}
				vals[t.r.Src(kv.Key)] = v
			}
			for k, ty := range map[string]string{"Name": "String", "Kind": "String", "Result": "String", "Duration": "Dur"} {
				if v, ok := vals[k]; !ok || v.Ty != ty {
					return irTerm{}, true, fmt.Errorf("FilterStat literal: field %s missing or of type %s", k, v.Ty)
				}
			}
			if len(vals) != 4 {
				return irTerm{}, true, fmt.Errorf("FilterStat literal has unmodelled fields")
			}
			if len(t.ranges) == 0 || invoked == "" {
				return irTerm{}, true, fmt.Errorf("FilterStat literal outside the loop / before the filter invocation")
			}
			idx := env.vars[t.ranges[len(t.ranges)-1].Key].Lean
			return irTerm{fmt.Sprintf("(⟨%s, %s, %s, %s, activeNs, %s⟩ : Stat)", idx, vals["Name"].S, invoked,
				vals["Kind"].S, vals["Result"].S), "Stat"}, true, nil
		}
		return irTerm{}, false, nil
	}
	return s
}

// c02PipeSpec: Handle / HandleWithBeforeAfter. A `*Pipeline` is a `Pipe` (bound flow + kind table);
// `q.flow` stands for the bound flow, i.e. the Pipe itself.
func c02PipeSpec(name string) *irSpec {
	s := c02Base(name)
	s.LeanTy["BFlow"] = "Pipe"
	s.Fields["Pipe.flow"] = irField{Fmt: "%s", Ty: "BFlow"}
	s.Fields["OptPipe.flow"] = irField{Fmt: "(optPipe %s)", Ty: "BFlow"}
	s.Funcs["len:BFlow"] = irCall{Fmt: "(%[1]s.flow.length : Int)", Ty: "Int", NArgs: 1}
	s.Methods["Pipe.doHandle"] = irCall{Fmt: "(doHandle %[3]s.kind res %[3]s.flow %[4]s)", Ty: "String × List Stat × Bool", NArgs: 3}
	s.State = []irLet{{"tag", "List Stat", "[]"}}
	s.StmtMethods = map[string]irStmtCall{
		"Ctx.LazyAddTag": {Lets: []irLet{{"tag", "List Stat", "%[2]s"}}, NArgs: 1},
	}
	s.Funcs["serializeStats"] = irCall{Fmt: "%[1]s", Ty: "List Stat", NArgs: 1}
	s.Ret = func(v []irTerm) (string, error) {
		if len(v) != 1 || v[0].Ty != "String" {
			return "", errUnsupportedReturn
		}
		return "(" + v[0].S + ", tag)", nil
	}
	s.Hook = func(t *irT, e ast.Expr, env *irEnv) (irTerm, bool, error) {
		if x, ok, err := c02Make(t, e, env, map[string]string{"[]FilterStat": "List Stat"}); ok || err != nil {
			return x, ok, err
		}
		// func() string { return serializeStats(stats) }: the tag, evaluated lazily; the captured
		// variable is not assigned after the closure is created (checked: it is the last statement
		// before the return), so lazy = eager.
		if fl, ok := e.(*ast.FuncLit); ok {
			if len(fl.Body.List) == 1 && (fl.Type.Params == nil || len(fl.Type.Params.List) == 0) {
				if rs, ok := fl.Body.List[0].(*ast.ReturnStmt); ok && len(rs.Results) == 1 {
					v, err := t.expr(rs.Results[0], env)
					return v, true, err
				}
			}
			return irTerm{}, true, fmt.Errorf("unsupported closure %s", t.r.Src(e))
		}
		return irTerm{}, false, nil
	}
	return s
}

// c02TagIsLast: the `ctx.LazyAddTag(…)` statement must be directly followed by the final return
// (so that the lazily evaluated closure sees the final stats).
func c02TagIsLast(r *Repo, fd *ast.FuncDecl) error {
	l := fd.Body.List
	if len(l) < 2 || !strings.HasPrefix(r.Src(l[len(l)-2]), "ctx.LazyAddTag(") {
		return fmt.Errorf("%s: LazyAddTag is not the statement before the final return", fd.Name.Name)
	}
	if _, ok := l[len(l)-1].(*ast.ReturnStmt); !ok {
		return fmt.Errorf("%s: no final return", fd.Name.Name)
	}
	return nil
}

func c02ValidateBase(name string) *irSpec {
	s := c02Base(name)
	s.Fields["PSpec.Flow"] = irField{Fmt: "%s.flow", Ty: "List Node"}
	s.Fields["PSpec.Filters"] = irField{Fmt: "%s.filters", Ty: "List FSpec"}
	s.Fields["PSpec.Resilience"] = irField{Fmt: "resil", Ty: "List Bool"}
	s.Fields["KindInfo.Results"] = irField{Fmt: "%s", Ty: "List String"}
	s.Funcs["len:List Node"] = irCall{Fmt: "(%[1]s.length : Int)", Ty: "Int", NArgs: 1}
	s.Funcs["fmt.Errorf"] = irCall{Fmt: "true", Ty: "Error", NArgs: -1}
	s.Funcs["stringtool.StrInSlice"] = irCall{Fmt: "(%[2]s.contains %[1]s)", Ty: "Bool", NArgs: 2}
	s.Funcs["filters.GetKind"] = irCall{Fmt: "((kinds.lookup %[1]s).getD [])", Ty: "KindInfo", NArgs: 1}
	s.Methods["OptKind.Kind"] = irCall{Fmt: "(%[1]s.getD \"\")", Ty: "String", NArgs: 0}
	s.Index["List Node"] = irCall{Fmt: "(nodeAt %[1]s %[2]s)", Ty: "Node"}
	s.Index["Counter"] = irCall{Fmt: "(ctrGet %[1]s %[2]s)", Ty: "Int"}
	s.Index["Specs"] = irCall{Fmt: "(%[1]s.lookup %[2]s)", Ty: "OptKind"}
	s.IndexSet = map[string]string{
		"Counter": "((%[2]s, %[3]s) :: %[1]s)",
		"Specs":   "((%[2]s, %[3]s.2) :: %[1]s)",
	}
	s.Ext.IndexOk = map[string]irCall{"Specs": {Fmt: "((%[1]s.lookup %[2]s).getD \"\", (%[1]s.lookup %[2]s).isSome)", Ty: "String × Bool"}}
	s.RangeKV = map[string][2]string{"JumpIf": {"String", "String"}}
	s.Panic = "false"
	s.RetTy = "Bool"
	s.Ret = func(v []irTerm) (string, error) {
		if len(v) == 0 || (len(v) == 1 && v[0].Ty == "nil") {
			return "true", nil
		}
		return "", errUnsupportedReturn
	}
	s.Hook = func(t *irT, e ast.Expr, env *irEnv) (irTerm, bool, error) {
		cl, ok := e.(*ast.CompositeLit)
		if !ok {
			return irTerm{}, false, nil
		}
		switch t.r.Src(cl.Type) {
		case "map[string]int":
			var items []string
			for _, el := range cl.Elts {
				kv, ok := el.(*ast.KeyValueExpr)
				if !ok {
					return irTerm{}, true, fmt.Errorf("unsupported map literal %s", t.r.Src(e))
				}
				k, err := t.expr(kv.Key, env)
				if err != nil {
					return irTerm{}, true, err
				}
				v, err := t.expr(kv.Value, env)
				if err != nil {
					return irTerm{}, true, err
				}
				if k.Ty != "String" || !irIsNum(v.Ty) {
					return irTerm{}, true, fmt.Errorf("unsupported map literal %s", t.r.Src(e))
				}
				items = append(items, fmt.Sprintf("(%s, %s)", k.S, v.S))
			}
			return irTerm{"([" + strings.Join(items, ", ") + "] : List (String × Int))", "Counter"}, true, nil
		case "map[string]filters.Spec":
			if len(cl.Elts) != 0 {
				return irTerm{}, true, fmt.Errorf("unsupported map literal %s", t.r.Src(e))
			}
			return irTerm{"([] : List (String × String))", "Specs"}, true, nil
		}
		return irTerm{}, false, nil
	}
	return s
}

const c02Prelude = `set_option linter.unusedVariables false
open EgVerif.Pipeline

/-- the bound flow of a possibly absent pipeline (only read under ` + "`q != nil`" + `) -/
def optPipe (q : Option Pipe) : Pipe := q.getD ⟨[], fun _ => ""⟩
/-- ` + "`s.Flow[i]`" + ` (only read for 0 ≤ i < len) -/
def nodeAt (l : List Node) (i : Int) : Node := (l[i.toNat]?).getD ⟨"", "", "", []⟩
/-- ` + "`m[k]`" + ` of a ` + "`map[string]int`" + ` kept as an association list (latest binding first; absent = 0) -/
def ctrGet (m : List (String × Int)) (k : String) : Int := (m.lookup k).getD 0
/-- a raw filter spec: (name, kind) -/
abbrev FSpecT := String × String
`

func init() {
	register(Extractor{Module: "FactsC02IR", Imports: []string{"EgVerif.Model.Pipeline"}, Run: func(r *Repo, w *Lean) error {
		w.sb.WriteString(c02Prelude)
		w.Line("")

		// FlowNode.filterAlias
		s := c02Base("filterAliasIR")
		s.Binders, s.BNames, s.RetTy = "(n : Node)", []string{"n"}, "String"
		s.Recv = irTerm{"n", "Node"}
		s.Ret = c02RetTuple
		if err := irEmit(r, w, c02PL, "FlowNode", "filterAlias", s, ""); err != nil {
			return err
		}
		// isBuiltInFilter
		s = c02Base("isBuiltInFilterIR")
		s.Binders, s.BNames, s.RetTy = "(name : String)", []string{"name"}, "Bool"
		s.Params = []irTerm{{"name", "String"}}
		s.Ret = c02RetTuple
		if err := irEmit(r, w, c02PL, "", "isBuiltInFilter", s, ""); err != nil {
			return err
		}
		// Context.UseNamespace
		s = c02Base("useNamespaceIR")
		s.Binders, s.BNames, s.RetTy = "(ns0 : String) (ns : String)", []string{"ns0", "ns"}, "String"
		s.Recv = irTerm{"()", "CtxRecv"}
		s.LeanTy["CtxRecv"] = "Unit"
		s.Params = []irTerm{{"ns", "String"}}
		s.State = []irLet{{"activeNs", "String", "ns0"}}
		s.Fields["CtxRecv.activeNs"] = irField{Fmt: "activeNs", Ty: "String", State: true}
		s.Consts["DefaultNamespace"] = irTerm{"DEFAULT", "String"}
		s.Ret = func(v []irTerm) (string, error) { return "activeNs", nil }
		if err := irEmit(r, w, "pkg/context/context.go", "Context", "UseNamespace", s,
			"Result: `ctx.activeNs` afterwards (`ns0` = before)."); err != nil {
			return err
		}

		// Pipeline.doHandle
		fd, err := r.Func(c02PL, "Pipeline", "doHandle")
		if err != nil {
			return err
		}
		if err := irEmit(r, w, c02PL, "Pipeline", "doHandle", c02DoHandleSpec(fd),
			"`res k` = result of the k-th filter invocation of the request (k = `len(stats)`); `ns0` = namespace active on entry;\n"+
				"a `Stat` is the `FilterStat` plus the ghost fields idx / filter / ns (see facts_c02_ir.go)."); err != nil {
			return err
		}

		// Pipeline.Handle
		fd, err = r.Func(c02PL, "Pipeline", "Handle")
		if err != nil {
			return err
		}
		if err := c02TagIsLast(r, fd); err != nil {
			return err
		}
		s = c02PipeSpec("handleIR")
		s.Binders, s.BNames, s.RetTy = "(res : Nat → String) (p : Pipe)", []string{"res", "p"}, "String × List Stat"
		s.Recv = irTerm{"p", "Pipe"}
		s.Params = []irTerm{{"()", "Ctx"}}
		if err := irEmit(r, w, c02PL, "Pipeline", "Handle", s, "Result: (returned result, stats behind the lazily added tag)."); err != nil {
			return err
		}

		// Pipeline.HandleWithBeforeAfter
		fd, err = r.Func(c02PL, "Pipeline", "HandleWithBeforeAfter")
		if err != nil {
			return err
		}
		if err := c02TagIsLast(r, fd); err != nil {
			return err
		}
		s = c02PipeSpec("handleBAIR")
		s.Binders, s.BNames, s.RetTy = "(res : Nat → String) (p : Pipe) (before after : Option Pipe)", []string{"res", "p", "before", "after"}, "String × List Stat"
		s.Recv = irTerm{"p", "Pipe"}
		s.Params = []irTerm{{"()", "Ctx"}, {"before", "OptPipe"}, {"after", "OptPipe"}}
		if err := irEmit(r, w, c02PL, "Pipeline", "HandleWithBeforeAfter", s, "Result: (returned result, stats behind the lazily added tag)."); err != nil {
			return err
		}

		// Spec.ValidateJumpIf
		s = c02ValidateBase("validateJumpIfIR")
		s.Binders = "(kinds : List (String × List String)) (s : PSpec) (specs : List (String × String))"
		s.BNames = []string{"kinds", "s", "specs"}
		s.Recv = irTerm{"s", "PSpec"}
		s.Params = []irTerm{{"specs", "Specs"}}
		if err := irEmit(r, w, c02PL, "Spec", "ValidateJumpIf", s,
			"Result: `true` = returns normally, `false` = one of the `panic`s. `specs` : filter name → kind."); err != nil {
			return err
		}

		// Spec.Validate
		s = c02ValidateBase("validateIR")
		s.Binders = "(kinds : List (String × List String)) (s : PSpec) (resil : List Bool)"
		s.BNames = []string{"kinds", "s", "resil"}
		s.Recv = irTerm{"s", "PSpec"}
		s.Ext.NamedResults = "ignore"
		s.Funcs["filters.NewSpec"] = irCall{Fmt: "(%[3]s, !(urlName %[3]s.1 && (kinds.lookup %[3]s.2).isSome))", Ty: "FSpec × Error", NArgs: 3}
		s.Funcs["resilience.NewPolicy"] = irCall{Fmt: "((), !%[1]s)", Ty: "Policy × Error", NArgs: 1}
		s.Funcs["isBuiltInFilter"] = irCall{Fmt: "(isBuiltInFilterIR %[1]s)", Ty: "Bool", NArgs: 1}
		s.Methods["FSpec.Name"] = irCall{Fmt: "%[1]s.1", Ty: "String", NArgs: 0}
		s.StmtMethods = map[string]irStmtCall{
			// s.ValidateJumpIf(specs) panics or returns: the guard is the model's backward scan
			"PSpec.ValidateJumpIf": {NArgs: 1, Guard: "(scan %[2]s kinds %[1]s.flow).isSome"},
		}
		s.Ignore = func(src string, st ast.Stmt) bool {
			// defer func() { if r := recover(); r != nil { err = … } }(): panics become the returned error
			_, ok := st.(*ast.DeferStmt)
			return ok && strings.Contains(src, "recover()")
		}
		if err := irEmit(r, w, c02PL, "Spec", "Validate", s,
			"Result: `Validate() == nil`. `resil` = for every resilience entry whether `resilience.NewPolicy` accepts it."); err != nil {
			return err
		}

		// GlobalFilter.Handle
		s = c02Base("gfHandleIR")
		s.Binders = "(res : Nat → String) (handler bp ap : Option Pipe)"
		s.BNames = []string{"res", "handler", "bp", "ap"}
		s.RetTy = "Option (String × List Stat × Bool)"
		s.Recv = irTerm{"()", "GF"}
		s.LeanTy["GF"] = "Unit"
		s.Params = []irTerm{{"()", "Ctx"}, {"handler", "Handler"}}
		s.GoTy = map[string]string{"*pipeline.Pipeline": "OptPipe"}
		s.Zero = map[string]string{"OptPipe": "none"}
		s.Fields["GF.beforePipeline"] = irField{Fmt: "bp", Ty: "AtomicVal"}
		s.Fields["GF.afterPipeline"] = irField{Fmt: "ap", Ty: "AtomicVal"}
		s.Methods["AtomicVal.Load"] = irCall{Fmt: "%[1]s", Ty: "OptPipe", NArgs: 0}
		s.State = []irLet{{"out", "Option (String × List Stat × Bool)", "none"}}
		s.StmtMethods = map[string]irStmtCall{
			"Pipe.HandleWithBeforeAfter": {Lets: []irLet{{"out", "Option (String × List Stat × Bool)", "(some (handleBA res %[1]s %[3]s %[4]s))"}}, NArgs: 3},
		}
		s.Panic = "none"
		s.Ret = func(v []irTerm) (string, error) {
			if len(v) != 0 {
				return "", errUnsupportedReturn
			}
			return "out", nil
		}
		s.Hook = func(t *irT, e ast.Expr, env *irEnv) (irTerm, bool, error) {
			// x.(*pipeline.Pipeline) in comma-ok form: (value, ok)
			ta, ok := e.(*ast.TypeAssertExpr)
			if !ok {
				return irTerm{}, false, nil
			}
			if ta.Type == nil || t.r.Src(ta.Type) != "*pipeline.Pipeline" {
				return irTerm{}, true, fmt.Errorf("unsupported type assertion %s", t.r.Src(e))
			}
			x, err := t.expr(ta.X, env)
			if err != nil {
				return irTerm{}, true, err
			}
			switch x.Ty {
			case "Handler": // p, ok := handler.(*pipeline.Pipeline): p is only used when ok
				return irTerm{fmt.Sprintf("(optPipe %s, %s.isSome)", x.S, x.S), "Pipe × Bool"}, true, nil
			case "OptPipe": // the atomic.Value only ever holds *pipeline.Pipeline
				return irTerm{fmt.Sprintf("(%s, %s.isSome)", x.S, x.S), "OptPipe × Bool"}, true, nil
			}
			return irTerm{}, true, fmt.Errorf("unsupported type assertion on %s", x.Ty)
		}
		if err := irEmit(r, w, c02GF, "GlobalFilter", "Handle", s,
			"`handler` = the handler if it is a `*pipeline.Pipeline`; `bp` / `ap` = contents of `gf.beforePipeline` / `gf.afterPipeline`;\n"+
				"result `none` = panic, `some o` = what `p.HandleWithBeforeAfter` did."); err != nil {
			return err
		}

		// globalfilter.Spec.Validate
		s = c02Base("gfValidateIR")
		s.Binders = "(kinds : List (String × List String)) (before after : PSpec)"
		s.BNames = []string{"kinds", "before", "after"}
		s.RetTy = "Bool"
		s.Recv = irTerm{"()", "GFSpec"}
		s.LeanTy["GFSpec"] = "Unit"
		s.Ext.NamedResults = "bind"
		s.Fields["GFSpec.BeforePipeline"] = irField{Fmt: "before", Ty: "PSpec"}
		s.Fields["GFSpec.AfterPipeline"] = irField{Fmt: "after", Ty: "PSpec"}
		s.Methods["PSpec.Validate"] = irCall{Fmt: "(!(validate kinds %[1]s))", Ty: "Error", NArgs: 0}
		s.Funcs["fmt.Errorf"] = irCall{Fmt: "true", Ty: "Error", NArgs: -1}
		s.Ret = func(v []irTerm) (string, error) {
			if len(v) != 1 {
				return "", errUnsupportedReturn
			}
			switch v[0].Ty {
			case "nil":
				return "true", nil
			case "Error":
				return "(!" + v[0].S + ")", nil
			}
			return "", errUnsupportedReturn
		}
		return irEmit(r, w, c02GF, "Spec", "Validate", s, "Result: `Validate() == nil` (resilience sections of the two pipeline specs not modelled).")
	}})
}
