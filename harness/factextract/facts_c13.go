package main

// Facts for C13:
//   panicSites      every function of the anchored packages that contains `panic(`,
//                   `regexp.MustCompile(` or `template.Must(`, with the number of such calls
//   specTags        (struct type, yaml key, jsonschema tag) of every field of the modelled spec types
//   validateMethods the modelled spec types that have a Validate() method (receiver form included)
//   kindResults     Results of the modelled filter kinds (used by ValidateJumpIf)
//   recovers        functions that must contain a recover() for an allow-list entry to be justified

import (
	"fmt"
	"go/ast"
	"go/token"
	"os"
	"path/filepath"
	"reflect"
	"sort"
	"strconv"
	"strings"
)

var c13PanicDirs = []string{
	"pkg/filters", "pkg/object/pipeline", "pkg/object/globalfilter", "pkg/object/httpserver",
	"pkg/object/mqttproxy", "pkg/resilience", "pkg/util/signer", "pkg/util/ipfilter",
	"pkg/util/pathadaptor", "pkg/util/urlrule", "pkg/protocols/httpprot", "pkg/v", "pkg/supervisor/spec.go",
}

// modelled spec types: file -> type names
var c13TagTypes = []struct {
	file  string
	types []string
}{
	{"pkg/supervisor/spec.go", []string{"MetaSpec"}},
	{"pkg/filters/proxy/proxy.go", []string{"Spec"}},
	{"pkg/filters/proxy/pool.go", []string{"ServerPoolSpec"}},
	{"pkg/filters/proxy/server.go", []string{"Server"}},
	{"pkg/filters/proxy/loadbalance.go", []string{"LoadBalanceSpec"}},
	{"pkg/filters/proxy/requestmatch.go", []string{"RequestMatcherSpec", "MethodAndURLMatcher", "StringMatcher"}},
	{"pkg/filters/proxy/memorycache.go", []string{"MemoryCacheSpec"}},
	{"pkg/filters/requestadaptor/requestadaptor.go", []string{"Spec"}},
	{"pkg/filters/responseadaptor/responseadaptor.go", []string{"Spec"}},
	{"pkg/util/pathadaptor/pathadaptor.go", []string{"Spec", "RegexpReplace"}},
	{"pkg/protocols/httpprot/httpheader/httpheader.go", []string{"AdaptSpec"}},
	{"pkg/protocols/httpprot/httpheader/validator.go", []string{"ValueValidator"}},
	{"pkg/filters/ratelimiter/ratelimiter.go", []string{"Policy", "Spec"}},
	{"pkg/util/urlrule/urlrule.go", []string{"StringMatch", "URLRule"}},
	{"pkg/filters/validator/validator.go", []string{"Spec"}},
	{"pkg/filters/validator/jwt.go", []string{"JWTValidatorSpec"}},
	{"pkg/util/signer/spec.go", []string{"Spec"}},
	{"pkg/filters/mock/mock.go", []string{"Spec", "Rule", "MatchRule"}},
	{"pkg/filters/fallback/fallback.go", []string{"Spec"}},
	{"pkg/filters/corsadaptor/corsadaptor.go", []string{"Spec"}},
	{"pkg/filters/builder/builder.go", []string{"Spec"}},
	{"pkg/filters/builder/requestbuilder.go", []string{"RequestBuilderSpec"}},
	{"pkg/filters/builder/responsebuilder.go", []string{"ResponseBuilderSpec"}},
	{"pkg/resilience/retry.go", []string{"RetryPolicy"}},
	{"pkg/resilience/circuitbreaker.go", []string{"CircuitBreakerPolicy"}},
	{"pkg/object/pipeline/pipeline.go", []string{"Spec", "FlowNode"}},
	// objects (extension pipe): GlobalFilter, HTTPServer at mux level
	{"pkg/object/globalfilter/globalfilter.go", []string{"Spec"}},
	{"pkg/object/httpserver/spec.go", []string{"Spec", "Rule", "Path", "Header"}},
	{"pkg/util/ipfilter/ipfilter.go", []string{"Spec"}},
	{"pkg/object/mqttproxy/spec.go", []string{"Spec", "Rule", "When", "RateLimit"}},
}

var c13KindFiles = []string{
	"pkg/filters/corsadaptor/corsadaptor.go", "pkg/filters/fallback/fallback.go", "pkg/filters/mock/mock.go",
	"pkg/filters/proxy/proxy.go", "pkg/filters/ratelimiter/ratelimiter.go", "pkg/filters/requestadaptor/requestadaptor.go",
	"pkg/filters/builder/requestbuilder.go", "pkg/filters/responseadaptor/responseadaptor.go",
	"pkg/filters/builder/responsebuilder.go", "pkg/filters/validator/validator.go",
}

var c13RecoverFuncs = [][3]string{
	{"pkg/filters/filters.go", "", "NewSpec"},
	{"pkg/supervisor/spec.go", "Supervisor", "NewSpec"},
	{"pkg/resilience/resilience.go", "", "NewPolicy"},
	{"pkg/object/pipeline/pipeline.go", "Spec", "Validate"},
	{"pkg/v/validaterecorder.go", "ValidateRecorder", "recordGeneral"},
	{"pkg/filters/builder/requestbuilder.go", "RequestBuilder", "Handle"},
	{"pkg/filters/builder/responsebuilder.go", "ResponseBuilder", "Handle"},
}

func c13GoFiles(root, rel string) ([]string, error) {
	var out []string
	p := filepath.Join(root, rel)
	st, err := os.Stat(p)
	if err != nil {
		return nil, err
	}
	if !st.IsDir() {
		return []string{rel}, nil
	}
	err = filepath.Walk(p, func(path string, info os.FileInfo, err error) error {
		if err != nil {
			return err
		}
		if info.IsDir() || !strings.HasSuffix(path, ".go") || strings.HasSuffix(path, "_test.go") {
			return nil
		}
		r, _ := filepath.Rel(root, path)
		out = append(out, r)
		return nil
	})
	sort.Strings(out)
	return out, err
}

func c13ConstStrings(f *ast.File) map[string]string {
	m := map[string]string{}
	for _, d := range f.Decls {
		gd, ok := d.(*ast.GenDecl)
		if !ok || (gd.Tok != token.CONST && gd.Tok != token.VAR) {
			continue
		}
		for _, s := range gd.Specs {
			vs, ok := s.(*ast.ValueSpec)
			if !ok {
				continue
			}
			for i, n := range vs.Names {
				if i < len(vs.Values) {
					if bl, ok := vs.Values[i].(*ast.BasicLit); ok && bl.Kind == token.STRING {
						if v, err := strconv.Unquote(bl.Value); err == nil {
							m[n.Name] = v
						}
					}
				}
			}
		}
	}
	return m
}

func init() {
	register(Extractor{Module: "FactsC13", Run: func(r *Repo, w *Lean) error {
		// ---- panic / Must sites
		w.Line("/-- (file, function, number of `panic(` + `regexp.MustCompile(` + `template.Must(` calls in it) -/")
		w.Line("def panicSites : List (String × String × Nat) := [")
		first := true
		for _, dir := range c13PanicDirs {
			files, err := c13GoFiles(r.Root, dir)
			if err != nil {
				return err
			}
			for _, rel := range files {
				f, err := r.File(rel)
				if err != nil {
					return err
				}
				for _, d := range f.Decls {
					if gd, ok := d.(*ast.GenDecl); ok && gd.Tok == token.VAR {
						// function literals in package-level variables (e.g. builder.extraFuncs)
						for _, sp := range gd.Specs {
							vs, ok := sp.(*ast.ValueSpec)
							if !ok {
								continue
							}
							for i, v := range vs.Values {
								n := r.CountCalls(v, "panic") + r.CountCalls(v, "regexp.MustCompile") + r.CountCalls(v, "template.Must")
								if n == 0 || i >= len(vs.Names) {
									continue
								}
								sep := ","
								if first {
									sep, first = " ", false
								}
								w.Line("  %s(%s, %s, %d)", sep, Str(rel), Str("var "+vs.Names[i].Name), n)
							}
						}
						continue
					}
					fd, ok := d.(*ast.FuncDecl)
					if !ok || fd.Body == nil {
						continue
					}
					n := r.CountCalls(fd.Body, "panic") + r.CountCalls(fd.Body, "regexp.MustCompile") + r.CountCalls(fd.Body, "template.Must")
					if n == 0 {
						continue
					}
					name := fd.Name.Name
					if fd.Recv != nil && len(fd.Recv.List) == 1 {
						name = recvName(fd.Recv.List[0].Type) + "." + name
					}
					sep := ","
					if first {
						sep, first = " ", false
					}
					w.Line("  %s(%s, %s, %d)", sep, Str(rel), Str(name), n)
				}
			}
		}
		w.Line("  ]")

		// ---- struct tags
		w.Line("/-- (file:type, yaml key, jsonschema tag) of every field of the modelled spec types -/")
		w.Line("def specTags : List (String × String × String) := [")
		first = true
		var validates []string
		for _, tt := range c13TagTypes {
			f, err := r.File(tt.file)
			if err != nil {
				return err
			}
			for _, tn := range tt.types {
				var st *ast.StructType
				ast.Inspect(f, func(n ast.Node) bool {
					if ts, ok := n.(*ast.TypeSpec); ok && ts.Name.Name == tn {
						if s, ok := ts.Type.(*ast.StructType); ok && st == nil {
							st = s
						}
					}
					return true
				})
				if st == nil {
					return fmt.Errorf("%s: struct %s not found", tt.file, tn)
				}
				for _, fld := range st.Fields.List {
					if fld.Tag == nil {
						continue
					}
					raw, _ := strconv.Unquote(fld.Tag.Value)
					tag := reflect.StructTag(raw)
					y := strings.Split(tag.Get("yaml"), ",")[0]
					js, ok := tag.Lookup("jsonschema")
					if !ok {
						js = "<none>"
					}
					if y == "" && len(fld.Names) == 0 {
						y = "<inline>"
					}
					sep := ","
					if first {
						sep, first = " ", false
					}
					w.Line("  %s(%s, %s, %s)", sep, Str(tt.file+":"+tn), Str(y), Str(js))
				}
				// Validate method?
				for _, d := range f.Decls {
					fd, ok := d.(*ast.FuncDecl)
					if !ok || fd.Name.Name != "Validate" || fd.Recv == nil || len(fd.Recv.List) != 1 {
						continue
					}
					if recvName(fd.Recv.List[0].Type) == tn {
						form := "value"
						if _, ok := fd.Recv.List[0].Type.(*ast.StarExpr); ok {
							form = "pointer"
						}
						validates = append(validates, tt.file+":"+tn+":"+form)
					}
				}
			}
		}
		w.Line("  ]")
		w.Line("/-- modelled spec types that have a `Validate()` method, with the receiver form -/")
		w.Line("def validateMethods : List String := %s", StrList(validates))

		// ---- kind results
		w.Line("/-- Results of the modelled filter kinds -/")
		w.Line("def kindResults : List (String × List String) := [")
		first = true
		for _, rel := range c13KindFiles {
			f, err := r.File(rel)
			if err != nil {
				return err
			}
			consts := c13ConstStrings(f)
			// constants of sibling files of the package (builder.go holds resultBuildErr)
			sibs, _ := c13GoFiles(r.Root, filepath.Dir(rel))
			for _, s := range sibs {
				if sf, err := r.File(s); err == nil {
					for k, v := range c13ConstStrings(sf) {
						if _, ok := consts[k]; !ok {
							consts[k] = v
						}
					}
				}
			}
			found := false
			var ferr error
			ast.Inspect(f, func(n ast.Node) bool {
				cl, ok := n.(*ast.CompositeLit)
				if !ok || r.Src(cl.Type) != "filters.Kind" {
					return true
				}
				name, results := "", []string{}
				for _, el := range cl.Elts {
					kv, ok := el.(*ast.KeyValueExpr)
					if !ok {
						continue
					}
					switch r.Src(kv.Key) {
					case "Name":
						name = consts[r.Src(kv.Value)]
					case "Results":
						if rl, ok := kv.Value.(*ast.CompositeLit); ok {
							for _, e := range rl.Elts {
								v, ok := consts[r.Src(e)]
								if !ok {
									ferr = fmt.Errorf("%s: result %s is not a string constant", rel, r.Src(e))
								}
								results = append(results, v)
							}
						}
					}
				}
				if name == "" {
					ferr = fmt.Errorf("%s: kind name not resolved", rel)
				}
				sep := ","
				if first {
					sep, first = " ", false
				}
				w.Line("  %s(%s, %s)", sep, Str(name), StrList(results))
				found = true
				return false
			})
			if ferr != nil {
				return ferr
			}
			if !found {
				return fmt.Errorf("%s: filters.Kind literal not found", rel)
			}
		}
		w.Line("  ]")

		// ---- recover() present where the allow-list relies on it
		w.Line("/-- functions whose deferred `recover()` turns the listed panics into errors / results -/")
		w.Line("def recovers : List (String × Bool) := [")
		for i, rf := range c13RecoverFuncs {
			fd, err := r.Func(rf[0], rf[1], rf[2])
			if err != nil {
				return err
			}
			sep := ","
			if i == 0 {
				sep = " "
			}
			w.Line("  %s(%s, %s)", sep, Str(rf[0]+":"+rf[1]+"."+rf[2]), Bool(r.CountCalls(fd.Body, "recover") > 0))
		}
		w.Line("  ]")
		return nil
	}})
}
