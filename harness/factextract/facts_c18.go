package main

// Facts for C18: the structure Model/ClusterMutex.lean and Model/AdminAPI.lean assume —
// call order inside mutex.Lock/Unlock, one session per member, one mutex object per API
// server, handlers bracketed by Lock / deferred Unlock, version = read + 1.

import (
	"go/ast"
	"io/ioutil"
	"path/filepath"
	"sort"
	"strings"
)

// c18Calls lists the calls of a function body in source order ("defer " prefix for deferred
// calls; calls inside a deferred closure get "deferred:"), without logging / formatting calls.
func c18Calls(r *Repo, fd *ast.FuncDecl) []string {
	var out []string
	var walk func(n ast.Node, pre string)
	walk = func(n ast.Node, pre string) {
		ast.Inspect(n, func(x ast.Node) bool {
			switch v := x.(type) {
			case *ast.DeferStmt:
				if fl, ok := v.Call.Fun.(*ast.FuncLit); ok {
					walk(fl.Body, "deferred:")
				} else {
					out = append(out, "defer "+r.Src(v.Call.Fun))
					for _, a := range v.Call.Args {
						walk(a, pre)
					}
				}
				return false
			case *ast.CallExpr:
				f := r.Src(v.Fun)
				if strings.HasPrefix(f, "logger.") || strings.HasPrefix(f, "fmt.") || strings.HasPrefix(f, "func(") {
					return true
				}
				out = append(out, pre+f)
			}
			return true
		})
	}
	walk(fd.Body, "")
	return out
}

func c18Contains(r *Repo, fd *ast.FuncDecl, stmt string) bool {
	found := false
	ast.Inspect(fd.Body, func(x ast.Node) bool {
		if s, ok := x.(ast.Stmt); ok && r.Src(s) == stmt {
			found = true
		}
		return true
	})
	return found
}

func init() {
	register(Extractor{Module: "FactsC18", Run: func(r *Repo, w *Lean) error {
		emit := func(name, file, recv, fn string) (*ast.FuncDecl, error) {
			fd, err := r.Func(file, recv, fn)
			if err != nil {
				return nil, err
			}
			w.Line("def %s : List String := %s", name, StrList(c18Calls(r, fd)))
			return fd, nil
		}
		// only the calls on the receiver's two locks matter (context plumbing is left out)
		emitM := func(name, fn string) (*ast.FuncDecl, error) {
			fd, err := r.Func("pkg/cluster/mutex.go", "mutex", fn)
			if err != nil {
				return nil, err
			}
			var calls []string
			for _, c := range c18Calls(r, fd) {
				if strings.Contains(c, "m.lock.") || strings.Contains(c, "m.m.") {
					calls = append(calls, c)
				}
			}
			w.Line("def %s : List String := %s", name, StrList(calls))
			return fd, nil
		}
		lock, err := emitM("mutexLockCalls", "Lock")
		if err != nil {
			return err
		}
		w.Line("/-- the deferred closure of Lock releases the local mutex exactly when the etcd lock failed (or panicked) -/")
		w.Line("def lockUnlocksLocalOnError : Bool := %s", Bool(c18Contains(r, lock, "if panicked || err != nil { m.lock.Unlock() }")))
		// the cleanup of a failed etcd Lock: `if err != nil { …; m.m.Unlock(…); … }` right after `err = m.m.Lock(ctx)`
		cleanup := false
		for i, st := range lock.Body.List {
			if r.Src(st) == "err = m.m.Lock(ctx)" && i+1 < len(lock.Body.List) {
				if ifs, ok := lock.Body.List[i+1].(*ast.IfStmt); ok && r.Src(ifs.Cond) == "err != nil" {
					cleanup = r.CountCalls(ifs.Body, "m.m.Unlock") == 1
				}
			}
		}
		w.Line("/-- a failed etcd Lock is followed by m.m.Unlock (removes a key whose creation was not reported) -/")
		w.Line("def lockCleansUpOnError : Bool := %s", Bool(cleanup))
		if _, err := emitM("mutexUnlockCalls", "Unlock"); err != nil {
			return err
		}
		if _, err := emit("clusterMutexCalls", "pkg/cluster/mutex.go", "cluster", "Mutex"); err != nil {
			return err
		}
		gs, err := r.Func("pkg/cluster/cluster.go", "cluster", "getSession")
		if err != nil {
			return err
		}
		w.Line("/-- getSession creates a session only when none is cached, and caches it -/")
		w.Line("def sessionCreations : Nat := %d", r.CountCalls(gs.Body, "concurrency.NewSession"))
		w.Line("def sessionCached : Bool := %s", Bool(c18Contains(r, gs, "c.session = session") && c18Contains(r, gs, "if c.session != nil { return c.session, nil }")))

		gm, err := r.Func("pkg/api/server.go", "Server", "getMutex")
		if err != nil {
			return err
		}
		w.Line("def getMutexLocksFirst : Bool := %s", Bool(r.LocksFirst(gm)))
		w.Line("def getMutexReturnsCached : Bool := %s", Bool(c18Contains(r, gm, "if s.mutex != nil { return s.mutex, nil }")))
		w.Line("def getMutexStores : Bool := %s", Bool(c18Contains(r, gm, "s.mutex = mutex")))
		// every place in pkg/api that creates a cluster mutex
		files, _ := filepath.Glob(filepath.Join(r.Root, "pkg/api/*.go"))
		sort.Strings(files)
		var sites []string
		for _, f := range files {
			if strings.HasSuffix(f, "_test.go") {
				continue
			}
			rel, _ := filepath.Rel(r.Root, f)
			if _, err := ioutil.ReadFile(f); err != nil {
				return err
			}
			af, err := r.File(rel)
			if err != nil {
				return err
			}
			for _, d := range af.Decls {
				fd, ok := d.(*ast.FuncDecl)
				if !ok || fd.Body == nil {
					continue
				}
				ast.Inspect(fd.Body, func(x ast.Node) bool {
					if ce, ok := x.(*ast.CallExpr); ok {
						if se, ok := ce.Fun.(*ast.SelectorExpr); ok && se.Sel.Name == "Mutex" {
							sites = append(sites, filepath.Base(rel)+":"+fd.Name.Name)
						}
					}
					return true
				})
			}
		}
		w.Line("def apiMutexCreationSites : List String := %s", StrList(sites))
		if _, err := emit("serverLockCalls", "pkg/api/server.go", "Server", "Lock"); err != nil {
			return err
		}
		if _, err := emit("serverUnlockCalls", "pkg/api/server.go", "Server", "Unlock"); err != nil {
			return err
		}
		for _, h := range []string{"createObject", "updateObject", "deleteObject"} {
			fd, err := r.Func("pkg/api/object.go", "Server", h)
			if err != nil {
				return err
			}
			var calls []string
			for _, c := range c18Calls(r, fd) {
				if strings.HasPrefix(c, "s.") || strings.HasPrefix(c, "defer s.") {
					calls = append(calls, c)
				}
			}
			w.Line("def %sCalls : List String := %s", h, StrList(calls))
		}
		if _, err := emit("upgradeConfigVersionCalls", "pkg/api/object.go", "Server", "upgradeConfigVersion"); err != nil {
			return err
		}
		pv, err := r.Func("pkg/api/cluster.go", "Server", "_plusOneVersion")
		if err != nil {
			return err
		}
		var pvCalls []string
		for _, c := range c18Calls(r, pv) {
			if strings.HasPrefix(c, "s.") {
				pvCalls = append(pvCalls, c)
			}
		}
		w.Line("def plusOneVersionCalls : List String := %s", StrList(pvCalls))
		w.Line("def plusOneIncrements : Bool := %s", Bool(c18Contains(r, pv, "version++")))
		return nil
	}})
}
