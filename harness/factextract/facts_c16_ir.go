package main

// Regenerated tie by translation for C16 (irlib.go, notes/IR.md): the decision logic of teardown / takeover:
//   Client.closeAndDelSession   (client.go)          → closeAndDelIR    = markDisc (teardown true s k) k
//   SessionManager.delLocal     (session_manager.go) → delLocalIR       = delLocalM (the delLocal part of teardownBody)
//   Broker.removeClient         (broker.go)          → removeClientIR   = the `remove` step's effect on Broker.clients
//   Broker.deleteSession        (broker.go)          → deleteSessionIR  = Model.deleteSession
//   Broker.setSession           (broker.go)          → setSessionIR     = Model.setSession true
//   Broker.handleConn           (broker.go)          → handleConnIR     = refused: unchanged; CONNACK lost: connectLocked;
//                                                       else the steps connectLocked; storeSess; resubscribe run in sequence
// (Model = lean/EgVerif/Model/BrokerSessions.lean, one client id.) `<fn>_regenerated_from_source` in
// Proofs/BrokerSessionsIR.lean, re-exported from Props/C16.lean.
//
// Mapping: the whole broker state for the id is the state variable `st : St`; a *Client is its connection
// number (`c` / `client` = k), a *Session is a session reference. `b.clients[cid]` reads `st.client`,
// `delete(b.clients, cid)` clears it; `sessMgr.delDB` = delete the persisted copy + one store delete event;
// `topicMgr.unsubscribe(topics, cid)` = `delAll`; `session.close()` = `closeSess`; `c.close()` = `markDisc`
// (Client.close is idempotent: statusFlag := Disconnected, close(done)); `sessMgr.get` = `getSess`;
// `newSessionFromConn` = allocation of a fresh open session registered in the session map. Broker / client
// mutexes and logger calls are ignored (listed in the generated file) — the lock SCOPES are the subject of
// the facts in facts_c16.go / facts_c16_locks.go, not of this translation.

import (
	"fmt"
	"go/ast"
	"strings"
)

func c16IgnoreStmt(src string, s ast.Stmt) bool {
	switch s.(type) {
	case *ast.ExprStmt, *ast.DeferStmt:
		for _, p := range []string{"logger.", "c.broker.Lock()", "c.broker.Unlock()", "b.Lock()", "b.Unlock()", "defer b.Unlock()", "defer conn.Close()"} {
			if strings.HasPrefix(src, p) {
				return true
			}
		}
	case *ast.GoStmt:
		return src == "go client.writeLoop()" // the writer goroutine of the new connection (its error path is the model's writeErr step)
	case *ast.AssignStmt:
		return strings.HasPrefix(src, "connack.ReturnCode = ") // the CONNACK's content is not modelled
	}
	return false
}

// `go oldClient.close()` → the takeover mark (an asynchronous close request for the superseded connection)
func c16StmtHook(t *irT, s ast.Stmt, env *irEnv) ([]irLet, bool, error) {
	gs, ok := s.(*ast.GoStmt)
	if !ok {
		return nil, false, nil
	}
	se, ok := gs.Call.Fun.(*ast.SelectorExpr)
	if !ok || se.Sel.Name != "close" || len(gs.Call.Args) != 0 {
		return nil, true, fmt.Errorf("unsupported go statement %s", t.r.Src(s))
	}
	rx, err := t.expr(se.X, env)
	if err != nil {
		return nil, true, err
	}
	if rx.Ty != "ConnRef" {
		return nil, true, fmt.Errorf("go %s: receiver %s", t.r.Src(gs.Call), rx.Ty)
	}
	return []irLet{{"st", "St", "(markCloseReq st " + rx.S + ")"}}, true, nil
}

func c16Spec(name string) *irSpec {
	return &irSpec{
		Name:   name,
		State:  []irLet{{"st", "St", "s"}},
		LeanTy: map[string]string{"ConnRef": "Nat", "SessRef": "Nat", "OptSess": "Option Nat", "ClientsMap": "St", "Broker": "Unit", "SessMgr": "Unit", "TopicMgr": "Unit", "Info": "Unit", "Cid": "Unit", "Topics": "List Nat", "Qoss": "Unit", "Connect": "Bool", "SessionMap": "St", "AnyVal": "Nat"},
		Fields: map[string]irField{
			"ConnRef.broker":           {Fmt: "()", Ty: "Broker"},
			"ConnRef.info":             {Fmt: "()", Ty: "Info"},
			"Info.cid":                 {Fmt: "()", Ty: "Cid"},
			"ConnRef.session":          {Fmt: "(st.conn %s).sess", Ty: "SessRef"},
			"Broker.clients":           {Fmt: "st", Ty: "St", State: true},
			"Broker.sessMgr":           {Fmt: "()", Ty: "SessMgr"},
			"Broker.topicMgr":          {Fmt: "()", Ty: "TopicMgr"},
			"Connect.CleanSession":     {Fmt: "%s", Ty: "Bool"},
			"Connect.ClientIdentifier": {Fmt: "()", Ty: "Cid"},
			"SessMgr.sessionMap":       {Fmt: "st", Ty: "SessionMap"},
		},
		Methods: map[string]irCall{
			"ConnRef.disconnected":  {Fmt: "(st.conn %[1]s).disc", Ty: "Bool", NArgs: 0},
			"SessRef.cleanSession":  {Fmt: "(st.sess %[1]s).clean", Ty: "Bool", NArgs: 0},
			"SessRef.allSubscribes": {Fmt: "((st.sess %[1]s).topics, (), false)", Ty: "Topics × Qoss × Error", NArgs: 0},
			"OptSess.cleanSession":  {Fmt: "(st.sess (%[1]s.getD 0)).clean", Ty: "Bool", NArgs: 0},
			"OptSess.allSubscribes": {Fmt: "((st.sess (%[1]s.getD 0)).topics, (), false)", Ty: "Topics × Qoss × Error", NArgs: 0},
		},
		Ext: irSpecExt{IndexOk: map[string]irCall{"St": {Fmt: "(lookupClient %[1]s)", Ty: "ConnRef × Bool"}}},
		EffMethods: map[string]irEffCall{
			"SessMgr.get":                {NArgs: 1, Pre: []irLet{{"§tmp", "OptSess", "(getSess st).2"}, {"st", "St", "(getSess st).1"}}, Fmt: "§tmp", Ty: "OptSess"},
			"SessMgr.newSessionFromConn": {NArgs: 1, Pre: []irLet{{"§tmp", "OptSess", "(some st.nextSess)"}, {"st", "St", "(allocSess st %[2]s)"}}, Fmt: "§tmp", Ty: "OptSess"},
			"SessionMap.LoadAndDelete":   {NArgs: 1, Pre: []irLet{{"§tmp", "AnyVal × Bool", "(lookupSess st)"}, {"st", "St", "{ st with sessMap := none }"}}, Fmt: "§tmp", Ty: "AnyVal × Bool"},
		},
		StmtFuncs: map[string]irStmtCall{
			"delete": {NArgs: 2, Lets: []irLet{{"st", "St", "{ st with client := none }"}}},
		},
		StmtMethods: map[string]irStmtCall{
			"SessMgr.delLocal":     {NArgs: 1, Lets: []irLet{{"st", "St", "(delLocalM st)"}}},
			"SessMgr.delDB":        {NArgs: 1, Lets: []irLet{{"st", "St", "(delDBM st)"}}},
			"TopicMgr.unsubscribe": {NArgs: 2, Lets: []irLet{{"st", "St", "{ st with topicMgr := delAll st.topicMgr %[2]s }"}}},
			"ConnRef.close":        {NArgs: 0, Lets: []irLet{{"st", "St", "(markDisc st %[1]s)"}}},
			"OptSess.close":        {NArgs: 0, Lets: []irLet{{"st", "St", "(closeSess st (%[1]s.getD 0))"}}},
			"SessRef.close":        {NArgs: 0, Lets: []irLet{{"st", "St", "(closeSess st %[1]s)"}}},
		},
		Hook: func(t *irT, e ast.Expr, env *irEnv) (irTerm, bool, error) {
			// connect, ok := packet.(*packets.ConnectPacket)
			if ta, ok := e.(*ast.TypeAssertExpr); ok && t.r.Src(ta.Type) == "*packets.ConnectPacket" {
				return irTerm{"(clean, isConnect)", "Connect × Bool"}, true, nil
			}
			// sess := val.(*Session)
			if ta, ok := e.(*ast.TypeAssertExpr); ok && t.r.Src(ta.Type) == "*Session" {
				x, err := t.expr(ta.X, env)
				if err != nil {
					return irTerm{}, true, err
				}
				if x.Ty == "AnyVal" {
					return irTerm{x.S, "SessRef"}, true, nil
				}
			}
			return irTerm{}, false, nil
		},
		Ignore: c16IgnoreStmt,
		Ret: func(v []irTerm) (string, error) {
			if len(v) != 0 {
				return "", errUnsupportedReturn
			}
			return "st", nil
		},
	}
}

func init() {
	register(Extractor{Module: "FactsC16IR", Imports: []string{"EgVerif.Model.BrokerSessions", "EgVerif.Model.SessionQoS"}, Run: func(r *Repo, w *Lean) error {
		w.Line("set_option linter.unusedVariables false")
		w.Line("open EgVerif.BrokerSessions")
		w.Line("")
		w.Line("/-- `cur, ok := b.clients[cid]` -/")
		w.Line("def lookupClient (s : St) : Nat × Bool := match s.client with | some o => (o, true) | none => (0, false)")
		w.Line("/-- `val, ok := sm.sessionMap.Load…(cid)` -/")
		w.Line("def lookupSess (s : St) : Nat × Bool := match s.sessMap with | some r => (r, true) | none => (0, false)")
		w.Line("/-- `SessionManager.delLocal` (tied to its source by `delLocalIR`) -/")
		w.Line("def delLocalM (s : St) : St := match s.sessMap with | some r => { closeSess s r with sessMap := none } | none => s")
		w.Line("/-- `SessionManager.delDB`: the persisted copy goes, the store emits one delete event -/")
		w.Line("def delDBM (s : St) : St := { s with db := none, watch := s.watch + 1 }")
		w.Line("/-- `newSessionFromConn`: a fresh open session object, registered in the session map -/")
		w.Line("def allocSess (s : St) (clean : Bool) : St :=")
		w.Line("  { s with sess := upd s.sess s.nextSess ⟨[], clean, false⟩, nextSess := s.nextSess + 1, sessMap := some s.nextSess }")
		w.Line("/-- `go oldClient.close()`: an asynchronous close request for the superseded connection -/")
		w.Line("def markCloseReq (s : St) (o : Nat) : St := setConn s o { s.conn o with closeReq := true }")
		w.Line("/-- `client.session = r` at the end of setSession (the connection is registered from here on) -/")
		w.Line("def attach (s : St) (k : Nat) (clean : Bool) (r : Option Nat) : St :=")
		w.Line("  setConn s k ⟨Pc.registered, clean, r.getD 0, (s.conn k).disc, (s.conn k).closeReq⟩")
		w.Line("")

		// SessionManager.delLocal
		s := c16Spec("delLocalIR")
		s.Binders, s.BNames, s.RetTy = "(s : St)", []string{"s"}, "St"
		s.Recv, s.Params = irTerm{"()", "SessMgr"}, []irTerm{{"()", "Cid"}}
		if err := irEmit(r, w, "pkg/object/mqttproxy/session_manager.go", "SessionManager", "delLocal", s, ""); err != nil {
			return err
		}
		// Client.closeAndDelSession
		s = c16Spec("closeAndDelIR")
		s.Binders, s.BNames, s.RetTy = "(s : St) (k : Nat)", []string{"s", "k"}, "St"
		s.Recv = irTerm{"k", "ConnRef"}
		if err := irEmit(r, w, "pkg/object/mqttproxy/client.go", "Client", "closeAndDelSession", s,
			"`k` = this connection. The ownership guard `!ok || cur == c` decides whether session map, persisted copy and subscriptions are torn down."); err != nil {
			return err
		}
		// Broker.removeClient
		s = c16Spec("removeClientIR")
		s.Binders, s.BNames, s.RetTy = "(s : St)", []string{"s"}, "St"
		s.Recv, s.Params = irTerm{"()", "Broker"}, []irTerm{{"()", "Cid"}}
		if err := irEmit(r, w, "pkg/object/mqttproxy/broker.go", "Broker", "removeClient", s, ""); err != nil {
			return err
		}
		// Broker.deleteSession
		s = c16Spec("deleteSessionIR")
		s.Binders, s.BNames, s.RetTy = "(s : St)", []string{"s"}, "St"
		s.Recv, s.Params = irTerm{"()", "Broker"}, []irTerm{{"()", "Cid"}}
		if err := irEmit(r, w, "pkg/object/mqttproxy/broker.go", "Broker", "deleteSession", s, ""); err != nil {
			return err
		}
		// Broker.setSession
		s = c16Spec("setSessionIR")
		s.Binders, s.BNames, s.RetTy = "(s : St) (k : Nat) (clean : Bool)", []string{"s", "k", "clean"}, "St"
		s.Recv, s.Params = irTerm{"()", "Broker"}, []irTerm{{"k", "ConnRef"}, {"clean", "Connect"}}
		s.State = []irLet{{"st", "St", "s"}, {"sessRef", "OptSess", "none"}}
		s.Fields["ConnRef.session"] = irField{Fmt: "sessRef", Ty: "OptSess", State: true}
		s.Ret = func(v []irTerm) (string, error) {
			if len(v) != 0 {
				return "", errUnsupportedReturn
			}
			return "(attach st k clean sessRef)", nil
		}
		if err := irEmit(r, w, "pkg/object/mqttproxy/broker.go", "Broker", "setSession", s,
			"`k` = the new connection, `clean` = connect.CleanSession; `sessRef` = the session that ends up in `client.session`."); err != nil {
			return err
		}
		// Broker.handleConn: the whole connect program of one connection, run without interleaving
		s = c16Spec("handleConnIR")
		s.Binders = "(s : St) (k : Nat) (clean readOK isConnect valid connackOK : Bool) (nclients maxConn : Int)"
		s.BNames = []string{"s", "k", "clean", "readOK", "isConnect", "valid", "connackOK", "nclients", "maxConn"}
		s.RetTy = "St"
		s.Recv, s.Params = irTerm{"()", "Broker"}, []irTerm{{"()", "NetConn"}}
		s.AllowShadow = true // `if oldClient, ok := b.clients[cid]; ok` re-declares ok
		s.StmtHook = c16StmtHook
		for k, v := range map[string]string{"NetConn": "Unit", "Pkt": "Unit", "Connack": "Unit", "Spec": "Unit", "Str0": "Unit"} {
			s.LeanTy[k] = v
		}
		s.Fields["Broker.spec"] = irField{Fmt: "()", Ty: "Spec"}
		s.Fields["Spec.MaxAllowedConnection"] = irField{Fmt: "maxConn", Ty: "Int"}
		s.Fields["Broker.egName"] = irField{Fmt: "()", Ty: "Str0"}
		s.Fields["Broker.name"] = irField{Fmt: "()", Ty: "Str0"}
		s.Funcs = map[string]irCall{
			"packets.ReadPacket": {Fmt: "((), !readOK)", Ty: "Pkt × Error", NArgs: 1},
			"len:St":             {Fmt: "nclients", Ty: "Int", NArgs: 1},
			"len:Topics":         {Fmt: "(%[1]s.length : Int)", Ty: "Int", NArgs: 1},
		}
		s.Methods["Broker.connectionValidation"] = irCall{Fmt: "(k, (), valid)", Ty: "ConnRef × Connack × Bool", NArgs: 2}
		s.Methods["Connack.Write"] = irCall{Fmt: "(!connackOK)", Ty: "Error", NArgs: 1}
		s.IndexSet = map[string]string{"St": "{ %[1]s with client := some %[3]s }"}
		s.EffMethods["TopicMgr.subscribe"] = irEffCall{NArgs: 3, Pre: []irLet{{"st", "St", "{ st with topicMgr := addAll st.topicMgr %[2]s }"}}, Fmt: "false", Ty: "Error"}
		s.StmtMethods["Broker.setSession"] = irStmtCall{NArgs: 2, Lets: []irLet{{"st", "St", "(setSession true st %[2]s %[3]s)"}}}
		s.StmtMethods["SessRef.updateEGName"] = irStmtCall{NArgs: 2, Lets: []irLet{{"st", "St", "(persist st %[1]s)"}}}
		s.StmtMethods["ConnRef.readLoop"] = irStmtCall{NArgs: 0, Lets: []irLet{{"st", "St", "(setPc st %[1]s Pc.running)"}}}
		if err := irEmit(r, w, "pkg/object/mqttproxy/broker.go", "Broker", "handleConn", s,
			"Oracles: `readOK` (the first packet could be read), `isConnect` (it is a CONNECT, with CleanSession = `clean`), `valid` (connectionValidation: return code, limiter, early cap check, auth pipeline), `nclients` / `maxConn` (len(b.clients), spec.MaxAllowedConnection), `connackOK` (CONNACK written). `client.readLoop()` = the connection enters its read loop (pc running); `b.setSession` is the model's `setSession` (= setSessionIR)."); err != nil {
			return err
		}

		// --- QoS layer (Model/SessionQoS.lean): Session.subscribe / unsubscribe / allSubscribes of session.go.
		// Topic strings are filter ids (Nat), `s.info.Topics` is the state variable `live_` (association list),
		// `s.store()` makes the persisted copy equal to it (`db_ := live_`; encode + storeCh + doStore trusted).
		w.Line("open EgVerif.SessionQoS EgVerif.Topic")
		w.Line("")
		qs := func(name string) *irSpec {
			return &irSpec{
				Name:   name,
				Recv:   irTerm{"()", "Sess"},
				LeanTy: map[string]string{"Sess": "Unit", "Info": "Unit", "TMapT": "List (Nat × Nat)", "QoSB": "Nat"},
				GoTy:   map[string]string{"[]string": "List Nat", "[]byte": "List QoSB"},
				Fields: map[string]irField{
					"Sess.info":   {Fmt: "()", Ty: "Info"},
					"Info.Topics": {Fmt: "live_", Ty: "TMapT", State: true},
				},
				Funcs: map[string]irCall{
					"append:List Nat":  {Fmt: "(%[1]s ++ [%[2]s])", Ty: "List Nat", NArgs: 2},
					"append:List QoSB": {Fmt: "(%[1]s ++ [%[2]s])", Ty: "List QoSB", NArgs: 2},
				},
				Conv:     map[string]irCall{"int:QoSB": {Fmt: "%[1]s", Ty: "Nat"}, "byte:Nat": {Fmt: "%[1]s", Ty: "QoSB"}},
				Index:    map[string]irCall{"List QoSB": {Fmt: "(%[1]s.getD %[2]s 0)", Ty: "QoSB"}},
				IndexSet: map[string]string{"TMapT": "(alSet %[2]s %[3]s %[1]s)"},
				RangeKV:  map[string][2]string{"TMapT": {"Nat", "Nat"}},
				Ext:      irSpecExt{RangeKeyTy: "Nat"},
				StmtFuncs: map[string]irStmtCall{
					"delete": {NArgs: 2, Lets: []irLet{{"%[1]s", "TMapT", "(alErase %[2]s %[1]s)"}}},
				},
				StmtMethods: map[string]irStmtCall{
					"Sess.store": {NArgs: 0, Lets: []irLet{{"db_", "TMapT", "live_"}}},
				},
				Ignore: func(src string, st ast.Stmt) bool {
					switch st.(type) {
					case *ast.ExprStmt:
						return strings.HasPrefix(src, "logger.") || src == "s.Lock()" || src == "s.Unlock()"
					}
					return false
				},
			}
		}
		qstate := []irLet{{"live_", "TMapT", "live"}, {"db_", "TMapT", "db"}}
		qret := func(v []irTerm) (string, error) {
			if len(v) != 1 || v[0].Ty != "nil" {
				return "", errUnsupportedReturn
			}
			return "(live_, db_)", nil
		}
		s = qs("sessSubscribeIR")
		s.Binders, s.BNames, s.RetTy = "(topics qoss : List Nat) (live db : List (Nat × Nat))", []string{"topics", "qoss", "live", "db"}, "List (Nat × Nat) × List (Nat × Nat)"
		s.Params, s.State, s.Ret = []irTerm{{"topics", "List Nat"}, {"qoss", "List QoSB"}}, qstate, qret
		if err := irEmit(r, w, "pkg/object/mqttproxy/session.go", "Session", "subscribe", s, "Result: (s.info.Topics, persisted Topics)."); err != nil {
			return err
		}
		s = qs("sessUnsubscribeIR")
		s.Binders, s.BNames, s.RetTy = "(topics : List Nat) (live db : List (Nat × Nat))", []string{"topics", "live", "db"}, "List (Nat × Nat) × List (Nat × Nat)"
		s.Params, s.State, s.Ret = []irTerm{{"topics", "List Nat"}}, qstate, qret
		if err := irEmit(r, w, "pkg/object/mqttproxy/session.go", "Session", "unsubscribe", s, "Result: (s.info.Topics, persisted Topics)."); err != nil {
			return err
		}
		s = qs("allSubscribesIR")
		s.Binders, s.BNames, s.RetTy = "(live : List (Nat × Nat))", []string{"live"}, "List Nat × List Nat"
		s.Params, s.State = nil, qstate[:1]
		s.Ret = func(v []irTerm) (string, error) {
			if len(v) != 3 || v[0].Ty != "List Nat" || v[1].Ty != "List QoSB" || v[2].Ty != "nil" {
				return "", errUnsupportedReturn
			}
			return "(" + v[0].S + ", " + v[1].S + ")", nil
		}
		return irEmit(r, w, "pkg/object/mqttproxy/session.go", "Session", "allSubscribes", s, "Result: the parallel slices (topics, qoss).")
	}})
}
