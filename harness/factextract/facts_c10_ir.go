package main

// Regenerated tie by translation for C10 (irlib.go, notes/IR.md "Extension resil"):
//
//   * the closure returned by RetryPolicy.Wrap (pkg/resilience/retry.go)            → wrapIR (+ _loop1)
//   * RetryPolicy.CreateWrapper                                                      → createWrapperIR
//   * ServerPool.doHandle (pkg/filters/proxy/pool.go): error classification          → doHandleIR
//   * ServerPool.handle: wrapper composition, stream rule, result / status mapping   → handleIR
//   * the handler closure inside ServerPool.handle (timeout context, resets)         → handlerIR
//
// `<fn>_regenerated_from_source` (Proofs/RetryIR.lean, re-exported by Props/C10.lean) prove them equal
// to Model/Retry.lean's wrapG, createWrapperG, doHandle ∘ DoEnv.attempt, handleG, handlerG.
//
// float64 is an opaque algebra `A : FloatOps F`; `select` is the environment's choice oracle
// (`env.done k`); the wrapped handler is the oracle `h k resp` (k-th call, current spCtx.resp).

import (
	"fmt"
	"go/ast"
	"go/token"
	"strconv"
)

const c10HTy = "Nat → Option Nat → Option SPErr × Option Nat"

func c10IsNil(e ast.Expr) bool {
	id, ok := e.(*ast.Ident)
	return ok && id.Name == "nil"
}

func c10WrapSpec() *irSpec {
	run := func(err string) string { return "(⟨events, " + err + ", sp_resp⟩ : RunG)" }
	return &irSpec{
		Name:    "wrapIR",
		Binders: "{F : Type} (A : FloatOps F) (p : RetryPolicy) (f : F) (h : " + c10HTy + ") (env : EnvG) (resp0 : Option Nat)",
		BNames:  []string{"A", "p", "f", "h", "env", "resp0"},
		RetTy:   "RunG",
		Recv:    irTerm{"p", "Policy"},
		Params:  []irTerm{{"h", "Handler"}},
		Closure: &irClosure{Params: []irTerm{{"()", "Ctx"}}},
		State: []irLet{{"events", "Events", "([] : List EventG)"}, {"sp_resp", "Resp", "resp0"},
			{"ncalls", "Nat", "0"}, {"nsel", "Nat", "0"}},
		LeanTy: map[string]string{"Events": "List EventG", "Resp": "Option Nat", "Err": "Option SPErr",
			"HRes": "Option SPErr × Option Nat", "Ctx": "Unit"},
		GoTy: map[string]string{"error": "Err"},
		Zero: map[string]string{"Err": "none"},
		Fields: map[string]irField{
			"Policy.waitDuration":        {Fmt: "(p.wait : Int)", Ty: "Int"},
			"Policy.MaxAttempts":         {Fmt: "p.maxAttempts", Ty: "Int"},
			"Policy.RandomizationFactor": {Fmt: "f", Ty: "F"},
		},
		Conv: map[string]irCall{
			"float64:Int":     {Fmt: "(A.ofInt %[1]s)", Ty: "F"},
			"int:F":           {Fmt: "(A.toInt %[1]s)", Ty: "Int"},
			"time.Duration:F": {Fmt: "(A.toInt %[1]s)", Ty: "Int"},
		},
		NumOps: map[string]irNumOps{"F": {Add: "(A.add %s %s)", Sub: "(A.sub %s %s)", Mul: "(A.mul %s %s)",
			OfInt: "(A.ofInt %s)", OfFloat: "(A.dec %[1]s %[2]s)"}},
		Funcs: map[string]irCall{
			// rand.Intn(n): the environment's answer for the current back-off (its contract 0 ≤ r < n is a
			// hypothesis of the duration theorems; n ≤ 0 panics — excluded by Validate, see notes)
			"rand.Intn": {Fmt: "(env.jitter nsel %[1]s)", Ty: "Int", NArgs: 1},
			// which clause of the select runs: the environment's choice
			"§select": {Fmt: "(env.done nsel)", Ty: "Bool", NArgs: 1},
		},
		EffFuncs: map[string]irEffCall{
			// handler(ctx): the ncalls-th call of the wrapped handler; it may replace spCtx.resp
			"(Handler)": {NArgs: 1, Fmt: "§tmp.1", Ty: "Err", Pre: []irLet{
				{"§tmp", "HRes", "(h ncalls sp_resp)"},
				{"events", "Events", "(events ++ [EventG.call ncalls])"},
				{"sp_resp", "Resp", "§tmp.2"},
				{"ncalls", "Nat", "(ncalls + 1)"}}},
		},
		SelectComm: []irComm{{"<-Ctx.Done", "§ctxDone"}, {"<-time.After", "§timeAfter"}},
		StmtFuncs: map[string]irStmtCall{
			"§ctxDone": {NArgs: 0, Lets: []irLet{{"events", "Events", "(events ++ [EventG.stop nsel])"}, {"nsel", "Nat", "(nsel + 1)"}}},
			"§timeAfter": {NArgs: 1, Lets: []irLet{{"events", "Events", "(events ++ [EventG.sleep nsel %[1]s])"},
				{"nsel", "Nat", "(nsel + 1)"}}},
		},
		Hook: func(t *irT, e ast.Expr, env *irEnv) (irTerm, bool, error) {
			// p.BackOffPolicy == "exponential"  (the model keeps the policy as a Bool)
			if be, ok := e.(*ast.BinaryExpr); ok && be.Op == token.EQL {
				if se, ok := be.X.(*ast.SelectorExpr); ok && se.Sel.Name == "BackOffPolicy" {
					if bl, ok := be.Y.(*ast.BasicLit); ok && bl.Kind == token.STRING && bl.Value == `"exponential"` {
						if rx, err := t.tryExpr(se.X, env); err == nil && rx.Ty == "Policy" {
							return irTerm{"p.exponential", "Bool"}, true, nil
						}
					}
				}
			}
			return irTerm{}, false, nil
		},
		Ret: func(v []irTerm) (string, error) {
			if len(v) != 1 {
				return "", errUnsupportedReturn
			}
			switch v[0].Ty {
			case "nil":
				return run("none"), nil
			case "Err":
				return run(v[0].S), nil
			}
			return "", errUnsupportedReturn
		},
	}
}

func c10CreateWrapperSpec() *irSpec {
	return &irSpec{
		Name:    "createWrapperIR",
		Binders: "(wd0 : Int) (ws : String) (parse : String → Int × Bool)",
		BNames:  []string{"wd0", "ws", "parse"},
		RetTy:   "Int",
		Recv:    irTerm{"()", "Policy"},
		State:   []irLet{{"wd", "Int", "wd0"}},
		Fields: map[string]irField{
			"Policy.WaitDuration": {Fmt: "ws", Ty: "String"},
			"Policy.waitDuration": {Fmt: "wd", Ty: "Int", State: true},
		},
		Funcs:  map[string]irCall{"time.ParseDuration": {Fmt: "(parse %[1]s)", Ty: "Int × Error", NArgs: 1}},
		Consts: map[string]irTerm{"time.Millisecond": {"1000000", "Int"}},
		Ret: func(v []irTerm) (string, error) {
			if len(v) != 1 || v[0].Ty != "Policy" {
				return "", errUnsupportedReturn
			}
			return "wd", nil
		},
	}
}

// c10PoolSpec: shared tables of doHandle / handle / the handler closure.
func c10PoolSpec(r *Repo, name string) (*irSpec, error) {
	consts := map[string]irTerm{
		"http.StatusServiceUnavailable":  {"503", "Nat"}, // net/http constants (standard library)
		"http.StatusInternalServerError": {"500", "Nat"},
		"http.StatusRequestTimeout":      {"408", "Nat"},
		"stdcontext.DeadlineExceeded":    {"CtxErr.deadline", "CtxE"},
		"stdcontext.Canceled":            {"CtxErr.canceled", "CtxE"},
		"resilience.ErrShortCircuited":   {"HErr.shortCircuited", "HErr"},
	}
	for _, c := range []string{"resultInternalError", "resultClientError", "resultServerError", "resultFailureCode", "resultTimeout", "resultShortCircuited"} {
		e, err := r.PkgValue("pkg/filters/proxy/proxy.go", c)
		if err != nil {
			return nil, err
		}
		bl, ok := e.(*ast.BasicLit)
		if !ok || bl.Kind != token.STRING {
			return nil, fmt.Errorf("%s is not a string literal", c)
		}
		v, err := strconv.Unquote(bl.Value)
		if err != nil {
			return nil, err
		}
		consts[c] = irTerm{Str(v), "String"}
	}
	unit := func(ty string) irField { return irField{Fmt: "()", Ty: ty} }
	s := &irSpec{
		Name: name,
		LeanTy: map[string]string{"Resp": "Option Nat", "CtxE": "CtxErr", "Svr": "Bool", "FC": "List Nat", "MC": "Option Unit",
			"StdCtx": "Unit", "SPCtx": "Unit", "Pool": "Unit", "LB": "Unit", "Req": "Unit", "StdReq": "Unit", "StdResp": "Unit",
			"Proxy": "Unit", "Client": "Unit", "Stat": "Unit", "Cache": "Unit", "Spec": "Unit", "PCtx": "Unit", "Span": "Unit",
			"RetryW": "Option RetryPolicy", "CBW": "Bool"},
		Consts:      consts,
		AllowShadow: true,
		Fields: map[string]irField{
			"SPCtx.req": unit("Req"), "SPCtx.stdReq": unit("StdReq"), "Pool.proxy": unit("Proxy"), "Proxy.client": unit("Client"),
			"SPCtx.stdResp":      {Fmt: "sp_stdResp", Ty: "StdResp", State: true},
			"SPCtx.resp":         {Fmt: "sp_resp", Ty: "Resp", State: true},
			"Pool.failureCodes":  {Fmt: "fc", Ty: "FC"},
			"Pool.memoryCache":   {Fmt: "(none : Option Unit)", Ty: "MC"},
			"StdResp.StatusCode": {Fmt: "o.status", Ty: "Nat"},
		},
		Methods: map[string]irCall{
			"Pool.LoadBalancer":    {Fmt: "()", Ty: "LB", NArgs: 0},
			"LB.ChooseServer":      {Fmt: "o.noServer", Ty: "Svr", NArgs: 1}, // Svr = "is nil"
			"SPCtx.prepareRequest": {Fmt: "o.prepareFails", Ty: "Error", NArgs: 3},
			"StdReq.Context":       {Fmt: "()", Ty: "StdCtx", NArgs: 0},
			"StdCtx.Err":           {Fmt: "o.ctxErr", Ty: "CtxE", NArgs: 0},
		},
		Funcs: map[string]irCall{
			"fnSendRequest":           {Fmt: "((), o.sendFails)", Ty: "StdResp × Error", NArgs: 2},
			"gohttpstat.WithHTTPStat": {Fmt: "()", Ty: "StdCtx", NArgs: 2},
		},
		EffMethods: map[string]irEffCall{
			// buildResponse assigns spCtx.resp only when it succeeds
			"Pool.buildResponse": {NArgs: 1, Fmt: "o.buildFails", Ty: "Error",
				Pre: []irLet{{"sp_resp", "Resp", "(if o.buildFails then sp_resp else some o.status)"}}},
		},
		StmtMethods: map[string]irStmtCall{
			"Stat.End": {NArgs: -1}, "SPCtx.LazyAddTag": {NArgs: -1}, "SPCtx.AddTag": {NArgs: -1}, "MC.Store": {NArgs: -1},
		},
		Index: map[string]irCall{"FC": {Fmt: "((), %[1]s.contains %[2]s)", Ty: "Unit × Bool"}},
		Ignore: func(src string, s ast.Stmt) bool {
			if es, ok := s.(*ast.ExprStmt); ok {
				if ce, ok := es.X.(*ast.CallExpr); ok {
					if se, ok := ce.Fun.(*ast.SelectorExpr); ok {
						if id, ok := se.X.(*ast.Ident); ok && id.Name == "logger" {
							return true
						}
					}
				}
			}
			return false
		},
	}
	s.Hook = func(t *irT, e ast.Expr, env *irEnv) (irTerm, bool, error) {
		switch x := e.(type) {
		case *ast.CompositeLit:
			// serverPoolError{code, result}
			if t.r.Src(x.Type) == "serverPoolError" && len(x.Elts) == 2 {
				c, err := t.expr(x.Elts[0], env)
				if err != nil {
					return irTerm{}, true, err
				}
				m, err := t.expr(x.Elts[1], env)
				if err != nil {
					return irTerm{}, true, err
				}
				if (c.Ty != "Nat" && c.Ty != "lit") || m.Ty != "String" {
					return irTerm{}, true, fmt.Errorf("serverPoolError{%s, %s}", c.Ty, m.Ty)
				}
				return irTerm{"(⟨" + c.S + ", " + m.S + "⟩ : SPErr)", "SPErr"}, true, nil
			}
		case *ast.UnaryExpr:
			// &gohttpstat.Result{}
			if cl, ok := x.X.(*ast.CompositeLit); ok && x.Op == token.AND && t.r.Src(cl.Type) == "gohttpstat.Result" && len(cl.Elts) == 0 {
				return irTerm{"()", "Stat"}, true, nil
			}
		case *ast.BinaryExpr:
			// x == nil / x != nil for the "is nil" Bool (Svr) and the context error enumeration (CtxE)
			if x.Op == token.EQL || x.Op == token.NEQ {
				other := x.X
				if c10IsNil(x.X) {
					other = x.Y
				} else if !c10IsNil(x.Y) {
					return irTerm{}, false, nil
				}
				o, err := t.tryExpr(other, env)
				if err != nil {
					return irTerm{}, false, nil
				}
				var is string
				switch o.Ty {
				case "Svr":
					is = o.S
				case "CtxE":
					is = "(" + o.S + " == CtxErr.none)"
				default:
					return irTerm{}, false, nil
				}
				if x.Op == token.NEQ {
					is = "(!" + is + ")"
				}
				return irTerm{is, "Bool"}, true, nil
			}
		}
		return irTerm{}, false, nil
	}
	return s, nil
}

// c10HandleCommon: what ServerPool.handle needs on top of c10PoolSpec.
func c10HandleCommon(s *irSpec) {
	s.LeanTy["Events"], s.LeanTy["Recs"], s.LeanTy["HErr?"], s.LeanTy["Time"] = "List Event", "List Bool", "Option HErr", "Unit"
	s.Consts["resilience.ErrShortCircuited"] = irTerm{"(some HErr.shortCircuited)", "HErr?"}
	s.Fields["Pool.retryWrapper"] = irField{Fmt: "pool.retry", Ty: "RetryW"}
	s.Fields["Pool.circuitBreakerWrapper"] = irField{Fmt: "pool.hasCB", Ty: "CBW"}
	s.Fields["SPCtx.startTime"] = irField{Fmt: "sp_start", Ty: "Time", State: true}
	s.Fields["SPErr.code"] = irField{Fmt: "%s.code", Ty: "Nat"}
	s.Funcs["fasttime.Now"] = irCall{Fmt: "()", Ty: "Time", NArgs: 0}
	s.Methods["Pool.buildResponseFromCache"] = irCall{Fmt: "false", Ty: "Bool", NArgs: 1} // cache miss
	s.Methods["Req.IsStream"] = irCall{Fmt: "stream", Ty: "Bool", NArgs: 0}
	s.Methods["Req.Context"] = irCall{Fmt: "()", Ty: "StdCtx", NArgs: 0}
	s.Methods["RetryW.Wrap"] = irCall{Fmt: "(match %[1]s with | some rp__ => HF.retry rp__ %[2]s | none => %[2]s)", Ty: "HF", NArgs: 1}
	s.Methods["CBW.Wrap"] = irCall{Fmt: "(HF.cb %[2]s)", Ty: "HF", NArgs: 1}
	s.Methods["SPErr.Result"] = irCall{Fmt: "%[1]s.result", Ty: "String", NArgs: 0}
	s.StmtMethods["Pool.handleMirror"] = irStmtCall{NArgs: 1}
	s.StmtMethods["Pool.buildFailureResponse"] = irStmtCall{NArgs: 2, Lets: []irLet{{"sp_resp", "Resp", "(some %[3]s)"}}}
	s.EffFuncs = map[string]irEffCall{
		// handler(ctx): run the composed handler once
		"(HF)": {NArgs: 1, Fmt: "§tmp.err", Ty: "HErr?", Pre: []irLet{
			{"§tmp", "RunH", "(runHF pool.failureCodes env permitted %[1]s)"},
			{"events", "Events", "§tmp.events"}, {"sp_resp", "Resp", "§tmp.resp"},
			{"acq", "Nat", "§tmp.acq"}, {"recs", "Recs", "§tmp.recs"}}},
	}
	baseIgnore := s.Ignore
	s.Ignore = func(src string, st ast.Stmt) bool {
		if _, ok := st.(*ast.DeferStmt); ok {
			return true // collectMetrics / cancel / span.Finish: no effect on what is modelled
		}
		return baseIgnore(src, st)
	}
	baseHook := s.Hook
	s.Hook = func(t *irT, e ast.Expr, env *irEnv) (irTerm, bool, error) {
		switch x := e.(type) {
		case *ast.FuncLit:
			return irTerm{"HF.base", "HF"}, true, nil // the closure around doHandle (translated separately: handlerIR)
		case *ast.UnaryExpr:
			if cl, ok := x.X.(*ast.CompositeLit); ok && x.Op == token.AND && t.r.Src(cl.Type) == "serverPoolContext" {
				return irTerm{"()", "SPCtx"}, true, nil
			}
		case *ast.TypeAssertExpr:
			// err.(serverPoolError)
			if x.Type != nil && t.r.Src(x.Type) == "serverPoolError" {
				if v, err := t.tryExpr(x.X, env); err == nil && v.Ty == "HErr?" {
					return irTerm{"(match " + v.S + " with | some (HErr.spe e__) => (e__, true) | _ => ((⟨0, \"\"⟩ : SPErr), false))", "SPErr × Bool"}, true, nil
				}
			}
		case *ast.BinaryExpr:
			// sp.circuitBreakerWrapper != nil  (the model keeps "has a breaker" as a Bool)
			if (x.Op == token.EQL || x.Op == token.NEQ) && c10IsNil(x.Y) {
				if v, err := t.tryExpr(x.X, env); err == nil && v.Ty == "CBW" {
					if x.Op == token.EQL {
						return irTerm{"(!" + v.S + ")", "Bool"}, true, nil
					}
					return irTerm{v.S, "Bool"}, true, nil
				}
			}
		}
		return baseHook(t, e, env)
	}
}

func init() {
	register(Extractor{Module: "FactsC10IR", Imports: []string{"EgVerif.Model.Retry"}, Run: func(r *Repo, w *Lean) error {
		const retryFile = "pkg/resilience/retry.go"
		w.Line("set_option linter.unusedVariables false")
		w.Line("open EgVerif.Retry")
		w.Line("")
		if err := irEmit(r, w, retryFile, "RetryPolicy", "Wrap", c10WrapSpec(),
			"The body of the returned closure. `A` = the float64 operations (opaque), `f` = `p.RandomizationFactor`, `h k resp` = the\n"+
				"`k`-th call of the wrapped handler (error, new `spCtx.resp`), `env.jitter k n` = `rand.Intn(n)` and `env.done k` = \"`<-ctx.Done()`\n"+
				"wins\" at the `k`-th `select`; `ncalls` / `nsel` count handler calls / selects."); err != nil {
			return err
		}
		return nil
	}})
	// CreateWrapper in a module of its own (FactsC10IRc): its obligation is named when only it changes
	register(Extractor{Module: "FactsC10IRc", Imports: []string{"EgVerif.Model.Retry"}, Run: func(r *Repo, w *Lean) error {
		const retryFile = "pkg/resilience/retry.go"
		w.Line("set_option linter.unusedVariables false")
		w.Line("open EgVerif.Retry")
		w.Line("")
		if err := irEmit(r, w, retryFile, "RetryPolicy", "CreateWrapper", c10CreateWrapperSpec(),
			"Result: `p.waitDuration` afterwards. `ws` = `p.WaitDuration`, `wd0` = `p.waitDuration` before, `parse` = `time.ParseDuration`."); err != nil {
			return err
		}
		return nil
	}})
	// pool.go in a module of its own (FactsC10IRp), so that a change there does not take the retry.go
	// obligations down with it (and vice versa)
	register(Extractor{Module: "FactsC10IRp", Imports: []string{"EgVerif.Model.Retry"}, Run: func(r *Repo, w *Lean) error {
		const poolFile = "pkg/filters/proxy/pool.go"
		w.Line("set_option linter.unusedVariables false")
		w.Line("open EgVerif.Retry")
		w.Line("")
		s, err := c10PoolSpec(r, "doHandleIR")
		if err != nil {
			return err
		}
		s.Binders, s.BNames, s.RetTy = "(fc : List Nat) (o : DoEnv) (resp0 : Option Nat)", []string{"fc", "o", "resp0"}, "Option SPErr × Option Nat"
		s.Recv = irTerm{"()", "Pool"}
		s.Params = []irTerm{{"()", "StdCtx"}, {"()", "SPCtx"}}
		s.State = []irLet{{"sp_resp", "Resp", "resp0"}, {"sp_stdResp", "StdResp", "()"}}
		s.Ret = func(v []irTerm) (string, error) {
			if len(v) != 1 {
				return "", errUnsupportedReturn
			}
			switch v[0].Ty {
			case "nil":
				return "(none, sp_resp)", nil
			case "SPErr":
				return "(some " + v[0].S + ", sp_resp)", nil
			}
			return "", errUnsupportedReturn
		}
		if err := irEmit(r, w, poolFile, "ServerPool", "doHandle", s,
			"`o : DoEnv` = what the environment answers (no server / prepare fails / send fails with which context error / response\n"+
				"unusable / status code); result = (error, `spCtx.resp` afterwards)."); err != nil {
			return err
		}

		// --- ServerPool.handle (mirror = false, memory-cache miss — as the model)
		s, err = c10PoolSpec(r, "handleIR")
		if err != nil {
			return err
		}
		c10HandleCommon(s)
		s.Binders, s.BNames, s.RetTy = "(pool : Pool) (stream permitted : Bool) (env : Env)", []string{"pool", "stream", "permitted", "env"}, "HandleOut"
		s.Recv = irTerm{"()", "Pool"}
		s.Params = []irTerm{{"()", "PCtx"}, {"false", "Bool"}}
		s.State = []irLet{{"events", "Events", "([] : List Event)"}, {"sp_resp", "Resp", "(none : Option Nat)"}, {"acq", "Nat", "0"},
			{"recs", "Recs", "([] : List Bool)"}, {"sp_start", "Time", "()"}}
		out := func(res string) string { return "(⟨events, " + res + ", sp_resp, acq, recs⟩ : HandleOut)" }
		s.Panic = "(⟨[], \"panic\", none, 0, []⟩ : HandleOut)"
		s.Ret = func(v []irTerm) (string, error) {
			if len(v) != 1 || v[0].Ty != "String" {
				return "", errUnsupportedReturn
			}
			return out(v[0].S), nil
		}
		if err := irEmit(r, w, poolFile, "ServerPool", "handle", s,
			"Specialised to `mirror = false` and a memory-cache miss. `handler` is a value of `HF` (which wrappers were applied, in which\n"+
				"order); calling it is the model's `runHF`. Result: events, result string, status of `spCtx.resp`, breaker acquires / records."); err != nil {
			return err
		}

		// --- the handler closure inside ServerPool.handle
		s, err = c10PoolSpec(r, "handlerIR")
		if err != nil {
			return err
		}
		c10HandleCommon(s)
		s.Binders, s.BNames, s.RetTy = "(timeout : Int) (resp0 : Option Nat)", []string{"timeout", "resp0"}, "Bool × Option Nat × Bool"
		s.Recv = irTerm{"()", "Pool"}
		s.Params = []irTerm{{"()", "PCtx"}, {"false", "Bool"}}
		s.Closure = &irClosure{Local: true, AsLocals: true, Params: []irTerm{{"false", "DCtx"}}, FreeByTy: map[string]string{"SPCtx": "()"}}
		s.State = []irLet{{"sp_resp", "Resp", "resp0"}, {"sp_stdReq", "OptU", "(some ())"}, {"sp_stdResp", "OptU", "(some ())"},
			{"sp_span", "Span", "()"}, {"sp_start", "Time", "()"}}
		s.LeanTy["DCtx"], s.LeanTy["OptU"], s.LeanTy["Cancel"] = "Bool", "Option Unit", "Unit"
		s.GoTy = map[string]string{"stdcontext.CancelFunc": "Cancel"}
		s.Zero = map[string]string{"Cancel": "()"}
		s.Fields["SPCtx.stdReq"] = irField{Fmt: "sp_stdReq", Ty: "OptU", State: true}
		s.Fields["SPCtx.stdResp"] = irField{Fmt: "sp_stdResp", Ty: "OptU", State: true}
		s.Fields["SPCtx.span"] = irField{Fmt: "sp_span", Ty: "Span", State: true}
		s.Fields["Pool.timeout"] = irField{Fmt: "timeout", Ty: "Int"}
		s.Fields["Pool.spec"] = irField{Fmt: "()", Ty: "Spec"}
		s.Fields["Spec.SpanName"] = irField{Fmt: "\"\"", Ty: "String"}
		s.Fields["Pool.name"] = irField{Fmt: "\"\"", Ty: "String"}
		// DCtx = "the context carries the pool's deadline"
		s.Funcs["stdcontext.WithTimeout"] = irCall{Fmt: "(true, ())", Ty: "DCtx × Cancel", NArgs: 2}
		s.Methods["PCtx.Span"] = irCall{Fmt: "()", Ty: "Span", NArgs: 0}
		s.Methods["Span.NewChild"] = irCall{Fmt: "()", Ty: "Span", NArgs: 1}
		s.Methods["Pool.doHandle"] = irCall{Fmt: "%[2]s", Ty: "DoCall", NArgs: 2}
		s.LeanTy["DoCall"] = "Bool"
		s.Ret = func(v []irTerm) (string, error) {
			if len(v) != 1 {
				return "", errUnsupportedReturn
			}
			switch v[0].Ty {
			case "DoCall":
				return "(" + v[0].S + ", sp_resp, sp_stdReq.isNone && sp_stdResp.isNone)", nil
			case "String": // returns of the statements in front of the closure (their translation is dropped)
				return "(false, none, false)", nil
			}
			return "", errUnsupportedReturn
		}
		return irEmit(r, w, poolFile, "ServerPool", "handle", s,
			"The closure `handler := func(stdctx) error {…}` inside `handle`, up to its call of `doHandle`: result = (the context handed to\n"+
				"`doHandle` carries the pool's deadline, `spCtx.resp` at that point, `stdReq` and `stdResp` are reset).")
	}})
}
