package main

// Regenerated tie by translation for C15 (irlib.go, notes/IR.md): the bodies of
//   Broker.sendMsgToClient            (broker.go)  → sendIR        = Model/Delivery.send (+ the nil-map exit of fanout)
//   topicNode.addClients              (topic.go)   → addClientsIR  = Model/Topic.addMax (left fold keeping the maximum)
//   processPublish                    (client.go)  → processPublishIR = the PUBACK part of SessionQueue.onPublish
//   Session.getPacketFromMsg          (session.go) → getPacketIR   = (pkt i m, (i+1) % 65536) with i = freeId pending nextID
//                                                      (repaired: ids still pending are skipped, bounded loop)
//   Session.publish                   (session.go) → publishIR     = Model/SessionQueue.publish
//   Session.puback                    (session.go) → pubackIR      = SessionQueue.puback
//   Session.doResend                  (session.go) → doResendIR    = SessionQueue.doResend
// `<fn>_regenerated_from_source` (Proofs/SessionQueueIR.lean, re-exported from Props/C15.lean) prove the
// generated definitions equal to the hand-written model for all inputs.
//
// Mapping (stated here, visible in the generated file):
//   * Go maps are association lists in iteration order (`subscribers`: the visiting order of this call;
//     `pending`: alGet / alSet / alErase of Model/Topic.lean); `uint16` is `Nat` with `+` taken mod 65536;
//   * `b.getClient(id)` is the oracle `conn id` (fan-out) resp. `online` (session); `findSubscribers` is the
//     parameter pair (subs, subsNil) — its own body is C14's;
//   * a written packet (blocking `client.writePacket(p)`, or the non-blocking `select { case client.writeCh <- p: default: }`
//     when the queue is not `full`) is appended to the output list; `session.publish(…)` in the fan-out appends
//     (client, qos) to the list of publish calls;
//   * `s.getPacketFromMsg` inside publish is the model-level `pkt nextID ⟨topic, payload, qos⟩` plus the counter
//     step (its own body is tied by getPacketIR); `newMsg` is the `Msg` constructor; the base64 round trip of the
//     pending payload is the identity and never fails (trusted: encoding/base64);
//   * mutex / logger statements are ignored (listed in the generated file).

import (
	"fmt"
	"go/ast"
	"strings"
)

func c15IgnoreStmt(src string, s ast.Stmt) bool {
	switch s.(type) {
	case *ast.ExprStmt, *ast.DeferStmt:
		for _, p := range []string{"logger.", "s.Lock()", "s.Unlock()", "defer s.Unlock()"} {
			if strings.HasPrefix(src, p) {
				return true
			}
		}
	}
	return false
}

// `packets.NewControlPacket(packets.Publish).(*packets.PublishPacket)` → a packet under construction
// (its fields are the state variables p_id, p_qos, p_topic, p_payload); `[]uint16{}` → [].
func c15Hook(t *irT, e ast.Expr, env *irEnv) (irTerm, bool, error) {
	switch x := e.(type) {
	case *ast.TypeAssertExpr:
		if t.r.Src(x) == "packets.NewControlPacket(packets.Publish).(*packets.PublishPacket)" {
			return irTerm{"()", "PktB"}, true, nil
		}
	case *ast.CompositeLit:
		if len(x.Elts) == 0 && t.r.Src(x.Type) == "[]uint16" {
			return irTerm{"[]", "List U16"}, true, nil
		}
	case *ast.BinaryExpr:
		// 1 << 16 (the bound of the id search loop in getPacketFromMsg): a constant
		if x.Op.String() == "<<" {
			if a, ok := x.X.(*ast.BasicLit); ok && a.Value == "1" {
				if b, ok := x.Y.(*ast.BasicLit); ok && b.Value == "16" {
					return irTerm{"(65536 : Int)", "Int"}, true, nil
				}
			}
		}
		// subscribers == nil  (the map returned by findSubscribers on an invalid topic)
		if id, ok := x.X.(*ast.Ident); ok && t.r.Src(x.Y) == "nil" {
			if v, ok := env.vars[id.Name]; ok && v.Ty == "SubsMap" {
				if x.Op.String() == "==" {
					return irTerm{"subsNil", "Bool"}, true, nil
				}
				return irTerm{"(!subsNil)", "Bool"}, true, nil
			}
		}
	}
	return irTerm{}, false, nil
}

// select { case client.writeCh <- p: default: }  →  the packet is written unless the queue is full.
func c15StmtHook(t *irT, s ast.Stmt, env *irEnv) ([]irLet, bool, error) {
	sel, ok := s.(*ast.SelectStmt)
	if !ok {
		return nil, false, nil
	}
	var send *ast.SendStmt
	hasDefault := false
	for _, c := range sel.Body.List {
		cc := c.(*ast.CommClause)
		if len(cc.Body) != 0 {
			return nil, true, fmt.Errorf("select clause with a body: %s", t.r.Src(cc))
		}
		if cc.Comm == nil {
			hasDefault = true
			continue
		}
		ss, ok := cc.Comm.(*ast.SendStmt)
		if !ok || send != nil {
			return nil, true, fmt.Errorf("unsupported select clause %s", t.r.Src(cc))
		}
		send = ss
	}
	if send == nil || !hasDefault || len(sel.Body.List) != 2 {
		return nil, true, fmt.Errorf("select is not {send; default}: %s", t.r.Src(sel))
	}
	ch, err := t.expr(send.Chan, env)
	if err != nil {
		return nil, true, err
	}
	if ch.Ty != "WriteCh" {
		return nil, true, fmt.Errorf("send on %s : %s", t.r.Src(send.Chan), ch.Ty)
	}
	v, err := t.expr(send.Value, env)
	if err != nil {
		return nil, true, err
	}
	if v.Ty != "Packet" {
		return nil, true, fmt.Errorf("sent value %s : %s", t.r.Src(send.Value), v.Ty)
	}
	return []irLet{{"out", "Pkts", fmt.Sprintf("(if full then out else out ++ [%s])", v.S)}}, true, nil
}

const c15Sess = "(⟨s_pending, s_queue, s_nextID⟩ : Sess)"
const c15Pkt = "(⟨p_id, p_qos, p_topic, p_payload⟩ : Packet)"

func c15SessSpec(name string) *irSpec {
	return &irSpec{
		Name:   name,
		Recv:   irTerm{"s", "Sess"},
		LeanTy: map[string]string{"U16": "Nat", "Payload": "String", "PendMap": "List (Nat × Msg)", "Pkts": "List Packet", "ClientPtr": "Option Unit", "PktB": "Unit", "Broker": "Unit", "Info": "Unit", "Cid": "Unit", "WriteCh": "Unit", "PubackPkt": "Nat"},
		Fields: map[string]irField{
			"Sess.broker":         {Fmt: "()", Ty: "Broker"},
			"Sess.info":           {Fmt: "()", Ty: "Info"},
			"Info.ClientID":       {Fmt: "()", Ty: "Cid"},
			"Sess.pending":        {Fmt: "s_pending", Ty: "PendMap", State: true},
			"Sess.pendingQueue":   {Fmt: "s_queue", Ty: "List U16", State: true},
			"Sess.nextID":         {Fmt: "s_nextID", Ty: "U16", State: true},
			"ClientPtr.writeCh":   {Fmt: "()", Ty: "WriteCh"},
			"Packet.MessageID":    {Fmt: "%s.id", Ty: "U16"},
			"PubackPkt.MessageID": {Fmt: "%s", Ty: "U16"},
			"PktB.Qos":            {Fmt: "p_qos", Ty: "Nat", State: true},
			"PktB.TopicName":      {Fmt: "p_topic", Ty: "String", State: true},
			"PktB.Payload":        {Fmt: "p_payload", Ty: "Payload", State: true},
			"PktB.MessageID":      {Fmt: "p_id", Ty: "U16", State: true},
			"Msg.QoS":             {Fmt: "%s.qos", Ty: "Nat"},
			"Msg.Topic":           {Fmt: "%s.topic", Ty: "String"},
			"Msg.B64Payload":      {Fmt: "%s.payload", Ty: "Payload"},
		},
		Methods: map[string]irCall{
			"Broker.getClient": {Fmt: "(clientOf online)", Ty: "ClientPtr", NArgs: 1},
		},
		Funcs: map[string]irCall{
			"newMsg":                          {Fmt: "(⟨%[1]s, %[2]s, %[3]s⟩ : Msg)", Ty: "Msg", NArgs: 3},
			"append:List U16":                 {Fmt: "(%[1]s ++ [%[2]s])", Ty: "List U16", NArgs: 2},
			"len:PendMap":                     {Fmt: "%[1]s.length", Ty: "Nat", NArgs: 1},
			"base64.StdEncoding.DecodeString": {Fmt: "(%[1]s, false)", Ty: "Payload × Error", NArgs: 1},
		},
		Consts:    map[string]irTerm{"QoS0": {"0", "Nat"}, "QoS1": {"1", "Nat"}, "QoS2": {"2", "Nat"}},
		Conv:      map[string]irCall{"byte:Nat": {Fmt: "%[1]s", Ty: "Nat"}},
		NumOps:    map[string]irNumOps{"U16": {Add: "((%s + %s) %% idMod)", OfInt: "%s"}},
		IndexSet:  map[string]string{"PendMap": "(alSet %[2]s %[3]s %[1]s)"},
		SliceFrom: map[string]irCall{"List U16": {Fmt: "(%[1]s.drop %[2]s)", Ty: "List U16"}},
		Ext:       irSpecExt{RangeKeyTy: "Nat", IndexOk: map[string]irCall{"PendMap": {Fmt: "(lookupMsg %[1]s %[2]s)", Ty: "Msg × Bool"}}},
		EffMethods: map[string]irEffCall{
			// p := s.getPacketFromMsg(topic, payload, qos): the packet carries the first id from the counter on that is
			// not pending (`freeId`, the repaired allocation tied by getPacketIR), the counter then steps past it
			"Sess.getPacketFromMsg": {NArgs: 3, Pre: []irLet{{"§tmp", "U16", "(freeId s_pending s_nextID)"}, {"s_nextID", "U16", "((§tmp + 1) %% idMod)"}},
				Fmt: "(pkt §tmp (⟨%[2]s, %[3]s, %[4]s⟩ : Msg))", Ty: "Packet"},
		},
		StmtFuncs: map[string]irStmtCall{
			"delete": {NArgs: 2, Lets: []irLet{{"%[1]s", "PendMap", "(alErase %[2]s %[1]s)"}}},
		},
		StmtMethods: map[string]irStmtCall{
			"ClientPtr.writePacket": {NArgs: 1, Lets: []irLet{{"out", "Pkts", "(out ++ [%[2]s])"}}},
		},
		Hook:     c15Hook,
		StmtHook: c15StmtHook,
		Ignore:   c15IgnoreStmt,
	}
}

func init() {
	// Three generated modules (round 3): a failed extraction of one Go function takes down only the obligations
	// of its own module, so that `bin/check` names the right obligation:
	//   FactsC15IRb  broker.go / topic.go : sendMsgToClient, addClients      (Proofs/FanoutIR.lean)
	//   FactsC15IRp  client.go            : processPublish                   (Proofs/ProcessPublishIR.lean)
	//   FactsC15IR   session.go           : getPacketFromMsg, publish, puback, doResend (Proofs/SessionQueueIR.lean)
	register(Extractor{Module: "FactsC15IRb", Imports: []string{"EgVerif.Model.Delivery"}, Run: func(r *Repo, w *Lean) error {
		w.Line("set_option linter.unusedVariables false")
		w.Line("open EgVerif.Topic")
		w.Line("")
		w.Line("/-- `b.getClient(id)`: nil unless the client is registered on this broker -/")
		w.Line("def getClientE (conn : Client → Bool) (c : Client) : Option Client := if conn c then some c else none")
		w.Line("")

		// Broker.sendMsgToClient
		s := &irSpec{
			Name:    "sendIR",
			Binders: "(conn : Client → Bool) (subs : List (Client × Nat)) (subsNil : Bool) (qos : Nat)",
			BNames:  []string{"conn", "subs", "subsNil", "qos"},
			RetTy:   "List (Client × Nat)",
			Recv:    irTerm{"()", "Broker"},
			Params:  []irTerm{{"()", "Span"}, {"()", "TopicStr"}, {"()", "Payload"}, {"qos", "Nat"}},
			State:   []irLet{{"out", "Calls", "[]"}},
			LeanTy:  map[string]string{"Calls": "List (Client × Nat)", "SubsMap": "List (Client × Nat)", "ClientPtr": "Option Client", "Client": "Client", "Broker": "Unit", "TopicMgr": "Unit", "Span": "Unit", "TopicStr": "Unit", "Payload": "Unit", "SessOf": "Option Client"},
			Fields: map[string]irField{
				"Broker.topicMgr":   {Fmt: "()", Ty: "TopicMgr"},
				"ClientPtr.session": {Fmt: "%s", Ty: "SessOf"},
			},
			Methods: map[string]irCall{
				"TopicMgr.findSubscribers": {Fmt: "(subs, false)", Ty: "SubsMap × Error", NArgs: 1},
				"Broker.getClient":         {Fmt: "(getClientE conn %[2]s)", Ty: "ClientPtr", NArgs: 1},
			},
			RangeKV: map[string][2]string{"SubsMap": {"Client", "Nat"}},
			StmtMethods: map[string]irStmtCall{
				// client.session.publish(span, topic, payload, qos): recorded as (client, qos)
				"SessOf.publish": {NArgs: 4, Lets: []irLet{{"out", "Calls", "(out ++ [(%[1]s.getD \"\", %[5]s)])"}}},
			},
			Hook:   c15Hook,
			Ignore: c15IgnoreStmt,
			Ret: func(v []irTerm) (string, error) {
				if len(v) != 0 {
					return "", errUnsupportedReturn
				}
				return "out", nil
			},
		}
		if err := irEmit(r, w, "pkg/object/mqttproxy/broker.go", "Broker", "sendMsgToClient", s,
			"`subs` / `subsNil`: the map returned by `findSubscribers` in this call's iteration order, and whether it is nil; result: the `session.publish` calls (client, qos) in order."); err != nil {
			return err
		}

		// topicNode.addClients (topic.go): the map `ans` is a parameter that the loop updates in place
		ac := &irSpec{
			Name:     "addClientsIR",
			Binders:  "(cls ans0 : List (Client × Nat))",
			BNames:   []string{"cls", "ans0"},
			RetTy:    "List (Client × Nat)",
			Recv:     irTerm{"()", "Node"},
			Params:   []irTerm{{"ans0", "AnsMap"}},
			LeanTy:   map[string]string{"Node": "Unit", "AnsMap": "List (Client × Nat)", "ClientsMap": "List (Client × Nat)", "Client": "Client"},
			Fields:   map[string]irField{"Node.clients": {Fmt: "cls", Ty: "ClientsMap"}},
			RangeKV:  map[string][2]string{"ClientsMap": {"Client", "Nat"}},
			Ext:      irSpecExt{IndexOk: map[string]irCall{"AnsMap": {Fmt: "(lookupQ %[1]s %[2]s)", Ty: "Nat × Bool"}}},
			IndexSet: map[string]string{"AnsMap": "(alSet %[2]s %[3]s %[1]s)"},
			Ret: func(v []irTerm) (string, error) {
				if len(v) != 0 {
					return "", errUnsupportedReturn
				}
				return "ans", nil
			},
		}
		w.Line("/-- `old, ok := ans[client]` -/")
		w.Line("def lookupQ (m : List (Client × Nat)) (c : Client) : Nat × Bool :=")
		w.Line("  match alGet c m with")
		w.Line("  | some q => (q, true)")
		w.Line("  | none => (0, false)")
		w.Line("")
		return irEmit(r, w, "pkg/object/mqttproxy/topic.go", "topicNode", "addClients", ac,
			"`cls` = `node.clients` in iteration order, `ans0` = the result map before the call; result: the map afterwards.")
	}})

	register(Extractor{Module: "FactsC15IRp", Imports: []string{"EgVerif.Model.SessionQueue"}, Run: func(r *Repo, w *Lean) error {
		w.Line("set_option linter.unusedVariables false")
		w.Line("open EgVerif.SessionQueue")
		w.Line("")
		// processPublish (client.go): the PUBACK for an inbound QoS1 PUBLISH (after limiter and pipeline passed)
		pp := &irSpec{
			Name:    "processPublishIR",
			Binders: "(qos : Nat) (i : Nat)",
			BNames:  []string{"qos", "i"},
			RetTy:   "List Nat",
			Params:  []irTerm{{"()", "ClientPtr"}, {"()", "CtlPkt"}},
			State:   []irLet{{"acks", "Acks", "[]"}, {"ack_id", "Nat", "0"}},
			LeanTy:  map[string]string{"ClientPtr": "Unit", "CtlPkt": "Unit", "PubPkt": "Unit", "AckB": "Unit", "Acks": "List Nat"},
			Fields: map[string]irField{
				"PubPkt.Qos":       {Fmt: "qos", Ty: "Nat"},
				"PubPkt.MessageID": {Fmt: "i", Ty: "Nat"},
				"AckB.MessageID":   {Fmt: "ack_id", Ty: "Nat", State: true},
			},
			Consts: map[string]irTerm{"QoS0": {"0", "Nat"}, "QoS1": {"1", "Nat"}, "QoS2": {"2", "Nat"}},
			StmtMethods: map[string]irStmtCall{
				"ClientPtr.writePacket": {NArgs: 1, Lets: []irLet{{"acks", "Acks", "(acks ++ [ack_id])"}}},
			},
			Hook: func(t *irT, e ast.Expr, env *irEnv) (irTerm, bool, error) {
				if ta, ok := e.(*ast.TypeAssertExpr); ok {
					switch t.r.Src(ta) {
					case "packet.(*packets.PublishPacket)":
						return irTerm{"()", "PubPkt"}, true, nil
					case "packets.NewControlPacket(packets.Puback).(*packets.PubackPacket)":
						return irTerm{"()", "AckB"}, true, nil
					}
				}
				return irTerm{}, false, nil
			},
			Ret: func(v []irTerm) (string, error) {
				if len(v) != 0 {
					return "", errUnsupportedReturn
				}
				return "acks", nil
			},
		}
		return irEmit(r, w, "pkg/object/mqttproxy/client.go", "", "processPublish", pp,
			"`qos`, `i` = the inbound PUBLISH packet's QoS and packet id; result: the ids of the PUBACK packets written.")
	}})

	register(Extractor{Module: "FactsC15IR", Imports: []string{"EgVerif.Model.SessionQueue"}, Run: func(r *Repo, w *Lean) error {
		w.Line("set_option linter.unusedVariables false")
		w.Line("open EgVerif.Topic EgVerif.SessionQueue")
		w.Line("")
		w.Line("/-- `s.broker.getClient(s.info.ClientID)` of the session's own client -/")
		w.Line("def clientOf (online : Bool) : Option Unit := if online then some () else none")
		w.Line("/-- `val, ok := s.pending[idx]` -/")
		w.Line("def lookupMsg (p : List (Nat × Msg)) (i : Nat) : Msg × Bool :=")
		w.Line("  match alGet i p with")
		w.Line("  | some m => (m, true)")
		w.Line("  | none => (⟨\"\", \"\", 0⟩, false)")
		w.Line("")
		const file = "pkg/object/mqttproxy/session.go"
		var s *irSpec
		// Session.getPacketFromMsg
		s = c15SessSpec("getPacketIR")
		s.Binders, s.BNames, s.RetTy = "(s : Sess) (m : Msg)", []string{"s", "m"}, "Packet × Nat"
		s.Params = []irTerm{{"m.topic", "String"}, {"m.payload", "Payload"}, {"m.qos", "Nat"}}
		s.State = []irLet{{"s_pending", "PendMap", "s.pending"}, {"s_nextID", "U16", "s.nextID"}, {"p_id", "U16", "0"}, {"p_qos", "Nat", "0"}, {"p_topic", "String", "\"\""}, {"p_payload", "Payload", "\"\""}}
		s.Ret = func(v []irTerm) (string, error) {
			if len(v) != 1 || v[0].Ty != "PktB" {
				return "", errUnsupportedReturn
			}
			return "(" + c15Pkt + ", s_nextID)", nil
		}
		if err := irEmit(r, w, file, "Session", "getPacketFromMsg", s, "Result: the packet and the new value of `nextID` (uint16: `+` is taken mod 65536)."); err != nil {
			return err
		}
		// Session.publish
		sessRet := func(v []irTerm) (string, error) {
			if len(v) != 0 {
				return "", errUnsupportedReturn
			}
			return "(" + c15Sess + ", out)", nil
		}
		sessState := []irLet{{"s_pending", "PendMap", "s.pending"}, {"s_queue", "List U16", "s.queue"}, {"s_nextID", "U16", "s.nextID"}, {"out", "Pkts", "[]"}}
		s = c15SessSpec("publishIR")
		s.Binders, s.BNames, s.RetTy = "(online full : Bool) (m : Msg) (s : Sess)", []string{"online", "full", "m", "s"}, "Sess × List Packet"
		s.Params = []irTerm{{"()", "Span"}, {"m.topic", "String"}, {"m.payload", "Payload"}, {"m.qos", "Nat"}}
		s.LeanTy["Span"] = "Unit"
		s.State, s.Ret = sessState, sessRet
		if err := irEmit(r, w, file, "Session", "publish", s,
			"`online` = `getClient != nil`, `full` = the client's `writeCh` is full at the non-blocking send; result: new session state and the packets written."); err != nil {
			return err
		}
		// Session.puback
		s = c15SessSpec("pubackIR")
		s.Binders, s.BNames, s.RetTy = "(i : Nat) (s : Sess)", []string{"i", "s"}, "Sess"
		s.Params = []irTerm{{"i", "PubackPkt"}}
		s.State = sessState[:3]
		s.Ret = func(v []irTerm) (string, error) {
			if len(v) != 0 {
				return "", errUnsupportedReturn
			}
			return c15Sess, nil
		}
		if err := irEmit(r, w, file, "Session", "puback", s, "`i` = `p.MessageID`."); err != nil {
			return err
		}
		// Session.doResend
		s = c15SessSpec("doResendIR")
		s.Binders, s.BNames, s.RetTy = "(online : Bool) (s : Sess)", []string{"online", "s"}, "Sess × List Packet"
		s.Params = nil
		s.State = append(append([]irLet{}, sessState...), irLet{"p_id", "U16", "0"}, irLet{"p_qos", "Nat", "0"}, irLet{"p_topic", "String", "\"\""}, irLet{"p_payload", "Payload", "\"\""})
		s.Ret = sessRet
		s.StmtMethods["ClientPtr.writePacket"] = irStmtCall{NArgs: 1, Lets: []irLet{{"out", "Pkts", "(out ++ [" + c15Pkt + "])"}}}
		return irEmit(r, w, file, "Session", "doResend", s,
			"The packet `p` is built field by field (state variables p_id, p_qos, p_topic, p_payload); the loop index `i` is threaded as a counter.")
	}})
}
