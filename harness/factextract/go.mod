module factextract

go 1.17
