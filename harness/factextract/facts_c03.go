package main

// Facts for C03: the hop-by-hop table and the statements of the modelled
// functions that the Lean model transcribes (so that an edit of any of them
// breaks a proof obligation until the model is looked at again).

import (
	"fmt"
	"go/ast"
	"go/token"
	"strings"
)

func stmtIndex(r *Repo, body *ast.BlockStmt, needle string) int {
	for i, s := range body.List {
		if strings.Contains(r.Src(s), needle) {
			return i
		}
	}
	return -1
}

func init() {
	register(Extractor{Module: "FactsC03", Run: func(r *Repo, w *Lean) error {
		const pool = "pkg/filters/proxy/pool.go"
		v, err := r.PkgValue(pool, "hopHeaders")
		if err != nil {
			return err
		}
		hop, err := StringList(v)
		if err != nil {
			return fmt.Errorf("hopHeaders: %v", err)
		}
		w.Line("/-- pool.go `var hopHeaders` -/")
		w.Line("def hopHeaders : List String := %s", StrList(hop))

		ch, err := r.Func(pool, "", "cloneHeader")
		if err != nil {
			return err
		}
		var stmts []string
		for _, s := range ch.Body.List {
			stmts = append(stmts, r.Src(s))
		}
		w.Line("/-- the statements of `cloneHeader` -/")
		w.Line("def cloneHeaderBody : List String := %s", StrList(stmts))

		pr, err := r.Func(pool, "serverPoolContext", "prepareRequest")
		if err != nil {
			return err
		}
		urlStmt, hostStmt, hdrStmt := "", "", ""
		ast.Inspect(pr.Body, func(n ast.Node) bool {
			switch s := n.(type) {
			case *ast.AssignStmt:
				src := r.Src(s)
				if strings.HasPrefix(src, "url := ") {
					urlStmt = src
				}
				if strings.HasPrefix(src, "stdr.Header = ") {
					hdrStmt = src
				}
			case *ast.IfStmt:
				if strings.Contains(r.Src(s.Body), "stdr.Host = ") {
					hostStmt = r.Src(s)
				}
			}
			return true
		})
		w.Line("def prepareURL : String := %s", Str(urlStmt))
		w.Line("def prepareHeader : String := %s", Str(hdrStmt))
		w.Line("def prepareHost : String := %s", Str(hostStmt))
		qIdx := stmtIndex(r, pr.Body, "req.Std().URL.RawQuery")
		q := ""
		if qIdx >= 0 {
			q = r.Src(pr.Body.List[qIdx])
		}
		w.Line("def prepareQuery : String := %s", Str(q))

		ca, err := r.Func("pkg/filters/proxy/server.go", "Server", "checkAddrPattern")
		if err != nil {
			return err
		}
		stmts = nil
		for _, s := range ca.Body.List {
			stmts = append(stmts, r.Src(s))
		}
		w.Line("/-- the statements of `checkAddrPattern` -/")
		w.Line("def checkAddrBody : List String := %s", StrList(stmts))

		cp, err := r.Func("pkg/filters/proxy/compression.go", "compression", "compress")
		if err != nil {
			return err
		}
		stmts = nil
		for _, s := range cp.Body.List {
			stmts = append(stmts, r.Src(s))
		}
		w.Line("/-- the statements of `compression.compress` -/")
		w.Line("def compressBody : List String := %s", StrList(stmts))

		br, err := r.Func(pool, "ServerPool", "buildResponse")
		if err != nil {
			return err
		}
		iComp := stmtIndex(r, br.Body, "sp.proxy.compression.compress(")
		iCb := stmtIndex(r, br.Body, "readers.NewCallbackReader(")
		iFetch := stmtIndex(r, br.Body, "resp.FetchPayload(maxBodySize)")
		w.Line("/-- buildResponse: compression, then the CallbackReader wrapper (outermost), then FetchPayload -/")
		w.Line("def buildResponseOrder : Bool := %s", Bool(iComp >= 0 && iCb > iComp && iFetch > iCb))

		ra, err := r.Func("pkg/filters/responseadaptor/responseadaptor.go", "ResponseAdaptor", "Handle")
		if err != nil {
			return err
		}
		bodyBlock := ""
		ast.Inspect(ra.Body, func(n ast.Node) bool {
			if is, ok := n.(*ast.IfStmt); ok && r.Src(is.Cond) == "len(ra.spec.Body) != 0" {
				bodyBlock = r.Src(is.Body)
			}
			return true
		})
		w.Line("/-- ResponseAdaptor.Handle: the block executed when `body:` is configured -/")
		w.Line("def respAdaptorBodyBlock : String := %s", Str(bodyBlock))
		for _, fn := range []string{"compress", "decompress"} {
			fd, err := r.Func("pkg/filters/responseadaptor/responseadaptor.go", "ResponseAdaptor", fn)
			if err != nil {
				return err
			}
			src := r.Src(fd.Body)
			ok := strings.Contains(src, "resp.SetPayload(zr) resp.HTTPHeader().Del(keyContentLength)") &&
				strings.Contains(src, "resp.SetPayload(data) resp.HTTPHeader().Set(keyContentLength, strconv.Itoa(len(data)))")
			w.Line("/-- ResponseAdaptor.%s: stream ⇒ Del(Content-Length); buffered ⇒ Set(Content-Length, len(data)) -/", fn)
			w.Line("def respAdaptor_%s_setsLength : Bool := %s", fn, Bool(ok))
		}

		fp, err := r.Func("pkg/protocols/httpprot/response.go", "Response", "FetchPayload")
		if err != nil {
			return err
		}
		iStream := stmtIndex(r, fp.Body, "maxPayloadSize < 0")
		iHead := stmtIndex(r, fp.Body, "stdr.Request.Method == http.MethodHead")
		iLarge := stmtIndex(r, fp.Body, "stdr.ContentLength > maxPayloadSize")
		w.Line("/-- Response.FetchPayload: stream branch, then the HEAD guard, then the size checks -/")
		w.Line("def fetchPayloadHeadGuard : Bool := %s", Bool(iStream >= 0 && iHead > iStream && iLarge > iHead))

		// ---- memory cache: a hit answers from a copy of the entry, Store snapshots a copy
		bc, err := r.Func(pool, "ServerPool", "buildResponseFromCache")
		if err != nil {
			return err
		}
		stmts = nil
		for _, s := range bc.Body.List {
			stmts = append(stmts, r.Src(s))
		}
		w.Line("/-- the statements of `buildResponseFromCache` -/")
		w.Line("def cacheHitBody : List String := %s", StrList(stmts))
		st, err := r.Func("pkg/filters/proxy/memorycache.go", "MemoryCache", "Store")
		if err != nil {
			return err
		}
		entry := ""
		ast.Inspect(st.Body, func(n ast.Node) bool {
			if cl, ok := n.(*ast.CompositeLit); ok && r.Src(cl.Type) == "CacheEntry" {
				entry = r.Src(cl)
			}
			return true
		})
		w.Line("/-- the entry `MemoryCache.Store` creates -/")
		w.Line("def cacheStoreEntry : String := %s", Str(entry))
		dh, err := r.Func(pool, "ServerPool", "doHandle")
		if err != nil {
			return err
		}
		iBuild := stmtIndex(r, dh.Body, "sp.buildResponse(spCtx)")
		iStore := stmtIndex(r, dh.Body, "sp.memoryCache.Store(spCtx.req, spCtx.resp)")
		w.Line("/-- doHandle stores the response right after buildResponse, i.e. before any later filter runs -/")
		w.Line("def cacheStoreAfterBuild : Bool := %s", Bool(iBuild >= 0 && iStore > iBuild))

		// ---- retries: Request.GetPayload hands out a NEW reader over the buffered bytes on every call (the
		// stream reader only for stream requests, which are never retried); doHandle - the function the retry
		// wrapper calls once per attempt - runs prepareRequest itself
		gp, err := r.Func("pkg/protocols/httpprot/request.go", "Request", "GetPayload")
		if err != nil {
			return err
		}
		fresh, sharedOnlyForStream := false, true
		if n := len(gp.Body.List); n > 0 {
			fresh = r.Src(gp.Body.List[n-1]) == "return bytes.NewReader(r.payload)"
		}
		ast.Inspect(gp.Body, func(x ast.Node) bool {
			if rs, ok := x.(*ast.ReturnStmt); ok && len(rs.Results) == 1 {
				src := r.Src(rs.Results[0])
				if src != "bytes.NewReader(r.payload)" && src != "http.NoBody" && src != "r.stream" {
					sharedOnlyForStream = false
				}
			}
			return true
		})
		w.Line("/-- `Request.GetPayload` ends in `return bytes.NewReader(r.payload)` and returns nothing but that, `http.NoBody` or the stream -/")
		w.Line("def getPayloadFresh : Bool := %s", Bool(fresh && sharedOnlyForStream))
		w.Line("/-- `doHandle` (one call per attempt) calls `spCtx.prepareRequest(…)` itself -/")
		w.Line("def prepareInsideDoHandle : Bool := %s", Bool(r.CountCalls(dh.Body, "spCtx.prepareRequest") == 1))

		// ---- gzip compress reader: every reader owns a fresh writer over its own buffer, no package-level state,
		// Close does not touch writer or buffer (it is called more than once per compressed response)
		const gzf = "pkg/util/readers/gzipcompressreader.go"
		ngz, err := r.Func(gzf, "", "NewGZipCompressReader")
		if err != nil {
			return err
		}
		ownBuf, ownGw := false, false
		ast.Inspect(ngz.Body, func(x ast.Node) bool {
			switch y := x.(type) {
			case *ast.AssignStmt:
				if y.Tok == token.DEFINE && len(y.Lhs) == 1 && len(y.Rhs) == 1 && r.Src(y.Lhs[0]) == "buff" && r.Src(y.Rhs[0]) == "bytes.NewBuffer(nil)" {
					ownBuf = true
				}
			case *ast.KeyValueExpr:
				if r.Src(y.Key) == "gw" && r.Src(y.Value) == "gzip.NewWriter(buff)" {
					ownGw = true
				}
			}
			return true
		})
		w.Line("/-- NewGZipCompressReader: `buff := bytes.NewBuffer(nil)`, `gw: gzip.NewWriter(buff)` -/")
		w.Line("def gzipWriterOwned : Bool := %s", Bool(ownBuf && ownGw))
		gf, err := r.File(gzf)
		if err != nil {
			return err
		}
		var pkgVars []string
		for _, d := range gf.Decls {
			if gd, ok := d.(*ast.GenDecl); ok && gd.Tok == token.VAR {
				for _, sp := range gd.Specs {
					for _, n := range sp.(*ast.ValueSpec).Names {
						pkgVars = append(pkgVars, n.Name)
					}
				}
			}
		}
		w.Line("/-- package-level variables of gzipcompressreader.go: %v -/", pkgVars)
		w.Line("def gzipNoPackageState : Bool := %s", Bool(len(pkgVars) == 1 && pkgVars[0] == "bodyFlushSize"))
		gcl, err := r.Func(gzf, "GZipCompressReader", "Close")
		if err != nil {
			return err
		}
		touches := false
		ast.Inspect(gcl.Body, func(x ast.Node) bool {
			if se, ok := x.(*ast.SelectorExpr); ok && (se.Sel.Name == "gw" || se.Sel.Name == "buff") {
				touches = true
			}
			return true
		})
		w.Line("/-- GZipCompressReader.Close mentions neither `gw` nor `buff` -/")
		w.Line("def gzipCloseStateless : Bool := %s", Bool(!touches))

		mx, err := r.Func("pkg/object/httpserver/mux.go", "muxInstance", "serveHTTP")
		if err != nil {
			return err
		}
		src := r.Src(mx.Body)
		w.Line("/-- mux write-out: header copy, WriteHeader(status), io.Copy(payload) in this order -/")
		const woHead = "header := stdw.Header() for k, v := range resp.HTTPHeader() { header[k] = v } stdw.WriteHeader(resp.StatusCode()) respBodySize, "
		woOK := false
		if i := strings.Index(src, woHead); i >= 0 { // `respBodySize, <err or _> := io.Copy(stdw, resp.GetPayload())`
			rest := src[i+len(woHead):]
			if j := strings.Index(rest, " := io.Copy(stdw, resp.GetPayload())"); j >= 0 && !strings.ContainsAny(rest[:j], " ;{}") {
				woOK = true
			}
		}
		w.Line("def muxWriteOut : Bool := %s", Bool(woOK))
		return nil
	}})
}
