package main

// irlib.go — reusable go/ast → Lean micro-translator (DESIGN §3.3, notes/IR.md).
//
// It re-derives a Lean definition from the *body* of a Go function on every run. A
// per-function `irSpec` says how receiver / parameters / fields / calls map to Lean terms;
// everything else is generic:
//
//   * typed locals (Int / Nat / Bool / String / any configured type), `:=`, `=`, op-assign,
//     `++`/`--`, multi-value `a, b := f(x)` (tuple-typed call), `var x T [= v]`;
//   * assignment to configured receiver fields (state variables) and `xs[i] = v`;
//   * `if` / `else if` / `else` with optional init statement: branches that return, branches
//     that fall through (assigned outer variables are merged through a tuple), mixed
//     (continuation duplicated into the falling branches);
//   * `switch` with / without tag (desugared to an if-chain, default last);
//   * `return` of any arity through `irSpec.Ret`, `panic(…)` through `irSpec.Panic`;
//   * integer / comparison / boolean / string expressions, `x == nil`, conversions, indexing,
//     `s[n:]`, tables for selectors, method calls, function calls (→ oracle applications);
//   * calls used as statements that update variables (`cb.transitTo(…)`, `hash.Write(…)`);
//   * `for _, x := range xs` and `for i := a; i < n; i++` with `continue` / `break` /
//     `return` in the body → generated structurally recursive Lean functions returning
//     `Sum <result> <tuple of modified variables>`;
//   * a configurable "ignorable statement" predicate (mutex, logging, metrics …): ignored
//     statements are listed in the generated file.
//
// Anything else makes the extraction FAIL (extractionFailed = true), which breaks the dependent
// theorem `<fn>_regenerated_from_source`; nothing is skipped silently.

import (
	"fmt"
	"go/ast"
	"go/token"
	"strconv"
	"strings"
)

// irTerm is a Lean term with its (translator-level) type name.
type irTerm struct{ S, Ty string }

// irField: how `X.f` is read when X has type T (key "T.f"). Fmt's %s is the translated X.
// State fields are assignable: Fmt is then the name of a Lean local (see irSpec.State).
type irField struct {
	Fmt   string
	Ty    string
	State bool
}

// irCall: Fmt uses %[1]s, %[2]s … for the translated arguments (for methods %[1]s is the
// receiver). NArgs = number of Go arguments (receiver not counted); -1 = any number, the
// arguments are then not translated (and Fmt must not refer to them).
type irCall struct {
	Fmt   string
	Ty    string
	NArgs int
	Guard string // optional Lean Bool term (same arguments): when false the Go call panics (nil dereference …)
}

// irLet is one generated `let Var : Ty := Fmt`.
type irLet struct{ Var, Ty, Fmt string }

// irStmtCall: a call used as a statement that updates variables. Var and Fmt are formatted
// with the translated arguments like irCall.Fmt.
type irStmtCall struct {
	Lets  []irLet
	NArgs int
	Guard string // optional Lean Bool term (same arguments): when false the Go call panics
}

type irSpec struct {
	Name    string   // Lean definition name
	Binders string   // "(p : Policy) (s : RL) …"
	BNames  []string // binder names in order (passed on to generated loop functions)
	RetTy   string   // Lean result type
	Recv    irTerm   // receiver → Lean term / type name (S == "" : function has no receiver)
	Params  []irTerm // Go parameters by position; S == "" : parameter must not be used
	State   []irLet  // state variables: Var = Lean local, Ty, Fmt = initial value

	LeanTy      map[string]string     // type name → Lean type (default: identity; Error → Bool)
	GoTy        map[string]string     // printed Go type → type name (for `var x T`), merged over defaults
	Fields      map[string]irField    // "T.f"
	Methods     map[string]irCall     // "T.m"
	Funcs       map[string]irCall     // printed callee ("strings.HasPrefix"), optionally "len:List String"
	Consts      map[string]irTerm     // identifiers / qualified identifiers
	Conv        map[string]irCall     // "int:Nat64" (conversion ":" argument type)
	Index       map[string]irCall     // by collection type: x[i]
	IndexSet    map[string]string     // by collection type: Fmt(x, i, v) = updated collection
	FieldSet    map[string]string     // "T.goField" → Lean structure field, for writes through `&xs[i]`
	SliceFrom   map[string]irCall     // by type: x[n:]
	StmtMethods map[string]irStmtCall // "T.m" used as a statement
	StmtFuncs   map[string]irStmtCall // printed callee used as a statement

	// optional extensions (all default to the previous behaviour when unset)
	StrTy      string            // type name of Go strings / string literals (default "String")
	StrLitFmt  string            // Lean term of a string literal, %s = quoted literal (default: the literal itself)
	CharTy     string            // type name of rune/byte literals; "" = character literals unsupported
	CharFmt    string            // Lean term of a character literal, %d = its code point
	Zero       map[string]string // zero values of configured types (for `var x T`)
	SliceRange map[string]irCall // by type: x[lo:hi] (%[1]s x, %[2]s lo, %[3]s hi)
	SliceTo    map[string]irCall // by type: x[:hi]  (%[1]s x, %[2]s hi)
	// WhileFuel: Lean Nat terms (over binders / locals, by Lean name), one per general `for init; cond; post {…}` loop in source
	// order (any for-loop that is not `for i := a; i < n; i++`). Such a loop becomes a recursion on the fuel:
	// `if !cond {break}; body; post` per step (`continue` runs post); running out of fuel yields irSpec.Panic, so the theorem
	// about the generated definition also proves that the fuel suffices. Unset: such loops fail the extraction as before.
	WhileFuel []string
	// StmtHook translates bespoke statement patterns into a list of `let`s on tracked variables
	// (Var = Lean name of a tracked variable or a fresh auxiliary name); ok=false: not handled.
	StmtHook func(t *irT, s ast.Stmt, env *irEnv) (lets []irLet, ok bool, err error)

	Ignore func(src string, s ast.Stmt) bool
	Ret    func(vals []irTerm) (string, error)
	Panic  string // Lean term for `panic(…)`; "" = unsupported
	Hook   func(t *irT, e ast.Expr, env *irEnv) (irTerm, bool, error)

	// --- optional extensions (all zero values = previous behaviour) ---------------------------
	// Closure: the function body is exactly `return func(<params>) <results> { … }`; the closure's
	// body is what is translated, the outer receiver / parameters stay bound, the closure's
	// parameters are bound by position like Params.
	Closure *irClosure
	// NumOps: additional numeric types (e.g. an opaque float) with their own operator terms.
	NumOps map[string]irNumOps
	// (Zero, declared above, is shared: zero values of configured types for `var x T`.)
	// EffFuncs / EffMethods: calls with an effect on state variables, used in expression position of
	// a simple statement (`x = f(a)`, `x := f(a)`, `return f(a)`). Keys: printed callee, or
	// "(T)" when the callee is a local / parameter of type T; "T.m" for methods.
	EffFuncs   map[string]irEffCall
	EffMethods map[string]irEffCall
	// SelectComm: the communication clauses a `select` may have. The statement is desugared, in the
	// order of this table, into `if §select(0) { <Stmt0>(args); body0 } else if … else { <StmtN>(args); bodyN }`;
	// `§select` must be configured in Funcs (the environment's choice oracle) and every Stmt in StmtFuncs.
	SelectComm []irComm
	// AllowShadow: `x := …` that shadows a variable of an outer scope (also in an if-init) declares a
	// fresh Lean local instead of failing.
	AllowShadow bool
	// DeferInline (resil): the first top-level `defer func() {…}()` is inlined in front of every later
	// return and into the panic branch of every later partial call (see irInlineDefer).
	DeferInline bool
	// RangeKV: Go maps modelled as association lists. Collection type name → {key type, value type}:
	// `for k, v := range m` (k / v may be `_`, v may be absent) iterates over the Lean list of pairs in list
	// order (Go's order is unspecified: a theorem about the result must not depend on it).
	RangeKV map[string][2]string
	// Ext: see irSpecExt (range with index, comma-ok index, named results, downward counted loops).
	Ext irSpecExt
}

// irSpecExt: further optional extensions (engineer pipe, C02); zero values = previous behaviour.
type irSpecExt struct {
	// RangeKeyTy: type of the index variable of `for i := range xs` / `for i, x := range xs`
	// ("Int" when empty). Inside such a loop `xs[i]` / `&xs[i]` (same printed collection, the loop's
	// own index variable, collection not assigned in the body) is the current element.
	RangeKeyTy string
	// IndexOk: `v, ok := m[k]` by collection type; Fmt(m, k) must have a product type "V × Bool".
	IndexOk map[string]irCall
	// NamedResults: accept a function with named results. "ignore": they are NOT bound (any use of
	// them fails the extraction as an unknown identifier); "bind": they are locals initialised with
	// their zero values (a naked `return` is still unsupported).
	NamedResults string
	// ParamKeepsBinderName: a Go parameter that is assigned becomes a local named like its Lean binder
	// (not like the Go parameter), so that renaming the Go parameter gives the same definition.
	ParamKeepsBinderName bool
	// GoInline (engineer cluster, C17): a top-level `go func() { B }()` (no parameters, arguments or
	// results, no `return` inside B, followed only by `return` statements) for which the predicate
	// holds is translated as the block B in place. The effects of B must be configured as *recorded*
	// effects (StmtMethods appending to a state variable that stands for "what the spawned goroutine
	// will do"), since the goroutine runs later; the captured variables are not assigned after the
	// `go` statement (checked), so their values are those at the spawn.
	GoInline func(src string, g *ast.GoStmt) bool
	// LenBoundElemSet (engineer auth11, C11): a counted loop `for i := a; i < len(xs); i++` may assign
	// *elements* `xs[j] = v` in its body (the length, evaluated once as the fuel, cannot change); any
	// other assignment to xs in the body still fails the extraction.
	LenBoundElemSet bool
	// InlineClosures (engineer mux, C01/C05/C12): a non-escaping local closure `f := func(p T) R { … }` (at
	// most one result, used only as the callee of calls) is inlined at each call of the shapes
	// `x := f(a)` / `x = f(a)` / `f(a)` / `if [!]f(a) { … }`: the parameters are bound to the arguments, the
	// body is translated in place against the call site's environment (captured variables are read and
	// assigned there), every `return v` of the body binds the result and continues after the call.
	InlineClosures bool
	// Composite (engineer mux): composite literals by printed type, "T" for `T{…}` and "&T" for `&T{…}`
	// (keyed fields only): see irComposite.
	Composite map[string]irComposite
	// HookAssigns (engineer mqtt, C14): the merge analysis `assigned()` also asks irSpec.StmtHook; the tracked
	// variables its lets name count as assigned (without it a hooked statement inside an `if` / loop body is
	// invisible to the analysis and its effect on an outer variable would be lost in the merge).
	HookAssigns bool
}

// irComposite: Keys = the struct's field names in the order of Fmt's arguments (%[1]s …); a field absent
// from the literal takes Zero[field] (a Lean term); Types[field] = required type name of a present field.
type irComposite struct {
	Keys  []string
	Types map[string]string
	Zero  map[string]string
	Wrap  map[string]string // optional: Lean term of a present field, %s = the translated value (e.g. "(some %s)")
	Fmt   string
	Ty    string
}

// irClosure: Params = the closure's parameters by position. Local: the closure is not returned but is
// the first top-level `x := func(…) … {…}` of the body; the statements before it are translated only to
// learn which variables are in scope (their output is dropped), and those whose type is a key of
// FreeByTy become usable inside the closure as the given Lean term (all others stay unusable).
// AsLocals: the closure's parameters are bound as locals (`let <name> : T := <term>` in front), so that
// they may be assigned inside branches.
type irClosure struct {
	Params   []irTerm
	Local    bool
	FreeByTy map[string]string
	AsLocals bool
}

// irNumOps: operator formats (two %s) of a configured numeric type; "" = unsupported. OfInt / OfFloat
// convert an untyped integer / floating-point literal (OfFloat gets mantissa and decimal exponent:
// 1.5 = 15·10⁻¹).
type irNumOps struct {
	Add, Sub, Mul, Quo string
	Lt, Le             string
	OfInt              string // one %s
	OfFloat            string // %[1]s mantissa, %[2]s exponent
}

// irEffCall: the Pre lets are emitted before the statement that contains the call (Var / Fmt are
// formatted with the translated arguments, receiver first for methods; "§tmp" is replaced by a fresh
// name); Fmt / Ty give the value of the call.
type irEffCall struct {
	NArgs int
	Pre   []irLet
	Fmt   string
	Ty    string
	Guard string // optional Lean Bool term (formatted like Fmt): when false the call panics
}

// irComm: one communication clause of a select: Key = "<-" + callee ("<-T.m" when the receiver
// translates to type T, else the printed callee, e.g. "<-time.After"); the call's arguments are passed on
// to the synthetic statement Stmt (a StmtFuncs key).
type irComm struct{ Key, Stmt string }

// ---------------------------------------------------------------------------
// environment (immutable; every declaration makes a copy)

type irVar struct {
	Lean  string
	Ty    string
	Depth int
	Param bool // bound by the definition's binders, not a local
	Alias *irAlias
	Closure *ast.FuncLit // irSpecExt.InlineClosures: a local closure (no Lean value; inlined at its calls)
}

// irAlias: `b := &xs[i]` — b is a pointer into a tracked collection. Reads go through the current
// value of the collection, writes (`b.f = v`, `b.f++`, `*b = v`) update the collection.
type irAlias struct {
	CollKey string // environment key of the collection
	Idx     string // Lean name holding the index (evaluated when the alias was taken)
	ElemTy  string
}

type irEnv struct {
	vars  map[string]irVar
	order []string
	depth int
}

func (e *irEnv) clone() *irEnv {
	n := &irEnv{vars: make(map[string]irVar, len(e.vars)+1), order: append([]string(nil), e.order...), depth: e.depth}
	for k, v := range e.vars {
		n.vars[k] = v
	}
	return n
}

func (e *irEnv) push() *irEnv { n := e.clone(); n.depth++; return n }

func (e *irEnv) with(key string, v irVar) *irEnv {
	n := e.clone()
	if _, ok := n.vars[key]; !ok {
		n.order = append(n.order, key)
	}
	n.vars[key] = v
	return n
}

func (e *irEnv) keyOfLean(name string) (string, bool) {
	for _, k := range e.order {
		if v := e.vars[k]; v.Lean == name && !v.Param {
			return k, true
		}
	}
	return "", false
}

// locals lists the non-parameter variables in declaration order.
func (e *irEnv) locals() []irVar {
	var out []irVar
	for _, k := range e.order {
		if v := e.vars[k]; !v.Param && v.Closure == nil {
			out = append(out, v)
		}
	}
	return out
}

// ---------------------------------------------------------------------------

type irK func(ind string) (string, error)
type irNext func(env *irEnv, ind string) (string, error)

// irRange: an enclosing range loop with an index variable (irSpecExt.RangeKeyTy).
type irRange struct {
	CollSrc  string // printed range expression
	Key      string // Go name of the index variable
	ElemLean string // Lean name of the current element
	ElemTy   string
}

// rangeElem: e is `xs[i]` for an enclosing `for i := range xs` (same printed xs, i still the loop's
// own index variable): the current element. The loop checked that xs is not assigned in its body.
func (t *irT) rangeElem(e ast.Expr, env *irEnv) (irTerm, bool) {
	ie, ok := irUnparen(e).(*ast.IndexExpr)
	if !ok {
		return irTerm{}, false
	}
	id, ok := irUnparen(ie.Index).(*ast.Ident)
	if !ok {
		return irTerm{}, false
	}
	src := t.r.Src(ie.X)
	for i := len(t.ranges) - 1; i >= 0; i-- {
		r := t.ranges[i]
		if r.Key == id.Name && r.CollSrc == src {
			if v, ok := env.vars[id.Name]; ok && v.Param && v.Lean == irIdent(r.Key) {
				return irTerm{r.ElemLean, r.ElemTy}, true
			}
		}
	}
	return irTerm{}, false
}

type irLoopCtx struct {
	cont irK
	brk  irK
	// labelled loops (engineer auth, C06): label of this loop ("" = none); for a loop nested directly in a
	// labelled loop L whose body contains `continue L`: lblCont = L and lblVal = the tuple of this loop's
	// modified variables (`continue L` is then `.inl (.inr lblVal)`, a return `.inl (.inl r)`).
	label   string
	lblCont string
	lblVal  string
}

// irHasLabelledContinue: b contains `continue <label>` (anywhere, nested statements included).
func irHasLabelledContinue(b []ast.Stmt, label string) bool {
	found := false
	for _, s := range b {
		ast.Inspect(s, func(n ast.Node) bool {
			if bs, ok := n.(*ast.BranchStmt); ok && bs.Tok == token.CONTINUE && bs.Label != nil && bs.Label.Name == label {
				found = true
			}
			return !found
		})
	}
	return found
}

type irT struct {
	r       *Repo
	spec    *irSpec
	skipped []string
	aux     []string
	nloop   int
	ntmp    int
	guards  []string // pending guards of partial calls in the statement being translated
	loop    *irLoopCtx
	inLoop  bool
	pre     []irLet   // pending lets of effectful calls (irEffCall) in the statement being translated
	ranges  []irRange // enclosing `for i[, x] := range xs` loops with an index variable (innermost last)
	nshadow int
	nPanicElse int // number of `if guard then … else <panic>` emitted so far (engineer pipe)
	deferB   []ast.Stmt // irSpec.DeferInline (resil): body of the inlined deferred closure
	deferred []ast.Stmt // … while it is active (after the marker statement)
	plabel  string // label of the loop statement being translated (set by a LabeledStmt, consumed by loopFn)
	nwhile  int    // general for-loops translated so far (index into irSpec.WhileFuel)
	whileX  bool   // the next loopFn call is a general for-loop: fuel exhaustion = Panic
	retK    func(vals []irTerm, ind string) (string, error) // inside an inlined closure body: what `return` does
	nclos   int
	closSeen map[string]*ast.FuncLit // closures defined inside statements analysed by `assigned` (engineer mux)
}

var irKeywords = map[string]bool{"at": true, "from": true, "end": true, "then": true, "open": true, "show": true,
	"have": true, "fun": true, "match": true, "with": true, "do": true, "in": true, "let": true, "if": true, "else": true,
	"def": true, "theorem": true, "instance": true, "structure": true, "where": true, "by": true, "calc": true,
	"namespace": true, "section": true, "variable": true, "universe": true, "import": true, "export": true,
	"private": true, "protected": true, "mutual": true, "inductive": true, "class": true, "deriving": true,
	"return": true, "for": true, "unless": true, "try": true, "catch": true, "finally": true, "using": true,
	"exact": true, "Type": true, "Prop": true, "Sort": true, "forall": true, "exists": true, "then_": false,
	"prefix": true, "infix": true, "infixl": true, "infixr": true, "postfix": true, "notation": true, "macro": true, "syntax": true}

func irIdent(goName string) string {
	if irKeywords[goName] || strings.HasSuffix(goName, "__") {
		return goName + "_"
	}
	return goName
}

var irDefaultGoTy = map[string]string{"int": "Int", "int8": "Int", "int16": "Int", "int32": "Int", "int64": "Int",
	"time.Duration": "Int", "bool": "Bool", "string": "String", "error": "Error"}

var irNumConv = map[string]bool{"int": true, "int8": true, "int16": true, "int32": true, "int64": true,
	"uint": true, "uint8": true, "uint16": true, "uint32": true, "uint64": true, "time.Duration": true}

func (t *irT) leanTy(ty string) string {
	if ty == "lit" {
		return "Int"
	}
	if v, ok := t.spec.LeanTy[ty]; ok {
		return v
	}
	if ty == "Error" {
		return "Bool"
	}
	// product / list types: map the components
	if parts := irSplitProd(ty); len(parts) > 1 {
		out := make([]string, len(parts))
		for i, p := range parts {
			out[i] = t.leanTy(p)
		}
		return strings.Join(out, " × ")
	}
	if strings.HasPrefix(ty, "List ") {
		inner := t.leanTy(strings.TrimPrefix(ty, "List "))
		if strings.Contains(inner, " ") {
			inner = "(" + inner + ")"
		}
		return "List " + inner
	}
	return ty
}

// irSplitProd splits "A × B × C" at top level.
func irSplitProd(ty string) []string {
	var out []string
	depth, start := 0, 0
	rs := []rune(ty)
	for i, c := range rs {
		switch c {
		case '(':
			depth++
		case ')':
			depth--
		case '×':
			if depth == 0 {
				out = append(out, strings.TrimSpace(string(rs[start:i])))
				start = i + 1
			}
		}
	}
	out = append(out, strings.TrimSpace(string(rs[start:])))
	return out
}

func irProj(v string, i, n int) string {
	// i-th (0-based) component of an n-tuple (right-nested pairs)
	s := v
	for j := 0; j < i; j++ {
		s += ".2"
	}
	if i < n-1 {
		s += ".1"
	}
	return s
}

func irFmt(f string, args []string) string {
	if len(args) == 0 || !strings.Contains(f, "%") {
		return f
	}
	a := make([]interface{}, len(args))
	for i, s := range args {
		a[i] = s
	}
	out := fmt.Sprintf(f, a...)
	if i := strings.Index(out, "%!(EXTRA"); i >= 0 { // unused trailing arguments are fine
		out = out[:i]
	}
	return out
}

func irIsNum(ty string) bool { return ty == "Int" || ty == "Nat" || ty == "lit" }

func irJoinNum(a, b string) (string, bool) {
	if a == "lit" {
		return b, true
	}
	if b == "lit" {
		return a, true
	}
	return a, a == b
}

// ---------------------------------------------------------------------------
// expressions

func (t *irT) exprs(es []ast.Expr, env *irEnv) ([]irTerm, []string, error) {
	var ts []irTerm
	var ss []string
	for _, e := range es {
		x, err := t.expr(e, env)
		if err != nil {
			return nil, nil, err
		}
		ts = append(ts, x)
		ss = append(ss, x.S)
	}
	return ts, ss, nil
}

func (t *irT) applyCall(c irCall, recv *irTerm, args []ast.Expr, env *irEnv, what string) (irTerm, error) {
	var ss []string
	if recv != nil {
		ss = append(ss, recv.S)
	}
	if c.NArgs >= 0 {
		if len(args) != c.NArgs {
			return irTerm{}, fmt.Errorf("%s: %d arguments, expected %d", what, len(args), c.NArgs)
		}
		_, as, err := t.exprs(args, env)
		if err != nil {
			return irTerm{}, err
		}
		ss = append(ss, as...)
	}
	if c.Guard != "" {
		t.guards = append(t.guards, irFmt(c.Guard, ss))
	}
	return irTerm{irFmt(c.Fmt, ss), c.Ty}, nil
}

func (t *irT) expr(e ast.Expr, env *irEnv) (irTerm, error) {
	if t.spec.Hook != nil {
		if x, ok, err := t.spec.Hook(t, e, env); ok || err != nil {
			return x, err
		}
	}
	if t.spec.Ext.InlineClosures || t.spec.Ext.Composite != nil { // engineer mux: see the end of this file
		if x, ok, err := t.muxExpr(e, env); ok || err != nil {
			return x, err
		}
	}
	switch x := e.(type) {
	case *ast.BasicLit:
		switch x.Kind {
		case token.INT:
			n, err := strconv.ParseInt(x.Value, 0, 64)
			if err != nil {
				return irTerm{}, fmt.Errorf("integer literal %s", x.Value)
			}
			return irTerm{strconv.FormatInt(n, 10), "lit"}, nil
		case token.STRING:
			s, err := strconv.Unquote(x.Value)
			if err != nil {
				return irTerm{}, err
			}
			if t.spec.StrTy != "" { // configured string type (e.g. byte strings)
				lit := Str(s)
				if t.spec.StrLitFmt != "" {
					lit = fmt.Sprintf(t.spec.StrLitFmt, Str(s))
				}
				return irTerm{lit, t.spec.StrTy}, nil
			}
			return irTerm{Str(s), "String"}, nil
		case token.CHAR:
			if t.spec.CharTy != "" {
				c, _, _, err := strconv.UnquoteChar(strings.Trim(x.Value, "'"), '\'')
				if err != nil {
					return irTerm{}, err
				}
				return irTerm{fmt.Sprintf(t.spec.CharFmt, int(c)), t.spec.CharTy}, nil
			}
		case token.FLOAT:
			if m, e, ok := irDecimal(x.Value); ok && len(t.spec.NumOps) > 0 {
				return irTerm{m + "|" + e, "flit"}, nil // only usable next to a NumOps type (see numBinary)
			}
		}
	case *ast.Ident:
		if v, ok := env.vars[x.Name]; ok {
			if v.Alias != nil {
				coll := env.vars[v.Alias.CollKey]
				f, ok := t.spec.Index[coll.Ty]
				if !ok {
					return irTerm{}, fmt.Errorf("indexing of %s not configured (alias %s)", coll.Ty, x.Name)
				}
				return irTerm{irFmt(f.Fmt, []string{coll.Lean, v.Alias.Idx}), f.Ty}, nil
			}
			return irTerm{v.Lean, v.Ty}, nil
		}
		switch x.Name {
		case "true", "false":
			return irTerm{x.Name, "Bool"}, nil
		case "nil":
			return irTerm{"nil", "nil"}, nil
		}
		if c, ok := t.spec.Consts[x.Name]; ok {
			return c, nil
		}
		return irTerm{}, fmt.Errorf("unknown identifier %s", x.Name)
	case *ast.ParenExpr:
		s, err := t.expr(x.X, env)
		return irTerm{"(" + s.S + ")", s.Ty}, err
	case *ast.SelectorExpr:
		if c, ok := t.spec.Consts[t.r.Src(x)]; ok {
			if id, isId := x.X.(*ast.Ident); !isId || !irInEnv(env, id.Name) {
				return c, nil
			}
		}
		rx, err := t.expr(x.X, env)
		if err != nil {
			return irTerm{}, err
		}
		f, ok := t.spec.Fields[rx.Ty+"."+x.Sel.Name]
		if !ok {
			return irTerm{}, fmt.Errorf("unknown field %s.%s (in %s)", rx.Ty, x.Sel.Name, t.r.Src(x))
		}
		return irTerm{irFmt(f.Fmt, []string{rx.S}), f.Ty}, nil
	case *ast.UnaryExpr:
		s, err := t.expr(x.X, env)
		if err != nil {
			return irTerm{}, err
		}
		switch {
		case x.Op == token.AND: // &x: only as an argument of a configured call; the type records it
			return irTerm{s.S, "&" + s.Ty}, nil
		case x.Op == token.SUB && (s.Ty == "Int" || s.Ty == "lit"):
			return irTerm{"(-" + s.S + ")", "Int"}, nil
		case x.Op == token.NOT && s.Ty == "Bool":
			return irTerm{"(!" + s.S + ")", "Bool"}, nil
		}
	case *ast.BinaryExpr:
		return t.binary(x, env)
	case *ast.CallExpr:
		return t.call(x, env)
	case *ast.IndexExpr:
		if el, ok := t.rangeElem(x, env); ok {
			return el, nil
		}
		c, err := t.expr(x.X, env)
		if err != nil {
			return irTerm{}, err
		}
		i, err := t.expr(x.Index, env)
		if err != nil {
			return irTerm{}, err
		}
		f, ok := t.spec.Index[c.Ty]
		if !ok {
			return irTerm{}, fmt.Errorf("indexing of %s not configured (%s)", c.Ty, t.r.Src(x))
		}
		return irTerm{irFmt(f.Fmt, []string{c.S, i.S}), f.Ty}, nil
	case *ast.SliceExpr:
		if x.Max == nil && x.High != nil && (t.spec.SliceRange != nil || t.spec.SliceTo != nil) {
			c, err := t.expr(x.X, env)
			if err != nil {
				return irTerm{}, err
			}
			hi, err := t.expr(x.High, env)
			if err != nil {
				return irTerm{}, err
			}
			if x.Low == nil {
				f, ok := t.spec.SliceTo[c.Ty]
				if !ok {
					return irTerm{}, fmt.Errorf("slicing [:hi] of %s not configured (%s)", c.Ty, t.r.Src(x))
				}
				return irTerm{irFmt(f.Fmt, []string{c.S, hi.S}), f.Ty}, nil
			}
			lo, err := t.expr(x.Low, env)
			if err != nil {
				return irTerm{}, err
			}
			f, ok := t.spec.SliceRange[c.Ty]
			if !ok {
				return irTerm{}, fmt.Errorf("slicing [lo:hi] of %s not configured (%s)", c.Ty, t.r.Src(x))
			}
			return irTerm{irFmt(f.Fmt, []string{c.S, lo.S, hi.S}), f.Ty}, nil
		}
		if x.High != nil || x.Max != nil || x.Low == nil {
			break
		}
		c, err := t.expr(x.X, env)
		if err != nil {
			return irTerm{}, err
		}
		lo, err := t.expr(x.Low, env)
		if err != nil {
			return irTerm{}, err
		}
		f, ok := t.spec.SliceFrom[c.Ty]
		if !ok {
			return irTerm{}, fmt.Errorf("slicing of %s not configured (%s)", c.Ty, t.r.Src(x))
		}
		return irTerm{irFmt(f.Fmt, []string{c.S, lo.S}), f.Ty}, nil
	}
	return irTerm{}, fmt.Errorf("unsupported expression %s", t.r.Src(e))
}

// tryExpr translates speculatively: guards of partial calls met on the way are discarded.
func (t *irT) tryExpr(e ast.Expr, env *irEnv) (irTerm, error) {
	ng, np := len(t.guards), len(t.pre)
	x, err := t.expr(e, env)
	t.guards, t.pre = t.guards[:ng], t.pre[:np]
	return x, err
}

func irInEnv(env *irEnv, name string) bool { _, ok := env.vars[name]; return ok }

func (t *irT) binary(x *ast.BinaryExpr, env *irEnv) (irTerm, error) {
	a, err := t.expr(x.X, env)
	if err != nil {
		return irTerm{}, err
	}
	b, err := t.expr(x.Y, env)
	if err != nil {
		return irTerm{}, err
	}
	bad := func() (irTerm, error) {
		return irTerm{}, fmt.Errorf("unsupported operands %s(%s) %s %s(%s) in %s", a.S, a.Ty, x.Op, b.S, b.Ty, t.r.Src(x))
	}
	if r, ok := t.numBinary(x.Op, a, b); ok {
		return r, nil
	} else if a.Ty == "flit" || b.Ty == "flit" {
		return bad()
	}
	switch x.Op {
	case token.ADD, token.SUB, token.MUL, token.QUO, token.REM:
		if x.Op == token.ADD && a.Ty == "String" && b.Ty == "String" {
			return irTerm{fmt.Sprintf("(%s ++ %s)", a.S, b.S), "String"}, nil
		}
		if x.Op == token.ADD && t.spec.StrTy != "" && a.Ty == t.spec.StrTy && b.Ty == t.spec.StrTy {
			return irTerm{fmt.Sprintf("(%s ++ %s)", a.S, b.S), t.spec.StrTy}, nil
		}
		ty, ok := irJoinNum(a.Ty, b.Ty)
		if !ok || !irIsNum(ty) {
			return bad()
		}
		switch x.Op {
		case token.QUO:
			if ty == "Nat" {
				return irTerm{fmt.Sprintf("(%s / %s)", a.S, b.S), ty}, nil
			}
			return irTerm{fmt.Sprintf("(Int.tdiv %s %s)", a.S, b.S), "Int"}, nil
		case token.REM:
			if ty == "Nat" {
				return irTerm{fmt.Sprintf("(%s %% %s)", a.S, b.S), ty}, nil
			}
			return irTerm{fmt.Sprintf("(Int.tmod %s %s)", a.S, b.S), "Int"}, nil
		}
		return irTerm{fmt.Sprintf("(%s %s %s)", a.S, x.Op.String(), b.S), ty}, nil
	case token.LSS, token.GTR, token.LEQ, token.GEQ:
		ty, ok := irJoinNum(a.Ty, b.Ty)
		if !ok || !irIsNum(ty) {
			return bad()
		}
		op := map[token.Token]string{token.LSS: "<", token.GTR: ">", token.LEQ: "≤", token.GEQ: "≥"}[x.Op]
		if ty == "lit" { // two literals: fix the type
			return irTerm{fmt.Sprintf("decide ((%s : Int) %s %s)", a.S, op, b.S), "Bool"}, nil
		}
		return irTerm{fmt.Sprintf("decide (%s %s %s)", a.S, op, b.S), "Bool"}, nil
	case token.EQL, token.NEQ:
		eq := x.Op == token.EQL
		if a.Ty == "nil" {
			a, b = b, a
		}
		if b.Ty == "nil" {
			switch {
			case a.Ty == "Error":
				if eq {
					return irTerm{"(!" + a.S + ")", "Bool"}, nil
				}
				return irTerm{a.S, "Bool"}, nil
			case strings.HasPrefix(t.leanTy(a.Ty), "Option "):
				if eq {
					return irTerm{a.S + ".isNone", "Bool"}, nil
				}
				return irTerm{a.S + ".isSome", "Bool"}, nil
			}
			return bad()
		}
		if _, ok := irJoinNum(a.Ty, b.Ty); !(ok && irIsNum(a.Ty) && irIsNum(b.Ty)) && a.Ty != b.Ty {
			return bad()
		}
		if a.Ty == "lit" && b.Ty == "lit" {
			a.S = "(" + a.S + " : Int)"
		}
		if eq {
			return irTerm{fmt.Sprintf("(%s == %s)", a.S, b.S), "Bool"}, nil
		}
		return irTerm{fmt.Sprintf("(%s != %s)", a.S, b.S), "Bool"}, nil
	case token.LAND, token.LOR:
		if a.Ty != "Bool" || b.Ty != "Bool" {
			return bad()
		}
		return irTerm{fmt.Sprintf("(%s %s %s)", a.S, x.Op.String(), b.S), "Bool"}, nil
	}
	return bad()
}

// irDecimal splits a plain decimal floating-point literal: "1.5" → ("15", "1").
func irDecimal(lit string) (mant, exp string, ok bool) {
	i := strings.IndexByte(lit, '.')
	if i < 0 || strings.ContainsAny(lit, "eEpPxX_") {
		return "", "", false
	}
	frac := lit[i+1:]
	m := strings.TrimLeft(lit[:i]+frac, "0")
	if m == "" {
		m = "0"
	}
	for _, c := range m {
		if c < '0' || c > '9' {
			return "", "", false
		}
	}
	return m, strconv.Itoa(len(frac)), true
}

// numBinary: arithmetic / ordering on a configured numeric type (irSpec.NumOps); untyped literals on
// the other side are converted.
func (t *irT) numBinary(op token.Token, a, b irTerm) (irTerm, bool) {
	ty := ""
	if _, ok := t.spec.NumOps[a.Ty]; ok {
		ty = a.Ty
	} else if _, ok := t.spec.NumOps[b.Ty]; ok {
		ty = b.Ty
	} else {
		return irTerm{}, false
	}
	ops := t.spec.NumOps[ty]
	coerce := func(x irTerm) (string, bool) {
		switch x.Ty {
		case ty:
			return x.S, true
		case "lit":
			if ops.OfInt == "" {
				return "", false
			}
			return fmt.Sprintf(ops.OfInt, x.S), true
		case "flit":
			if ops.OfFloat == "" {
				return "", false
			}
			me := strings.SplitN(x.S, "|", 2)
			return irFmt(ops.OfFloat, me), true
		}
		return "", false
	}
	as, ok1 := coerce(a)
	bs, ok2 := coerce(b)
	if !ok1 || !ok2 {
		return irTerm{}, false
	}
	f, rty := "", ty
	switch op {
	case token.ADD:
		f = ops.Add
	case token.SUB:
		f = ops.Sub
	case token.MUL:
		f = ops.Mul
	case token.QUO:
		f = ops.Quo
	case token.LSS:
		f, rty = ops.Lt, "Bool"
	case token.LEQ:
		f, rty = ops.Le, "Bool"
	case token.GTR:
		f, rty, as, bs = ops.Lt, "Bool", bs, as
	case token.GEQ:
		f, rty, as, bs = ops.Le, "Bool", bs, as
	}
	if f == "" {
		return irTerm{}, false
	}
	return irTerm{fmt.Sprintf(f, as, bs), rty}, true
}

// effCall: configuration of an effectful call (irSpec.EffFuncs / EffMethods), with the receiver term
// for methods.
func (t *irT) effCall(x *ast.CallExpr, env *irEnv) (irEffCall, *irTerm, bool) {
	if len(t.spec.EffFuncs) == 0 && len(t.spec.EffMethods) == 0 {
		return irEffCall{}, nil, false
	}
	switch f := x.Fun.(type) {
	case *ast.Ident:
		if v, ok := env.vars[f.Name]; ok {
			c, ok := t.spec.EffFuncs["("+v.Ty+")"]
			return c, &irTerm{v.Lean, v.Ty}, ok // the callee's value is %[1]s, like a receiver
		}
		c, ok := t.spec.EffFuncs[f.Name]
		return c, nil, ok
	case *ast.SelectorExpr:
		if irRootInEnv(f.X, env) {
			if rx, err := t.tryExpr(f.X, env); err == nil {
				if c, ok := t.spec.EffMethods[rx.Ty+"."+f.Sel.Name]; ok {
					return c, &rx, true
				}
			}
			return irEffCall{}, nil, false
		}
		c, ok := t.spec.EffFuncs[t.r.Src(f)]
		return c, nil, ok
	}
	return irEffCall{}, nil, false
}

func (t *irT) call(x *ast.CallExpr, env *irEnv) (irTerm, error) {
	if x.Ellipsis.IsValid() {
		return irTerm{}, fmt.Errorf("unsupported variadic call %s", t.r.Src(x))
	}
	fun := t.r.Src(x.Fun)
	if c, recv, ok := t.effCall(x, env); ok {
		var ss []string
		if recv != nil {
			ss = append(ss, recv.S)
		}
		if c.NArgs >= 0 {
			if len(x.Args) != c.NArgs {
				return irTerm{}, fmt.Errorf("%s: %d arguments, expected %d", fun, len(x.Args), c.NArgs)
			}
			_, as, err := t.exprs(x.Args, env)
			if err != nil {
				return irTerm{}, err
			}
			ss = append(ss, as...)
		}
		t.ntmp++
		tmp := fmt.Sprintf("e%d__", t.ntmp)
		sub := func(f string) string { return strings.ReplaceAll(irFmt(f, ss), "§tmp", tmp) }
		for _, l := range c.Pre {
			t.pre = append(t.pre, irLet{sub(l.Var), l.Ty, sub(l.Fmt)})
		}
		if c.Guard != "" {
			t.guards = append(t.guards, sub(c.Guard))
		}
		return irTerm{sub(c.Fmt), c.Ty}, nil
	}
	// conversions
	_, isArr := x.Fun.(*ast.ArrayType)
	if len(x.Args) == 1 && (isArr || irNumConv[fun] || t.hasConv(fun)) {
		a, err := t.expr(x.Args[0], env)
		if err != nil {
			return irTerm{}, err
		}
		if c, ok := t.spec.Conv[fun+":"+a.Ty]; ok {
			return irTerm{irFmt(c.Fmt, []string{a.S}), c.Ty}, nil
		}
		if irNumConv[fun] && (a.Ty == "Int" || a.Ty == "lit") && !strings.HasPrefix(fun, "uint") {
			return a, nil // integer conversions between signed types (no overflow: recorded assumption)
		}
		return irTerm{}, fmt.Errorf("conversion %s of %s not configured (%s)", fun, a.Ty, t.r.Src(x))
	}
	// methods: the receiver expression translates and "T.m" is configured
	if se, ok := x.Fun.(*ast.SelectorExpr); ok {
		rooted := irRootInEnv(se.X, env)
		ng := len(t.guards)
		rx, err := t.expr(se.X, env)
		if err == nil {
			if m, ok := t.spec.Methods[rx.Ty+"."+se.Sel.Name]; ok {
				return t.applyCall(m, &rx, x.Args, env, fun)
			}
			if rooted {
				return irTerm{}, fmt.Errorf("unknown method %s.%s (in %s)", rx.Ty, se.Sel.Name, t.r.Src(x))
			}
		} else if rooted {
			return irTerm{}, fmt.Errorf("unsupported call %s (%v)", t.r.Src(x), err)
		}
		t.guards = t.guards[:ng] // a failed attempt leaves no guard behind
	}
	// functions, optionally dispatched on the first argument's type
	if len(x.Args) >= 1 {
		if a, err := t.tryExpr(x.Args[0], env); err == nil {
			if f, ok := t.spec.Funcs[fun+":"+a.Ty]; ok {
				return t.applyCall(f, nil, x.Args, env, fun)
			}
		}
	}
	if f, ok := t.spec.Funcs[fun]; ok {
		return t.applyCall(f, nil, x.Args, env, fun)
	}
	return irTerm{}, fmt.Errorf("unsupported call %s", t.r.Src(x))
}

func (t *irT) hasConv(fun string) bool {
	for k := range t.spec.Conv {
		if strings.HasPrefix(k, fun+":") {
			return true
		}
	}
	return false
}

func irRootInEnv(e ast.Expr, env *irEnv) bool {
	for {
		switch x := e.(type) {
		case *ast.Ident:
			return irInEnv(env, x.Name)
		case *ast.SelectorExpr:
			e = x.X
		case *ast.CallExpr:
			e = x.Fun
		case *ast.IndexExpr:
			e = x.X
		case *ast.ParenExpr:
			e = x.X
		default:
			return false
		}
	}
}

// ---------------------------------------------------------------------------
// statement analysis

func (t *irT) ignorable(s ast.Stmt) bool {
	return t.spec.Ignore != nil && t.spec.Ignore(t.r.Src(s), s)
}

func (t *irT) isPanic(s ast.Stmt) bool {
	if es, ok := s.(*ast.ExprStmt); ok {
		if ce, ok := es.X.(*ast.CallExpr); ok {
			if id, ok := ce.Fun.(*ast.Ident); ok && id.Name == "panic" {
				return true
			}
		}
	}
	return false
}

func irElse(x *ast.IfStmt) []ast.Stmt {
	switch e := x.Else.(type) {
	case nil:
		return nil
	case *ast.BlockStmt:
		return e.List
	default:
		return []ast.Stmt{e}
	}
}

// terminates: control never falls off the end of the list.
func (t *irT) terminates(b []ast.Stmt) bool {
	for i := len(b) - 1; i >= 0; i-- {
		s := b[i]
		if t.ignorable(s) {
			continue
		}
		switch x := s.(type) {
		case *ast.ReturnStmt:
			return true
		case *ast.BranchStmt:
			return x.Tok == token.CONTINUE || x.Tok == token.BREAK
		case *ast.IfStmt:
			return x.Else != nil && t.terminates(x.Body.List) && t.terminates(irElse(x))
		case *ast.BlockStmt:
			return t.terminates(x.List)
		case *ast.SelectStmt:
			d, err := t.desugarSelect(x, nil)
			return err == nil && t.terminates([]ast.Stmt{d})
		case *ast.SwitchStmt:
			hasDefault := false
			for _, c := range x.Body.List {
				cc := c.(*ast.CaseClause)
				if cc.List == nil {
					hasDefault = true
				}
				if !t.terminates(cc.Body) {
					return false
				}
			}
			return hasDefault
		}
		return t.isPanic(s)
	}
	return false
}

// exits: the list contains a return / panic, or a continue / break of the enclosing loop.
func (t *irT) exits(b []ast.Stmt, inNested bool) bool {
	for _, s := range b {
		if t.ignorable(s) {
			continue
		}
		switch x := s.(type) {
		case *ast.ReturnStmt:
			return true
		case *ast.BranchStmt:
			if !inNested || x.Label != nil { // a labelled branch leaves the nested loop as well
				return true
			}
		case *ast.LabeledStmt:
			if t.exits([]ast.Stmt{x.Stmt}, inNested) {
				return true
			}
		case *ast.IfStmt:
			if t.exits(x.Body.List, inNested) || t.exits(irElse(x), inNested) {
				return true
			}
		case *ast.BlockStmt:
			if t.exits(x.List, inNested) {
				return true
			}
		case *ast.SelectStmt:
			if d, err := t.desugarSelect(x, nil); err == nil && t.exits([]ast.Stmt{d}, inNested) {
				return true
			}
		case *ast.SwitchStmt:
			for _, c := range x.Body.List {
				if t.exits(c.(*ast.CaseClause).Body, inNested) {
					return true
				}
			}
		case *ast.RangeStmt:
			if t.exits(x.Body.List, true) {
				return true
			}
		case *ast.ForStmt:
			if t.exits(x.Body.List, true) {
				return true
			}
		default:
			if t.isPanic(s) {
				return true
			}
		}
	}
	return false
}

// lhsKey resolves an assignment target to an environment key ("" for `_`).
func (t *irT) lhsKey(e ast.Expr, env *irEnv) (string, error) {
	switch x := e.(type) {
	case *ast.Ident:
		if x.Name == "_" {
			return "", nil
		}
		return x.Name, nil
	case *ast.StarExpr:
		if a := irAliasOf(x.X, env); a != nil {
			return a.CollKey, nil
		}
	case *ast.SelectorExpr:
		if a := irAliasOf(x.X, env); a != nil {
			return a.CollKey, nil
		}
		rx, err := t.tryExpr(x.X, env)
		if err != nil {
			return "", err
		}
		if f, ok := t.spec.Fields[rx.Ty+"."+x.Sel.Name]; ok && f.State {
			return "§" + f.Fmt, nil
		}
	case *ast.IndexExpr:
		return t.lhsKey(x.X, env)
	case *ast.ParenExpr:
		return t.lhsKey(x.X, env)
	}
	return "", fmt.Errorf("unsupported assignment target %s", t.r.Src(e))
}

// assigned collects the environment keys (of `outer`) assigned anywhere in b.
func (t *irT) assigned(b []ast.Stmt, outer *irEnv, set map[string]bool) {
	add := func(k string) {
		if _, ok := outer.vars[k]; ok && k != "" {
			set[k] = true
		}
	}
	localAlias := map[string]string{}
	aliasTarget := func(l ast.Expr) (string, bool) {
		var root ast.Expr
		switch tl := irUnparen(l).(type) {
		case *ast.StarExpr:
			root = tl.X
		case *ast.SelectorExpr:
			root = tl.X
		default:
			return "", false
		}
		if id, ok := irUnparen(root).(*ast.Ident); ok {
			k, ok := localAlias[id.Name]
			return k, ok
		}
		return "", false
	}
	var walkStmt func(s ast.Stmt)
	walk := func(l []ast.Stmt) {
		for _, s := range l {
			walkStmt(s)
		}
	}
	// state variables updated by effectful calls (irEffCall.Pre) inside an expression
	effects := func(es ...ast.Expr) {
		if len(t.spec.EffFuncs) == 0 && len(t.spec.EffMethods) == 0 {
			return
		}
		for _, e := range es {
			if e == nil {
				continue
			}
			ast.Inspect(e, func(n ast.Node) bool {
				ce, ok := n.(*ast.CallExpr)
				if !ok {
					return true
				}
				if c, recv, ok := t.effCall(ce, outer); ok {
					var ss []string
					if recv != nil {
						ss = append(ss, recv.S)
					}
					for _, a := range ce.Args {
						if x, err := t.tryExpr(a, outer); err == nil {
							ss = append(ss, x.S)
						} else {
							ss = append(ss, "_")
						}
					}
					for _, l := range c.Pre {
						if k, ok := outer.keyOfLean(irFmt(l.Var, ss)); ok {
							add(k)
						}
					}
				}
				return true
			})
		}
	}
	shadowed := map[string]int{} // names redeclared by an enclosing if-init (irSpec.AllowShadow)
	walkStmt = func(s ast.Stmt) {
		if s == nil || t.ignorable(s) {
			return
		}
		if t.spec.Ext.InlineClosures { // engineer mux: a call of a local closure assigns what its body assigns
			t.closureEffects(s, outer, walk)
		}
		if t.spec.Ext.HookAssigns && t.spec.StmtHook != nil { // engineer mqtt: the targets of a StmtHook statement count as assigned
			ng, np := len(t.guards), len(t.pre)
			lets, ok, err := t.spec.StmtHook(t, s, outer)
			t.guards, t.pre = t.guards[:ng], t.pre[:np]
			if ok && err == nil {
				for _, l := range lets {
					if k, ok := outer.keyOfLean(l.Var); ok {
						add(k)
					}
				}
				return
			}
		}
		switch x := s.(type) {
		case *ast.ReturnStmt:
			effects(x.Results...)
		case *ast.DeclStmt:
			if gd, ok := x.Decl.(*ast.GenDecl); ok {
				for _, sp := range gd.Specs {
					if vs, ok := sp.(*ast.ValueSpec); ok {
						effects(vs.Values...)
					}
				}
			}
		case *ast.SelectStmt:
			if d, err := t.desugarSelect(x, outer); err == nil {
				walkStmt(d)
			}
		case *ast.AssignStmt:
			effects(x.Rhs...)
			// b := &xs[i] declared inside b: later writes through b are writes to xs
			if x.Tok == token.DEFINE && len(x.Lhs) == 1 && len(x.Rhs) == 1 {
				if ue, ok := x.Rhs[0].(*ast.UnaryExpr); ok && ue.Op == token.AND {
					if ie, ok := irUnparen(ue.X).(*ast.IndexExpr); ok {
						if id, ok := x.Lhs[0].(*ast.Ident); ok {
							if k, err := t.lhsKey(ie.X, outer); err == nil {
								localAlias[id.Name] = k
							}
						}
					}
				}
			}
			for _, l := range x.Lhs {
				if k, ok := aliasTarget(l); ok {
					add(k)
				} else if k, err := t.lhsKey(l, outer); err == nil && shadowed[k] == 0 {
					add(k)
				}
			}
		case *ast.IncDecStmt:
			if k, ok := aliasTarget(x.X); ok {
				add(k)
			} else if k, err := t.lhsKey(x.X, outer); err == nil {
				add(k)
			}
		case *ast.ExprStmt:
			effects(x.X) // an irEffCall used as a statement (resil)
			if ce, ok := x.X.(*ast.CallExpr); ok {
				ng := len(t.guards)
				sc, args, err := t.stmtCall(ce, outer)
				t.guards = t.guards[:ng]
				if err == nil {
					for _, l := range sc.Lets {
						name := irFmt(l.Var, args)
						if k, ok := outer.keyOfLean(name); ok {
							add(k)
						}
					}
				} else if se, ok := ce.Fun.(*ast.SelectorExpr); ok {
					// the call does not translate in the outer environment (it mentions variables declared
					// inside the block): conservatively assume every configured statement method of that
					// name, and count its literally named targets as assigned (engineer pipe)
					for key, m := range t.spec.StmtMethods {
						if strings.HasSuffix(key, "."+se.Sel.Name) {
							for _, l := range m.Lets {
								if !strings.Contains(l.Var, "%") {
									if k, ok := outer.keyOfLean(l.Var); ok {
										add(k)
									}
								} else if rx, err := t.tryExpr(se.X, outer); err == nil && key == rx.Ty+"."+se.Sel.Name {
									// target named after the receiver (`out.Del(sf)` with Var "%[1]s"): the receiver
									// translates although the arguments do not (engineer proxy)
									if k, ok := outer.keyOfLean(irFmt(l.Var, []string{rx.S, "_", "_", "_", "_"})); ok {
										add(k)
									}
								} else if n := irArgVar(l.Var); n >= 2 && n-2 < len(ce.Args) {
									// target named after an argument (`nextNode.addClients(ans)` with Var "%[2]s"): the
									// argument is a plain tracked variable although the receiver is bound deeper (engineer mqtt)
									if id, ok := irUnparen(ce.Args[n-2]).(*ast.Ident); ok {
										if v, ok := outer.vars[id.Name]; ok && !v.Param {
											add(id.Name)
										}
									}
								}
							}
						}
					}
				}
			}
		case *ast.IfStmt:
			var sh []string
			if as, ok := x.Init.(*ast.AssignStmt); ok && as.Tok == token.DEFINE && t.spec.AllowShadow {
				effects(as.Rhs...)
				for _, l := range as.Lhs {
					if id, ok := l.(*ast.Ident); ok && id.Name != "_" {
						sh = append(sh, id.Name)
						shadowed[id.Name]++
					}
				}
			} else {
				walkStmt(x.Init)
			}
			walk(x.Body.List)
			walk(irElse(x))
			for _, n := range sh {
				shadowed[n]--
			}
		case *ast.BlockStmt:
			walk(x.List)
		case *ast.LabeledStmt:
			walkStmt(x.Stmt)
		case *ast.SwitchStmt:
			walkStmt(x.Init)
			for _, c := range x.Body.List {
				walk(c.(*ast.CaseClause).Body)
			}
		case *ast.RangeStmt:
			walk(x.Body.List)
		case *ast.ForStmt:
			walkStmt(x.Init)
			walkStmt(x.Post)
			walk(x.Body.List)
		}
	}
	walk(b)
}

// stmtCall finds the configuration of a call used as a statement and its translated arguments.
func (t *irT) stmtCall(ce *ast.CallExpr, env *irEnv) (irStmtCall, []string, error) {
	fun := t.r.Src(ce.Fun)
	var sc irStmtCall
	var args []string
	found := false
	if se, ok := ce.Fun.(*ast.SelectorExpr); ok {
		if rx, err := t.tryExpr(se.X, env); err == nil {
			if m, ok := t.spec.StmtMethods[rx.Ty+"."+se.Sel.Name]; ok {
				sc, found = m, true
				args = append(args, rx.S)
			}
		}
	}
	if !found {
		if f, ok := t.spec.StmtFuncs[fun]; ok {
			sc, found = f, true
		}
	}
	if !found {
		return sc, nil, fmt.Errorf("unsupported statement %s", t.r.Src(ce))
	}
	if sc.NArgs >= 0 {
		if len(ce.Args) != sc.NArgs {
			return sc, nil, fmt.Errorf("%s: %d arguments, expected %d", fun, len(ce.Args), sc.NArgs)
		}
		_, as, err := t.exprs(ce.Args, env)
		if err != nil {
			return sc, nil, err
		}
		args = append(args, as...)
	}
	return sc, args, nil
}

// ---------------------------------------------------------------------------
// statements

func (t *irT) block(b []ast.Stmt, env *irEnv, ind string, k irK) (string, error) {
	return t.stmts(b, env.push(), ind, k)
}

func (t *irT) stmts(b []ast.Stmt, env *irEnv, ind string, k irK) (string, error) {
	if len(b) == 0 {
		if k == nil {
			return "", fmt.Errorf("block falls off the end without return")
		}
		return k(ind)
	}
	rest := b[1:]
	next := func(env2 *irEnv, ind string) (string, error) { return t.stmts(rest, env2, ind, k) }
	return t.stmt(b[0], env, ind, next)
}

// bind emits `let v : T := rhs` for an environment key, declaring it when new.
func (t *irT) bind(key string, define bool, rhs irTerm, env *irEnv, ind string) (string, *irEnv, error) {
	v, ok := env.vars[key]
	switch {
	case define && (!ok || v.Depth == env.depth):
		// new variable, or Go's redeclaration in the same scope (`a, err := …; b, err := …`)
		ty := rhs.Ty
		if ty == "lit" {
			ty = "Int"
		}
		if ty == "nil" || ty == "flit" {
			return "", nil, fmt.Errorf("cannot type %s := %s", key, ty)
		}
		if ok && !v.Param && v.Ty != ty {
			return "", nil, fmt.Errorf("redeclaration of %s changes type %s → %s", key, v.Ty, ty)
		}
		v = irVar{Lean: irIdent(key), Ty: ty, Depth: env.depth}
		env = env.with(key, v)
	case define && t.spec.AllowShadow:
		ty := rhs.Ty
		if ty == "lit" {
			ty = "Int"
		}
		if ty == "nil" || ty == "flit" {
			return "", nil, fmt.Errorf("cannot type %s := %s", key, ty)
		}
		t.nshadow++
		v = irVar{Lean: fmt.Sprintf("%s_%d", irIdent(key), t.nshadow), Ty: ty, Depth: env.depth}
		env = env.with(key, v)
	case define:
		return "", nil, fmt.Errorf("declaration of %s shadows an outer variable (not supported)", key)
	case !ok:
		return "", nil, fmt.Errorf("assignment to unknown variable %s", key)
	default:
		if rhs.Ty == "nil" && strings.HasPrefix(t.leanTy(v.Ty), "Option ") { // x = nil for an Option-typed variable
			rhs = irTerm{"none", v.Ty}
		}
		if _, okj := irJoinNum(v.Ty, rhs.Ty); !(okj && irIsNum(v.Ty) && irIsNum(rhs.Ty)) && v.Ty != rhs.Ty {
			return "", nil, fmt.Errorf("assignment of %s to %s : %s", rhs.Ty, key, v.Ty)
		}
		if v.Param { // assignment to a Go parameter: it becomes a local that shadows the binder
			nv := irVar{Lean: irIdent(key), Ty: v.Ty, Depth: v.Depth}
			if t.spec.Ext.ParamKeepsBinderName {
				nv.Lean = v.Lean // the local shadows the binder under the binder's own name
			}
			out := ""
			if nv.Lean != v.Lean {
				out = fmt.Sprintf("%slet %s : %s := %s\n", ind, nv.Lean, t.leanTy(nv.Ty), v.Lean)
			}
			env = env.with(key, nv)
			v = nv
			return out + fmt.Sprintf("%slet %s : %s := %s\n", ind, v.Lean, t.leanTy(v.Ty), rhs.S), env, nil
		}
	}
	return fmt.Sprintf("%slet %s : %s := %s\n", ind, v.Lean, t.leanTy(v.Ty), rhs.S), env, nil
}

func (t *irT) goType(e ast.Expr) (string, error) {
	src := t.r.Src(e)
	if v, ok := t.spec.GoTy[src]; ok {
		return v, nil
	}
	if v, ok := irDefaultGoTy[src]; ok {
		return v, nil
	}
	return "", fmt.Errorf("unsupported Go type %s", src)
}

func irZero(ty string) (string, bool) {
	switch ty {
	case "Int", "Nat":
		return "0", true
	case "Bool":
		return "false", true
	case "String":
		return "\"\"", true
	case "Error":
		return "false", true
	}
	if strings.HasPrefix(ty, "List ") {
		return "[]", true
	}
	return "", false
}

// stmt translates one statement. Guards of partial calls (irCall.Guard) evaluated by the statement
// are checked right after its bindings: `if guard then <rest> else <Panic>` (Lean is pure, so the
// order of the binding and the test does not matter).
func (t *irT) stmt(s ast.Stmt, env *irEnv, ind string, next irNext) (string, error) {
	if len(t.guards) != 0 {
		return "", fmt.Errorf("partial call in an unsupported position before %s", t.r.Src(s))
	}
	if t.spec.Ext.InlineClosures { // engineer mux: definition / calls of a local closure
		if out, ok, err := t.closureStmt(s, env, ind, next); ok || err != nil {
			return out, err
		}
	}
	genv := env // environment at the point where a pending guard is tested (for the panic branch)
	guarded := func(rest func(ind string) (string, error), ind string) (string, error) {
		g := t.guards
		t.guards = nil
		if len(g) == 0 {
			return rest(ind)
		}
		if t.spec.Panic == "" {
			return "", fmt.Errorf("partial call but panic not configured: %s", t.r.Src(s))
		}
		r, err := rest(ind + "  ")
		if err != nil {
			return "", err
		}
		pb, err := t.panicBranch(genv, ind+"  ")
		if err != nil {
			return "", err
		}
		t.nPanicElse++
		return fmt.Sprintf("%sif %s then\n%s%selse\n%s", ind, strings.Join(g, " && "), r, ind, pb), nil
	}
	if len(t.pre) != 0 {
		return "", fmt.Errorf("effectful call in an unsupported position before %s", t.r.Src(s))
	}
	switch s.(type) {
	case *ast.AssignStmt, *ast.IncDecStmt, *ast.DeclStmt, *ast.ExprStmt:
		inner := next
		next = func(env2 *irEnv, ind string) (string, error) {
			genv = env2
			return guarded(func(ind string) (string, error) { return inner(env2, ind) }, ind)
		}
	}
	if len(t.spec.EffFuncs) != 0 || len(t.spec.EffMethods) != 0 {
		switch s.(type) {
		case *ast.AssignStmt, *ast.DeclStmt, *ast.ExprStmt, *ast.ReturnStmt:
			// lets of effectful calls evaluated by this statement go in front of its own bindings
			var captured []irLet
			inner := next
			next = func(env2 *irEnv, ind string) (string, error) {
				captured, t.pre = append(captured, t.pre...), nil
				return inner(env2, ind)
			}
			res, err := t.stmtCore(s, env, ind, next)
			if err != nil {
				return "", err
			}
			captured, t.pre = append(captured, t.pre...), nil // a return does not call next
			out := ""
			for _, l := range captured {
				if k, ok := env.keyOfLean(l.Var); ok {
					ls, _, err := t.bind(k, false, irTerm{l.Fmt, l.Ty}, env, ind)
					if err != nil {
						return "", err
					}
					out += ls
				} else {
					out += fmt.Sprintf("%slet %s : %s := %s\n", ind, l.Var, t.leanTy(l.Ty), l.Fmt)
				}
			}
			return out + res, nil
		}
	}
	return t.stmtCore(s, env, ind, next)
}

// panicBranch: what a panicking partial call continues with — the configured Panic result, preceded
// (irSpec.DeferInline) by the body of the deferred closure that is active at this point.
func (t *irT) panicBranch(env *irEnv, ind string) (string, error) {
	fin := func(ind string) (string, error) { return ind + t.wrapRet(t.spec.Panic) + "\n", nil }
	if len(t.deferred) == 0 {
		return fin(ind)
	}
	d := t.deferred
	t.deferred = nil // a panic inside the deferred body itself is not modelled
	out, err := t.stmts(d, env.push(), ind, fin)
	t.deferred = d
	return out, err
}

func (t *irT) stmtCore(s ast.Stmt, env *irEnv, ind string, next irNext) (string, error) {
	if es, ok := s.(*ast.ExprStmt); ok && t.deferB != nil {
		if ce, ok := es.X.(*ast.CallExpr); ok {
			if id, ok := ce.Fun.(*ast.Ident); ok && id.Name == "§defer" {
				// irSpec.DeferInline: from here on the deferred closure is active
				old := t.deferred
				t.deferred = t.deferB
				out, err := next(env, ind)
				t.deferred = old
				return out, err
			}
		}
	}
	guarded := func(rest func(ind string) (string, error), ind string) (string, error) {
		g := t.guards
		t.guards = nil
		if len(g) == 0 {
			return rest(ind)
		}
		if t.spec.Panic == "" {
			return "", fmt.Errorf("partial call but panic not configured: %s", t.r.Src(s))
		}
		r, err := rest(ind + "  ")
		if err != nil {
			return "", err
		}
		pb, err := t.panicBranch(env, ind+"  ")
		if err != nil {
			return "", err
		}
		t.nPanicElse++
		return fmt.Sprintf("%sif %s then\n%s%selse\n%s", ind, strings.Join(g, " && "), r, ind, pb), nil
	}
	if t.ignorable(s) {
		t.skipped = append(t.skipped, t.r.Src(s))
		return next(env, ind)
	}
	if t.spec.StmtHook != nil {
		lets, ok, err := t.spec.StmtHook(t, s, env)
		if err != nil {
			return "", err
		}
		if ok {
			out := ""
			for _, l := range lets {
				rhs := irTerm{l.Fmt, l.Ty}
				if k, ok := env.keyOfLean(l.Var); ok {
					ls, env2, err := t.bind(k, false, rhs, env, ind)
					if err != nil {
						return "", err
					}
					out, env = out+ls, env2
				} else {
					out += fmt.Sprintf("%slet %s : %s := %s\n", ind, l.Var, t.leanTy(l.Ty), rhs.S)
				}
			}
			r, err := next(env, ind)
			return out + r, err
		}
	}
	switch x := s.(type) {
	case *ast.EmptyStmt:
		return next(env, ind)
	case *ast.BlockStmt:
		return t.block(x.List, env, ind, func(ind string) (string, error) { return next(env, ind) })
	case *ast.DeclStmt:
		gd, ok := x.Decl.(*ast.GenDecl)
		if !ok || (gd.Tok != token.VAR && gd.Tok != token.CONST) {
			break
		}
		if gd.Tok == token.CONST { // local constants: every name needs its own value (no iota / repetition)
			for _, sp := range gd.Specs {
				if vs := sp.(*ast.ValueSpec); len(vs.Values) != len(vs.Names) {
					return "", fmt.Errorf("unsupported constant declaration %s", t.r.Src(s))
				}
			}
		}
		out := ""
		for _, sp := range gd.Specs {
			vs := sp.(*ast.ValueSpec)
			for i, n := range vs.Names {
				var val irTerm
				if i < len(vs.Values) {
					v, err := t.expr(vs.Values[i], env)
					if err != nil {
						return "", err
					}
					val = v
				}
				if vs.Type != nil {
					ty, err := t.goType(vs.Type)
					if err != nil {
						return "", err
					}
					if val.S == "" {
						z, ok := irZero(ty)
						if zz, ok2 := t.spec.Zero[ty]; ok2 {
							z, ok = zz, true
						}
						if !ok {
							return "", fmt.Errorf("no zero value for %s (%s)", ty, t.r.Src(s))
						}
						val = irTerm{z, ty}
					} else if val.Ty == "lit" || val.Ty == "nil" {
						val.Ty = ty
					}
				} else if val.S == "" {
					return "", fmt.Errorf("unsupported declaration %s", t.r.Src(s))
				}
				if n.Name == "_" {
					continue
				}
				l, env2, err := t.bind(n.Name, true, val, env, ind)
				if err != nil {
					return "", err
				}
				out, env = out+l, env2
			}
		}
		r, err := next(env, ind)
		return out + r, err
	case *ast.IncDecStmt:
		one := &ast.BasicLit{Kind: token.INT, Value: "1"}
		tok := token.ADD_ASSIGN
		if x.Tok == token.DEC {
			tok = token.SUB_ASSIGN
		}
		return t.assign(&ast.AssignStmt{Lhs: []ast.Expr{x.X}, Tok: tok, Rhs: []ast.Expr{one}}, env, ind, next)
	case *ast.AssignStmt:
		return t.assign(x, env, ind, next)
	case *ast.ReturnStmt:
		vals, _, err := t.exprs(x.Results, env)
		if err != nil {
			return "", err
		}
		if t.retK != nil { // inside an inlined closure body (engineer mux): bind the result, continue after the call
			k := t.retK
			return guarded(func(ind string) (string, error) { return k(vals, ind) }, ind)
		}
		r, err := t.spec.Ret(vals)
		if err != nil {
			return "", fmt.Errorf("%v (%s)", err, t.r.Src(s))
		}
		return guarded(func(ind string) (string, error) { return ind + t.wrapRet(r) + "\n", nil }, ind)
	case *ast.LabeledStmt:
		// a labelled range / for statement: the label is handed to loopFn (labelled `continue` only)
		switch x.Stmt.(type) {
		case *ast.RangeStmt, *ast.ForStmt:
			t.plabel = x.Label.Name
			out, err := t.stmt(x.Stmt, env, ind, next)
			t.plabel = ""
			return out, err
		}
	case *ast.BranchStmt:
		if x.Label != nil && t.loop != nil && x.Tok == token.CONTINUE {
			switch x.Label.Name {
			case t.loop.label: // the innermost loop's own label: a plain continue
				return t.loop.cont(ind)
			case t.loop.lblCont: // continue of the directly enclosing labelled loop from its inner loop
				return ind + ".inl (.inr " + t.loop.lblVal + ")\n", nil
			}
		}
		if x.Label != nil || t.loop == nil {
			break
		}
		switch x.Tok {
		case token.CONTINUE:
			return t.loop.cont(ind)
		case token.BREAK:
			return t.loop.brk(ind)
		}
	case *ast.ExprStmt:
		if t.isPanic(s) {
			if t.spec.Panic == "" {
				return "", fmt.Errorf("panic not configured: %s", t.r.Src(s))
			}
			return ind + t.wrapRet(t.spec.Panic) + "\n", nil
		}
		ce, ok := x.X.(*ast.CallExpr)
		if !ok {
			break
		}
		if _, _, isEff := t.effCall(ce, env); isEff {
			// an effectful call (irEffCall) used as a statement: its value is dropped, its lets and its
			// guard are emitted by the wrappers in stmt (resil)
			if _, err := t.call(ce, env); err != nil {
				return "", err
			}
			return next(env, ind)
		}
		sc, args, err := t.stmtCall(ce, env)
		if err != nil {
			return "", err
		}
		out := ""
		for _, l := range sc.Lets {
			name := irFmt(l.Var, args)
			rhs := irTerm{irFmt(l.Fmt, args), l.Ty}
			if k, ok := env.keyOfLean(name); ok {
				ls, env2, err := t.bind(k, false, rhs, env, ind)
				if err != nil {
					return "", err
				}
				out, env = out+ls, env2
			} else { // auxiliary binding, not a tracked variable
				out += fmt.Sprintf("%slet %s : %s := %s\n", ind, name, t.leanTy(l.Ty), rhs.S)
			}
		}
		if sc.Guard != "" { // the call panics when the guard is false (checked after its bindings)
			t.guards = append(t.guards, irFmt(sc.Guard, args))
		}
		r, err := next(env, ind)
		return out + r, err
	case *ast.IfStmt:
		return t.ifStmt(x, env, ind, next)
	case *ast.SwitchStmt:
		d, err := t.desugarSwitch(x)
		if err != nil {
			return "", err
		}
		return t.stmt(d, env, ind, next)
	case *ast.RangeStmt:
		return t.rangeStmt(x, env, ind, next)
	case *ast.ForStmt:
		if len(t.spec.WhileFuel) > 0 && !irIsCountedFor(x) {
			return t.whileStmt(x, env, ind, next)
		}
		return t.forStmt(x, env, ind, next)
	case *ast.SelectStmt:
		d, err := t.desugarSelect(x, env)
		if err != nil {
			return "", err
		}
		return t.stmt(d, env, ind, next)
	}
	return "", fmt.Errorf("unsupported statement %s", t.r.Src(s))
}

// desugarSelect rewrites `select { case <-c1(args…): b1 … }` into an if-chain over the environment's
// choice oracle `§select(i)`, in the order of irSpec.SelectComm (so the source order of the clauses
// does not matter); each branch starts with the clause's synthetic statement. Every clause must be a
// receive from a configured call, every configured clause must be present once, no default clause.
// env == nil: receivers are keyed by the printed callee only (used by the flow analyses, which do not
// depend on the keys' types … they re-try with the statement's environment where one is at hand).
func (t *irT) desugarSelect(x *ast.SelectStmt, env *irEnv) (ast.Stmt, error) {
	if len(t.spec.SelectComm) == 0 {
		return nil, fmt.Errorf("select not configured")
	}
	bodies := make([][]ast.Stmt, len(t.spec.SelectComm))
	seen := make([]bool, len(t.spec.SelectComm))
	for _, c := range x.Body.List {
		cc := c.(*ast.CommClause)
		var call *ast.CallExpr
		if es, ok := cc.Comm.(*ast.ExprStmt); ok {
			if ue, ok := es.X.(*ast.UnaryExpr); ok && ue.Op == token.ARROW {
				call, _ = ue.X.(*ast.CallExpr)
				if se, ok := ue.X.(*ast.SelectorExpr); ok && call == nil {
					// receive from a channel-valued field (`<-timer.C`): keyed like a method, the holder
					// of the field is passed on as the synthetic statement's only argument
					call = &ast.CallExpr{Fun: se, Args: []ast.Expr{se.X}}
				}
			}
		}
		if call == nil {
			return nil, fmt.Errorf("unsupported select clause %s", t.r.Src(cc))
		}
		keys := []string{"<-" + t.r.Src(call.Fun)}
		if se, ok := call.Fun.(*ast.SelectorExpr); ok {
			if env != nil {
				if rx, err := t.tryExpr(se.X, env); err == nil {
					keys = []string{"<-" + rx.Ty + "." + se.Sel.Name}
				}
			} else {
				keys = append(keys, "<-*."+se.Sel.Name)
			}
		}
		idx := -1
		for i, sc := range t.spec.SelectComm {
			for _, k := range keys {
				if sc.Key == k || (strings.HasPrefix(k, "<-*.") && strings.HasSuffix(sc.Key, k[3:]) && strings.Contains(sc.Key, ".")) {
					idx = i
				}
			}
		}
		if idx < 0 || seen[idx] {
			return nil, fmt.Errorf("select clause %s not configured (or repeated)", t.r.Src(cc.Comm))
		}
		seen[idx] = true
		first := &ast.ExprStmt{X: &ast.CallExpr{Fun: ast.NewIdent(t.spec.SelectComm[idx].Stmt), Args: call.Args}}
		bodies[idx] = append([]ast.Stmt{first}, cc.Body...)
	}
	for i, ok := range seen {
		if !ok {
			return nil, fmt.Errorf("select lacks the clause %s", t.spec.SelectComm[i].Key)
		}
	}
	var cur ast.Stmt = &ast.BlockStmt{List: bodies[len(bodies)-1]}
	for i := len(bodies) - 2; i >= 0; i-- {
		cond := &ast.CallExpr{Fun: ast.NewIdent("§select"), Args: []ast.Expr{&ast.BasicLit{Kind: token.INT, Value: strconv.Itoa(i)}}}
		cur = &ast.IfStmt{Cond: cond, Body: &ast.BlockStmt{List: bodies[i]}, Else: cur}
	}
	return cur, nil
}

func (t *irT) wrapRet(r string) string {
	if t.inLoop && t.loop != nil && t.loop.lblCont != "" {
		return ".inl (.inl (" + r + "))" // inner loop of a labelled loop: `.inl (.inr …)` is `continue <label>`
	}
	if t.inLoop {
		return ".inl (" + r + ")"
	}
	return r
}

func (t *irT) assign(x *ast.AssignStmt, env *irEnv, ind string, next irNext) (string, error) {
	define := x.Tok == token.DEFINE
	// multi-value: a, b := f(x) with a tuple-typed call
	if len(x.Lhs) > 1 && len(x.Rhs) == 1 {
		if x.Tok != token.DEFINE && x.Tok != token.ASSIGN {
			return "", fmt.Errorf("unsupported assignment %s", t.r.Src(x))
		}
		var rhs irTerm
		var err error
		if ie, isIdx := irUnparen(x.Rhs[0]).(*ast.IndexExpr); isIdx && len(x.Lhs) == 2 && len(t.spec.Ext.IndexOk) > 0 && !t.hooked(x.Rhs[0], env) {
			// v, ok := m[k]
			c, err := t.expr(ie.X, env)
			if err != nil {
				return "", err
			}
			f, ok := t.spec.Ext.IndexOk[c.Ty]
			if !ok {
				return "", fmt.Errorf("comma-ok indexing of %s not configured (%s)", c.Ty, t.r.Src(x))
			}
			i, err := t.expr(ie.Index, env)
			if err != nil {
				return "", err
			}
			rhs = irTerm{irFmt(f.Fmt, []string{c.S, i.S}), f.Ty}
		} else {
			rhs, err = t.expr(x.Rhs[0], env)
		}
		if err != nil {
			return "", err
		}
		parts := irSplitProd(rhs.Ty)
		if len(parts) != len(x.Lhs) {
			return "", fmt.Errorf("%s: %d targets for a value of type %s", t.r.Src(x), len(x.Lhs), rhs.Ty)
		}
		t.ntmp++
		tmp := fmt.Sprintf("t%d__", t.ntmp)
		out := fmt.Sprintf("%slet %s : %s := %s\n", ind, tmp, t.leanTy(rhs.Ty), rhs.S)
		for i, l := range x.Lhs {
			k, err := t.lhsKey(l, env)
			if err != nil {
				return "", err
			}
			if k == "" {
				continue
			}
			ls, env2, err := t.bind(k, define, irTerm{irProj(tmp, i, len(parts)), parts[i]}, env, ind)
			if err != nil {
				return "", err
			}
			out, env = out+ls, env2
		}
		r, err := next(env, ind)
		return out + r, err
	}
	if len(x.Lhs) != len(x.Rhs) {
		return "", fmt.Errorf("unsupported assignment %s", t.r.Src(x))
	}
	// b := &xs[i]: pointer into a tracked collection
	if define && len(x.Lhs) == 1 {
		if ue, ok := x.Rhs[0].(*ast.UnaryExpr); ok && ue.Op == token.AND && !t.hooked(x.Rhs[0], env) {
			ie, ok1 := irUnparen(ue.X).(*ast.IndexExpr)
			id, ok2 := x.Lhs[0].(*ast.Ident)
			if !ok1 || !ok2 || irInEnv(env, id.Name) {
				return "", fmt.Errorf("unsupported pointer %s", t.r.Src(x))
			}
			if el, ok := t.rangeElem(ie, env); ok {
				// b := &xs[i] inside `for i := range xs`: b is the current element (read-only: a write
				// through b has no assignable target and fails the extraction)
				return next(env.with(id.Name, irVar{Lean: el.S, Ty: el.Ty, Depth: env.depth, Param: true}), ind)
			}
			ck, err := t.lhsKey(ie.X, env)
			if err != nil {
				// read-only pointer into a collection that is not a variable (a field of the receiver …):
				// the element is read once; writes through b have no assignable target and fail
				el, err2 := t.expr(ie, env)
				if err2 != nil {
					return "", err
				}
				ls, env2, err2 := t.bind(id.Name, true, el, env, ind)
				if err2 != nil {
					return "", err2
				}
				r, err2 := next(env2, ind)
				return ls + r, err2
			}
			coll, ok := env.vars[ck]
			if !ok {
				return "", fmt.Errorf("pointer into untracked collection %s", t.r.Src(x))
			}
			f, ok := t.spec.Index[coll.Ty]
			if !ok {
				return "", fmt.Errorf("indexing of %s not configured (%s)", coll.Ty, t.r.Src(x))
			}
			idx, err := t.expr(ie.Index, env)
			if err != nil {
				return "", err
			}
			ity := idx.Ty
			if ity == "lit" {
				ity = "Int"
			}
			iname := irIdent(id.Name) + "_idx__"
			out := fmt.Sprintf("%slet %s : %s := %s\n", ind, iname, t.leanTy(ity), idx.S)
			env = env.with(id.Name, irVar{Lean: iname, Ty: ity, Depth: env.depth, Alias: &irAlias{CollKey: ck, Idx: iname, ElemTy: f.Ty}})
			r, err := next(env, ind)
			return out + r, err
		}
	}
	// parallel assignment: evaluate all right-hand sides first when there are several
	var rhss []irTerm
	for _, r := range x.Rhs {
		v, err := t.expr(r, env)
		if err != nil {
			return "", err
		}
		rhss = append(rhss, v)
	}
	out := ""
	if len(x.Lhs) > 1 {
		for i := range rhss {
			tmp := fmt.Sprintf("p%d__", i)
			ty := rhss[i].Ty
			out += fmt.Sprintf("%slet %s : %s := %s\n", ind, tmp, t.leanTy(ty), rhss[i].S)
			rhss[i].S = tmp
		}
	}
	for i, l := range x.Lhs {
		rhs := rhss[i]
		k, err := t.lhsKey(l, env)
		if err != nil {
			return "", err
		}
		if k == "" {
			continue
		}
		// xs[i] = v
		if ie, ok := irUnparen(l).(*ast.IndexExpr); ok {
			if define {
				return "", fmt.Errorf("unsupported assignment %s", t.r.Src(x))
			}
			if x.Tok != token.ASSIGN { // m[k] op= v  (m[k]++): the new value is `m[k] op v`
				op, ok := irAssignOp[x.Tok]
				if !ok {
					return "", fmt.Errorf("unsupported assignment operator in %s", t.r.Src(x))
				}
				v, err := t.binary(&ast.BinaryExpr{X: l, Op: op, Y: x.Rhs[i]}, env)
				if err != nil {
					return "", err
				}
				rhs = v
			}
			coll, err := t.expr(ie.X, env)
			if err != nil {
				return "", err
			}
			idx, err := t.expr(ie.Index, env)
			if err != nil {
				return "", err
			}
			f, ok := t.spec.IndexSet[coll.Ty]
			if !ok {
				return "", fmt.Errorf("index assignment on %s not configured (%s)", coll.Ty, t.r.Src(x))
			}
			rhs = irTerm{irFmt(f, []string{coll.S, idx.S, rhs.S}), coll.Ty}
		} else if !define && x.Tok != token.ASSIGN {
			var op token.Token
			switch x.Tok {
			case token.ADD_ASSIGN:
				op = token.ADD
			case token.SUB_ASSIGN:
				op = token.SUB
			case token.MUL_ASSIGN:
				op = token.MUL
			case token.QUO_ASSIGN:
				op = token.QUO
			case token.REM_ASSIGN:
				op = token.REM
			default:
				return "", fmt.Errorf("unsupported assignment operator in %s", t.r.Src(x))
			}
			v, err := t.binary(&ast.BinaryExpr{X: l, Op: op, Y: x.Rhs[i]}, env)
			if err != nil {
				return "", err
			}
			rhs = v
		}
		// writes through a pointer into a collection
		var al *irAlias
		field := ""
		switch tl := irUnparen(l).(type) {
		case *ast.StarExpr:
			al = irAliasOf(tl.X, env)
		case *ast.SelectorExpr:
			al, field = irAliasOf(tl.X, env), tl.Sel.Name
		}
		if al != nil {
			if define {
				return "", fmt.Errorf("unsupported assignment %s", t.r.Src(x))
			}
			coll := env.vars[al.CollKey]
			set, ok := t.spec.IndexSet[coll.Ty]
			if !ok {
				return "", fmt.Errorf("index assignment on %s not configured (%s)", coll.Ty, t.r.Src(x))
			}
			elem := rhs.S
			if field != "" {
				lf, ok := t.spec.FieldSet[al.ElemTy+"."+field]
				if !ok {
					return "", fmt.Errorf("field update %s.%s not configured (%s)", al.ElemTy, field, t.r.Src(x))
				}
				cur, err := t.expr(irUnparen(l).(*ast.SelectorExpr).X, env)
				if err != nil {
					return "", err
				}
				elem = fmt.Sprintf("{ %s with %s := %s }", cur.S, lf, rhs.S)
			} else if rhs.Ty != al.ElemTy {
				return "", fmt.Errorf("assignment of %s through *%s", rhs.Ty, al.ElemTy)
			}
			rhs = irTerm{irFmt(set, []string{coll.Lean, al.Idx, elem}), coll.Ty}
		}
		ls, env2, err := t.bind(k, define, rhs, env, ind)
		if err != nil {
			return "", err
		}
		out, env = out+ls, env2
	}
	r, err := next(env, ind)
	return out + r, err
}

// hooked: the spec's Hook translates e itself (e.g. `&T{}` as an opaque value).
func (t *irT) hooked(e ast.Expr, env *irEnv) bool {
	if t.spec.Hook == nil {
		return false
	}
	ng, np := len(t.guards), len(t.pre)
	_, ok, err := t.spec.Hook(t, e, env)
	t.guards, t.pre = t.guards[:ng], t.pre[:np]
	return ok && err == nil
}

var irAssignOp = map[token.Token]token.Token{token.ADD_ASSIGN: token.ADD, token.SUB_ASSIGN: token.SUB,
	token.MUL_ASSIGN: token.MUL, token.QUO_ASSIGN: token.QUO, token.REM_ASSIGN: token.REM}

func irAliasOf(e ast.Expr, env *irEnv) *irAlias {
	if id, ok := irUnparen(e).(*ast.Ident); ok {
		if v, ok := env.vars[id.Name]; ok {
			return v.Alias
		}
	}
	return nil
}

// irMentions: some statement of b contains the identifier name (used by loopFn, resil).
func irMentions(b []ast.Stmt, name string) bool {
	found := false
	for _, s := range b {
		ast.Inspect(s, func(n ast.Node) bool {
			if id, ok := n.(*ast.Ident); ok && id.Name == name {
				found = true
			}
			return !found
		})
	}
	return found
}

func irUnparen(e ast.Expr) ast.Expr {
	for {
		p, ok := e.(*ast.ParenExpr)
		if !ok {
			return e
		}
		e = p.X
	}
}

// tuple of the given environment keys (Lean names), and its type.
func (t *irT) tuple(keys []string, env *irEnv) (val, pat, ty string) {
	if len(keys) == 0 {
		return "()", "_", "Unit"
	}
	var ns, ts []string
	for _, k := range keys {
		v := env.vars[k]
		ns = append(ns, v.Lean)
		lt := t.leanTy(v.Ty)
		if strings.Contains(lt, "×") {
			lt = "(" + lt + ")"
		}
		ts = append(ts, lt)
	}
	if len(keys) == 1 {
		return ns[0], ns[0], ts[0]
	}
	return "(" + strings.Join(ns, ", ") + ")", "(" + strings.Join(ns, ", ") + ")", strings.Join(ts, " × ")
}

func (t *irT) sortedKeys(set map[string]bool, env *irEnv) []string {
	var keys []string
	for _, k := range env.order {
		if set[k] {
			keys = append(keys, k)
		}
	}
	return keys
}

func (t *irT) ifStmt(x *ast.IfStmt, env *irEnv, ind string, next irNext) (string, error) {
	if x.Init != nil {
		if as, ok := x.Init.(*ast.AssignStmt); ok && as.Tok == token.DEFINE {
			for _, l := range as.Lhs {
				if id, ok := l.(*ast.Ident); ok && id.Name != "_" && irInEnv(env, id.Name) && !t.spec.AllowShadow {
					return "", fmt.Errorf("if-init redeclares %s (shadowing not supported)", id.Name)
				}
			}
		}
		return t.stmt(x.Init, env.push(), ind, func(env2 *irEnv, ind string) (string, error) {
			return t.ifCore(x, env, env2, ind, next)
		})
	}
	return t.ifCore(x, env, env, ind, next)
}

func (t *irT) ifCore(x *ast.IfStmt, outer, cenv *irEnv, ind string, next irNext) (string, error) {
	cond, err := t.expr(x.Cond, cenv)
	if err != nil {
		return "", err
	}
	if cond.Ty != "Bool" {
		return "", fmt.Errorf("condition %s has type %s", t.r.Src(x.Cond), cond.Ty)
	}
	if len(t.pre) != 0 {
		return "", fmt.Errorf("effectful call in a condition (not supported): %s", t.r.Src(x.Cond))
	}
	thenB, elseB := x.Body.List, irElse(x)
	after := func(ind string) (string, error) { return next(outer, ind) }
	thenT, elseT := t.terminates(thenB), t.terminates(elseB)
	emit := func(kt, ke irK) (string, error) {
		th, err := t.block(thenB, cenv, ind+"  ", kt)
		if err != nil {
			return "", err
		}
		el, err := t.block(elseB, cenv, ind+"  ", ke)
		if err != nil {
			return "", err
		}
		return fmt.Sprintf("%sif %s then\n%s%selse\n%s", ind, cond.S, th, ind, el), nil
	}
	switch {
	case thenT && elseT:
		return emit(nil, nil)
	case thenT:
		return emit(nil, after)
	case elseT:
		return emit(after, nil)
	}
	if t.exits(thenB, false) || t.exits(elseB, false) {
		return emit(after, after) // continuation duplicated into both branches
	}
	// neither branch leaves: merge the assigned outer variables through a tuple
	set := map[string]bool{}
	t.assigned(thenB, outer, set)
	t.assigned(elseB, outer, set)
	keys := t.sortedKeys(set, outer)
	// A branch that contains a partial call (its `else <panic>` has the function's result type, not the
	// merge tuple's) can neither be merged nor skipped: duplicate the continuation instead (engineer pipe).
	nPanic0 := t.nPanicElse
	if len(keys) == 0 {
		// no modelled effect; the branches must still translate (nothing is skipped unseen)
		fin := func(ind string) (string, error) { return ind + "()\n", nil }
		if _, err := t.block(thenB, cenv, ind, fin); err != nil {
			return "", err
		}
		if _, err := t.block(elseB, cenv, ind, fin); err != nil {
			return "", err
		}
		if t.nPanicElse != nPanic0 {
			return emit(after, after)
		}
		t.skipped = append(t.skipped, "(no modelled effect) "+t.r.Src(x))
		return next(outer, ind)
	}
	val, _, ty := t.tuple(keys, outer)
	fin := func(ind string) (string, error) { return ind + val + "\n", nil }
	th, err := t.block(thenB, cenv, ind+"    ", fin)
	if err != nil {
		return "", err
	}
	el, err := t.block(elseB, cenv, ind+"    ", fin)
	if err != nil {
		return "", err
	}
	if t.nPanicElse != nPanic0 {
		return emit(after, after)
	}
	name := val
	if len(keys) > 1 {
		name = fmt.Sprintf("m%d__", len(ind))
	}
	out := fmt.Sprintf("%slet %s : %s :=\n%s  if %s then\n%s%s  else\n%s", ind, name, ty, ind, cond.S, th, ind, el)
	if len(keys) > 1 {
		for i, k := range keys {
			v := outer.vars[k]
			out += fmt.Sprintf("%slet %s : %s := %s\n", ind, v.Lean, t.leanTy(v.Ty), irProj(name, i, len(keys)))
		}
	}
	r, err := next(outer, ind)
	return out + r, err
}

// desugarSwitch rewrites a switch into nested if statements (default last).
func (t *irT) desugarSwitch(x *ast.SwitchStmt) (ast.Stmt, error) {
	var deflt []ast.Stmt
	hasDefault := false
	type cas struct {
		cond ast.Expr
		body []ast.Stmt
	}
	var cases []cas
	for _, c := range x.Body.List {
		cc := c.(*ast.CaseClause)
		for _, s := range cc.Body {
			if bs, ok := s.(*ast.BranchStmt); ok && (bs.Tok == token.FALLTHROUGH || bs.Tok == token.BREAK) {
				return nil, fmt.Errorf("unsupported %s in switch", bs.Tok)
			}
		}
		if cc.List == nil {
			deflt, hasDefault = cc.Body, true
			continue
		}
		var cond ast.Expr
		for _, e := range cc.List {
			var c1 ast.Expr = e
			if x.Tag != nil {
				c1 = &ast.BinaryExpr{X: x.Tag, Op: token.EQL, Y: e}
			}
			if cond == nil {
				cond = c1
			} else {
				cond = &ast.BinaryExpr{X: cond, Op: token.LOR, Y: c1}
			}
		}
		cases = append(cases, cas{cond, cc.Body})
	}
	var cur ast.Stmt
	if hasDefault {
		cur = &ast.BlockStmt{List: deflt}
	}
	for i := len(cases) - 1; i >= 0; i-- {
		cur = &ast.IfStmt{Cond: cases[i].cond, Body: &ast.BlockStmt{List: cases[i].body}, Else: cur}
	}
	if cur == nil {
		cur = &ast.BlockStmt{}
	}
	if is, ok := cur.(*ast.IfStmt); ok {
		is.Init = x.Init
	} else if x.Init != nil {
		cur = &ast.BlockStmt{List: []ast.Stmt{x.Init, cur}}
	}
	return cur, nil
}

// loopFn emits the generated recursive function and the call site.
func (t *irT) loopFn(body []ast.Stmt, env *irEnv, ind string, next irNext,
	extraBinder, extraArgRec, extraArgInit string, // additional threaded variable (counted loops)
	domTy, nilPat, consPat, recArg, initArg string,
	bodyEnv func(*irEnv) *irEnv) (string, error) {

	t.nloop++
	name := fmt.Sprintf("%s_loop%d", t.spec.Name, t.nloop)
	set := map[string]bool{}
	t.assigned(body, env, set)
	// second pass with the loop's own variables bound: a statement call whose arguments mention them
	// (`delete(m, k)` inside `for k, v := range m`) could not be analysed above and its updates of outer
	// variables were missed (only adds keys of `env`; sortedKeys drops everything else)
	t.assigned(body, bodyEnv(env.push()), set)
	keys := t.sortedKeys(set, env)
	// A Go parameter assigned in the loop whose Go name differs from its binder's name: make it a
	// local first (otherwise the recursive call and the `.inr` tuple would pass on the binder's value).
	// With equal names the `let` in the body shadows the binder and the output is as before.
	paramPre := ""
	for _, k := range keys {
		if v := env.vars[k]; v.Param && irIdent(k) != v.Lean && !t.spec.Ext.ParamKeepsBinderName {
			paramPre += fmt.Sprintf("%slet %s : %s := %s\n", ind, irIdent(k), t.leanTy(v.Ty), v.Lean)
			env = env.with(k, irVar{Lean: irIdent(k), Ty: v.Ty, Depth: v.Depth})
		}
	}
	val, pat, sty := t.tuple(keys, env)

	locals := env.locals()
	var binders, args []string
	binders = append(binders, t.spec.Binders)
	args = append(args, t.spec.BNames...)
	for _, v := range locals {
		binders = append(binders, fmt.Sprintf("(%s : %s)", v.Lean, t.leanTy(v.Ty)))
		args = append(args, v.Lean)
	}
	// variables bound by an ENCLOSING loop (its range / index variable) that this loop's body mentions:
	// without them the nested function would refer to an unbound name (so no output that compiled
	// before is changed by this)
	for _, k := range env.order {
		v := env.vars[k]
		if !v.Param || v.Alias != nil || v.Lean != irIdent(k) || k == "true" || k == "false" {
			continue
		}
		bound := false
		for _, b := range t.spec.BNames {
			bound = bound || b == v.Lean
		}
		if bound || !irMentions(body, k) {
			continue
		}
		binders = append(binders, fmt.Sprintf("(%s : %s)", v.Lean, t.leanTy(v.Ty)))
		args = append(args, v.Lean)
	}
	if extraBinder != "" {
		binders = append(binders, extraBinder)
	}
	callWith := func(extra, dom string) string {
		a := append([]string(nil), args...)
		if extra != "" {
			a = append(a, extra)
		}
		a = append(a, dom)
		return name + " " + strings.Join(a, " ")
	}
	rty := t.spec.RetTy
	if strings.Contains(rty, " ") {
		rty = "(" + rty + ")"
	}
	lsty := sty
	if strings.Contains(lsty, " ") {
		lsty = "(" + lsty + ")"
	}
	savedLoop, savedIn := t.loop, t.inLoop
	cont := func(ind string) (string, error) { return ind + callWith(extraArgRec, recArg) + "\n", nil }
	t.loop = &irLoopCtx{cont: cont, brk: func(ind string) (string, error) { return ind + ".inr " + val + "\n", nil }}
	// labelled loops: this loop's own label, and `continue L` of the directly enclosing loop L in the body
	t.loop.label, t.plabel = t.plabel, ""
	if savedLoop != nil && savedLoop.label != "" && t.loop.label == "" && irHasLabelledContinue(body, savedLoop.label) {
		t.loop.lblCont, t.loop.lblVal = savedLoop.label, val
	}
	lblCont := t.loop.lblCont
	t.inLoop = true
	// general for-loops (irSpec.WhileFuel): running out of fuel is the Panic result, not the end of the loop
	nilRHS := ".inr " + val
	if t.whileX {
		nilRHS, t.whileX = t.wrapRet(t.spec.Panic), false
	}
	savedRanges := t.ranges
	b, err := t.stmts(body, bodyEnv(env.push()), "    ", cont)
	t.loop, t.inLoop, t.ranges = savedLoop, savedIn, savedRanges
	if err != nil {
		return "", err
	}
	if lblCont != "" {
		// result: .inl (.inl r) = return r, .inl (.inr vars) = `continue <label>` of the enclosing loop, .inr vars = loop done
		def := fmt.Sprintf("def %s %s : %s → Sum (Sum %s %s) %s\n  | %s => %s\n  | %s =>\n%s",
			name, strings.Join(binders, " "), domTy, rty, lsty, lsty, nilPat, nilRHS, consPat, b)
		t.aux = append(t.aux, def)
		r, err := next(env, ind+"  ")
		if err != nil {
			return "", err
		}
		oc, err := savedLoop.cont(ind + "  ")
		if err != nil {
			return "", err
		}
		return paramPre + fmt.Sprintf("%smatch %s with\n%s| .inl (.inl r__) => %s\n%s| .inl (.inr %s) =>\n%s%s| .inr %s =>\n%s",
			ind, callWith(extraArgInit, initArg), ind, t.wrapRet("r__"), ind, pat, oc, ind, pat, r), nil
	}
	def := fmt.Sprintf("def %s %s : %s → Sum %s %s\n  | %s => %s\n  | %s =>\n%s",
		name, strings.Join(binders, " "), domTy, rty, lsty, nilPat, nilRHS, consPat, b)
	t.aux = append(t.aux, def)

	r, err := next(env, ind+"  ")
	if err != nil {
		return "", err
	}
	return paramPre + fmt.Sprintf("%smatch %s with\n%s| .inl r__ => %s\n%s| .inr %s =>\n%s",
		ind, callWith(extraArgInit, initArg), ind, t.wrapRet("r__"), ind, pat, r), nil
}

func (t *irT) rangeStmt(x *ast.RangeStmt, env *irEnv, ind string, next irNext) (string, error) {
	if x.Tok != token.DEFINE && !(x.Key == nil && x.Value == nil) {
		return "", fmt.Errorf("unsupported range %s", t.r.Src(x.X))
	}
	if len(t.spec.RangeKV) > 0 && x.Tok == token.DEFINE && x.Key != nil {
		if s, handled, err := t.rangeKVStmt(x, env, ind, next); handled {
			return s, err
		}
	}
	kname := ""
	if x.Key != nil {
		id, ok := x.Key.(*ast.Ident)
		if !ok {
			return "", fmt.Errorf("range with index variable not supported (%s)", t.r.Src(x.X))
		}
		if id.Name != "_" {
			if t.spec.Ext.RangeKeyTy == "" {
				return "", fmt.Errorf("range with index variable not supported (%s)", t.r.Src(x.X))
			}
			if irInEnv(env, id.Name) {
				return "", fmt.Errorf("range index %s shadows an outer variable (not supported)", id.Name)
			}
			kname = id.Name
		}
	}
	xs, err := t.expr(x.X, env)
	if err != nil {
		return "", err
	}
	if !strings.HasPrefix(xs.Ty, "List ") {
		return "", fmt.Errorf("range over %s : %s", t.r.Src(x.X), xs.Ty)
	}
	elem := strings.TrimPrefix(xs.Ty, "List ")
	vname := "_"
	if id, ok := x.Value.(*ast.Ident); ok && id.Name != "_" {
		if irInEnv(env, id.Name) {
			return "", fmt.Errorf("range variable %s shadows an outer variable (not supported)", id.Name)
		}
		vname = id.Name
	}
	lv := "_"
	if vname != "_" {
		lv = irIdent(vname)
	}
	domTy := t.leanTy(xs.Ty)
	xsS := xs.S
	if strings.Contains(xsS, " ") && !strings.HasPrefix(xsS, "(") {
		xsS = "(" + xsS + ")"
	}
	if kname != "" {
		// for i[, x] := range xs (irSpecExt.RangeKeyTy): the index is threaded through the generated
		// function (0, i + 1); `xs[i]` / `&xs[i]` in the body are the current element, provided the body
		// does not assign xs.
		lk, kty := irIdent(kname), t.spec.Ext.RangeKeyTy
		if lv == "_" {
			lv = lk + "_elem__"
		}
		set := map[string]bool{}
		t.assigned(x.Body.List, env, set)
		collAssigned := false
		if ck, err := t.lhsKey(x.X, env); err == nil && set[ck] {
			collAssigned = true
		}
		collSrc := t.r.Src(x.X)
		return t.loopFn(x.Body.List, env, ind, next,
			fmt.Sprintf("(%s : %s)", lk, t.leanTy(kty)), fmt.Sprintf("(%s + 1)", lk), fmt.Sprintf("(0 : %s)", t.leanTy(kty)),
			domTy, "[]", lv+" :: rest__", "rest__", xsS,
			func(e *irEnv) *irEnv {
				e = e.with(kname, irVar{Lean: lk, Ty: kty, Depth: e.depth, Param: true})
				if vname != "_" {
					e = e.with(vname, irVar{Lean: lv, Ty: elem, Depth: e.depth, Param: true})
				}
				if !collAssigned {
					t.ranges = append(t.ranges, irRange{CollSrc: collSrc, Key: kname, ElemLean: lv, ElemTy: elem})
				}
				return e
			})
	}
	return t.loopFn(x.Body.List, env, ind, next, "", "", "", domTy, "[]", lv+" :: rest__", "rest__", xsS,
		func(e *irEnv) *irEnv {
			if vname == "_" {
				return e
			}
			return e.with(vname, irVar{Lean: lv, Ty: elem, Depth: e.depth, Param: true})
		})
}

// rangeKVStmt handles `for k, v := range m` when m's type is configured in irSpec.RangeKV (a Go map
// modelled as a Lean list of pairs). handled = false: not such a loop, the caller goes on as before.
func (t *irT) rangeKVStmt(x *ast.RangeStmt, env *irEnv, ind string, next irNext) (string, bool, error) {
	xs, err := t.tryExpr(x.X, env)
	if err != nil {
		return "", false, nil
	}
	kv, ok := t.spec.RangeKV[xs.Ty]
	if !ok {
		return "", false, nil
	}
	name := func(e ast.Expr) (string, error) {
		if e == nil {
			return "_", nil
		}
		id, ok := e.(*ast.Ident)
		if !ok {
			return "", fmt.Errorf("unsupported range variable %s", t.r.Src(e))
		}
		if id.Name != "_" && irInEnv(env, id.Name) {
			return "", fmt.Errorf("range variable %s shadows an outer variable (not supported)", id.Name)
		}
		return id.Name, nil
	}
	kname, err := name(x.Key)
	if err != nil {
		return "", true, err
	}
	vname, err := name(x.Value)
	if err != nil {
		return "", true, err
	}
	lean := func(n string) string {
		if n == "_" {
			return "_"
		}
		return irIdent(n)
	}
	xsS := xs.S
	if strings.Contains(xsS, " ") && !strings.HasPrefix(xsS, "(") {
		xsS = "(" + xsS + ")"
	}
	s, err := t.loopFn(x.Body.List, env, ind, next, "", "", "", t.leanTy(xs.Ty), "[]",
		"("+lean(kname)+", "+lean(vname)+") :: rest__", "rest__", xsS,
		func(e *irEnv) *irEnv {
			if kname != "_" {
				e = e.with(kname, irVar{Lean: lean(kname), Ty: kv[0], Depth: e.depth, Param: true})
			}
			if vname != "_" {
				e = e.with(vname, irVar{Lean: lean(vname), Ty: kv[1], Depth: e.depth, Param: true})
			}
			return e
		})
	return s, true, err
}

// forStmt handles `for i := a; i < n; i++ { … }` where the body assigns neither i nor n.
func (t *irT) forStmt(x *ast.ForStmt, env *irEnv, ind string, next irNext) (string, error) {
	bad := func(why string) (string, error) {
		return "", fmt.Errorf("unsupported for statement (%s): %s", why, t.r.Src(x.Cond))
	}
	as, ok := x.Init.(*ast.AssignStmt)
	if !ok || as.Tok != token.DEFINE || len(as.Lhs) != 1 || len(as.Rhs) != 1 {
		return bad("init")
	}
	iv, ok := as.Lhs[0].(*ast.Ident)
	if !ok || irInEnv(env, iv.Name) {
		return bad("init variable")
	}
	ce, ok := x.Cond.(*ast.BinaryExpr)
	down := ok && ce.Op == token.GEQ // for i := a; i >= b; i-- (engineer pipe): fuel a - b + 1, i - 1
	if !ok || (ce.Op != token.LSS && !down) {
		return bad("condition")
	}
	if id, ok := ce.X.(*ast.Ident); !ok || id.Name != iv.Name {
		return bad("condition variable")
	}
	post, ok := x.Post.(*ast.IncDecStmt)
	if !ok || (post.Tok != token.INC && !down) || (post.Tok != token.DEC && down) {
		return bad("post")
	}
	if id, ok := post.X.(*ast.Ident); !ok || id.Name != iv.Name {
		return bad("post variable")
	}
	a, err := t.expr(as.Rhs[0], env)
	if err != nil {
		return "", err
	}
	n, err := t.expr(ce.Y, env)
	if err != nil {
		return "", err
	}
	ity, okj := irJoinNum(a.Ty, n.Ty)
	if !okj {
		return bad("bound type")
	}
	if ity == "lit" {
		ity = "Int"
	}
	// the bound must not change in the body
	set := map[string]bool{}
	t.assigned(x.Body.List, env, set)
	boundVars := map[string]bool{}
	ast.Inspect(ce.Y, func(nd ast.Node) bool {
		if id, ok := nd.(*ast.Ident); ok {
			boundVars[id.Name] = true
		}
		if se, ok := nd.(*ast.SelectorExpr); ok {
			if k, err := t.lhsKey(se, env); err == nil {
				boundVars[k] = true
			}
		}
		return true
	})
	for k := range set {
		if boundVars[k] {
			if t.spec.Ext.LenBoundElemSet && t.onlyElemSet(x.Body.List, env, k, ce.Y) {
				continue
			}
			return bad("bound assigned in body")
		}
	}
	inner := env.with(iv.Name, irVar{Lean: irIdent(iv.Name), Ty: ity, Depth: env.depth + 1, Param: true})
	set2 := map[string]bool{}
	t.assigned(x.Body.List, inner, set2)
	if set2[iv.Name] {
		return bad("loop variable assigned in body")
	}
	li := irIdent(iv.Name)
	fuel := fmt.Sprintf("(%s - %s).toNat", n.S, a.S)
	if ity == "Nat" {
		fuel = fmt.Sprintf("(%s - %s)", n.S, a.S)
	}
	aS := a.S
	if a.Ty == "lit" {
		aS = fmt.Sprintf("(%s : %s)", a.S, ity)
	}
	if down {
		if ity != "Int" {
			return bad("downward loop over a non-Int index")
		}
		return t.loopFn(x.Body.List, env, ind, next,
			fmt.Sprintf("(%s : %s)", li, ity), fmt.Sprintf("(%s - 1)", li), aS,
			"Nat", "0", "fuel__ + 1", "fuel__", fmt.Sprintf("(%s - %s + 1).toNat", a.S, n.S),
			func(e *irEnv) *irEnv {
				return e.with(iv.Name, irVar{Lean: li, Ty: ity, Depth: e.depth, Param: true})
			})
	}
	return t.loopFn(x.Body.List, env, ind, next,
		fmt.Sprintf("(%s : %s)", li, ity), fmt.Sprintf("(%s + 1)", li), aS,
		"Nat", "0", "fuel__ + 1", "fuel__", fuel,
		func(e *irEnv) *irEnv {
			return e.with(iv.Name, irVar{Lean: li, Ty: ity, Depth: e.depth, Param: true})
		})
}

// ---------------------------------------------------------------------------
// driver

// irTranslate translates the body of fd according to spec. It returns the generated Lean
// definitions (loop functions first, the main definition last) and the list of ignored statements.
func irTranslate(r *Repo, fd *ast.FuncDecl, spec *irSpec) (string, []string, error) {
	t := &irT{r: r, spec: spec}
	env := &irEnv{vars: map[string]irVar{}}
	fail := func(format string, a ...interface{}) (string, []string, error) {
		return "", nil, fmt.Errorf("%s: %s", fd.Name.Name, fmt.Sprintf(format, a...))
	}
	if fd.Body == nil {
		return fail("no body")
	}
	if spec.Recv.S != "" {
		if fd.Recv == nil || len(fd.Recv.List) != 1 {
			return fail("receiver expected")
		}
		if len(fd.Recv.List[0].Names) == 1 && fd.Recv.List[0].Names[0].Name != "_" {
			env = env.with(fd.Recv.List[0].Names[0].Name, irVar{Lean: spec.Recv.S, Ty: spec.Recv.Ty, Param: true})
		}
	}
	var pnames []string
	if fd.Type.Params != nil {
		for _, f := range fd.Type.Params.List {
			if len(f.Names) == 0 {
				pnames = append(pnames, "_")
			}
			for _, n := range f.Names {
				pnames = append(pnames, n.Name)
			}
		}
	}
	if len(pnames) != len(spec.Params) {
		return fail("%d parameters, expected %d", len(pnames), len(spec.Params))
	}
	for i, n := range pnames {
		if n != "_" && spec.Params[i].S != "" {
			env = env.with(n, irVar{Lean: spec.Params[i].S, Ty: spec.Params[i].Ty, Param: true})
		}
	}
	ftype, fbody := fd.Type, fd.Body.List
	var closurePrefix []ast.Stmt
	var bindClosureParams func(env *irEnv) (*irEnv, string)
	if spec.Closure != nil {
		// the body must be exactly `return func(…) … { … }`
		var fl *ast.FuncLit
		if spec.Closure.Local {
			for i, s := range fbody {
				if as, ok := s.(*ast.AssignStmt); ok && as.Tok == token.DEFINE && len(as.Lhs) == 1 && len(as.Rhs) == 1 {
					if f, ok := as.Rhs[0].(*ast.FuncLit); ok {
						fl, closurePrefix = f, fbody[:i]
						break
					}
				}
			}
		} else if len(fbody) == 1 {
			if rs, ok := fbody[0].(*ast.ReturnStmt); ok && len(rs.Results) == 1 {
				fl, _ = rs.Results[0].(*ast.FuncLit)
			}
		}
		if fl == nil {
			return fail("body is not a single `return func(…) {…}` (or has no local closure)")
		}
		var cnames []string
		if fl.Type.Params != nil {
			for _, f := range fl.Type.Params.List {
				if len(f.Names) == 0 {
					cnames = append(cnames, "_")
				}
				for _, n := range f.Names {
					cnames = append(cnames, n.Name)
				}
			}
		}
		if len(cnames) != len(spec.Closure.Params) {
			return fail("closure has %d parameters, expected %d", len(cnames), len(spec.Closure.Params))
		}
		bindClosureParams = func(env *irEnv) (*irEnv, string) {
			out := ""
			for i, n := range cnames {
				cp := spec.Closure.Params[i]
				switch {
				case n != "_" && cp.S != "" && spec.Closure.AsLocals:
					env = env.with(n, irVar{Lean: irIdent(n), Ty: cp.Ty})
					out += fmt.Sprintf("  let %s : %s := %s\n", irIdent(n), t.leanTy(cp.Ty), cp.S)
				case n != "_" && cp.S != "":
					env = env.with(n, irVar{Lean: cp.S, Ty: cp.Ty, Param: true})
				case n != "_":
					delete(env.vars, n) // an unusable closure parameter hides an outer one of the same name
				}
			}
			return env, out
		}
		if !spec.Closure.Local && !spec.Closure.AsLocals {
			env, _ = bindClosureParams(env)
			bindClosureParams = nil
		}
		ftype, fbody = fl.Type, fl.Body.List
	}
	if spec.DeferInline {
		nb, db, err := irInlineDefer(r, fbody)
		if err != nil {
			return fail("%v", err)
		}
		fbody, t.deferB = nb, db
	}
	if spec.Ext.GoInline != nil {
		nb, err := irInlineGo(r, fbody, spec.Ext.GoInline)
		if err != nil {
			return fail("%v", err)
		}
		fbody = nb
	}
	namedPre := ""
	if ftype.Results != nil {
		for _, f := range ftype.Results.List {
			if len(f.Names) > 0 && spec.Ext.NamedResults == "" {
				return fail("named results not supported")
			}
			if len(f.Names) > 0 && spec.Ext.NamedResults == "bind" {
				ty, err := t.goType(f.Type)
				if err != nil {
					return fail("%v", err)
				}
				z, ok := irZero(ty)
				if zz, ok2 := spec.Zero[ty]; ok2 {
					z, ok = zz, true
				}
				if !ok {
					return fail("no zero value for named result of type %s", ty)
				}
				for _, n := range f.Names {
					env = env.with(n.Name, irVar{Lean: irIdent(n.Name), Ty: ty})
					namedPre += fmt.Sprintf("  let %s : %s := %s\n", irIdent(n.Name), t.leanTy(ty), z)
				}
			}
		}
	}
	pre := namedPre
	for _, s := range spec.State {
		env = env.with("§"+s.Var, irVar{Lean: s.Var, Ty: s.Ty})
		pre += fmt.Sprintf("  let %s : %s := %s\n", s.Var, t.leanTy(s.Ty), s.Fmt)
	}
	if spec.Closure != nil && spec.Closure.Local {
		// translate the statements in front of the closure only to learn the variables in scope
		penv := env.push()
		for _, s := range closurePrefix {
			cur := penv
			if _, err := t.stmt(s, penv, "  ", func(e2 *irEnv, ind string) (string, error) { cur = e2; return "", nil }); err != nil {
				return fail("statements in front of the closure: %v", err)
			}
			penv = cur
		}
		for _, key := range penv.order {
			v := penv.vars[key]
			if _, known := env.vars[key]; known || v.Param || strings.HasPrefix(key, "§") {
				continue
			}
			if term, ok := spec.Closure.FreeByTy[v.Ty]; ok {
				env = env.with(key, irVar{Lean: term, Ty: v.Ty, Param: true})
			}
		}
		t.skipped, t.aux, t.guards, t.pre = nil, nil, nil, nil
	}
	if bindClosureParams != nil {
		var cpre string
		env, cpre = bindClosureParams(env)
		pre += cpre
	}
	var k irK
	if ftype.Results == nil || len(ftype.Results.List) == 0 {
		k = func(ind string) (string, error) {
			r, err := spec.Ret(nil)
			return ind + r + "\n", err
		}
	}
	body, err := t.stmts(fbody, env.push(), "  ", k)
	if err != nil {
		return fail("%v", err)
	}
	var sb strings.Builder
	for _, a := range t.aux {
		sb.WriteString(a)
		sb.WriteString("\n")
	}
	fmt.Fprintf(&sb, "def %s %s : %s :=\n%s%s", spec.Name, spec.Binders, spec.RetTy, pre, body)
	return sb.String(), t.skipped, nil
}

// irInlineGo implements irSpecExt.GoInline on a copy of the statement list (the parsed file is shared
// with the other extractors and is not modified).
func irInlineGo(r *Repo, body []ast.Stmt, pred func(string, *ast.GoStmt) bool) ([]ast.Stmt, error) {
	out := make([]ast.Stmt, 0, len(body))
	for i, s := range body {
		g, ok := s.(*ast.GoStmt)
		if !ok || !pred(r.Src(s), g) {
			out = append(out, s)
			continue
		}
		fl, ok := g.Call.Fun.(*ast.FuncLit)
		if !ok || len(g.Call.Args) != 0 || (fl.Type.Params != nil && len(fl.Type.Params.List) != 0) ||
			(fl.Type.Results != nil && len(fl.Type.Results.List) != 0) {
			return nil, fmt.Errorf("go statement is not `go func() {…}()`: %s", r.Src(s))
		}
		bad := false
		ast.Inspect(fl.Body, func(n ast.Node) bool {
			switch n.(type) {
			case *ast.FuncLit:
				return false
			case *ast.ReturnStmt, *ast.GoStmt, *ast.DeferStmt:
				bad = true
			}
			return true
		})
		if bad {
			return nil, fmt.Errorf("return / go / defer inside an inlined goroutine body: %s", r.Src(s))
		}
		for _, rest := range body[i+1:] {
			if _, ok := rest.(*ast.ReturnStmt); !ok {
				return nil, fmt.Errorf("statement after an inlined go statement: %s", r.Src(rest))
			}
		}
		out = append(out, fl.Body)
	}
	return out, nil
}

// irEmit translates and writes the definitions with a doc comment listing what was ignored.
func irEmit(r *Repo, w *Lean, rel, recv, fn string, spec *irSpec, doc string) error {
	fd, err := r.Func(rel, recv, fn)
	if err != nil {
		return err
	}
	def, skipped, err := irTranslate(r, fd, spec)
	if err != nil {
		return err
	}
	q := fn
	if recv != "" {
		q = recv + "." + fn
	}
	w.Line("/-! Translated from the body of `%s` in %s (go/ast → Lean, harness/factextract/irlib.go).", q, rel)
	if doc != "" {
		w.Line("%s", doc)
	}
	if len(skipped) > 0 {
		w.Line("Ignored statements (no modelled effect):")
		for _, s := range skipped {
			w.Line("  * `%s`", strings.ReplaceAll(s, "-/", "- /"))
		}
	}
	w.Line("-/")
	w.sb.WriteString(def)
	w.Line("")
	return nil
}

// irPrefixIgnore builds an Ignore predicate from source-text prefixes of whole statements.
func irPrefixIgnore(prefixes ...string) func(string, ast.Stmt) bool {
	return func(src string, s ast.Stmt) bool {
		switch s.(type) {
		case *ast.ExprStmt, *ast.DeferStmt, *ast.GoStmt:
			for _, p := range prefixes {
				if strings.HasPrefix(src, p) {
					return true
				}
			}
		}
		return false
	}
}

var errUnsupportedReturn = fmt.Errorf("unsupported return values")

// onlyElemSet (irSpecExt.LenBoundElemSet, engineer auth11): the loop bound is exactly `len(xs)` with xs
// the variable / state field of environment key k, and every statement of the body that assigns k is a
// plain element assignment `xs[j] = v` (so the length of xs is the same in every iteration).
func (t *irT) onlyElemSet(body []ast.Stmt, env *irEnv, k string, bound ast.Expr) bool {
	ce, ok := irUnparen(bound).(*ast.CallExpr)
	if !ok || len(ce.Args) != 1 {
		return false
	}
	if id, ok := ce.Fun.(*ast.Ident); !ok || id.Name != "len" {
		return false
	}
	if bk, err := t.lhsKey(ce.Args[0], env); err != nil || bk != k {
		return false
	}
	if _, isIdx := irUnparen(ce.Args[0]).(*ast.IndexExpr); isIdx {
		return false
	}
	good := true
	var walk func(l []ast.Stmt)
	walk = func(l []ast.Stmt) {
		for _, s := range l {
			switch x := s.(type) {
			case *ast.AssignStmt:
				for _, lh := range x.Lhs {
					if lk, err := t.lhsKey(lh, env); err == nil && lk == k {
						if _, isIdx := irUnparen(lh).(*ast.IndexExpr); !isIdx || x.Tok != token.ASSIGN {
							good = false
						}
					}
				}
			case *ast.BlockStmt:
				walk(x.List)
			case *ast.IfStmt:
				if x.Init != nil {
					walk([]ast.Stmt{x.Init})
				}
				walk(x.Body.List)
				walk(irElse(x))
			case *ast.ForStmt:
				if x.Init != nil {
					walk([]ast.Stmt{x.Init})
				}
				if x.Post != nil {
					walk([]ast.Stmt{x.Post})
				}
				walk(x.Body.List)
			case *ast.RangeStmt:
				walk(x.Body.List)
			default:
				// any other statement kind (calls, ++, switch, select …) that may assign k: not accepted
				one := map[string]bool{}
				t.assigned([]ast.Stmt{s}, env, one)
				if one[k] {
					good = false
				}
			}
		}
	}
	walk(body)
	return good
}

// irArgVar: n when s is exactly "%[n]s" (an irLet.Var that names the call's n-th formatted argument), else 0.
func irArgVar(s string) int {
	if len(s) == 5 && strings.HasPrefix(s, "%[") && strings.HasSuffix(s, "]s") && s[2] >= '1' && s[2] <= '9' {
		return int(s[2] - '0')
	}
	return 0
}

// ---------------------------------------------------------------------------
// engineer mux (C01/C05/C12): inlined local closures (irSpecExt.InlineClosures) and composite
// literals (irSpecExt.Composite). Nothing below runs unless one of the two is configured.

// muxExpr: a local closure used as a value (unsupported: it would escape), `T{…}` and `&T{…}`.
func (t *irT) muxExpr(e ast.Expr, env *irEnv) (irTerm, bool, error) {
	switch x := e.(type) {
	case *ast.Ident:
		if v, ok := env.vars[x.Name]; ok && v.Closure != nil {
			return irTerm{}, false, fmt.Errorf("local closure %s used as a value or in an unsupported call position", x.Name)
		}
	case *ast.CallExpr:
		if _, lit := t.closureCall(x, env); lit != nil {
			return irTerm{}, false, fmt.Errorf("call of the local closure in an unsupported position: %s", t.r.Src(x))
		}
	case *ast.UnaryExpr:
		if cl, ok := irUnparen(x.X).(*ast.CompositeLit); ok && x.Op == token.AND && cl.Type != nil {
			if c, ok := t.spec.Ext.Composite["&"+t.r.Src(cl.Type)]; ok {
				v, err := t.composite(cl, c, env)
				return v, true, err
			}
		}
	case *ast.CompositeLit:
		if x.Type != nil {
			if c, ok := t.spec.Ext.Composite[t.r.Src(x.Type)]; ok {
				v, err := t.composite(x, c, env)
				return v, true, err
			}
		}
	}
	return irTerm{}, false, nil
}

func (t *irT) composite(cl *ast.CompositeLit, c irComposite, env *irEnv) (irTerm, error) {
	given := map[string]string{}
	for _, el := range cl.Elts {
		kv, ok := el.(*ast.KeyValueExpr)
		if !ok {
			return irTerm{}, fmt.Errorf("composite literal without field names: %s", t.r.Src(cl))
		}
		id, ok := kv.Key.(*ast.Ident)
		if !ok {
			return irTerm{}, fmt.Errorf("composite literal key %s", t.r.Src(kv.Key))
		}
		known := false
		for _, k := range c.Keys {
			known = known || k == id.Name
		}
		if _, dup := given[id.Name]; dup || !known {
			return irTerm{}, fmt.Errorf("composite literal: unknown or repeated field %s in %s", id.Name, t.r.Src(cl))
		}
		v, err := t.expr(kv.Value, env)
		if err != nil {
			return irTerm{}, err
		}
		if want, ok := c.Types[id.Name]; ok && v.Ty != want && !(v.Ty == "lit" && irIsNum(want)) {
			return irTerm{}, fmt.Errorf("composite literal: field %s has type %s, expected %s (%s)", id.Name, v.Ty, want, t.r.Src(cl))
		}
		if w, ok := c.Wrap[id.Name]; ok {
			v.S = fmt.Sprintf(w, v.S)
		}
		given[id.Name] = v.S
	}
	args := make([]string, len(c.Keys))
	for i, k := range c.Keys {
		if s, ok := given[k]; ok {
			args[i] = s
		} else if z, ok := c.Zero[k]; ok {
			args[i] = z
		} else {
			return irTerm{}, fmt.Errorf("composite literal: no zero value configured for absent field %s (%s)", k, t.r.Src(cl))
		}
	}
	return irTerm{irFmt(c.Fmt, args), c.Ty}, nil
}

// closureCall: e (parentheses stripped) is a call `f(args)` of a local closure.
func (t *irT) closureCall(e ast.Expr, env *irEnv) (*ast.CallExpr, *ast.FuncLit) {
	ce, ok := irUnparen(e).(*ast.CallExpr)
	if !ok {
		return nil, nil
	}
	id, ok := ce.Fun.(*ast.Ident)
	if !ok {
		return nil, nil
	}
	if v, ok := env.vars[id.Name]; ok && v.Closure != nil {
		return ce, v.Closure
	}
	return nil, nil
}

// closureStmt handles the definition of a local closure and the supported call shapes.
func (t *irT) closureStmt(s ast.Stmt, env *irEnv, ind string, next irNext) (string, bool, error) {
	if t.ignorable(s) {
		return "", false, nil
	}
	switch x := s.(type) {
	case *ast.AssignStmt:
		if len(x.Lhs) != 1 || len(x.Rhs) != 1 {
			return "", false, nil
		}
		if lit, ok := x.Rhs[0].(*ast.FuncLit); ok { // f := func(…) … { … }
			id, isId := x.Lhs[0].(*ast.Ident)
			if !isId || x.Tok != token.DEFINE || irInEnv(env, id.Name) {
				return "", true, fmt.Errorf("unsupported closure definition %s", t.r.Src(x.Lhs[0]))
			}
			if lit.Type.Results != nil && (len(lit.Type.Results.List) > 1 || len(lit.Type.Results.List[0].Names) > 0) {
				return "", true, fmt.Errorf("closure %s: at most one unnamed result supported", id.Name)
			}
			if irMentions(lit.Body.List, id.Name) {
				return "", true, fmt.Errorf("closure %s is recursive", id.Name)
			}
			t.skipped = append(t.skipped, "(local closure, inlined at its calls) "+id.Name+" := func…")
			out, err := next(env.with(id.Name, irVar{Lean: "closure__" + id.Name, Ty: "closure", Depth: env.depth, Closure: lit}), ind)
			return out, true, err
		}
		ce, lit := t.closureCall(x.Rhs[0], env)
		if lit == nil {
			return "", false, nil
		}
		if x.Tok != token.DEFINE && x.Tok != token.ASSIGN {
			return "", true, fmt.Errorf("unsupported assignment %s", t.r.Src(x))
		}
		key, err := t.lhsKey(x.Lhs[0], env)
		if err != nil {
			return "", true, err
		}
		if _, isId := x.Lhs[0].(*ast.Ident); !isId {
			return "", true, fmt.Errorf("unsupported target of a closure result: %s", t.r.Src(x.Lhs[0]))
		}
		out, err := t.inlineClosure(ce, lit, env, ind, func(vals []irTerm, ind string) (string, error) {
			if key == "" {
				return next(env, ind)
			}
			if len(vals) != 1 {
				return "", fmt.Errorf("closure without result used as a value: %s", t.r.Src(x))
			}
			ls, env2, err := t.bind(key, x.Tok == token.DEFINE, vals[0], env, ind)
			if err != nil {
				return "", err
			}
			r, err := next(env2, ind)
			return ls + r, err
		})
		return out, true, err
	case *ast.ExprStmt:
		ce, lit := t.closureCall(x.X, env)
		if lit == nil {
			return "", false, nil
		}
		out, err := t.inlineClosure(ce, lit, env, ind, func(_ []irTerm, ind string) (string, error) { return next(env, ind) })
		return out, true, err
	case *ast.IfStmt:
		if x.Init != nil {
			return "", false, nil
		}
		// the condition is a closure call under any number of `!` / parentheses: evaluate it first
		inner, neg := irUnparen(x.Cond), 0
		for {
			ue, ok := inner.(*ast.UnaryExpr)
			if !ok || ue.Op != token.NOT {
				break
			}
			inner, neg = irUnparen(ue.X), neg+1
		}
		ce, lit := t.closureCall(inner, env)
		if lit == nil {
			return "", false, nil
		}
		t.nclos++
		tmp := fmt.Sprintf("c%d__", t.nclos)
		out, err := t.inlineClosure(ce, lit, env, ind, func(vals []irTerm, ind string) (string, error) {
			if len(vals) != 1 || vals[0].Ty != "Bool" {
				return "", fmt.Errorf("closure result used as a condition is not a Bool: %s", t.r.Src(x.Cond))
			}
			ls := fmt.Sprintf("%slet %s : Bool := %s\n", ind, tmp, vals[0].S)
			// the temporary is not a Go local: it is only mentioned by the rewritten condition
			env2 := env.with(tmp, irVar{Lean: tmp, Ty: "Bool", Depth: env.depth, Param: true})
			var cond ast.Expr = &ast.Ident{Name: tmp}
			for i := 0; i < neg; i++ {
				cond = &ast.UnaryExpr{Op: token.NOT, X: cond}
			}
			r, err := t.ifStmt(&ast.IfStmt{If: x.If, Cond: cond, Body: x.Body, Else: x.Else}, env2, ind, next)
			return ls + r, err
		})
		return out, true, err
	}
	return "", false, nil
}

// inlineClosure translates the body of lit at the call ce; `cont` receives the values of the `return`
// reached (one call per return statement of the body: the continuation is duplicated like after an
// if whose branches return).
func (t *irT) inlineClosure(ce *ast.CallExpr, lit *ast.FuncLit, env *irEnv, ind string,
	cont func(vals []irTerm, ind string) (string, error)) (string, error) {
	if ce.Ellipsis.IsValid() {
		return "", fmt.Errorf("variadic closure call %s", t.r.Src(ce))
	}
	var pnames []string
	var ptypes []ast.Expr
	if lit.Type.Params != nil {
		for _, f := range lit.Type.Params.List {
			if len(f.Names) == 0 {
				return "", fmt.Errorf("closure with unnamed parameters: %s", t.r.Src(ce))
			}
			for _, n := range f.Names {
				pnames, ptypes = append(pnames, n.Name), append(ptypes, f.Type)
			}
		}
	}
	if len(pnames) != len(ce.Args) {
		return "", fmt.Errorf("closure call %s: %d arguments for %d parameters", t.r.Src(ce), len(ce.Args), len(pnames))
	}
	hasResult := lit.Type.Results != nil && len(lit.Type.Results.List) == 1
	resTy := ""
	if hasResult {
		ty, err := t.goType(lit.Type.Results.List[0].Type)
		if err != nil {
			return "", err
		}
		resTy = ty
	}
	out := ""
	benv := env.push()
	for i, n := range pnames {
		a, err := t.expr(ce.Args[i], env)
		if err != nil {
			return "", err
		}
		ty, err := t.goType(ptypes[i])
		if err != nil {
			return "", err
		}
		if a.Ty != ty && !(a.Ty == "lit" && irIsNum(ty)) && a.Ty != "nil" {
			return "", fmt.Errorf("closure call %s: argument %d has type %s, parameter %s", t.r.Src(ce), i+1, a.Ty, ty)
		}
		if n == "_" {
			continue
		}
		if irInEnv(env, n) {
			return "", fmt.Errorf("closure parameter %s shadows a variable at the call %s (not supported)", n, t.r.Src(ce))
		}
		if a.Ty == "nil" {
			return "", fmt.Errorf("closure call %s: nil argument not supported", t.r.Src(ce))
		}
		out += fmt.Sprintf("%slet %s : %s := %s\n", ind, irIdent(n), t.leanTy(ty), a.S)
		benv = benv.with(n, irVar{Lean: irIdent(n), Ty: ty, Depth: benv.depth})
	}
	if len(t.guards) != 0 || len(t.pre) != 0 {
		return "", fmt.Errorf("partial / effectful call in the arguments of the closure call %s", t.r.Src(ce))
	}
	if hasResult && !t.terminates(lit.Body.List) {
		return "", fmt.Errorf("closure body may fall off its end: %s", t.r.Src(ce))
	}
	savedLoop, savedRetK, savedRanges := t.loop, t.retK, t.ranges
	enter := func() { t.loop, t.ranges = nil, nil }
	leave := func() { t.loop, t.retK, t.ranges = savedLoop, savedRetK, savedRanges }
	var myK func(vals []irTerm, ind string) (string, error)
	myK = func(vals []irTerm, ind string) (string, error) {
		if hasResult {
			if len(vals) != 1 {
				return "", fmt.Errorf("closure returns %d values", len(vals))
			}
			if vals[0].Ty == "lit" && irIsNum(resTy) {
				vals[0].Ty = resTy
			}
			if vals[0].Ty != resTy {
				return "", fmt.Errorf("closure returns %s, declared %s", vals[0].Ty, resTy)
			}
		} else if len(vals) != 0 {
			return "", fmt.Errorf("closure without result returns a value")
		}
		leave() // the continuation belongs to the caller's context
		r, err := cont(vals, ind)
		enter()
		t.retK = myK
		return r, err
	}
	enter()
	t.retK = myK
	var k irK
	if !hasResult {
		k = func(ind string) (string, error) { return myK(nil, ind) }
	}
	body, err := t.stmts(lit.Body.List, benv.push(), ind, k)
	leave()
	if err != nil {
		return "", err
	}
	return out + body, nil
}

// closureEffects (for `assigned`): every call of a local closure in s — nested statements included,
// bodies of function literals excluded — assigns what the closure's body assigns.
func (t *irT) closureEffects(s ast.Stmt, outer *irEnv, walk func([]ast.Stmt)) {
	ast.Inspect(s, func(n ast.Node) bool {
		switch x := n.(type) {
		case *ast.FuncLit:
			return false
		case *ast.AssignStmt: // a closure defined inside the analysed statements is not in `outer` yet
			if len(x.Lhs) == 1 && len(x.Rhs) == 1 && x.Tok == token.DEFINE {
				if lit, ok := x.Rhs[0].(*ast.FuncLit); ok {
					if id, ok := x.Lhs[0].(*ast.Ident); ok {
						if t.closSeen == nil {
							t.closSeen = map[string]*ast.FuncLit{}
						}
						t.closSeen[id.Name] = lit
					}
				}
			}
		case *ast.CallExpr:
			if id, ok := x.Fun.(*ast.Ident); ok {
				if v, ok := outer.vars[id.Name]; ok && v.Closure != nil {
					walk(v.Closure.Body.List) // closures are not recursive (checked at the definition)
				} else if lit, seen := t.closSeen[id.Name]; seen && !ok {
					walk(lit.Body.List)
				}
			}
		}
		return true
	})
}

// irInlineDefer (irSpec.DeferInline, resil): the first top-level `defer func() { B }()` of the body is
// replaced by the marker statement `§defer()`, and every `return e` after it (not inside a nested function
// literal) by `{ B; return e }` — Go evaluates e before B runs, so e must not mention a variable that B
// assigns (checked). B also runs when a partial call panics after the marker (panicBranch).
func irInlineDefer(r *Repo, body []ast.Stmt) ([]ast.Stmt, []ast.Stmt, error) {
	idx := -1
	var B []ast.Stmt
	for i, s := range body {
		ds, ok := s.(*ast.DeferStmt)
		if !ok {
			continue
		}
		fl, ok := ds.Call.Fun.(*ast.FuncLit)
		if !ok || len(ds.Call.Args) != 0 || (fl.Type.Params != nil && len(fl.Type.Params.List) != 0) {
			continue
		}
		idx, B = i, fl.Body.List
		break
	}
	if idx < 0 {
		return nil, nil, fmt.Errorf("no `defer func() {…}()` at the top level of the body")
	}
	assignedInB := map[string]bool{}
	hasReturn := false
	for _, s := range B {
		ast.Inspect(s, func(n ast.Node) bool {
			switch x := n.(type) {
			case *ast.AssignStmt:
				for _, l := range x.Lhs {
					if id, ok := l.(*ast.Ident); ok {
						assignedInB[id.Name] = true
					}
				}
			case *ast.IncDecStmt:
				if id, ok := x.X.(*ast.Ident); ok {
					assignedInB[id.Name] = true
				}
			case *ast.ReturnStmt:
				hasReturn = true
			}
			return true
		})
	}
	if hasReturn {
		return nil, nil, fmt.Errorf("deferred closure contains a return (not supported)")
	}
	var bad error
	var rw func(s ast.Stmt) ast.Stmt
	rwList := func(l []ast.Stmt) []ast.Stmt {
		out := make([]ast.Stmt, len(l))
		for i, s := range l {
			out[i] = rw(s)
		}
		return out
	}
	rw = func(s ast.Stmt) ast.Stmt {
		switch x := s.(type) {
		case *ast.ReturnStmt:
			for _, e := range x.Results {
				ast.Inspect(e, func(n ast.Node) bool {
					if id, ok := n.(*ast.Ident); ok && assignedInB[id.Name] {
						bad = fmt.Errorf("`%s` mentions %s, which the deferred closure assigns", r.Src(x), id.Name)
					}
					return true
				})
			}
			return &ast.BlockStmt{List: append(append([]ast.Stmt(nil), B...), x)}
		case *ast.BlockStmt:
			return &ast.BlockStmt{List: rwList(x.List)}
		case *ast.IfStmt:
			n := *x
			n.Body = &ast.BlockStmt{List: rwList(x.Body.List)}
			if x.Else != nil {
				n.Else = rw(x.Else)
			}
			return &n
		case *ast.ForStmt:
			n := *x
			n.Body = &ast.BlockStmt{List: rwList(x.Body.List)}
			return &n
		case *ast.RangeStmt:
			n := *x
			n.Body = &ast.BlockStmt{List: rwList(x.Body.List)}
			return &n
		case *ast.SwitchStmt:
			n := *x
			nb := &ast.BlockStmt{}
			for _, c := range x.Body.List {
				cc := *(c.(*ast.CaseClause))
				cc.Body = rwList(cc.Body)
				nb.List = append(nb.List, &cc)
			}
			n.Body = nb
			return &n
		case *ast.SelectStmt:
			n := *x
			nb := &ast.BlockStmt{}
			for _, c := range x.Body.List {
				cc := *(c.(*ast.CommClause))
				cc.Body = rwList(cc.Body)
				nb.List = append(nb.List, &cc)
			}
			n.Body = nb
			return &n
		case *ast.DeferStmt:
			bad = fmt.Errorf("a second defer after the inlined one (not supported)")
		}
		return s
	}
	out := append([]ast.Stmt(nil), body[:idx]...)
	out = append(out, &ast.ExprStmt{X: &ast.CallExpr{Fun: ast.NewIdent("§defer")}})
	out = append(out, rwList(body[idx+1:])...)
	if bad != nil {
		return nil, nil, bad
	}
	return out, B, nil
}

// ---------------------------------------------------------------------------
// general for-loops on fuel (engineer auth, C06; irSpec.WhileFuel)

// irIsCountedFor: `for i := a; i < n; i++` (the shape forStmt handles).
func irIsCountedFor(x *ast.ForStmt) bool {
	as, ok := x.Init.(*ast.AssignStmt)
	if !ok || as.Tok != token.DEFINE || len(as.Lhs) != 1 || len(as.Rhs) != 1 {
		return false
	}
	iv, ok := as.Lhs[0].(*ast.Ident)
	if !ok {
		return false
	}
	ce, ok := x.Cond.(*ast.BinaryExpr)
	if !ok || ce.Op != token.LSS {
		return false
	}
	if id, ok := ce.X.(*ast.Ident); !ok || id.Name != iv.Name {
		return false
	}
	post, ok := x.Post.(*ast.IncDecStmt)
	if !ok || post.Tok != token.INC {
		return false
	}
	id, ok := post.X.(*ast.Ident)
	return ok && id.Name == iv.Name
}

// irRewriteContinue: every `continue` of this loop (not of nested loops) first runs the post statement.
func irRewriteContinue(b []ast.Stmt, post ast.Stmt) []ast.Stmt {
	if post == nil {
		return b
	}
	var one func(s ast.Stmt) ast.Stmt
	list := func(l []ast.Stmt) []ast.Stmt {
		out := make([]ast.Stmt, len(l))
		for i, s := range l {
			out[i] = one(s)
		}
		return out
	}
	one = func(s ast.Stmt) ast.Stmt {
		switch x := s.(type) {
		case *ast.BranchStmt:
			if x.Tok == token.CONTINUE && x.Label == nil {
				return &ast.BlockStmt{List: []ast.Stmt{post, x}}
			}
		case *ast.BlockStmt:
			return &ast.BlockStmt{List: list(x.List)}
		case *ast.IfStmt:
			c := *x
			c.Body = &ast.BlockStmt{List: list(x.Body.List)}
			if x.Else != nil {
				c.Else = one(x.Else)
			}
			return &c
		case *ast.SwitchStmt:
			c := *x
			body := &ast.BlockStmt{}
			for _, cl := range x.Body.List {
				cc := *(cl.(*ast.CaseClause))
				cc.Body = list(cc.Body)
				body.List = append(body.List, &cc)
			}
			c.Body = body
			return &c
		}
		return s
	}
	return list(b)
}

// whileStmt: `for init; cond; post { body }` as a recursion on irSpec.WhileFuel[k].
func (t *irT) whileStmt(x *ast.ForStmt, env *irEnv, ind string, next irNext) (string, error) {
	if t.nwhile >= len(t.spec.WhileFuel) {
		return "", fmt.Errorf("no fuel configured for general for-loop #%d (%s)", t.nwhile+1, t.r.Src(x.Cond))
	}
	if t.spec.Panic == "" {
		return "", fmt.Errorf("general for-loop needs irSpec.Panic (the result when the fuel runs out)")
	}
	fuel := t.spec.WhileFuel[t.nwhile]
	t.nwhile++
	var body []ast.Stmt
	if x.Cond != nil {
		body = append(body, &ast.IfStmt{Cond: &ast.UnaryExpr{Op: token.NOT, X: &ast.ParenExpr{X: x.Cond}},
			Body: &ast.BlockStmt{List: []ast.Stmt{&ast.BranchStmt{Tok: token.BREAK}}}})
	}
	body = append(body, irRewriteContinue(x.Body.List, x.Post)...)
	if x.Post != nil {
		body = append(body, x.Post)
	}
	core := func(env2 *irEnv, ind string) (string, error) {
		t.whileX = true
		return t.loopFn(body, env2, ind, next, "", "", "", "Nat", "0", "fuel__ + 1", "fuel__", "("+fuel+")",
			func(e *irEnv) *irEnv { return e })
	}
	if x.Init != nil {
		return t.stmt(x.Init, env, ind, core)
	}
	return core(env, ind)
}
