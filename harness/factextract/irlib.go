package main

// irlib.go — reusable go/ast → Lean micro-translator (DESIGN §3.3, notes/IR.md).
//
// It re-derives a Lean definition from the *body* of a Go function on every run. A
// per-function `irSpec` says how receiver / parameters / fields / calls map to Lean terms;
// everything else is generic:
//
//   * typed locals (Int / Nat / Bool / String / any configured type), `:=`, `=`, op-assign,
//     `++`/`--`, multi-value `a, b := f(x)` (tuple-typed call), `var x T [= v]`;
//   * assignment to configured receiver fields (state variables) and `xs[i] = v`;
//   * `if` / `else if` / `else` with optional init statement: branches that return, branches
//     that fall through (assigned outer variables are merged through a tuple), mixed
//     (continuation duplicated into the falling branches);
//   * `switch` with / without tag (desugared to an if-chain, default last);
//   * `return` of any arity through `irSpec.Ret`, `panic(…)` through `irSpec.Panic`;
//   * integer / comparison / boolean / string expressions, `x == nil`, conversions, indexing,
//     `s[n:]`, tables for selectors, method calls, function calls (→ oracle applications);
//   * calls used as statements that update variables (`cb.transitTo(…)`, `hash.Write(…)`);
//   * `for _, x := range xs` and `for i := a; i < n; i++` with `continue` / `break` /
//     `return` in the body → generated structurally recursive Lean functions returning
//     `Sum <result> <tuple of modified variables>`;
//   * a configurable "ignorable statement" predicate (mutex, logging, metrics …): ignored
//     statements are listed in the generated file.
//
// Anything else makes the extraction FAIL (extractionFailed = true), which breaks the dependent
// theorem `<fn>_regenerated_from_source`; nothing is skipped silently.

import (
	"fmt"
	"go/ast"
	"go/token"
	"strconv"
	"strings"
)

// irTerm is a Lean term with its (translator-level) type name.
type irTerm struct{ S, Ty string }

// irField: how `X.f` is read when X has type T (key "T.f"). Fmt's %s is the translated X.
// State fields are assignable: Fmt is then the name of a Lean local (see irSpec.State).
type irField struct {
	Fmt   string
	Ty    string
	State bool
}

// irCall: Fmt uses %[1]s, %[2]s … for the translated arguments (for methods %[1]s is the
// receiver). NArgs = number of Go arguments (receiver not counted); -1 = any number, the
// arguments are then not translated (and Fmt must not refer to them).
type irCall struct {
	Fmt   string
	Ty    string
	NArgs int
	Guard string // optional Lean Bool term (same arguments): when false the Go call panics (nil dereference …)
}

// irLet is one generated `let Var : Ty := Fmt`.
type irLet struct{ Var, Ty, Fmt string }

// irStmtCall: a call used as a statement that updates variables. Var and Fmt are formatted
// with the translated arguments like irCall.Fmt.
type irStmtCall struct {
	Lets  []irLet
	NArgs int
}

type irSpec struct {
	Name    string   // Lean definition name
	Binders string   // "(p : Policy) (s : RL) …"
	BNames  []string // binder names in order (passed on to generated loop functions)
	RetTy   string   // Lean result type
	Recv    irTerm   // receiver → Lean term / type name (S == "" : function has no receiver)
	Params  []irTerm // Go parameters by position; S == "" : parameter must not be used
	State   []irLet  // state variables: Var = Lean local, Ty, Fmt = initial value

	LeanTy      map[string]string     // type name → Lean type (default: identity; Error → Bool)
	GoTy        map[string]string     // printed Go type → type name (for `var x T`), merged over defaults
	Fields      map[string]irField    // "T.f"
	Methods     map[string]irCall     // "T.m"
	Funcs       map[string]irCall     // printed callee ("strings.HasPrefix"), optionally "len:List String"
	Consts      map[string]irTerm     // identifiers / qualified identifiers
	Conv        map[string]irCall     // "int:Nat64" (conversion ":" argument type)
	Index       map[string]irCall     // by collection type: x[i]
	IndexSet    map[string]string     // by collection type: Fmt(x, i, v) = updated collection
	FieldSet    map[string]string     // "T.goField" → Lean structure field, for writes through `&xs[i]`
	SliceFrom   map[string]irCall     // by type: x[n:]
	StmtMethods map[string]irStmtCall // "T.m" used as a statement
	StmtFuncs   map[string]irStmtCall // printed callee used as a statement

	Ignore func(src string, s ast.Stmt) bool
	Ret    func(vals []irTerm) (string, error)
	Panic  string // Lean term for `panic(…)`; "" = unsupported
	Hook   func(t *irT, e ast.Expr, env *irEnv) (irTerm, bool, error)
}

// ---------------------------------------------------------------------------
// environment (immutable; every declaration makes a copy)

type irVar struct {
	Lean  string
	Ty    string
	Depth int
	Param bool // bound by the definition's binders, not a local
	Alias *irAlias
}

// irAlias: `b := &xs[i]` — b is a pointer into a tracked collection. Reads go through the current
// value of the collection, writes (`b.f = v`, `b.f++`, `*b = v`) update the collection.
type irAlias struct {
	CollKey string // environment key of the collection
	Idx     string // Lean name holding the index (evaluated when the alias was taken)
	ElemTy  string
}

type irEnv struct {
	vars  map[string]irVar
	order []string
	depth int
}

func (e *irEnv) clone() *irEnv {
	n := &irEnv{vars: make(map[string]irVar, len(e.vars)+1), order: append([]string(nil), e.order...), depth: e.depth}
	for k, v := range e.vars {
		n.vars[k] = v
	}
	return n
}

func (e *irEnv) push() *irEnv { n := e.clone(); n.depth++; return n }

func (e *irEnv) with(key string, v irVar) *irEnv {
	n := e.clone()
	if _, ok := n.vars[key]; !ok {
		n.order = append(n.order, key)
	}
	n.vars[key] = v
	return n
}

func (e *irEnv) keyOfLean(name string) (string, bool) {
	for _, k := range e.order {
		if v := e.vars[k]; v.Lean == name && !v.Param {
			return k, true
		}
	}
	return "", false
}

// locals lists the non-parameter variables in declaration order.
func (e *irEnv) locals() []irVar {
	var out []irVar
	for _, k := range e.order {
		if v := e.vars[k]; !v.Param {
			out = append(out, v)
		}
	}
	return out
}

// ---------------------------------------------------------------------------

type irK func(ind string) (string, error)
type irNext func(env *irEnv, ind string) (string, error)

type irLoopCtx struct {
	cont irK
	brk  irK
}

type irT struct {
	r       *Repo
	spec    *irSpec
	skipped []string
	aux     []string
	nloop   int
	ntmp    int
	guards  []string // pending guards of partial calls in the statement being translated
	loop    *irLoopCtx
	inLoop  bool
}

var irKeywords = map[string]bool{"at": true, "from": true, "end": true, "then": true, "open": true, "show": true,
	"have": true, "fun": true, "match": true, "with": true, "do": true, "in": true, "let": true, "if": true, "else": true,
	"def": true, "theorem": true, "instance": true, "structure": true, "where": true, "by": true, "calc": true,
	"namespace": true, "section": true, "variable": true, "universe": true, "import": true, "export": true,
	"private": true, "protected": true, "mutual": true, "inductive": true, "class": true, "deriving": true,
	"return": true, "for": true, "unless": true, "try": true, "catch": true, "finally": true, "using": true,
	"exact": true, "Type": true, "Prop": true, "Sort": true, "forall": true, "exists": true, "then_": false}

func irIdent(goName string) string {
	if irKeywords[goName] || strings.HasSuffix(goName, "__") {
		return goName + "_"
	}
	return goName
}

var irDefaultGoTy = map[string]string{"int": "Int", "int8": "Int", "int16": "Int", "int32": "Int", "int64": "Int",
	"time.Duration": "Int", "bool": "Bool", "string": "String", "error": "Error"}

var irNumConv = map[string]bool{"int": true, "int8": true, "int16": true, "int32": true, "int64": true,
	"uint": true, "uint8": true, "uint16": true, "uint32": true, "uint64": true, "time.Duration": true}

func (t *irT) leanTy(ty string) string {
	if ty == "lit" {
		return "Int"
	}
	if v, ok := t.spec.LeanTy[ty]; ok {
		return v
	}
	if ty == "Error" {
		return "Bool"
	}
	// product / list types: map the components
	if parts := irSplitProd(ty); len(parts) > 1 {
		out := make([]string, len(parts))
		for i, p := range parts {
			out[i] = t.leanTy(p)
		}
		return strings.Join(out, " × ")
	}
	if strings.HasPrefix(ty, "List ") {
		inner := t.leanTy(strings.TrimPrefix(ty, "List "))
		if strings.Contains(inner, " ") {
			inner = "(" + inner + ")"
		}
		return "List " + inner
	}
	return ty
}

// irSplitProd splits "A × B × C" at top level.
func irSplitProd(ty string) []string {
	var out []string
	depth, start := 0, 0
	rs := []rune(ty)
	for i, c := range rs {
		switch c {
		case '(':
			depth++
		case ')':
			depth--
		case '×':
			if depth == 0 {
				out = append(out, strings.TrimSpace(string(rs[start:i])))
				start = i + 1
			}
		}
	}
	out = append(out, strings.TrimSpace(string(rs[start:])))
	return out
}

func irProj(v string, i, n int) string {
	// i-th (0-based) component of an n-tuple (right-nested pairs)
	s := v
	for j := 0; j < i; j++ {
		s += ".2"
	}
	if i < n-1 {
		s += ".1"
	}
	return s
}

func irFmt(f string, args []string) string {
	if len(args) == 0 || !strings.Contains(f, "%") {
		return f
	}
	a := make([]interface{}, len(args))
	for i, s := range args {
		a[i] = s
	}
	out := fmt.Sprintf(f, a...)
	if i := strings.Index(out, "%!(EXTRA"); i >= 0 { // unused trailing arguments are fine
		out = out[:i]
	}
	return out
}

func irIsNum(ty string) bool { return ty == "Int" || ty == "Nat" || ty == "lit" }

func irJoinNum(a, b string) (string, bool) {
	if a == "lit" {
		return b, true
	}
	if b == "lit" {
		return a, true
	}
	return a, a == b
}

// ---------------------------------------------------------------------------
// expressions

func (t *irT) exprs(es []ast.Expr, env *irEnv) ([]irTerm, []string, error) {
	var ts []irTerm
	var ss []string
	for _, e := range es {
		x, err := t.expr(e, env)
		if err != nil {
			return nil, nil, err
		}
		ts = append(ts, x)
		ss = append(ss, x.S)
	}
	return ts, ss, nil
}

func (t *irT) applyCall(c irCall, recv *irTerm, args []ast.Expr, env *irEnv, what string) (irTerm, error) {
	var ss []string
	if recv != nil {
		ss = append(ss, recv.S)
	}
	if c.NArgs >= 0 {
		if len(args) != c.NArgs {
			return irTerm{}, fmt.Errorf("%s: %d arguments, expected %d", what, len(args), c.NArgs)
		}
		_, as, err := t.exprs(args, env)
		if err != nil {
			return irTerm{}, err
		}
		ss = append(ss, as...)
	}
	if c.Guard != "" {
		t.guards = append(t.guards, irFmt(c.Guard, ss))
	}
	return irTerm{irFmt(c.Fmt, ss), c.Ty}, nil
}

func (t *irT) expr(e ast.Expr, env *irEnv) (irTerm, error) {
	if t.spec.Hook != nil {
		if x, ok, err := t.spec.Hook(t, e, env); ok || err != nil {
			return x, err
		}
	}
	switch x := e.(type) {
	case *ast.BasicLit:
		switch x.Kind {
		case token.INT:
			n, err := strconv.ParseInt(x.Value, 0, 64)
			if err != nil {
				return irTerm{}, fmt.Errorf("integer literal %s", x.Value)
			}
			return irTerm{strconv.FormatInt(n, 10), "lit"}, nil
		case token.STRING:
			s, err := strconv.Unquote(x.Value)
			if err != nil {
				return irTerm{}, err
			}
			return irTerm{Str(s), "String"}, nil
		}
	case *ast.Ident:
		if v, ok := env.vars[x.Name]; ok {
			if v.Alias != nil {
				coll := env.vars[v.Alias.CollKey]
				f, ok := t.spec.Index[coll.Ty]
				if !ok {
					return irTerm{}, fmt.Errorf("indexing of %s not configured (alias %s)", coll.Ty, x.Name)
				}
				return irTerm{irFmt(f.Fmt, []string{coll.Lean, v.Alias.Idx}), f.Ty}, nil
			}
			return irTerm{v.Lean, v.Ty}, nil
		}
		switch x.Name {
		case "true", "false":
			return irTerm{x.Name, "Bool"}, nil
		case "nil":
			return irTerm{"nil", "nil"}, nil
		}
		if c, ok := t.spec.Consts[x.Name]; ok {
			return c, nil
		}
		return irTerm{}, fmt.Errorf("unknown identifier %s", x.Name)
	case *ast.ParenExpr:
		s, err := t.expr(x.X, env)
		return irTerm{"(" + s.S + ")", s.Ty}, err
	case *ast.SelectorExpr:
		if c, ok := t.spec.Consts[t.r.Src(x)]; ok {
			if id, isId := x.X.(*ast.Ident); !isId || !irInEnv(env, id.Name) {
				return c, nil
			}
		}
		rx, err := t.expr(x.X, env)
		if err != nil {
			return irTerm{}, err
		}
		f, ok := t.spec.Fields[rx.Ty+"."+x.Sel.Name]
		if !ok {
			return irTerm{}, fmt.Errorf("unknown field %s.%s (in %s)", rx.Ty, x.Sel.Name, t.r.Src(x))
		}
		return irTerm{irFmt(f.Fmt, []string{rx.S}), f.Ty}, nil
	case *ast.UnaryExpr:
		s, err := t.expr(x.X, env)
		if err != nil {
			return irTerm{}, err
		}
		switch {
		case x.Op == token.AND: // &x: only as an argument of a configured call; the type records it
			return irTerm{s.S, "&" + s.Ty}, nil
		case x.Op == token.SUB && (s.Ty == "Int" || s.Ty == "lit"):
			return irTerm{"(-" + s.S + ")", "Int"}, nil
		case x.Op == token.NOT && s.Ty == "Bool":
			return irTerm{"(!" + s.S + ")", "Bool"}, nil
		}
	case *ast.BinaryExpr:
		return t.binary(x, env)
	case *ast.CallExpr:
		return t.call(x, env)
	case *ast.IndexExpr:
		c, err := t.expr(x.X, env)
		if err != nil {
			return irTerm{}, err
		}
		i, err := t.expr(x.Index, env)
		if err != nil {
			return irTerm{}, err
		}
		f, ok := t.spec.Index[c.Ty]
		if !ok {
			return irTerm{}, fmt.Errorf("indexing of %s not configured (%s)", c.Ty, t.r.Src(x))
		}
		return irTerm{irFmt(f.Fmt, []string{c.S, i.S}), f.Ty}, nil
	case *ast.SliceExpr:
		if x.High != nil || x.Max != nil || x.Low == nil {
			break
		}
		c, err := t.expr(x.X, env)
		if err != nil {
			return irTerm{}, err
		}
		lo, err := t.expr(x.Low, env)
		if err != nil {
			return irTerm{}, err
		}
		f, ok := t.spec.SliceFrom[c.Ty]
		if !ok {
			return irTerm{}, fmt.Errorf("slicing of %s not configured (%s)", c.Ty, t.r.Src(x))
		}
		return irTerm{irFmt(f.Fmt, []string{c.S, lo.S}), f.Ty}, nil
	}
	return irTerm{}, fmt.Errorf("unsupported expression %s", t.r.Src(e))
}

// tryExpr translates speculatively: guards of partial calls met on the way are discarded.
func (t *irT) tryExpr(e ast.Expr, env *irEnv) (irTerm, error) {
	ng := len(t.guards)
	x, err := t.expr(e, env)
	t.guards = t.guards[:ng]
	return x, err
}

func irInEnv(env *irEnv, name string) bool { _, ok := env.vars[name]; return ok }

func (t *irT) binary(x *ast.BinaryExpr, env *irEnv) (irTerm, error) {
	a, err := t.expr(x.X, env)
	if err != nil {
		return irTerm{}, err
	}
	b, err := t.expr(x.Y, env)
	if err != nil {
		return irTerm{}, err
	}
	bad := func() (irTerm, error) {
		return irTerm{}, fmt.Errorf("unsupported operands %s(%s) %s %s(%s) in %s", a.S, a.Ty, x.Op, b.S, b.Ty, t.r.Src(x))
	}
	switch x.Op {
	case token.ADD, token.SUB, token.MUL, token.QUO, token.REM:
		if x.Op == token.ADD && a.Ty == "String" && b.Ty == "String" {
			return irTerm{fmt.Sprintf("(%s ++ %s)", a.S, b.S), "String"}, nil
		}
		ty, ok := irJoinNum(a.Ty, b.Ty)
		if !ok || !irIsNum(ty) {
			return bad()
		}
		switch x.Op {
		case token.QUO:
			if ty == "Nat" {
				return irTerm{fmt.Sprintf("(%s / %s)", a.S, b.S), ty}, nil
			}
			return irTerm{fmt.Sprintf("(Int.tdiv %s %s)", a.S, b.S), "Int"}, nil
		case token.REM:
			if ty == "Nat" {
				return irTerm{fmt.Sprintf("(%s %% %s)", a.S, b.S), ty}, nil
			}
			return irTerm{fmt.Sprintf("(Int.tmod %s %s)", a.S, b.S), "Int"}, nil
		}
		return irTerm{fmt.Sprintf("(%s %s %s)", a.S, x.Op.String(), b.S), ty}, nil
	case token.LSS, token.GTR, token.LEQ, token.GEQ:
		ty, ok := irJoinNum(a.Ty, b.Ty)
		if !ok || !irIsNum(ty) {
			return bad()
		}
		op := map[token.Token]string{token.LSS: "<", token.GTR: ">", token.LEQ: "≤", token.GEQ: "≥"}[x.Op]
		if ty == "lit" { // two literals: fix the type
			return irTerm{fmt.Sprintf("decide ((%s : Int) %s %s)", a.S, op, b.S), "Bool"}, nil
		}
		return irTerm{fmt.Sprintf("decide (%s %s %s)", a.S, op, b.S), "Bool"}, nil
	case token.EQL, token.NEQ:
		eq := x.Op == token.EQL
		if a.Ty == "nil" {
			a, b = b, a
		}
		if b.Ty == "nil" {
			switch {
			case a.Ty == "Error":
				if eq {
					return irTerm{"(!" + a.S + ")", "Bool"}, nil
				}
				return irTerm{a.S, "Bool"}, nil
			case strings.HasPrefix(t.leanTy(a.Ty), "Option "):
				if eq {
					return irTerm{a.S + ".isNone", "Bool"}, nil
				}
				return irTerm{a.S + ".isSome", "Bool"}, nil
			}
			return bad()
		}
		if _, ok := irJoinNum(a.Ty, b.Ty); !(ok && irIsNum(a.Ty) && irIsNum(b.Ty)) && a.Ty != b.Ty {
			return bad()
		}
		if a.Ty == "lit" && b.Ty == "lit" {
			a.S = "(" + a.S + " : Int)"
		}
		if eq {
			return irTerm{fmt.Sprintf("(%s == %s)", a.S, b.S), "Bool"}, nil
		}
		return irTerm{fmt.Sprintf("(%s != %s)", a.S, b.S), "Bool"}, nil
	case token.LAND, token.LOR:
		if a.Ty != "Bool" || b.Ty != "Bool" {
			return bad()
		}
		return irTerm{fmt.Sprintf("(%s %s %s)", a.S, x.Op.String(), b.S), "Bool"}, nil
	}
	return bad()
}

func (t *irT) call(x *ast.CallExpr, env *irEnv) (irTerm, error) {
	if x.Ellipsis.IsValid() {
		return irTerm{}, fmt.Errorf("unsupported variadic call %s", t.r.Src(x))
	}
	fun := t.r.Src(x.Fun)
	// conversions
	_, isArr := x.Fun.(*ast.ArrayType)
	if len(x.Args) == 1 && (isArr || irNumConv[fun] || t.hasConv(fun)) {
		a, err := t.expr(x.Args[0], env)
		if err != nil {
			return irTerm{}, err
		}
		if c, ok := t.spec.Conv[fun+":"+a.Ty]; ok {
			return irTerm{irFmt(c.Fmt, []string{a.S}), c.Ty}, nil
		}
		if irNumConv[fun] && (a.Ty == "Int" || a.Ty == "lit") && !strings.HasPrefix(fun, "uint") {
			return a, nil // integer conversions between signed types (no overflow: recorded assumption)
		}
		return irTerm{}, fmt.Errorf("conversion %s of %s not configured (%s)", fun, a.Ty, t.r.Src(x))
	}
	// methods: the receiver expression translates and "T.m" is configured
	if se, ok := x.Fun.(*ast.SelectorExpr); ok {
		rooted := irRootInEnv(se.X, env)
		ng := len(t.guards)
		rx, err := t.expr(se.X, env)
		if err == nil {
			if m, ok := t.spec.Methods[rx.Ty+"."+se.Sel.Name]; ok {
				return t.applyCall(m, &rx, x.Args, env, fun)
			}
			if rooted {
				return irTerm{}, fmt.Errorf("unknown method %s.%s (in %s)", rx.Ty, se.Sel.Name, t.r.Src(x))
			}
		} else if rooted {
			return irTerm{}, fmt.Errorf("unsupported call %s (%v)", t.r.Src(x), err)
		}
		t.guards = t.guards[:ng] // a failed attempt leaves no guard behind
	}
	// functions, optionally dispatched on the first argument's type
	if len(x.Args) >= 1 {
		if a, err := t.tryExpr(x.Args[0], env); err == nil {
			if f, ok := t.spec.Funcs[fun+":"+a.Ty]; ok {
				return t.applyCall(f, nil, x.Args, env, fun)
			}
		}
	}
	if f, ok := t.spec.Funcs[fun]; ok {
		return t.applyCall(f, nil, x.Args, env, fun)
	}
	return irTerm{}, fmt.Errorf("unsupported call %s", t.r.Src(x))
}

func (t *irT) hasConv(fun string) bool {
	for k := range t.spec.Conv {
		if strings.HasPrefix(k, fun+":") {
			return true
		}
	}
	return false
}

func irRootInEnv(e ast.Expr, env *irEnv) bool {
	for {
		switch x := e.(type) {
		case *ast.Ident:
			return irInEnv(env, x.Name)
		case *ast.SelectorExpr:
			e = x.X
		case *ast.CallExpr:
			e = x.Fun
		case *ast.IndexExpr:
			e = x.X
		case *ast.ParenExpr:
			e = x.X
		default:
			return false
		}
	}
}

// ---------------------------------------------------------------------------
// statement analysis

func (t *irT) ignorable(s ast.Stmt) bool {
	return t.spec.Ignore != nil && t.spec.Ignore(t.r.Src(s), s)
}

func (t *irT) isPanic(s ast.Stmt) bool {
	if es, ok := s.(*ast.ExprStmt); ok {
		if ce, ok := es.X.(*ast.CallExpr); ok {
			if id, ok := ce.Fun.(*ast.Ident); ok && id.Name == "panic" {
				return true
			}
		}
	}
	return false
}

func irElse(x *ast.IfStmt) []ast.Stmt {
	switch e := x.Else.(type) {
	case nil:
		return nil
	case *ast.BlockStmt:
		return e.List
	default:
		return []ast.Stmt{e}
	}
}

// terminates: control never falls off the end of the list.
func (t *irT) terminates(b []ast.Stmt) bool {
	for i := len(b) - 1; i >= 0; i-- {
		s := b[i]
		if t.ignorable(s) {
			continue
		}
		switch x := s.(type) {
		case *ast.ReturnStmt:
			return true
		case *ast.BranchStmt:
			return x.Tok == token.CONTINUE || x.Tok == token.BREAK
		case *ast.IfStmt:
			return x.Else != nil && t.terminates(x.Body.List) && t.terminates(irElse(x))
		case *ast.BlockStmt:
			return t.terminates(x.List)
		case *ast.SwitchStmt:
			hasDefault := false
			for _, c := range x.Body.List {
				cc := c.(*ast.CaseClause)
				if cc.List == nil {
					hasDefault = true
				}
				if !t.terminates(cc.Body) {
					return false
				}
			}
			return hasDefault
		}
		return t.isPanic(s)
	}
	return false
}

// exits: the list contains a return / panic, or a continue / break of the enclosing loop.
func (t *irT) exits(b []ast.Stmt, inNested bool) bool {
	for _, s := range b {
		if t.ignorable(s) {
			continue
		}
		switch x := s.(type) {
		case *ast.ReturnStmt:
			return true
		case *ast.BranchStmt:
			if !inNested {
				return true
			}
		case *ast.IfStmt:
			if t.exits(x.Body.List, inNested) || t.exits(irElse(x), inNested) {
				return true
			}
		case *ast.BlockStmt:
			if t.exits(x.List, inNested) {
				return true
			}
		case *ast.SwitchStmt:
			for _, c := range x.Body.List {
				if t.exits(c.(*ast.CaseClause).Body, inNested) {
					return true
				}
			}
		case *ast.RangeStmt:
			if t.exits(x.Body.List, true) {
				return true
			}
		case *ast.ForStmt:
			if t.exits(x.Body.List, true) {
				return true
			}
		default:
			if t.isPanic(s) {
				return true
			}
		}
	}
	return false
}

// lhsKey resolves an assignment target to an environment key ("" for `_`).
func (t *irT) lhsKey(e ast.Expr, env *irEnv) (string, error) {
	switch x := e.(type) {
	case *ast.Ident:
		if x.Name == "_" {
			return "", nil
		}
		return x.Name, nil
	case *ast.StarExpr:
		if a := irAliasOf(x.X, env); a != nil {
			return a.CollKey, nil
		}
	case *ast.SelectorExpr:
		if a := irAliasOf(x.X, env); a != nil {
			return a.CollKey, nil
		}
		rx, err := t.tryExpr(x.X, env)
		if err != nil {
			return "", err
		}
		if f, ok := t.spec.Fields[rx.Ty+"."+x.Sel.Name]; ok && f.State {
			return "§" + f.Fmt, nil
		}
	case *ast.IndexExpr:
		return t.lhsKey(x.X, env)
	case *ast.ParenExpr:
		return t.lhsKey(x.X, env)
	}
	return "", fmt.Errorf("unsupported assignment target %s", t.r.Src(e))
}

// assigned collects the environment keys (of `outer`) assigned anywhere in b.
func (t *irT) assigned(b []ast.Stmt, outer *irEnv, set map[string]bool) {
	add := func(k string) {
		if _, ok := outer.vars[k]; ok && k != "" {
			set[k] = true
		}
	}
	localAlias := map[string]string{}
	aliasTarget := func(l ast.Expr) (string, bool) {
		var root ast.Expr
		switch tl := irUnparen(l).(type) {
		case *ast.StarExpr:
			root = tl.X
		case *ast.SelectorExpr:
			root = tl.X
		default:
			return "", false
		}
		if id, ok := irUnparen(root).(*ast.Ident); ok {
			k, ok := localAlias[id.Name]
			return k, ok
		}
		return "", false
	}
	var walkStmt func(s ast.Stmt)
	walk := func(l []ast.Stmt) {
		for _, s := range l {
			walkStmt(s)
		}
	}
	walkStmt = func(s ast.Stmt) {
		if s == nil || t.ignorable(s) {
			return
		}
		switch x := s.(type) {
		case *ast.AssignStmt:
			// b := &xs[i] declared inside b: later writes through b are writes to xs
			if x.Tok == token.DEFINE && len(x.Lhs) == 1 && len(x.Rhs) == 1 {
				if ue, ok := x.Rhs[0].(*ast.UnaryExpr); ok && ue.Op == token.AND {
					if ie, ok := irUnparen(ue.X).(*ast.IndexExpr); ok {
						if id, ok := x.Lhs[0].(*ast.Ident); ok {
							if k, err := t.lhsKey(ie.X, outer); err == nil {
								localAlias[id.Name] = k
							}
						}
					}
				}
			}
			for _, l := range x.Lhs {
				if k, ok := aliasTarget(l); ok {
					add(k)
				} else if k, err := t.lhsKey(l, outer); err == nil {
					add(k)
				}
			}
		case *ast.IncDecStmt:
			if k, ok := aliasTarget(x.X); ok {
				add(k)
			} else if k, err := t.lhsKey(x.X, outer); err == nil {
				add(k)
			}
		case *ast.ExprStmt:
			if ce, ok := x.X.(*ast.CallExpr); ok {
				ng := len(t.guards)
				sc, args, err := t.stmtCall(ce, outer)
				t.guards = t.guards[:ng]
				if err == nil {
					for _, l := range sc.Lets {
						name := irFmt(l.Var, args)
						if k, ok := outer.keyOfLean(name); ok {
							add(k)
						}
					}
				}
			}
		case *ast.IfStmt:
			walkStmt(x.Init)
			walk(x.Body.List)
			walk(irElse(x))
		case *ast.BlockStmt:
			walk(x.List)
		case *ast.SwitchStmt:
			walkStmt(x.Init)
			for _, c := range x.Body.List {
				walk(c.(*ast.CaseClause).Body)
			}
		case *ast.RangeStmt:
			walk(x.Body.List)
		case *ast.ForStmt:
			walkStmt(x.Init)
			walkStmt(x.Post)
			walk(x.Body.List)
		}
	}
	walk(b)
}

// stmtCall finds the configuration of a call used as a statement and its translated arguments.
func (t *irT) stmtCall(ce *ast.CallExpr, env *irEnv) (irStmtCall, []string, error) {
	fun := t.r.Src(ce.Fun)
	var sc irStmtCall
	var args []string
	found := false
	if se, ok := ce.Fun.(*ast.SelectorExpr); ok {
		if rx, err := t.tryExpr(se.X, env); err == nil {
			if m, ok := t.spec.StmtMethods[rx.Ty+"."+se.Sel.Name]; ok {
				sc, found = m, true
				args = append(args, rx.S)
			}
		}
	}
	if !found {
		if f, ok := t.spec.StmtFuncs[fun]; ok {
			sc, found = f, true
		}
	}
	if !found {
		return sc, nil, fmt.Errorf("unsupported statement %s", t.r.Src(ce))
	}
	if sc.NArgs >= 0 {
		if len(ce.Args) != sc.NArgs {
			return sc, nil, fmt.Errorf("%s: %d arguments, expected %d", fun, len(ce.Args), sc.NArgs)
		}
		_, as, err := t.exprs(ce.Args, env)
		if err != nil {
			return sc, nil, err
		}
		args = append(args, as...)
	}
	return sc, args, nil
}

// ---------------------------------------------------------------------------
// statements

func (t *irT) block(b []ast.Stmt, env *irEnv, ind string, k irK) (string, error) {
	return t.stmts(b, env.push(), ind, k)
}

func (t *irT) stmts(b []ast.Stmt, env *irEnv, ind string, k irK) (string, error) {
	if len(b) == 0 {
		if k == nil {
			return "", fmt.Errorf("block falls off the end without return")
		}
		return k(ind)
	}
	rest := b[1:]
	next := func(env2 *irEnv, ind string) (string, error) { return t.stmts(rest, env2, ind, k) }
	return t.stmt(b[0], env, ind, next)
}

// bind emits `let v : T := rhs` for an environment key, declaring it when new.
func (t *irT) bind(key string, define bool, rhs irTerm, env *irEnv, ind string) (string, *irEnv, error) {
	v, ok := env.vars[key]
	switch {
	case define && (!ok || v.Depth == env.depth):
		// new variable, or Go's redeclaration in the same scope (`a, err := …; b, err := …`)
		ty := rhs.Ty
		if ty == "lit" {
			ty = "Int"
		}
		if ty == "nil" {
			return "", nil, fmt.Errorf("cannot type %s := nil", key)
		}
		if ok && !v.Param && v.Ty != ty {
			return "", nil, fmt.Errorf("redeclaration of %s changes type %s → %s", key, v.Ty, ty)
		}
		v = irVar{Lean: irIdent(key), Ty: ty, Depth: env.depth}
		env = env.with(key, v)
	case define:
		return "", nil, fmt.Errorf("declaration of %s shadows an outer variable (not supported)", key)
	case !ok:
		return "", nil, fmt.Errorf("assignment to unknown variable %s", key)
	default:
		if _, okj := irJoinNum(v.Ty, rhs.Ty); !(okj && irIsNum(v.Ty) && irIsNum(rhs.Ty)) && v.Ty != rhs.Ty {
			return "", nil, fmt.Errorf("assignment of %s to %s : %s", rhs.Ty, key, v.Ty)
		}
		if v.Param { // assignment to a Go parameter: it becomes a local that shadows the binder
			nv := irVar{Lean: irIdent(key), Ty: v.Ty, Depth: v.Depth}
			out := ""
			if nv.Lean != v.Lean {
				out = fmt.Sprintf("%slet %s : %s := %s\n", ind, nv.Lean, t.leanTy(nv.Ty), v.Lean)
			}
			env = env.with(key, nv)
			v = nv
			return out + fmt.Sprintf("%slet %s : %s := %s\n", ind, v.Lean, t.leanTy(v.Ty), rhs.S), env, nil
		}
	}
	return fmt.Sprintf("%slet %s : %s := %s\n", ind, v.Lean, t.leanTy(v.Ty), rhs.S), env, nil
}

func (t *irT) goType(e ast.Expr) (string, error) {
	src := t.r.Src(e)
	if v, ok := t.spec.GoTy[src]; ok {
		return v, nil
	}
	if v, ok := irDefaultGoTy[src]; ok {
		return v, nil
	}
	return "", fmt.Errorf("unsupported Go type %s", src)
}

func irZero(ty string) (string, bool) {
	switch ty {
	case "Int", "Nat":
		return "0", true
	case "Bool":
		return "false", true
	case "String":
		return "\"\"", true
	case "Error":
		return "false", true
	}
	if strings.HasPrefix(ty, "List ") {
		return "[]", true
	}
	return "", false
}

// stmt translates one statement. Guards of partial calls (irCall.Guard) evaluated by the statement
// are checked right after its bindings: `if guard then <rest> else <Panic>` (Lean is pure, so the
// order of the binding and the test does not matter).
func (t *irT) stmt(s ast.Stmt, env *irEnv, ind string, next irNext) (string, error) {
	if len(t.guards) != 0 {
		return "", fmt.Errorf("partial call in an unsupported position before %s", t.r.Src(s))
	}
	guarded := func(rest func(ind string) (string, error), ind string) (string, error) {
		g := t.guards
		t.guards = nil
		if len(g) == 0 {
			return rest(ind)
		}
		if t.spec.Panic == "" {
			return "", fmt.Errorf("partial call but panic not configured: %s", t.r.Src(s))
		}
		r, err := rest(ind + "  ")
		if err != nil {
			return "", err
		}
		return fmt.Sprintf("%sif %s then\n%s%selse\n%s  %s\n", ind, strings.Join(g, " && "), r, ind, ind, t.wrapRet(t.spec.Panic)), nil
	}
	switch s.(type) {
	case *ast.AssignStmt, *ast.IncDecStmt, *ast.DeclStmt, *ast.ExprStmt:
		inner := next
		next = func(env2 *irEnv, ind string) (string, error) {
			return guarded(func(ind string) (string, error) { return inner(env2, ind) }, ind)
		}
	}
	if t.ignorable(s) {
		t.skipped = append(t.skipped, t.r.Src(s))
		return next(env, ind)
	}
	switch x := s.(type) {
	case *ast.EmptyStmt:
		return next(env, ind)
	case *ast.BlockStmt:
		return t.block(x.List, env, ind, func(ind string) (string, error) { return next(env, ind) })
	case *ast.DeclStmt:
		gd, ok := x.Decl.(*ast.GenDecl)
		if !ok || gd.Tok != token.VAR {
			break
		}
		out := ""
		for _, sp := range gd.Specs {
			vs := sp.(*ast.ValueSpec)
			for i, n := range vs.Names {
				var val irTerm
				if i < len(vs.Values) {
					v, err := t.expr(vs.Values[i], env)
					if err != nil {
						return "", err
					}
					val = v
				}
				if vs.Type != nil {
					ty, err := t.goType(vs.Type)
					if err != nil {
						return "", err
					}
					if val.S == "" {
						z, ok := irZero(ty)
						if !ok {
							return "", fmt.Errorf("no zero value for %s (%s)", ty, t.r.Src(s))
						}
						val = irTerm{z, ty}
					} else if val.Ty == "lit" || val.Ty == "nil" {
						val.Ty = ty
					}
				} else if val.S == "" {
					return "", fmt.Errorf("unsupported declaration %s", t.r.Src(s))
				}
				if n.Name == "_" {
					continue
				}
				l, env2, err := t.bind(n.Name, true, val, env, ind)
				if err != nil {
					return "", err
				}
				out, env = out+l, env2
			}
		}
		r, err := next(env, ind)
		return out + r, err
	case *ast.IncDecStmt:
		one := &ast.BasicLit{Kind: token.INT, Value: "1"}
		tok := token.ADD_ASSIGN
		if x.Tok == token.DEC {
			tok = token.SUB_ASSIGN
		}
		return t.assign(&ast.AssignStmt{Lhs: []ast.Expr{x.X}, Tok: tok, Rhs: []ast.Expr{one}}, env, ind, next)
	case *ast.AssignStmt:
		return t.assign(x, env, ind, next)
	case *ast.ReturnStmt:
		vals, _, err := t.exprs(x.Results, env)
		if err != nil {
			return "", err
		}
		r, err := t.spec.Ret(vals)
		if err != nil {
			return "", fmt.Errorf("%v (%s)", err, t.r.Src(s))
		}
		return guarded(func(ind string) (string, error) { return ind + t.wrapRet(r) + "\n", nil }, ind)
	case *ast.BranchStmt:
		if x.Label != nil || t.loop == nil {
			break
		}
		switch x.Tok {
		case token.CONTINUE:
			return t.loop.cont(ind)
		case token.BREAK:
			return t.loop.brk(ind)
		}
	case *ast.ExprStmt:
		if t.isPanic(s) {
			if t.spec.Panic == "" {
				return "", fmt.Errorf("panic not configured: %s", t.r.Src(s))
			}
			return ind + t.wrapRet(t.spec.Panic) + "\n", nil
		}
		ce, ok := x.X.(*ast.CallExpr)
		if !ok {
			break
		}
		sc, args, err := t.stmtCall(ce, env)
		if err != nil {
			return "", err
		}
		out := ""
		for _, l := range sc.Lets {
			name := irFmt(l.Var, args)
			rhs := irTerm{irFmt(l.Fmt, args), l.Ty}
			if k, ok := env.keyOfLean(name); ok {
				ls, env2, err := t.bind(k, false, rhs, env, ind)
				if err != nil {
					return "", err
				}
				out, env = out+ls, env2
			} else { // auxiliary binding, not a tracked variable
				out += fmt.Sprintf("%slet %s : %s := %s\n", ind, name, t.leanTy(l.Ty), rhs.S)
			}
		}
		r, err := next(env, ind)
		return out + r, err
	case *ast.IfStmt:
		return t.ifStmt(x, env, ind, next)
	case *ast.SwitchStmt:
		d, err := t.desugarSwitch(x)
		if err != nil {
			return "", err
		}
		return t.stmt(d, env, ind, next)
	case *ast.RangeStmt:
		return t.rangeStmt(x, env, ind, next)
	case *ast.ForStmt:
		return t.forStmt(x, env, ind, next)
	}
	return "", fmt.Errorf("unsupported statement %s", t.r.Src(s))
}

func (t *irT) wrapRet(r string) string {
	if t.inLoop {
		return ".inl (" + r + ")"
	}
	return r
}

func (t *irT) assign(x *ast.AssignStmt, env *irEnv, ind string, next irNext) (string, error) {
	define := x.Tok == token.DEFINE
	// multi-value: a, b := f(x) with a tuple-typed call
	if len(x.Lhs) > 1 && len(x.Rhs) == 1 {
		if x.Tok != token.DEFINE && x.Tok != token.ASSIGN {
			return "", fmt.Errorf("unsupported assignment %s", t.r.Src(x))
		}
		rhs, err := t.expr(x.Rhs[0], env)
		if err != nil {
			return "", err
		}
		parts := irSplitProd(rhs.Ty)
		if len(parts) != len(x.Lhs) {
			return "", fmt.Errorf("%s: %d targets for a value of type %s", t.r.Src(x), len(x.Lhs), rhs.Ty)
		}
		t.ntmp++
		tmp := fmt.Sprintf("t%d__", t.ntmp)
		out := fmt.Sprintf("%slet %s : %s := %s\n", ind, tmp, t.leanTy(rhs.Ty), rhs.S)
		for i, l := range x.Lhs {
			k, err := t.lhsKey(l, env)
			if err != nil {
				return "", err
			}
			if k == "" {
				continue
			}
			ls, env2, err := t.bind(k, define, irTerm{irProj(tmp, i, len(parts)), parts[i]}, env, ind)
			if err != nil {
				return "", err
			}
			out, env = out+ls, env2
		}
		r, err := next(env, ind)
		return out + r, err
	}
	if len(x.Lhs) != len(x.Rhs) {
		return "", fmt.Errorf("unsupported assignment %s", t.r.Src(x))
	}
	// b := &xs[i]: pointer into a tracked collection
	if define && len(x.Lhs) == 1 {
		if ue, ok := x.Rhs[0].(*ast.UnaryExpr); ok && ue.Op == token.AND {
			ie, ok1 := irUnparen(ue.X).(*ast.IndexExpr)
			id, ok2 := x.Lhs[0].(*ast.Ident)
			if !ok1 || !ok2 || irInEnv(env, id.Name) {
				return "", fmt.Errorf("unsupported pointer %s", t.r.Src(x))
			}
			ck, err := t.lhsKey(ie.X, env)
			if err != nil {
				return "", err
			}
			coll, ok := env.vars[ck]
			if !ok {
				return "", fmt.Errorf("pointer into untracked collection %s", t.r.Src(x))
			}
			f, ok := t.spec.Index[coll.Ty]
			if !ok {
				return "", fmt.Errorf("indexing of %s not configured (%s)", coll.Ty, t.r.Src(x))
			}
			idx, err := t.expr(ie.Index, env)
			if err != nil {
				return "", err
			}
			ity := idx.Ty
			if ity == "lit" {
				ity = "Int"
			}
			iname := irIdent(id.Name) + "_idx__"
			out := fmt.Sprintf("%slet %s : %s := %s\n", ind, iname, t.leanTy(ity), idx.S)
			env = env.with(id.Name, irVar{Lean: iname, Ty: ity, Depth: env.depth, Alias: &irAlias{CollKey: ck, Idx: iname, ElemTy: f.Ty}})
			r, err := next(env, ind)
			return out + r, err
		}
	}
	// parallel assignment: evaluate all right-hand sides first when there are several
	var rhss []irTerm
	for _, r := range x.Rhs {
		v, err := t.expr(r, env)
		if err != nil {
			return "", err
		}
		rhss = append(rhss, v)
	}
	out := ""
	if len(x.Lhs) > 1 {
		for i := range rhss {
			tmp := fmt.Sprintf("p%d__", i)
			ty := rhss[i].Ty
			out += fmt.Sprintf("%slet %s : %s := %s\n", ind, tmp, t.leanTy(ty), rhss[i].S)
			rhss[i].S = tmp
		}
	}
	for i, l := range x.Lhs {
		rhs := rhss[i]
		k, err := t.lhsKey(l, env)
		if err != nil {
			return "", err
		}
		if k == "" {
			continue
		}
		// xs[i] = v
		if ie, ok := irUnparen(l).(*ast.IndexExpr); ok {
			if define || x.Tok != token.ASSIGN {
				return "", fmt.Errorf("unsupported assignment %s", t.r.Src(x))
			}
			coll, err := t.expr(ie.X, env)
			if err != nil {
				return "", err
			}
			idx, err := t.expr(ie.Index, env)
			if err != nil {
				return "", err
			}
			f, ok := t.spec.IndexSet[coll.Ty]
			if !ok {
				return "", fmt.Errorf("index assignment on %s not configured (%s)", coll.Ty, t.r.Src(x))
			}
			rhs = irTerm{irFmt(f, []string{coll.S, idx.S, rhs.S}), coll.Ty}
		} else if !define && x.Tok != token.ASSIGN {
			var op token.Token
			switch x.Tok {
			case token.ADD_ASSIGN:
				op = token.ADD
			case token.SUB_ASSIGN:
				op = token.SUB
			case token.MUL_ASSIGN:
				op = token.MUL
			case token.QUO_ASSIGN:
				op = token.QUO
			case token.REM_ASSIGN:
				op = token.REM
			default:
				return "", fmt.Errorf("unsupported assignment operator in %s", t.r.Src(x))
			}
			v, err := t.binary(&ast.BinaryExpr{X: l, Op: op, Y: x.Rhs[i]}, env)
			if err != nil {
				return "", err
			}
			rhs = v
		}
		// writes through a pointer into a collection
		var al *irAlias
		field := ""
		switch tl := irUnparen(l).(type) {
		case *ast.StarExpr:
			al = irAliasOf(tl.X, env)
		case *ast.SelectorExpr:
			al, field = irAliasOf(tl.X, env), tl.Sel.Name
		}
		if al != nil {
			if define {
				return "", fmt.Errorf("unsupported assignment %s", t.r.Src(x))
			}
			coll := env.vars[al.CollKey]
			set, ok := t.spec.IndexSet[coll.Ty]
			if !ok {
				return "", fmt.Errorf("index assignment on %s not configured (%s)", coll.Ty, t.r.Src(x))
			}
			elem := rhs.S
			if field != "" {
				lf, ok := t.spec.FieldSet[al.ElemTy+"."+field]
				if !ok {
					return "", fmt.Errorf("field update %s.%s not configured (%s)", al.ElemTy, field, t.r.Src(x))
				}
				cur, err := t.expr(irUnparen(l).(*ast.SelectorExpr).X, env)
				if err != nil {
					return "", err
				}
				elem = fmt.Sprintf("{ %s with %s := %s }", cur.S, lf, rhs.S)
			} else if rhs.Ty != al.ElemTy {
				return "", fmt.Errorf("assignment of %s through *%s", rhs.Ty, al.ElemTy)
			}
			rhs = irTerm{irFmt(set, []string{coll.Lean, al.Idx, elem}), coll.Ty}
		}
		ls, env2, err := t.bind(k, define, rhs, env, ind)
		if err != nil {
			return "", err
		}
		out, env = out+ls, env2
	}
	r, err := next(env, ind)
	return out + r, err
}

func irAliasOf(e ast.Expr, env *irEnv) *irAlias {
	if id, ok := irUnparen(e).(*ast.Ident); ok {
		if v, ok := env.vars[id.Name]; ok {
			return v.Alias
		}
	}
	return nil
}

func irUnparen(e ast.Expr) ast.Expr {
	for {
		p, ok := e.(*ast.ParenExpr)
		if !ok {
			return e
		}
		e = p.X
	}
}

// tuple of the given environment keys (Lean names), and its type.
func (t *irT) tuple(keys []string, env *irEnv) (val, pat, ty string) {
	if len(keys) == 0 {
		return "()", "_", "Unit"
	}
	var ns, ts []string
	for _, k := range keys {
		v := env.vars[k]
		ns = append(ns, v.Lean)
		lt := t.leanTy(v.Ty)
		if strings.Contains(lt, "×") {
			lt = "(" + lt + ")"
		}
		ts = append(ts, lt)
	}
	if len(keys) == 1 {
		return ns[0], ns[0], ts[0]
	}
	return "(" + strings.Join(ns, ", ") + ")", "(" + strings.Join(ns, ", ") + ")", strings.Join(ts, " × ")
}

func (t *irT) sortedKeys(set map[string]bool, env *irEnv) []string {
	var keys []string
	for _, k := range env.order {
		if set[k] {
			keys = append(keys, k)
		}
	}
	return keys
}

func (t *irT) ifStmt(x *ast.IfStmt, env *irEnv, ind string, next irNext) (string, error) {
	if x.Init != nil {
		if as, ok := x.Init.(*ast.AssignStmt); ok && as.Tok == token.DEFINE {
			for _, l := range as.Lhs {
				if id, ok := l.(*ast.Ident); ok && id.Name != "_" && irInEnv(env, id.Name) {
					return "", fmt.Errorf("if-init redeclares %s (shadowing not supported)", id.Name)
				}
			}
		}
		return t.stmt(x.Init, env.push(), ind, func(env2 *irEnv, ind string) (string, error) {
			return t.ifCore(x, env, env2, ind, next)
		})
	}
	return t.ifCore(x, env, env, ind, next)
}

func (t *irT) ifCore(x *ast.IfStmt, outer, cenv *irEnv, ind string, next irNext) (string, error) {
	cond, err := t.expr(x.Cond, cenv)
	if err != nil {
		return "", err
	}
	if cond.Ty != "Bool" {
		return "", fmt.Errorf("condition %s has type %s", t.r.Src(x.Cond), cond.Ty)
	}
	thenB, elseB := x.Body.List, irElse(x)
	after := func(ind string) (string, error) { return next(outer, ind) }
	thenT, elseT := t.terminates(thenB), t.terminates(elseB)
	emit := func(kt, ke irK) (string, error) {
		th, err := t.block(thenB, cenv, ind+"  ", kt)
		if err != nil {
			return "", err
		}
		el, err := t.block(elseB, cenv, ind+"  ", ke)
		if err != nil {
			return "", err
		}
		return fmt.Sprintf("%sif %s then\n%s%selse\n%s", ind, cond.S, th, ind, el), nil
	}
	switch {
	case thenT && elseT:
		return emit(nil, nil)
	case thenT:
		return emit(nil, after)
	case elseT:
		return emit(after, nil)
	}
	if t.exits(thenB, false) || t.exits(elseB, false) {
		return emit(after, after) // continuation duplicated into both branches
	}
	// neither branch leaves: merge the assigned outer variables through a tuple
	set := map[string]bool{}
	t.assigned(thenB, outer, set)
	t.assigned(elseB, outer, set)
	keys := t.sortedKeys(set, outer)
	if len(keys) == 0 {
		// no modelled effect; the branches must still translate (nothing is skipped unseen)
		fin := func(ind string) (string, error) { return ind + "()\n", nil }
		if _, err := t.block(thenB, cenv, ind, fin); err != nil {
			return "", err
		}
		if _, err := t.block(elseB, cenv, ind, fin); err != nil {
			return "", err
		}
		t.skipped = append(t.skipped, "(no modelled effect) "+t.r.Src(x))
		return next(outer, ind)
	}
	val, _, ty := t.tuple(keys, outer)
	fin := func(ind string) (string, error) { return ind + val + "\n", nil }
	th, err := t.block(thenB, cenv, ind+"    ", fin)
	if err != nil {
		return "", err
	}
	el, err := t.block(elseB, cenv, ind+"    ", fin)
	if err != nil {
		return "", err
	}
	name := val
	if len(keys) > 1 {
		name = fmt.Sprintf("m%d__", len(ind))
	}
	out := fmt.Sprintf("%slet %s : %s :=\n%s  if %s then\n%s%s  else\n%s", ind, name, ty, ind, cond.S, th, ind, el)
	if len(keys) > 1 {
		for i, k := range keys {
			v := outer.vars[k]
			out += fmt.Sprintf("%slet %s : %s := %s\n", ind, v.Lean, t.leanTy(v.Ty), irProj(name, i, len(keys)))
		}
	}
	r, err := next(outer, ind)
	return out + r, err
}

// desugarSwitch rewrites a switch into nested if statements (default last).
func (t *irT) desugarSwitch(x *ast.SwitchStmt) (ast.Stmt, error) {
	var deflt []ast.Stmt
	hasDefault := false
	type cas struct {
		cond ast.Expr
		body []ast.Stmt
	}
	var cases []cas
	for _, c := range x.Body.List {
		cc := c.(*ast.CaseClause)
		for _, s := range cc.Body {
			if bs, ok := s.(*ast.BranchStmt); ok && (bs.Tok == token.FALLTHROUGH || bs.Tok == token.BREAK) {
				return nil, fmt.Errorf("unsupported %s in switch", bs.Tok)
			}
		}
		if cc.List == nil {
			deflt, hasDefault = cc.Body, true
			continue
		}
		var cond ast.Expr
		for _, e := range cc.List {
			var c1 ast.Expr = e
			if x.Tag != nil {
				c1 = &ast.BinaryExpr{X: x.Tag, Op: token.EQL, Y: e}
			}
			if cond == nil {
				cond = c1
			} else {
				cond = &ast.BinaryExpr{X: cond, Op: token.LOR, Y: c1}
			}
		}
		cases = append(cases, cas{cond, cc.Body})
	}
	var cur ast.Stmt
	if hasDefault {
		cur = &ast.BlockStmt{List: deflt}
	}
	for i := len(cases) - 1; i >= 0; i-- {
		cur = &ast.IfStmt{Cond: cases[i].cond, Body: &ast.BlockStmt{List: cases[i].body}, Else: cur}
	}
	if cur == nil {
		cur = &ast.BlockStmt{}
	}
	if is, ok := cur.(*ast.IfStmt); ok {
		is.Init = x.Init
	} else if x.Init != nil {
		cur = &ast.BlockStmt{List: []ast.Stmt{x.Init, cur}}
	}
	return cur, nil
}

// loopFn emits the generated recursive function and the call site.
func (t *irT) loopFn(body []ast.Stmt, env *irEnv, ind string, next irNext,
	extraBinder, extraArgRec, extraArgInit string, // additional threaded variable (counted loops)
	domTy, nilPat, consPat, recArg, initArg string,
	bodyEnv func(*irEnv) *irEnv) (string, error) {

	t.nloop++
	name := fmt.Sprintf("%s_loop%d", t.spec.Name, t.nloop)
	set := map[string]bool{}
	t.assigned(body, env, set)
	keys := t.sortedKeys(set, env)
	val, pat, sty := t.tuple(keys, env)

	locals := env.locals()
	var binders, args []string
	binders = append(binders, t.spec.Binders)
	args = append(args, t.spec.BNames...)
	for _, v := range locals {
		binders = append(binders, fmt.Sprintf("(%s : %s)", v.Lean, t.leanTy(v.Ty)))
		args = append(args, v.Lean)
	}
	if extraBinder != "" {
		binders = append(binders, extraBinder)
	}
	callWith := func(extra, dom string) string {
		a := append([]string(nil), args...)
		if extra != "" {
			a = append(a, extra)
		}
		a = append(a, dom)
		return name + " " + strings.Join(a, " ")
	}
	rty := t.spec.RetTy
	if strings.Contains(rty, " ") {
		rty = "(" + rty + ")"
	}
	lsty := sty
	if strings.Contains(lsty, " ") {
		lsty = "(" + lsty + ")"
	}
	savedLoop, savedIn := t.loop, t.inLoop
	cont := func(ind string) (string, error) { return ind + callWith(extraArgRec, recArg) + "\n", nil }
	t.loop = &irLoopCtx{cont: cont, brk: func(ind string) (string, error) { return ind + ".inr " + val + "\n", nil }}
	t.inLoop = true
	b, err := t.stmts(body, bodyEnv(env.push()), "    ", cont)
	t.loop, t.inLoop = savedLoop, savedIn
	if err != nil {
		return "", err
	}
	def := fmt.Sprintf("def %s %s : %s → Sum %s %s\n  | %s => .inr %s\n  | %s =>\n%s",
		name, strings.Join(binders, " "), domTy, rty, lsty, nilPat, val, consPat, b)
	t.aux = append(t.aux, def)

	r, err := next(env, ind+"  ")
	if err != nil {
		return "", err
	}
	return fmt.Sprintf("%smatch %s with\n%s| .inl r__ => %s\n%s| .inr %s =>\n%s",
		ind, callWith(extraArgInit, initArg), ind, t.wrapRet("r__"), ind, pat, r), nil
}

func (t *irT) rangeStmt(x *ast.RangeStmt, env *irEnv, ind string, next irNext) (string, error) {
	if x.Tok != token.DEFINE && !(x.Key == nil && x.Value == nil) {
		return "", fmt.Errorf("unsupported range %s", t.r.Src(x.X))
	}
	if x.Key != nil {
		if id, ok := x.Key.(*ast.Ident); !ok || id.Name != "_" {
			return "", fmt.Errorf("range with index variable not supported (%s)", t.r.Src(x.X))
		}
	}
	xs, err := t.expr(x.X, env)
	if err != nil {
		return "", err
	}
	if !strings.HasPrefix(xs.Ty, "List ") {
		return "", fmt.Errorf("range over %s : %s", t.r.Src(x.X), xs.Ty)
	}
	elem := strings.TrimPrefix(xs.Ty, "List ")
	vname := "_"
	if id, ok := x.Value.(*ast.Ident); ok && id.Name != "_" {
		if irInEnv(env, id.Name) {
			return "", fmt.Errorf("range variable %s shadows an outer variable (not supported)", id.Name)
		}
		vname = id.Name
	}
	lv := "_"
	if vname != "_" {
		lv = irIdent(vname)
	}
	domTy := t.leanTy(xs.Ty)
	xsS := xs.S
	if strings.Contains(xsS, " ") && !strings.HasPrefix(xsS, "(") {
		xsS = "(" + xsS + ")"
	}
	return t.loopFn(x.Body.List, env, ind, next, "", "", "", domTy, "[]", lv+" :: rest__", "rest__", xsS,
		func(e *irEnv) *irEnv {
			if vname == "_" {
				return e
			}
			return e.with(vname, irVar{Lean: lv, Ty: elem, Depth: e.depth, Param: true})
		})
}

// forStmt handles `for i := a; i < n; i++ { … }` where the body assigns neither i nor n.
func (t *irT) forStmt(x *ast.ForStmt, env *irEnv, ind string, next irNext) (string, error) {
	bad := func(why string) (string, error) {
		return "", fmt.Errorf("unsupported for statement (%s): %s", why, t.r.Src(x.Cond))
	}
	as, ok := x.Init.(*ast.AssignStmt)
	if !ok || as.Tok != token.DEFINE || len(as.Lhs) != 1 || len(as.Rhs) != 1 {
		return bad("init")
	}
	iv, ok := as.Lhs[0].(*ast.Ident)
	if !ok || irInEnv(env, iv.Name) {
		return bad("init variable")
	}
	ce, ok := x.Cond.(*ast.BinaryExpr)
	if !ok || ce.Op != token.LSS {
		return bad("condition")
	}
	if id, ok := ce.X.(*ast.Ident); !ok || id.Name != iv.Name {
		return bad("condition variable")
	}
	post, ok := x.Post.(*ast.IncDecStmt)
	if !ok || post.Tok != token.INC {
		return bad("post")
	}
	if id, ok := post.X.(*ast.Ident); !ok || id.Name != iv.Name {
		return bad("post variable")
	}
	a, err := t.expr(as.Rhs[0], env)
	if err != nil {
		return "", err
	}
	n, err := t.expr(ce.Y, env)
	if err != nil {
		return "", err
	}
	ity, okj := irJoinNum(a.Ty, n.Ty)
	if !okj {
		return bad("bound type")
	}
	if ity == "lit" {
		ity = "Int"
	}
	// the bound must not change in the body
	set := map[string]bool{}
	t.assigned(x.Body.List, env, set)
	boundVars := map[string]bool{}
	ast.Inspect(ce.Y, func(nd ast.Node) bool {
		if id, ok := nd.(*ast.Ident); ok {
			boundVars[id.Name] = true
		}
		if se, ok := nd.(*ast.SelectorExpr); ok {
			if k, err := t.lhsKey(se, env); err == nil {
				boundVars[k] = true
			}
		}
		return true
	})
	for k := range set {
		if boundVars[k] {
			return bad("bound assigned in body")
		}
	}
	inner := env.with(iv.Name, irVar{Lean: irIdent(iv.Name), Ty: ity, Depth: env.depth + 1, Param: true})
	set2 := map[string]bool{}
	t.assigned(x.Body.List, inner, set2)
	if set2[iv.Name] {
		return bad("loop variable assigned in body")
	}
	li := irIdent(iv.Name)
	fuel := fmt.Sprintf("(%s - %s).toNat", n.S, a.S)
	if ity == "Nat" {
		fuel = fmt.Sprintf("(%s - %s)", n.S, a.S)
	}
	aS := a.S
	if a.Ty == "lit" {
		aS = fmt.Sprintf("(%s : %s)", a.S, ity)
	}
	return t.loopFn(x.Body.List, env, ind, next,
		fmt.Sprintf("(%s : %s)", li, ity), fmt.Sprintf("(%s + 1)", li), aS,
		"Nat", "0", "fuel__ + 1", "fuel__", fuel,
		func(e *irEnv) *irEnv {
			return e.with(iv.Name, irVar{Lean: li, Ty: ity, Depth: e.depth, Param: true})
		})
}

// ---------------------------------------------------------------------------
// driver

// irTranslate translates the body of fd according to spec. It returns the generated Lean
// definitions (loop functions first, the main definition last) and the list of ignored statements.
func irTranslate(r *Repo, fd *ast.FuncDecl, spec *irSpec) (string, []string, error) {
	t := &irT{r: r, spec: spec}
	env := &irEnv{vars: map[string]irVar{}}
	fail := func(format string, a ...interface{}) (string, []string, error) {
		return "", nil, fmt.Errorf("%s: %s", fd.Name.Name, fmt.Sprintf(format, a...))
	}
	if fd.Body == nil {
		return fail("no body")
	}
	if spec.Recv.S != "" {
		if fd.Recv == nil || len(fd.Recv.List) != 1 {
			return fail("receiver expected")
		}
		if len(fd.Recv.List[0].Names) == 1 && fd.Recv.List[0].Names[0].Name != "_" {
			env = env.with(fd.Recv.List[0].Names[0].Name, irVar{Lean: spec.Recv.S, Ty: spec.Recv.Ty, Param: true})
		}
	}
	var pnames []string
	if fd.Type.Params != nil {
		for _, f := range fd.Type.Params.List {
			if len(f.Names) == 0 {
				pnames = append(pnames, "_")
			}
			for _, n := range f.Names {
				pnames = append(pnames, n.Name)
			}
		}
	}
	if len(pnames) != len(spec.Params) {
		return fail("%d parameters, expected %d", len(pnames), len(spec.Params))
	}
	for i, n := range pnames {
		if n != "_" && spec.Params[i].S != "" {
			env = env.with(n, irVar{Lean: spec.Params[i].S, Ty: spec.Params[i].Ty, Param: true})
		}
	}
	if fd.Type.Results != nil {
		for _, f := range fd.Type.Results.List {
			if len(f.Names) > 0 {
				return fail("named results not supported")
			}
		}
	}
	pre := ""
	for _, s := range spec.State {
		env = env.with("§"+s.Var, irVar{Lean: s.Var, Ty: s.Ty})
		pre += fmt.Sprintf("  let %s : %s := %s\n", s.Var, t.leanTy(s.Ty), s.Fmt)
	}
	var k irK
	if fd.Type.Results == nil || len(fd.Type.Results.List) == 0 {
		k = func(ind string) (string, error) {
			r, err := spec.Ret(nil)
			return ind + r + "\n", err
		}
	}
	body, err := t.stmts(fd.Body.List, env.push(), "  ", k)
	if err != nil {
		return fail("%v", err)
	}
	var sb strings.Builder
	for _, a := range t.aux {
		sb.WriteString(a)
		sb.WriteString("\n")
	}
	fmt.Fprintf(&sb, "def %s %s : %s :=\n%s%s", spec.Name, spec.Binders, spec.RetTy, pre, body)
	return sb.String(), t.skipped, nil
}

// irEmit translates and writes the definitions with a doc comment listing what was ignored.
func irEmit(r *Repo, w *Lean, rel, recv, fn string, spec *irSpec, doc string) error {
	fd, err := r.Func(rel, recv, fn)
	if err != nil {
		return err
	}
	def, skipped, err := irTranslate(r, fd, spec)
	if err != nil {
		return err
	}
	q := fn
	if recv != "" {
		q = recv + "." + fn
	}
	w.Line("/-! Translated from the body of `%s` in %s (go/ast → Lean, harness/factextract/irlib.go).", q, rel)
	if doc != "" {
		w.Line("%s", doc)
	}
	if len(skipped) > 0 {
		w.Line("Ignored statements (no modelled effect):")
		for _, s := range skipped {
			w.Line("  * `%s`", strings.ReplaceAll(s, "-/", "- /"))
		}
	}
	w.Line("-/")
	w.sb.WriteString(def)
	w.Line("")
	return nil
}

// irPrefixIgnore builds an Ignore predicate from source-text prefixes of whole statements.
func irPrefixIgnore(prefixes ...string) func(string, ast.Stmt) bool {
	return func(src string, s ast.Stmt) bool {
		switch s.(type) {
		case *ast.ExprStmt, *ast.DeferStmt, *ast.GoStmt:
			for _, p := range prefixes {
				if strings.HasPrefix(src, p) {
					return true
				}
			}
		}
		return false
	}
}

var errUnsupportedReturn = fmt.Errorf("unsupported return values")
