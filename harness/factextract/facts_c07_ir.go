package main

// Regenerated tie by translation for C07 (irlib.go, notes/IR.md, notes/C07.md "Extension proxy"):
//
//   Request.FetchPayload            → Gen.FactsC07IR.fetchReqIR  dflt maxPayloadSize s         : Pay × Err
//   Response.FetchPayload           → Gen.FactsC07IR.fetchRespIR dflt maxPayloadSize reqMethod s : Pay × Err
//   muxInstance.serveHTTP, from `maxBodySize := route.path.clientMaxBodySize` to the end
//                                   → Gen.FactsC07IR.serveIR  (status, handled, payload the handler sees)
//   ServerPool.buildResponse, from `maxBodySize := sp.spec.ServerMaxBodySize` to the end
//                                   → Gen.FactsC07IR.buildRespIR (returned error, spCtx.resp)
//
// `error` is the enumeration Payload.Err (nil / io.EOF / io.ErrUnexpectedEOF / …TooLarge), byte slices are
// known by their length, the body reader is *stateful* (state variable `rd` = bytes consumed so far; the
// read calls io.ReadFull / io.ReadAll(io.LimitReader) / io.Copy(io.Discard) are effectful calls that advance
// it). The theorems `<fn>_regenerated_from_source` (Proofs/PayloadIR.lean, re-exported by Props/C07.lean) prove
// the generated definitions equal to Model/Payload.lean's fetch / fetchResp / serve / poolResp for all inputs.

import (
	"fmt"
	"go/ast"
	"go/token"
	"strings"
)

func c07RetPayErr(v []irTerm) (string, error) {
	if len(v) != 1 {
		return "", errUnsupportedReturn
	}
	switch v[0].Ty {
	case "nil":
		return "(pay, Err.nil)", nil
	case "Err":
		return "(pay, " + v[0].S + ")", nil
	}
	return "", errUnsupportedReturn
}

// c07Hook: `x == nil` / `x != nil` on the error enumeration, `make([]byte, n)`.
func c07Hook(t *irT, e ast.Expr, env *irEnv) (irTerm, bool, error) {
	switch x := e.(type) {
	case *ast.BinaryExpr:
		if x.Op != token.EQL && x.Op != token.NEQ {
			return irTerm{}, false, nil
		}
		a, b := x.X, x.Y
		if id, ok := a.(*ast.Ident); ok && id.Name == "nil" {
			a, b = b, a
		}
		if id, ok := b.(*ast.Ident); !ok || id.Name != "nil" || irInEnv(env, "nil") {
			return irTerm{}, false, nil
		}
		ax, err := t.tryExpr(a, env)
		if err != nil || ax.Ty != "Err" {
			return irTerm{}, false, nil
		}
		ax, err = t.expr(a, env)
		if err != nil {
			return irTerm{}, true, err
		}
		op := "=="
		if x.Op == token.NEQ {
			op = "!="
		}
		return irTerm{fmt.Sprintf("(%s %s Err.nil)", ax.S, op), "Bool"}, true, nil
	case *ast.CallExpr:
		if id, ok := x.Fun.(*ast.Ident); ok && id.Name == "make" && len(x.Args) == 2 && t.r.Src(x.Args[0]) == "[]byte" {
			n, err := t.expr(x.Args[1], env)
			if err != nil {
				return irTerm{}, true, err
			}
			if n.Ty != "Int" {
				return irTerm{}, true, fmt.Errorf("make([]byte, %s : %s)", n.S, n.Ty)
			}
			return irTerm{fmt.Sprintf("(Int.toNat %s)", n.S), "Bytes"}, true, nil
		}
	}
	return irTerm{}, false, nil
}

// c07SetPayload: `r.SetPayload(x)` by the type of x: nil → empty byte payload, a byte slice → buffered,
// a reader → stream.
func c07SetPayload(recvTy string) func(t *irT, s ast.Stmt, env *irEnv) ([]irLet, bool, error) {
	return func(t *irT, s ast.Stmt, env *irEnv) ([]irLet, bool, error) {
		es, ok := s.(*ast.ExprStmt)
		if !ok {
			return nil, false, nil
		}
		ce, ok := es.X.(*ast.CallExpr)
		if !ok || len(ce.Args) != 1 {
			return nil, false, nil
		}
		se, ok := ce.Fun.(*ast.SelectorExpr)
		if !ok || se.Sel.Name != "SetPayload" {
			return nil, false, nil
		}
		rx, err := t.tryExpr(se.X, env)
		if err != nil || rx.Ty != recvTy {
			return nil, false, nil
		}
		a, err := t.expr(ce.Args[0], env)
		if err != nil {
			return nil, true, err
		}
		switch a.Ty {
		case "nil":
			return []irLet{{"pay", "Pay", "(Pay.bytes 0)"}}, true, nil
		case "Bytes":
			return []irLet{{"pay", "Pay", "(Pay.bytes " + a.S + ")"}}, true, nil
		case "Body":
			return []irLet{{"pay", "Pay", "Pay.stream"}}, true, nil
		}
		return nil, true, fmt.Errorf("SetPayload of %s : %s", a.S, a.Ty)
	}
}

func c07FetchSpec(name, recvTy, stdTy, stdField string) *irSpec {
	return &irSpec{
		Name:    name,
		Binders: "(dflt : Int) (maxPayloadSize : Int) (failing : Bool) (s : Src)",
		BNames:  []string{"dflt", "maxPayloadSize", "failing", "s"},
		RetTy:   "Pay × Err",
		Recv:    irTerm{"s", recvTy},
		Params:  []irTerm{{"maxPayloadSize", "Int"}},
		State:   []irLet{{"pay", "Pay", "Pay.unset"}, {"rd", "Nat", "0"}},
		LeanTy: map[string]string{recvTy: "Src", stdTy: "Src", "Body": "Rd", "LBody": "Rd × Int", "Bytes": "Nat",
			"ReqPtr": "Option String", "Discard": "Unit"},
		Fields: map[string]irField{
			recvTy + "." + stdField:  {Fmt: "%s", Ty: stdTy},
			stdTy + ".ContentLength": {Fmt: "%s.declared", Ty: "Int"},
			stdTy + ".Body":          {Fmt: "(Rd.mk %s rd failing)", Ty: "Body"},
			stdTy + ".Request":       {Fmt: "reqMethod", Ty: "ReqPtr"},
			"ReqPtr.Method":          {Fmt: "(%s.getD \"\")", Ty: "String"},
			recvTy + ".stream":       {Fmt: "pay", Ty: "Pay", State: true},
		},
		Consts: map[string]irTerm{
			"DefaultMaxPayloadSize":     {"dflt", "Int"},
			"ErrRequestEntityTooLarge":  {"Err.tooLarge", "Err"},
			"ErrResponseEntityTooLarge": {"Err.tooLarge", "Err"},
			"io.EOF":                    {"Err.eof", "Err"},
			"io.ErrUnexpectedEOF":       {"Err.unexpectedEOF", "Err"},
			"io.Discard":                {"()", "Discard"},
			"http.MethodHead":           {"\"HEAD\"", "String"},
		},
		Funcs: map[string]irCall{
			"io.NopCloser":                {Fmt: "%[1]s", Ty: "Body", NArgs: 1},
			"readers.NewByteCountReader":  {Fmt: "Pay.stream", Ty: "Pay", NArgs: 1},
			"io.LimitReader":              {Fmt: "(%[1]s, %[2]s)", Ty: "LBody", NArgs: 2},
			"len:Bytes":                   {Fmt: "(Int.ofNat %[1]s)", Ty: "Int", NArgs: 1},
		},
		SliceTo: map[string]irCall{"Bytes": {Fmt: "(min %[1]s (Int.toNat %[2]s))", Ty: "Bytes"}},
		// the read calls advance the reader: `rd` is updated before the statement's own bindings
		EffFuncs: map[string]irEffCall{
			"io.ReadFull": {NArgs: 2, Pre: []irLet{{"§tmp", "Int × Err", "(readFull %[1]s %[2]s)"}, {"rd", "Nat", "(rd + Int.toNat §tmp.1)"}},
				Fmt: "§tmp", Ty: "Int × Err"},
			"io.ReadAll": {NArgs: 1, Pre: []irLet{{"§tmp", "Bytes × Err", "(readAllLimited %[1]s)"}, {"rd", "Nat", "(rd + §tmp.1)"}},
				Fmt: "§tmp", Ty: "Bytes × Err"},
			"io.Copy": {NArgs: 2, Pre: []irLet{{"§tmp", "Int × Err", "(copyDiscard %[2]s)"}, {"rd", "Nat", "(rd + Int.toNat §tmp.1)"}},
				Fmt: "§tmp", Ty: "Int × Err"},
		},
		Hook:     c07Hook,
		StmtHook: c07SetPayload(recvTy),
		Ret:      c07RetPayErr,
	}
}

// irFragment builds a synthetic function whose body is `stmts` (positions are those of the source, so
// printing and error messages keep working) with the given parameter names.
func irFragment(name string, params []string, stmts []ast.Stmt) *ast.FuncDecl {
	fl := &ast.FieldList{}
	for _, p := range params {
		fl.List = append(fl.List, &ast.Field{Names: []*ast.Ident{ast.NewIdent(p)}, Type: ast.NewIdent("any")})
	}
	return &ast.FuncDecl{Name: ast.NewIdent(name), Type: &ast.FuncType{Params: fl}, Body: &ast.BlockStmt{List: stmts}}
}

func irEmitFragment(r *Repo, w *Lean, what string, fd *ast.FuncDecl, spec *irSpec, doc string) error {
	def, skipped, err := irTranslate(r, fd, spec)
	if err != nil {
		return err
	}
	w.Line("/-! Translated from %s (go/ast → Lean, harness/factextract/irlib.go).", what)
	if doc != "" {
		w.Line("%s", doc)
	}
	if len(skipped) > 0 {
		w.Line("Ignored statements (no modelled effect):")
		for _, s := range skipped {
			w.Line("  * `%s`", strings.ReplaceAll(s, "-/", "- /"))
		}
	}
	w.Line("-/")
	w.sb.WriteString(def)
	w.Line("")
	return nil
}

// c07LimitFragment finds the statement list that contains the call `<callee>(x)` (x an identifier) and the
// index of the statement `x := …` before it: the fragment from the limit selection on, whatever x is called.
func c07LimitFragment(r *Repo, body *ast.BlockStmt, callee string) ([]ast.Stmt, int) {
	var list []ast.Stmt
	idx := -1
	ast.Inspect(body, func(n ast.Node) bool {
		b, ok := n.(*ast.BlockStmt)
		if !ok || idx >= 0 {
			return idx < 0
		}
		for i, s := range b.List {
			arg := ""
			// the call may sit in an assignment or in the init statement of an if; not inside nested blocks
			var probe ast.Node = s
			if is, ok := s.(*ast.IfStmt); ok {
				if is.Init == nil {
					continue
				}
				probe = is.Init
			} else if _, ok := s.(*ast.AssignStmt); !ok {
				continue
			}
			ast.Inspect(probe, func(x ast.Node) bool {
				if ce, ok := x.(*ast.CallExpr); ok && r.Src(ce.Fun) == callee && len(ce.Args) == 1 {
					if id, ok := ce.Args[0].(*ast.Ident); ok {
						arg = id.Name
					}
				}
				return true
			})
			if arg == "" {
				continue
			}
			for k := i - 1; k >= 0; k-- {
				if as, ok := b.List[k].(*ast.AssignStmt); ok && as.Tok == token.DEFINE && len(as.Lhs) == 1 {
					if id, ok := as.Lhs[0].(*ast.Ident); ok && id.Name == arg {
						list, idx = b.List, k
						return false
					}
				}
			}
		}
		return true
	})
	return list, idx
}

func init() {
	register(Extractor{Module: "FactsC07IR", Imports: []string{"EgVerif.Model.Payload"}, Run: func(r *Repo, w *Lean) error {
		w.Line("set_option linter.unusedVariables false")
		w.Line("open EgVerif.Payload")
		w.Line("")
		// ---- Request.FetchPayload
		s := c07FetchSpec("fetchReqIR", "Request", "StdReq", "Request")
		if err := irEmit(r, w, "pkg/protocols/httpprot/request.go", "Request", "FetchPayload", s,
			"`s` is the body source behind `stdr.Body`, `failing` how its reader ends (io.EOF / io.ErrUnexpectedEOF); `rd` counts the bytes consumed so far; result = (payload state, returned error)."); err != nil {
			return err
		}
		// ---- Response.FetchPayload
		s = c07FetchSpec("fetchRespIR", "Response", "StdResp", "Response")
		s.Binders, s.BNames = "(dflt : Int) (maxPayloadSize : Int) (reqMethod : Option String) (failing : Bool) (s : Src)", []string{"dflt", "maxPayloadSize", "reqMethod", "failing", "s"}
		if err := irEmit(r, w, "pkg/protocols/httpprot/response.go", "Response", "FetchPayload", s,
			"`reqMethod` is `stdr.Request` (none = nil) reduced to its method."); err != nil {
			return err
		}

		// ---- mux.serveHTTP from the limit selection to the handler invocation
		fd, err := r.Func("pkg/object/httpserver/mux.go", "muxInstance", "serveHTTP")
		if err != nil {
			return err
		}
		list, i := c07LimitFragment(r, fd.Body, "req.FetchPayload")
		if i < 0 {
			return fmt.Errorf("serveHTTP: limit selection before req.FetchPayload(x) not found")
		}
		ms := &irSpec{
			Name:    "serveIR",
			Binders: "(dflt pathLimit serverLimit : Int) (gf : Option Unit) (failing : Bool) (s : Src)",
			BNames:  []string{"dflt", "pathLimit", "serverLimit", "gf", "failing", "s"},
			RetTy:   "Nat × Bool × Pay",
			State:   []irLet{{"status", "Nat", "0"}, {"handled", "Bool", "false"}, {"pay", "Pay", "Pay.unset"}, {"seen", "Pay", "Pay.unset"}},
			LeanTy:  map[string]string{"GF": "Option Unit", "Ctx": "Unit", "Handler": "Unit", "Mux": "Unit", "Request": "Src"},
			Consts: map[string]irTerm{
				"route.path.clientMaxBodySize":     {"pathLimit", "Int"},
				"mi.spec.ClientMaxBodySize":        {"serverLimit", "Int"},
				"httpprot.ErrRequestEntityTooLarge": {"Err.tooLarge", "Err"},
				"http.StatusRequestEntityTooLarge": {"413", "Nat"},
				"http.StatusBadRequest":            {"400", "Nat"},
				"ctx":                              {"()", "Ctx"},
				"handler":                          {"()", "Handler"},
				"mi":                               {"()", "Mux"},
			},
			Methods: map[string]irCall{"Mux.getGlobalFilter": {Fmt: "gf", Ty: "GF", NArgs: 0}},
			EffFuncs: map[string]irEffCall{
				"req.FetchPayload": {NArgs: 1, Pre: []irLet{{"§tmp", "Pay × Err", "(fetchReqIR dflt %[1]s failing s)"}, {"pay", "Pay", "§tmp.1"}},
					Fmt: "§tmp.2", Ty: "Err"},
			},
			StmtFuncs: map[string]irStmtCall{
				"buildFailureResponse": {NArgs: 2, Lets: []irLet{{"status", "Nat", "%[2]s"}}},
			},
			StmtMethods: map[string]irStmtCall{
				"Handler.Handle": {NArgs: 1, Lets: []irLet{{"handled", "Bool", "true"}, {"seen", "Pay", "pay"}}},
				"GF.Handle":      {NArgs: 2, Lets: []irLet{{"handled", "Bool", "true"}, {"seen", "Pay", "pay"}}},
			},
			Hook:   c07Hook,
			Ignore: irPrefixIgnore("logger."),
			Ret: func(v []irTerm) (string, error) {
				if len(v) != 0 {
					return "", errUnsupportedReturn
				}
				return "(status, handled, seen)", nil
			},
		}
		if err := irEmitFragment(r, w, "`muxInstance.serveHTTP` in pkg/object/httpserver/mux.go, from the limit selection before `req.FetchPayload` to the end of the function",
			irFragment("serveHTTP", nil, list[i:]), ms,
			"Result: (status written by the mux itself, 0 = none; handler invoked; request payload at that moment). `gf` = `mi.getGlobalFilter()`."); err != nil {
			return err
		}

		// ---- ServerPool.buildResponse from the limit selection to the end
		bd, err := r.Func("pkg/filters/proxy/pool.go", "ServerPool", "buildResponse")
		if err != nil {
			return err
		}
		plist, pi := c07LimitFragment(r, bd.Body, "resp.FetchPayload")
		if pi < 0 {
			return fmt.Errorf("buildResponse: limit selection before resp.FetchPayload(x) not found")
		}
		ps := &irSpec{
			Name:    "buildRespIR",
			Binders: "(dflt poolLimit proxyLimit : Int) (reqMethod : Option String) (err : Err) (failing : Bool) (s : Src)",
			BNames:  []string{"dflt", "poolLimit", "proxyLimit", "reqMethod", "err", "failing", "s"},
			RetTy:   "Err × Option Pay × Option Pay",
			Params:  []irTerm{{"err", "Err"}},
			State:   []irLet{{"pay", "Pay", "Pay.unset"}, {"spResp", "RespPtr", "none"}, {"outResp", "RespPtr", "none"}},
			LeanTy:  map[string]string{"RespPtr": "Option Pay", "SpCtx": "Unit"},
			Consts: map[string]irTerm{
				"sp.spec.ServerMaxBodySize":       {"poolLimit", "Int"},
				"sp.proxy.spec.ServerMaxBodySize": {"proxyLimit", "Int"},
				"spCtx":                           {"()", "SpCtx"},
				"resp":                            {"(some pay)", "RespPtr"},
			},
			Fields:  map[string]irField{"SpCtx.resp": {Fmt: "spResp", Ty: "RespPtr", State: true}},
			Methods: map[string]irCall{"RespPtr.IsStream": {Fmt: "(pay == Pay.stream)", Ty: "Bool", NArgs: 0}},
			EffFuncs: map[string]irEffCall{
				"resp.FetchPayload": {NArgs: 1, Pre: []irLet{{"§tmp", "Pay × Err", "(fetchRespIR dflt %[1]s reqMethod failing s)"}, {"pay", "Pay", "§tmp.1"}},
					Fmt: "§tmp.2", Ty: "Err"},
			},
			StmtMethods: map[string]irStmtCall{
				"SpCtx.SetOutputResponse": {NArgs: 1, Lets: []irLet{{"outResp", "RespPtr", "%[2]s"}}},
			},
			Hook:   c07Hook,
			Ignore: irPrefixIgnore("logger.", "body.Close()"),
			Ret: func(v []irTerm) (string, error) {
				if len(v) != 1 {
					return "", errUnsupportedReturn
				}
				switch v[0].Ty {
				case "nil":
					return "(Err.nil, spResp, outResp)", nil
				case "Err":
					return "(" + v[0].S + ", spResp, outResp)", nil
				}
				return "", errUnsupportedReturn
			},
		}
		return irEmitFragment(r, w, "`ServerPool.buildResponse` in pkg/filters/proxy/pool.go, from the limit selection before `resp.FetchPayload` to the end of the function",
			irFragment("buildResponse", []string{"err"}, plist[pi:]), ps,
			"`err` is the named result (its value on entry is irrelevant); result: (returned error, spCtx.resp, output response) with responses reduced to their payload.")
	}})
}
