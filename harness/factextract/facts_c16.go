package main

// Facts for C16: structural facts the session model assumes about
// pkg/object/mqttproxy (repaired code: fixes/C16-takeover-teardown.patch).

import (
	"go/ast"
	"strings"
)

// c16Index returns the index of the first top-level statement of body whose
// printed source contains sub, or -1.
func c16Index(r *Repo, body *ast.BlockStmt, sub string) int {
	for i, st := range body.List {
		if strings.Contains(r.Src(st), sub) {
			return i
		}
	}
	return -1
}

func init() {
	register(Extractor{Module: "FactsC16", Run: func(r *Repo, w *Lean) error {
		cd, err := r.Func("pkg/object/mqttproxy/client.go", "Client", "closeAndDelSession")
		if err != nil {
			return err
		}
		lock := c16Index(r, cd.Body, "c.broker.Lock()")
		unlock := c16Index(r, cd.Body, "c.broker.Unlock()")
		guard := -1
		guardOK := false
		for i, st := range cd.Body.List {
			ifs, ok := st.(*ast.IfStmt)
			if !ok {
				continue
			}
			hdr := ""
			if ifs.Init != nil {
				hdr = r.Src(ifs.Init) + "; "
			}
			hdr += r.Src(ifs.Cond)
			body := r.Src(ifs.Body)
			if strings.Contains(body, "delLocal") && strings.Contains(body, "topicMgr.unsubscribe") && strings.Contains(body, "delDB") {
				guard = i
				guardOK = strings.Contains(hdr, "c.broker.clients[c.info.cid]") && strings.Contains(hdr, "== c") && strings.Contains(hdr, "!ok")
			}
		}
		w.Line("/-- closeAndDelSession: delLocal/delDB/unsubscribe sit between c.broker.Lock() and c.broker.Unlock(). -/")
		w.Line("def teardownUnderBrokerLock : Bool := %s", Bool(lock >= 0 && guard > lock && unlock > guard))
		w.Line("/-- … inside `if cur, ok := c.broker.clients[c.info.cid]; !ok || cur == c`. -/")
		w.Line("def teardownOwnershipCheck : Bool := %s", Bool(guardOK))

		ss, err := r.Func("pkg/object/mqttproxy/broker.go", "Broker", "setSession")
		if err != nil {
			return err
		}
		discard := false
		ast.Inspect(ss.Body, func(n ast.Node) bool {
			// `if <x> != nil { … <x>.allSubscribes() … topicMgr.unsubscribe … <x>.close() }` for any local name <x>
			// (extension mqtt: rename-robust; the body of setSession is also tied by translation, facts_c16_ir.go)
			if ifs, ok := n.(*ast.IfStmt); ok && strings.HasSuffix(r.Src(ifs.Cond), " != nil") {
				x := strings.TrimSuffix(r.Src(ifs.Cond), " != nil")
				b := r.Src(ifs.Body)
				if strings.Contains(b, x+".close()") && strings.Contains(b, "topicMgr.unsubscribe") && strings.Contains(b, x+".allSubscribes()") {
					discard = true
				}
			}
			return true
		})
		w.Line("/-- setSession: a discarded previous session is closed and its topics unsubscribed. -/")
		w.Line("def setSessionUnsubscribesDiscarded : Bool := %s", Bool(discard))

		hc, err := r.Func("pkg/object/mqttproxy/broker.go", "Broker", "handleConn")
		if err != nil {
			return err
		}
		l := c16Index(r, hc.Body, "b.Lock()")
		reg := c16Index(r, hc.Body, "b.clients[client.info.cid] = client")
		set := c16Index(r, hc.Body, "b.setSession(client, connect)")
		ul := -1
		for i, st := range hc.Body.List {
			if r.Src(st) == "b.Unlock()" {
				ul = i
			}
		}
		resub := c16Index(r, hc.Body, "b.topicMgr.subscribe(topics, qoss, client.info.cid)")
		w.Line("/-- handleConn: b.Lock(); …; b.clients[cid] = client; b.setSession(…); b.Unlock(); … re-subscribe; readLoop. -/")
		w.Line("def registrationAndSetSessionInOneLockedSection : Bool := %s", Bool(l >= 0 && l < reg && reg < set && set < ul && ul < resub))

		rc, err := r.Func("pkg/object/mqttproxy/broker.go", "Broker", "removeClient")
		if err != nil {
			return err
		}
		rcOK := false
		ast.Inspect(rc.Body, func(n ast.Node) bool {
			if ifs, ok := n.(*ast.IfStmt); ok && strings.HasSuffix(r.Src(ifs.Cond), ".disconnected()") && !strings.HasPrefix(r.Src(ifs.Cond), "!") && strings.Contains(r.Src(ifs.Body), "delete(b.clients, clientID)") {
				rcOK = true
			}
			return true
		})
		rcOK = rcOK && strings.Count(r.Src(rc.Body), "delete(b.clients") == 1
		w.Line("/-- removeClient deletes only inside `if val.disconnected()`. -/")
		w.Line("def removeClientChecksDisconnected : Bool := %s", Bool(rcOK))

		ds, err := r.Func("pkg/object/mqttproxy/broker.go", "Broker", "deleteSession")
		if err != nil {
			return err
		}
		w.Line("/-- deleteSession starts with b.Lock(); defer b.Unlock(). -/")
		w.Line("def deleteSessionLocksFirst : Bool := %s", Bool(r.LocksFirst(ds)))
		return nil
	}})
}
