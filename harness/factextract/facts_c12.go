package main

// Facts for C12: the syntactic shape of the route cache in mux.go that the
// Lean model (Model/MuxCache.lean) assumes — how the key is built, where
// search() puts into the cache and under which guard, what a hit re-checks.

import (
	"fmt"
	"go/ast"
	"strings"
)

func init() {
	register(Extractor{Module: "FactsC12", Run: func(r *Repo, w *Lean) error {
		const file = "pkg/object/httpserver/mux.go"
		keyExpr := func(fn string) (string, error) {
			fd, err := r.Func(file, "muxInstance", fn)
			if err != nil {
				return "", err
			}
			var out string
			ast.Inspect(fd.Body, func(n ast.Node) bool {
				if as, ok := n.(*ast.AssignStmt); ok && len(as.Lhs) == 1 && len(as.Rhs) == 1 {
					if id, ok := as.Lhs[0].(*ast.Ident); ok && id.Name == "key" {
						out = r.Src(as.Rhs[0])
					}
				}
				return true
			})
			if out == "" {
				return "", fmt.Errorf("%s: no `key :=` assignment", fn)
			}
			return out, nil
		}
		kg, err := keyExpr("getRouteFromCache")
		if err != nil {
			return err
		}
		kp, err := keyExpr("putRouteToCache")
		if err != nil {
			return err
		}
		w.Line("/-- right-hand side of `key :=` in getRouteFromCache / putRouteToCache -/")
		w.Line("def keyExprGet : String := %s", Str(kg))
		w.Line("def keyExprPut : String := %s", Str(kp))

		// fields of the key type, if it is a struct declared in mux.go
		f, err := r.File(file)
		if err != nil {
			return err
		}
		structFields := func(name string) []string {
			var out []string
			ast.Inspect(f, func(n ast.Node) bool {
				ts, ok := n.(*ast.TypeSpec)
				if !ok || ts.Name.Name != name {
					return true
				}
				if st, ok := ts.Type.(*ast.StructType); ok {
					for _, fl := range st.Fields.List {
						for _, nm := range fl.Names {
							out = append(out, nm.Name+" "+r.Src(fl.Type))
						}
					}
				}
				return false
			})
			return out
		}
		w.Line("/-- fields of `routeCacheKey` ([] when the type does not exist) -/")
		w.Line("def keyFields : List String := %s", StrList(structFields("routeCacheKey")))
		w.Line("/-- fields of `route` -/")
		w.Line("def routeFields : List String := %s", StrList(structFields("route")))

		sd, err := r.Func(file, "muxInstance", "search")
		if err != nil {
			return err
		}
		w.Line("/-- calls in `search` -/")
		w.Line("def searchGetCalls : Nat := %d", r.CountCalls(sd.Body, "mi.getRouteFromCache"))
		w.Line("def searchPutCalls : Nat := %d", r.CountCalls(sd.Body, "mi.putRouteToCache"))
		w.Line("def searchAllowIPCalls : Nat := %d", r.CountCalls(sd.Body, "allowIP"))
		w.Line("def searchAllowCalls : Nat := %d", r.CountCalls(sd.Body, "allow"))

		// arguments of the put calls and the innermost enclosing if-condition of each
		var putArgs, putGuards []string
		var stack []ast.Node
		ast.Inspect(sd.Body, func(n ast.Node) bool {
			if n == nil {
				stack = stack[:len(stack)-1]
				return true
			}
			stack = append(stack, n)
			if ce, ok := n.(*ast.CallExpr); ok && r.Src(ce.Fun) == "mi.putRouteToCache" && len(ce.Args) == 2 {
				putArgs = append(putArgs, r.Src(ce.Args[1]))
				guard := ""
				for i := len(stack) - 2; i >= 0; i-- {
					if is, ok := stack[i].(*ast.IfStmt); ok {
						// only when the call is in the `then` block
						if i+1 < len(stack) && stack[i+1] == ast.Node(is.Body) {
							guard = r.Src(is.Cond)
							break
						}
					}
				}
				putGuards = append(putGuards, guard)
			}
			return true
		})
		w.Line("/-- second argument of each `putRouteToCache` call in `search`, in source order -/")
		w.Line("def putArgs : List String := %s", StrList(putArgs))
		w.Line("/-- innermost `if` condition whose then-block contains the call (\"\" if none) -/")
		w.Line("def putGuards : List String := %s", StrList(putGuards))

		// the cache-hit branch: `if r != nil { ... }` directly after `r := mi.getRouteFromCache(req)`
		hit := ""
		for i, st := range sd.Body.List {
			if as, ok := st.(*ast.AssignStmt); ok && len(as.Rhs) == 1 && strings.HasPrefix(r.Src(as.Rhs[0]), "mi.getRouteFromCache(") {
				if i+1 < len(sd.Body.List) {
					if is, ok := sd.Body.List[i+1].(*ast.IfStmt); ok {
						hit = r.Src(is.Body)
					}
				}
			}
		}
		if hit == "" {
			return fmt.Errorf("search: cache-hit branch not found")
		}
		w.Line("/-- source text of the cache-hit branch of `search` -/")
		w.Line("def hitBranch : String := %s", Str(hit))
		// one ARC per generation: reload creates the cache, nothing else assigns it
		rd, err := r.Func(file, "mux", "reload")
		if err != nil {
			return err
		}
		w.Line("/-- `lru.NewARC` calls in `mux.reload` (one fresh cache per generation) -/")
		w.Line("def reloadNewARCCalls : Nat := %d", r.CountCalls(rd.Body, "lru.NewARC"))
		// Extension mux: where does the new instance's cache come from? Every assignment to `<x>.cache`
		// in reload (and a `cache:` member of a composite literal), the defining expression of an
		// identifier on the right-hand side, and every mention of a `.cache` selector that is not the
		// assignment target (e.g. `oldInst.cache`).
		var cacheRHS, cacheReads []string
		defs := map[string]string{}
		ast.Inspect(rd.Body, func(n ast.Node) bool {
			if as, ok := n.(*ast.AssignStmt); ok {
				for i, l := range as.Lhs {
					if id, ok := l.(*ast.Ident); ok && len(as.Rhs) >= 1 {
						k := i
						if len(as.Rhs) == 1 {
							k = 0
						}
						if _, seen := defs[id.Name]; !seen {
							defs[id.Name] = r.Src(as.Rhs[k])
						} else {
							defs[id.Name] += " | " + r.Src(as.Rhs[k])
						}
					}
				}
			}
			return true
		})
		// a local identifier stands for what it was defined as, transitively (robust against renaming
		// it or building the cache before the instance literal)
		resolve := func(e string) string {
			for i := 0; i < 5; i++ {
				d, ok := defs[e]
				if !ok {
					break
				}
				e = d
			}
			return e
		}
		targets := map[ast.Expr]bool{}
		ast.Inspect(rd.Body, func(n ast.Node) bool {
			switch x := n.(type) {
			case *ast.AssignStmt:
				for i, l := range x.Lhs {
					if se, ok := l.(*ast.SelectorExpr); ok && se.Sel.Name == "cache" && i < len(x.Rhs) {
						targets[se] = true
						cacheRHS = append(cacheRHS, resolve(r.Src(x.Rhs[i])))
					}
				}
			case *ast.KeyValueExpr:
				if id, ok := x.Key.(*ast.Ident); ok && id.Name == "cache" {
					cacheRHS = append(cacheRHS, resolve(r.Src(x.Value)))
				}
			}
			return true
		})
		ast.Inspect(rd.Body, func(n ast.Node) bool {
			if se, ok := n.(*ast.SelectorExpr); ok && se.Sel.Name == "cache" && !targets[se] {
				cacheReads = append(cacheReads, r.Src(se))
			}
			return true
		})
		w.Line("/-- right-hand sides of the assignments to the new instance's `cache` in `mux.reload` (a local identifier is")
		w.Line("replaced by its defining expression) -/")
		w.Line("def reloadCacheSources : List String := %s", StrList(cacheRHS))
		w.Line("/-- reads of a `.cache` field in `mux.reload` (e.g. the previous instance's) -/")
		w.Line("def reloadCacheReads : List String := %s", StrList(cacheReads))
		return nil
	}})
}
