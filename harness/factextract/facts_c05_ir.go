package main

import (
	"fmt"
	"go/ast"
)

// Regenerated tie by translation for C05 (irlib.go): the bodies of IPFilter.Allow and
// IPFilters.Allow → Gen.FactsC05IR.allowIR / allowAllIR; `allow_regenerated_from_source` and
// `allowAll_regenerated_from_source` (Props/C05.lean) prove them equal to Model.IPFilter.allow /
// allowAll for all inputs. `net.ParseIP(ipstr)` is the parameter `ip : Option Addr`
// (none = nil), `Ranger.Contains` is `containsE` (defined in the generated preamble).

func c05Spec() *irSpec {
	return &irSpec{
		Binders: "(f : Filter) (ip : Option Addr)",
		BNames:  []string{"f", "ip"},
		RetTy:   "Bool",
		Recv:    irTerm{"f", "IPFilter"},
		Params:  []irTerm{{"ip", "IPStr"}},
		LeanTy:  map[string]string{"IP": "Option Addr", "Ranger": "List Cidr", "IPFilter": "Filter"},
		Fields: map[string]irField{
			"IPFilter.spec":        {Fmt: "%s", Ty: "Spec"},
			"Spec.BlockByDefault":  {Fmt: "%s.blockByDefault", Ty: "Bool"},
			"IPFilter.allowRanger": {Fmt: "%s.allow", Ty: "Ranger"},
			"IPFilter.blockRanger": {Fmt: "%s.block", Ty: "Ranger"},
			"IPFilters.filters":    {Fmt: "%s", Ty: "List IPFilter"},
		},
		Funcs: map[string]irCall{"net.ParseIP:IPStr": {Fmt: "%[1]s", Ty: "IP", NArgs: 1}},
		Methods: map[string]irCall{
			"Ranger.Contains": {Fmt: "(containsE %[1]s %[2]s)", Ty: "Bool × Error", NArgs: 1},
			"IPFilter.Allow":  {Fmt: "(allow %[1]s %[2]s)", Ty: "Bool", NArgs: 1},
		},
		Ret: func(v []irTerm) (string, error) {
			if len(v) != 1 || v[0].Ty != "Bool" {
				return "", errUnsupportedReturn
			}
			return v[0].S, nil
		},
	}
}

func init() {
	register(Extractor{Module: "FactsC05IR", Imports: []string{"EgVerif.Model.IPFilter"}, Run: func(r *Repo, w *Lean) error {
		const file = "pkg/util/ipfilter/ipfilter.go"
		w.Line("open EgVerif.IPFilter")
		w.Line("")
		w.Line("/-- `cidranger.Ranger.Contains(ip)` as (contained, err != nil): the trie only fails on an address")
		w.Line("that is neither 4 nor 16 bytes long, which `net.ParseIP` never returns (`none` = nil). -/")
		w.Line("def containsE (r : List Cidr) : Option Addr → Bool × Bool")
		w.Line("  | none => (false, true)")
		w.Line("  | some a => (rangerContains r a, false)")
		w.Line("")
		s := c05Spec()
		s.Name = "allowIR"
		if err := irEmit(r, w, file, "IPFilter", "Allow", s, "`ip` is `net.ParseIP(ipstr)`."); err != nil {
			return err
		}
		s = c05Spec()
		s.Name = "allowAllIR"
		s.Binders, s.BNames = "(fs : List Filter) (ip : Option Addr)", []string{"fs", "ip"}
		s.Recv = irTerm{"fs", "IPFilters"}
		if err := irEmit(r, w, file, "IPFilters", "Allow", s, "`filter.Allow(ipstr)` is the model's `allow filter ip`."); err != nil {
			return err
		}
		return c05EmitNew(r, w, file)
	}})
}

// c05Mask evaluates a package-level `net.CIDRMask(net.IPv<N>len*8, net.IPv<N>len*8)` to (ones, bits).
func c05Mask(r *Repo, file, name string) (irTerm, error) {
	e, err := r.PkgValue(file, name)
	if err != nil {
		return irTerm{}, err
	}
	switch r.Src(e) {
	case "net.CIDRMask(net.IPv4len*8, net.IPv4len*8)":
		return irTerm{"((32, 32) : Nat × Nat)", "Mask"}, nil
	case "net.CIDRMask(net.IPv6len*8, net.IPv6len*8)":
		return irTerm{"((128, 128) : Nat × Nat)", "Mask"}, nil
	}
	return irTerm{}, fmt.Errorf("%s: unknown mask expression %s", name, r.Src(e))
}

// c05EmitNew (Extension mux): the local closure `rangerFromIPCIDRs` of `ipfilter.New` — address vs CIDR
// classification, choice of the mask by family, the IPv4-mapped CIDR conversion — → rangerIR.
// A spec string is the model's `RawEntry` (what net.ParseIP / net.ParseCIDR make of it); a mask is
// (ones, bits) = `Mask.Size()`; the ranger is the list of inserted networks.
func c05EmitNew(r *Repo, w *Lean, file string) error {
	w.Line("/-! Glue for `ipfilter.New` (Extension mux): `net.IP` = `Option Addr` (nil / classified by `To4()`),")
	w.Line("`net.IPMask` = (ones, bits) as `Mask.Size()` reports, `net.IPNet` = address + mask. -/")
	w.Line("structure IPNet where")
	w.Line("  ip : Option Addr")
	w.Line("  mask : Nat × Nat")
	w.Line("")
	w.Line("/-- `ip.To4()`: nil unless the address is an IPv4 (or IPv4-mapped) address -/")
	w.Line("def to4 : Option Addr → Option Addr")
	w.Line("  | some (.v4 n) => some (.v4 n)")
	w.Line("  | _ => none")
	w.Line("/-- `net.ParseIP` of a spec string -/")
	w.Line("def parseIP : RawEntry → Option Addr")
	w.Line("  | .ip a => some a")
	w.Line("  | _ => none")
	w.Line("/-- `net.ParseCIDR` of a spec string: (ip, ipNet, err != nil) -/")
	w.Line("def parseCIDR : RawEntry → Option Addr × IPNet × Bool")
	w.Line("  | .cidr a ones bits => (some a, ⟨some a, (ones, bits)⟩, false)")
	w.Line("  | _ => (none, ⟨none, (0, 0)⟩, true)")
	w.Line("/-- `len(mask)` in bytes -/")
	w.Line("def maskBytes (m : Nat × Nat) : Nat := m.2 / 8")
	w.Line("/-- `mask[n:]` when the dropped bytes are all ones (an IPv4-mapped network has ones ≥ 96) -/")
	w.Line("def maskDrop (m : Nat × Nat) (n : Nat) : Nat × Nat := (m.1 - 8 * n, m.2 - 8 * n)")
	w.Line("/-- `ranger.Insert(cidranger.NewBasicRangerEntry(ipNet))`: the network joins the list -/")
	w.Line("def insertNet (r : List Cidr) (n : IPNet) : List Cidr :=")
	w.Line("  match n.ip with")
	w.Line("  | some a => r ++ [⟨a, n.mask.1⟩]")
	w.Line("  | none => r")
	w.Line("")
	m4, err := c05Mask(r, file, "allOnesIPv4Mask")
	if err != nil {
		return err
	}
	m6, err := c05Mask(r, file, "allOnesIPv6Mask")
	if err != nil {
		return err
	}
	s := &irSpec{
		Name:    "rangerIR",
		Binders: "(es : List RawEntry)",
		BNames:  []string{"es"},
		RetTy:   "List Cidr",
		Params:  []irTerm{{"", "Spec"}},
		Closure: &irClosure{Params: []irTerm{{"es", "List Entry"}}, Local: true},
		LeanTy:  map[string]string{"Entry": "RawEntry", "IP": "Option Addr", "Ranger": "List Cidr", "Mask": "Nat × Nat"},
		Fields: map[string]irField{
			"IPNet.IP":   {Fmt: "%s.ip", Ty: "IP"},
			"IPNet.Mask": {Fmt: "%s.mask", Ty: "Mask"},
		},
		Funcs: map[string]irCall{
			"cidranger.NewPCTrieRanger":     {Fmt: "([] : List Cidr)", Ty: "Ranger", NArgs: 0},
			"net.ParseIP:Entry":             {Fmt: "(parseIP %[1]s)", Ty: "IP", NArgs: 1},
			"net.ParseCIDR:Entry":           {Fmt: "(parseCIDR %[1]s)", Ty: "IP × IPNet × Error", NArgs: 1},
			"cidranger.NewBasicRangerEntry": {Fmt: "%[1]s", Ty: "IPNet", NArgs: 1},
			"len:Mask":                      {Fmt: "(maskBytes %[1]s)", Ty: "Nat", NArgs: 1},
		},
		Methods: map[string]irCall{"IP.To4": {Fmt: "(to4 %[1]s)", Ty: "IP", NArgs: 0}},
		StmtMethods: map[string]irStmtCall{
			"Ranger.Insert": {Lets: []irLet{{"%[1]s", "Ranger", "(insertNet %[1]s %[2]s)"}}, NArgs: 1},
		},
		SliceFrom: map[string]irCall{"Mask": {Fmt: "(maskDrop %[1]s %[2]s)", Ty: "Mask"}},
		Consts: map[string]irTerm{"allOnesIPv4Mask": m4, "allOnesIPv6Mask": m6,
			"net.IPv6len": {"(16 : Nat)", "Nat"}, "net.IPv4len": {"(4 : Nat)", "Nat"}},
		Ignore: irPrefixIgnore("logger."),
		Ret: func(v []irTerm) (string, error) {
			if len(v) != 1 || v[0].Ty != "Ranger" {
				return "", errUnsupportedReturn
			}
			return v[0].S, nil
		},
	}
	s.Ext.Composite = map[string]irComposite{
		"net.IPNet":  {Keys: []string{"IP", "Mask"}, Types: map[string]string{"IP": "IP", "Mask": "Mask"}, Fmt: "(IPNet.mk %[1]s %[2]s)", Ty: "IPNet"},
		"&net.IPNet": {Keys: []string{"IP", "Mask"}, Types: map[string]string{"IP": "IP", "Mask": "Mask"}, Fmt: "(IPNet.mk %[1]s %[2]s)", Ty: "IPNet"},
	}
	// `*ipNet` of the (non-nil after `err == nil`) `*net.IPNet` is the network itself
	s.Hook = func(t *irT, e ast.Expr, env *irEnv) (irTerm, bool, error) {
		if se, ok := e.(*ast.StarExpr); ok {
			x, err := t.expr(se.X, env)
			if err == nil && x.Ty == "IPNet" {
				return x, true, nil
			}
		}
		return irTerm{}, false, nil
	}
	return irEmit(r, w, file, "", "New", s,
		"The local closure `rangerFromIPCIDRs` of `New`: `es` = the spec strings as the standard library parses them.")
}
