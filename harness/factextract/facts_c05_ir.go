package main

// Regenerated tie by translation for C05 (irlib.go): the bodies of IPFilter.Allow and
// IPFilters.Allow → Gen.FactsC05IR.allowIR / allowAllIR; `allow_regenerated_from_source` and
// `allowAll_regenerated_from_source` (Props/C05.lean) prove them equal to Model.IPFilter.allow /
// allowAll for all inputs. `net.ParseIP(ipstr)` is the parameter `ip : Option Addr`
// (none = nil), `Ranger.Contains` is `containsE` (defined in the generated preamble).

func c05Spec() *irSpec {
	return &irSpec{
		Binders: "(f : Filter) (ip : Option Addr)",
		BNames:  []string{"f", "ip"},
		RetTy:   "Bool",
		Recv:    irTerm{"f", "IPFilter"},
		Params:  []irTerm{{"ip", "IPStr"}},
		LeanTy:  map[string]string{"IP": "Option Addr", "Ranger": "List Cidr", "IPFilter": "Filter"},
		Fields: map[string]irField{
			"IPFilter.spec":        {Fmt: "%s", Ty: "Spec"},
			"Spec.BlockByDefault":  {Fmt: "%s.blockByDefault", Ty: "Bool"},
			"IPFilter.allowRanger": {Fmt: "%s.allow", Ty: "Ranger"},
			"IPFilter.blockRanger": {Fmt: "%s.block", Ty: "Ranger"},
			"IPFilters.filters":    {Fmt: "%s", Ty: "List IPFilter"},
		},
		Funcs: map[string]irCall{"net.ParseIP:IPStr": {Fmt: "%[1]s", Ty: "IP", NArgs: 1}},
		Methods: map[string]irCall{
			"Ranger.Contains": {Fmt: "(containsE %[1]s %[2]s)", Ty: "Bool × Error", NArgs: 1},
			"IPFilter.Allow":  {Fmt: "(allow %[1]s %[2]s)", Ty: "Bool", NArgs: 1},
		},
		Ret: func(v []irTerm) (string, error) {
			if len(v) != 1 || v[0].Ty != "Bool" {
				return "", errUnsupportedReturn
			}
			return v[0].S, nil
		},
	}
}

func init() {
	register(Extractor{Module: "FactsC05IR", Imports: []string{"EgVerif.Model.IPFilter"}, Run: func(r *Repo, w *Lean) error {
		const file = "pkg/util/ipfilter/ipfilter.go"
		w.Line("open EgVerif.IPFilter")
		w.Line("")
		w.Line("/-- `cidranger.Ranger.Contains(ip)` as (contained, err != nil): the trie only fails on an address")
		w.Line("that is neither 4 nor 16 bytes long, which `net.ParseIP` never returns (`none` = nil). -/")
		w.Line("def containsE (r : List Cidr) : Option Addr → Bool × Bool")
		w.Line("  | none => (false, true)")
		w.Line("  | some a => (rangerContains r a, false)")
		w.Line("")
		s := c05Spec()
		s.Name = "allowIR"
		if err := irEmit(r, w, file, "IPFilter", "Allow", s, "`ip` is `net.ParseIP(ipstr)`."); err != nil {
			return err
		}
		s = c05Spec()
		s.Name = "allowAllIR"
		s.Binders, s.BNames = "(fs : List Filter) (ip : Option Addr)", []string{"fs", "ip"}
		s.Recv = irTerm{"fs", "IPFilters"}
		return irEmit(r, w, file, "IPFilters", "Allow", s, "`filter.Allow(ipstr)` is the model's `allow filter ip`.")
	}})
}
