package main

// Facts for C19: the shape of syncer.run that Model/Syncer.lean mirrors.

import (
	"fmt"
	"go/ast"
	"strings"
)

func init() {
	register(Extractor{Module: "FactsC19", Run: func(r *Repo, w *Lean) error {
		fd, err := r.Func("pkg/cluster/syncer.go", "syncer", "run")
		if err != nil {
			return err
		}
		var closure *ast.FuncLit
		var forStmt *ast.ForStmt
		initialBefore := false
		for _, st := range fd.Body.List {
			switch s := st.(type) {
			case *ast.AssignStmt:
				if len(s.Lhs) == 1 && r.Src(s.Lhs[0]) == "pullCompareSend" {
					if fl, ok := s.Rhs[0].(*ast.FuncLit); ok {
						closure = fl
					}
				}
			case *ast.ExprStmt:
				if r.Src(s) == "pullCompareSend()" && forStmt == nil && closure != nil {
					initialBefore = true
				}
			case *ast.ForStmt:
				if forStmt == nil {
					forStmt = s
				}
			}
		}
		if closure == nil || forStmt == nil {
			return fmt.Errorf("run: closure pullCompareSend or for-loop not found")
		}
		if forStmt.Cond != nil || len(forStmt.Body.List) != 1 {
			return fmt.Errorf("run: loop is not `for { select {…} }`")
		}
		sel, ok := forStmt.Body.List[0].(*ast.SelectStmt)
		if !ok {
			return fmt.Errorf("run: loop body is not a select")
		}
		var cases []string
		var tickerBody, watchShape []string
		for _, c := range sel.Body.List {
			cc := c.(*ast.CommClause)
			comm := "default"
			if cc.Comm != nil {
				comm = r.Src(cc.Comm)
			}
			cases = append(cases, comm)
			switch {
			case strings.Contains(comm, "ticker.C"):
				for _, b := range cc.Body {
					tickerBody = append(tickerBody, r.Src(b))
				}
			case strings.Contains(comm, "watchChan"):
				for _, b := range cc.Body {
					if ifs, ok := b.(*ast.IfStmt); ok {
						desc := "if " + r.Src(ifs.Cond) + ":"
						var parts []string
						for _, ib := range ifs.Body.List {
							src := r.Src(ib)
							switch {
							case src == "continue":
								parts = append(parts, "continue")
							case src == "watcher, watchChan = s.watch(key, prefix)":
								parts = append(parts, "restart-watcher")
							case strings.HasPrefix(src, "logger.") || src == "watcher.Close()":
							default:
								parts = append(parts, src)
							}
						}
						watchShape = append(watchShape, desc+strings.Join(parts, ","))
					} else {
						watchShape = append(watchShape, r.Src(b))
					}
				}
			}
		}
		// inside the closure
		guard, sendCalls, errReturns := "", 0, false
		var guardBody []string
		ast.Inspect(closure.Body, func(n ast.Node) bool {
			switch x := n.(type) {
			case *ast.CallExpr:
				if r.Src(x.Fun) == "send" {
					sendCalls++
				}
			case *ast.IfStmt:
				c := r.Src(x.Cond)
				if strings.Contains(c, "isDataEqual") {
					guard = c
					for _, b := range x.Body.List {
						guardBody = append(guardBody, r.Src(b))
					}
				}
				if c == "err != nil" {
					if len(x.Body.List) > 0 {
						if _, ok := x.Body.List[len(x.Body.List)-1].(*ast.ReturnStmt); ok {
							errReturns = true
						}
					}
				}
			}
			return true
		})
		w.Line("def initialPullBeforeLoop : Bool := %s", Bool(initialBefore))
		w.Line("def selectCases : List String := %s", StrList(cases))
		w.Line("def tickerCaseBody : List String := %s", StrList(tickerBody))
		w.Line("def watchCaseShape : List String := %s", StrList(watchShape))
		w.Line("def sendGuard : String := %s", Str(guard))
		w.Line("def sendGuardBody : List String := %s", StrList(guardBody))
		w.Line("def sendCalls : Nat := %d", sendCalls)
		w.Line("def pullErrorReturns : Bool := %s", Bool(errReturns))

		// the data path below pull: top-level `if` / `return` statements of the op.go getters
		shape := func(name, file, recv, fn string) error {
			fd, err := r.Func(file, recv, fn)
			if err != nil {
				return err
			}
			var out []string
			for _, st := range fd.Body.List {
				switch st.(type) {
				case *ast.IfStmt, *ast.ReturnStmt:
					out = append(out, r.Src(st))
				}
			}
			w.Line("def %s : List String := %s", name, StrList(out))
			return nil
		}
		if err := shape("getRawShape", "pkg/cluster/op.go", "cluster", "GetRaw"); err != nil {
			return err
		}
		if err := shape("getShape", "pkg/cluster/op.go", "cluster", "Get"); err != nil {
			return err
		}
		if err := shape("getRawPrefixShape", "pkg/cluster/op.go", "cluster", "GetRawPrefix"); err != nil {
			return err
		}
		if err := shape("getPrefixShape", "pkg/cluster/op.go", "cluster", "GetPrefix"); err != nil {
			return err
		}
		// syncer.pull hands the error on in both branches
		pfd, err := r.Func("pkg/cluster/syncer.go", "syncer", "pull")
		if err != nil {
			return err
		}
		keyErr, prefixErr := false, false
		for _, st := range pfd.Body.List {
			ifs, ok := st.(*ast.IfStmt)
			if !ok || len(ifs.Body.List) == 0 {
				continue
			}
			last := r.Src(ifs.Body.List[len(ifs.Body.List)-1])
			switch r.Src(ifs.Cond) {
			case "prefix":
				prefixErr = last == "return result, err" && r.CountCalls(ifs.Body, "s.cluster.GetRawPrefix") == 1
			case "err != nil":
				keyErr = last == "return nil, err"
			}
		}
		w.Line("def pullKeyErrorPropagates : Bool := %s", Bool(keyErr && r.CountCalls(pfd.Body, "s.cluster.GetRaw") == 1))
		w.Line("def pullPrefixErrorPropagates : Bool := %s", Bool(prefixErr))
		return nil
	}})
}
