package main

// Facts for C20 (object lifecycle): the structural facts Model/Lifecycle.lean
// assumes about the reconciliation code.

import (
	"fmt"
	"go/ast"
	"go/token"
	"regexp"
	"strings"
)

// c20RecoversFirst: the body starts with `defer func() { if err := recover(); ... }()`.
func c20RecoversFirst(r *Repo, fd *ast.FuncDecl) bool {
	if fd.Body == nil || len(fd.Body.List) == 0 {
		return false
	}
	ds, ok := fd.Body.List[0].(*ast.DeferStmt)
	if !ok {
		return false
	}
	fl, ok := ds.Call.Fun.(*ast.FuncLit)
	if !ok {
		return false
	}
	return r.CountCalls(fl.Body, "recover") >= 1
}

var c20Lifecycle = map[string]bool{
	"Init": true, "Inherit": true, "Close": true,
	"InitWithRecovery": true, "InheritWithRecovery": true, "CloseWithRecovery": true,
}

// c20LifecycleCalls lists, in source order, the lifecycle methods called in a node.
func c20LifecycleCalls(n ast.Node) []string {
	var out []string
	ast.Inspect(n, func(x ast.Node) bool {
		if ce, ok := x.(*ast.CallExpr); ok {
			if se, ok := ce.Fun.(*ast.SelectorExpr); ok && c20Lifecycle[se.Sel.Name] {
				out = append(out, se.Sel.Name)
			}
		}
		return true
	})
	return out
}

// c20Ranges lists, in source order, the expressions ranged over.
func c20Ranges(r *Repo, n ast.Node) []string {
	var out []string
	ast.Inspect(n, func(x ast.Node) bool {
		if rs, ok := x.(*ast.RangeStmt); ok {
			out = append(out, r.Src(rs.X))
		}
		return true
	})
	return out
}

func init() {
	register(Extractor{Module: "FactsC20", Run: func(r *Repo, w *Lean) error {
		const obj = "pkg/supervisor/object.go"
		var rec []string
		for _, m := range []string{"InitWithRecovery", "InheritWithRecovery", "CloseWithRecovery"} {
			fd, err := r.Func(obj, "ObjectEntity", m)
			if err != nil {
				return err
			}
			rec = append(rec, Bool(c20RecoversFirst(r, fd)))
		}
		w.Line("/-- Init/Inherit/CloseWithRecovery start with a deferred `recover()`. -/")
		w.Line("def recoversFirst : List Bool := [%s]", strings.Join(rec, ", "))

		he, err := r.Func("pkg/supervisor/supervisor.go", "Supervisor", "handleEvent")
		if err != nil {
			return err
		}
		w.Line("/-- lifecycle methods called by Supervisor.handleEvent, in source order -/")
		w.Line("def supervisorCalls : List String := %s", StrList(c20LifecycleCalls(he.Body)))
		w.Line("/-- maps ranged over by Supervisor.handleEvent, in source order -/")
		w.Line("def supervisorRanges : List String := %s", StrList(c20Ranges(r, he.Body)))

		rh, err := r.Func("pkg/object/rawconfigtrafficcontroller/rawconfigtrafficcontroller.go", "RawConfigTrafficController", "handleEvent")
		if err != nil {
			return err
		}
		w.Line("/-- maps ranged over by RawConfigTrafficController.handleEvent, in source order -/")
		w.Line("def trafficRanges : List String := %s", StrList(c20Ranges(r, rh.Body)))
		w.Line("/-- lifecycle methods called directly by RawConfigTrafficController.handleEvent (none: it goes through the traffic controller) -/")
		w.Line("def trafficDirectCalls : List String := %s", StrList(c20LifecycleCalls(rh.Body)))

		const tc = "pkg/object/trafficcontroller/trafficcontroller.go"
		var tcs []string
		for _, m := range []string{"CreatePipeline", "UpdatePipeline", "DeletePipeline", "CreateTrafficGate", "UpdateTrafficGate", "DeleteTrafficGate"} {
			fd, err := r.Func(tc, "TrafficController", m)
			if err != nil {
				return err
			}
			tcs = append(tcs, m+":"+strings.Join(c20LifecycleCalls(fd.Body), ","))
		}
		w.Line("/-- lifecycle methods called by the traffic controller's Create/Update/Delete -/")
		w.Line("def trafficControllerCalls : List String := %s", StrList(tcs))

		ac, err := r.Func(obj, "ObjectRegistry", "applyConfig")
		if err != nil {
			return err
		}
		w.Line("/-- applyConfig holds the registry mutex for its whole body -/")
		w.Line("def applyConfigLocksFirst : Bool := %s", Bool(r.LocksFirst(ac)))
		w.Line("/-- maps ranged over by applyConfig, in source order -/")
		w.Line("def applyConfigRanges : List String := %s", StrList(c20Ranges(r, ac.Body)))
		// the repair: a change of kind is recorded as deleted + created
		kindGuard, delAssign := 0, 0
		ast.Inspect(ac.Body, func(x ast.Node) bool {
			switch s := x.(type) {
			case *ast.IfStmt:
				c := r.Src(s.Cond)
				if strings.Count(c, ".Kind()") == 2 && strings.Contains(c, "!=") {
					for _, st := range s.Body.List {
						if as, ok := st.(*ast.AssignStmt); ok && as.Tok == token.ASSIGN && len(as.Lhs) == 1 && strings.HasPrefix(r.Src(as.Lhs[0]), "deleted[") {
							kindGuard++
						}
					}
				}
			case *ast.AssignStmt:
				if len(s.Lhs) == 1 && strings.HasPrefix(r.Src(s.Lhs[0]), "deleted[") {
					delAssign++
				}
			}
			return true
		})
		w.Line("/-- number of `if <a>.Kind() != <b>.Kind() { deleted[name] = … }` guards in applyConfig -/")
		w.Line("def applyConfigKindGuards : Nat := %d", kindGuard)
		w.Line("/-- number of assignments into `deleted[…]` in applyConfig -/")
		w.Line("def applyConfigDeletedAssigns : Nat := %d", delAssign)

		nw, err := r.Func(obj, "ObjectRegistry", "NewWatcher")
		if err != nil {
			return err
		}
		w.Line("/-- maps ranged over by NewWatcher -/")
		w.Line("def newWatcherRanges : List String := %s", StrList(c20Ranges(r, nw.Body)))

		// Engineer mux (event queue, seeded C20-m5): the consumer loops receive ONE event per iteration from the
		// watcher's channel and pass it unmodified to handleEvent. For Supervisor.run and
		// RawConfigTrafficController.run: the statements of the select case that receives from `….Watch()`, and, per
		// file, every receive from a `Watch()` channel and every argument handed to handleEvent.
		loopFacts := func(file, recv string) (caseBody, receives, heArgs []string, err error) {
			fd, err := r.Func(file, recv, "run")
			if err != nil {
				return nil, nil, nil, err
			}
			ast.Inspect(fd.Body, func(n ast.Node) bool {
				cc, ok := n.(*ast.CommClause)
				if !ok || cc.Comm == nil || !strings.Contains(r.Src(cc.Comm), ".Watch()") {
					return true
				}
				// the received value's name is normalised to `ev` (robust against renaming it)
				bound := ""
				if as, ok := cc.Comm.(*ast.AssignStmt); ok && len(as.Lhs) == 1 {
					if id, ok := as.Lhs[0].(*ast.Ident); ok {
						bound = id.Name
					}
				}
				norm := func(n ast.Node) string {
					src := r.Src(n)
					if bound == "" {
						return src
					}
					return regexp.MustCompile(`\b`+regexp.QuoteMeta(bound)+`\b`).ReplaceAllString(src, "ev")
				}
				caseBody = append(caseBody, norm(cc.Comm))
				for _, st := range cc.Body {
					caseBody = append(caseBody, norm(st))
				}
				ast.Inspect(cc, func(m ast.Node) bool {
					if x, ok := m.(*ast.CallExpr); ok {
						if se, ok := x.Fun.(*ast.SelectorExpr); ok && se.Sel.Name == "handleEvent" {
							for _, a := range x.Args {
								heArgs = append(heArgs, norm(a))
							}
						}
					}
					return true
				})
				return true
			})
			f, err := r.File(file)
			if err != nil {
				return nil, nil, nil, err
			}
			nHandle := 0
			ast.Inspect(f, func(n ast.Node) bool {
				switch x := n.(type) {
				case *ast.UnaryExpr:
					if x.Op == token.ARROW && strings.HasSuffix(r.Src(x.X), ".Watch()") {
						receives = append(receives, r.Src(x))
					}
				case *ast.RangeStmt:
					if strings.HasSuffix(r.Src(x.X), ".Watch()") {
						receives = append(receives, "range "+r.Src(x.X))
					}
				case *ast.CallExpr:
					if se, ok := x.Fun.(*ast.SelectorExpr); ok && se.Sel.Name == "handleEvent" {
						nHandle++
					}
				}
				return true
			})
			heArgs = append(heArgs, fmt.Sprintf("calls:%d", nHandle))
			return caseBody, receives, heArgs, nil
		}
		cb, rc, ha, err := loopFacts("pkg/supervisor/supervisor.go", "Supervisor")
		if err != nil {
			return err
		}
		w.Line("/-- Supervisor.run: the select case receiving from the watcher channel, comm first, then its statements -/")
		w.Line("def supervisorRunWatchCase : List String := %s", StrList(cb))
		w.Line("/-- every receive from a `Watch()` channel in supervisor.go -/")
		w.Line("def supervisorWatchReceives : List String := %s", StrList(rc))
		w.Line("/-- arguments of the handleEvent call(s) inside that select case, then the number of handleEvent calls in the file -/")
		w.Line("def supervisorHandleEventArgs : List String := %s", StrList(ha))
		cb, rc, ha, err = loopFacts("pkg/object/rawconfigtrafficcontroller/rawconfigtrafficcontroller.go", "RawConfigTrafficController")
		if err != nil {
			return err
		}
		w.Line("def trafficRunWatchCase : List String := %s", StrList(cb))
		w.Line("def trafficWatchReceives : List String := %s", StrList(rc))
		w.Line("def trafficHandleEventArgs : List String := %s", StrList(ha))
		return nil
	}})
}
