package main

// Facts for C02: the constants the pipeline model hard-codes (the name of the
// built-in END filter, the default namespace, the urlname format) and coarse
// structural facts about the modelled functions (how many filters a loop
// iteration runs, how often the namespace is switched, how many flows
// HandleWithBeforeAfter runs, that Validate goes through ValidateJumpIf, and
// when a GlobalFilter creates its before/after pipelines). They are counts of
// calls by method name, so renaming locals or reformatting does not disturb them.

import (
	"fmt"
	"go/ast"
	"go/token"
	"strconv"
)

// countSel counts calls whose callee is a selector (or identifier) named name.
func countSel(n ast.Node, name string) int {
	c := 0
	ast.Inspect(n, func(x ast.Node) bool {
		ce, ok := x.(*ast.CallExpr)
		if !ok {
			return true
		}
		switch f := ce.Fun.(type) {
		case *ast.SelectorExpr:
			if f.Sel.Name == name {
				c++
			}
		case *ast.Ident:
			if f.Name == name {
				c++
			}
		}
		return true
	})
	return c
}

func stringConst(r *Repo, rel, name string) (string, error) {
	e, err := r.PkgValue(rel, name)
	if err != nil {
		return "", err
	}
	bl, ok := e.(*ast.BasicLit)
	if !ok || bl.Kind != token.STRING {
		return "", fmt.Errorf("%s: %s is not a string literal", rel, name)
	}
	return strconv.Unquote(bl.Value)
}

func init() {
	register(Extractor{Module: "FactsC02", Run: func(r *Repo, w *Lean) error {
		const pl = "pkg/object/pipeline/pipeline.go"
		const gf = "pkg/object/globalfilter/globalfilter.go"
		end, err := stringConst(r, pl, "BuiltInFilterEnd")
		if err != nil {
			return err
		}
		w.Line("/-- `pipeline.BuiltInFilterEnd` -/")
		w.Line("def endName : String := %s", Str(end))
		ns, err := stringConst(r, "pkg/context/context.go", "DefaultNamespace")
		if err != nil {
			return err
		}
		w.Line("/-- `context.DefaultNamespace` -/")
		w.Line("def defaultNamespace : String := %s", Str(ns))
		// urlname format
		re, err := r.PkgValue("pkg/v/format.go", "urlCharsRegexp")
		if err != nil {
			return err
		}
		ce, ok := re.(*ast.CallExpr)
		if !ok || len(ce.Args) != 1 {
			return fmt.Errorf("urlCharsRegexp is not regexp.MustCompile(<lit>)")
		}
		bl, ok := ce.Args[0].(*ast.BasicLit)
		if !ok {
			return fmt.Errorf("urlCharsRegexp pattern is not a literal")
		}
		pat, err := strconv.Unquote(bl.Value)
		if err != nil {
			return err
		}
		w.Line("/-- pattern of `format=urlname` (pkg/v/format.go) -/")
		w.Line("def urlNamePattern : String := %s", Str(pat))

		dh, err := r.Func(pl, "Pipeline", "doHandle")
		if err != nil {
			return err
		}
		w.Line("/-- filter invocations (`.Handle(`) per `doHandle` loop body -/")
		w.Line("def doHandleFilterCalls : Nat := %d", countSel(dh.Body, "Handle"))
		w.Line("/-- `ctx.UseNamespace(` calls in `doHandle` -/")
		w.Line("def doHandleUseNamespaceCalls : Nat := %d", countSel(dh.Body, "UseNamespace"))
		w.Line("/-- `filterAlias()` calls in `doHandle` (one name per node, used for matching and for the stat) -/")
		w.Line("def doHandleAliasCalls : Nat := %d", countSel(dh.Body, "filterAlias"))
		hw, err := r.Func(pl, "Pipeline", "HandleWithBeforeAfter")
		if err != nil {
			return err
		}
		w.Line("/-- flows run by `HandleWithBeforeAfter` -/")
		w.Line("def hwbaDoHandleCalls : Nat := %d", countSel(hw.Body, "doHandle"))
		h, err := r.Func(pl, "Pipeline", "Handle")
		if err != nil {
			return err
		}
		w.Line("def handleDoHandleCalls : Nat := %d", countSel(h.Body, "doHandle"))
		v, err := r.Func(pl, "Spec", "Validate")
		if err != nil {
			return err
		}
		w.Line("/-- `Spec.Validate` validates the flow through `ValidateJumpIf` -/")
		w.Line("def validateCallsValidateJumpIf : Nat := %d", countSel(v.Body, "ValidateJumpIf"))
		w.Line("def validateCallsIsBuiltIn : Nat := %d", countSel(v.Body, "isBuiltInFilter"))
		vj, err := r.Func(pl, "Spec", "ValidateJumpIf")
		if err != nil {
			return err
		}
		w.Line("/-- `ValidateJumpIf` names nodes with `filterAlias()` -/")
		w.Line("def validateJumpIfAliasCalls : Nat := %d", countSel(vj.Body, "filterAlias"))
		gh, err := r.Func(gf, "GlobalFilter", "Handle")
		if err != nil {
			return err
		}
		w.Line("/-- `GlobalFilter.Handle` delegates to `HandleWithBeforeAfter` -/")
		w.Line("def gfHandleCallsHWBA : Nat := %d", countSel(gh.Body, "HandleWithBeforeAfter"))
		gv, err := r.Func(gf, "Spec", "Validate")
		if err != nil {
			return err
		}
		w.Line("/-- `globalfilter.Spec.Validate` validates both pipeline specs -/")
		w.Line("def gfValidateCalls : Nat := %d", countSel(gv.Body, "Validate"))
		return nil
	}})
}
