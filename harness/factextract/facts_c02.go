package main

// Facts for C02: the constants the pipeline model hard-codes (the name of the
// built-in END filter, the default namespace, the urlname format) and coarse
// structural facts about the modelled functions (how many filters a loop
// iteration runs, how often the namespace is switched, how many flows
// HandleWithBeforeAfter runs, that Validate goes through ValidateJumpIf, and
// when a GlobalFilter creates its before/after pipelines). They are counts of
// calls by method name, so renaming locals or reformatting does not disturb them.

import (
	"fmt"
	"go/ast"
	"go/token"
	"strconv"
	"strings"
)

// countSel counts calls whose callee is a selector (or identifier) named name.
func countSel(n ast.Node, name string) int {
	c := 0
	ast.Inspect(n, func(x ast.Node) bool {
		ce, ok := x.(*ast.CallExpr)
		if !ok {
			return true
		}
		switch f := ce.Fun.(type) {
		case *ast.SelectorExpr:
			if f.Sel.Name == name {
				c++
			}
		case *ast.Ident:
			if f.Name == name {
				c++
			}
		}
		return true
	})
	return c
}

func stringConst(r *Repo, rel, name string) (string, error) {
	e, err := r.PkgValue(rel, name)
	if err != nil {
		return "", err
	}
	bl, ok := e.(*ast.BasicLit)
	if !ok || bl.Kind != token.STRING {
		return "", fmt.Errorf("%s: %s is not a string literal", rel, name)
	}
	return strconv.Unquote(bl.Value)
}

func init() {
	register(Extractor{Module: "FactsC02", Run: func(r *Repo, w *Lean) error {
		const pl = "pkg/object/pipeline/pipeline.go"
		const gf = "pkg/object/globalfilter/globalfilter.go"
		end, err := stringConst(r, pl, "BuiltInFilterEnd")
		if err != nil {
			return err
		}
		w.Line("/-- `pipeline.BuiltInFilterEnd` -/")
		w.Line("def endName : String := %s", Str(end))
		ns, err := stringConst(r, "pkg/context/context.go", "DefaultNamespace")
		if err != nil {
			return err
		}
		w.Line("/-- `context.DefaultNamespace` -/")
		w.Line("def defaultNamespace : String := %s", Str(ns))
		// urlname format
		re, err := r.PkgValue("pkg/v/format.go", "urlCharsRegexp")
		if err != nil {
			return err
		}
		ce, ok := re.(*ast.CallExpr)
		if !ok || len(ce.Args) != 1 {
			return fmt.Errorf("urlCharsRegexp is not regexp.MustCompile(<lit>)")
		}
		bl, ok := ce.Args[0].(*ast.BasicLit)
		if !ok {
			return fmt.Errorf("urlCharsRegexp pattern is not a literal")
		}
		pat, err := strconv.Unquote(bl.Value)
		if err != nil {
			return err
		}
		w.Line("/-- pattern of `format=urlname` (pkg/v/format.go) -/")
		w.Line("def urlNamePattern : String := %s", Str(pat))

		dh, err := r.Func(pl, "Pipeline", "doHandle")
		if err != nil {
			return err
		}
		w.Line("/-- filter invocations (`.Handle(`) per `doHandle` loop body -/")
		w.Line("def doHandleFilterCalls : Nat := %d", countSel(dh.Body, "Handle"))
		w.Line("/-- `ctx.UseNamespace(` calls in `doHandle` -/")
		w.Line("def doHandleUseNamespaceCalls : Nat := %d", countSel(dh.Body, "UseNamespace"))
		w.Line("/-- `filterAlias()` calls in `doHandle` (one name per node, used for matching and for the stat) -/")
		w.Line("def doHandleAliasCalls : Nat := %d", countSel(dh.Body, "filterAlias"))
		hw, err := r.Func(pl, "Pipeline", "HandleWithBeforeAfter")
		if err != nil {
			return err
		}
		w.Line("/-- flows run by `HandleWithBeforeAfter` -/")
		w.Line("def hwbaDoHandleCalls : Nat := %d", countSel(hw.Body, "doHandle"))
		h, err := r.Func(pl, "Pipeline", "Handle")
		if err != nil {
			return err
		}
		w.Line("def handleDoHandleCalls : Nat := %d", countSel(h.Body, "doHandle"))
		v, err := r.Func(pl, "Spec", "Validate")
		if err != nil {
			return err
		}
		w.Line("/-- `Spec.Validate` validates the flow through `ValidateJumpIf` -/")
		w.Line("def validateCallsValidateJumpIf : Nat := %d", countSel(v.Body, "ValidateJumpIf"))
		w.Line("def validateCallsIsBuiltIn : Nat := %d", countSel(v.Body, "isBuiltInFilter"))
		vj, err := r.Func(pl, "Spec", "ValidateJumpIf")
		if err != nil {
			return err
		}
		w.Line("/-- `ValidateJumpIf` names nodes with `filterAlias()` -/")
		w.Line("def validateJumpIfAliasCalls : Nat := %d", countSel(vj.Body, "filterAlias"))
		gh, err := r.Func(gf, "GlobalFilter", "Handle")
		if err != nil {
			return err
		}
		w.Line("/-- `GlobalFilter.Handle` delegates to `HandleWithBeforeAfter` -/")
		w.Line("def gfHandleCallsHWBA : Nat := %d", countSel(gh.Body, "HandleWithBeforeAfter"))
		gv, err := r.Func(gf, "Spec", "Validate")
		if err != nil {
			return err
		}
		w.Line("/-- `globalfilter.Spec.Validate` validates both pipeline specs -/")
		w.Line("def gfValidateCalls : Nat := %d", countSel(gv.Body, "Validate"))
		return c02ReloadFacts(r, w)
	}})
}

// c02ReloadFacts: the flow-synthesis / binding skeleton of Pipeline.reload and the existence conditions
// of GlobalFilter.reload, by role (the local that ends up in `p.flow` is FLOW, the range variable over
// the filter specs RAW, the result of filters.NewSpec SPEC), so that renaming locals does not disturb them.
func c02ReloadFacts(r *Repo, w *Lean) error {
	const pl = "pkg/object/pipeline/pipeline.go"
	const gf = "pkg/object/globalfilter/globalfilter.go"
	fd, err := r.Func(pl, "Pipeline", "reload")
	if err != nil {
		return err
	}
	recv := fd.Recv.List[0].Names[0].Name
	// the local stored into <recv>.flow, and the position of that store
	flowVar, storeIdx := "", -1
	for i, st := range fd.Body.List {
		if as, ok := st.(*ast.AssignStmt); ok && len(as.Lhs) == 1 && len(as.Rhs) == 1 && r.Src(as.Lhs[0]) == recv+".flow" {
			if id, ok := as.Rhs[0].(*ast.Ident); ok {
				flowVar, storeIdx = id.Name, i
			}
		}
	}
	if flowVar == "" {
		return fmt.Errorf("reload: no `%s.flow = <local>`", recv)
	}
	canon := func(n ast.Node, raw, spec string) string {
		src := " " + r.Src(n) + " "
		rep := func(name, role string) {
			if name == "" {
				return
			}
			out, i := "", 0
			for i < len(src) {
				j := i
				for j < len(src) && (src[j] == '_' || src[j] >= 'a' && src[j] <= 'z' || src[j] >= 'A' && src[j] <= 'Z' || src[j] >= '0' && src[j] <= '9') {
					j++
				}
				if j > i {
					if src[i:j] == name && (i == 0 || src[i-1] != '.') {
						out += role
					} else {
						out += src[i:j]
					}
					i = j
				} else {
					out += string(src[i])
					i++
				}
			}
			src = out
		}
		rep(flowVar, "FLOW")
		rep(raw, "RAW")
		rep(spec, "SPEC")
		rep(recv, "P")
		return src[1 : len(src)-1]
	}
	// every statement (at any depth) that assigns the flow local, in source order, with the enclosing
	// if-condition and range expression
	var writes []string
	loopIdx, bindIdx := -1, -1
	var walk func(st ast.Stmt, ctx string, raw, spec string)
	walkList := func(l []ast.Stmt, ctx, raw, spec string) {
		for _, s := range l {
			// the filters.NewSpec result inside the loop
			if as, ok := s.(*ast.AssignStmt); ok && len(as.Rhs) == 1 {
				if ce, ok := as.Rhs[0].(*ast.CallExpr); ok && r.Src(ce.Fun) == "filters.NewSpec" && len(as.Lhs) >= 1 && len(ce.Args) == 3 {
					if id, ok := as.Lhs[0].(*ast.Ident); ok {
						spec = id.Name
						if a, ok := ce.Args[2].(*ast.Ident); !ok || a.Name != raw {
							spec = "" // not built from the range variable
						}
					}
				}
			}
			walk(s, ctx, raw, spec)
		}
	}
	walk = func(st ast.Stmt, ctx, raw, spec string) {
		switch x := st.(type) {
		case *ast.AssignStmt:
			for _, l := range x.Lhs {
				if id, ok := l.(*ast.Ident); ok && id.Name == flowVar {
					writes = append(writes, ctx+canon(x, raw, spec))
				}
			}
		case *ast.IfStmt:
			c := ctx + "if " + canon(x.Cond, raw, spec) + " { "
			walkList(x.Body.List, c, raw, spec)
			if x.Else != nil {
				walk(x.Else, ctx+"else { ", raw, spec)
			}
		case *ast.BlockStmt:
			walkList(x.List, ctx, raw, spec)
		case *ast.RangeStmt:
			rv := ""
			if id, ok := x.Value.(*ast.Ident); ok {
				rv = id.Name
			}
			walkList(x.Body.List, ctx+"range "+canon(x.X, rv, spec)+" { ", rv, spec)
		case *ast.ForStmt:
			walkList(x.Body.List, ctx+"for { ", raw, spec)
		}
	}
	for i, st := range fd.Body.List {
		if rs, ok := st.(*ast.RangeStmt); ok {
			switch canon(rs.X, "", "") {
			case "P.spec.Filters":
				loopIdx = i
			case "FLOW":
				bindIdx = i
			}
		}
		walk(st, "", "", "")
	}
	w.Line("/-- `Pipeline.reload`: every assignment to the local that is stored into `p.flow` (FLOW), in source order,")
	w.Line("with its enclosing conditions / loops (RAW = range variable, SPEC = `filters.NewSpec(…, RAW)`, P = receiver) -/")
	w.Line("def reloadFlowWrites : List String := %s", StrList(writes))
	w.Line("/-- the store `p.flow = FLOW` comes after the loop over the filter specs and before the binding loop -/")
	w.Line("def reloadStoreAfterLoop : Bool := %s", Bool(loopIdx >= 0 && storeIdx > loopIdx && bindIdx > storeIdx))
	// binding loop: what is assigned through the node pointer, under which condition
	var binds []string
	if bindIdx >= 0 {
		rs := fd.Body.List[bindIdx].(*ast.RangeStmt)
		node := ""
		for _, s := range rs.Body.List {
			if as, ok := s.(*ast.AssignStmt); ok && as.Tok == token.DEFINE && len(as.Lhs) == 1 {
				if ue, ok := as.Rhs[0].(*ast.UnaryExpr); ok && ue.Op == token.AND {
					node = as.Lhs[0].(*ast.Ident).Name
					_ = ue
				}
			}
			if is, ok := s.(*ast.IfStmt); ok {
				for _, b := range is.Body.List {
					txt := "if " + canon(is.Cond, "", "") + " { " + canon(b, "", "") + " }"
					if node != "" {
						txt = strings.ReplaceAll(txt, node+".", "NODE.")
					}
					binds = append(binds, txt)
				}
			}
		}
	}
	w.Line("/-- the binding loop over FLOW: the filter instance bound to a node is the one registered under the node's FilterName -/")
	w.Line("def reloadBinding : List String := %s", StrList(binds))
	// registration of the instances: p.filters[filter.Name()] = filter inside the filter loop
	reg := 0
	if loopIdx >= 0 {
		ast.Inspect(fd.Body.List[loopIdx], func(n ast.Node) bool {
			if as, ok := n.(*ast.AssignStmt); ok && len(as.Lhs) == 1 {
				if ie, ok := as.Lhs[0].(*ast.IndexExpr); ok && r.Src(ie.X) == recv+".filters" {
					if ce, ok := ie.Index.(*ast.CallExpr); ok && strings.HasSuffix(r.Src(ce.Fun), ".Name") && r.Src(as.Rhs[0])+".Name" == r.Src(ce.Fun) {
						reg++
					}
				}
			}
			return true
		})
	}
	w.Line("/-- `p.filters[x.Name()] = x` statements in the filter loop -/")
	w.Line("def reloadRegistersByName : Nat := %d", reg)

	// GlobalFilter.reload: which condition guards the creation of the before / after pipeline
	gr, err := r.Func(gf, "GlobalFilter", "reload")
	if err != nil {
		return err
	}
	grecv := gr.Recv.List[0].Names[0].Name
	var conds []string
	for _, st := range gr.Body.List {
		if is, ok := st.(*ast.IfStmt); ok {
			created := ""
			ast.Inspect(is.Body, func(n ast.Node) bool {
				if ce, ok := n.(*ast.CallExpr); ok {
					if se, ok := ce.Fun.(*ast.SelectorExpr); ok && strings.HasPrefix(se.Sel.Name, "CreateAndUpdate") {
						created = se.Sel.Name
					}
				}
				return true
			})
			if created != "" {
				conds = append(conds, strings.ReplaceAll(r.Src(is.Cond), grecv+".", "GF.")+" => "+created)
			}
		}
	}
	w.Line("/-- `GlobalFilter.reload`: condition => pipeline created -/")
	w.Line("def gfReloadCreates : List String := %s", StrList(conds))
	return nil
}
