package main

// Regenerated tie by translation for C01 (irlib.go, notes/IR.md): the bodies of muxRule.match,
// MuxPath.matchPath / matchMethod / matchHeaders / rewrite → Gen.FactsC01IR.*IR; the theorems
// `<fn>_regenerated_from_source` (Props/C01.lean) prove them equal to Model/Mux.lean's
// ruleMatch / matchPath / matchMethod / matchHeaders / rewrite for all inputs and oracles.

import (
	"go/ast"
	"go/token"
)

func c01Spec(name string) *irSpec {
	s := &irSpec{
		Name:    name,
		Binders: "(o : Oracle) (e : PathEntry) (q : Req)",
		BNames:  []string{"o", "e", "q"},
		RetTy:   "Bool",
		Recv:    irTerm{"e", "MuxPath"},
		Params:  []irTerm{{"q", "Req"}},
		LeanTy:  map[string]string{"Regexp": "Option Nat", "Header": "HeaderCond", "MuxPath": "PathEntry", "MuxRule": "Rule"},
		Fields: map[string]irField{
			"MuxRule.host":           {Fmt: "%s.host", Ty: "String"},
			"MuxRule.hostRE":         {Fmt: "%s.hostRE", Ty: "Regexp"},
			"MuxPath.path":           {Fmt: "%s.path", Ty: "String"},
			"MuxPath.pathPrefix":     {Fmt: "%s.pathPrefix", Ty: "String"},
			"MuxPath.pathRE":         {Fmt: "%s.pathRE", Ty: "Regexp"},
			"MuxPath.rewriteTarget":  {Fmt: "%s.rewriteTarget", Ty: "String"},
			"MuxPath.methods":        {Fmt: "%s.methods", Ty: "List String"},
			"MuxPath.headers":        {Fmt: "%s.headers", Ty: "List Header"},
			"MuxPath.matchAllHeader": {Fmt: "%s.matchAll", Ty: "Bool"},
			"Header.Key":             {Fmt: "%s.key", Ty: "String"},
			"Header.Values":          {Fmt: "%s.values", Ty: "List String"},
			"Header.headerRE":        {Fmt: "%s.re", Ty: "Regexp"},
		},
		Methods: map[string]irCall{
			"Req.Host":           {Fmt: "%[1]s.host", Ty: "String", NArgs: 0},
			"Req.Path":           {Fmt: "%[1]s.path", Ty: "String", NArgs: 0},
			"Req.Method":         {Fmt: "%[1]s.method", Ty: "String", NArgs: 0},
			"Req.HTTPHeader":     {Fmt: "%[1]s", Ty: "ReqHeader", NArgs: 0},
			"ReqHeader.Get":      {Fmt: "(%[1]s.get %[2]s)", Ty: "String", NArgs: 1},
			"Regexp.MatchString": {Fmt: "(reMatch o %[1]s %[2]s)", Ty: "Bool", NArgs: 1},
			"Regexp.ReplaceAllString": {Fmt: "(σ (%[1]s.getD 0) %[2]s %[3]s)", Ty: "String", NArgs: 2,
				Guard: "%[1]s.isSome"}, // nil *regexp.Regexp: the call panics
		},
		Funcs: map[string]irCall{
			"strings.HasPrefix":     {Fmt: "(%[2]s.isPrefixOf %[1]s)", Ty: "Bool", NArgs: 2},
			"stringtool.StrInSlice": {Fmt: "(%[2]s.contains %[1]s)", Ty: "Bool", NArgs: 2},
			"len:List String":       {Fmt: "%[1]s.length", Ty: "Nat", NArgs: 1},
			"len:String":            {Fmt: "%[1]s.length", Ty: "Nat", NArgs: 1},
			"net.SplitHostPort":     {Fmt: "(splitHostPort sp %[1]s)", Ty: "String × String × Error", NArgs: 1},
		},
		SliceFrom: map[string]irCall{"String": {Fmt: "(String.ofList (%[1]s.toList.drop %[2]s))", Ty: "String"}},
		Ret: func(v []irTerm) (string, error) {
			if len(v) != 1 || v[0].Ty != "Bool" {
				return "", errUnsupportedReturn
			}
			return v[0].S, nil
		},
	}
	// `h.Regexp != ""` is the model's `h.re.isSome` (newMuxPath compiles headerRE iff Regexp != "")
	s.Hook = func(t *irT, e ast.Expr, env *irEnv) (irTerm, bool, error) {
		be, ok := e.(*ast.BinaryExpr)
		if !ok || (be.Op != token.NEQ && be.Op != token.EQL) {
			return irTerm{}, false, nil
		}
		se, ok := be.X.(*ast.SelectorExpr)
		if !ok || se.Sel.Name != "Regexp" || t.r.Src(be.Y) != `""` {
			return irTerm{}, false, nil
		}
		rx, err := t.expr(se.X, env)
		if err != nil || rx.Ty != "Header" {
			return irTerm{}, false, nil
		}
		if be.Op == token.NEQ {
			return irTerm{rx.S + ".re.isSome", "Bool"}, true, nil
		}
		return irTerm{rx.S + ".re.isNone", "Bool"}, true, nil
	}
	return s
}

func init() {
	register(Extractor{Module: "FactsC01IR", Imports: []string{"EgVerif.Model.Mux"}, Run: func(r *Repo, w *Lean) error {
		const file = "pkg/object/httpserver/mux.go"
		w.Line("set_option linter.unusedVariables false")
		w.Line("open EgVerif.Mux")
		w.Line("")
		w.Line("/-- `net.SplitHostPort(h)` as (host, port, err != nil); `sp h = none` when it fails. -/")
		w.Line("def splitHostPort (sp : String → Option String) (h : String) : String × String × Bool :=")
		w.Line("  match sp h with")
		w.Line("  | some x => (x, \"\", false)")
		w.Line("  | none => (\"\", \"\", true)")
		w.Line("")
		s := c01Spec("ruleMatchIR")
		s.Binders, s.BNames = "(o : Oracle) (sp : String → Option String) (r : Rule) (q : Req)", []string{"o", "sp", "r", "q"}
		s.Recv = irTerm{"r", "MuxRule"}
		if err := irEmit(r, w, file, "muxRule", "match", s, "`sp` is `net.SplitHostPort` (none = error); the model's `q.hostNoPort` is `(sp q.host).getD q.host`."); err != nil {
			return err
		}
		if err := irEmit(r, w, file, "MuxPath", "matchPath", c01Spec("matchPathIR"), ""); err != nil {
			return err
		}
		if err := irEmit(r, w, file, "MuxPath", "matchMethod", c01Spec("matchMethodIR"), ""); err != nil {
			return err
		}
		if err := irEmit(r, w, file, "MuxPath", "matchHeaders", c01Spec("matchHeadersIR"), ""); err != nil {
			return err
		}
		s = c01Spec("rewriteIR")
		s.Binders, s.BNames = "(σ : Nat → String → String → String) (e : PathEntry) (q : Req)", []string{"σ", "e", "q"}
		s.RetTy = "Option String"
		s.State = []irLet{{"req_path", "String", "q.path"}}
		s.StmtMethods = map[string]irStmtCall{"Req.SetPath": {Lets: []irLet{{"req_path", "String", "%[2]s"}}, NArgs: 1}}
		s.Panic = "none"
		s.Ret = func(v []irTerm) (string, error) {
			if len(v) != 0 {
				return "", errUnsupportedReturn
			}
			return "some req_path", nil
		}
		if err := irEmit(r, w, file, "MuxPath", "rewrite", s,
			"Result: the request path after the call (`r.SetPath`), `none` = nil dereference of `mp.pathRE`."); err != nil {
			return err
		}
		// Path.Validate (spec.go): the hypothesis `PathValid` of rewrite_total / serve_satisfies_spec.
		// `p.PathRegexp` is the source of the model's `pathRE` (newMuxPath compiles it iff non-empty).
		w.Line("/-- the spec string `PathRegexp` as far as `Validate` looks at it: empty iff no regexp is compiled -/")
		w.Line("def reSrc (r : Option Nat) : String := if r.isSome then \"re\" else \"\"")
		w.Line("")
		v := &irSpec{
			Name:    "pathValidateIR",
			Binders: "(e : PathEntry)",
			BNames:  []string{"e"},
			RetTy:   "Bool",
			Recv:    irTerm{"e", "Path"},
			LeanTy:  map[string]string{"Path": "PathEntry"},
			Fields: map[string]irField{
				"Path.Path":          {Fmt: "%s.path", Ty: "String"},
				"Path.PathPrefix":    {Fmt: "%s.pathPrefix", Ty: "String"},
				"Path.PathRegexp":    {Fmt: "(reSrc %s.pathRE)", Ty: "String"},
				"Path.RewriteTarget": {Fmt: "%s.rewriteTarget", Ty: "String"},
			},
			Funcs: map[string]irCall{
				"stringtool.IsAllEmpty": {Fmt: "((%[1]s == \"\") && (%[2]s == \"\") && (%[3]s == \"\"))", Ty: "Bool", NArgs: 3},
				"fmt.Errorf":            {Fmt: "true", Ty: "Error", NArgs: -1},
			},
			Ret: func(v []irTerm) (string, error) { // the result is "an error was returned"
				if len(v) != 1 || (v[0].Ty != "Error" && v[0].Ty != "nil") {
					return "", errUnsupportedReturn
				}
				if v[0].Ty == "nil" {
					return "false", nil
				}
				return v[0].S, nil
			},
		}
		return irEmit(r, w, "pkg/object/httpserver/spec.go", "Path", "Validate", v,
			"Result: `Validate` returned an error (the spec is rejected).")
	}})
}
