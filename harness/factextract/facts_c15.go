package main

// Facts for C15 (pkg/object/mqttproxy broker.go / session.go / client.go / topic.go): the shape of the
// fan-out loop, of addClients, of the QoS0 non-blocking send, the constants the model and the
// harness rely on.

import (
	"go/ast"
	"go/token"
	"strings"
)

func c15Count(n ast.Node, pred func(ast.Node) bool) int {
	c := 0
	ast.Inspect(n, func(x ast.Node) bool {
		if x != nil && pred(x) {
			c++
		}
		return true
	})
	return c
}

func init() {
	register(Extractor{Module: "FactsC15", Run: func(r *Repo, w *Lean) error {
		const dir = "pkg/object/mqttproxy/"
		// --- sendMsgToClient: the range loop over subscribers
		fd, err := r.Func(dir+"broker.go", "Broker", "sendMsgToClient")
		if err != nil {
			return err
		}
		var loop *ast.RangeStmt
		ast.Inspect(fd.Body, func(x ast.Node) bool {
			// the (only) range loop of the function — found by position, not by the variable's name, so that a
			// rename of `subscribers` / `subQoS` does not break the fact (extension mqtt; the loop body is now also
			// tied by translation, facts_c15_ir.go)
			if rs, ok := x.(*ast.RangeStmt); ok && loop == nil {
				loop = rs
			}
			return true
		})
		returns, continues, cmp, publishes := 99, 99, "", 99
		if loop != nil {
			returns = c15Count(loop.Body, func(x ast.Node) bool { _, ok := x.(*ast.ReturnStmt); return ok })
			continues = c15Count(loop.Body, func(x ast.Node) bool {
				b, ok := x.(*ast.BranchStmt)
				return ok && b.Tok == token.CONTINUE
			})
			ast.Inspect(loop.Body, func(x ast.Node) bool {
				if is, ok := x.(*ast.IfStmt); ok && cmp == "" {
					cmp = r.Src(is.Cond)
					// canonical names for the loop's value variable and the function's last parameter
					if be, ok := is.Cond.(*ast.BinaryExpr); ok {
						lx, ok1 := be.X.(*ast.Ident)
						ly, ok2 := be.Y.(*ast.Ident)
						lv, ok3 := loop.Value.(*ast.Ident)
						ps := fd.Type.Params.List
						if ok1 && ok2 && ok3 && len(ps) > 0 && len(ps[len(ps)-1].Names) > 0 &&
							lx.Name == lv.Name && ly.Name == ps[len(ps)-1].Names[len(ps[len(ps)-1].Names)-1].Name {
							cmp = "subQoS " + be.Op.String() + " qos"
						}
					}
				}
				return true
			})
			publishes = 0
			ast.Inspect(loop.Body, func(x ast.Node) bool {
				if ce, ok := x.(*ast.CallExpr); ok && strings.HasSuffix(r.Src(ce.Fun), ".session.publish") {
					publishes++
				}
				return true
			})
		}
		w.Line("/-- `sendMsgToClient`: inside `for clientID, subQoS := range subscribers`: number of `return`")
		w.Line("statements (0 = no subscriber can end the fan-out), of `continue`s, the first condition, and the")
		w.Line("number of `client.session.publish` calls. -/")
		w.Line("def fanoutLoopReturns : Nat := %d", returns)
		w.Line("def fanoutLoopContinues : Nat := %d", continues)
		w.Line("def fanoutLoopFirstCond : String := %s", Str(cmp))
		w.Line("def fanoutLoopPublishCalls : Nat := %d", publishes)

		// --- addClients keeps the maximum
		ac, err := r.Func(dir+"topic.go", "topicNode", "addClients")
		if err != nil {
			return err
		}
		gt := c15Count(ac.Body, func(x ast.Node) bool {
			b, ok := x.(*ast.BinaryExpr)
			return ok && b.Op == token.GTR && strings.Contains(r.Src(b), "qos")
		})
		w.Line("/-- `addClients`: number of `qos > …` comparisons guarding the assignment (1 = keeps the maximum). -/")
		w.Line("def addClientsGtComparisons : Nat := %d", gt)

		// --- Session.publish: one select with a default clause (QoS0 non-blocking), one blocking writePacket
		sp, err := r.Func(dir+"session.go", "Session", "publish")
		if err != nil {
			return err
		}
		selDefault := c15Count(sp.Body, func(x ast.Node) bool {
			s, ok := x.(*ast.SelectStmt)
			if !ok {
				return false
			}
			for _, c := range s.Body.List {
				if cc, ok := c.(*ast.CommClause); ok && cc.Comm == nil {
					return true
				}
			}
			return false
		})
		w.Line("/-- `Session.publish`: selects with a `default` clause (the QoS0 drop-if-full) and blocking `writePacket` calls (QoS1). -/")
		w.Line("def publishSelectDefault : Nat := %d", selDefault)
		w.Line("def publishWritePacketCalls : Nat := %d", r.CountCalls(sp.Body, "client.writePacket"))
		w.Line("def publishLocksSession : Bool := %s", Bool(r.CountCalls(sp.Body, "s.Lock") == 1 && r.CountCalls(sp.Body, "s.Unlock") == 1))

		dr, err := r.Func(dir+"session.go", "Session", "doResend")
		if err != nil {
			return err
		}
		w.Line("/-- `doResend`: exactly one `client.writePacket` (one message per tick). -/")
		w.Line("def doResendWritePacketCalls : Nat := %d", r.CountCalls(dr.Body, "client.writePacket"))

		// --- constants
		nc, err := r.Func(dir+"client.go", "", "newClient")
		if err != nil {
			return err
		}
		capv := ""
		ast.Inspect(nc.Body, func(x ast.Node) bool {
			if ce, ok := x.(*ast.CallExpr); ok && r.Src(ce.Fun) == "make" && len(ce.Args) == 2 && strings.Contains(r.Src(ce.Args[0]), "chan packets.ControlPacket") {
				capv = r.Src(ce.Args[1])
			}
			return true
		})
		if capv == "" {
			capv = "0"
		}
		w.Line("/-- capacity of `Client.writeCh`. -/")
		w.Line("def writeChCap : Nat := %s", capv)

		bg, err := r.Func(dir+"session.go", "Session", "backgroundResendPending")
		if err != nil {
			return err
		}
		tick := ""
		ast.Inspect(bg.Body, func(x ast.Node) bool {
			if ce, ok := x.(*ast.CallExpr); ok && r.Src(ce.Fun) == "time.NewTicker" && len(ce.Args) == 1 {
				tick = r.Src(ce.Args[0])
			}
			return true
		})
		w.Line("/-- the resend ticker period. -/")
		w.Line("def resendTicker : String := %s", Str(tick))

		hh, err := r.Func(dir+"broker.go", "Broker", "httpTopicsPublishHandler")
		if err != nil {
			return err
		}
		var conds []string
		for _, st := range hh.Body.List {
			if is, ok := st.(*ast.IfStmt); ok {
				conds = append(conds, r.Src(is.Cond))
			}
		}
		w.Line("/-- top-level `if` conditions of `httpTopicsPublishHandler`, in order. -/")
		w.Line("def httpHandlerConds : List String := %s", StrList(conds))
		w.Line("def httpHandlerAsyncSend : Nat := %d", c15Count(hh.Body, func(x ast.Node) bool {
			g, ok := x.(*ast.GoStmt)
			return ok && r.Src(g.Call.Fun) == "b.sendMsgToClient"
		}))

		pp, err := r.Func(dir+"client.go", "", "processPublish")
		if err != nil {
			return err
		}
		w.Line("/-- `processPublish`: the PUBACK copies the PUBLISH's packet id. -/")
		w.Line("def pubackCopiesId : Bool := %s", Bool(strings.Contains(r.Src(pp.Body), "puback.MessageID = publish.MessageID")))
		// --- inbound PUBLISH handling keeps no memory between packets (extension mqtt round 3): the fields of
		// *Client that processPublish, pipelineWrapper's closure, checkPublishLimit and the "*packets.PublishPacket"
		// entry of processPacketMap ASSIGN (the model `onPublish` is a function of the packet and of the limiter /
		// pipeline verdicts only; the publish limiter has its own state behind c.publishLimit)
		cf, err := r.File(dir + "client.go")
		if err != nil {
			return err
		}
		writes := []string{}
		seen := map[string]bool{}
		collect := func(n ast.Node) {
			ast.Inspect(n, func(x ast.Node) bool {
				var lhs []ast.Expr
				switch st := x.(type) {
				case *ast.AssignStmt:
					lhs = st.Lhs
				case *ast.IncDecStmt:
					lhs = []ast.Expr{st.X}
				}
				for _, l := range lhs {
					if se, ok := l.(*ast.SelectorExpr); ok {
						if id, ok := se.X.(*ast.Ident); ok && id.Name == "c" && !seen[se.Sel.Name] {
							seen[se.Sel.Name] = true
							writes = append(writes, se.Sel.Name)
						}
					}
				}
				return true
			})
		}
		for _, d := range cf.Decls {
			switch x := d.(type) {
			case *ast.FuncDecl:
				if x.Name.Name == "processPublish" || x.Name.Name == "pipelineWrapper" || x.Name.Name == "checkPublishLimit" {
					collect(x)
				}
			case *ast.GenDecl:
				for _, sp := range x.Specs {
					if vs, ok := sp.(*ast.ValueSpec); ok && len(vs.Names) == 1 && vs.Names[0].Name == "processPacketMap" {
						for _, v := range vs.Values {
							ast.Inspect(v, func(n ast.Node) bool {
								if kv, ok := n.(*ast.KeyValueExpr); ok && r.Src(kv.Key) == "\"*packets.PublishPacket\"" {
									collect(kv.Value)
								}
								return true
							})
						}
					}
				}
			}
		}
		w.Line("/-- fields of *Client assigned while an inbound PUBLISH is processed (processPublish, pipelineWrapper,")
		w.Line("checkPublishLimit, the PublishPacket entry of processPacketMap): none — no memory between packets. -/")
		w.Line("def inboundPublishWritesClientFields : List String := %s", StrList(writes))

		return nil
	}})
}
