package main

// Regenerated tie by translation for the RateLimiter filter's `reload` (state carry-over per unchanged URL
// rule / policy; Extension resil, round 3) → module FactsC09IRr, proved equal to Model/RateLimiterFilter.reload.
// `createRateLimiterForURL` is the model's `createFor` (defaults tied by the fact `createDefaults`),
// `isSamePolicy` the model's `isSamePolicy`; a nil dereference (`setStateListenerForURL` on a nil limiter,
// a rule without a policy) aborts with `panicked := true`.

import "go/ast"

func init() {
	register(Extractor{Module: "FactsC09IRr", Imports: []string{"EgVerif.Model.RateLimiterFilter"}, Run: func(r *Repo, w *Lean) error {
		w.Line("set_option linter.unusedVariables false")
		w.Line("open EgVerif.RateLimiter EgVerif.RateLimiterFilter")
		w.Line("")
		const dflGen = "(⟨⟨[], \"\", []⟩, []⟩ : Gen)"
		const cur = "(⟨st_rls, st_heap, st_next, st_panicked⟩ : ReloadSt)"
		s := &irSpec{
			Name:    "reloadIR",
			Binders: "(newSpec : Spec) (pgen : Option Gen) (heap0 : Heap) (next0 : Nat)",
			BNames:  []string{"newSpec", "pgen", "heap0", "next0"},
			RetTy:   "ReloadSt",
			Recv:    irTerm{"()", "Filter"},
			Params:  []irTerm{{"pgen", "Gen?"}},
			State: []irLet{{"st_rls", "Rls", "([] : List (Option Nat))"}, {"st_heap", "Heap", "heap0"}, {"st_next", "Nat", "next0"},
				{"st_panicked", "Bool", "false"}, {"cur_rl", "Lim?", "(none : Option Nat)"}},
			LeanTy: map[string]string{"Rls": "List (Option Nat)", "Lim?": "Option Nat", "Gen?": "Option Gen", "Filter": "Unit", "FSpec": "Spec",
				"PGen": "Gen", "PrevURL": "URLRule × Option Nat", "RSt": "ReloadSt"},
			Fields: map[string]irField{
				"Filter.spec":       {Fmt: "newSpec", Ty: "FSpec"},
				"FSpec.URLs":        {Fmt: "%s.urls", Ty: "List URLRule"},
				"Gen?.spec":         {Fmt: "(%s.getD " + dflGen + ")", Ty: "PGen"},
				"PGen.URLs":         {Fmt: "(%[1]s.spec.urls.zip %[1]s.rls)", Ty: "List PrevURL"},
				"PrevURL.URLRule":   {Fmt: "%s.1", Ty: "URLRule"},
				"PrevURL.rl":        {Fmt: "%s.2", Ty: "Lim?"},
				"URLRule.PolicyRef": {Fmt: "%s.policyRef", Ty: "String"},
				"URLRule.rl":        {Fmt: "cur_rl", Ty: "Lim?", State: true},
			},
			Methods: map[string]irCall{
				// URLRule.DeepEqual is structural equality of the model's URLRule (tied: deepEqual_regenerated_from_source)
				"URLRule.DeepEqual": {Fmt: "(%[1]s == %[2]s)", Ty: "Bool", NArgs: 1},
			},
			Funcs: map[string]irCall{
				"isSamePolicy:FSpec": {Fmt: "(isSamePolicy %[1]s %[2]s.spec %[3]s)", Ty: "Bool", NArgs: 3},
			},
			StmtMethods: map[string]irStmtCall{
				"URLRule.Init": {NArgs: 0}, "Filter.bindPolicyToURL": {NArgs: 1},
			},
			EffMethods: map[string]irEffCall{
				// createRateLimiterForURL(u): a fresh limiter with the bound policy's settings; a rule whose policy
				// is missing dereferences nil
				"Filter.createRateLimiterForURL": {NArgs: 1, Fmt: "()", Ty: "Unit", Guard: "(bindPolicy newSpec %[2]s).isSome",
					Pre: []irLet{{"§tmp", "RSt", "(createFor newSpec %[2]s " + cur + ")"},
						{"st_rls", "Rls", "§tmp.rls"}, {"st_heap", "Heap", "§tmp.heap"}, {"st_next", "Nat", "§tmp.next"}}},
				// setStateListenerForURL(url): u.rl.SetStateListener(…) — nil limiter ⇒ panic; otherwise the rule
				// keeps the limiter it was just given
				"Filter.setStateListenerForURL": {NArgs: 1, Fmt: "()", Ty: "Unit", Guard: "cur_rl.isSome",
					Pre: []irLet{{"st_rls", "Rls", "(if cur_rl.isSome then st_rls ++ [cur_rl] else st_rls)"}}},
			},
			Panic:  "(⟨st_rls, st_heap, st_next, true⟩ : ReloadSt)",
			Ignore: func(src string, st ast.Stmt) bool { return false },
			Ret: func(v []irTerm) (string, error) {
				if len(v) != 0 {
					return "", errUnsupportedReturn
				}
				return cur, nil
			},
		}
		if err := irEmit(r, w, "pkg/filters/ratelimiter/ratelimiter.go", "RateLimiter", "reload", s,
			"`prev` = the previous generation (its spec and, per URL rule, its limiter); the result is the new generation's limiters, the heap\n"+
				"of limiter objects, the next fresh id and whether a nil pointer was dereferenced."); err != nil {
			return err
		}
		// isSamePolicy / bindPolicyToURL: policy lookup by name (first match, `break`), default reference
		polSpec := func(name string) *irSpec {
			ps := &irSpec{
				Name:   name,
				LeanTy: map[string]string{"FSpec": "Spec", "Pol?": "Option Pol", "Filter": "Unit"},
				GoTy:   map[string]string{"*Policy": "Pol?"},
				Zero:   map[string]string{"Pol?": "none"},
				Fields: map[string]irField{
					"FSpec.DefaultPolicyRef": {Fmt: "%s.defaultRef", Ty: "String"},
					"FSpec.Policies":         {Fmt: "%s.policies", Ty: "List Pol"},
					"Pol.Name":               {Fmt: "%s.name", Ty: "String"},
					"URLRule.PolicyRef":      {Fmt: "%s.policyRef", Ty: "String"},
					"URLRule.policy":         {Fmt: "u_policy", Ty: "Pol?", State: true},
					"Filter.spec":            {Fmt: "s", Ty: "FSpec"},
				},
				// reflect.DeepEqual on two *Policy: both nil, or the configured fields equal
				Funcs: map[string]irCall{"reflect.DeepEqual": {Fmt: "(%[1]s.map Pol.cfg == %[2]s.map Pol.cfg)", Ty: "Bool", NArgs: 2}},
			}
			ps.Ext.HookAssigns = true
			// `p1 = p` / `u.policy = p`: a *Policy variable takes the address of a list element
			ps.StmtHook = func(t *irT, st ast.Stmt, env *irEnv) ([]irLet, bool, error) {
				as, ok := st.(*ast.AssignStmt)
				if !ok || len(as.Lhs) != 1 || len(as.Rhs) != 1 || as.Tok.String() != "=" {
					return nil, false, nil
				}
				rhs, err := t.tryExpr(as.Rhs[0], env)
				if err != nil || rhs.Ty != "Pol" {
					return nil, false, nil
				}
				k, err := t.lhsKey(as.Lhs[0], env)
				if err != nil {
					return nil, false, nil
				}
				v, ok := env.vars[k]
				if !ok || v.Ty != "Pol?" {
					return nil, false, nil
				}
				return []irLet{{v.Lean, "Pol?", "(some " + rhs.S + ")"}}, true, nil
			}
			return ps
		}
		ps := polSpec("isSamePolicyIR")
		ps.Binders, ps.BNames, ps.RetTy = "(spec1 spec2 : Spec) (policyName : String)", []string{"spec1", "spec2", "policyName"}, "Bool"
		ps.Params = []irTerm{{"spec1", "FSpec"}, {"spec2", "FSpec"}, {"policyName", "String"}}
		ps.Ret = func(v []irTerm) (string, error) {
			if len(v) != 1 || v[0].Ty != "Bool" {
				return "", errUnsupportedReturn
			}
			return v[0].S, nil
		}
		if err := irEmit(r, w, "pkg/filters/ratelimiter/ratelimiter.go", "", "isSamePolicy", ps, ""); err != nil {
			return err
		}
		ps = polSpec("bindPolicyIR")
		ps.Binders, ps.BNames, ps.RetTy = "(s : Spec) (u : URLRule)", []string{"s", "u"}, "Option Pol"
		ps.Recv, ps.Params = irTerm{"()", "Filter"}, []irTerm{{"u", "URLRule"}}
		ps.State = []irLet{{"u_policy", "Pol?", "(none : Option Pol)"}}
		ps.Ret = func(v []irTerm) (string, error) {
			if len(v) != 0 {
				return "", errUnsupportedReturn
			}
			return "u_policy", nil
		}
		return irEmit(r, w, "pkg/filters/ratelimiter/ratelimiter.go", "RateLimiter", "bindPolicyToURL", ps, "Result: `u.policy` afterwards (`none` = left nil).")
	}})
}
