package main

// Regenerated tie by translation for C03 (irlib.go, notes/IR.md, notes/C03.md "Extension proxy"):
//
//   cloneHeader (pool.go)                       → Gen.FactsC03IR.cloneHeaderIR canon hop h        (+ 3 loop functions)
//   Server.checkAddrPattern (server.go)         → Gen.FactsC03IR.checkAddrIR isIP parsed old
//   serverPoolContext.prepareRequest (pool.go)  → Gen.FactsC03IR.prepareIR canon urlOK stub span svr mirror q
//   compression.acceptGzip / alreadyGziped / compress (compression.go)
//                                               → Gen.FactsC03IR.acceptGzipIR / alreadyGzipedIR / compressIR
//
// The theorems `<fn>_regenerated_from_source` (Proofs/ProxyIR.lean, re-exported by Props/C03.lean) prove the
// generated definitions equal to Model/Proxy.lean's cloneHeader / addrIsHostName / prepareRequest and
// Model/Framing.lean's acceptGzip / alreadyGzipped / proxyCompress for all inputs and oracles.

import (
	"fmt"
	"go/ast"
	"go/token"
)

// c03Hook: rune literals, `strings.Split(x, ",")`.
func c03Hook(t *irT, e ast.Expr, env *irEnv) (irTerm, bool, error) {
	switch x := e.(type) {
	case *ast.BasicLit:
		if x.Kind == token.CHAR {
			if len(x.Value) == 3 && x.Value[1] != '\\' && x.Value[1] >= 0x20 && x.Value[1] < 0x7f {
				return irTerm{x.Value, "Char"}, true, nil
			}
			return irTerm{}, true, fmt.Errorf("unsupported rune literal %s", x.Value)
		}
	case *ast.CallExpr:
		if t.r.Src(x.Fun) == "strings.Split" && len(x.Args) == 2 {
			if t.r.Src(x.Args[1]) != `","` {
				return irTerm{}, true, fmt.Errorf("strings.Split with separator %s", t.r.Src(x.Args[1]))
			}
			a, err := t.expr(x.Args[0], env)
			if err != nil {
				return irTerm{}, true, err
			}
			if a.Ty != "String" {
				return irTerm{}, true, fmt.Errorf("strings.Split of %s", a.Ty)
			}
			return irTerm{"(splitCommaS " + a.S + ")", "List String"}, true, nil
		}
	}
	return irTerm{}, false, nil
}

func c03RetOne(ty string) func(v []irTerm) (string, error) {
	return func(v []irTerm) (string, error) {
		if len(v) != 1 || v[0].Ty != ty {
			return "", errUnsupportedReturn
		}
		return v[0].S, nil
	}
}

func init() {
	register(Extractor{Module: "FactsC03IR", Imports: []string{"EgVerif.Model.Framing"}, Run: func(r *Repo, w *Lean) error {
		const pool = "pkg/filters/proxy/pool.go"
		const comp = "pkg/filters/proxy/compression.go"
		w.Line("set_option linter.unusedVariables false")
		w.Line("open EgVerif.Proxy")
		w.Line("")

		// ---- cloneHeader
		hdrDel := map[string]irStmtCall{"Hdr.Del": {NArgs: 1, Lets: []irLet{{"%[1]s", "Hdr", "(Hdr.del %[1]s (canon %[2]s))"}}}}
		cs := &irSpec{
			Name:        "cloneHeaderIR",
			Binders:     "(canon : String → String) (hop : List String) (h0 : Hdr)",
			BNames:      []string{"canon", "hop", "h0"},
			RetTy:       "Hdr",
			Params:      []irTerm{{"h0", "Hdr"}},
			Methods:     map[string]irCall{"Hdr.Clone": {Fmt: "%[1]s", Ty: "Hdr", NArgs: 0}},
			Index:       map[string]irCall{"Hdr": {Fmt: "(Hdr.get %[1]s %[2]s)", Ty: "List String"}},
			Funcs:       map[string]irCall{"textproto.TrimString": {Fmt: "(trimS %[1]s)", Ty: "String", NArgs: 1}},
			Consts:      map[string]irTerm{"hopHeaders": {"hop", "List String"}},
			StmtMethods: hdrDel,
			Hook:        c03Hook,
			Ret:         c03RetOne("Hdr"),
		}
		if err := irEmit(r, w, pool, "", "cloneHeader", cs,
			"`canon` is textproto.CanonicalMIMEHeaderKey (what `http.Header.Del` applies to its argument), `hop` the package variable `hopHeaders`."); err != nil {
			return err
		}

		// ---- Server.checkAddrPattern
		as := &irSpec{
			Name:    "checkAddrIR",
			Binders: "(isIP : List Char → Bool) (parsed : Option (List Char)) (old : Bool)",
			BNames:  []string{"isIP", "parsed", "old"},
			RetTy:   "Bool",
			Recv:    irTerm{"()", "Server"},
			State:   []irLet{{"res", "Bool", "old"}},
			LeanTy:  map[string]string{"URL": "Option (List Char)", "Chars": "List Char", "IP": "Option Unit", "RawURL": "Unit", "Server": "Unit"},
			Fields: map[string]irField{
				"Server.URL":            {Fmt: "()", Ty: "RawURL"},
				"Server.addrIsHostName": {Fmt: "res", Ty: "Bool", State: true},
				"URL.Host":              {Fmt: "(%s.getD [])", Ty: "Chars"},
			},
			Funcs: map[string]irCall{
				"url.Parse":             {Fmt: "(parsed, parsed.isNone)", Ty: "URL × Error", NArgs: 1},
				"strings.LastIndexByte": {Fmt: "(lastIndex %[2]s %[1]s)", Ty: "Int", NArgs: 2},
				"net.ParseIP":           {Fmt: "(parseIP isIP %[1]s)", Ty: "IP", NArgs: 1},
			},
			Index:      map[string]irCall{"Chars": {Fmt: "(%[1]s.getD (Int.toNat %[2]s) (Char.ofNat 0))", Ty: "Char"}},
			SliceTo:    map[string]irCall{"Chars": {Fmt: "(%[1]s.take (Int.toNat %[2]s))", Ty: "Chars"}},
			SliceRange: map[string]irCall{"Chars": {Fmt: "((%[1]s.take (Int.toNat %[3]s)).drop (Int.toNat %[2]s))", Ty: "Chars"}},
			Hook:       c03Hook,
			Ret: func(v []irTerm) (string, error) {
				if len(v) != 0 {
					return "", errUnsupportedReturn
				}
				return "res", nil
			},
		}
		if err := irEmit(r, w, "pkg/filters/proxy/server.go", "Server", "checkAddrPattern", as,
			"`parsed` is `url.Parse(s.URL)` reduced to `u.Host` (none = error), `isIP h` is `net.ParseIP(h) != nil`, `old` the previous value of `s.addrIsHostName`; result: its value afterwards."); err != nil {
			return err
		}

		// ---- prepareRequest
		ps := &irSpec{
			Name:    "prepareIR",
			Binders: "{π : Type} (canon : String → String) (urlOK : String → Bool) (stub : π) (span : Option Unit) (svr : ServerCfg) (mirror : Bool) (q : PReq π)",
			BNames:  []string{"canon", "urlOK", "stub", "span", "svr", "mirror", "q"},
			RetTy:   "Bool × Option (OutReq π)",
			Recv:    irTerm{"q", "SpCtx"},
			Params:  []irTerm{{"svr", "Server"}, {"()", "Ctx"}, {"mirror", "Bool"}},
			State:   []irLet{{"outHdr", "Hdr", "[]"}, {"outHost", "String", "\"\""}, {"stdReq", "OutReqPtr", "none"}},
			LeanTy: map[string]string{"SpCtx": "PReq π", "Req": "PReq π", "StdReq": "PReq π", "URL": "PReq π", "Server": "ServerCfg", "Ctx": "Unit",
				"Payload": "Option π", "OutReq": "OutReq π", "OutReqPtr": "Option (OutReq π)", "Span": "Option Unit"},
			GoTy: map[string]string{"io.Reader": "Payload"},
			Zero: map[string]string{"Payload": "none"},
			Fields: map[string]irField{
				"SpCtx.req":             {Fmt: "%s", Ty: "Req"},
				"SpCtx.span":            {Fmt: "span", Ty: "Span"},
				"StdReq.URL":            {Fmt: "%s", Ty: "URL"},
				"URL.RawQuery":          {Fmt: "%s.rawQuery", Ty: "String"},
				"Server.URL":            {Fmt: "%s.url", Ty: "String"},
				"Server.addrIsHostName": {Fmt: "%s.addrIsHostName", Ty: "Bool"},
				"Server.KeepHost":       {Fmt: "%s.keepHost", Ty: "Bool"},
				"OutReq.Header":         {Fmt: "outHdr", Ty: "Hdr", State: true},
				"OutReq.Host":           {Fmt: "outHost", Ty: "String", State: true},
			},
			Methods: map[string]irCall{
				"Req.Std":         {Fmt: "%[1]s", Ty: "StdReq", NArgs: 0},
				"URL.EscapedPath": {Fmt: "%[1]s.escapedPath", Ty: "String", NArgs: 0},
				"Req.IsStream":    {Fmt: "%[1]s.isStream", Ty: "Bool", NArgs: 0},
				"Req.GetPayload":  {Fmt: "(some %[1]s.payload)", Ty: "Payload", NArgs: 0},
				"Req.Method":      {Fmt: "%[1]s.method", Ty: "String", NArgs: 0},
				"Req.Host":        {Fmt: "%[1]s.host", Ty: "String", NArgs: 0},
				"Req.HTTPHeader":  {Fmt: "%[1]s.hdr", Ty: "Hdr", NArgs: 0},
			},
			Funcs: map[string]irCall{
				"strings.NewReader":          {Fmt: "(some stub)", Ty: "Payload", NArgs: 1},
				"http.NewRequestWithContext": {Fmt: "(newRequest urlOK %[2]s %[3]s %[4]s)", Ty: "OutReq × Error", NArgs: 4},
				"cloneHeader":                {Fmt: "(cloneHeader canon hopHeaders %[1]s)", Ty: "Hdr", NArgs: 1},
			},
			// spCtx.stdReq = stdr: the request as built so far (its Header / Host fields are the state variables)
			StmtHook: func(t *irT, s ast.Stmt, env *irEnv) ([]irLet, bool, error) {
				a, ok := s.(*ast.AssignStmt)
				if !ok || a.Tok != token.ASSIGN || len(a.Lhs) != 1 || len(a.Rhs) != 1 || t.r.Src(a.Lhs[0]) != "spCtx.stdReq" {
					return nil, false, nil
				}
				v, err := t.expr(a.Rhs[0], env)
				if err != nil {
					return nil, true, err
				}
				if v.Ty != "OutReq" {
					return nil, true, fmt.Errorf("spCtx.stdReq = %s : %s", v.S, v.Ty)
				}
				return []irLet{{"stdReq", "OutReqPtr", "(some { " + v.S + " with hdr := outHdr, host := outHost })"}}, true, nil
			},
			Ignore: irPrefixIgnore("spCtx.span.InjectHTTP("),
			Ret: func(v []irTerm) (string, error) {
				if len(v) != 1 {
					return "", errUnsupportedReturn
				}
				switch v[0].Ty {
				case "nil":
					return "(false, stdReq)", nil
				case "Error":
					return "(" + v[0].S + ", stdReq)", nil
				}
				return "", errUnsupportedReturn
			},
		}
		if err := irEmit(r, w, pool, "serverPoolContext", "prepareRequest", ps,
			"`q` is `spCtx.req`, `urlOK` the oracle \"http.NewRequestWithContext accepts this URL\", `stub` the constant reader sent to a mirror instead of a stream; result: (returned error, spCtx.stdReq). Tracing (`span.InjectHTTP`) is not modelled."); err != nil {
			return err
		}

		// ---- compression
		base := func(name, binders string, bnames []string, ret string) *irSpec {
			return &irSpec{
				Name: name, Binders: binders, BNames: bnames, RetTy: ret,
				Recv:   irTerm{"()", "Compression"},
				LeanTy: map[string]string{"Compression": "Unit", "ReqPtr": "Hdr", "RespPtr": "Hdr", "CSpec": "Unit", "Body": "Pl β"},
				Consts: map[string]irTerm{"keyAcceptEncoding": {"keyAE", "String"}, "keyContentEncoding": {"keyCE", "String"},
					"keyContentLength": {"keyCL", "String"}, "keyVary": {"keyVary", "String"}},
				Methods: map[string]irCall{"Hdr.Values": {Fmt: "(Hdr.get %[1]s %[2]s)", Ty: "List String", NArgs: 1}},
				Funcs: map[string]irCall{
					"strings.Contains": {Fmt: "(strContains %[1]s %[2]s)", Ty: "Bool", NArgs: 2},
					"len:List String":  {Fmt: "%[1]s.length", Ty: "Nat", NArgs: 1},
				},
				Ret: c03RetOne("Bool"),
			}
		}
		ag := base("acceptGzipIR", "(reqHdr : Hdr)", []string{"reqHdr"}, "Bool")
		ag.Params = []irTerm{{"reqHdr", "ReqPtr"}}
		ag.Fields = map[string]irField{"ReqPtr.Header": {Fmt: "%s", Ty: "Hdr"}}
		if err := irEmit(r, w, comp, "compression", "acceptGzip", ag, "`reqHdr` is the header of the outgoing request (`Values` of an already canonical key = map lookup)."); err != nil {
			return err
		}
		al := base("alreadyGzipedIR", "(respHdr : Hdr)", []string{"respHdr"}, "Bool")
		al.Params = []irTerm{{"respHdr", "RespPtr"}}
		al.Fields = map[string]irField{"RespPtr.Header": {Fmt: "%s", Ty: "Hdr"}}
		if err := irEmit(r, w, comp, "compression", "alreadyGziped", al, ""); err != nil {
			return err
		}
		cp := base("compressIR", "{β : Type} (ops : BodyOps β) (minLength : Nat) (reqHdr : Hdr) (r : Resp β)", []string{"ops", "minLength", "reqHdr", "r"}, "Bool × Resp β")
		cp.Params = []irTerm{{"reqHdr", "ReqPtr"}, {"r", "RespPtr"}}
		cp.State = []irLet{{"hdr", "Hdr", "r.hdr"}, {"cl", "Int", "r.cl"}, {"body", "Body", "r.payload"}}
		cp.Fields = map[string]irField{
			"RespPtr.Header":        {Fmt: "hdr", Ty: "Hdr", State: true},
			"RespPtr.ContentLength": {Fmt: "cl", Ty: "Int", State: true},
			"RespPtr.Body":          {Fmt: "body", Ty: "Body", State: true},
			"Compression.spec":      {Fmt: "()", Ty: "CSpec"},
			"CSpec.MinLength":       {Fmt: "minLength", Ty: "Nat"},
		}
		cp.Conv = map[string]irCall{"int64:Nat": {Fmt: "(Int.ofNat %s)", Ty: "Int"}}
		cp.Methods["Compression.acceptGzip"] = irCall{Fmt: "(acceptGzip %[2]s)", Ty: "Bool", NArgs: 1}
		cp.Methods["Compression.alreadyGziped"] = irCall{Fmt: "(alreadyGzipped hdr)", Ty: "Bool", NArgs: 1}
		cp.Funcs["readers.NewGZipCompressReader"] = irCall{Fmt: "(Pl.map ops.gz %[1]s)", Ty: "Body", NArgs: 1}
		cp.StmtMethods = map[string]irStmtCall{
			"Hdr.Del": {NArgs: 1, Lets: []irLet{{"%[1]s", "Hdr", "(Hdr.del %[1]s %[2]s)"}}},
			"Hdr.Set": {NArgs: 2, Lets: []irLet{{"%[1]s", "Hdr", "(Hdr.set %[1]s %[2]s %[3]s)"}}},
			"Hdr.Add": {NArgs: 2, Lets: []irLet{{"%[1]s", "Hdr", "(Hdr.add %[1]s %[2]s %[3]s)"}}},
		}
		cp.Ret = func(v []irTerm) (string, error) {
			if len(v) != 1 || v[0].Ty != "Bool" {
				return "", errUnsupportedReturn
			}
			return "(" + v[0].S + ", (⟨r.status, hdr, cl, body⟩ : Resp β))", nil
		}
		if err := irEmit(r, w, comp, "compression", "compress", cp,
			"`c.acceptGzip` / `c.alreadyGziped` are the model's functions (tied by their own theorems); the header keys are canonical constants; result: (returned bool, the response afterwards)."); err != nil {
			return err
		}

		// ---- pathadaptor.Adapt
		pa := &irSpec{
			Name:    "pathAdaptIR",
			Binders: "(σ : Nat → String → String → String) (pa : PathAd) (path : String)",
			BNames:  []string{"σ", "pa", "path"},
			RetTy:   "String",
			Recv:    irTerm{"pa", "PA"},
			Params:  []irTerm{{"path", "String"}},
			LeanTy:  map[string]string{"PA": "PathAd", "PASpec": "PathAd", "RR": "Option (Nat × String)", "Regexp": "Option Nat"},
			Fields: map[string]irField{
				"PA.spec":              {Fmt: "%s", Ty: "PASpec"},
				"PASpec.Replace":       {Fmt: "%s.replace", Ty: "String"},
				"PASpec.AddPrefix":     {Fmt: "%s.addPrefix", Ty: "String"},
				"PASpec.TrimPrefix":    {Fmt: "%s.trimPrefix", Ty: "String"},
				"PASpec.RegexpReplace": {Fmt: "%s.re", Ty: "RR"},
				"RR.re":                {Fmt: "(%s.map (·.1))", Ty: "Regexp"},
				"RR.Replace":           {Fmt: "((%s.map (·.2)).getD \"\")", Ty: "String"},
			},
			Methods: map[string]irCall{"Regexp.ReplaceAllString": {Fmt: "(σ (%[1]s.getD 0) %[2]s %[3]s)", Ty: "String", NArgs: 2}},
			Funcs: map[string]irCall{
				"len:String":         {Fmt: "%[1]s.length", Ty: "Nat", NArgs: 1},
				"strings.TrimPrefix": {Fmt: "(trimPrefixS %[1]s %[2]s)", Ty: "String", NArgs: 2},
			},
			Ret: c03RetOne("String"),
		}
		if err := irEmit(r, w, "pkg/util/pathadaptor/pathadaptor.go", "PathAdaptor", "Adapt", pa,
			"`pa.re` is (id of the compiled regexp, replacement), `none` when `RegexpReplace` or its compiled `re` is nil; `σ` is `ReplaceAllString`."); err != nil {
			return err
		}

		// ---- adaptHeader (requestadaptor.go and responseadaptor.go: the same three loops)
		adaptHdr := func(name, file string) error {
			hs := &irSpec{
				Name:    name,
				Binders: "(canon : String → String) (a : AdSpec) (h0 : Hdr)",
				BNames:  []string{"canon", "a", "h0"},
				RetTy:   "Hdr",
				Params:  []irTerm{{"h0", "Msg"}, {"a", "ASpec"}},
				LeanTy:  map[string]string{"Msg": "Hdr", "StdMsg": "Hdr", "ASpec": "AdSpec", "KVMap": "List (String × String)"},
				Methods: map[string]irCall{"Msg.Std": {Fmt: "%[1]s", Ty: "StdMsg", NArgs: 0}},
				Fields: map[string]irField{
					"StdMsg.Header": {Fmt: "%s", Ty: "Hdr"},
					"ASpec.Del":     {Fmt: "%s.hdel", Ty: "List String"},
					"ASpec.Set":     {Fmt: "%s.hset", Ty: "KVMap"},
					"ASpec.Add":     {Fmt: "%s.hadd", Ty: "KVMap"},
				},
				RangeKV: map[string][2]string{"KVMap": {"String", "String"}},
				StmtMethods: map[string]irStmtCall{
					"Hdr.Del": {NArgs: 1, Lets: []irLet{{"%[1]s", "Hdr", "(Hdr.del %[1]s (canon %[2]s))"}}},
					"Hdr.Set": {NArgs: 2, Lets: []irLet{{"%[1]s", "Hdr", "(Hdr.set %[1]s (canon %[2]s) %[3]s)"}}},
					"Hdr.Add": {NArgs: 2, Lets: []irLet{{"%[1]s", "Hdr", "(Hdr.add %[1]s (canon %[2]s) %[3]s)"}}},
				},
			}
			// `h := <msg>.Std().Header`: whatever the local is called, it aliases the message's header map and
			// its final value is the result
			alias := ""
			hs.StmtHook = func(t *irT, s ast.Stmt, env *irEnv) ([]irLet, bool, error) {
				if a, ok := s.(*ast.AssignStmt); ok && a.Tok == token.DEFINE && len(a.Lhs) == 1 && len(a.Rhs) == 1 {
					if se, ok := a.Rhs[0].(*ast.SelectorExpr); ok && se.Sel.Name == "Header" {
						if id, ok := a.Lhs[0].(*ast.Ident); ok {
							alias = id.Name
						}
					}
				}
				return nil, false, nil
			}
			hs.Ret = func(v []irTerm) (string, error) {
				if len(v) != 0 || alias == "" {
					return "", errUnsupportedReturn
				}
				return irIdent(alias), nil
			}
			return irEmit(r, w, file, "", "adaptHeader", hs,
				"`h` aliases the message's header map, so its final value is the message's header; the Go maps `Set` / `Add` are association lists (the result must not depend on their order: distinct keys). Result: the header afterwards.")
		}
		if err := adaptHdr("adaptReqHeaderIR", "pkg/filters/requestadaptor/requestadaptor.go"); err != nil {
			return err
		}
		if err := adaptHdr("adaptRespHeaderIR", "pkg/filters/responseadaptor/responseadaptor.go"); err != nil {
			return err
		}

		// ---- RequestAdaptor.Handle
		rs := &irSpec{
			Name: "handleReqAdIR",
			Binders: "{β : Type} (ops : BodyOps β) (σ : Nat → String → String → String) (a : ReqLineAd) (hsec : Option AdSpec) " +
				"(body compress decompress : String) (q : ReqLine) (m : ReqMsg β)",
			BNames: []string{"ops", "σ", "a", "hsec", "body", "compress", "decompress", "q", "m"},
			RetTy:  "String × (String × String × String) × ReqMsg β",
			Recv:   irTerm{"a", "RA"},
			Params: []irTerm{{"()", "Ctx"}},
			State: []irLet{{"rMethod", "String", "q.method"}, {"rPath", "String", "q.path"}, {"rHost", "String", "q.host"},
				{"rHdr", "Hdr", "m.hdr"}, {"rPayload", "Payload", "m.payload"}},
			LeanTy: map[string]string{"RA": "ReqLineAd", "RASpec": "ReqLineAd", "Ctx": "Unit", "Req": "Unit", "StdReq": "Unit", "Payload": "Pl β",
				"PAptr": "Option PathAd", "HdrSec": "Option AdSpec", "MsgS": "ReqMsg β × String"},
			Fields: map[string]irField{
				"RA.spec":           {Fmt: "%s", Ty: "RASpec"},
				"RA.pa":             {Fmt: "%s.path", Ty: "PAptr"},
				"RASpec.Method":     {Fmt: "%s.method", Ty: "String"},
				"RASpec.Host":       {Fmt: "%s.host", Ty: "String"},
				"RASpec.Header":     {Fmt: "hsec", Ty: "HdrSec"},
				"RASpec.Body":       {Fmt: "body", Ty: "String"},
				"RASpec.Compress":   {Fmt: "compress", Ty: "String"},
				"RASpec.Decompress": {Fmt: "decompress", Ty: "String"},
				"StdReq.Header":     {Fmt: "rHdr", Ty: "Hdr", State: true},
			},
			Methods: map[string]irCall{
				"Ctx.GetInputRequest": {Fmt: "()", Ty: "Req", NArgs: 0},
				"Req.Method":          {Fmt: "rMethod", Ty: "String", NArgs: 0},
				"Req.Path":            {Fmt: "rPath", Ty: "String", NArgs: 0},
				"Req.Std":             {Fmt: "()", Ty: "StdReq", NArgs: 0},
				"PAptr.Adapt":         {Fmt: "((%[1]s.getD {}).adapt σ %[2]s)", Ty: "String", NArgs: 1},
			},
			Funcs: map[string]irCall{"len:String": {Fmt: "%[1]s.length", Ty: "Nat", NArgs: 1}},
			Conv:  map[string]irCall{"[]byte:String": {Fmt: "(Pl.bytes (ops.ofStr %s))", Ty: "Payload"}},
			StmtMethods: map[string]irStmtCall{
				"Req.SetMethod":  {NArgs: 1, Lets: []irLet{{"rMethod", "String", "%[2]s"}}},
				"Req.SetPath":    {NArgs: 1, Lets: []irLet{{"rPath", "String", "%[2]s"}}},
				"Req.SetHost":    {NArgs: 1, Lets: []irLet{{"rHost", "String", "%[2]s"}}},
				"Req.SetPayload": {NArgs: 1, Lets: []irLet{{"rPayload", "Payload", "%[2]s"}}},
				"Hdr.Del":        {NArgs: 1, Lets: []irLet{{"%[1]s", "Hdr", "(Hdr.del %[1]s %[2]s)"}}},
			},
			StmtFuncs: map[string]irStmtCall{
				"adaptHeader": {NArgs: 2, Lets: []irLet{{"rHdr", "Hdr", "(adaptHeader (%[2]s.getD {}) rHdr)"}}},
			},
			EffMethods: map[string]irEffCall{
				"RA.processCompress": {NArgs: 1, Pre: []irLet{{"§tmp", "MsgS", "(reqCompressR ops ⟨rHdr, rPayload⟩)"},
					{"rHdr", "Hdr", "§tmp.1.hdr"}, {"rPayload", "Payload", "§tmp.1.payload"}}, Fmt: "§tmp.2", Ty: "String"},
				"RA.processDecompress": {NArgs: 1, Pre: []irLet{{"§tmp", "MsgS", "(reqDecompressR ops ⟨rHdr, rPayload⟩)"},
					{"rHdr", "Hdr", "§tmp.1.hdr"}, {"rPayload", "Payload", "§tmp.1.payload"}}, Fmt: "§tmp.2", Ty: "String"},
			},
			Hook: func(t *irT, e ast.Expr, env *irEnv) (irTerm, bool, error) {
				if ta, ok := e.(*ast.TypeAssertExpr); ok && t.r.Src(ta.Type) == "*httpprot.Request" {
					x, err := t.expr(ta.X, env)
					return x, true, err
				}
				return irTerm{}, false, nil
			},
			Ignore: irPrefixIgnore("ctx.AddTag("),
			Ret: func(v []irTerm) (string, error) {
				if len(v) != 1 || v[0].Ty != "String" {
					return "", errUnsupportedReturn
				}
				return "(" + v[0].S + ", (rMethod, rPath, rHost), (⟨rHdr, rPayload⟩ : ReqMsg β))", nil
			},
		}
		if err := irEmit(r, w, "pkg/filters/requestadaptor/requestadaptor.go", "RequestAdaptor", "Handle", rs,
			"`q` / `m` are the request line and message before the filter, `hsec` = `spec.Header` (none = nil), `body` / `compress` / `decompress` the spec strings; `processCompress` / `processDecompress` are the model's `reqCompressR` / `reqDecompressR`. Result: (filter result, (method, decoded path, host), message)."); err != nil {
			return err
		}

		// ---- ServerPool.handleMirror
		hm := &irSpec{
			Name: "handleMirrorIR",
			Binders: "{π : Type} (canon : String → String) (urlOK : String → Bool) (stub : π) (span : Option Unit) (chosen : Option ServerCfg) " +
				"(sendErr : Bool) (q : PReq π)",
			BNames: []string{"canon", "urlOK", "stub", "span", "chosen", "sendErr", "q"},
			RetTy:  "Option (OutReq π) × Option Unit",
			Recv:   irTerm{"()", "SP"},
			Params: []irTerm{{"()", "SpCtx"}},
			State:  []irLet{{"stdReq", "OutReqPtr", "none"}, {"sent", "OutReqPtr", "none"}, {"spResp", "RespPtr", "none"}},
			LeanTy: map[string]string{"SP": "Unit", "SpCtx": "Unit", "LB": "Unit", "Req": "PReq π", "Ctx": "Unit", "SvrPtr": "Option ServerCfg",
				"OutReqPtr": "Option (OutReq π)", "RespPtr": "Option Unit", "ProxyT": "Unit", "Client": "Unit", "Discard": "Unit", "Body": "Unit"},
			Fields: map[string]irField{
				"SpCtx.req":     {Fmt: "q", Ty: "Req"},
				"SpCtx.stdReq":  {Fmt: "stdReq", Ty: "OutReqPtr", State: true},
				"SpCtx.resp":    {Fmt: "spResp", Ty: "RespPtr", State: true},
				"SP.proxy":      {Fmt: "()", Ty: "ProxyT"},
				"ProxyT.client": {Fmt: "()", Ty: "Client"},
			},
			Methods: map[string]irCall{
				"SP.LoadBalancer": {Fmt: "()", Ty: "LB", NArgs: 0},
				"LB.ChooseServer": {Fmt: "chosen", Ty: "SvrPtr", NArgs: 1},
				"Req.Context":     {Fmt: "()", Ty: "Ctx", NArgs: 0},
			},
			EffMethods: map[string]irEffCall{
				"SpCtx.prepareRequest": {NArgs: 3, Pre: []irLet{
					{"§tmp", "Error × OutReqPtr", "(prepareIR canon urlOK stub span (%[2]s.getD ⟨\"\", \"\", false, false⟩) %[4]s q)"},
					{"stdReq", "OutReqPtr", "§tmp.2"}}, Fmt: "§tmp.1", Ty: "Error"},
			},
			EffFuncs: map[string]irEffCall{
				"fnSendRequest": {NArgs: 2, Pre: []irLet{{"sent", "OutReqPtr", "%[1]s"}}, Fmt: "((some ()), sendErr)", Ty: "RespPtr × Error"},
			},
			Ignore: irPrefixIgnore("logger.", "io.Copy(io.Discard, resp.Body)", "resp.Body.Close()"),
			Ret: func(v []irTerm) (string, error) {
				if len(v) != 0 {
					return "", errUnsupportedReturn
				}
				return "(sent, spResp)", nil
			},
		}
		if err := irEmit(r, w, pool, "ServerPool", "handleMirror", hm,
			"`chosen` = `sp.LoadBalancer().ChooseServer(…)` (none = nil), `sendErr` = fnSendRequest failed; result: (the request handed to fnSendRequest, `spCtx.resp`). The mirror's answer is drained and dropped (ignored statements)."); err != nil {
			return err
		}

		// ---- Proxy.Handle
		ph := &irSpec{
			Name:    "proxyHandleIR",
			Binders: "(mirror : Option (Nat × Bool)) (main : Nat × Bool) (cands : List (Nat × Bool))",
			BNames:  []string{"mirror", "main", "cands"},
			RetTy:   "Bool × Nat",
			Recv:    irTerm{"()", "ProxyT"},
			Params:  []irTerm{{"()", "Ctx"}},
			State:   []irLet{{"mirrored", "Bool", "false"}},
			LeanTy:  map[string]string{"ProxyT": "Unit", "Ctx": "Unit", "Req": "Unit", "Pool": "Nat × Bool", "PoolPtr": "Option (Nat × Bool)", "Filter": "Bool"},
			Fields: map[string]irField{
				"ProxyT.mirrorPool":     {Fmt: "mirror", Ty: "PoolPtr"},
				"ProxyT.mainPool":       {Fmt: "main", Ty: "Pool"},
				"ProxyT.candidatePools": {Fmt: "cands", Ty: "List Pool"},
				"PoolPtr.filter":        {Fmt: "((%s.map (·.2)).getD false)", Ty: "Filter"},
				"Pool.filter":           {Fmt: "%s.2", Ty: "Filter"},
			},
			Methods: map[string]irCall{
				"Ctx.GetInputRequest": {Fmt: "()", Ty: "Req", NArgs: 0},
				"Filter.Match":        {Fmt: "%[1]s", Ty: "Bool", NArgs: 1},
				"Pool.handle":         {Fmt: "%[1]s.1", Ty: "Nat", NArgs: 2},
			},
			Hook: rs.Hook,
			Ext:  irSpecExt{NamedResults: "ignore"}, // `(result string)` is never referred to
			// `if <cond> { go p.mirrorPool.handle(ctx, true) }`: the mirror pool is started iff cond
			StmtHook: func(t *irT, s ast.Stmt, env *irEnv) ([]irLet, bool, error) {
				is, ok := s.(*ast.IfStmt)
				if !ok || is.Init != nil || is.Else != nil || len(is.Body.List) != 1 {
					return nil, false, nil
				}
				gs, ok := is.Body.List[0].(*ast.GoStmt)
				if !ok {
					return nil, false, nil
				}
				if t.r.Src(gs.Call) != "p.mirrorPool.handle(ctx, true)" {
					return nil, true, fmt.Errorf("unexpected go statement %s", t.r.Src(gs))
				}
				c, err := t.expr(is.Cond, env)
				if err != nil {
					return nil, true, err
				}
				return []irLet{{"mirrored", "Bool", "(mirrored || " + c.S + ")"}}, true, nil
			},
			Ret: func(v []irTerm) (string, error) {
				if len(v) != 1 || v[0].Ty != "Nat" {
					return "", errUnsupportedReturn
				}
				return "(mirrored, " + v[0].S + ")", nil
			},
		}
		return irEmit(r, w, "pkg/filters/proxy/proxy.go", "Proxy", "Handle", ph,
			"A pool is (id, its filter matches the request); result: (mirror pool started, id of the pool whose `handle(ctx, false)` serves the request).")
	}})
}
