package main

// Facts for C11 (hot update). They are the regenerated tie for the atomicity
// assumptions of Model/HotUpdate.lean:
//
//   - a request performs exactly one m.inst.Load() (mux.ServeHTTP) and
//     everything else it calls reads the loaded *muxInstance only;
//   - nothing assigns to a field of muxInstance / muxRule / MuxPath outside the
//     constructors (newMux, mux.reload, newMuxRule, newMuxPath), and reload's
//     last statement is the single m.inst.Store(inst);
//   - one GetHandler call per request, not in a loop;
//   - which filter kinds' Inherit bodies mention the previous generation;
//   - RateLimiter.reload does not write to the previous generation;
//   - Pipeline.Inherit closes the previous generation after reload;
//   - the traffic controller's pipeline operations take tc.mutex before
//     touching any shared map, GetHandler does a single pipelines.Load.

import (
	"fmt"
	"go/ast"
	"go/token"
	"os"
	"path/filepath"
	"sort"
	"strings"
)

const c11MuxDir = "pkg/object/httpserver"

func c11PkgFiles(r *Repo, dir string) ([]string, error) {
	ents, err := os.ReadDir(filepath.Join(r.Root, dir))
	if err != nil {
		return nil, err
	}
	var out []string
	for _, e := range ents {
		n := e.Name()
		if e.IsDir() || !strings.HasSuffix(n, ".go") || strings.HasSuffix(n, "_test.go") {
			continue
		}
		out = append(out, filepath.Join(dir, n))
	}
	sort.Strings(out)
	return out, nil
}

type c11Func struct {
	recv string
	fd   *ast.FuncDecl
}

func c11TypeName(e ast.Expr) string {
	switch t := e.(type) {
	case *ast.StarExpr:
		return c11TypeName(t.X)
	case *ast.Ident:
		return t.Name
	case *ast.SelectorExpr:
		return c11TypeName(t.X) + "." + t.Sel.Name
	case *ast.ArrayType:
		return "[]" + c11TypeName(t.Elt)
	}
	return ""
}

func c11RootIdent(e ast.Expr) *ast.Ident {
	for {
		switch t := e.(type) {
		case *ast.Ident:
			return t
		case *ast.SelectorExpr:
			e = t.X
		case *ast.IndexExpr:
			e = t.X
		case *ast.StarExpr:
			e = t.X
		case *ast.ParenExpr:
			e = t.X
		case *ast.TypeAssertExpr:
			e = t.X
		case *ast.CallExpr:
			e = t.Fun
		default:
			return nil
		}
	}
}

// c11LastField returns the field name written by an assignment target such as
// a.b.c, a.b[i], a.b[i].c ("" if the target is a plain identifier).
func c11LastField(e ast.Expr) string {
	switch t := e.(type) {
	case *ast.SelectorExpr:
		return t.Sel.Name
	case *ast.IndexExpr:
		return c11LastField(t.X)
	case *ast.StarExpr:
		return c11LastField(t.X)
	case *ast.ParenExpr:
		return c11LastField(t.X)
	}
	return ""
}

func c11StructFields(f *ast.File, names map[string]bool) map[string]bool {
	out := map[string]bool{}
	ast.Inspect(f, func(n ast.Node) bool {
		ts, ok := n.(*ast.TypeSpec)
		if !ok || !names[ts.Name.Name] {
			return true
		}
		if st, ok := ts.Type.(*ast.StructType); ok {
			for _, fl := range st.Fields.List {
				for _, nm := range fl.Names {
					out[nm.Name] = true
				}
			}
		}
		return true
	})
	return out
}

func init() {
	register(Extractor{Module: "FactsC11", Run: func(r *Repo, w *Lean) error {
		files, err := c11PkgFiles(r, c11MuxDir)
		if err != nil {
			return err
		}
		// ---- package httpserver: declared functions by name
		byName := map[string][]c11Func{}
		var all []c11Func
		genTypes := map[string]bool{"muxInstance": true, "muxRule": true, "MuxPath": true}
		genFields := map[string]bool{}
		for _, rel := range files {
			f, err := r.File(rel)
			if err != nil {
				return err
			}
			for k := range c11StructFields(f, genTypes) {
				genFields[k] = true
			}
			for _, d := range f.Decls {
				if fd, ok := d.(*ast.FuncDecl); ok && fd.Body != nil {
					cf := c11Func{fd: fd}
					if fd.Recv != nil && len(fd.Recv.List) == 1 {
						cf.recv = recvName(fd.Recv.List[0].Type)
					}
					byName[fd.Name.Name] = append(byName[fd.Name.Name], cf)
					all = append(all, cf)
				}
			}
		}
		if len(genFields) < 10 {
			return fmt.Errorf("muxInstance/muxRule/MuxPath struct fields not found")
		}
		serve, err := r.Func(c11MuxDir+"/mux.go", "mux", "ServeHTTP")
		if err != nil {
			return err
		}
		// ---- call graph (by name, within the package) from mux.ServeHTTP
		reach := map[*ast.FuncDecl]bool{serve: true}
		work := []*ast.FuncDecl{serve}
		for len(work) > 0 {
			fd := work[0]
			work = work[1:]
			ast.Inspect(fd.Body, func(n ast.Node) bool {
				ce, ok := n.(*ast.CallExpr)
				if !ok {
					return true
				}
				name := ""
				switch t := ce.Fun.(type) {
				case *ast.Ident:
					name = t.Name
				case *ast.SelectorExpr:
					name = t.Sel.Name
				}
				for _, c := range byName[name] {
					// a selector call x.f() can only reach a method, a plain call only a function
					_, isSel := ce.Fun.(*ast.SelectorExpr)
					if isSel != (c.recv != "") {
						continue
					}
					if !reach[c.fd] {
						reach[c.fd] = true
						work = append(work, c.fd)
					}
				}
				return true
			})
		}
		loads, getHandlers, getHandlerInLoop := 0, 0, 0
		var reachNames []string
		for _, c := range all {
			if !reach[c.fd] {
				continue
			}
			reachNames = append(reachNames, c.recv+"."+c.fd.Name.Name)
			var loops []ast.Node
			var walk func(n ast.Node, inLoop bool)
			walk = func(n ast.Node, inLoop bool) {
				if n == nil {
					return
				}
				ast.Inspect(n, func(x ast.Node) bool {
					switch t := x.(type) {
					case *ast.ForStmt:
						if x != n {
							walk(t.Body, true)
							return false
						}
					case *ast.RangeStmt:
						if x != n {
							walk(t.Body, true)
							return false
						}
					case *ast.CallExpr:
						src := r.Src(t.Fun)
						if strings.HasSuffix(src, ".inst.Load") {
							loads++
						}
						if strings.HasSuffix(src, ".GetHandler") {
							getHandlers++
							if inLoop {
								getHandlerInLoop++
							}
						}
					}
					return true
				})
			}
			_ = loops
			walk(c.fd.Body, false)
		}
		sort.Strings(reachNames)
		w.Line("/-- functions of package httpserver reachable (by name) from `mux.ServeHTTP`. -/")
		w.Line("def muxRequestPath : List String := %s", StrList(reachNames))
		w.Line("/-- number of `….inst.Load()` calls in those functions (the single atomic Load of a request). -/")
		w.Line("def muxLoadsPerRequest : Nat := %d", loads)
		w.Line("/-- number of `….GetHandler(…)` calls in those functions (+100 for each one inside a loop). -/")
		w.Line("def getHandlerCallsPerRequest : Nat := %d", getHandlers+100*getHandlerInLoop)

		// ---- writes to generation objects outside the constructors
		ctors := map[string]bool{".newMux": true, "mux.reload": true, ".newMuxRule": true, ".newMuxPath": true}
		var writes []string
		for _, c := range all {
			key := c.recv + "." + c.fd.Name.Name
			if ctors[key] {
				continue
			}
			// identifiers whose declared type is a named type other than the generation types
			other := map[string]bool{}
			addField := func(fl *ast.FieldList) {
				if fl == nil {
					return
				}
				for _, f := range fl.List {
					tn := c11TypeName(f.Type)
					for _, nm := range f.Names {
						if tn != "" && !genTypes[strings.TrimPrefix(tn, "[]")] {
							other[nm.Name] = true
						}
					}
				}
			}
			addField(c.fd.Recv)
			addField(c.fd.Type.Params)
			ast.Inspect(c.fd.Body, func(n ast.Node) bool {
				check := func(lhs ast.Expr, tok string) {
					f := c11LastField(lhs)
					if f == "" || !genFields[f] {
						return
					}
					root := c11RootIdent(lhs)
					if root != nil && other[root.Name] {
						return
					}
					writes = append(writes, key+": "+r.Src(lhs)+" "+tok)
				}
				switch t := n.(type) {
				case *ast.AssignStmt:
					if t.Tok == token.DEFINE {
						return true
					}
					for _, l := range t.Lhs {
						check(l, t.Tok.String())
					}
				case *ast.IncDecStmt:
					check(t.X, t.Tok.String())
				}
				return true
			})
		}
		sort.Strings(writes)
		w.Line("/-- assignments to fields named like those of muxInstance/muxRule/MuxPath outside newMux, mux.reload,")
		w.Line("newMuxRule, newMuxPath whose target is not rooted in a variable of another declared type. -/")
		w.Line("def muxPostPublishWrites : List String := %s", StrList(writes))

		// ---- reload publishes last
		reload, err := r.Func(c11MuxDir+"/mux.go", "mux", "reload")
		if err != nil {
			return err
		}
		stores := r.CountCalls(reload.Body, "m.inst.Store")
		last := ""
		if n := len(reload.Body.List); n > 0 {
			last = r.Src(reload.Body.List[n-1])
		}
		w.Line("/-- `mux.reload` contains exactly one `m.inst.Store(…)` and it is its last statement. -/")
		w.Line("def reloadStoresLast : Bool := %s", Bool(stores == 1 && strings.HasPrefix(last, "m.inst.Store(")))

		// ---- reload builds the new instance from the new spec only
		oldNames := map[string]bool{}
		instLoads := 0
		ast.Inspect(reload.Body, func(n ast.Node) bool {
			if ce, ok := n.(*ast.CallExpr); ok && strings.HasSuffix(r.Src(ce.Fun), ".inst.Load") {
				instLoads++
			}
			as, ok := n.(*ast.AssignStmt)
			if !ok || as.Tok != token.DEFINE || len(as.Lhs) != len(as.Rhs) {
				return true
			}
			for i, rhs := range as.Rhs {
				if strings.Contains(r.Src(rhs), ".inst.Load()") {
					if id, ok := as.Lhs[i].(*ast.Ident); ok {
						oldNames[id.Name] = true
					}
				}
			}
			return true
		})
		if len(oldNames) == 0 && instLoads > 0 {
			return fmt.Errorf("mux.reload: the loaded previous instance is not bound to a variable")
		}
		allowedOld := map[string]bool{}
		for o := range oldNames {
			allowedOld[o+".tracer"] = true
			allowedOld[o+".tracer.Close"] = true
			allowedOld[o+".tracer.Close()"] = true
			allowedOld[o+".spec.Tracing"] = true
		}
		var oldUses []string
		var visit func(n ast.Node)
		visit = func(n ast.Node) {
			ast.Inspect(n, func(x ast.Node) bool {
				switch t := x.(type) {
				case *ast.SelectorExpr:
					if root := c11RootIdent(t); root != nil && oldNames[root.Name] {
						src := r.Src(t)
						if !allowedOld[src] {
							oldUses = append(oldUses, src)
						}
						return false // report the maximal selector only
					}
				case *ast.Ident:
					// a bare use (alias, argument, dereference) of the old instance
					if oldNames[t.Name] {
						oldUses = append(oldUses, t.Name)
					}
				case *ast.AssignStmt:
					// the defining occurrence itself is not a use
					if t.Tok == token.DEFINE {
						for i, l := range t.Lhs {
							if id, ok := l.(*ast.Ident); ok && oldNames[id.Name] && i < len(t.Rhs) {
								visit(t.Rhs[i])
								return false
							}
						}
					}
				}
				return true
			})
		}
		visit(reload.Body)
		sort.Strings(oldUses)
		w.Line("/-- number of `m.inst.Load()` calls in `mux.reload`. -/")
		w.Line("def reloadInstLoads : Nat := %d", instLoads)
		w.Line("/-- uses of the previous instance in `mux.reload` other than `.tracer`, `.tracer.Close()`, `.spec.Tracing`. -/")
		w.Line("def reloadOldInstUses : List String := %s", StrList(oldUses))
		// every value stored into the new instance's `cache` field is a variable defined by lru.NewARC(...)
		arcVars := map[string]bool{}
		ast.Inspect(reload.Body, func(n ast.Node) bool {
			as, ok := n.(*ast.AssignStmt)
			if !ok || as.Tok != token.DEFINE || len(as.Rhs) != 1 {
				return true
			}
			if ce, ok := as.Rhs[0].(*ast.CallExpr); ok && r.Src(ce.Fun) == "lru.NewARC" {
				if id, ok := as.Lhs[0].(*ast.Ident); ok {
					arcVars[id.Name] = true
				}
			}
			return true
		})
		cacheFresh := true
		var cacheSrcs []string
		ast.Inspect(reload.Body, func(n ast.Node) bool {
			switch t := n.(type) {
			case *ast.AssignStmt:
				for i, l := range t.Lhs {
					if c11LastField(l) == "cache" && i < len(t.Rhs) {
						cacheSrcs = append(cacheSrcs, r.Src(t.Rhs[i]))
						id, ok := t.Rhs[i].(*ast.Ident)
						if !ok || !arcVars[id.Name] {
							cacheFresh = false
						}
					}
				}
			case *ast.KeyValueExpr:
				if k, ok := t.Key.(*ast.Ident); ok && k.Name == "cache" {
					cacheSrcs = append(cacheSrcs, r.Src(t.Value))
					id, ok := t.Value.(*ast.Ident)
					if !ok || !arcVars[id.Name] {
						cacheFresh = false
					}
				}
			}
			return true
		})
		w.Line("/-- everything `mux.reload` stores into a `cache` field (%s) is a variable defined by `lru.NewARC(…)`. -/", strings.Join(cacheSrcs, ", "))
		w.Line("def reloadCacheFresh : Bool := %s", Bool(cacheFresh))

		// ---- filter kinds: does Inherit mention the previous generation?
		fdirs, err := os.ReadDir(filepath.Join(r.Root, "pkg/filters"))
		if err != nil {
			return err
		}
		type kv struct {
			k string
			v bool
		}
		var kinds []kv
		for _, d := range fdirs {
			if !d.IsDir() {
				continue
			}
			gofiles, err := c11PkgFiles(r, "pkg/filters/"+d.Name())
			if err != nil {
				return err
			}
			var found []kv
			for _, rel := range gofiles {
				f, err := r.File(rel)
				if err != nil {
					return err
				}
				for _, dd := range f.Decls {
					fd, ok := dd.(*ast.FuncDecl)
					if !ok || fd.Recv == nil || fd.Name.Name != "Inherit" || fd.Body == nil {
						continue
					}
					param := ""
					if fd.Type.Params != nil && len(fd.Type.Params.List) == 1 && len(fd.Type.Params.List[0].Names) == 1 {
						param = fd.Type.Params.List[0].Names[0].Name
					}
					mentions := false
					if param != "" && param != "_" {
						ast.Inspect(fd.Body, func(n ast.Node) bool {
							if id, ok := n.(*ast.Ident); ok && id.Name == param {
								mentions = true
							}
							return true
						})
					}
					found = append(found, kv{recvName(fd.Recv.List[0].Type), mentions})
				}
			}
			for _, f := range found {
				k := d.Name()
				if len(found) > 1 {
					k += "." + f.k
				}
				kinds = append(kinds, kv{k, f.v})
			}
		}
		if len(kinds) < 10 {
			return fmt.Errorf("only %d filter Inherit methods found", len(kinds))
		}
		sort.Slice(kinds, func(i, j int) bool { return kinds[i].k < kinds[j].k })
		var parts []string
		for _, k := range kinds {
			parts = append(parts, fmt.Sprintf("(%s, %s)", Str(k.k), Bool(k.v)))
		}
		w.Line("/-- per filter package (`.Type` appended when a package has several): does the body of `Inherit`")
		w.Line("mention its previous-generation parameter? -/")
		w.Line("def inheritTouchesPrev : List (String × Bool) := [%s]", strings.Join(parts, ", "))

		// ---- RateLimiter.reload: writes to the previous generation
		rlReload, err := r.Func("pkg/filters/ratelimiter/ratelimiter.go", "RateLimiter", "reload")
		if err != nil {
			return err
		}
		prevNames := map[string]bool{}
		if rlReload.Type.Params != nil {
			for _, f := range rlReload.Type.Params.List {
				for _, nm := range f.Names {
					prevNames[nm.Name] = true
				}
			}
		}
		if len(prevNames) != 1 {
			return fmt.Errorf("RateLimiter.reload: expected one parameter")
		}
		// range variables over something rooted in the previous generation alias its parts
		for changed := true; changed; {
			changed = false
			ast.Inspect(rlReload.Body, func(n ast.Node) bool {
				switch t := n.(type) {
				case *ast.RangeStmt:
					if root := c11RootIdent(t.X); root != nil && prevNames[root.Name] {
						for _, v := range []ast.Expr{t.Key, t.Value} {
							if id, ok := v.(*ast.Ident); ok && id.Name != "_" && !prevNames[id.Name] {
								prevNames[id.Name] = true
								changed = true
							}
						}
					}
				case *ast.AssignStmt:
					if t.Tok == token.DEFINE && len(t.Lhs) == len(t.Rhs) {
						for i, rhs := range t.Rhs {
							if root := c11RootIdent(rhs); root != nil && prevNames[root.Name] {
								if _, isCall := rhs.(*ast.CallExpr); isCall {
									continue
								}
								if id, ok := t.Lhs[i].(*ast.Ident); ok && !prevNames[id.Name] {
									prevNames[id.Name] = true
									changed = true
								}
							}
						}
					}
				}
				return true
			})
		}
		var prevWrites []string
		ast.Inspect(rlReload.Body, func(n ast.Node) bool {
			switch t := n.(type) {
			case *ast.AssignStmt:
				if t.Tok == token.DEFINE {
					return true
				}
				for _, l := range t.Lhs {
					if _, plain := l.(*ast.Ident); plain {
						continue
					}
					if root := c11RootIdent(l); root != nil && prevNames[root.Name] {
						prevWrites = append(prevWrites, r.Src(t))
					}
				}
			case *ast.IncDecStmt:
				if root := c11RootIdent(t.X); root != nil && prevNames[root.Name] {
					prevWrites = append(prevWrites, r.Src(t))
				}
			}
			return true
		})
		w.Line("/-- assignments in `RateLimiter.reload` whose target is rooted in the previous generation. -/")
		w.Line("def rateLimiterWritesPrev : List String := %s", StrList(prevWrites))

		// ---- Pipeline.Inherit: reload(previous) first, previous.Close() afterwards
		pin, err := r.Func("pkg/object/pipeline/pipeline.go", "Pipeline", "Inherit")
		if err != nil {
			return err
		}
		iReload, iClose := -1, -1
		for i, st := range pin.Body.List {
			s := r.Src(st)
			if strings.HasPrefix(s, "p.reload(") && iReload < 0 {
				iReload = i
			}
			if strings.HasSuffix(s, ".Close()") && iClose < 0 {
				iClose = i
			}
		}
		prl, err := r.Func("pkg/object/pipeline/pipeline.go", "Pipeline", "reload")
		if err != nil {
			return err
		}
		closeInReload := 0
		ast.Inspect(prl.Body, func(n ast.Node) bool {
			if ce, ok := n.(*ast.CallExpr); ok && strings.HasSuffix(r.Src(ce.Fun), ".Close") {
				closeInReload++
			}
			return true
		})
		w.Line("/-- `Pipeline.Inherit`: `p.reload(previous)` precedes `previous.Close()`, and `reload` closes nothing. -/")
		w.Line("def pipelineClosesPrevAfterReload : Bool := %s", Bool(iReload >= 0 && iClose > iReload && closeInReload == 0))

		// ---- traffic controller
		tcFile := "pkg/object/trafficcontroller/trafficcontroller.go"
		var tparts []string
		for _, name := range []string{"CreatePipeline", "UpdatePipeline", "ApplyPipeline", "DeletePipeline"} {
			fd, err := r.Func(tcFile, "TrafficController", name)
			if err != nil {
				return err
			}
			ok := false
			for i, st := range fd.Body.List {
				s := r.Src(st)
				if s == "tc.mutex.Lock()" {
					ok = i+1 < len(fd.Body.List) && r.Src(fd.Body.List[i+1]) == "defer tc.mutex.Unlock()"
					break
				}
				if strings.Contains(s, "namespaces") || strings.Contains(s, "pipelines") || strings.Contains(s, "space") && !strings.Contains(s, "namespace ==") {
					break // shared state touched before the lock
				}
			}
			tparts = append(tparts, fmt.Sprintf("(%s, %s)", Str(name), Bool(ok)))
		}
		w.Line("/-- the pipeline operations take `tc.mutex` (with deferred unlock) before touching shared state. -/")
		w.Line("def tcOpsLockFirst : List (String × Bool) := [%s]", strings.Join(tparts, ", "))
		gh, err := r.Func(tcFile, "Namespace", "GetHandler")
		if err != nil {
			return err
		}
		nsCalls, nsLoads := 0, 0
		ast.Inspect(gh.Body, func(n ast.Node) bool {
			if ce, ok := n.(*ast.CallExpr); ok {
				s := r.Src(ce.Fun)
				if strings.HasPrefix(s, "ns.") {
					nsCalls++
					if s == "ns.pipelines.Load" {
						nsLoads++
					}
				}
			}
			return true
		})
		w.Line("/-- `Namespace.GetHandler`: number of `ns.pipelines.Load` calls (+100 per other access to `ns`). -/")
		w.Line("def tcGetHandlerLoads : Nat := %d", nsLoads+100*(nsCalls-nsLoads))
		if err := c11KindInventory(r, w); err != nil {
			return err
		}
		return nil
	}})
}

// ---------------------------------------------------------------------------
// Inventory of registered kinds (extension `auth11`): every `filters.Register(k)` under pkg/filters
// is resolved to (kind name, package, build constraint, type created by CreateInstance, does that
// type's Inherit mention the previous generation); every `supervisor.Register(&T{})` under
// pkg/object to (T, package). A registration that cannot be resolved FAILS the extraction, so a
// kind registered in a new way cannot escape the classification obligation of Props/C11.lean.

type c11Kind struct {
	name, pkg, tag, typ string
	touches             bool
}

func c11BuildTag(f *ast.File) string {
	for _, cg := range f.Comments {
		if cg.Pos() >= f.Package {
			break
		}
		for _, c := range cg.List {
			if strings.HasPrefix(c.Text, "//go:build ") {
				return strings.TrimSpace(strings.TrimPrefix(c.Text, "//go:build "))
			}
		}
	}
	return ""
}

func c11KindInventory(r *Repo, w *Lean) error {
	fdirs, err := os.ReadDir(filepath.Join(r.Root, "pkg/filters"))
	if err != nil {
		return err
	}
	var kinds []c11Kind
	for _, d := range fdirs {
		if !d.IsDir() {
			continue
		}
		dir := "pkg/filters/" + d.Name()
		gofiles, err := c11PkgFiles(r, dir)
		if err != nil {
			return err
		}
		// package-level values and Inherit methods of the whole package
		vals := map[string]ast.Expr{}
		inherit := map[string]*ast.FuncDecl{}
		var files []*ast.File
		for _, rel := range gofiles {
			f, err := r.File(rel)
			if err != nil {
				return err
			}
			files = append(files, f)
			for _, dd := range f.Decls {
				switch t := dd.(type) {
				case *ast.GenDecl:
					for _, sp := range t.Specs {
						if vs, ok := sp.(*ast.ValueSpec); ok {
							for i, n := range vs.Names {
								if i < len(vs.Values) {
									vals[n.Name] = vs.Values[i]
								}
							}
						}
					}
				case *ast.FuncDecl:
					if t.Recv != nil && len(t.Recv.List) == 1 && t.Name.Name == "Inherit" && t.Body != nil {
						inherit[recvName(t.Recv.List[0].Type)] = t
					}
				}
			}
		}
		for _, f := range files {
			tag := c11BuildTag(f)
			var ferr error
			ast.Inspect(f, func(n ast.Node) bool {
				ce, ok := n.(*ast.CallExpr)
				if !ok || ferr != nil {
					return true
				}
				if fun := r.Src(ce.Fun); fun != "filters.Register" {
					if strings.HasSuffix(fun, ".Register") && strings.HasPrefix(fun, "filters") {
						ferr = fmt.Errorf("%s: unrecognised registration %s", dir, fun)
					}
					return true
				}
				if len(ce.Args) != 1 {
					ferr = fmt.Errorf("%s: filters.Register with %d arguments", dir, len(ce.Args))
					return true
				}
				arg := ce.Args[0]
				if id, ok := arg.(*ast.Ident); ok {
					v, ok := vals[id.Name]
					if !ok {
						ferr = fmt.Errorf("%s: filters.Register(%s): no package-level value", dir, id.Name)
						return true
					}
					arg = v
				}
				if ue, ok := arg.(*ast.UnaryExpr); ok {
					arg = ue.X
				}
				cl, ok := arg.(*ast.CompositeLit)
				if !ok {
					ferr = fmt.Errorf("%s: filters.Register: argument is not a &filters.Kind{…} literal", dir)
					return true
				}
				k := c11Kind{pkg: d.Name(), tag: tag}
				for _, el := range cl.Elts {
					kv, ok := el.(*ast.KeyValueExpr)
					if !ok {
						continue
					}
					switch r.Src(kv.Key) {
					case "Name":
						val := kv.Value
						if id, ok := val.(*ast.Ident); ok {
							if v, ok := vals[id.Name]; ok {
								val = v
							}
						}
						if bl, ok := val.(*ast.BasicLit); ok && bl.Kind == token.STRING {
							k.name = strings.Trim(bl.Value, "\"`")
						}
					case "CreateInstance":
						ast.Inspect(kv.Value, func(x ast.Node) bool {
							if c, ok := x.(*ast.CompositeLit); ok && k.typ == "" {
								k.typ = c11TypeName(c.Type)
							}
							return true
						})
					}
				}
				fd := inherit[k.typ]
				if k.name == "" || k.typ == "" || fd == nil {
					ferr = fmt.Errorf("%s: filters.Register: cannot resolve kind name / created type / its Inherit (name %q type %q)", dir, k.name, k.typ)
					return true
				}
				if fd.Type.Params != nil && len(fd.Type.Params.List) == 1 && len(fd.Type.Params.List[0].Names) == 1 {
					if param := fd.Type.Params.List[0].Names[0].Name; param != "_" {
						ast.Inspect(fd.Body, func(x ast.Node) bool {
							if id, ok := x.(*ast.Ident); ok && id.Name == param {
								k.touches = true
							}
							return true
						})
					}
				} else {
					ferr = fmt.Errorf("%s: %s.Inherit: unexpected parameter list", dir, k.typ)
				}
				kinds = append(kinds, k)
				return true
			})
			if ferr != nil {
				return ferr
			}
		}
	}
	if len(kinds) < 10 {
		return fmt.Errorf("only %d registered filter kinds found", len(kinds))
	}
	sort.Slice(kinds, func(i, j int) bool { return kinds[i].name < kinds[j].name })
	var names, pkgs, touch, tags []string
	for _, k := range kinds {
		names = append(names, k.name)
		pkgs = append(pkgs, fmt.Sprintf("(%s, %s)", Str(k.name), Str(k.pkg+"."+k.typ)))
		touch = append(touch, fmt.Sprintf("(%s, %s)", Str(k.name), Bool(k.touches)))
		if k.tag != "" {
			tags = append(tags, fmt.Sprintf("(%s, %s)", Str(k.name), Str(k.tag)))
		}
	}
	w.Line("/-- names of all filter kinds registered with `filters.Register` under pkg/filters (sorted). -/")
	w.Line("def filterKinds : List String := %s", StrList(names))
	w.Line("/-- kind name ↦ package.Type created by its `CreateInstance`. -/")
	w.Line("def filterKindImpl : List (String × String) := [%s]", strings.Join(pkgs, ", "))
	w.Line("/-- kind name ↦ does the body of that type's `Inherit` mention its previous-generation parameter? -/")
	w.Line("def filterKindTouchesPrev : List (String × Bool) := [%s]", strings.Join(touch, ", "))
	w.Line("/-- kinds whose registering file carries a `//go:build` constraint (not part of a default build). -/")
	w.Line("def filterKindBuildTag : List (String × String) := [%s]", strings.Join(tags, ", "))

	if err := c11CloseHandleFacts(r, w, kinds); err != nil {
		return err
	}

	// ---- object kinds
	odirs, err := os.ReadDir(filepath.Join(r.Root, "pkg/object"))
	if err != nil {
		return err
	}
	var objs []string
	for _, d := range odirs {
		if !d.IsDir() {
			continue
		}
		dir := "pkg/object/" + d.Name()
		gofiles, err := c11PkgFiles(r, dir)
		if err != nil {
			return err
		}
		for _, rel := range gofiles {
			f, err := r.File(rel)
			if err != nil {
				return err
			}
			var ferr error
			ast.Inspect(f, func(n ast.Node) bool {
				ce, ok := n.(*ast.CallExpr)
				if !ok || r.Src(ce.Fun) != "supervisor.Register" {
					return true
				}
				tn := ""
				if len(ce.Args) == 1 {
					if ue, ok := ce.Args[0].(*ast.UnaryExpr); ok {
						if cl, ok := ue.X.(*ast.CompositeLit); ok {
							tn = c11TypeName(cl.Type)
						}
					}
				}
				if tn == "" {
					ferr = fmt.Errorf("%s: supervisor.Register: argument is not &T{}", dir)
					return true
				}
				objs = append(objs, tn)
				return true
			})
			if ferr != nil {
				return ferr
			}
		}
	}
	if len(objs) < 10 {
		return fmt.Errorf("only %d registered object kinds found", len(objs))
	}
	sort.Strings(objs)
	w.Line("/-- types registered with `supervisor.Register(&T{})` under pkg/object (sorted). -/")
	w.Line("def objectKinds : List String := %s", StrList(objs))
	return nil
}

// ---------------------------------------------------------------------------
// Close / Handle interference per filter kind (extension auth11, round 2; AUDIT P1 item 4).
//
// For the type T a kind's CreateInstance builds (package-local analysis, by name, best effort —
// what it over-approximates is stated below; it never looks into other packages):
//
//   handleReads(T)  = receiver fields mentioned in T.Handle and, transitively, in the same-package
//                     functions / methods of T it calls (func literals included);
//   closeTouches(T) = least set W with
//       (1) fields of the receiver that T.Close (and its same-package callees) assigns, passes to
//           the builtin close(), calls as a function value (`hl.cancel()`), or calls a method on
//           (`k.producer.Close()` — any method call on a field counts as touching it);
//       (2) fields assigned together with a touched field by one multi-value call
//           (`hl.stopCtx, hl.cancel = context.WithCancel(…)`);
//       (3) for every function / method / func literal of the package that WAITS on a touched field
//           (`<-k.done`, `<-hl.stopCtx.Done()`): the fields touched (as in (1), also through local
//           aliases `producer := …; k.producer = producer`) by the code that runs after the wait —
//           the body of the select clause when the wait is a `case`, else the rest of the function.
//
// closeWritesHandleReads(kind) = closeTouches ∩ handleReads. Empty ⇒ nothing Close (or a goroutine
// it wakes) changes is ever looked at by Handle.

type c11FnInfo struct {
	name string
	recv string // receiver variable name ("" for plain functions)
	typ  string // receiver type
	body *ast.BlockStmt
}

func c11RecvField(e ast.Expr, recv string) string {
	// e is rooted at `recv.f…` : returns f
	for {
		switch t := e.(type) {
		case *ast.SelectorExpr:
			if id, ok := t.X.(*ast.Ident); ok && id.Name == recv {
				return t.Sel.Name
			}
			e = t.X
		case *ast.IndexExpr:
			e = t.X
		case *ast.StarExpr:
			e = t.X
		case *ast.ParenExpr:
			e = t.X
		case *ast.CallExpr:
			e = t.Fun
		case *ast.TypeAssertExpr:
			e = t.X
		default:
			return ""
		}
	}
}

func c11CloseHandleFacts(r *Repo, w *Lean, kinds []c11Kind) error {
	var reads, touches, inter []string
	for _, k := range kinds {
		dir := "pkg/filters/" + k.pkg
		gofiles, err := c11PkgFiles(r, dir)
		if err != nil {
			return err
		}
		var fns []c11FnInfo
		fields := map[string]bool{}
		// T and the same-package struct types it embeds (their methods are promoted: builder.Builder)
		types := map[string]bool{k.typ: true}
		for _, rel := range gofiles {
			f, err := r.File(rel)
			if err != nil {
				return err
			}
			ast.Inspect(f, func(n ast.Node) bool {
				ts, ok := n.(*ast.TypeSpec)
				if !ok || ts.Name.Name != k.typ {
					return true
				}
				if st, ok := ts.Type.(*ast.StructType); ok {
					for _, fl := range st.Fields.List {
						if len(fl.Names) == 0 {
							if tn := c11TypeName(fl.Type); tn != "" && !strings.Contains(tn, ".") {
								types[tn] = true
							}
						}
					}
				}
				return true
			})
		}
		for _, rel := range gofiles {
			f, err := r.File(rel)
			if err != nil {
				return err
			}
			for fn := range c11StructFields(f, types) {
				fields[fn] = true
			}
			for _, dd := range f.Decls {
				fd, ok := dd.(*ast.FuncDecl)
				if !ok || fd.Body == nil {
					continue
				}
				fi := c11FnInfo{name: fd.Name.Name, body: fd.Body}
				if fd.Recv != nil && len(fd.Recv.List) == 1 {
					fi.typ = recvName(fd.Recv.List[0].Type)
					if len(fd.Recv.List[0].Names) == 1 {
						fi.recv = fd.Recv.List[0].Names[0].Name
					}
				}
				fns = append(fns, fi)
			}
		}
		find := func(name string, method bool) *c11FnInfo {
			for i := range fns {
				if fns[i].name == name && types[fns[i].typ] == method && (method || fns[i].typ == "") {
					return &fns[i]
				}
			}
			return nil
		}
		// reachable functions from a method of T (same package, by name)
		reach := func(start string) []*c11FnInfo {
			var out []*c11FnInfo
			seen := map[*c11FnInfo]bool{}
			var visit func(fi *c11FnInfo)
			visit = func(fi *c11FnInfo) {
				if fi == nil || seen[fi] {
					return
				}
				seen[fi] = true
				out = append(out, fi)
				ast.Inspect(fi.body, func(n ast.Node) bool {
					ce, ok := n.(*ast.CallExpr)
					if !ok {
						return true
					}
					switch t := ce.Fun.(type) {
					case *ast.Ident:
						visit(find(t.Name, false))
					case *ast.SelectorExpr:
						if id, ok := t.X.(*ast.Ident); ok && fi.recv != "" && id.Name == fi.recv {
							visit(find(t.Sel.Name, true))
						}
					}
					return true
				})
			}
			visit(find(start, true))
			return out
		}
		// ---- handleReads
		hr := map[string]bool{}
		hfns := reach("Handle")
		if len(hfns) == 0 {
			return fmt.Errorf("%s: %s.Handle not found", dir, k.typ)
		}
		for _, fi := range hfns {
			if fi.recv == "" {
				continue
			}
			ast.Inspect(fi.body, func(n ast.Node) bool {
				if se, ok := n.(*ast.SelectorExpr); ok {
					if id, ok := se.X.(*ast.Ident); ok && id.Name == fi.recv && fields[se.Sel.Name] {
						hr[se.Sel.Name] = true
					}
				}
				return true
			})
		}
		// ---- touched fields of a node (assign / close() / call of a func-valued field / method call on a field)
		touchedIn := func(n ast.Node, recv string, alias map[string]string) map[string]bool {
			out := map[string]bool{}
			fieldOf := func(e ast.Expr) string {
				if f := c11RecvField(e, recv); f != "" && fields[f] {
					return f
				}
				if root := c11RootIdent(e); root != nil {
					if f, ok := alias[root.Name]; ok {
						return f
					}
				}
				return ""
			}
			if n == nil {
				return out
			}
			ast.Inspect(n, func(x ast.Node) bool {
				switch t := x.(type) {
				case *ast.AssignStmt:
					if t.Tok == token.DEFINE {
						return true
					}
					for _, l := range t.Lhs {
						if _, plain := l.(*ast.Ident); plain {
							continue
						}
						if f := fieldOf(l); f != "" {
							out[f] = true
						}
					}
				case *ast.IncDecStmt:
					if f := fieldOf(t.X); f != "" {
						out[f] = true
					}
				case *ast.CallExpr:
					if id, ok := t.Fun.(*ast.Ident); ok && id.Name == "close" && len(t.Args) == 1 {
						if f := fieldOf(t.Args[0]); f != "" {
							out[f] = true
						}
					}
					if se, ok := t.Fun.(*ast.SelectorExpr); ok {
						// recv.f(...) : call of a func-valued field; recv.f.M(...) / alias.M(...): method call on a field
						if id, ok := se.X.(*ast.Ident); ok && id.Name == recv {
							if fields[se.Sel.Name] {
								out[se.Sel.Name] = true
							}
						} else if f := fieldOf(se.X); f != "" {
							out[f] = true
						}
					}
				}
				return true
			})
			return out
		}
		// local aliases of receiver fields inside one function: `x := recv.f`, `recv.f = x`
		aliasesOf := func(fi *c11FnInfo) map[string]string {
			al := map[string]string{}
			if fi.recv == "" {
				return al
			}
			ast.Inspect(fi.body, func(n ast.Node) bool {
				as, ok := n.(*ast.AssignStmt)
				if !ok || len(as.Lhs) != len(as.Rhs) {
					return true
				}
				for i := range as.Lhs {
					if id, ok := as.Rhs[i].(*ast.Ident); ok {
						if f := c11RecvField(as.Lhs[i], fi.recv); f != "" && fields[f] {
							if _, isSel := as.Lhs[i].(*ast.SelectorExpr); isSel {
								al[id.Name] = f
							}
						}
					}
					if id, ok := as.Lhs[i].(*ast.Ident); ok {
						if se, ok := as.Rhs[i].(*ast.SelectorExpr); ok {
							if f := c11RecvField(se, fi.recv); f != "" && fields[f] && se.Sel.Name == f {
								al[id.Name] = f
							}
						}
					}
				}
				return true
			})
			return al
		}
		W := map[string]bool{}
		cfns := reach("Close")
		if len(cfns) == 0 {
			return fmt.Errorf("%s: %s.Close not found", dir, k.typ)
		}
		for _, fi := range cfns {
			for f := range touchedIn(fi.body, fi.recv, aliasesOf(fi)) {
				W[f] = true
			}
		}
		for changed := true; changed; {
			changed = false
			add := func(f string) {
				if !W[f] {
					W[f] = true
					changed = true
				}
			}
			for i := range fns {
				fi := &fns[i]
				if fi.recv == "" || !types[fi.typ] {
					continue
				}
				al := aliasesOf(fi)
				// (2) fields assigned together by one multi-value call
				ast.Inspect(fi.body, func(n ast.Node) bool {
					as, ok := n.(*ast.AssignStmt)
					if !ok || len(as.Lhs) < 2 || len(as.Rhs) != 1 {
						return true
					}
					var fs []string
					hit := false
					for _, l := range as.Lhs {
						if f := c11RecvField(l, fi.recv); f != "" && fields[f] {
							fs = append(fs, f)
							hit = hit || W[f]
						}
					}
					if hit {
						for _, f := range fs {
							add(f)
						}
					}
					return true
				})
				// (3) waits on a touched field
				waitsOn := func(e ast.Expr) bool {
					ue, ok := e.(*ast.UnaryExpr)
					if !ok || ue.Op != token.ARROW {
						return false
					}
					f := c11RecvField(ue.X, fi.recv)
					if f == "" {
						if root := c11RootIdent(ue.X); root != nil {
							f = al[root.Name]
						}
					}
					return f != "" && W[f]
				}
				var scan func(list []ast.Stmt)
				scan = func(list []ast.Stmt) {
					for idx, st := range list {
						// a bare wait: everything after it in this block runs once the field fires
						waited := false
						ast.Inspect(st, func(n ast.Node) bool {
							switch t := n.(type) {
							case *ast.CommClause:
								comm := ast.Expr(nil)
								switch c := t.Comm.(type) {
								case *ast.ExprStmt:
									comm = c.X
								case *ast.AssignStmt:
									if len(c.Rhs) == 1 {
										comm = c.Rhs[0]
									}
								}
								if comm != nil && waitsOn(comm) {
									for _, b := range t.Body {
										for f := range touchedIn(b, fi.recv, al) {
											add(f)
										}
									}
								}
								for _, b := range t.Body {
									scan([]ast.Stmt{b})
								}
								return false
							case *ast.UnaryExpr:
								if waitsOn(t) {
									waited = true
								}
							case *ast.BlockStmt:
								if n != st {
									scan(t.List)
									return false
								}
							}
							return true
						})
						if waited {
							for _, rest := range list[idx:] {
								for f := range touchedIn(rest, fi.recv, al) {
									add(f)
								}
							}
						}
					}
				}
				scan(fi.body.List)
			}
		}
		toList := func(m map[string]bool) []string {
			var l []string
			for f := range m {
				l = append(l, f)
			}
			sort.Strings(l)
			return l
		}
		var both []string
		for f := range W {
			if hr[f] {
				both = append(both, f)
			}
		}
		sort.Strings(both)
		reads = append(reads, fmt.Sprintf("(%s, %s)", Str(k.name), StrList(toList(hr))))
		touches = append(touches, fmt.Sprintf("(%s, %s)", Str(k.name), StrList(toList(W))))
		inter = append(inter, fmt.Sprintf("(%s, %s)", Str(k.name), StrList(both)))
	}
	w.Line("/-- kind ↦ receiver fields mentioned in `Handle` and its same-package callees. -/")
	w.Line("def handleReads : List (String × List String) := [%s]", strings.Join(reads, ", "))
	w.Line("/-- kind ↦ receiver fields `Close` (its same-package callees, and the goroutines that wait on a field it")
	w.Line("touches) assigns, close()s, calls, or calls a method on. -/")
	w.Line("def closeTouches : List (String × List String) := [%s]", strings.Join(touches, ", "))
	w.Line("/-- kind ↦ closeTouches ∩ handleReads. -/")
	w.Line("def closeWritesHandleReads : List (String × List String) := [%s]", strings.Join(inter, ", "))

	// ---- the Kafka kinds' repaired shape: the send on the producer's input is guarded by a flag that
	// Close sets (under the write lock) before it lets the producer shut down
	var guarded []string
	for _, k := range kinds {
		if k.pkg != "kafka" && k.pkg != "kafkabackend" {
			continue
		}
		ok, why := c11KafkaSendGuarded(r, "pkg/filters/"+k.pkg+"/kafka.go", k.typ)
		w.Line("-- %s: %s", k.name, why)
		guarded = append(guarded, fmt.Sprintf("(%s, %s)", Str(k.name), Bool(ok)))
	}
	w.Line("/-- Kafka kinds: in `Handle` every `….Input() <- msg` is preceded, in its block, by a read-lock and by")
	w.Line("`if recv.F { return … }`, where `Close` assigns `recv.F = true` between `Lock()` and `Unlock()` before `close(recv.done)`. -/")
	w.Line("def kafkaSendGuarded : List (String × Bool) := [%s]", strings.Join(guarded, ", "))
	if err := c11PipelineReloadFacts(r, w); err != nil {
		return err
	}
	if err := c11RouteHandlerFacts(r, w); err != nil {
		return err
	}
	return c11ValidatorFreshCache(r, w)
}

// c11PipelineReloadFacts: the shape of Pipeline.reload's loop over p.spec.Filters that the resilience
// model rests on (every filter of generation g is a new instance injected with generation g's policies):
//
//   - the variable stored by `p.filters[…] = X` is defined exactly once in the loop body, at its top
//     level, as `X := filters.Create(spec)`, and never assigned again;
//   - at the top level of the same loop body there is `if r, ok := X.(filters.Resiliencer); ok { … }`
//     whose body calls `r.InjectResiliencePolicy(p.resilience)`;
//   - the previous generation (reload's parameter) is used only as `<param> != nil` and
//     `<param>.getFilter(…)`, and the variable holding that result only as `== nil` / `!= nil` and as
//     the argument of `X.Inherit(…)`: no filter instance of the previous generation can be stored
//     into the new one. Every other use is listed.
func c11PipelineReloadFacts(r *Repo, w *Lean) error {
	fd, err := r.Func("pkg/object/pipeline/pipeline.go", "Pipeline", "reload")
	if err != nil {
		return err
	}
	if fd.Type.Params == nil || len(fd.Type.Params.List) != 1 || len(fd.Type.Params.List[0].Names) != 1 || len(fd.Recv.List[0].Names) != 1 {
		return fmt.Errorf("Pipeline.reload: unexpected signature")
	}
	recv := fd.Recv.List[0].Names[0].Name
	prevParam := fd.Type.Params.List[0].Names[0].Name
	var loop *ast.RangeStmt
	for _, st := range fd.Body.List {
		if rs, ok := st.(*ast.RangeStmt); ok && r.Src(rs.X) == recv+".spec.Filters" {
			loop = rs
		}
	}
	if loop == nil {
		return fmt.Errorf("Pipeline.reload: loop over %s.spec.Filters not found", recv)
	}
	// the stored variable
	stored := ""
	nStores := 0
	ast.Inspect(fd.Body, func(n ast.Node) bool {
		as, ok := n.(*ast.AssignStmt)
		if !ok {
			return true
		}
		for i, l := range as.Lhs {
			if ie, ok := l.(*ast.IndexExpr); ok && r.Src(ie.X) == recv+".filters" && i < len(as.Rhs) {
				nStores++
				if id, ok := as.Rhs[i].(*ast.Ident); ok {
					stored = id.Name
				} else {
					stored = "?" + r.Src(as.Rhs[i])
				}
			}
		}
		return true
	})
	created, injected := false, false
	defs := 0
	prevVars := map[string]bool{}
	for _, st := range loop.Body.List {
		switch t := st.(type) {
		case *ast.AssignStmt:
			if t.Tok == token.DEFINE && len(t.Lhs) == 1 && len(t.Rhs) == 1 && r.Src(t.Lhs[0]) == stored && r.Src(t.Rhs[0]) == "filters.Create(spec)" {
				created = true
			}
		case *ast.IfStmt:
			if as, ok := t.Init.(*ast.AssignStmt); ok && len(as.Rhs) == 1 && r.Src(as.Rhs[0]) == stored+".(filters.Resiliencer)" && len(as.Lhs) == 2 && r.Src(t.Cond) == r.Src(as.Lhs[1]) {
				rv := r.Src(as.Lhs[0])
				for _, b := range t.Body.List {
					if r.Src(b) == rv+".InjectResiliencePolicy("+recv+".resilience)" {
						injected = true
					}
				}
			}
		}
	}
	ast.Inspect(loop.Body, func(n ast.Node) bool {
		if as, ok := n.(*ast.AssignStmt); ok {
			for i, l := range as.Lhs {
				if id, ok := l.(*ast.Ident); ok && id.Name == stored {
					defs++
				}
				// variables that receive something of the previous generation
				if i < len(as.Rhs) || len(as.Rhs) == 1 {
					rhs := as.Rhs[0]
					if i < len(as.Rhs) {
						rhs = as.Rhs[i]
					}
					if root := c11RootIdent(rhs); root != nil && root.Name == prevParam {
						if id, ok := l.(*ast.Ident); ok {
							prevVars[id.Name] = true
						}
					}
				}
			}
		}
		return true
	})
	// uses of the previous generation and of the variables holding parts of it
	var leaks []string
	var visit func(n ast.Node, parent ast.Node)
	allowed := func(e ast.Expr, parent ast.Node) bool {
		switch p := parent.(type) {
		case *ast.BinaryExpr:
			return (p.Op == token.EQL || p.Op == token.NEQ) && (r.Src(p.X) == "nil" || r.Src(p.Y) == "nil")
		case *ast.SelectorExpr:
			return r.Src(e) == prevParam && p.Sel.Name == "getFilter"
		case *ast.CallExpr:
			if se, ok := p.Fun.(*ast.SelectorExpr); ok && r.Src(se.X) == stored && se.Sel.Name == "Inherit" && r.Src(e) != prevParam {
				return true
			}
			// <param>.getFilter(...) itself
			if se, ok := p.Fun.(*ast.SelectorExpr); ok && r.Src(se.X) == prevParam && se.Sel.Name == "getFilter" {
				return true
			}
		case *ast.AssignStmt:
			for _, l := range p.Lhs { // the defining / assigning occurrence of a prevVar
				if l == e {
					return true
				}
			}
		case *ast.ValueSpec:
			return true
		}
		return false
	}
	visit = func(n ast.Node, parent ast.Node) {
		if n == nil {
			return
		}
		if id, ok := n.(*ast.Ident); ok && (id.Name == prevParam || prevVars[id.Name]) {
			if !allowed(id, parent) {
				leaks = append(leaks, r.Src(parent))
			}
			return
		}
		var children []ast.Node
		ast.Inspect(n, func(c ast.Node) bool {
			if c == n {
				return true
			}
			if c != nil {
				children = append(children, c)
			}
			return false
		})
		for _, c := range children {
			visit(c, n)
		}
	}
	visit(fd.Body, fd)
	sort.Strings(leaks)
	ok := created && injected && defs == 1 && nStores == 1 && !strings.HasPrefix(stored, "?")
	w.Line("-- Pipeline.reload: stored variable %q, created by filters.Create at loop top level: %v, definitions/assignments in the loop: %d, InjectResiliencePolicy at loop top level: %v, stores into %s.filters: %d", stored, created, defs, injected, recv, nStores)
	w.Line("/-- `Pipeline.reload`: every filter stored into the new generation is a fresh `filters.Create(spec)` instance and")
	w.Line("`InjectResiliencePolicy(p.resilience)` is called on it (if it is a Resiliencer) at the top level of the same loop. -/")
	w.Line("def pipelineReloadInjectsEveryFilter : Bool := %s", Bool(ok))
	w.Line("/-- uses of the previous generation (or of what `getFilter` returned from it) in `Pipeline.reload` other than")
	w.Line("nil tests, `.getFilter(…)` and the argument of `<new filter>.Inherit(…)`. -/")
	w.Line("def pipelineReloadPrevLeaks : List String := %s", StrList(leaks))
	return nil
}

// c11ValidatorFreshCache: every assignment to `<recv>.basicAuth` in the methods of Validator is a call of
// NewBasicAuthValidator(…) none of whose arguments mentions a parameter of the enclosing method (so
// nothing of a previous generation can flow into the new generation's user cache); Init / Inherit /
// reload are where the assignments are expected.
func c11ValidatorFreshCache(r *Repo, w *Lean) error {
	const rel = "pkg/filters/validator/validator.go"
	ms, err := r.Methods(rel, "Validator")
	if err != nil {
		return err
	}
	var bad []string
	n := 0
	for _, fd := range ms {
		if fd.Body == nil || len(fd.Recv.List[0].Names) != 1 {
			continue
		}
		recv := fd.Recv.List[0].Names[0].Name
		params := map[string]bool{}
		if fd.Type.Params != nil {
			for _, f := range fd.Type.Params.List {
				for _, nm := range f.Names {
					params[nm.Name] = true
				}
			}
		}
		ast.Inspect(fd.Body, func(x ast.Node) bool {
			as, ok := x.(*ast.AssignStmt)
			if !ok {
				return true
			}
			for i, l := range as.Lhs {
				se, ok := l.(*ast.SelectorExpr)
				if !ok || se.Sel.Name != "basicAuth" || r.Src(se.X) != recv || i >= len(as.Rhs) {
					continue
				}
				n++
				rhs := as.Rhs[i]
				ce, isCall := rhs.(*ast.CallExpr)
				fresh := isCall && r.Src(ce.Fun) == "NewBasicAuthValidator"
				if fresh {
					ast.Inspect(ce, func(y ast.Node) bool {
						if id, ok := y.(*ast.Ident); ok && params[id.Name] {
							fresh = false
						}
						return true
					})
				}
				if !fresh {
					bad = append(bad, fd.Name.Name+": "+r.Src(as))
				}
			}
			return true
		})
	}
	if n == 0 {
		return fmt.Errorf("%s: no assignment to the Validator's basicAuth found", rel)
	}
	sort.Strings(bad)
	w.Line("/-- assignments to `<recv>.basicAuth` in Validator's methods (%d in all) that are NOT a fresh", n)
	w.Line("`NewBasicAuthValidator(…)` built without any parameter of the enclosing method. -/")
	w.Line("def validatorBasicAuthNotFresh : List String := %s", StrList(bad))
	w.Line("def validatorInheritFreshCache : Bool := %s", Bool(len(bad) == 0))
	return nil
}

func c11KafkaSendGuarded(r *Repo, rel, typ string) (bool, string) {
	hd, err := r.Func(rel, typ, "Handle")
	if err != nil {
		return false, err.Error()
	}
	cl, err := r.Func(rel, typ, "Close")
	if err != nil {
		return false, err.Error()
	}
	recvOf := func(fd *ast.FuncDecl) string {
		if len(fd.Recv.List[0].Names) == 1 {
			return fd.Recv.List[0].Names[0].Name
		}
		return ""
	}
	// Close: flags assigned true while locked, before close(recv.done)
	cr := recvOf(cl)
	flags := map[string]bool{}
	locked, closedDone := false, false
	for _, st := range cl.Body.List {
		src := r.Src(st)
		switch {
		case strings.HasPrefix(src, cr+".") && strings.HasSuffix(src, ".Lock()"):
			locked = true
		case strings.HasPrefix(src, cr+".") && strings.HasSuffix(src, ".Unlock()"):
			locked = false
		case strings.HasPrefix(src, "close("+cr+"."):
			closedDone = true
		default:
			if as, ok := st.(*ast.AssignStmt); ok && as.Tok == token.ASSIGN && len(as.Lhs) == 1 && r.Src(as.Rhs[0]) == "true" && locked && !closedDone {
				if se, ok := as.Lhs[0].(*ast.SelectorExpr); ok && r.Src(se.X) == cr {
					flags[se.Sel.Name] = true
				}
			}
		}
	}
	if !closedDone {
		return false, "Close does not close(recv.done)"
	}
	// Handle: every send on ….Input() is guarded
	hr := recvOf(hd)
	sends, good := 0, 0
	var walk func(list []ast.Stmt)
	walk = func(list []ast.Stmt) {
		for i, st := range list {
			if ss, ok := st.(*ast.SendStmt); ok && strings.HasSuffix(r.Src(ss.Chan), ".Input()") {
				sends++
				rl, fl := false, false
				for _, prev := range list[:i] {
					src := r.Src(prev)
					if strings.HasPrefix(src, hr+".") && (strings.HasSuffix(src, ".RLock()") || strings.HasSuffix(src, ".Lock()")) {
						rl = true
					}
					if is, ok := prev.(*ast.IfStmt); ok && rl && is.Init == nil && is.Else == nil && len(is.Body.List) > 0 {
						if se, ok := is.Cond.(*ast.SelectorExpr); ok && r.Src(se.X) == hr && flags[se.Sel.Name] {
							if _, isRet := is.Body.List[len(is.Body.List)-1].(*ast.ReturnStmt); isRet {
								fl = true
							}
						}
					}
				}
				if rl && fl {
					good++
				}
			}
			ast.Inspect(st, func(n ast.Node) bool {
				if b, ok := n.(*ast.BlockStmt); ok {
					walk(b.List)
					return false
				}
				return true
			})
		}
	}
	walk(hd.Body.List)
	return sends > 0 && sends == good, fmt.Sprintf("sends on Input(): %d, guarded: %d, flags set by Close: %d", sends, good, len(flags))
}

// c11RouteHandlerFacts (final round): the handler behind a route is looked up per request.
//   - `<recv>.muxMapper.GetHandler(…)` is called by a TOP-LEVEL statement of muxInstance.serveHTTP (so on
//     every request that reaches that point, cache hit or miss — not inside a branch, not in a helper);
//   - the struct type `route` (what the route cache stores) has no field that could hold a handler:
//     no atomic.Value / sync.* / interface / func / context.Handler typed field.
func c11RouteHandlerFacts(r *Repo, w *Lean) error {
	const rel = c11MuxDir + "/mux.go"
	fd, err := r.Func(rel, "muxInstance", "serveHTTP")
	if err != nil {
		return err
	}
	top, all := 0, 0
	for _, st := range fd.Body.List {
		direct := false
		switch t := st.(type) {
		case *ast.AssignStmt:
			for _, rhs := range t.Rhs {
				if ce, ok := rhs.(*ast.CallExpr); ok && strings.HasSuffix(r.Src(ce.Fun), ".muxMapper.GetHandler") {
					direct = true
				}
			}
		case *ast.ExprStmt:
			if ce, ok := t.X.(*ast.CallExpr); ok && strings.HasSuffix(r.Src(ce.Fun), ".muxMapper.GetHandler") {
				direct = true
			}
		}
		if direct {
			top++
		}
	}
	ast.Inspect(fd.Body, func(n ast.Node) bool {
		if ce, ok := n.(*ast.CallExpr); ok && strings.HasSuffix(r.Src(ce.Fun), ".GetHandler") {
			all++
		}
		return true
	})
	f, err := r.File(rel)
	if err != nil {
		return err
	}
	var fields, holders []string
	found := false
	ast.Inspect(f, func(n ast.Node) bool {
		ts, ok := n.(*ast.TypeSpec)
		if !ok || ts.Name.Name != "route" {
			return true
		}
		st, ok := ts.Type.(*ast.StructType)
		if !ok {
			return true
		}
		found = true
		for _, fl := range st.Fields.List {
			ty := r.Src(fl.Type)
			names := []string{"(embedded)"}
			if len(fl.Names) > 0 {
				names = nil
				for _, nm := range fl.Names {
					names = append(names, nm.Name)
				}
			}
			for _, nm := range names {
				fields = append(fields, nm+": "+ty)
				if strings.Contains(ty, "atomic.") || strings.Contains(ty, "sync.") || strings.Contains(ty, "interface") ||
					strings.Contains(ty, "func(") || strings.Contains(ty, "Handler") {
					holders = append(holders, nm+": "+ty)
				}
			}
		}
		return true
	})
	if !found {
		return fmt.Errorf("%s: struct type route not found", rel)
	}
	w.Line("/-- top-level statements of `muxInstance.serveHTTP` that call `….muxMapper.GetHandler(…)` directly. -/")
	w.Line("def serveHTTPGetHandlerTopLevel : Nat := %d", top)
	w.Line("/-- all `….GetHandler(…)` calls in `muxInstance.serveHTTP`. -/")
	w.Line("def serveHTTPGetHandlerCalls : Nat := %d", all)
	w.Line("/-- fields of the cached `route` struct. -/")
	w.Line("def routeFields : List String := %s", StrList(fields))
	w.Line("/-- … those whose type could hold a handler (atomic.* / sync.* / interface / func / …Handler). -/")
	w.Line("def routeHandlerHolderFields : List String := %s", StrList(holders))
	return nil
}
