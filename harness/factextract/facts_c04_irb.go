package main

// Regenerated tie by translation for C04, second part (Extension resil, notes/C04.md): the functions
// around the five ChooseServer bodies —
//
//   NewLoadBalancer (policy dispatch)                          → newLoadBalancerIR  = newLB
//   new{Random,RoundRobin,IPHash,HeaderHash}LoadBalancer       → new…IR             = the list handed in
//   newWeightedRandomLoadBalancer (sum of positive weights)    → newWeightedIR      = (list, totalWeight)
//   ServerPool.createLoadBalancer (default spec, one Store)    → createLoadBalancerIR
//   ServerPool.LoadBalancer (one Load)                         → loadBalancerIR
//   ServerPool.useService (tag filter, static fallback)        → useServiceIR       = useService
//
// Module FactsC04IRb (separate from FactsC04IR so that the older obligations do not depend on it).

import (
	"fmt"
	"go/ast"
	"go/token"
	"strconv"
)

// c04ServersOfLit digs the value of the `Servers:` key out of `&T{BaseLoadBalancer: BaseLoadBalancer{Servers: x}, …}`.
func c04ServersOfLit(cl *ast.CompositeLit) ast.Expr {
	for _, el := range cl.Elts {
		kv, ok := el.(*ast.KeyValueExpr)
		if !ok {
			return nil
		}
		k, _ := kv.Key.(*ast.Ident)
		if k == nil {
			return nil
		}
		switch k.Name {
		case "Servers":
			return kv.Value
		case "BaseLoadBalancer":
			if in, ok := kv.Value.(*ast.CompositeLit); ok {
				return c04ServersOfLit(in)
			}
		}
	}
	return nil
}

func c04bSpec(r *Repo, name string) (*irSpec, error) {
	consts := map[string]irTerm{}
	for _, c := range []string{"LoadBalancePolicyRoundRobin", "LoadBalancePolicyRandom", "LoadBalancePolicyWeightedRandom",
		"LoadBalancePolicyIPHash", "LoadBalancePolicyHeaderHash"} {
		e, err := r.PkgValue("pkg/filters/proxy/loadbalance.go", c)
		if err != nil {
			return nil, err
		}
		bl, ok := e.(*ast.BasicLit)
		if !ok || bl.Kind != token.STRING {
			return nil, fmt.Errorf("%s is not a string literal", c)
		}
		v, err := strconv.Unquote(bl.Value)
		if err != nil {
			return nil, err
		}
		consts[c] = irTerm{Str(v), "String"}
	}
	lb := func(p string) irCall {
		return irCall{Fmt: "(⟨Policy." + p + ", %[1]s⟩ : LB)", Ty: "LB", NArgs: 1}
	}
	s := &irSpec{
		Name:   name,
		Consts: consts,
		LeanTy: map[string]string{"LBSpec": "String", "LBSpec?": "Option String", "LB?": "Option LB", "Pool": "Unit", "PSpec": "PoolSpec",
			"AtomicLB": "Unit", "Servers": "List Server", "WRLB": "List Server", "BaseLB": "List Server", "Req": "Unit"},
		Fields: map[string]irField{
			"LBSpec.Policy":         {Fmt: "%s", Ty: "String"},
			"LBSpec.HeaderHashKey":  {Fmt: "\"key\"", Ty: "String"},
			"WRLB.totalWeight":      {Fmt: "tw", Ty: "Int", State: true},
			"Server.Weight":         {Fmt: "%s.weight", Ty: "Int"},
			"Pool.loadBalancer":     {Fmt: "()", Ty: "AtomicLB"},
			"Pool.spec":             {Fmt: "sps", Ty: "PSpec"},
			"PSpec.LoadBalance":     {Fmt: "lbspec", Ty: "LBSpec?"},
			"PSpec.ServerTags":      {Fmt: "%s.serverTags", Ty: "List String"},
			"PSpec.Servers":         {Fmt: "%s.servers", Ty: "List Server"},
			"PSpec.ServiceRegistry": {Fmt: "\"\"", Ty: "String"},
			"PSpec.ServiceName":     {Fmt: "%s.serviceName", Ty: "String"},
			"Instance.Tags":         {Fmt: "%s.tags", Ty: "List String"},
			"Instance.Weight":       {Fmt: "%s.weight", Ty: "Int"},
		},
		Funcs: map[string]irCall{
			"newRoundRobinLoadBalancer":     lb("roundRobin"),
			"newRandomLoadBalancer":         lb("random"),
			"newWeightedRandomLoadBalancer": lb("weightedRandom"),
			"newIPHashLoadBalancer":         lb("ipHash"),
			"newHeaderHashLoadBalancer":     {Fmt: "(⟨Policy.headerHash, %[1]s⟩ : LB)", Ty: "LB", NArgs: 2},
			"NewLoadBalancer":               {Fmt: "(newLB (%[1]s.getD \"\") %[2]s)", Ty: "LB", NArgs: 2},
			"stringtool.StrInSlice":         {Fmt: "(%[2]s.contains %[1]s)", Ty: "Bool", NArgs: 2},
			"append:List Server":            {Fmt: "(%[1]s ++ [%[2]s])", Ty: "List Server", NArgs: 2},
			"len:List Server":               {Fmt: "(%[1]s.length : Int)", Ty: "Int", NArgs: 1},
		},
		Methods: map[string]irCall{
			"Instance.URL":  {Fmt: "%[1]s.url", Ty: "String", NArgs: 0},
			"AtomicLB.Load": {Fmt: "current", Ty: "Any", NArgs: 0},
		},
		StmtMethods: map[string]irStmtCall{
			"Server.checkAddrPattern": {NArgs: 0},
			"AtomicLB.Store":          {NArgs: 1, Lets: []irLet{{"published", "LB?", "(some %[2]s)"}}},
			"Pool.createLoadBalancer": {NArgs: 1, Lets: []irLet{{"published", "List Server", "%[2]s"}}},
		},
		Ignore: func(src string, st ast.Stmt) bool {
			if es, ok := st.(*ast.ExprStmt); ok {
				if ce, ok := es.X.(*ast.CallExpr); ok {
					if se, ok := ce.Fun.(*ast.SelectorExpr); ok {
						if id, ok := se.X.(*ast.Ident); ok && id.Name == "logger" {
							return true
						}
					}
				}
			}
			return false
		},
	}
	s.Hook = func(t *irT, e ast.Expr, env *irEnv) (irTerm, bool, error) {
		switch x := e.(type) {
		case *ast.UnaryExpr:
			cl, ok := x.X.(*ast.CompositeLit)
			if !ok || x.Op != token.AND {
				break
			}
			switch t.r.Src(cl.Type) {
			case "randomLoadBalancer", "roundRobinLoadBalancer", "WeightedRandomLoadBalancer", "ipHashLoadBalancer", "headerHashLoadBalancer":
				// the balancer value is represented by the server list it stores
				sv := c04ServersOfLit(cl)
				if sv == nil {
					return irTerm{}, true, fmt.Errorf("no Servers in %s", t.r.Src(cl))
				}
				v, err := t.expr(sv, env)
				if err != nil {
					return irTerm{}, true, err
				}
				if v.Ty != "List Server" {
					return irTerm{}, true, fmt.Errorf("Servers: %s", v.Ty)
				}
				return irTerm{v.S, "WRLB"}, true, nil
			case "LoadBalanceSpec":
				if len(cl.Elts) == 0 {
					return irTerm{"(some \"\")", "LBSpec?"}, true, nil
				}
			case "Server":
				// &Server{URL: u, Tags: t, Weight: w}
				got := map[string]irTerm{}
				for _, el := range cl.Elts {
					kv, ok := el.(*ast.KeyValueExpr)
					if !ok {
						return irTerm{}, true, fmt.Errorf("unkeyed Server literal")
					}
					v, err := t.expr(kv.Value, env)
					if err != nil {
						return irTerm{}, true, err
					}
					got[t.r.Src(kv.Key)] = v
				}
				u, w, tg := got["URL"], got["Weight"], got["Tags"]
				if len(got) != 3 || u.Ty != "String" || w.Ty != "Int" || tg.Ty != "List String" {
					return irTerm{}, true, fmt.Errorf("unsupported Server literal %s", t.r.Src(cl))
				}
				return irTerm{"(⟨" + u.S + ", " + w.S + ", " + tg.S + "⟩ : Server)", "Server"}, true, nil
			}
		case *ast.CallExpr:
			// make([]*Server, 0)
			if id, ok := x.Fun.(*ast.Ident); ok && id.Name == "make" && len(x.Args) == 2 && t.r.Src(x.Args[0]) == "[]*Server" && t.r.Src(x.Args[1]) == "0" {
				return irTerm{"([] : List Server)", "List Server"}, true, nil
			}
		case *ast.TypeAssertExpr:
			// sp.loadBalancer.Load().(LoadBalancer)
			if x.Type != nil && t.r.Src(x.Type) == "LoadBalancer" {
				if v, err := t.tryExpr(x.X, env); err == nil && v.Ty == "Any" {
					return irTerm{v.S, "LB"}, true, nil
				}
			}
		}
		return irTerm{}, false, nil
	}
	return s, nil
}

func init() {
	register(Extractor{Module: "FactsC04IRb", Imports: []string{"EgVerif.Model.LoadBalance"}, Run: func(r *Repo, w *Lean) error {
		const lbFile = "pkg/filters/proxy/loadbalance.go"
		w.Line("set_option linter.unusedVariables false")
		w.Line("open EgVerif.LoadBalance")
		w.Line("")
		retLB := func(v []irTerm) (string, error) {
			if len(v) != 1 || v[0].Ty != "LB" {
				return "", errUnsupportedReturn
			}
			return v[0].S, nil
		}
		// NewLoadBalancer
		s, err := c04bSpec(r, "newLoadBalancerIR")
		if err != nil {
			return err
		}
		s.Binders, s.BNames, s.RetTy = "(policy : String) (ss : List Server)", []string{"policy", "ss"}, "LB"
		s.Params = []irTerm{{"policy", "LBSpec"}, {"ss", "List Server"}}
		s.Ret = retLB
		if err := irEmit(r, w, lbFile, "", "NewLoadBalancer", s,
			"`policy` = `spec.Policy`; a balancer is (policy, server list) — the constructors are translated below."); err != nil {
			return err
		}
		// the five constructors
		for _, c := range []struct {
			fn, name string
			np       int
		}{
			{"newRandomLoadBalancer", "newRandomIR", 1}, {"newRoundRobinLoadBalancer", "newRoundRobinIR", 1},
			{"newIPHashLoadBalancer", "newIPHashIR", 1}, {"newHeaderHashLoadBalancer", "newHeaderHashIR", 2},
			{"newWeightedRandomLoadBalancer", "newWeightedIR", 1},
		} {
			s, err := c04bSpec(r, c.name)
			if err != nil {
				return err
			}
			s.Binders, s.BNames, s.RetTy = "(ss : List Server)", []string{"ss"}, "List Server × Int"
			s.Params = []irTerm{{"ss", "List Server"}}
			if c.np == 2 {
				s.Params = append(s.Params, irTerm{"\"key\"", "String"})
			}
			s.State = []irLet{{"tw", "Int", "0"}}
			s.Ret = func(v []irTerm) (string, error) {
				if len(v) != 1 || v[0].Ty != "WRLB" {
					return "", errUnsupportedReturn
				}
				return "(" + v[0].S + ", tw)", nil
			}
			if err := irEmit(r, w, lbFile, "", c.fn, s, "Result: (the `Servers` the balancer stores, its `totalWeight` (0 where there is none))."); err != nil {
				return err
			}
		}
		return nil
	}})
	// pool.go in a module of its own (FactsC04IRp): a change there leaves the loadbalance.go obligations standing
	register(Extractor{Module: "FactsC04IRp", Imports: []string{"EgVerif.Model.LoadBalance"}, Run: func(r *Repo, w *Lean) error {
		const poolFile = "pkg/filters/proxy/pool.go"
		w.Line("set_option linter.unusedVariables false")
		w.Line("open EgVerif.LoadBalance")
		w.Line("")
		retLB := func(v []irTerm) (string, error) {
			if len(v) != 1 || v[0].Ty != "LB" {
				return "", errUnsupportedReturn
			}
			return v[0].S, nil
		}
		// createLoadBalancer
		s, err := c04bSpec(r, "createLoadBalancerIR")
		if err != nil {
			return err
		}
		s.Binders, s.BNames, s.RetTy = "(lbspec : Option String) (ss : List Server)", []string{"lbspec", "ss"}, "Option LB"
		s.Recv, s.Params = irTerm{"()", "Pool"}, []irTerm{{"ss", "List Server"}}
		s.Fields["Pool.spec"] = irField{Fmt: "()", Ty: "PSpec"}
		s.LeanTy["PSpec"] = "Unit"
		s.State = []irLet{{"published", "LB?", "(none : Option LB)"}}
		s.Ret = func(v []irTerm) (string, error) {
			if len(v) != 0 {
				return "", errUnsupportedReturn
			}
			return "published", nil
		}
		if err := irEmit(r, w, poolFile, "ServerPool", "createLoadBalancer", s,
			"`lbspec` = `sp.spec.LoadBalance` (nil or its `Policy`); result = what `sp.loadBalancer.Store` publishes."); err != nil {
			return err
		}
		// LoadBalancer()
		s, err = c04bSpec(r, "loadBalancerIR")
		if err != nil {
			return err
		}
		s.Binders, s.BNames, s.RetTy = "(current : LB)", []string{"current"}, "LB"
		s.Recv, s.Params = irTerm{"()", "Pool"}, nil
		s.Ret = retLB
		if err := irEmit(r, w, poolFile, "ServerPool", "LoadBalancer", s, "`current` = the value of the one `atomic.Value.Load`."); err != nil {
			return err
		}
		// useService
		s, err = c04bSpec(r, "useServiceIR")
		if err != nil {
			return err
		}
		s.Binders, s.BNames, s.RetTy = "(srt : List Server → List Server) (sps : PoolSpec) (instances : List Instance)", []string{"srt", "sps", "instances"}, "List Server"
		// a re-ordering of the list (sort.Slice(servers, less), should one ever be added) is the abstract
		// permutation `srt`: the theorem is stated up to permutation, the order is not part of the property
		s.StmtFuncs = map[string]irStmtCall{"sort.Slice": {NArgs: 2, Lets: []irLet{{"%[1]s", "List Server", "(srt %[1]s)"}}}}
		baseHook := s.Hook
		s.Hook = func(t *irT, e ast.Expr, env *irEnv) (irTerm, bool, error) {
			if _, ok := e.(*ast.FuncLit); ok {
				return irTerm{"()", "Less"}, true, nil
			}
			return baseHook(t, e, env)
		}
		s.LeanTy["Less"] = "Unit"
		s.Recv, s.Params = irTerm{"()", "Pool"}, []irTerm{{"instances", "List Instance"}}
		s.State = []irLet{{"published", "List Server", "([] : List Server)"}}
		s.Ret = func(v []irTerm) (string, error) {
			if len(v) != 0 {
				return "", errUnsupportedReturn
			}
			return "published", nil
		}
		return irEmit(r, w, poolFile, "ServerPool", "useService", s,
			"`instances` = the instance map in the order `range` visits it; result = the list handed to `createLoadBalancer`.")
	}})
}
