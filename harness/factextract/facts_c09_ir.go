package main

// Micro-translator (DESIGN §3.3): re-derives a Lean definition from the *body* of
// RateLimiter.acquirePermission on every run. The subset handled is straight-line
// integer code: := / = / op= assignments to locals and receiver fields, `if` with
// or without else (bodies that either always return or never return), `return`,
// `var x T`, integer / comparison / boolean expressions, conversions, and a small
// table of time.Time / time.Duration method calls expressed relative to
// rl.startTime. Statements that only concern the mutex, rl.state bookkeeping or the
// listener are skipped (they are listed in the generated file). Anything else makes
// the extraction fail, which breaks the dependent theorem `acquireIR_eq_model`.

import (
	"fmt"
	"go/ast"
	"go/token"
	"sort"
	"strings"
)

type irCtx struct {
	r       *Repo
	skipped []string
	fields  map[string]string // printed Go selector -> Lean name (read)
	state   map[string]string // printed Go selector (assignable receiver field) -> Lean variable
}

func (c *irCtx) expr(e ast.Expr) (string, error) {
	switch x := e.(type) {
	case *ast.BasicLit:
		if x.Kind == token.INT {
			return x.Value, nil
		}
	case *ast.Ident:
		switch x.Name {
		case "true", "false":
			return x.Name, nil
		}
		return x.Name, nil
	case *ast.ParenExpr:
		s, err := c.expr(x.X)
		return "(" + s + ")", err
	case *ast.SelectorExpr:
		src := c.r.Src(x)
		if v, ok := c.state[src]; ok {
			return v, nil
		}
		if v, ok := c.fields[src]; ok {
			return v, nil
		}
		return "", fmt.Errorf("unknown selector %s", src)
	case *ast.UnaryExpr:
		s, err := c.expr(x.X)
		if err != nil {
			return "", err
		}
		switch x.Op {
		case token.SUB:
			return "(-" + s + ")", nil
		case token.NOT:
			return "(!" + s + ")", nil
		}
	case *ast.BinaryExpr:
		// rl.state comparisons become the `disabled` parameter
		if src := c.r.Src(x); src == "rl.state == StateDisabled" {
			return "disabled", nil
		}
		a, err := c.expr(x.X)
		if err != nil {
			return "", err
		}
		b, err := c.expr(x.Y)
		if err != nil {
			return "", err
		}
		switch x.Op {
		case token.ADD, token.SUB, token.MUL:
			return fmt.Sprintf("(%s %s %s)", a, x.Op.String(), b), nil
		case token.QUO:
			return fmt.Sprintf("(Int.tdiv %s %s)", a, b), nil
		case token.REM:
			return fmt.Sprintf("(Int.tmod %s %s)", a, b), nil
		case token.LSS, token.GTR, token.LEQ, token.GEQ:
			op := map[token.Token]string{token.LSS: "<", token.GTR: ">", token.LEQ: "≤", token.GEQ: "≥"}[x.Op]
			return fmt.Sprintf("decide (%s %s %s)", a, op, b), nil
		case token.EQL:
			return fmt.Sprintf("(%s == %s)", a, b), nil
		case token.NEQ:
			return fmt.Sprintf("(%s != %s)", a, b), nil
		case token.LAND:
			return fmt.Sprintf("(%s && %s)", a, b), nil
		case token.LOR:
			return fmt.Sprintf("(%s || %s)", a, b), nil
		}
	case *ast.CallExpr:
		fun := c.r.Src(x.Fun)
		switch {
		case (fun == "int" || fun == "int64" || fun == "time.Duration") && len(x.Args) == 1:
			return c.expr(x.Args[0]) // integer conversions (no overflow: recorded assumption)
		case fun == "nowFunc" && len(x.Args) == 0:
			return "now", nil // absolute time; only used through the two patterns below
		case fun == "now.Sub" && len(x.Args) == 1 && c.r.Src(x.Args[0]) == "rl.startTime":
			return "now", nil // time since start
		case strings.HasSuffix(fun, ".Sub") && len(x.Args) == 1 && c.r.Src(x.Args[0]) == "now":
			// rl.startTime.Add(d).Sub(now)  ==  d - (now since start)
			if se, ok := x.Fun.(*ast.SelectorExpr); ok {
				if inner, ok := se.X.(*ast.CallExpr); ok && c.r.Src(inner.Fun) == "rl.startTime.Add" && len(inner.Args) == 1 {
					d, err := c.expr(inner.Args[0])
					return "(" + d + " - now)", err
				}
			}
		}
		return "", fmt.Errorf("unsupported call %s", c.r.Src(x))
	}
	return "", fmt.Errorf("unsupported expression %s", c.r.Src(e))
}

func (c *irCtx) ignorable(s ast.Stmt) bool {
	src := c.r.Src(s)
	switch x := s.(type) {
	case *ast.ExprStmt:
		return strings.HasPrefix(src, "rl.lock.") || strings.HasPrefix(src, "rl.notifyListener(")
	case *ast.DeferStmt:
		return strings.HasPrefix(src, "defer rl.lock.")
	case *ast.AssignStmt:
		return len(x.Lhs) == 1 && c.r.Src(x.Lhs[0]) == "rl.state"
	case *ast.IfStmt:
		if x.Else != nil || x.Init != nil || !strings.Contains(c.r.Src(x.Cond), "rl.state") {
			return false
		}
		for _, b := range x.Body.List {
			if !c.ignorable(b) {
				return false
			}
		}
		return true
	}
	return false
}

func alwaysReturns(b []ast.Stmt) bool {
	if len(b) == 0 {
		return false
	}
	_, ok := b[len(b)-1].(*ast.ReturnStmt)
	return ok
}

func (c *irCtx) lhsVar(e ast.Expr) (string, error) {
	if id, ok := e.(*ast.Ident); ok {
		return id.Name, nil
	}
	if v, ok := c.state[c.r.Src(e)]; ok {
		return v, nil
	}
	return "", fmt.Errorf("unsupported assignment target %s", c.r.Src(e))
}

func (c *irCtx) assigned(b []ast.Stmt, set map[string]bool) error {
	for _, s := range b {
		if c.ignorable(s) {
			continue
		}
		switch x := s.(type) {
		case *ast.AssignStmt:
			for _, l := range x.Lhs {
				v, err := c.lhsVar(l)
				if err != nil {
					return err
				}
				set[v] = true
			}
		case *ast.IfStmt:
			if err := c.assigned(x.Body.List, set); err != nil {
				return err
			}
			if x.Else != nil {
				if eb, ok := x.Else.(*ast.BlockStmt); ok {
					if err := c.assigned(eb.List, set); err != nil {
						return err
					}
				} else {
					return fmt.Errorf("else-if not supported")
				}
			}
		case *ast.DeclStmt, *ast.ReturnStmt:
		default:
			return fmt.Errorf("unsupported statement %s", c.r.Src(s))
		}
	}
	return nil
}

// block translates a statement list followed by the continuation `k` (a Lean term
// produced lazily, "" when the block must end in a return).
func (c *irCtx) block(b []ast.Stmt, ind string, k func(ind string) (string, error)) (string, error) {
	if len(b) == 0 {
		if k == nil {
			return "", fmt.Errorf("block falls off the end without return")
		}
		return k(ind)
	}
	s, rest := b[0], b[1:]
	next := func(ind string) (string, error) { return c.block(rest, ind, k) }
	if c.ignorable(s) {
		c.skipped = append(c.skipped, c.r.Src(s))
		return next(ind)
	}
	switch x := s.(type) {
	case *ast.DeclStmt:
		gd, ok := x.Decl.(*ast.GenDecl)
		if !ok || gd.Tok != token.VAR {
			return "", fmt.Errorf("unsupported decl %s", c.r.Src(s))
		}
		out := ""
		for _, sp := range gd.Specs {
			vs := sp.(*ast.ValueSpec)
			for i, n := range vs.Names {
				val := "0"
				if i < len(vs.Values) {
					v, err := c.expr(vs.Values[i])
					if err != nil {
						return "", err
					}
					val = v
				}
				out += fmt.Sprintf("%slet %s : Int := %s\n", ind, n.Name, val)
			}
		}
		r, err := next(ind)
		return out + r, err
	case *ast.AssignStmt:
		if len(x.Lhs) != 1 || len(x.Rhs) != 1 {
			return "", fmt.Errorf("unsupported multi-assignment %s", c.r.Src(s))
		}
		v, err := c.lhsVar(x.Lhs[0])
		if err != nil {
			return "", err
		}
		rhs, err := c.expr(x.Rhs[0])
		if err != nil {
			return "", err
		}
		switch x.Tok {
		case token.DEFINE, token.ASSIGN:
		case token.ADD_ASSIGN:
			rhs = fmt.Sprintf("(%s + %s)", v, rhs)
		case token.SUB_ASSIGN:
			rhs = fmt.Sprintf("(%s - %s)", v, rhs)
		case token.MUL_ASSIGN:
			rhs = fmt.Sprintf("(%s * %s)", v, rhs)
		default:
			return "", fmt.Errorf("unsupported assignment op in %s", c.r.Src(s))
		}
		r, err := next(ind)
		return fmt.Sprintf("%slet %s : Int := %s\n", ind, v, rhs) + r, err
	case *ast.ReturnStmt:
		if len(x.Results) != 2 {
			return "", fmt.Errorf("unsupported return %s", c.r.Src(s))
		}
		ok, err := c.expr(x.Results[0])
		if err != nil {
			return "", err
		}
		d, err := c.expr(x.Results[1])
		if err != nil {
			return "", err
		}
		return fmt.Sprintf("%s((⟨rl_cycle, rl_tokens⟩ : RL), (⟨%s, %s⟩ : Out))\n", ind, ok, d), nil
	case *ast.IfStmt:
		if x.Init != nil {
			return "", fmt.Errorf("if with init not supported")
		}
		cond, err := c.expr(x.Cond)
		if err != nil {
			return "", err
		}
		var elseB []ast.Stmt
		if x.Else != nil {
			eb, ok := x.Else.(*ast.BlockStmt)
			if !ok {
				return "", fmt.Errorf("else-if not supported")
			}
			elseB = eb.List
		}
		if alwaysReturns(x.Body.List) {
			th, err := c.block(x.Body.List, ind+"  ", nil)
			if err != nil {
				return "", err
			}
			el, err := c.block(elseB, ind+"  ", next)
			if err != nil {
				return "", err
			}
			return fmt.Sprintf("%sif %s then\n%s%selse\n%s", ind, cond, th, ind, el), nil
		}
		// neither branch returns: merge the assigned variables
		set := map[string]bool{}
		if err := c.assigned(x.Body.List, set); err != nil {
			return "", err
		}
		if err := c.assigned(elseB, set); err != nil {
			return "", err
		}
		var vs []string
		for v := range set {
			vs = append(vs, v)
		}
		sort.Strings(vs)
		if len(vs) != 1 {
			return "", fmt.Errorf("if merging %d variables not supported: %s", len(vs), c.r.Src(x.Cond))
		}
		tuple := vs[0]
		fin := func(ind string) (string, error) { return ind + tuple + "\n", nil }
		th, err := c.block(x.Body.List, ind+"    ", fin)
		if err != nil {
			return "", err
		}
		el, err := c.block(elseB, ind+"    ", fin)
		if err != nil {
			return "", err
		}
		r, err := next(ind)
		return fmt.Sprintf("%slet %s : Int :=\n%s  if %s then\n%s%s  else\n%s", ind, tuple, ind, cond, th, ind, el) + r, err
	}
	return "", fmt.Errorf("unsupported statement %s", c.r.Src(s))
}

func init() {
	register(Extractor{Module: "FactsC09IR", Imports: []string{"EgVerif.Model.RateLimiter"}, Run: func(r *Repo, w *Lean) error {
		fd, err := r.Func("pkg/util/ratelimiter/ratelimiter.go", "RateLimiter", "acquirePermission")
		if err != nil {
			return err
		}
		if len(fd.Type.Params.List) != 1 || len(fd.Type.Params.List[0].Names) != 1 || fd.Type.Params.List[0].Names[0].Name != "count" {
			return fmt.Errorf("acquirePermission: unexpected parameters")
		}
		c := &irCtx{r: r,
			fields: map[string]string{"rl.policy.LimitForPeriod": "p.L", "rl.policy.LimitRefreshPeriod": "p.P", "rl.policy.TimeoutDuration": "p.T"},
			state:  map[string]string{"rl.tokens": "rl_tokens", "rl.cycle": "rl_cycle"}}
		body, err := c.block(fd.Body.List, "  ", nil)
		if err != nil {
			return err
		}
		w.Line("/-! Translated from the body of `RateLimiter.acquirePermission` (go/ast → Lean).")
		w.Line("Time is relative to `rl.startTime`; `disabled` stands for `rl.state == StateDisabled`.")
		w.Line("Skipped statements (mutex, state bookkeeping, listener):")
		for _, s := range c.skipped {
			w.Line("  * `%s`", strings.ReplaceAll(s, "-/", "- /"))
		}
		w.Line("-/")
		w.Line("open EgVerif.RateLimiter")
		w.Line("")
		w.Line("def acquireIR (p : Policy) (s : RL) (now count : Int) (disabled : Bool) : RL × Out :=")
		w.Line("  let rl_cycle : Int := s.cycle")
		w.Line("  let rl_tokens : Int := s.tokens")
		w.sb.WriteString(body)
		return nil
	}})
}
