package main

// Regenerated tie by translation for C09 (DESIGN §3.3): the body of
// RateLimiter.acquirePermission → Gen.FactsC09IR.acquireIR, through the generic
// micro-translator in irlib.go. Time is expressed relative to rl.startTime; statements that
// only concern the mutex, rl.state bookkeeping or the listener are ignored (and listed in the
// generated file). `acquire_regenerated_from_source` (Props/C09.lean) proves
// acquireIR = Model.RateLimiter.acquire for all inputs.

import (
	"go/ast"
	"strings"
)

func c09IgnoreStmt(t **irT) func(string, ast.Stmt) bool {
	var ign func(src string, s ast.Stmt) bool
	ign = func(src string, s ast.Stmt) bool {
		switch x := s.(type) {
		case *ast.ExprStmt:
			return strings.HasPrefix(src, "rl.lock.") || strings.HasPrefix(src, "rl.notifyListener(")
		case *ast.DeferStmt:
			return strings.HasPrefix(src, "defer rl.lock.")
		case *ast.AssignStmt:
			return len(x.Lhs) == 1 && strings.HasPrefix(src, "rl.state =")
		case *ast.IfStmt:
			// `if rl.state != X { rl.state = X; rl.notifyListener(…) }`
			if x.Else != nil || x.Init != nil || !strings.HasPrefix(src, "if rl.state != ") {
				return false
			}
			for _, b := range x.Body.List {
				if !ign((*t).r.Src(b), b) {
					return false
				}
			}
			return true
		}
		return false
	}
	return ign
}

func init() {
	register(Extractor{Module: "FactsC09IR", Imports: []string{"EgVerif.Model.RateLimiter"}, Run: func(r *Repo, w *Lean) error {
		var tt *irT
		spec := &irSpec{
			Name:    "acquireIR",
			Binders: "(p : Policy) (s : RL) (now count : Int) (disabled : Bool)",
			BNames:  []string{"p", "s", "now", "count", "disabled"},
			RetTy:   "RL × Out",
			Recv:    irTerm{"s", "RL"},
			Params:  []irTerm{{"count", "Int"}},
			State:   []irLet{{"rl_cycle", "Int", "s.cycle"}, {"rl_tokens", "Int", "s.tokens"}},
			LeanTy:  map[string]string{"Time": "Int"},
			Fields: map[string]irField{
				"RL.policy":                 {Fmt: "p", Ty: "Policy"},
				"RL.tokens":                 {Fmt: "rl_tokens", Ty: "Int", State: true},
				"RL.cycle":                  {Fmt: "rl_cycle", Ty: "Int", State: true},
				"RL.startTime":              {Fmt: "startTime", Ty: "Time0"},
				"Policy.LimitForPeriod":     {Fmt: "%s.L", Ty: "Int"},
				"Policy.LimitRefreshPeriod": {Fmt: "%s.P", Ty: "Int"},
				"Policy.TimeoutDuration":    {Fmt: "%s.T", Ty: "Int"},
			},
			Funcs: map[string]irCall{"nowFunc": {Fmt: "now", Ty: "Time", NArgs: 0}},
			Ret: func(v []irTerm) (string, error) {
				if len(v) != 2 || v[0].Ty != "Bool" || !irIsNum(v[1].Ty) {
					return "", errUnsupportedReturn
				}
				return "((⟨rl_cycle, rl_tokens⟩ : RL), (⟨" + v[0].S + ", " + v[1].S + "⟩ : Out))", nil
			},
		}
		spec.Hook = func(t *irT, e ast.Expr, env *irEnv) (irTerm, bool, error) {
			tt = t
			switch x := e.(type) {
			case *ast.BinaryExpr:
				if t.r.Src(x) == "rl.state == StateDisabled" {
					return irTerm{"disabled", "Bool"}, true, nil
				}
			case *ast.CallExpr:
				// time arithmetic relative to rl.startTime:
				//   now.Sub(rl.startTime) = now ;  rl.startTime.Add(d).Sub(now) = d - now
				se, ok := x.Fun.(*ast.SelectorExpr)
				if !ok || se.Sel.Name != "Sub" || len(x.Args) != 1 {
					return irTerm{}, false, nil
				}
				a, err := t.expr(x.Args[0], env)
				if err != nil {
					return irTerm{}, true, err
				}
				if inner, ok := se.X.(*ast.CallExpr); ok && a.Ty == "Time" {
					if ise, ok := inner.Fun.(*ast.SelectorExpr); ok && ise.Sel.Name == "Add" && len(inner.Args) == 1 {
						if st, err := t.expr(ise.X, env); err == nil && st.Ty == "Time0" {
							d, err := t.expr(inner.Args[0], env)
							return irTerm{"(" + d.S + " - " + a.S + ")", "Int"}, true, err
						}
					}
				}
				if rx, err := t.expr(se.X, env); err == nil && rx.Ty == "Time" && a.Ty == "Time0" {
					return irTerm{rx.S, "Int"}, true, nil
				}
			}
			return irTerm{}, false, nil
		}
		tt = &irT{r: r}
		spec.Ignore = c09IgnoreStmt(&tt)
		w.Line("open EgVerif.RateLimiter")
		w.Line("")
		return irEmit(r, w, "pkg/util/ratelimiter/ratelimiter.go", "RateLimiter", "acquirePermission", spec,
			"Time is relative to `rl.startTime`; `disabled` stands for `rl.state == StateDisabled`.")
	}})
}
