package main

// Regenerated tie by translation for `muxInstance.search` and `allowIP` (irlib.go, notes/IR.md):
// Gen/FactsMuxIR.lean, shared by C01, C05 and C12.
//
// Shared by the three checks through `"facts_extra": ["facts_mux_ir.go"]` in props/C01.json, C05.json, C12.json
//
// `search` is translated with
//   * the local closure `allow` inlined at its four call sites (irSpecExt.InlineClosures): the captured
//     `consulted` list is threaded through as an ordinary local;
//   * `&route{…}` composite literals as `GoRoute` values (irSpecExt.Composite);
//   * `mi.getRouteFromCache(req)` as the binder `cached` (what the ARC lookup returned), and
//     `mi.putRouteToCache(req, r)` as an assignment to the state variable `put` (the last put wins, as
//     in the cache: both puts of one search would use the same key);
//   * the matchers as calls of the model functions (each tied by its own
//     `<fn>_regenerated_from_source` in Props/C01.lean), `f.Allow(ip)` / `allowIP(f, ip)` as the
//     model's `allowIP o f ip` (filter oracle; nil allows — the only `.Allow` call on a possibly nil
//     pointer is the hit branch's, and `consulted` only ever receives non-nil filters).

import (
	"fmt"
	"go/ast"
)

const mxiFile = "pkg/object/httpserver/mux.go"

var mxiStatus = map[string]int{
	"http.StatusNotFound": 404, "http.StatusForbidden": 403, "http.StatusMethodNotAllowed": 405,
	"http.StatusBadRequest": 400, "http.StatusServiceUnavailable": 503, "http.StatusOK": 200,
}

// mxiRouteConst evaluates a package-level `&route{code: http.StatusXxx}` to a GoRoute term.
func mxiRouteConst(r *Repo, name string) (irTerm, error) {
	e, err := r.PkgValue(mxiFile, name)
	if err != nil {
		return irTerm{}, err
	}
	ue, ok := e.(*ast.UnaryExpr)
	if !ok {
		return irTerm{}, fmt.Errorf("route %s: not a &route{…} literal: %s", name, r.Src(e))
	}
	cl, ok := ue.X.(*ast.CompositeLit)
	if !ok || r.Src(cl.Type) != "route" || len(cl.Elts) != 1 {
		return irTerm{}, fmt.Errorf("route %s: not a &route{code: …} literal: %s", name, r.Src(e))
	}
	kv, ok := cl.Elts[0].(*ast.KeyValueExpr)
	if !ok || r.Src(kv.Key) != "code" {
		return irTerm{}, fmt.Errorf("route %s: not a &route{code: …} literal: %s", name, r.Src(e))
	}
	code, ok := mxiStatus[r.Src(kv.Value)]
	if !ok {
		return irTerm{}, fmt.Errorf("route %s: unknown status %s", name, r.Src(kv.Value))
	}
	return irTerm{fmt.Sprintf("(some (GoRoute.mk %d none []))", code), "RouteP"}, nil
}

func mxiSearchSpec(r *Repo) (*irSpec, error) {
	consts := map[string]irTerm{}
	for _, n := range []string{"notFound", "forbidden", "methodNotAllowed", "badRequest"} {
		c, err := mxiRouteConst(r, n)
		if err != nil {
			return nil, err
		}
		consts[n] = c
	}
	s := &irSpec{
		Name:    "searchIR",
		Binders: "(o : Oracle) (c : Cfg) (q : Req) (cached : Option GoRoute)",
		BNames:  []string{"o", "c", "q", "cached"},
		RetTy:   "SearchRes",
		Recv:    irTerm{"c", "MuxInstance"},
		Params:  []irTerm{{"q", "Req"}},
		State:   []irLet{{"put", "RouteP", "none"}},
		LeanTy: map[string]string{"Header": "HeaderCond", "MuxPath": "PathEntry", "MuxRule": "Rule",
			"IPFilter": "Option Nat", "RouteP": "Option GoRoute"},
		GoTy: map[string]string{"[]*ipfilter.IPFilter": "List IPFilter", "*ipfilter.IPFilter": "IPFilter"},
		Fields: map[string]irField{
			"MuxInstance.ipFilter": {Fmt: "%s.ipFilter", Ty: "IPFilter"},
			"MuxInstance.rules":    {Fmt: "%s.rules", Ty: "List MuxRule"},
			"MuxRule.ipFilter":     {Fmt: "%s.ipFilter", Ty: "IPFilter"},
			"MuxRule.paths":        {Fmt: "%s.paths", Ty: "List MuxPath"},
			"MuxPath.ipFilter":     {Fmt: "%s.ipFilter", Ty: "IPFilter"},
			"MuxPath.headers":      {Fmt: "%s.headers", Ty: "List Header"},
			"RouteP.ipFilters":     {Fmt: "(routeFilters %s)", Ty: "List IPFilter"},
			"RouteP.code":          {Fmt: "(routeCode %s)", Ty: "Int"},
		},
		Methods: map[string]irCall{
			"Req.RealIP":                    {Fmt: "%[1]s.ip", Ty: "String", NArgs: 0},
			"MuxInstance.getRouteFromCache": {Fmt: "cached", Ty: "RouteP", NArgs: 1},
			"MuxRule.match":                 {Fmt: "(ruleMatch o %[1]s %[2]s)", Ty: "Bool", NArgs: 1},
			"MuxPath.matchPath":             {Fmt: "(matchPath o %[1]s %[2]s)", Ty: "Bool", NArgs: 1},
			"MuxPath.matchMethod":           {Fmt: "(matchMethod %[1]s %[2]s)", Ty: "Bool", NArgs: 1},
			"MuxPath.matchHeaders":          {Fmt: "(matchHeaders o %[1]s %[2]s)", Ty: "Bool", NArgs: 1},
			"IPFilter.Allow":                {Fmt: "(allowIP o %[1]s %[2]s)", Ty: "Bool", NArgs: 1},
		},
		Funcs: map[string]irCall{
			"allowIP":              {Fmt: "(allowIP o %[1]s %[2]s)", Ty: "Bool", NArgs: 2},
			"append:List IPFilter": {Fmt: "(%[1]s ++ [%[2]s])", Ty: "List IPFilter", NArgs: 2},
			"len:List Header":      {Fmt: "%[1]s.length", Ty: "Nat", NArgs: 1},
		},
		StmtMethods: map[string]irStmtCall{
			"MuxInstance.putRouteToCache": {Lets: []irLet{{"put", "RouteP", "%[3]s"}}, NArgs: 2},
		},
		Consts: consts,
		Ret: func(v []irTerm) (string, error) {
			if len(v) != 1 || v[0].Ty != "RouteP" {
				return "", errUnsupportedReturn
			}
			return "(routeRes " + v[0].S + ", put)", nil
		},
	}
	s.Ext.InlineClosures = true
	s.Ext.Composite = map[string]irComposite{
		"&route": {
			Keys:  []string{"code", "path", "ipFilters"},
			Types: map[string]string{"code": "Int", "path": "MuxPath", "ipFilters": "List IPFilter"},
			Zero:  map[string]string{"code": "0", "path": "none", "ipFilters": "[]"},
			Wrap:  map[string]string{"path": "(some %s)"},
			Fmt:   "(some (GoRoute.mk %[1]s %[2]s %[3]s))",
			Ty:    "RouteP",
		},
	}
	return s, nil
}

func init() {
	register(Extractor{Module: "FactsMuxIR", Imports: []string{"EgVerif.Model.MuxCache"}, Run: func(r *Repo, w *Lean) error {
		w.Line("set_option linter.unusedVariables false")
		w.Line("open EgVerif.Mux EgVerif.MuxCache")
		w.Line("")
		// allowIP: `if ipFilter == nil { return true }; return ipFilter.Allow(ip)`
		a := &irSpec{
			Name:    "allowIPIR",
			Binders: "(o : Oracle) (f : Option Nat) (ip : String)",
			BNames:  []string{"o", "f", "ip"},
			RetTy:   "Option Bool",
			Params:  []irTerm{{"f", "IPFilter"}, {"ip", "String"}},
			LeanTy:  map[string]string{"IPFilter": "Option Nat"},
			Methods: map[string]irCall{
				// (*IPFilter).Allow on a nil pointer dereferences it: guarded, `none` = panic
				"IPFilter.Allow": {Fmt: "(o.allow (%[1]s.getD 0) %[2]s)", Ty: "Bool", NArgs: 1, Guard: "%[1]s.isSome"},
			},
			Panic: "none",
			Ret: func(v []irTerm) (string, error) {
				if len(v) != 1 || v[0].Ty != "Bool" {
					return "", errUnsupportedReturn
				}
				return "some " + v[0].S, nil
			},
		}
		if err := irEmit(r, w, mxiFile, "", "allowIP", a,
			"`o.allow i ip` = `IPFilter.Allow(ip)` of the filter with id `i`; `none` = nil dereference."); err != nil {
			return err
		}
		s, err := mxiSearchSpec(r)
		if err != nil {
			return err
		}
		return irEmit(r, w, mxiFile, "muxInstance", "search", s,
			"`cached` = what `getRouteFromCache` returned; result = (code, path) of the returned route and the route put into the cache.")
	}})
}
