package main

// Facts for C01 (and shared helpers for C05): what the mux model assumes about
// the shape of pkg/object/httpserver/mux.go.

import (
	"fmt"
	"go/ast"
	"strings"
)

const muxFile = "pkg/object/httpserver/mux.go"

var httpStatus = map[string]int{
	"http.StatusNotFound": 404, "http.StatusForbidden": 403, "http.StatusMethodNotAllowed": 405,
	"http.StatusBadRequest": 400, "http.StatusServiceUnavailable": 503,
	"http.StatusRequestEntityTooLarge": 413, "http.StatusOK": 200,
}

// routeCode evaluates `&route{code: http.StatusXxx}`.
func routeCode(r *Repo, name string) (int, error) {
	e, err := r.PkgValue(muxFile, name)
	if err != nil {
		return 0, err
	}
	var code int
	ok := false
	ast.Inspect(e, func(n ast.Node) bool {
		if kv, is := n.(*ast.KeyValueExpr); is && r.Src(kv.Key) == "code" {
			code, ok = httpStatus[r.Src(kv.Value)]
		}
		return true
	})
	if !ok {
		return 0, fmt.Errorf("route %s: unknown code expression %s", name, r.Src(e))
	}
	return code, nil
}

func calleeName(r *Repo, ce *ast.CallExpr) string {
	switch f := ce.Fun.(type) {
	case *ast.SelectorExpr:
		return f.Sel.Name
	case *ast.Ident:
		return f.Name
	}
	return ""
}

// callsInOrder lists (first occurrences of) calls to the wanted functions in
// source order, skipping deferred closures.
func callsInOrder(r *Repo, body ast.Node, want map[string]bool, dedupe bool) []string {
	var out []string
	seen := map[string]bool{}
	ast.Inspect(body, func(n ast.Node) bool {
		if _, is := n.(*ast.DeferStmt); is {
			return false
		}
		if ce, is := n.(*ast.CallExpr); is {
			name := calleeName(r, ce)
			if want[name] && !(dedupe && seen[name]) {
				seen[name] = true
				out = append(out, name)
			}
		}
		return true
	})
	return out
}

func pairList(xs []string, ns []int) string {
	var p []string
	for i := range xs {
		p = append(p, fmt.Sprintf("(%s, %d)", Str(xs[i]), ns[i]))
	}
	return "[" + strings.Join(p, ", ") + "]"
}

func init() {
	register(Extractor{Module: "FactsC01", Run: func(r *Repo, w *Lean) error {
		names := []string{"notFound", "forbidden", "methodNotAllowed", "badRequest"}
		var codes []int
		for _, n := range names {
			c, err := routeCode(r, n)
			if err != nil {
				return err
			}
			codes = append(codes, c)
		}
		w.Line("/-- package-level `route` values of mux.go and their status codes -/")
		w.Line("def routeCodes : List (String × Nat) := %s", pairList(names, codes))

		serve, err := r.Func(muxFile, "muxInstance", "serveHTTP")
		if err != nil {
			return err
		}
		// status used when GetHandler misses: `handler, ok := …GetHandler(…); if !ok { … buildFailureResponse(ctx, X) … }`
		status := 0
		for i, st := range serve.Body.List {
			as, is := st.(*ast.AssignStmt)
			if !is || !strings.Contains(r.Src(as), "GetHandler(") || i+1 >= len(serve.Body.List) {
				continue
			}
			if ifs, is := serve.Body.List[i+1].(*ast.IfStmt); is && r.Src(ifs.Cond) == "!ok" {
				ast.Inspect(ifs.Body, func(n ast.Node) bool {
					if ce, is := n.(*ast.CallExpr); is && calleeName(r, ce) == "buildFailureResponse" && len(ce.Args) == 2 {
						status = httpStatus[r.Src(ce.Args[1])]
					}
					return true
				})
			}
		}
		if status == 0 {
			return fmt.Errorf("serveHTTP: GetHandler miss branch not found")
		}
		w.Line("/-- status written when `GetHandler` does not know the backend -/")
		w.Line("def unknownBackendStatus : Nat := %d", status)
		order := callsInOrder(r, serve.Body, map[string]bool{"search": true, "GetHandler": true, "rewrite": true,
			"appendXForwardedFor": true, "FetchPayload": true, "Handle": true}, true)
		w.Line("/-- order of the steps of `serveHTTP` (first occurrences, deferred closure skipped) -/")
		w.Line("def serveCallOrder : List String := %s", StrList(order))

		search, err := r.Func(muxFile, "muxInstance", "search")
		if err != nil {
			return err
		}
		// returns after the last top-level `for`/range statement
		last := -1
		for i, st := range search.Body.List {
			switch st.(type) {
			case *ast.RangeStmt, *ast.ForStmt:
				last = i
			}
		}
		if last < 0 {
			return fmt.Errorf("search: rule loop not found")
		}
		var tail []string
		for _, st := range search.Body.List[last+1:] {
			if ifs, is := st.(*ast.IfStmt); is {
				tail = append(tail, r.Src(ifs.Cond))
			}
		}
		w.Line("/-- conditions tested after the rule loop of `search`, in order (400 before 405, 404 last) -/")
		w.Line("def searchTailConds : List String := %s", StrList(tail))
		loop := callsInOrder(r, search.Body.List[last], map[string]bool{"match": true, "matchPath": true,
			"matchMethod": true, "matchHeaders": true}, false)
		w.Line("/-- matcher calls inside the rule loop of `search`, in order -/")
		w.Line("def searchLoopOrder : List String := %s", StrList(loop))
		return nil
	}})
}
