package main

// Facts for C14 (pkg/object/mqttproxy/topic.go): what the Lean model of the topic trie assumes
// about the source text — lock discipline of the TopicManager entry points, the separator and
// wildcard characters of splitTopic / findSubscribers, and the shape of the (repaired)
// subscribe / unsubscribe loops.

import (
	"go/ast"
	"go/token"
	"sort"
	"strconv"
)

func c14CharLits(n ast.Node) []string {
	set := map[string]bool{}
	ast.Inspect(n, func(x ast.Node) bool {
		if bl, ok := x.(*ast.BasicLit); ok && bl.Kind == token.CHAR {
			if s, err := strconv.Unquote(bl.Value); err == nil {
				set[s] = true
			}
		}
		return true
	})
	var out []string
	for k := range set {
		out = append(out, k)
	}
	sort.Strings(out)
	return out
}

func c14StringLits(n ast.Node) []string {
	set := map[string]bool{}
	ast.Inspect(n, func(x ast.Node) bool {
		if bl, ok := x.(*ast.BasicLit); ok && bl.Kind == token.STRING {
			if s, err := strconv.Unquote(bl.Value); err == nil {
				set[s] = true
			}
		}
		return true
	})
	var out []string
	for k := range set {
		out = append(out, k)
	}
	sort.Strings(out)
	return out
}

// c14RangeLoops returns the range statements directly or indirectly inside n.
func c14RangeLoops(n ast.Node) []*ast.RangeStmt {
	var out []*ast.RangeStmt
	ast.Inspect(n, func(x ast.Node) bool {
		if rs, ok := x.(*ast.RangeStmt); ok {
			out = append(out, rs)
		}
		return true
	})
	return out
}

func c14CountReturns(n ast.Node) int {
	c := 0
	ast.Inspect(n, func(x ast.Node) bool {
		if _, ok := x.(*ast.ReturnStmt); ok {
			c++
		}
		return true
	})
	return c
}

func init() {
	register(Extractor{Module: "FactsC14", Run: func(r *Repo, w *Lean) error {
		const file = "pkg/object/mqttproxy/topic.go"
		w.Line("/-- TopicManager entry points: first statement takes the manager's lock, second defers the unlock. -/")
		w.Line("def lockedMethods : List (String × Bool) := [")
		names := []string{"subscribe", "unsubscribe", "findSubscribers"}
		for i, m := range names {
			fd, err := r.Func(file, "TopicManager", m)
			if err != nil {
				return err
			}
			sep := ","
			if i == len(names)-1 {
				sep = ""
			}
			w.Line("  (%s, %s)%s", Str(m), Bool(r.LocksFirst(fd)), sep)
		}
		w.Line("]")

		st, err := r.Func(file, "", "splitTopic")
		if err != nil {
			return err
		}
		w.Line("/-- rune literals compared in `splitTopic` (sorted). -/")
		w.Line("def splitTopicRunes : List String := %s", StrList(c14CharLits(st)))

		fs, err := r.Func(file, "TopicManager", "findSubscribers")
		if err != nil {
			return err
		}
		w.Line("/-- string literals in `findSubscribers` (sorted, distinct): the wildcard levels. -/")
		w.Line("def findSubscribersLiterals : List String := %s", StrList(c14StringLits(fs)))

		sub, err := r.Func(file, "TopicManager", "subscribe")
		if err != nil {
			return err
		}
		loops := c14RangeLoops(sub.Body)
		w.Line("/-- `subscribe`: number of range loops (2 = validate every filter, then insert) and whether the")
		w.Line("first loop calls `getLevels` but not `insert`. -/")
		w.Line("def subscribeRangeLoops : Nat := %d", len(loops))
		validateFirst := false
		if len(loops) >= 1 {
			validateFirst = r.CountCalls(loops[0].Body, "mgr.getLevels") == 1 && r.CountCalls(loops[0].Body, "mgr.insert") == 0
		}
		w.Line("def subscribeValidatesFirst : Bool := %s", Bool(validateFirst))

		un, err := r.Func(file, "TopicManager", "unsubscribe")
		if err != nil {
			return err
		}
		uloops := c14RangeLoops(un.Body)
		ret := -1
		if len(uloops) == 1 {
			ret = c14CountReturns(uloops[0].Body)
		}
		w.Line("/-- `unsubscribe`: `return` statements inside its (single) range loop; 0 = a malformed filter does")
		w.Line("not stop the removal of the remaining ones. (-1 ↦ 99: not exactly one loop) -/")
		if ret < 0 {
			ret = 99
		}
		w.Line("def unsubscribeReturnsInLoop : Nat := %d", ret)

		rm, err := r.Func(file, "TopicManager", "remove")
		if err != nil {
			return err
		}
		w.Line("/-- `remove` prunes: number of `delete(` calls (the client entry and the empty child). -/")
		w.Line("def removeDeleteCalls : Nat := %d", r.CountCalls(rm.Body, "delete"))
		return nil
	}})
}
