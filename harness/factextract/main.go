// factextract re-derives, from /repo's current source, the tables, constants
// and structural facts the Lean models assume, and writes them as Lean
// definitions into lean/EgVerif/Gen/Facts<Prop>.lean. Theorems in
// Props/<Prop>.lean that depend on them are re-checked by `lake build` on
// every run. Only the standard library (go/parser, go/ast) is used.
//
// One file per property (facts_cXX.go) registers an extractor in init().
package main

import (
	"flag"
	"fmt"
	"go/ast"
	"go/parser"
	"go/printer"
	"go/token"
	"io/ioutil"
	"os"
	"path/filepath"
	"sort"
	"strconv"
	"strings"
)

// Extractor produces the body of one generated Lean module.
type Extractor struct {
	Module  string   // e.g. "FactsC09" -> EgVerif/Gen/FactsC09.lean, namespace EgVerif.Gen.FactsC09
	Imports []string // Lean modules the generated file imports (core-only models), optional
	Run     func(r *Repo, w *Lean) error
}

var extractors []Extractor

func register(e Extractor) { extractors = append(extractors, e) }

// Repo gives access to parsed source files.
type Repo struct {
	Root  string
	Fset  *token.FileSet
	cache map[string]*ast.File
}

// File parses (and caches) a file given relative to the repo root.
func (r *Repo) File(rel string) (*ast.File, error) {
	if f, ok := r.cache[rel]; ok {
		return f, nil
	}
	f, err := parser.ParseFile(r.Fset, filepath.Join(r.Root, rel), nil, parser.ParseComments)
	if err != nil {
		return nil, err
	}
	r.cache[rel] = f
	return f, nil
}

// Func finds a function or method declaration. recv == "" for plain functions;
// otherwise the receiver type name without '*'.
func (r *Repo) Func(rel, recv, name string) (*ast.FuncDecl, error) {
	f, err := r.File(rel)
	if err != nil {
		return nil, err
	}
	for _, d := range f.Decls {
		fd, ok := d.(*ast.FuncDecl)
		if !ok || fd.Name.Name != name {
			continue
		}
		if recv == "" && fd.Recv == nil {
			return fd, nil
		}
		if recv != "" && fd.Recv != nil && len(fd.Recv.List) == 1 && recvName(fd.Recv.List[0].Type) == recv {
			return fd, nil
		}
	}
	return nil, fmt.Errorf("%s: func %s.%s not found", rel, recv, name)
}

func recvName(e ast.Expr) string {
	switch t := e.(type) {
	case *ast.StarExpr:
		return recvName(t.X)
	case *ast.Ident:
		return t.Name
	case *ast.IndexExpr:
		return recvName(t.X)
	}
	return ""
}

// Methods lists the methods of a receiver type in a file.
func (r *Repo) Methods(rel, recv string) ([]*ast.FuncDecl, error) {
	f, err := r.File(rel)
	if err != nil {
		return nil, err
	}
	var out []*ast.FuncDecl
	for _, d := range f.Decls {
		if fd, ok := d.(*ast.FuncDecl); ok && fd.Recv != nil && len(fd.Recv.List) == 1 && recvName(fd.Recv.List[0].Type) == recv {
			out = append(out, fd)
		}
	}
	return out, nil
}

// Src prints a node back to source text (single line, spaces collapsed).
func (r *Repo) Src(n ast.Node) string {
	var sb strings.Builder
	printer.Fprint(&sb, r.Fset, n)
	return strings.Join(strings.Fields(sb.String()), " ")
}

// PkgValue finds the value expression of a package-level var/const.
func (r *Repo) PkgValue(rel, name string) (ast.Expr, error) {
	f, err := r.File(rel)
	if err != nil {
		return nil, err
	}
	for _, d := range f.Decls {
		gd, ok := d.(*ast.GenDecl)
		if !ok {
			continue
		}
		for _, s := range gd.Specs {
			vs, ok := s.(*ast.ValueSpec)
			if !ok {
				continue
			}
			for i, n := range vs.Names {
				if n.Name == name && i < len(vs.Values) {
					return vs.Values[i], nil
				}
			}
		}
	}
	return nil, fmt.Errorf("%s: value %s not found", rel, name)
}

// StringList evaluates a composite literal of string literals.
func StringList(e ast.Expr) ([]string, error) {
	cl, ok := e.(*ast.CompositeLit)
	if !ok {
		return nil, fmt.Errorf("not a composite literal")
	}
	var out []string
	for _, el := range cl.Elts {
		bl, ok := el.(*ast.BasicLit)
		if !ok || bl.Kind != token.STRING {
			return nil, fmt.Errorf("non-literal element")
		}
		s, err := strconv.Unquote(bl.Value)
		if err != nil {
			return nil, err
		}
		out = append(out, s)
	}
	return out, nil
}

// LocksFirst reports whether a method body starts with `<recv>.<lock>.Lock()`
// (or RLock) immediately followed by the matching deferred Unlock.
func (r *Repo) LocksFirst(fd *ast.FuncDecl) bool {
	if fd.Body == nil || len(fd.Body.List) < 2 {
		return false
	}
	a := r.Src(fd.Body.List[0])
	b := r.Src(fd.Body.List[1])
	if strings.HasSuffix(a, ".Lock()") && strings.HasPrefix(b, "defer ") && strings.HasSuffix(b, ".Unlock()") {
		return strings.TrimSuffix(a, ".Lock()") == strings.TrimSuffix(strings.TrimPrefix(b, "defer "), ".Unlock()")
	}
	if strings.HasSuffix(a, ".RLock()") && strings.HasPrefix(b, "defer ") && strings.HasSuffix(b, ".RUnlock()") {
		return strings.TrimSuffix(a, ".RLock()") == strings.TrimSuffix(strings.TrimPrefix(b, "defer "), ".RUnlock()")
	}
	return false
}

// CountCalls counts call expressions whose printed callee equals callee.
func (r *Repo) CountCalls(n ast.Node, callee string) int {
	c := 0
	ast.Inspect(n, func(x ast.Node) bool {
		if ce, ok := x.(*ast.CallExpr); ok && r.Src(ce.Fun) == callee {
			c++
		}
		return true
	})
	return c
}

// Lean accumulates the generated module text.
type Lean struct{ sb strings.Builder }

func (w *Lean) Line(format string, a ...interface{}) { fmt.Fprintf(&w.sb, format+"\n", a...) }

// Str renders a Lean string literal.
func Str(s string) string { return strconv.Quote(s) }

// StrList renders a Lean list of strings.
func StrList(xs []string) string {
	q := make([]string, len(xs))
	for i, x := range xs {
		q[i] = Str(x)
	}
	return "[" + strings.Join(q, ", ") + "]"
}

// Bool renders a Lean Bool.
func Bool(b bool) string {
	if b {
		return "true"
	}
	return "false"
}

func main() {
	repo := flag.String("repo", "/repo", "repository root")
	out := flag.String("out", "", "output directory (lean/EgVerif/Gen)")
	flag.Parse()
	if *out == "" {
		fmt.Fprintln(os.Stderr, "usage: factextract -repo /repo -out DIR")
		os.Exit(2)
	}
	os.MkdirAll(*out, 0o755)
	sort.Slice(extractors, func(i, j int) bool { return extractors[i].Module < extractors[j].Module })
	failed := false
	for _, e := range extractors {
		r := &Repo{Root: *repo, Fset: token.NewFileSet(), cache: map[string]*ast.File{}}
		w := &Lean{}
		w.Line("/- GENERATED by /verif/harness/factextract from /repo's working tree. Do not edit. -/")
		for _, im := range e.Imports {
			w.Line("import %s", im)
		}
		w.Line("set_option autoImplicit false -- an identifier the translation left unbound must not be auto-bound")
		w.Line("namespace EgVerif.Gen.%s", e.Module)
		w.Line("")
		if err := e.Run(r, w); err != nil {
			// A fact that can no longer be extracted is itself a broken tie: emit a
			// module that records the failure so dependent theorems stop checking.
			fmt.Fprintf(os.Stderr, "factextract: %s: %v\n", e.Module, err)
			w = &Lean{}
			w.Line("/- GENERATED: extraction FAILED: %s -/", strings.ReplaceAll(err.Error(), "-/", "- /"))
			for _, im := range e.Imports {
				w.Line("import %s", im)
			}
			w.Line("namespace EgVerif.Gen.%s", e.Module)
			w.Line("def extractionFailed : Bool := true")
			failed = true
		} else {
			w.Line("")
			w.Line("def extractionFailed : Bool := false")
		}
		w.Line("")
		w.Line("end EgVerif.Gen.%s", e.Module)
		p := filepath.Join(*out, e.Module+".lean")
		old, _ := ioutil.ReadFile(p)
		if string(old) != w.sb.String() {
			if err := ioutil.WriteFile(p, []byte(w.sb.String()), 0o644); err != nil {
				fmt.Fprintln(os.Stderr, err)
				os.Exit(1)
			}
			fmt.Printf("factextract: wrote %s\n", p)
		}
	}
	if failed {
		os.Exit(0) // the failure is visible to lake through extractionFailed
	}
}
