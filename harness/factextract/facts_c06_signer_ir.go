package main

// Regenerated tie by translation for C06, package pkg/util/signer (module Gen.FactsC06SignerIR):
// getCanonicalQuery, Verify (TTL window, presign expiry, key lookup, signature comparison),
// initFromQuery / initFromHeader (credential-scope date must prefix the date parameter / header),
// buildCanonicalURI (+ the noEscapeChars table filled in init()), buildCanonicalHeaders.
// Theorems: Proofs/SignerIR.lean, re-exported by Props/C06.lean.

import (
	"fmt"
	"go/ast"
	"go/token"
	"strconv"
	"strings"
)

const c06Signer = "pkg/util/signer/signer.go"

var c06LitFields = map[string]string{"ScopeSuffix": "scopeSuffix", "AlgorithmName": "algorithmName", "AlgorithmValue": "algorithmValue",
	"SignedHeaders": "signedHeaders", "Signature": "signature", "Date": "date", "Expires": "expires", "Credential": "credential",
	"ContentSHA256": "contentSha256", "SigningKeyPrefix": "signingKeyPrefix"}

// c06VErrHook maps the error values of signer.go to the model's `VErr`.
func c06VErrHook(t *irT, e ast.Expr, env *irEnv) (irTerm, bool, error) {
	ce, ok := e.(*ast.CallExpr)
	if !ok {
		return c06StringsHook(t, e, env)
	}
	switch t.r.Src(ce.Fun) {
	case "fmt.Errorf":
		if len(ce.Args) == 1 {
			if bl, ok := ce.Args[0].(*ast.BasicLit); ok && bl.Kind == token.STRING {
				msg, _ := strconv.Unquote(bl.Value)
				m := map[string]string{"signature expired": "expired", "access-key-id not found": "unknownKey",
					"signature verification failed": "mismatch", "signature timestamp mismatch": "timestampMismatch"}
				if v, ok := m[msg]; ok {
					return irTerm{"(some VErr." + v + ")", "VE"}, true, nil
				}
			}
		}
		if len(ce.Args) == 2 {
			if bl, ok := ce.Args[0].(*ast.BasicLit); ok && bl.Kind == token.STRING && strings.HasPrefix(bl.Value, `"invalid query`) {
				return irTerm{"(some VErr.badQuery)", "VE"}, true, nil
			}
			// fmt.Errorf(invalidQuery / invalidHeaderFormat, <which parameter>)
			kind := map[string]string{"invalidQuery": "badQuery", "invalidHeaderFormat": "badHeader"}[t.r.Src(ce.Args[0])]
			arg := t.r.Src(ce.Args[1])
			switch {
			case kind == "":
			case strings.HasSuffix(arg, ".literal.Date"):
				return irTerm{"(some VErr.badDate)", "VE"}, true, nil
			case strings.HasSuffix(arg, ".literal.Expires") && kind == "badQuery":
				return irTerm{"(some VErr.badExpires)", "VE"}, true, nil
			default:
				return irTerm{"(some VErr." + kind + ")", "VE"}, true, nil
			}
		}
		return irTerm{}, true, fmt.Errorf("unmodelled error value %s", t.r.Src(e))
	case "strconv.FormatInt":
		if len(ce.Args) == 2 && t.r.Src(ce.Args[1]) == "10" {
			a, err := t.expr(ce.Args[0], env)
			if err != nil {
				return irTerm{}, true, err
			}
			if a.Ty == "Int" {
				return irTerm{fmt.Sprintf("(b (toString %s))", a.S), "Bytes"}, true, nil
			}
		}
		return irTerm{}, true, fmt.Errorf("only strconv.FormatInt(x, 10) is modelled: %s", t.r.Src(e))
	case "strconv.ParseUint":
		if len(ce.Args) == 3 && t.r.Src(ce.Args[1]) == "0" && t.r.Src(ce.Args[2]) == "64" {
			a, err := t.expr(ce.Args[0], env)
			if err != nil {
				return irTerm{}, true, err
			}
			if a.Ty == "Bytes" {
				return irTerm{fmt.Sprintf("(parseExpiresE clock %s)", a.S), "ExpSecs × Error"}, true, nil
			}
		}
		return irTerm{}, true, fmt.Errorf("only strconv.ParseUint(s, 0, 64) is modelled: %s", t.r.Src(e))
	case "time.ParseInLocation":
		if len(ce.Args) == 3 && t.r.Src(ce.Args[0]) == "timeFormat" && t.r.Src(ce.Args[2]) == "time.UTC" {
			a, err := t.expr(ce.Args[1], env)
			if err != nil {
				return irTerm{}, true, err
			}
			if a.Ty == "Bytes" {
				return irTerm{fmt.Sprintf("(parseTimeE clock %s)", a.S), "Time × Error"}, true, nil
			}
		}
		return irTerm{}, true, fmt.Errorf("only time.ParseInLocation(timeFormat, s, time.UTC) is modelled: %s", t.r.Src(e))
	}
	return c06StringsHook(t, e, env)
}

// c06SignerSpec: the SigningContext / Signer vocabulary shared by the signer translations.
func c06SignerSpec(name, binders string, bnames []string, retTy string) *irSpec {
	s := c06Base(name, binders, bnames, retTy)
	for k, v := range map[string]string{"Lit": "Literal", "Time": "Int", "Values": "Header", "HdrMap": "Header", "VE": "Option VErr",
		"ExpSecs": "Int"} {
		s.LeanTy[k] = v
	}
	s.GoTy["error"] = "VE"
	s.Fields = map[string]irField{"SCtx.literal": {Fmt: "lit", Ty: "Lit"}}
	for g, l := range c06LitFields {
		s.Fields["Lit."+g] = irField{Fmt: "%s." + l, Ty: "Bytes"}
	}
	s.Consts = map[string]irTerm{"time.Second": {"1000000000", "Int"}, "authHeader": {"authHeader", "Bytes"}, "hostHeader": {"hostHeader", "Bytes"}}
	s.Funcs["formatTime"] = irCall{Fmt: "(clock.fmtTime %[1]s)", Ty: "Bytes", NArgs: 1}
	s.Funcs["formatDate"] = irCall{Fmt: "(clock.fmtDate %[1]s)", Ty: "Bytes", NArgs: 1}
	s.Methods["Values.Get"] = irCall{Fmt: "(qget %[1]s %[2]s)", Ty: "Bytes", NArgs: 1}
	s.Methods["Values.Encode"] = irCall{Fmt: "(encode %[1]s)", Ty: "Bytes", NArgs: 0}
	s.Methods["HdrMap.Get"] = irCall{Fmt: "(hget %[1]s %[2]s)", Ty: "Bytes", NArgs: 1}
	s.StmtMethods = map[string]irStmtCall{
		"Values.Del": {NArgs: 1, Lets: []irLet{{"%[1]s", "Values", "(qdel %[1]s %[2]s)"}}},
		"Values.Set": {NArgs: 2, Lets: []irLet{{"%[1]s", "Values", "(qset %[1]s %[2]s %[3]s)"}}},
	}
	s.SliceTo = map[string]irCall{"Bytes": {Fmt: "(%[1]s.take (%[2]s : Int).toNat)", Ty: "Bytes"}}
	s.SliceRange = map[string]irCall{"List Bytes": {Fmt: "(sliceL %[1]s %[2]s %[3]s)", Ty: "List Bytes"}}
	s.Hook = c06VErrHook
	return s
}

func c06SignerIR(r *Repo, w *Lean) error {
	w.Line("set_option linter.unusedVariables false")
	w.Line("open EgVerif.Sha256 (Bytes)")
	w.Line("open EgVerif.Signer")
	w.Line("")

	// --- getCanonicalQuery ----------------------------------------------------------------
	s := c06SignerSpec("getCanonicalQueryIR",
		"(lit : Literal) (clock : Clock) (t : Int) (scope : Bytes) (isPresign : Bool) (keyId : Bytes) (expire : Int) (signedHeaders : Bytes) (q : Header)",
		[]string{"lit", "clock", "t", "scope", "isPresign", "keyId", "expire", "signedHeaders", "q"}, "Bytes × Header")
	s.Recv = irTerm{"()", "SCtx"}
	s.LeanTy["SCtx"] = "Unit"
	s.Params = []irTerm{{"", ""}}
	s.State = []irLet{{"query", "Values", "q"}}
	s.Fields["SCtx.Query"] = irField{Fmt: "query", Ty: "Values", State: true}
	s.Fields["SCtx.isPresign"] = irField{Fmt: "isPresign", Ty: "Bool"}
	s.Fields["SCtx.Time"] = irField{Fmt: "t", Ty: "Time"}
	s.Fields["SCtx.AccessKeyID"] = irField{Fmt: "keyId", Ty: "Bytes"}
	s.Fields["SCtx.scopeString"] = irField{Fmt: "scope", Ty: "Bytes"}
	s.Fields["SCtx.ExpireTime"] = irField{Fmt: "expire", Ty: "Int"}
	s.Fields["SCtx.SignedHeaders"] = irField{Fmt: "signedHeaders", Ty: "Bytes"}
	s.StmtHook = func(t *irT, st ast.Stmt, env *irEnv) ([]irLet, bool, error) {
		// for _, v := range <values> { sort.Strings(v) }: the value slices are sorted in place
		rs, ok := st.(*ast.RangeStmt)
		if !ok {
			return nil, false, nil
		}
		v, ok := rs.Value.(*ast.Ident)
		if !ok || len(rs.Body.List) != 1 || t.r.Src(rs.Body.List[0]) != "sort.Strings("+v.Name+")" {
			return nil, true, fmt.Errorf("unsupported loop over %s", t.r.Src(rs.X))
		}
		if k, ok := rs.Key.(*ast.Ident); !ok || k.Name != "_" {
			return nil, true, fmt.Errorf("unsupported loop over %s", t.r.Src(rs.X))
		}
		xs, err := t.expr(rs.X, env)
		if err != nil {
			return nil, true, err
		}
		if xs.Ty != "Values" {
			return nil, true, fmt.Errorf("sort loop over %s", xs.Ty)
		}
		if _, ok := env.keyOfLean(xs.S); !ok {
			return nil, true, fmt.Errorf("sort loop over an untracked value %s", xs.S)
		}
		return []irLet{{xs.S, "Values", "(sortValues " + xs.S + ")"}}, true, nil
	}
	s.Ret = func(v []irTerm) (string, error) {
		if len(v) != 1 || v[0].Ty != "Bytes" {
			return "", errUnsupportedReturn
		}
		return "(" + v[0].S + ", query)", nil
	}
	if err := irEmit(r, w, c06Signer, "SigningContext", "getCanonicalQuery", s,
		"Result: the returned string and `ctx.Query` afterwards. `for _, v := range ctx.Query { sort.Strings(v) }` is `sortValues`\n"+
			"(contract of sort.Strings on the aliased value slices); `Values.Del/Set/Encode` are `qdel/qset/encode`."); err != nil {
		return err
	}

	// --- initFromQuery / initFromHeader ---------------------------------------------------
	initSpec := func(name string) *irSpec {
		s := c06SignerSpec(name, "(lit : Literal) (clock : Clock) (req : Req)", []string{"lit", "clock", "req"}, "Except VErr Ctx")
		s.Recv = irTerm{"()", "SCtx"}
		s.LeanTy["SCtx"] = "Unit"
		s.Params = []irTerm{{"req", "Req"}}
		s.State = []irLet{{"ctx_presign", "Bool", "false"}, {"ctx_keyId", "Bytes", "[]"}, {"ctx_scopes", "List Bytes", "[]"},
			{"ctx_sh", "Bytes", "[]"}, {"ctx_sig", "Bytes", "[]"}, {"ctx_time", "Time", "0"}, {"ctx_expire", "Int", "0"}}
		s.Fields["SCtx.isPresign"] = irField{Fmt: "ctx_presign", Ty: "Bool", State: true}
		s.Fields["SCtx.AccessKeyID"] = irField{Fmt: "ctx_keyId", Ty: "Bytes", State: true}
		s.Fields["SCtx.Scopes"] = irField{Fmt: "ctx_scopes", Ty: "List Bytes", State: true}
		s.Fields["SCtx.SignedHeaders"] = irField{Fmt: "ctx_sh", Ty: "Bytes", State: true}
		s.Fields["SCtx.Signature"] = irField{Fmt: "ctx_sig", Ty: "Bytes", State: true}
		s.Fields["SCtx.Time"] = irField{Fmt: "ctx_time", Ty: "Time", State: true}
		s.Fields["SCtx.ExpireTime"] = irField{Fmt: "ctx_expire", Ty: "Int", State: true}
		s.Fields["SCtx.Query"] = irField{Fmt: "req.query", Ty: "Values"}
		s.Fields["Req.Header"] = irField{Fmt: "%s.headers", Ty: "HdrMap"}
		inner := s.Hook
		s.Hook = func(t *irT, e ast.Expr, env *irEnv) (irTerm, bool, error) {
			// time.Duration(v) * time.Second for v from ParseUint: the oracle `parseExpires` is the composite
			if be, ok := e.(*ast.BinaryExpr); ok && be.Op == token.MUL && t.r.Src(be.Y) == "time.Second" {
				if ce, ok := be.X.(*ast.CallExpr); ok && t.r.Src(ce.Fun) == "time.Duration" && len(ce.Args) == 1 {
					v, err := t.expr(ce.Args[0], env)
					if err == nil && v.Ty == "ExpSecs" {
						return irTerm{v.S, "Int"}, true, nil
					}
				}
			}
			return inner(t, e, env)
		}
		s.Ret = func(v []irTerm) (string, error) {
			if len(v) != 1 {
				return "", errUnsupportedReturn
			}
			switch v[0].Ty {
			case "nil":
				return ".ok ⟨ctx_presign, ctx_keyId, ctx_scopes, ctx_sh, ctx_sig, ctx_time, ctx_expire⟩", nil
			case "VE":
				return fmt.Sprintf("match %s with | some e__ => .error e__ | none => .ok ⟨ctx_presign, ctx_keyId, ctx_scopes, ctx_sh, ctx_sig, ctx_time, ctx_expire⟩", v[0].S), nil
			}
			return "", errUnsupportedReturn
		}
		return s
	}
	if err := irEmit(r, w, c06Signer, "SigningContext", "initFromQuery", initSpec("initFromQueryIR"),
		"Result: the error, or the context fields set. `time.ParseInLocation` / `ParseUint × Second` are the `Clock` oracles."); err != nil {
		return err
	}
	if err := irEmit(r, w, c06Signer, "SigningContext", "initFromHeader", initSpec("initFromHeaderIR"), ""); err != nil {
		return err
	}

	// --- initFromSignedRequest ------------------------------------------------------------
	s = c06SignerSpec("initFromSignedRequestIR", "(lit : Literal) (clock : Clock) (req : Req)", []string{"lit", "clock", "req"},
		"Option VErr × Ctx × Bytes")
	s.Recv = irTerm{"()", "SCtx"}
	s.LeanTy["SCtx"], s.LeanTy["CtxT"], s.LeanTy["URLT"] = "Unit", "Ctx", "Req"
	s.Params = []irTerm{{"req", "Req"}}
	s.AllowShadow = true
	const ctx0 = "(exceptCtx (Except.error VErr.badQuery))"
	s.State = []irLet{{"ctx_query", "Values", "[]"}, {"ctx_c", "CtxT", ctx0}, {"ctx_ch", "Bytes", "[]"}}
	s.Fields["SCtx.Query"] = irField{Fmt: "ctx_query", Ty: "Values", State: true}
	s.Fields["SCtx.CanonicalHeaders"] = irField{Fmt: "ctx_ch", Ty: "Bytes", State: true}
	s.Fields["SCtx.SignedHeaders"] = irField{Fmt: "ctx_c.signedHeaders", Ty: "Bytes"}
	s.Fields["Req.Header"] = irField{Fmt: "%s.headers", Ty: "HdrMap"}
	s.Fields["Req.URL"] = irField{Fmt: "%s", Ty: "URLT"}
	s.Methods["URLT.Query"] = irCall{Fmt: "%[1]s.query", Ty: "Values", NArgs: 0} // the code before the repair
	s.Methods["Buf.String"] = irCall{Fmt: "%[1]s", Ty: "Bytes", NArgs: 0}
	s.StmtMethods["Buf.WriteByte"] = irStmtCall{NArgs: 1, Lets: []irLet{{"%[1]s", "Buf", "(%[1]s ++ [%[2]s])"}}}
	s.StmtMethods["Buf.WriteString"] = irStmtCall{NArgs: 1, Lets: []irLet{{"%[1]s", "Buf", "(%[1]s ++ %[2]s)"}}}
	s.Funcs["getHost"] = irCall{Fmt: "(getHost %[1]s)", Ty: "Bytes", NArgs: 1}
	s.Funcs["buildCanonicalHeaderValue"] = irCall{Fmt: "(canonValue %[1]s)", Ty: "Bytes", NArgs: 1}
	s.Funcs["textproto.CanonicalMIMEHeaderKey"] = irCall{Fmt: "(canonKey %[1]s)", Ty: "Bytes", NArgs: 1}
	s.Index["HdrMap"] = irCall{Fmt: "(hvals %[1]s %[2]s)", Ty: "List Bytes"}
	s.EffMethods = map[string]irEffCall{
		"SCtx.initFromHeader": {NArgs: 1, Pre: []irLet{{"ctx_c", "CtxT", "(exceptCtx (initFromHeader lit clock %[2]s))"}},
			Fmt: "(exceptErr (initFromHeader lit clock %[2]s))", Ty: "VE"},
		"SCtx.initFromQuery": {NArgs: 1, Pre: []irLet{{"ctx_c", "CtxT", "(exceptCtx (initFromQuery lit clock %[2]s))"}},
			Fmt: "(exceptErr (initFromQuery lit clock %[2]s))", Ty: "VE"},
	}
	s.Ignore = func(src string, st ast.Stmt) bool { return c06IsCallTo(st, "buildScopeString") }
	innerInit := s.Hook
	s.Hook = func(t *irT, e ast.Expr, env *irEnv) (irTerm, bool, error) {
		// url.ParseQuery(req.URL.RawQuery): the pairs that parse, and whether some pair did not
		if ce, ok := e.(*ast.CallExpr); ok && t.r.Src(ce.Fun) == "url.ParseQuery" && len(ce.Args) == 1 {
			if se, ok := ce.Args[0].(*ast.SelectorExpr); ok && se.Sel.Name == "RawQuery" {
				u, err := t.expr(se.X, env)
				if err == nil && u.Ty == "URLT" {
					return irTerm{fmt.Sprintf("(%s.query, %s.queryErr)", u.S, u.S), "Values × Error"}, true, nil
				}
			}
			return irTerm{}, true, fmt.Errorf("unsupported %s", t.r.Src(e))
		}
		return innerInit(t, e, env)
	}
	s.Ret = func(v []irTerm) (string, error) {
		if len(v) != 1 {
			return "", errUnsupportedReturn
		}
		switch v[0].Ty {
		case "nil":
			return "(none, ctx_c, ctx_ch)", nil
		case "VE":
			return "(" + v[0].S + ", " + ctx0 + ", [])", nil
		}
		return "", errUnsupportedReturn
	}
	if err := irEmit(r, w, c06Signer, "SigningContext", "initFromSignedRequest", s,
		"Result: the error returned, the context fields set by `initFromHeader` / `initFromQuery` (the model's functions, tied above),\n"+
			"and `ctx.CanonicalHeaders` as rebuilt from the signed-header list. `url.ParseQuery(req.URL.RawQuery)` = (`req.query`,\n"+
			"`req.queryErr`); `req.URL.Query()` (the code before fixes/C06-signature-query-unparsed.patch) = `req.query` with the error dropped."); err != nil {
		return err
	}

	// --- Verify ---------------------------------------------------------------------------
	s = c06SignerSpec("verifyIR", "(cfg : Cfg) (cr : Crypto) (clock : Clock) (now : Int) (req : Req) (body : Option Bytes)",
		[]string{"cfg", "cr", "clock", "now", "req", "body"}, "Except VErr Unit")
	s.Recv = irTerm{"cfg", "Signer"}
	s.Params = []irTerm{{"req", "Req"}}
	s.LeanTy["Signer"], s.LeanTy["SCtx"], s.LeanTy["OptStore"] = "Cfg", "Unit", "Option (List (Bytes × Bytes))"
	const ictx = "(exceptCtx (initFromSignedRequest cfg.lit clock req))"
	s.State = []irLet{{"ctx_secret", "Bytes", "[]"}, {"ctx_sig", "Bytes", ictx + ".signature"}, {"ctx_bodyHash", "Bytes", "[]"}}
	s.Fields["Signer.accessKeyStore"] = irField{Fmt: "(some %s.store)", Ty: "OptStore"}
	s.Fields["SCtx.Time"] = irField{Fmt: ictx + ".time", Ty: "Time"}
	s.Fields["SCtx.ttl"] = irField{Fmt: "cfg.ttl", Ty: "Int"}
	s.Fields["SCtx.isPresign"] = irField{Fmt: ictx + ".presign", Ty: "Bool"}
	s.Fields["SCtx.ExpireTime"] = irField{Fmt: ictx + ".expire", Ty: "Int"}
	s.Fields["SCtx.AccessKeyID"] = irField{Fmt: ictx + ".keyId", Ty: "Bytes"}
	s.Fields["SCtx.AccessKeySecret"] = irField{Fmt: "ctx_secret", Ty: "Bytes", State: true}
	s.Fields["SCtx.Signature"] = irField{Fmt: "ctx_sig", Ty: "Bytes", State: true}
	s.Funcs["time.Now"] = irCall{Fmt: "now", Ty: "Time", NArgs: 0}
	s.Methods["Time.Sub"] = irCall{Fmt: "(%[1]s - %[2]s)", Ty: "Int", NArgs: 1}
	s.Methods["SCtx.initFromSignedRequest"] = irCall{Fmt: "(exceptErr (initFromSignedRequest cfg.lit clock %[2]s))", Ty: "VE", NArgs: 1}
	s.Methods["OptStore.GetSecret"] = irCall{Fmt: "(getSecretE cfg.store %[2]s)", Ty: "Bytes × Bool", NArgs: 1}
	s.EffMethods = map[string]irEffCall{
		"SCtx.hashBody": {NArgs: 2, Pre: []irLet{{"ctx_bodyHash", "Bytes", "(hashBodyAny %[3]s cfg cr %[2]s body)"}}, Fmt: "(none : Option VErr)", Ty: "VE"},
	}
	s.StmtMethods["SCtx.sign"] = irStmtCall{NArgs: 1, Lets: []irLet{{"ctx_sig", "Bytes",
		"(expectedSignatureBH cfg cr clock " + ictx + " ctx_secret %[2]s ctx_bodyHash)"}}}
	s.Panic = ".error VErr.unknownKey"
	inner := s.Hook
	s.Hook = func(t *irT, e ast.Expr, env *irEnv) (irTerm, bool, error) {
		// ctx := &SigningContext{Signer: signer}: a fresh context of this signer
		if ue, ok := e.(*ast.UnaryExpr); ok && ue.Op == token.AND {
			if cl, ok := ue.X.(*ast.CompositeLit); ok && t.r.Src(cl.Type) == "SigningContext" && len(cl.Elts) == 1 {
				if kv, ok := cl.Elts[0].(*ast.KeyValueExpr); ok && t.r.Src(kv.Key) == "Signer" {
					v, err := t.expr(kv.Value, env)
					if err == nil && v.Ty == "Signer" {
						return irTerm{"()", "SCtx"}, true, nil
					}
				}
			}
			return irTerm{}, true, fmt.Errorf("unsupported %s", t.r.Src(e))
		}
		return inner(t, e, env)
	}
	s.Ret = func(v []irTerm) (string, error) {
		if len(v) != 1 {
			return "", errUnsupportedReturn
		}
		switch v[0].Ty {
		case "nil":
			return ".ok ()", nil
		case "VE":
			return "(veRet " + v[0].S + ")", nil
		}
		return "", errUnsupportedReturn
	}
	return irEmit(r, w, c06Signer, "Signer", "Verify", s,
		"`now` = the one `time.Now()` read; `ctx.initFromSignedRequest`, `ctx.sign` are the model's functions (`expectedSignatureBH` with the\n"+
			"body hash that `ctx.hashBody(req, verify)` left: `hashBodyAny verify`); `body` = what reading `req.Body` yields; the access key\n"+
			"store is set (otherwise Verify panics: C13).")
}

// c06ByteHook: byte arithmetic of buildCanonicalURI (`c>>4`, `c&0x0f`, indexing by a byte) on top of the strings hook.
func c06ByteHook(t *irT, e ast.Expr, env *irEnv) (irTerm, bool, error) {
	switch x := e.(type) {
	case *ast.BinaryExpr:
		if x.Op == token.SHR || x.Op == token.AND {
			a, err := t.expr(x.X, env)
			if err != nil {
				return irTerm{}, true, err
			}
			n, err := t.expr(x.Y, env)
			if err != nil {
				return irTerm{}, true, err
			}
			if a.Ty != "Byte" || n.Ty != "lit" {
				return irTerm{}, true, fmt.Errorf("unsupported operands in %s", t.r.Src(e))
			}
			op := ">>>"
			if x.Op == token.AND {
				op = "&&&"
			}
			return irTerm{fmt.Sprintf("(%s %s (%s : UInt8))", a.S, op, n.S), "Byte"}, true, nil
		}
	case *ast.IndexExpr:
		i, err := t.tryExpr(x.Index, env)
		if err == nil && i.Ty == "Byte" {
			c, err := t.expr(x.X, env)
			if err != nil {
				return irTerm{}, true, err
			}
			i, _ = t.expr(x.Index, env)
			switch c.Ty {
			case "Bytes":
				return irTerm{fmt.Sprintf("(%s.getD %s.toNat 0)", c.S, i.S), "Byte"}, true, nil
			case "NoEscTbl":
				return irTerm{fmt.Sprintf("(noEscapeIR (Int.ofNat %s.toNat))", i.S), "Bool"}, true, nil
			}
			return irTerm{}, true, fmt.Errorf("indexing %s by a byte", c.Ty)
		}
	}
	return c06StringsHook(t, e, env)
}

// c06CanonIR: module Gen.FactsC06CanonIR — the noEscapeChars table (filled in init()), buildCanonicalURI, buildCanonicalHeaders.
func c06CanonIR(r *Repo, w *Lean) error {
	w.Line("set_option linter.unusedVariables false")
	w.Line("open EgVerif.Sha256 (Bytes)")
	w.Line("open EgVerif.Signer")
	w.Line("")

	// --- noEscapeChars: `for i := range noEscapeChars { noEscapeChars[i] = <expr in i> }` in init() -----------
	fi, err := r.Func(c06Signer, "", "init")
	if err != nil {
		return err
	}
	var rhs ast.Expr
	ivar := ""
	if len(fi.Body.List) == 1 {
		if rs, ok := fi.Body.List[0].(*ast.RangeStmt); ok && r.Src(rs.X) == "noEscapeChars" && rs.Value == nil && len(rs.Body.List) == 1 {
			if k, ok := rs.Key.(*ast.Ident); ok {
				if as, ok := rs.Body.List[0].(*ast.AssignStmt); ok && as.Tok == token.ASSIGN && len(as.Lhs) == 1 && len(as.Rhs) == 1 &&
					r.Src(as.Lhs[0]) == "noEscapeChars["+k.Name+"]" {
					rhs, ivar = as.Rhs[0], k.Name
				}
			}
		}
	}
	if rhs == nil {
		return fmt.Errorf("init: not of the shape `for i := range noEscapeChars { noEscapeChars[i] = … }`")
	}
	ns := c06Base("noEscapeIR", "(i : Int)", []string{"i"}, "Bool")
	ns.CharTy, ns.CharFmt = "lit", "%d" // untyped rune constants compared with the int index
	nt := &irT{r: r, spec: ns}
	nenv := (&irEnv{vars: map[string]irVar{}}).with(ivar, irVar{Lean: "i", Ty: "Int", Param: true})
	ne, err := nt.expr(rhs, nenv)
	if err != nil {
		return fmt.Errorf("init: %v", err)
	}
	if ne.Ty != "Bool" {
		return fmt.Errorf("init: table entry of type %s", ne.Ty)
	}
	w.Line("/-! `noEscapeChars[i]` as assigned by `init()` in %s (`for %s := range noEscapeChars { noEscapeChars[%s] = … }`). -/", c06Signer, ivar, ivar)
	w.Line("def noEscapeIR (i : Int) : Bool :=\n  %s", ne.S)
	w.Line("")

	// --- buildCanonicalURI ----------------------------------------------------------------
	s := c06Base("buildCanonicalURIIR", "(opq epath : Bytes)", []string{"opq", "epath"}, "Bytes")
	s.Params = []irTerm{{"()", "URL"}}
	s.LeanTy["URL"] = "Unit"
	s.Fields = map[string]irField{"URL.Opaque": {Fmt: "opq", Ty: "Bytes"}}
	s.Methods["URL.EscapedPath"] = irCall{Fmt: "epath", Ty: "Bytes", NArgs: 0}
	s.Methods["Buf.String"] = irCall{Fmt: "%[1]s", Ty: "Bytes", NArgs: 0}
	s.StmtMethods = map[string]irStmtCall{
		"Buf.WriteByte":   {NArgs: 1, Lets: []irLet{{"%[1]s", "Buf", "(%[1]s ++ [%[2]s])"}}},
		"Buf.WriteString": {NArgs: 1, Lets: []irLet{{"%[1]s", "Buf", "(%[1]s ++ %[2]s)"}}},
	}
	s.Consts = map[string]irTerm{"noEscapeChars": {"()", "NoEscTbl"}}
	s.LeanTy["NoEscTbl"] = "Unit"
	s.Index["Bytes"] = irCall{Fmt: "(%[1]s.getD (%[2]s : Int).toNat 0)", Ty: "Byte"}
	s.SliceFrom["List Bytes"] = irCall{Fmt: "(%[1]s.drop (%[2]s : Int).toNat)", Ty: "List Bytes"}
	s.Hook = c06ByteHook
	s.Ret = func(v []irTerm) (string, error) {
		if len(v) != 1 || v[0].Ty != "Bytes" {
			return "", errUnsupportedReturn
		}
		return v[0].S, nil
	}
	if err := irEmit(r, w, c06Signer, "", "buildCanonicalURI", s,
		"`opq` = `u.Opaque`, `epath` = `u.EscapedPath()`; `noEscapeChars[c]` is `noEscapeIR c` above."); err != nil {
		return err
	}

	// --- buildCanonicalHeaderValue --------------------------------------------------------
	s = c06Base("buildCanonicalHeaderValueIR", "(strs : List Bytes)", []string{"strs"}, "Option Bytes")
	s.Params = []irTerm{{"strs", "List Bytes"}}
	s.Ext.RangeKeyTy = "Int"
	s.Panic = "none"
	s.WhileFuel = []string{"str.length + 1", "str.length + 1", "str.length + 1"}
	s.Methods["Buf.String"] = irCall{Fmt: "%[1]s", Ty: "Bytes", NArgs: 0}
	s.StmtMethods = map[string]irStmtCall{
		"Buf.WriteByte":   {NArgs: 1, Lets: []irLet{{"%[1]s", "Buf", "(%[1]s ++ [%[2]s])"}}},
		"Buf.WriteString": {NArgs: 1, Lets: []irLet{{"%[1]s", "Buf", "(%[1]s ++ %[2]s)"}}},
	}
	s.Index["Bytes"] = irCall{Fmt: "(%[1]s.getD (%[2]s : Int).toNat 0)", Ty: "Byte"}
	s.SliceRange = map[string]irCall{"Bytes": {Fmt: "(sliceL %[1]s %[2]s %[3]s)", Ty: "Bytes"}}
	s.Ret = func(v []irTerm) (string, error) {
		if len(v) != 1 || v[0].Ty != "Bytes" {
			return "", errUnsupportedReturn
		}
		return "some " + v[0].S, nil
	}
	if err := irEmit(r, w, c06Signer, "", "buildCanonicalHeaderValue", s,
		"The three inner `for` loops are general loops: recursion on the fuel `len(str) + 1`; `none` = the fuel ran out (the theorem\n"+
			"`= some (canonValue strs)` shows it never does)."); err != nil {
		return err
	}

	// --- getHost --------------------------------------------------------------------------
	s = c06Base("getHostIR", "(req : Req)", []string{"req"}, "Bytes")
	s.Params = []irTerm{{"req", "ReqG"}}
	s.LeanTy["ReqG"], s.LeanTy["URLG"] = "Req", "Req"
	s.Fields = map[string]irField{"ReqG.Host": {Fmt: "%s.host", Ty: "Bytes"}, "ReqG.URL": {Fmt: "%s", Ty: "URLG"},
		"URLG.Host": {Fmt: "%s.urlHost", Ty: "Bytes"}, "URLG.Scheme": {Fmt: "%s.scheme", Ty: "Bytes"}}
	s.Index["Bytes"] = irCall{Fmt: "(%[1]s.getD (%[2]s : Int).toNat 0)", Ty: "Byte"}
	s.SliceTo = map[string]irCall{"Bytes": {Fmt: "(%[1]s.take (%[2]s : Int).toNat)", Ty: "Bytes"}}
	s.Ret = func(v []irTerm) (string, error) {
		if len(v) != 1 || v[0].Ty != "Bytes" {
			return "", errUnsupportedReturn
		}
		return v[0].S, nil
	}
	if err := irEmit(r, w, c06Signer, "", "getHost", s, ""); err != nil {
		return err
	}

	// --- buildCanonicalHeaders ------------------------------------------------------------
	s = c06SignerSpec("buildCanonicalHeadersIR", "(cfg : Cfg) (hoist : Bytes → Bool) (req : Req) (q : Header)",
		[]string{"cfg", "hoist", "req", "q"}, "Bytes × Bytes × Header")
	s.Recv = irTerm{"()", "SCtx"}
	s.LeanTy["SCtx"], s.LeanTy["Pair"], s.LeanTy["IgnTbl"] = "Unit", "Bytes × Bytes", "Unit"
	s.Params = []irTerm{{"req", "Req"}}
	s.State = []irLet{{"ctx_sh", "Bytes", "[]"}, {"ctx_ch", "Bytes", "[]"}, {"query", "Values", "q"}}
	s.Fields["SCtx.SignedHeaders"] = irField{Fmt: "ctx_sh", Ty: "Bytes", State: true}
	s.Fields["SCtx.CanonicalHeaders"] = irField{Fmt: "ctx_ch", Ty: "Bytes", State: true}
	s.Fields["SCtx.Query"] = irField{Fmt: "query", Ty: "Values", State: true}
	s.Fields["SCtx.ignoredHeaders"] = irField{Fmt: "()", Ty: "IgnTbl"}
	s.Fields["Req.Header"] = irField{Fmt: "%s.headers", Ty: "HdrMap"}
	s.Fields["Pair.Name"] = irField{Fmt: "%s.1", Ty: "Bytes"}
	s.Fields["Pair.Value"] = irField{Fmt: "%s.2", Ty: "Bytes"}
	s.RangeKV = map[string][2]string{"HdrMap": {"Bytes", "List Bytes"}}
	s.Ext.RangeKeyTy = "Int"
	s.Index["IgnTbl"] = irCall{Fmt: "(isIgnored cfg %[2]s)", Ty: "Bool"}
	s.IndexSet = map[string]string{"Values": "(setKey %[2]s %[3]s %[1]s)"}
	s.Methods["SCtx.needHoisting"] = irCall{Fmt: "(hoist %[2]s)", Ty: "Bool", NArgs: 1}
	s.Methods["Buf.String"] = irCall{Fmt: "%[1]s", Ty: "Bytes", NArgs: 0}
	s.StmtMethods["Buf.WriteByte"] = irStmtCall{NArgs: 1, Lets: []irLet{{"%[1]s", "Buf", "(%[1]s ++ [%[2]s])"}}}
	s.StmtMethods["Buf.WriteString"] = irStmtCall{NArgs: 1, Lets: []irLet{{"%[1]s", "Buf", "(%[1]s ++ %[2]s)"}}}
	s.Funcs["getHost"] = irCall{Fmt: "(getHost %[1]s)", Ty: "Bytes", NArgs: 1}
	s.Funcs["buildCanonicalHeaderValue"] = irCall{Fmt: "(canonValue %[1]s)", Ty: "Bytes", NArgs: 1}
	s.Funcs["append:List Pair"] = irCall{Fmt: "(%[1]s ++ [%[2]s])", Ty: "List Pair", NArgs: 2}
	s.Ignore = func(src string, st ast.Stmt) bool { // the local `type pair struct{Name, Value string}`
		ds, ok := st.(*ast.DeclStmt)
		if !ok {
			return false
		}
		gd, ok := ds.Decl.(*ast.GenDecl)
		return ok && gd.Tok == token.TYPE
	}
	inner := s.Hook
	s.Hook = func(t *irT, e ast.Expr, env *irEnv) (irTerm, bool, error) {
		switch x := e.(type) {
		case *ast.CompositeLit: // pair{Name: a, Value: b}
			if t.r.Src(x.Type) == "pair" && len(x.Elts) == 2 {
				var name, val *irTerm
				for _, el := range x.Elts {
					kv, ok := el.(*ast.KeyValueExpr)
					if !ok {
						return irTerm{}, true, fmt.Errorf("unsupported %s", t.r.Src(e))
					}
					v, err := t.expr(kv.Value, env)
					if err != nil {
						return irTerm{}, true, err
					}
					switch t.r.Src(kv.Key) {
					case "Name":
						name = &v
					case "Value":
						val = &v
					}
				}
				if name != nil && val != nil && name.Ty == "Bytes" && val.Ty == "Bytes" {
					return irTerm{"(" + name.S + ", " + val.S + ")", "Pair"}, true, nil
				}
			}
			return irTerm{}, true, fmt.Errorf("unsupported %s", t.r.Src(e))
		case *ast.CallExpr: // make([]pair, 0, n): an empty list
			if t.r.Src(x.Fun) == "make" && len(x.Args) >= 2 && t.r.Src(x.Args[0]) == "[]pair" && t.r.Src(x.Args[1]) == "0" {
				return irTerm{"[]", "List Pair"}, true, nil
			}
		}
		return inner(t, e, env)
	}
	s.StmtHook = func(t *irT, st ast.Stmt, env *irEnv) ([]irLet, bool, error) {
		// sort.Slice(xs, func(i, j int) bool { return xs[i].Name < xs[j].Name }): sort by name
		es, ok := st.(*ast.ExprStmt)
		if !ok {
			return nil, false, nil
		}
		ce, ok := es.X.(*ast.CallExpr)
		if !ok || t.r.Src(ce.Fun) != "sort.Slice" {
			return nil, false, nil
		}
		if len(ce.Args) != 2 {
			return nil, true, fmt.Errorf("unsupported %s", t.r.Src(st))
		}
		xs, err := t.expr(ce.Args[0], env)
		if err != nil {
			return nil, true, err
		}
		fl, ok := ce.Args[1].(*ast.FuncLit)
		if !ok || xs.Ty != "List Pair" || fl.Type.Params == nil {
			return nil, true, fmt.Errorf("unsupported %s", t.r.Src(st))
		}
		var ps []string
		for _, f := range fl.Type.Params.List {
			for _, n := range f.Names {
				ps = append(ps, n.Name)
			}
		}
		x := t.r.Src(ce.Args[0])
		if len(ps) != 2 || len(fl.Body.List) != 1 ||
			t.r.Src(fl.Body.List[0]) != fmt.Sprintf("return %s[%s].Name < %s[%s].Name", x, ps[0], x, ps[1]) {
			return nil, true, fmt.Errorf("sort.Slice: the less function is not `%s[i].Name < %s[j].Name`", x, x)
		}
		if _, ok := env.keyOfLean(xs.S); !ok {
			return nil, true, fmt.Errorf("sort.Slice of an untracked value")
		}
		return []irLet{{xs.S, "List Pair", "(sortBy (·.1) " + xs.S + ")"}}, true, nil
	}
	s.Ret = func(v []irTerm) (string, error) {
		if len(v) != 0 {
			return "", errUnsupportedReturn
		}
		return "(ctx_sh, ctx_ch, query)", nil
	}
	return irEmit(r, w, c06Signer, "SigningContext", "buildCanonicalHeaders", s,
		"Result: `ctx.SignedHeaders`, `ctx.CanonicalHeaders`, `ctx.Query` afterwards. `req.Header` is iterated in list order (Go's map\n"+
			"order is unspecified; the list is sorted by name afterwards). `sort.Slice(headers, less-by-Name)` is `sortBy (·.1)` (contract of\n"+
			"sort.Slice; names are distinct after lower-casing: recorded assumption). `hoist` = `ctx.needHoisting` (header hoisting is a\n"+
			"client-side Presign option outside the model: the theorem takes `hoist = fun _ => false`). `buildCanonicalHeaderValue` is the\n"+
			"model's `canonValue` (not translated: see notes/C06.md).")
}

// c06SignIR: module Gen.FactsC06SignIR — buildScopeString, deriveSigningKey, hashCanonicalRequest, sign
// (what is hashed and MAC'ed, in which order; callees' results are binders).
func c06SignIR(r *Repo, w *Lean) error {
	w.Line("set_option linter.unusedVariables false")
	w.Line("open EgVerif.Sha256 (Bytes)")
	w.Line("open EgVerif.Signer")
	w.Line("")
	bufSpec := func(s *irSpec) {
		s.Recv = irTerm{"()", "SCtx"}
		s.LeanTy["SCtx"], s.LeanTy["RawBytes"] = "Unit", "Bytes"
		s.Methods["Buf.String"] = irCall{Fmt: "%[1]s", Ty: "Bytes", NArgs: 0}
		s.Methods["Buf.Bytes"] = irCall{Fmt: "%[1]s", Ty: "RawBytes", NArgs: 0}
		s.StmtMethods["Buf.WriteByte"] = irStmtCall{NArgs: 1, Lets: []irLet{{"%[1]s", "Buf", "(%[1]s ++ [%[2]s])"}}}
		s.StmtMethods["Buf.WriteString"] = irStmtCall{NArgs: 1, Lets: []irLet{{"%[1]s", "Buf", "(%[1]s ++ %[2]s)"}}}
		s.Conv["[]byte:Bytes"] = irCall{Fmt: "%[1]s", Ty: "RawBytes"}
		s.Funcs["hmacDigest"] = irCall{Fmt: "(cr.hmac %[1]s %[2]s)", Ty: "RawBytes", NArgs: 2}
		s.Funcs["sha256DegistAndEncodeToHexString"] = irCall{Fmt: "(cr.sha256hex %[1]s)", Ty: "Bytes", NArgs: 1}
		s.Funcs["hex.EncodeToString"] = irCall{Fmt: "(Sha256.hex %[1]s)", Ty: "Bytes", NArgs: 1}
	}
	retBytes := func(v []irTerm) (string, error) {
		if len(v) != 1 || (v[0].Ty != "Bytes" && v[0].Ty != "RawBytes") {
			return "", errUnsupportedReturn
		}
		return v[0].S, nil
	}

	// --- buildScopeString -----------------------------------------------------------------
	s := c06SignerSpec("buildScopeStringIR", "(lit : Literal) (clock : Clock) (timeIsZero : Bool) (now tm : Int) (scopes : List Bytes)",
		[]string{"lit", "clock", "timeIsZero", "now", "tm", "scopes"}, "Bytes × Int")
	bufSpec(s)
	s.State = []irLet{{"ctx_time", "Time", "tm"}, {"ctx_scope", "Bytes", "[]"}}
	s.Fields["SCtx.Time"] = irField{Fmt: "ctx_time", Ty: "Time", State: true}
	s.Fields["SCtx.scopeString"] = irField{Fmt: "ctx_scope", Ty: "Bytes", State: true}
	s.Fields["SCtx.Scopes"] = irField{Fmt: "scopes", Ty: "List Bytes"}
	s.Methods["Time.IsZero"] = irCall{Fmt: "timeIsZero", Ty: "Bool", NArgs: 0}
	s.Methods["Time.UTC"] = irCall{Fmt: "%[1]s", Ty: "Time", NArgs: 0}
	s.Funcs["time.Now"] = irCall{Fmt: "now", Ty: "Time", NArgs: 0}
	inner := s.Hook
	s.Hook = func(t *irT, e ast.Expr, env *irEnv) (irTerm, bool, error) {
		if cl, ok := e.(*ast.CompositeLit); ok && t.r.Src(cl.Type) == "bytes.Buffer" && len(cl.Elts) == 0 {
			return irTerm{"[]", "Buf"}, true, nil
		}
		return inner(t, e, env)
	}
	s.Ret = func(v []irTerm) (string, error) {
		if len(v) != 0 {
			return "", errUnsupportedReturn
		}
		return "(ctx_scope, ctx_time)", nil
	}
	if err := irEmit(r, w, c06Signer, "SigningContext", "buildScopeString", s,
		"Result: `ctx.scopeString` and `ctx.Time` afterwards; `timeIsZero` = `ctx.Time.IsZero()`, `now` = `time.Now().UTC()`."); err != nil {
		return err
	}

	// --- deriveSigningKey -----------------------------------------------------------------
	s = c06SignerSpec("deriveSigningKeyIR", "(lit : Literal) (cr : Crypto) (clock : Clock) (secret : Bytes) (tm : Int) (scopes : List Bytes)",
		[]string{"lit", "cr", "clock", "secret", "tm", "scopes"}, "Bytes")
	bufSpec(s)
	s.Fields["SCtx.Time"] = irField{Fmt: "tm", Ty: "Time"}
	s.Fields["SCtx.Scopes"] = irField{Fmt: "scopes", Ty: "List Bytes"}
	s.Fields["SCtx.AccessKeySecret"] = irField{Fmt: "secret", Ty: "Bytes"}
	s.Ret = retBytes
	if err := irEmit(r, w, c06Signer, "SigningContext", "deriveSigningKey", s, "`hmacDigest` = `cr.hmac`."); err != nil {
		return err
	}

	// --- hashCanonicalRequest -------------------------------------------------------------
	s = c06SignerSpec("hashCanonicalRequestIR", "(cr : Crypto) (method uri cq ch sh bh : Bytes)",
		[]string{"cr", "method", "uri", "cq", "ch", "sh", "bh"}, "Bytes")
	bufSpec(s)
	s.Params = []irTerm{{"()", "ReqP"}}
	s.LeanTy["ReqP"], s.LeanTy["URLP"] = "Unit", "Unit"
	s.Fields["ReqP.Method"] = irField{Fmt: "method", Ty: "Bytes"}
	s.Fields["ReqP.URL"] = irField{Fmt: "()", Ty: "URLP"}
	s.Fields["SCtx.CanonicalHeaders"] = irField{Fmt: "ch", Ty: "Bytes"}
	s.Fields["SCtx.SignedHeaders"] = irField{Fmt: "sh", Ty: "Bytes"}
	s.Fields["SCtx.BodyHash"] = irField{Fmt: "bh", Ty: "Bytes"}
	s.Funcs["buildCanonicalURI"] = irCall{Fmt: "uri", Ty: "Bytes", NArgs: 1}
	s.Methods["SCtx.getCanonicalQuery"] = irCall{Fmt: "cq", Ty: "Bytes", NArgs: 1}
	s.Ret = retBytes
	if err := irEmit(r, w, c06Signer, "SigningContext", "hashCanonicalRequest", s,
		"`uri` = `buildCanonicalURI(req.URL)`, `cq` = `ctx.getCanonicalQuery(req.URL)` (both tied by their own translations); `ch`, `sh`, `bh` = the\n"+
			"context's CanonicalHeaders, SignedHeaders, BodyHash."); err != nil {
		return err
	}

	// --- sign -----------------------------------------------------------------------------
	s = c06SignerSpec("signIR", "(lit : Literal) (cr : Crypto) (clock : Clock) (tm : Int) (scope hcrIn keyIn : Bytes)",
		[]string{"lit", "cr", "clock", "tm", "scope", "hcrIn", "keyIn"}, "Bytes")
	bufSpec(s)
	s.Params = []irTerm{{"()", "ReqP"}}
	s.LeanTy["ReqP"] = "Unit"
	s.State = []irLet{{"ctx_sig", "Bytes", "[]"}}
	s.Fields["SCtx.Time"] = irField{Fmt: "tm", Ty: "Time"}
	s.Fields["SCtx.scopeString"] = irField{Fmt: "scope", Ty: "Bytes"}
	s.Fields["SCtx.Signature"] = irField{Fmt: "ctx_sig", Ty: "Bytes", State: true}
	s.Methods["SCtx.hashCanonicalRequest"] = irCall{Fmt: "hcrIn", Ty: "Bytes", NArgs: 1}
	s.Methods["SCtx.deriveSigningKey"] = irCall{Fmt: "keyIn", Ty: "RawBytes", NArgs: 0}
	s.Ret = func(v []irTerm) (string, error) {
		if len(v) != 0 {
			return "", errUnsupportedReturn
		}
		return "ctx_sig", nil
	}
	return irEmit(r, w, c06Signer, "SigningContext", "sign", s,
		"Result: `ctx.Signature`. `hcrIn` = `ctx.hashCanonicalRequest(req)`, `keyIn` = `ctx.deriveSigningKey()` (tied by their own translations).")
}

func init() {
	register(Extractor{Module: "FactsC06SignIR", Imports: []string{"EgVerif.Model.Signer"}, Run: c06SignIR})
	register(Extractor{Module: "FactsC06SignerIR", Imports: []string{"EgVerif.Model.Signer"}, Run: c06SignerIR})
	register(Extractor{Module: "FactsC06CanonIR", Imports: []string{"EgVerif.Model.Signer"}, Run: c06CanonIR})
}
