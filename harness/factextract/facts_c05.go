package main

// Facts for C05: the three allowIP calls of muxInstance.search, the decision
// switch of IPFilter.Allow and the mask choice of ipfilter.New.

import (
	"fmt"
	"go/ast"
	"strings"
)

const ipfFile = "pkg/util/ipfilter/ipfilter.go"
const muxFileC05 = "pkg/object/httpserver/mux.go"

func init() {
	register(Extractor{Module: "FactsC05", Run: func(r *Repo, w *Lean) error {
		search, err := r.Func(muxFileC05, "muxInstance", "search")
		if err != nil {
			return err
		}
		// Every consultation of an IP filter by the cache-less part of `search`: calls of
		// `allowIP(X, ip)` or of the local closure `allow(X)` (which must end in
		// `return allowIP(f, ip)`), outside function literals, in source order. A denial
		// must lead to `return forbidden`: either `if !call { return forbidden }` or
		// `v := call` with an `if !v { return forbidden }` in the same block.
		var args []string
		allForbidden := true
		closureOK := true
		var visit func(list []ast.Stmt)
		isCheck := func(e ast.Expr) (string, bool) {
			ce, is := e.(*ast.CallExpr)
			if !is {
				return "", false
			}
			f := r.Src(ce.Fun)
			if (f == "allowIP" && len(ce.Args) == 2) || (f == "allow" && len(ce.Args) == 1) {
				return r.Src(ce.Args[0]), true
			}
			return "", false
		}
		deniesForbidden := func(ifs *ast.IfStmt) bool {
			return len(ifs.Body.List) == 1 && r.Src(ifs.Body.List[0]) == "return forbidden" && ifs.Else == nil
		}
		visit = func(list []ast.Stmt) {
			for i, st := range list {
				switch x := st.(type) {
				case *ast.AssignStmt:
					if len(x.Lhs) == 1 && len(x.Rhs) == 1 {
						if fl, is := x.Rhs[0].(*ast.FuncLit); is && r.Src(x.Lhs[0]) == "allow" {
							n := len(fl.Body.List)
							if n == 0 || r.Src(fl.Body.List[n-1]) != "return allowIP(f, ip)" {
								closureOK = false
							}
							continue
						}
						if a, ok := isCheck(x.Rhs[0]); ok {
							args = append(args, a)
							v := r.Src(x.Lhs[0])
							found := false
							for _, later := range list[i+1:] {
								if ifs, is := later.(*ast.IfStmt); is && r.Src(ifs.Cond) == "!"+v && deniesForbidden(ifs) {
									found = true
								}
							}
							if !found {
								allForbidden = false
							}
						}
					}
				case *ast.IfStmt:
					if ue, is := x.Cond.(*ast.UnaryExpr); is && ue.Op.String() == "!" {
						if a, ok := isCheck(ue.X); ok {
							args = append(args, a)
							if !deniesForbidden(x) {
								allForbidden = false
							}
							continue
						}
					}
					if r.Src(x.Cond) == "r != nil" {
						continue // cache-hit branch: C12
					}
					visit(x.Body.List)
				case *ast.RangeStmt:
					visit(x.Body.List)
				case *ast.ForStmt:
					visit(x.Body.List)
				case *ast.BlockStmt:
					visit(x.List)
				}
			}
		}
		visit(search.Body.List)
		w.Line("/-- filters consulted by the cache-less part of `search` (through `allowIP(X, ip)` or the")
		w.Line("local closure `allow(X)`), in source order -/")
		w.Line("def allowIPArgs : List String := %s", StrList(args))
		w.Line("/-- the local closure `allow`, if present, ends in `return allowIP(f, ip)` -/")
		w.Line("def allowClosureDelegates : Bool := %s", Bool(closureOK))
		w.Line("def denyReturnsForbidden : Bool := %s", Bool(allForbidden))
		e, err := r.PkgValue(muxFileC05, "forbidden")
		if err != nil {
			return err
		}
		w.Line("def forbiddenIs403 : Bool := %s", Bool(strings.Contains(r.Src(e), "code: http.StatusForbidden")))

		allow, err := r.Func(ipfFile, "IPFilter", "Allow")
		if err != nil {
			return err
		}
		var cases []string
		def := ""
		ast.Inspect(allow.Body, func(n ast.Node) bool {
			if as, is := n.(*ast.AssignStmt); is && len(as.Lhs) == 1 && r.Src(as.Lhs[0]) == "defaultResult" {
				def = r.Src(as.Rhs[0])
			}
			if cc, is := n.(*ast.CaseClause); is {
				cond := "default"
				if len(cc.List) == 1 {
					cond = r.Src(cc.List[0])
				}
				res := "?"
				if len(cc.Body) == 1 {
					if rs, is := cc.Body[0].(*ast.ReturnStmt); is && len(rs.Results) == 1 {
						res = r.Src(rs.Results[0])
					}
				}
				cases = append(cases, cond+" => "+res)
			}
			return true
		})
		if def == "" {
			return fmt.Errorf("Allow: defaultResult not found")
		}
		w.Line("/-- `defaultResult := …` and the decision switch of `IPFilter.Allow` -/")
		w.Line("def allowDefault : String := %s", Str(def))
		w.Line("def allowSwitch : List String := %s", StrList(cases))

		nw, err := r.Func(ipfFile, "", "New")
		if err != nil {
			return err
		}
		to4, colons := 0, 0
		ast.Inspect(nw.Body, func(n ast.Node) bool {
			if ce, is := n.(*ast.CallExpr); is {
				if strings.HasSuffix(r.Src(ce.Fun), ".To4") {
					to4++
				}
				if r.Src(ce.Fun) == "strings.Count" {
					colons++
				}
			}
			return true
		})
		w.Line("/-- `New` chooses family/mask by `To4()` (address literal and CIDR), not by the spelling -/")
		w.Line("def newTo4Calls : Nat := %d", to4)
		w.Line("def newColonCounts : Nat := %d", colons)
		return nil
	}})
}
