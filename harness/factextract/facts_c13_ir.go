package main

// Regenerated tie by translation for C13 (irlib.go, notes/IR.md): for the kinds behind the repairs,
// BOTH sides of "accepted by validation ⇒ no panic" are translated from the source on every run:
//
//	validateIR_<Kind>  ← the kind's Validate() method
//	panicsIR_<Kind>    ← the function that contains the panic site(s): `true` = it panics
//
// over the records of Model/SpecRecords.lean. Props/C13.lean proves
// `validateIR_<Kind> s = true → panicsIR_<Kind> s q = false` for every spec s and request context q, and
// connects the hand-written `…Valid` predicates over document trees to `validateIR_<Kind> (ofJ j)`.
//
//	ResponseAdaptor : Spec.Validate                 | ResponseAdaptor.Init (4 panics)
//	Builder         : Spec.Validate (parseTemplate) | Builder.reload (template.Must)
//	Fallback        : — (no Validate; Handle must not panic for any context) | leading statements of Fallback.Handle
//	RateLimiter     : Policy.Validate               | URLRule.createRateLimiter's refresh period (the divisor of
//	                                                  acquirePermission: fact rlDivisors) = 0
//	Validator       : Spec.Validate                 | signer.CreateFromSpec (is the key store set?) +
//	                                                  leading statement of Signer.Verify (panics without a store)
//	MQTTProxy       : Spec.Validate                 | getPipelineMap (nil dereference / error ⇒ newBroker panics)
//
// Modelling decisions: `fmt.Errorf` = an error; `spec.parseTemplate()` = (template, ¬tmplOK) with tmplOK the
// oracle answer for (delims, template); `time.ParseDuration(s)` = the policy's `period` oracle; a field
// selector on a possibly nil `*Rule` / `*When` is a partial operation (guard = non-nil) unless it occurs as
// the right operand of `<same expr> == nil || …` (Go's short circuit; checked syntactically); a
// single-value type assertion `x.(T)` is partial (panics unless x holds a T), the comma-ok form is total.

import (
	"fmt"
	"go/ast"
	"go/token"
	"strings"
)

func c13Base(name string) *irSpec {
	return &irSpec{
		Name:   name,
		RetTy:  "Bool",
		LeanTy: map[string]string{"Tmpl": "Unit", "OptResp": "Option Unit", "RespIface": "ReqCtx", "OptRule": "Option MqttRule", "OptWhen": "Option MqttWhen", "Ans": "List (String × String)", "PTypes": "List String", "U": "Unit", "OptSigner": "Option SignerSpec", "Dur": "Int", "OptU": "Option Unit"},
		Fields: map[string]irField{},
		Funcs: map[string]irCall{
			"fmt.Errorf": {Fmt: "true", Ty: "Error", NArgs: -1},
		},
		Methods: map[string]irCall{},
		Consts:  map[string]irTerm{},
	}
}

// errRet: a function returning `error`: nil = accepted (true).
func c13ErrRet(v []irTerm) (string, error) {
	if len(v) != 1 {
		return "", errUnsupportedReturn
	}
	switch v[0].Ty {
	case "nil":
		return "true", nil
	case "Error":
		return "(!" + v[0].S + ")", nil
	}
	return "", errUnsupportedReturn
}

// panicRet: a function translated for its panics: any normal return = `false`.
func c13PanicRet(v []irTerm) (string, error) { return "false", nil }

// c13EmitPrefix translates only the first n statements of a function (followed by a synthetic plain
// return): used where the panic site is in the leading statements and the rest of the body is not modelled.
func c13EmitPrefix(r *Repo, w *Lean, rel, recv, fn string, n int, spec *irSpec, doc string) error {
	fd, err := r.Func(rel, recv, fn)
	if err != nil {
		return err
	}
	if fd.Body == nil || len(fd.Body.List) < n {
		return fmt.Errorf("%s.%s: fewer than %d statements", recv, fn, n)
	}
	cp := *fd
	body := *fd.Body
	body.List = append(append([]ast.Stmt(nil), fd.Body.List[:n]...), &ast.ReturnStmt{})
	cp.Body = &body
	def, skipped, err := irTranslate(r, &cp, spec)
	if err != nil {
		return err
	}
	w.Line("/-! Translated from the FIRST %d statement(s) of `%s.%s` in %s (go/ast → Lean, irlib.go); the rest of the body is not modelled.", n, recv, fn, rel)
	if doc != "" {
		w.Line("%s", doc)
	}
	for _, s := range skipped {
		w.Line("  ignored: `%s`", strings.ReplaceAll(s, "-/", "- /"))
	}
	w.Line("-/")
	w.sb.WriteString(def)
	w.Line("")
	return nil
}

// commaOkAsserts: the type assertions of fd that are used in the two-value form.
func c13CommaOkAsserts(fd *ast.FuncDecl) map[ast.Expr]bool {
	out := map[ast.Expr]bool{}
	ast.Inspect(fd, func(n ast.Node) bool {
		if as, ok := n.(*ast.AssignStmt); ok && len(as.Lhs) == 2 && len(as.Rhs) == 1 {
			if ta, ok := as.Rhs[0].(*ast.TypeAssertExpr); ok {
				out[ta] = true
			}
		}
		return true
	})
	return out
}

// shortCircuited: selector expressions `E.f` that occur in the right operand of `E == nil || …`.
func c13ShortCircuited(r *Repo, fd *ast.FuncDecl) map[ast.Expr]bool {
	out := map[ast.Expr]bool{}
	var mark func(e ast.Expr, guarded map[string]bool)
	mark = func(e ast.Expr, guarded map[string]bool) {
		be, ok := e.(*ast.BinaryExpr)
		if ok && be.Op == token.LOR {
			g := map[string]bool{}
			for k := range guarded {
				g[k] = true
			}
			mark(be.X, guarded)
			// every `X == nil` disjunct on the left protects X on the right
			var collect func(x ast.Expr)
			collect = func(x ast.Expr) {
				if b, ok := x.(*ast.BinaryExpr); ok {
					if b.Op == token.LOR {
						collect(b.X)
						collect(b.Y)
					} else if b.Op == token.EQL && r.Src(b.Y) == "nil" {
						g[r.Src(b.X)] = true
					}
				}
			}
			collect(be.X)
			mark(be.Y, g)
			return
		}
		ast.Inspect(e, func(n ast.Node) bool {
			if se, ok := n.(*ast.SelectorExpr); ok && guarded[r.Src(se.X)] {
				out[se] = true
			}
			return true
		})
	}
	ast.Inspect(fd, func(n ast.Node) bool {
		if is, ok := n.(*ast.IfStmt); ok {
			mark(is.Cond, map[string]bool{})
		}
		return true
	})
	return out
}

// c13MqttSpec: shared tables of the two MQTTProxy functions.
func c13MqttSpec(r *Repo, fd *ast.FuncDecl, name string) *irSpec {
	s := c13Base(name)
	s.Fields["MqttSpec.Rules"] = irField{Fmt: "%s.rules", Ty: "List OptRule"}
	s.Consts["pipelinePacketTypes"] = irTerm{"mqttPacketTypes", "PTypes"}
	s.Consts["Publish"] = irTerm{"\"Publish\"", "String"}
	s.Consts["Connect"] = irTerm{"\"Connect\"", "String"}
	s.Ext.IndexOk = map[string]irCall{
		"PTypes": {Fmt: "((), %[1]s.contains %[2]s)", Ty: "U × Bool"},
		"Ans":    {Fmt: "((%[1]s.lookup %[2]s).getD \"\", (%[1]s.lookup %[2]s).isSome)", Ty: "String × Bool"},
	}
	s.IndexSet = map[string]string{"Ans": "((%[2]s, %[3]s) :: %[1]s)"}
	s.Ignore = irPrefixIgnore("logger.")
	safe := c13ShortCircuited(r, fd)
	s.Hook = func(t *irT, e ast.Expr, env *irEnv) (irTerm, bool, error) {
		switch x := e.(type) {
		case *ast.CallExpr:
			if id, ok := x.Fun.(*ast.Ident); ok && id.Name == "make" && len(x.Args) == 1 && t.r.Src(x.Args[0]) == "map[PacketType]string" {
				return irTerm{"([] : List (String × String))", "Ans"}, true, nil
			}
		case *ast.SelectorExpr:
			rx, err := t.tryExpr(x.X, env)
			if err != nil {
				return irTerm{}, false, nil
			}
			switch rx.Ty + "." + x.Sel.Name {
			case "OptRule.When":
				rx, _ = t.expr(x.X, env)
				if !safe[x] {
					t.guards = append(t.guards, rx.S+".isSome")
				}
				return irTerm{"(" + rx.S + ".bind (·.when))", "OptWhen"}, true, nil
			case "OptRule.Pipeline":
				rx, _ = t.expr(x.X, env)
				if !safe[x] {
					t.guards = append(t.guards, rx.S+".isSome")
				}
				return irTerm{"((" + rx.S + ".map (·.pipeline)).getD \"\")", "String"}, true, nil
			case "OptWhen.PacketType":
				rx, _ = t.expr(x.X, env)
				if !safe[x] {
					t.guards = append(t.guards, rx.S+".isSome")
				}
				return irTerm{"((" + rx.S + ".map (·.packetType)).getD \"\")", "String"}, true, nil
			}
		}
		return irTerm{}, false, nil
	}
	return s
}

// c13CBWindows: pkg/util/circuitbreaker. Every `NewCountBasedWindow(X)` / `NewTimeBasedWindow(X)` call of
// the package (outside the constructors themselves) with the state branch it is in, X translated over the
// policy record; the admission condition of the half-open state in AcquirePermission; the number of
// `window.Push` call sites (only RecordResult pushes, and only for a result of the current state).
func c13CBWindows(r *Repo, w *Lean) error {
	const cbf = "pkg/util/circuitbreaker/circuitbreaker.go"
	f, err := r.File(cbf)
	if err != nil {
		return err
	}
	spec := c13Base("cbExpr")
	spec.LeanTy["CB"] = "Unit"
	spec.Fields["CB.policy"] = irField{Fmt: "p", Ty: "CBLibPolicy"}
	spec.Fields["CBLibPolicy.SlidingWindowSize"] = irField{Fmt: "%s.slidingWindowSize", Ty: "Int"}
	spec.Fields["CBLibPolicy.PermittedNumberOfCallsInHalfOpen"] = irField{Fmt: "%s.permitted", Ty: "Int"}
	spec.Fields["CBLibPolicy.MinimumNumberOfCalls"] = irField{Fmt: "%s.minCalls", Ty: "Int"}
	spec.Fields["CB.numberOfCallsInHalfOpen"] = irField{Fmt: "n", Ty: "Int"}
	var sizes []string
	pushes := 0
	admit := ""
	for _, d := range f.Decls {
		fd, ok := d.(*ast.FuncDecl)
		if !ok || fd.Body == nil || fd.Name.Name == "NewCountBasedWindow" || fd.Name.Name == "NewTimeBasedWindow" {
			continue
		}
		recv := ""
		if fd.Recv != nil && len(fd.Recv.List) == 1 && len(fd.Recv.List[0].Names) == 1 {
			recv = fd.Recv.List[0].Names[0].Name
		}
		t := &irT{r: r, spec: spec}
		env := &irEnv{vars: map[string]irVar{}}
		if recv != "" && recvName(fd.Recv.List[0].Type) == "CircuitBreaker" {
			env = env.with(recv, irVar{Lean: "()", Ty: "CB", Param: true})
		}
		// which state branch a node is in: the innermost enclosing `if … state == StateX`
		var walk func(n ast.Node, branch string) error
		walk = func(n ast.Node, branch string) error {
			var err error
			switch x := n.(type) {
			case *ast.IfStmt:
				b := branch
				c := r.Src(x.Cond)
				if strings.HasSuffix(c, "== StateHalfOpen") {
					b = "HalfOpen"
				} else if strings.HasSuffix(c, "== StateClosed") {
					b = "Closed"
				}
				// the admission test of the half-open state
				if strings.Contains(r.Src(x.Body), "numberOfCallsInHalfOpen++") && strings.Contains(r.Src(x.Body), "return true") {
					ct, e := t.expr(x.Cond, env)
					if e != nil {
						return e
					}
					admit = ct.S
				}
				if err = walk(x.Body, b); err != nil {
					return err
				}
				if x.Else != nil {
					return walk(x.Else, branch)
				}
				return nil
			case *ast.CallExpr:
				fn := r.Src(x.Fun)
				if fn == "NewCountBasedWindow" || fn == "NewTimeBasedWindow" {
					if len(x.Args) != 1 {
						return fmt.Errorf("%s: unexpected arguments", fn)
					}
					a, e := t.expr(x.Args[0], env)
					if e != nil {
						return fmt.Errorf("window size %s in %s: %v", r.Src(x.Args[0]), fd.Name.Name, e)
					}
					if a.Ty != "Int" {
						return fmt.Errorf("window size %s has type %s", r.Src(x.Args[0]), a.Ty)
					}
					if branch == "" {
						branch = "Other:" + fd.Name.Name
					}
					sizes = append(sizes, fmt.Sprintf("(%s, %s)", Str(branch), a.S))
				}
				if strings.HasSuffix(fn, ".window.Push") {
					pushes++
				}
			}
			ast.Inspect(n, func(c ast.Node) bool {
				if c == n || c == nil || err != nil {
					return err == nil
				}
				switch c.(type) {
				case *ast.IfStmt, *ast.CallExpr:
					err = walk(c, branch)
					return false
				}
				return true
			})
			return err
		}
		if err := walk(fd.Body, ""); err != nil {
			return err
		}
	}
	if admit == "" {
		return fmt.Errorf("circuitbreaker: admission test of the half-open state not found")
	}
	w.Line("/-! Translated expressions of pkg/util/circuitbreaker/circuitbreaker.go: the size argument of every")
	w.Line("`NewCountBasedWindow(…)` / `NewTimeBasedWindow(…)` call (with the state branch it occurs in) over the policy `p`. -/")
	w.Line("def cbWindowSizesIR (p : CBLibPolicy) : List (String × Int) := [%s]", strings.Join(sizes, ", "))
	w.Line("/-- the test under which `AcquirePermission` admits a call in half-open state (`n` = `numberOfCallsInHalfOpen`) -/")
	w.Line("def cbHalfOpenAdmitIR (p : CBLibPolicy) (n : Int) : Bool := %s", admit)
	w.Line("/-- `….window.Push(` call sites in the package (RecordResult only) -/")
	w.Line("def cbPushSites : Nat := %d", pushes)
	w.Line("")
	return nil
}

const c13Prelude = `set_option linter.unusedVariables false
open EgVerif.SpecGuards
`

func init() {
	register(Extractor{Module: "FactsC13IR", Imports: []string{"EgVerif.Model.SpecRecords"}, Run: func(r *Repo, w *Lean) error {
		w.sb.WriteString(c13Prelude)
		w.Line("")

		// ---- ResponseAdaptor
		const ra = "pkg/filters/responseadaptor/responseadaptor.go"
		raFields := func(s *irSpec, ty string) {
			s.Fields[ty+".Compress"] = irField{Fmt: "%s.compress", Ty: "String"}
			s.Fields[ty+".Decompress"] = irField{Fmt: "%s.decompress", Ty: "String"}
			s.Fields[ty+".Body"] = irField{Fmt: "%s.body", Ty: "String"}
		}
		s := c13Base("validateIR_ResponseAdaptor")
		s.Binders, s.BNames = "(s : RASpec)", []string{"s"}
		s.Recv = irTerm{"s", "RASpec"}
		raFields(s, "RASpec")
		s.Ret = c13ErrRet
		if err := irEmit(r, w, ra, "Spec", "Validate", s, "Result: `Validate() == nil`."); err != nil {
			return err
		}
		s = c13Base("panicsIR_ResponseAdaptor")
		s.Binders, s.BNames = "(s : RASpec)", []string{"s"}
		s.Recv = irTerm{"()", "RA"}
		s.LeanTy["RA"] = "Unit"
		s.Fields["RA.spec"] = irField{Fmt: "s", Ty: "RASpec"}
		raFields(s, "RASpec")
		s.StmtMethods = map[string]irStmtCall{"RA.reload": {NArgs: 0}}
		s.Panic = "true"
		s.Ret = c13PanicRet
		if err := irEmit(r, w, ra, "ResponseAdaptor", "Init", s, "Result: `true` = `Init` panics."); err != nil {
			return err
		}

		// ---- Builder
		const bl = "pkg/filters/builder/builder.go"
		bFields := func(s *irSpec) {
			s.Fields["BSpec.SourceNamespace"] = irField{Fmt: "%s.sourceNamespace", Ty: "String"}
			s.Fields["BSpec.Template"] = irField{Fmt: "%s.template", Ty: "String"}
			s.Methods["BSpec.parseTemplate"] = irCall{Fmt: "((), !%[1]s.tmplOK)", Ty: "Tmpl × Error", NArgs: 0}
		}
		s = c13Base("validateIR_Builder")
		s.Binders, s.BNames = "(s : BSpec)", []string{"s"}
		s.Recv = irTerm{"s", "BSpec"}
		bFields(s)
		s.Ret = c13ErrRet
		if err := irEmit(r, w, bl, "Spec", "Validate", s, "Result: `Validate() == nil`; `s.tmplOK` = `spec.parseTemplate()` succeeds."); err != nil {
			return err
		}
		s = c13Base("panicsIR_Builder")
		s.Binders, s.BNames = "(s : BSpec)", []string{"s"}
		s.Recv = irTerm{"()", "Builder"}
		s.LeanTy["Builder"] = "Unit"
		s.Params = []irTerm{{"s", "BSpec"}}
		bFields(s)
		s.State = []irLet{{"tpl", "Tmpl", "()"}}
		s.Fields["Builder.template"] = irField{Fmt: "tpl", Ty: "Tmpl", State: true}
		// template.Must(t, err) panics iff err != nil
		s.Funcs["template.Must"] = irCall{Fmt: "()", Ty: "Tmpl", NArgs: 1, Guard: "(!%[1]s.2)"}
		s.Panic = "true"
		s.Ret = c13PanicRet
		if err := irEmit(r, w, bl, "Builder", "reload", s, "Result: `true` = `reload` (called by RequestBuilder / ResponseBuilder Init and Inherit) panics."); err != nil {
			return err
		}

		// ---- Fallback.Handle: leading statements
		const fb = "pkg/filters/fallback/fallback.go"
		fd, err := r.Func(fb, "Fallback", "Handle")
		if err != nil {
			return err
		}
		okForm := c13CommaOkAsserts(fd)
		s = c13Base("panicsIR_Fallback")
		s.Binders, s.BNames = "(q : ReqCtx)", []string{"q"}
		s.Recv = irTerm{"()", "FB"}
		s.LeanTy["FB"] = "Unit"
		s.LeanTy["Ctx"] = "Unit"
		s.Params = []irTerm{{"()", "Ctx"}}
		s.Methods["Ctx.GetInputResponse"] = irCall{Fmt: "q", Ty: "RespIface", NArgs: 0}
		s.Consts["resultResponseNotFound"] = irTerm{"\"responseNotFound\"", "String"}
		s.Panic = "true"
		s.Ret = c13PanicRet
		s.Hook = func(t *irT, e ast.Expr, env *irEnv) (irTerm, bool, error) {
			ta, ok := e.(*ast.TypeAssertExpr)
			if !ok {
				return irTerm{}, false, nil
			}
			x, err := t.expr(ta.X, env)
			if err != nil || x.Ty != "RespIface" || ta.Type == nil || t.r.Src(ta.Type) != "*httpprot.Response" {
				return irTerm{}, true, fmt.Errorf("unsupported type assertion %s", t.r.Src(e))
			}
			val := "(if " + x.S + ".hasResponse then some () else none)"
			if okForm[ta] {
				return irTerm{"(" + val + ", " + x.S + ".hasResponse)", "OptResp × Bool"}, true, nil
			}
			t.guards = append(t.guards, x.S+".hasResponse") // single-value form panics unless it holds
			return irTerm{val, "OptResp"}, true, nil
		}
		if err := c13EmitPrefix(r, w, fb, "Fallback", "Handle", 2, s,
			"Result: `true` = the response lookup at the head of `Handle` panics for the request context `q`."); err != nil {
			return err
		}

		// ---- RateLimiter policy
		const rlf = "pkg/filters/ratelimiter/ratelimiter.go"
		s = c13Base("validateIR_RLPolicy")
		s.Binders, s.BNames = "(p : RLPolicy)", []string{"p"}
		s.Recv = irTerm{"p", "RLPolicy"}
		s.Fields["RLPolicy.LimitRefreshPeriod"] = irField{Fmt: "%s.limitRefreshPeriod", Ty: "String"}
		s.Fields["RLPolicy.Name"] = irField{Fmt: "\"\"", Ty: "String"}
		s.Funcs["time.ParseDuration"] = irCall{Fmt: "(p.period.getD 0, p.period.isNone)", Ty: "Int × Error", NArgs: 1}
		s.Ret = c13ErrRet
		if err := irEmit(r, w, rlf, "Policy", "Validate", s,
			"Result: `Validate() == nil`; `p.period` = `time.ParseDuration(p.LimitRefreshPeriod)`."); err != nil {
			return err
		}
		s = c13Base("refreshPeriodIR_RLPolicy")
		s.Binders, s.BNames, s.RetTy = "(p : RLPolicy)", []string{"p"}, "Int"
		s.Recv = irTerm{"()", "URLRule"}
		s.LeanTy["URLRule"] = "Unit"
		s.LeanTy["LibPolicy"] = "Int × Int × Int"
		s.Fields["URLRule.policy"] = irField{Fmt: "p", Ty: "RLPolicy"}
		s.Fields["RLPolicy.LimitRefreshPeriod"] = irField{Fmt: "%s.limitRefreshPeriod", Ty: "String"}
		s.Fields["RLPolicy.TimeoutDuration"] = irField{Fmt: "\"\"", Ty: "String"}
		s.Fields["RLPolicy.LimitForPeriod"] = irField{Fmt: "(0 : Int)", Ty: "Int"}
		s.State = []irLet{{"lfp", "Int", "0"}, {"timeout", "Int", "0"}, {"period", "Int", "0"}}
		s.Fields["LibPolicy.LimitForPeriod"] = irField{Fmt: "lfp", Ty: "Int", State: true}
		s.Fields["LibPolicy.TimeoutDuration"] = irField{Fmt: "timeout", Ty: "Int", State: true}
		s.Fields["LibPolicy.LimitRefreshPeriod"] = irField{Fmt: "period", Ty: "Int", State: true}
		s.Consts["time.Millisecond"] = irTerm{"(1000000 : Int)", "Int"}
		s.Funcs["time.ParseDuration"] = irCall{Fmt: "(if %[1]s == p.limitRefreshPeriod then p.period.getD 0 else 0, false)", Ty: "Int × Error", NArgs: 1}
		s.StmtFuncs = map[string]irStmtCall{}
		s.Ignore = func(src string, st ast.Stmt) bool { return strings.HasPrefix(src, "url.rl = librl.New(") }
		s.Ret = func(v []irTerm) (string, error) { return "period", nil }
		s.Hook = func(t *irT, e ast.Expr, env *irEnv) (irTerm, bool, error) {
			// policy := librl.Policy{LimitForPeriod: …}: the three fields are the state variables
			if cl, ok := e.(*ast.CompositeLit); ok && t.r.Src(cl.Type) == "librl.Policy" {
				if len(cl.Elts) != 1 {
					return irTerm{}, true, fmt.Errorf("librl.Policy literal: expected one field")
				}
				kv, ok := cl.Elts[0].(*ast.KeyValueExpr)
				if !ok || t.r.Src(kv.Key) != "LimitForPeriod" {
					return irTerm{}, true, fmt.Errorf("librl.Policy literal: unexpected field")
				}
				if _, err := t.expr(kv.Value, env); err != nil {
					return irTerm{}, true, err
				}
				return irTerm{"(lfp, timeout, period)", "LibPolicy"}, true, nil
			}
			return irTerm{}, false, nil
		}
		if err := irEmit(r, w, rlf, "URLRule", "createRateLimiter", s,
			"Result: the `LimitRefreshPeriod` (ns) handed to `librl.New` — the divisor of `acquirePermission` (fact `rlDivisors`)."); err != nil {
			return err
		}
		// the divisions of the limiter: their divisors, printed
		acq, err := r.Func("pkg/util/ratelimiter/ratelimiter.go", "RateLimiter", "acquirePermission")
		if err != nil {
			return err
		}
		var divs []string
		ast.Inspect(acq, func(n ast.Node) bool {
			if be, ok := n.(*ast.BinaryExpr); ok && (be.Op == token.QUO || be.Op == token.REM) {
				divs = append(divs, r.Src(be.Y))
			}
			return true
		})
		w.Line("/-- divisors of every `/` and `%%` in `RateLimiter.acquirePermission` -/")
		w.Line("def rlDivisors : List String := %s", StrList(divs))
		w.Line("")

		// ---- Validator / Signer
		const vf = "pkg/filters/validator/validator.go"
		s = c13Base("validateIR_Validator")
		s.Binders, s.BNames = "(s : VSpec)", []string{"s"}
		s.Recv = irTerm{"s", "VSpec"}
		s.Fields["VSpec.Signature"] = irField{Fmt: "%s.signature", Ty: "OptSigner"}
		s.Fields["OptSigner.AccessKeys"] = irField{Fmt: "((%s.map (·.accessKeys)).getD 0)", Ty: "KeyMap"}
		s.LeanTy["KeyMap"] = "Nat"
		s.Funcs["len:KeyMap"] = irCall{Fmt: "(%[1]s : Int)", Ty: "Int", NArgs: 1}
		s.Ret = c13ErrRet
		s.Hook = func(t *irT, e ast.Expr, env *irEnv) (irTerm, bool, error) {
			// spec == (Spec{})
			if be, ok := e.(*ast.BinaryExpr); ok && be.Op == token.EQL && t.r.Src(be.Y) == "(Spec{})" {
				x, err := t.expr(be.X, env)
				if err != nil || x.Ty != "VSpec" {
					return irTerm{}, true, fmt.Errorf("unsupported comparison %s", t.r.Src(e))
				}
				return irTerm{x.S + ".isZero", "Bool"}, true, nil
			}
			return irTerm{}, false, nil
		}
		if err := irEmit(r, w, vf, "Spec", "Validate", s,
			"Result: `Validate() == nil`. (`spec.Signature.AccessKeys` is only read right of `spec.Signature != nil &&`.)"); err != nil {
			return err
		}
		s = c13Base("storeSetIR_Signer")
		s.Binders, s.BNames = "(sp : SignerSpec)", []string{"sp"}
		s.Params = []irTerm{{"sp", "SignerSpec"}}
		s.LeanTy["Signer"] = "Unit"
		s.LeanTy["KeyMap"] = "Nat"
		s.Fields["SignerSpec.AccessKeys"] = irField{Fmt: "%s.accessKeys", Ty: "KeyMap"}
		s.Fields["SignerSpec.Literal"] = irField{Fmt: "(none : Option Unit)", Ty: "OptU"}
		s.Fields["SignerSpec.HeaderHoisting"] = irField{Fmt: "(none : Option Unit)", Ty: "OptU"}
		s.Fields["SignerSpec.TTL"] = irField{Fmt: "\"\"", Ty: "String"}
		s.Fields["SignerSpec.AccessKeyID"] = irField{Fmt: "\"\"", Ty: "String"}
		s.Fields["SignerSpec.AccessKeySecret"] = irField{Fmt: "\"\"", Ty: "String"}
		s.Fields["SignerSpec.IgnoredHeaders"] = irField{Fmt: "()", Ty: "U"}
		s.Fields["SignerSpec.ExcludeBody"] = irField{Fmt: "false", Ty: "Bool"}
		s.Funcs["New"] = irCall{Fmt: "()", Ty: "Signer", NArgs: 0}
		s.Funcs["len:KeyMap"] = irCall{Fmt: "(%[1]s : Int)", Ty: "Int", NArgs: 1}
		s.Funcs["time.ParseDuration"] = irCall{Fmt: "((0 : Int), true)", Ty: "Int × Error", NArgs: 1}
		s.Funcs["idSecretMap"] = irCall{Fmt: "()", Ty: "U", NArgs: 1}
		s.State = []irLet{{"store", "Bool", "false"}}
		s.StmtMethods = map[string]irStmtCall{
			"Signer.SetCredential":     {NArgs: 2},
			"Signer.SetLiteral":        {NArgs: 1},
			"Signer.SetHeaderHoisting": {NArgs: 1},
			"Signer.IgnoreHeader":      {NArgs: 1},
			"Signer.ExcludeBody":       {NArgs: 1},
			"Signer.SetTTL":            {NArgs: 1},
			"Signer.SetAccessKeyStore": {Lets: []irLet{{"store", "Bool", "true"}}, NArgs: 1},
		}
		s.Ret = func(v []irTerm) (string, error) { return "store", nil }
		if err := irEmit(r, w, "pkg/util/signer/spec.go", "", "CreateFromSpec", s,
			"Result: `true` = the signer `CreateFromSpec` returns has an access-key store."); err != nil {
			return err
		}
		s = c13Base("verifyPanicsIR_Signer")
		s.Binders, s.BNames = "(store : Bool)", []string{"store"}
		s.Recv = irTerm{"()", "SignerObj"}
		s.LeanTy["SignerObj"] = "Unit"
		s.LeanTy["Store"] = "Option Unit"
		s.Params = []irTerm{{"", "Req"}}
		s.Fields["SignerObj.accessKeyStore"] = irField{Fmt: "(if store then some () else none)", Ty: "Store"}
		s.Panic = "true"
		s.Ret = c13PanicRet
		if err := c13EmitPrefix(r, w, "pkg/util/signer/signer.go", "Signer", "Verify", 1, s,
			"Result: `true` = `Verify` panics (`store` = the signer has an access-key store)."); err != nil {
			return err
		}

		// how Validator wires the two: reload creates the signer iff a signature spec is present, Handle
		// verifies iff there is a signer (statement patterns, as facts)
		vr, err := r.Func(vf, "Validator", "reload")
		if err != nil {
			return err
		}
		vh, err := r.Func(vf, "Validator", "Handle")
		if err != nil {
			return err
		}
		creates, verifies := false, false
		for _, st := range vr.Body.List {
			if is, ok := st.(*ast.IfStmt); ok && is.Else == nil && r.Src(is.Cond) == "v.spec.Signature != nil" && len(is.Body.List) == 1 &&
				r.Src(is.Body.List[0]) == "v.signer = signer.CreateFromSpec(v.spec.Signature)" {
				creates = true
			}
		}
		for _, st := range vh.Body.List {
			if is, ok := st.(*ast.IfStmt); ok && r.Src(is.Cond) == "v.signer != nil" && r.CountCalls(is.Body, "v.signer.Verify") == 1 {
				verifies = true
			}
		}
		w.Line("/-- `Validator.reload`: `if v.spec.Signature != nil { v.signer = signer.CreateFromSpec(v.spec.Signature) }`;")
		w.Line("`Validator.Handle`: `if v.signer != nil { … v.signer.Verify(…) … }`; no other `v.signer.Verify` call -/")
		w.Line("def validatorWiring : Bool := %s", Bool(creates && verifies && r.CountCalls(vh.Body, "v.signer.Verify") == 1))
		w.Line("")

		// ---- CircuitBreaker windows: the size argument of every window the breaker creates, and the
		// condition under which a call is admitted in half-open state (translated expressions)
		if err := c13CBWindows(r, w); err != nil {
			return err
		}

		// ---- HTTPServer: which tracer mux.reload puts into the new instance (leading statements)
		s = c13Base("tracerNonNilIR_mux")
		s.Binders, s.BNames = "(sameSpec newOK oldNonNil : Bool)", []string{"sameSpec", "newOK", "oldNonNil"}
		s.Recv = irTerm{"()", "Mux"}
		s.LeanTy["Mux"], s.LeanTy["SuperSpec"], s.LeanTy["Mapper"] = "Unit", "Unit", "Unit"
		s.LeanTy["HSpec"], s.LeanTy["Inst"], s.LeanTy["TSpec"], s.LeanTy["Tracer"] = "Unit", "Unit", "Unit", "Bool"
		s.Params = []irTerm{{"()", "SuperSpec"}, {"()", "Mapper"}}
		s.Consts["tracing.NoopTracer"] = irTerm{"true", "Tracer"} // a Tracer is modelled by "is non-nil"
		s.Fields["Inst.tracer"] = irField{Fmt: "oldNonNil", Ty: "Tracer"}
		s.Fields["Inst.spec"] = irField{Fmt: "()", Ty: "HSpec"}
		s.Fields["HSpec.Tracing"] = irField{Fmt: "()", Ty: "TSpec"}
		s.Funcs["reflect.DeepEqual"] = irCall{Fmt: "sameSpec", Ty: "Bool", NArgs: 2}
		// tracing.New returns (nil, err) on failure and a non-nil tracer otherwise (fact tracingNewNilOnError)
		s.Funcs["tracing.New"] = irCall{Fmt: "(newOK, !newOK)", Ty: "Tracer × Error", NArgs: 1}
		s.Ignore = func(src string, st ast.Stmt) bool {
			_, isDefer := st.(*ast.DeferStmt)
			return isDefer || strings.HasPrefix(src, "logger.")
		}
		s.Ret = func(v []irTerm) (string, error) { return "tracer", nil }
		tracerVar := ""
		s.Hook = func(t *irT, e ast.Expr, env *irEnv) (irTerm, bool, error) {
			switch x := e.(type) {
			case *ast.TypeAssertExpr:
				if x.Type != nil {
					switch t.r.Src(x.Type) {
					case "*Spec":
						return irTerm{"()", "HSpec"}, true, nil
					case "*muxInstance":
						return irTerm{"()", "Inst"}, true, nil
					}
				}
			case *ast.BinaryExpr: // <tracer> != nil / == nil
				if (x.Op == token.NEQ || x.Op == token.EQL) && t.r.Src(x.Y) == "nil" {
					if a, err := t.tryExpr(x.X, env); err == nil && a.Ty == "Tracer" {
						if x.Op == token.NEQ {
							return irTerm{a.S, "Bool"}, true, nil
						}
						return irTerm{"(!" + a.S + ")", "Bool"}, true, nil
					}
				}
			}
			return irTerm{}, false, nil
		}
		_ = tracerVar
		// the statements up to (not including) `inst := &muxInstance{…}`; the result is the local handed to
		// the instance's `tracer:` field
		mr, err := r.Func("pkg/object/httpserver/mux.go", "mux", "reload")
		if err != nil {
			return err
		}
		nlead, tracerField := -1, ""
		for i, st := range mr.Body.List {
			if as, ok := st.(*ast.AssignStmt); ok && len(as.Rhs) == 1 && strings.HasPrefix(r.Src(as.Rhs[0]), "&muxInstance{") {
				nlead = i
				if ue, ok := as.Rhs[0].(*ast.UnaryExpr); ok {
					if cl, ok := ue.X.(*ast.CompositeLit); ok {
						for _, el := range cl.Elts {
							if kv, ok := el.(*ast.KeyValueExpr); ok && r.Src(kv.Key) == "tracer" {
								tracerField = r.Src(kv.Value)
							}
						}
					}
				}
				break
			}
		}
		if nlead < 1 || tracerField == "" {
			return fmt.Errorf("mux.reload: instance literal with a tracer field not found")
		}
		s.Ret = func(v []irTerm) (string, error) { return irIdent(tracerField), nil }
		if err := c13EmitPrefix(r, w, "pkg/object/httpserver/mux.go", "mux", "reload", nlead, s,
			"Result: the tracer stored into the new `muxInstance` is non-nil. `sameSpec` = `reflect.DeepEqual(old tracing spec, new)`,\n"+
				"`newOK` = `tracing.New` succeeds, `oldNonNil` = the previous instance's tracer is non-nil."); err != nil {
			return err
		}
		// tracing.New: every `return nil, err` / the final return of a fresh &Tracer (pattern fact)
		tn, err := r.Func("pkg/tracing/tracing.go", "", "New")
		if err != nil {
			return err
		}
		okPat := true
		ast.Inspect(tn, func(n ast.Node) bool {
			if rs, ok := n.(*ast.ReturnStmt); ok && len(rs.Results) == 2 {
				a, b := r.Src(rs.Results[0]), r.Src(rs.Results[1])
				if !((a == "nil" && b == "err") || (b == "nil" && a != "nil")) {
					okPat = false
				}
			}
			return true
		})
		w.Line("/-- `tracing.New`: every return is `nil, err` or `<non-nil tracer>, nil` -/")
		w.Line("def tracingNewNilOnError : Bool := %s", Bool(okPat))
		w.Line("")

		// ---- Retry: what the closure returned by RetryPolicy.Wrap can return (ServerPool.handle panics with
		// "should not reach here" on any error that is not ErrShortCircuited or a serverPoolError)
		rw, err := r.Func("pkg/resilience/retry.go", "RetryPolicy", "Wrap")
		if err != nil {
			return err
		}
		var rets, errSrc []string
		ast.Inspect(rw, func(n ast.Node) bool {
			fl, ok := n.(*ast.FuncLit)
			if !ok {
				return true
			}
			ast.Inspect(fl.Body, func(m ast.Node) bool {
				switch x := m.(type) {
				case *ast.ReturnStmt:
					var rs []string
					for _, e := range x.Results {
						rs = append(rs, r.Src(e))
					}
					rets = append(rets, strings.Join(rs, ", "))
				case *ast.AssignStmt:
					for i, l := range x.Lhs {
						if id, ok := l.(*ast.Ident); ok && id.Name == "err" {
							if len(x.Rhs) == len(x.Lhs) {
								errSrc = append(errSrc, r.Src(x.Rhs[i]))
							} else {
								errSrc = append(errSrc, r.Src(x.Rhs[0]))
							}
						}
					}
				}
				return true
			})
			return false
		})
		w.Line("/-- `RetryPolicy.Wrap`: the results of every `return` of the returned closure, and every expression")
		w.Line("assigned (or `:=`-bound, shadowing included) to a variable named `err` in it -/")
		w.Line("def retryWrapReturns : List String := %s", StrList(rets))
		w.Line("def retryWrapErrSources : List String := %s", StrList(errSrc))
		w.Line("")

		// ---- MQTTProxy
		const mq = "pkg/object/mqttproxy/broker.go"
		fd, err = r.Func(mq, "", "getPipelineMap")
		if err != nil {
			return err
		}
		s = c13MqttSpec(r, fd, "getPipelineMapIR")
		s.Binders, s.BNames, s.RetTy = "(s : MqttSpec)", []string{"s"}, "Option Bool"
		s.Params = []irTerm{{"s", "MqttSpec"}}
		s.Panic = "none"
		s.Ret = func(v []irTerm) (string, error) {
			if len(v) != 2 {
				return "", errUnsupportedReturn
			}
			switch v[1].Ty {
			case "nil":
				return "(some false)", nil
			case "Error":
				return "(some " + v[1].S + ")", nil
			}
			return "", errUnsupportedReturn
		}
		if err := irEmit(r, w, mq, "", "getPipelineMap", s,
			"Result: `none` = nil dereference (panic), `some true` = error (`newBroker` panics with it), `some false` = map built."); err != nil {
			return err
		}
		fd, err = r.Func("pkg/object/mqttproxy/spec.go", "Spec", "Validate")
		if err != nil {
			return err
		}
		s = c13MqttSpec(r, fd, "validateIR_MQTTProxy")
		s.Binders, s.BNames = "(s : MqttSpec)", []string{"s"}
		s.Recv = irTerm{"s", "MqttSpec"}
		s.Funcs["getPipelineMap"] = irCall{Fmt: "((), (getPipelineMapIR %[1]s) != some false)", Ty: "U × Error", NArgs: 1}
		s.Ret = c13ErrRet
		if err := irEmit(r, w, "pkg/object/mqttproxy/spec.go", "Spec", "Validate", s,
			"Result: `Validate() == nil`. `getPipelineMap(spec)` is the translated function above (error or panic ⇒ not accepted)."); err != nil {
			return err
		}
		// newBroker panics on the error of getPipelineMap: the statement pattern, as a fact
		nb, err := r.Func(mq, "", "newBroker")
		if err != nil {
			return err
		}
		pat := false
		for i, st := range nb.Body.List {
			if as, ok := st.(*ast.AssignStmt); ok && len(as.Rhs) == 1 && strings.HasPrefix(r.Src(as.Rhs[0]), "getPipelineMap(") && i+1 < len(nb.Body.List) {
				if is, ok := nb.Body.List[i+1].(*ast.IfStmt); ok && r.Src(is.Cond) == "err != nil" && len(is.Body.List) == 1 && strings.HasPrefix(r.Src(is.Body.List[0]), "panic(") {
					pat = true
				}
			}
		}
		w.Line("/-- `newBroker`: `…, err := getPipelineMap(spec); if err != nil { panic(…) }` -/")
		w.Line("def newBrokerPanicsOnMapError : Bool := %s", Bool(pat))
		return nil
	}})
}
