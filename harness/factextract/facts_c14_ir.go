package main

// Regenerated tie by translation for C14 (irlib.go, notes/IR.md): the body of
//   TopicManager.findSubscribers (topic.go) → findIR = (Model/Topic.split topic).map (find t)
// (`findSubscribers_regenerated_from_source`, Proofs/TopicIR.lean, re-exported from Props/C14.lean).
//
// Mapping: a *topicNode is a `Trie` VALUE (findSubscribers only reads the trie), `node.nodes` / `node.clients`
// are its association lists in iteration order, `mgr.root` is the parameter `t`; `mgr.getLevels(topic)` is the
// model's `split` (splitTopic itself and the LRU memo are not translated, see notes/C14.md); the result map
// `ans` is the LIST of all hits in visiting order (`addClients(ans)` appends the node's clients — the map the
// Go code builds from them is `collapseMax`, C15's `addClients` repair); level strings are `List Char`
// (`"#"` is `"#".toList`). RLock / RUnlock are ignored (listed in the generated file).
//
// `splitTopic` → splitIR = split; `insert` → insertIR (pointers read as PATH CURSORS into the functional trie,
// see below). NOT translated: `remove` (the `prevNodes` pointer stack and the downward pruning loop with its
// early return), see notes/C14.md.

import (
	"fmt"
	"go/ast"
	"strings"
)

func init() {
	register(Extractor{Module: "FactsC14IR", Imports: []string{"EgVerif.Model.Topic"}, Run: func(r *Repo, w *Lean) error {
		w.Line("set_option linter.unusedVariables false")
		w.Line("open EgVerif.Topic")
		w.Line("")
		w.Line("/-- `mgr.getLevels(topic)`: (levels, err != nil) -/")
		w.Line("def getLevelsE (topic : List Char) : List Level × Bool :=")
		w.Line("  match split topic with")
		w.Line("  | some l => (l, false)")
		w.Line("  | none => ([], true)")
		w.Line("/-- `val, ok := n.nodes[k]` -/")
		w.Line("def lookupChild (ch : List (Level × Trie)) (k : Level) : Trie × Bool :=")
		w.Line("  match alGet k ch with")
		w.Line("  | some v => (v, true)")
		w.Line("  | none => (Trie.empty, false)")
		w.Line("")
		s := &irSpec{
			Name:    "findIR",
			Binders: "(t : Trie) (topic : List Char)",
			BNames:  []string{"t", "topic"},
			RetTy:   "Option (List (Client × QoS))",
			Recv:    irTerm{"()", "TopicMgr"},
			Params:  []irTerm{{"topic", "TopicStr"}},
			LeanTy:  map[string]string{"TopicMgr": "Unit", "TopicStr": "List Char", "Hits": "List (Client × QoS)", "Children": "List (Level × Trie)", "Level": "Level", "Trie": "Trie"},
			StrTy:   "Level", StrLitFmt: "(%s).toList",
			Fields: map[string]irField{
				"TopicMgr.root": {Fmt: "t", Ty: "Trie"},
				"Trie.nodes":    {Fmt: "%s.children", Ty: "Children"},
			},
			Methods: map[string]irCall{
				"TopicMgr.getLevels": {Fmt: "(getLevelsE %[2]s)", Ty: "List Level × Error", NArgs: 1},
			},
			Funcs: map[string]irCall{
				"append:List Trie": {Fmt: "(%[1]s ++ [%[2]s])", Ty: "List Trie", NArgs: 2},
				"len:List Trie":    {Fmt: "%[1]s.length", Ty: "Nat", NArgs: 1},
			},
			RangeKV: map[string][2]string{"Children": {"Level", "Trie"}},
			Ext:     irSpecExt{IndexOk: map[string]irCall{"Children": {Fmt: "(lookupChild %[1]s %[2]s)", Ty: "Trie × Bool"}}},
			StmtMethods: map[string]irStmtCall{
				"Trie.addClients": {NArgs: 1, Lets: []irLet{{"%[2]s", "Hits", "(%[2]s ++ %[1]s.clients)"}}},
			},
			Hook: func(t *irT, e ast.Expr, env *irEnv) (irTerm, bool, error) {
				switch x := e.(type) {
				case *ast.CallExpr:
					if t.r.Src(x) == "make(map[string]byte)" {
						return irTerm{"[]", "Hits"}, true, nil
					}
				case *ast.CompositeLit:
					if t.r.Src(x.Type) == "[]*topicNode" {
						var es []string
						for _, el := range x.Elts {
							v, err := t.expr(el, env)
							if err != nil {
								return irTerm{}, true, err
							}
							if v.Ty != "Trie" {
								return irTerm{}, true, fmt.Errorf("element %s : %s", t.r.Src(el), v.Ty)
							}
							es = append(es, v.S)
						}
						return irTerm{"[" + strings.Join(es, ", ") + "]", "List Trie"}, true, nil
					}
				}
				return irTerm{}, false, nil
			},
			Ignore: irPrefixIgnore("mgr.RLock()", "defer mgr.RUnlock()"),
			Ret: func(v []irTerm) (string, error) {
				if len(v) != 2 {
					return "", errUnsupportedReturn
				}
				if v[0].Ty == "nil" && v[1].Ty == "Error" {
					return "none", nil
				}
				if v[0].Ty == "Hits" && v[1].Ty == "nil" {
					return "(some " + v[0].S + ")", nil
				}
				return "", errUnsupportedReturn
			},
		}
		if err := irEmit(r, w, "pkg/object/mqttproxy/topic.go", "TopicManager", "findSubscribers", s,
			"`t` = `mgr.root`; result: `none` = error (invalid topic), `some hits` = all (client, qos) added to `ans`, in visiting order."); err != nil {
			return err
		}

		// splitTopic: the rune loop with the pre-sized `levels` slice. A Go string is a `List Char`; the loop
		// index `i` (a byte offset in Go) is the CHARACTER index here — `topic[levelStart:i]` cuts at the same
		// places either way because both bounds are rune boundaries produced by the same loop; `len(level) > 1`
		// is the character count (differs from the byte count only for a level that is ONE multi-byte rune,
		// which is not a wildcard, so `wildCardFlag` is false for it: stated in Model/Topic.lean's doc too).
		w.Line("/-- `strings.Count(topic, \"/\")` -/")
		w.Line("def countSlash (s : List Char) : Nat := (s.filter (· == '/')).length")
		w.Line("")
		sp := &irSpec{
			Name:    "splitIR",
			Binders: "(topic : List Char)",
			BNames:  []string{"topic"},
			RetTy:   "Option (List Level)",
			Params:  []irTerm{{"topic", "List Char"}},
			LeanTy:  map[string]string{"Level": "Level", "Char": "Char"},
			CharTy:  "Char", CharFmt: "(Char.ofNat %d)",
			Funcs: map[string]irCall{
				"strings.Count:List Char": {Fmt: "((countSlash %[1]s : Nat) : Int)", Ty: "Int", NArgs: 2},
				"len:List Char":           {Fmt: "(%[1]s.length : Int)", Ty: "Int", NArgs: 1},
			},
			Ext:        irSpecExt{RangeKeyTy: "Int"},
			IndexSet:   map[string]string{"List Level": "(%[1]s.set %[2]s.toNat %[3]s)"},
			SliceFrom:  map[string]irCall{"List Char": {Fmt: "(%[1]s.drop %[2]s.toNat)", Ty: "List Char"}},
			SliceRange: map[string]irCall{"List Char": {Fmt: "((%[1]s.drop %[2]s.toNat).take (%[3]s - %[2]s).toNat)", Ty: "List Char"}},
			Hook: func(t *irT, e ast.Expr, env *irEnv) (irTerm, bool, error) {
				// make([]string, n)
				if ce, ok := e.(*ast.CallExpr); ok && t.r.Src(ce.Fun) == "make" && len(ce.Args) == 2 && t.r.Src(ce.Args[0]) == "[]string" {
					n, err := t.expr(ce.Args[1], env)
					if err != nil {
						return irTerm{}, true, err
					}
					if n.Ty != "Int" {
						return irTerm{}, true, fmt.Errorf("make length %s : %s", t.r.Src(ce.Args[1]), n.Ty)
					}
					return irTerm{"(List.replicate " + n.S + ".toNat ([] : Level))", "List Level"}, true, nil
				}
				return irTerm{}, false, nil
			},
			Ret: func(v []irTerm) (string, error) {
				if len(v) != 2 || v[1].Ty != "Bool" {
					return "", errUnsupportedReturn
				}
				if v[0].Ty == "nil" && v[1].S == "false" {
					return "none", nil
				}
				if v[0].Ty == "List Level" && v[1].S == "true" {
					return "(some " + v[0].S + ")", nil
				}
				return "", errUnsupportedReturn
			},
		}
		if err := irEmit(r, w, "pkg/object/mqttproxy/topic.go", "", "splitTopic", sp,
			"`none` = `(nil, false)`. `i`, `levelStart`, `levelsLoc` are Go `int`s (kept as `Int`)."); err != nil {
			return err
		}

		// TopicManager.insert: a mutable *topicNode cursor. Pointer semantics = PATH CURSORS (Model/Topic.lean,
		// `Ptr`, `childPtr`, `linkPtr`, `setClientPtr`): a pointer is the path of its node below the root (the heap is a
		// tree: nodes come from newNode() and are linked under one parent, never shared) plus a "fresh, not yet
		// linked" flag; `x.nodes[l] = y` links y under x and from then on the variable y denotes that child;
		// `x.clients[c] = q` updates the functional trie at x's path. The control flow (loop, `if !ok`, the order
		// link → descend, the final client entry) is what the translator takes from the source.
		ptrOf := func(t *irT, e ast.Expr, env *irEnv) (irTerm, error) {
			x, err := t.expr(e, env)
			if err != nil {
				return x, err
			}
			if x.Ty != "NodePtr" {
				return x, fmt.Errorf("%s : %s is not a node pointer", t.r.Src(e), x.Ty)
			}
			return x, nil
		}
		ins := &irSpec{
			Name:    "insertIR",
			Binders: "(t : Trie) (topic : List Char) (qos : QoS) (c : Client)",
			BNames:  []string{"t", "topic", "qos", "c"},
			RetTy:   "Option Trie",
			Recv:    irTerm{"()", "TopicMgr"},
			Params:  []irTerm{{"topic", "TopicStr"}, {"qos", "QoS"}, {"c", "Client"}},
			State:   []irLet{{"root", "Trie", "t"}},
			LeanTy:  map[string]string{"TopicMgr": "Unit", "TopicStr": "List Char", "NodePtr": "Ptr", "Level": "Level", "QoS": "QoS", "Client": "Client", "ChildrenOf": "Ptr"},
			GoTy:    map[string]string{"*topicNode": "NodePtr"},
			Zero:    map[string]string{"NodePtr": "(⟨[], false⟩ : Ptr)"},
			Fields: map[string]irField{
				"TopicMgr.root": {Fmt: "(⟨[], false⟩ : Ptr)", Ty: "NodePtr"},
				"NodePtr.nodes": {Fmt: "%s", Ty: "ChildrenOf"},
			},
			Methods: map[string]irCall{"TopicMgr.getLevels": {Fmt: "(getLevelsE %[2]s)", Ty: "List Level × Error", NArgs: 1}},
			Funcs:   map[string]irCall{"newNode": {Fmt: "(⟨[], true⟩ : Ptr)", Ty: "NodePtr", NArgs: 0}},
			Ext: irSpecExt{HookAssigns: true,
				IndexOk: map[string]irCall{"ChildrenOf": {Fmt: "(childPtr root %[1]s %[2]s)", Ty: "NodePtr × Bool"}}},
			StmtHook: func(t *irT, s ast.Stmt, env *irEnv) ([]irLet, bool, error) {
				as, ok := s.(*ast.AssignStmt)
				if !ok || as.Tok.String() != "=" || len(as.Lhs) != 1 || len(as.Rhs) != 1 {
					return nil, false, nil
				}
				ie, ok := as.Lhs[0].(*ast.IndexExpr)
				if !ok {
					return nil, false, nil
				}
				se, ok := ie.X.(*ast.SelectorExpr)
				if !ok || (se.Sel.Name != "nodes" && se.Sel.Name != "clients") {
					return nil, false, nil
				}
				base, err := ptrOf(t, se.X, env)
				if err != nil {
					return nil, false, nil // not a write through a node pointer
				}
				key, err := t.expr(ie.Index, env)
				if err != nil {
					return nil, true, err
				}
				if se.Sel.Name == "clients" {
					v, err := t.expr(as.Rhs[0], env)
					if err != nil {
						return nil, true, err
					}
					if key.Ty != "Client" || v.Ty != "QoS" {
						return nil, true, fmt.Errorf("%s: key %s, value %s", t.r.Src(s), key.Ty, v.Ty)
					}
					return []irLet{{"root", "Trie", fmt.Sprintf("(setClientPtr root %s %s %s)", base.S, key.S, v.S)}}, true, nil
				}
				rhs, err := ptrOf(t, as.Rhs[0], env)
				if err != nil {
					return nil, true, err
				}
				id, isVar := as.Rhs[0].(*ast.Ident)
				if !isVar || key.Ty != "Level" {
					return nil, true, fmt.Errorf("unsupported link %s", t.r.Src(s))
				}
				v, ok := env.vars[id.Name]
				if !ok || v.Param {
					return nil, true, fmt.Errorf("linked pointer %s is not a local variable", id.Name)
				}
				return []irLet{
					{"root", "Trie", fmt.Sprintf("(linkPtr root %s %s %s)", base.S, key.S, rhs.S)},
					{v.Lean, "NodePtr", fmt.Sprintf("(⟨%s.path ++ [%s], false⟩ : Ptr)", base.S, key.S)},
				}, true, nil
			},
			Ret: func(v []irTerm) (string, error) {
				if len(v) != 1 {
					return "", errUnsupportedReturn
				}
				if v[0].Ty == "Error" {
					return "none", nil
				}
				if v[0].Ty == "nil" {
					return "(some root)", nil
				}
				return "", errUnsupportedReturn
			},
		}
		if err := irEmit(r, w, "pkg/object/mqttproxy/topic.go", "TopicManager", "insert", ins,
			"`t` = the trie below `mgr.root` before the call; result: `none` = error (invalid topic), `some root` = the trie afterwards. Pointers are path cursors (see Model/Topic.lean)."); err != nil {
			return err
		}

		// TopicManager.remove: same pointer semantics; `prevNodes` is a list of path cursors, `delete(x.clients, c)` /
		// `delete(x.nodes, l)` update the functional trie at x's path, `len(x.clients)` / `len(x.nodes)` read it.
		rem := *ins
		rem.Name = "removeIR"
		rem.Binders, rem.BNames = "(t : Trie) (topic : List Char) (c : Client)", []string{"t", "topic", "c"}
		rem.Params = []irTerm{{"topic", "TopicStr"}, {"c", "Client"}}
		rem.LeanTy = map[string]string{"TopicMgr": "Unit", "TopicStr": "List Char", "NodePtr": "Ptr", "Level": "Level", "QoS": "QoS", "Client": "Client", "ChildrenOf": "Ptr", "ClientsOf": "Ptr"}
		rem.Fields = map[string]irField{
			"TopicMgr.root":   {Fmt: "(⟨[], false⟩ : Ptr)", Ty: "NodePtr"},
			"NodePtr.nodes":   {Fmt: "%s", Ty: "ChildrenOf"},
			"NodePtr.clients": {Fmt: "%s", Ty: "ClientsOf"},
		}
		rem.Funcs = map[string]irCall{
			"append:List NodePtr": {Fmt: "(%[1]s ++ [%[2]s])", Ty: "List NodePtr", NArgs: 2},
			"len:List NodePtr":    {Fmt: "(%[1]s.length : Int)", Ty: "Int", NArgs: 1},
			"len:ClientsOf":       {Fmt: "((nodeAt root %[1]s).clients.length : Int)", Ty: "Int", NArgs: 1},
			"len:ChildrenOf":      {Fmt: "((nodeAt root %[1]s).children.length : Int)", Ty: "Int", NArgs: 1},
		}
		rem.Index = map[string]irCall{
			"List NodePtr": {Fmt: "(%[1]s.getD %[2]s.toNat (⟨[], false⟩ : Ptr))", Ty: "NodePtr"},
			"List Level":   {Fmt: "(%[1]s.getD %[2]s.toNat ([] : Level))", Ty: "Level"},
			"ChildrenOf":   {Fmt: "(childOf %[1]s %[2]s)", Ty: "NodePtr"},
		}
		insHook := ins.Hook
		rem.Hook = func(t *irT, e ast.Expr, env *irEnv) (irTerm, bool, error) {
			if cl, ok := e.(*ast.CompositeLit); ok && len(cl.Elts) == 0 && t.r.Src(cl.Type) == "[]*topicNode" {
				return irTerm{"[]", "List NodePtr"}, true, nil
			}
			if insHook != nil {
				return insHook(t, e, env)
			}
			return irTerm{}, false, nil
		}
		rem.StmtHook = func(t *irT, s ast.Stmt, env *irEnv) ([]irLet, bool, error) {
			es, ok := s.(*ast.ExprStmt)
			if !ok {
				return nil, false, nil
			}
			ce, ok := es.X.(*ast.CallExpr)
			if !ok || t.r.Src(ce.Fun) != "delete" || len(ce.Args) != 2 {
				return nil, false, nil
			}
			se, ok := ce.Args[0].(*ast.SelectorExpr)
			if !ok || (se.Sel.Name != "nodes" && se.Sel.Name != "clients") {
				return nil, true, fmt.Errorf("unsupported %s", t.r.Src(s))
			}
			base, err := ptrOf(t, se.X, env)
			if err != nil {
				return nil, true, err
			}
			key, err := t.expr(ce.Args[1], env)
			if err != nil {
				return nil, true, err
			}
			if se.Sel.Name == "clients" && key.Ty == "Client" {
				return []irLet{{"root", "Trie", fmt.Sprintf("(delClientPtr root %s %s)", base.S, key.S)}}, true, nil
			}
			if se.Sel.Name == "nodes" && key.Ty == "Level" {
				return []irLet{{"root", "Trie", fmt.Sprintf("(unlinkPtr root %s %s)", base.S, key.S)}}, true, nil
			}
			return nil, true, fmt.Errorf("%s: key %s", t.r.Src(s), key.Ty)
		}
		if err := irEmit(r, w, "pkg/object/mqttproxy/topic.go", "TopicManager", "remove", &rem,
			"`none` = error (invalid topic), `some root` = the trie afterwards (also for the early `return nil` when a level of the path does not exist)."); err != nil {
			return err
		}

		// TopicManager.subscribe / unsubscribe (the entry points repaired by fix 7d6df9f): `mgr.insert` / `mgr.remove`
		// are the model-level functions (their bodies are tied above: insertIR / removeIR).
		w.Line("/-- `mgr.insert(topic, qos, clientID)` on the trie (error = invalid topic: nothing changes) -/")
		w.Line("def insertTM (root : Trie) (topic : List Char) (q : QoS) (c : Client) : Trie :=")
		w.Line("  ((split topic).map (fun ls => insert ls c q root)).getD root")
		w.Line("/-- `mgr.remove(topic, clientID)` on the trie -/")
		w.Line("def removeTM (root : Trie) (topic : List Char) (c : Client) : Trie :=")
		w.Line("  ((split topic).map (fun ls => remove ls c root)).getD root")
		w.Line("")
		ent := func(name string) *irSpec {
			return &irSpec{
				Name:    name,
				RetTy:   "Option Trie",
				Recv:    irTerm{"()", "TopicMgr"},
				State:   []irLet{{"root", "Trie", "trie0"}},
				LeanTy:  map[string]string{"TopicMgr": "Unit", "TopicStr": "List Char", "QoSB": "QoS", "Client": "Client"},
				Methods: map[string]irCall{"TopicMgr.getLevels": {Fmt: "(getLevelsE %[2]s)", Ty: "List Level × Error", NArgs: 1}},
				EffMethods: map[string]irEffCall{
					"TopicMgr.insert": {NArgs: 3, Pre: []irLet{{"§tmp", "Error", "(split %[2]s).isNone"}, {"root", "Trie", "(insertTM root %[2]s %[3]s %[4]s)"}}, Fmt: "§tmp", Ty: "Error"},
					"TopicMgr.remove": {NArgs: 2, Pre: []irLet{{"§tmp", "Error", "(split %[2]s).isNone"}, {"root", "Trie", "(removeTM root %[2]s %[3]s)"}}, Fmt: "§tmp", Ty: "Error"},
				},
				Index:  map[string]irCall{"List QoSB": {Fmt: "(%[1]s.getD %[2]s 0)", Ty: "QoSB"}},
				Ext:    irSpecExt{RangeKeyTy: "Nat"},
				Ignore: irPrefixIgnore("mgr.Lock()", "defer mgr.Unlock()"),
			}
		}
		sub := ent("subscribeIR")
		sub.Binders, sub.BNames = "(trie0 : Trie) (topics : List (List Char)) (qoss : List QoS) (c : Client)", []string{"trie0", "topics", "qoss", "c"}
		sub.Params = []irTerm{{"topics", "List TopicStr"}, {"qoss", "List QoSB"}, {"c", "Client"}}
		sub.Ret = func(v []irTerm) (string, error) {
			if len(v) != 1 {
				return "", errUnsupportedReturn
			}
			if v[0].Ty == "Error" {
				return "none", nil
			}
			if v[0].Ty == "nil" {
				return "(some root)", nil
			}
			return "", errUnsupportedReturn
		}
		if err := irEmit(r, w, "pkg/object/mqttproxy/topic.go", "TopicManager", "subscribe", sub,
			"`none` = the packet is rejected (some filter is invalid): nothing was inserted."); err != nil {
			return err
		}
		uns := ent("unsubscribeIR")
		uns.RetTy = "Trie × Bool"
		uns.Binders, uns.BNames = "(trie0 : Trie) (topics : List (List Char)) (c : Client)", []string{"trie0", "topics", "c"}
		uns.Params = []irTerm{{"topics", "List TopicStr"}, {"c", "Client"}}
		uns.Ret = func(v []irTerm) (string, error) {
			if len(v) != 1 || v[0].Ty != "Error" {
				return "", errUnsupportedReturn
			}
			return "(root, " + v[0].S + ")", nil
		}
		return irEmit(r, w, "pkg/object/mqttproxy/topic.go", "TopicManager", "unsubscribe", uns,
			"Result: the trie afterwards and whether an error is reported (some filter is invalid; the others are still removed).")
	}})
}
