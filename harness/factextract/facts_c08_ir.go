package main

// Regenerated tie by translation for C08 (irlib.go, notes/IR.md): the bodies of
// CountBasedWindow.Push, CircuitBreaker.transitTo / AcquirePermission / RecordResult
// (pkg/util/circuitbreaker/circuitbreaker.go) → Gen.FactsC08IR.*IR; `<fn>_regenerated_from_source`
// (Props/C08.lean) prove them equal to Model/CircuitBreaker.lean's CountWin.push, transitTo,
// acquire, record. One call reads the clock as one instant `now`; the mutex and the listener
// goroutine are ignored (listed in the generated file).

import (
	"fmt"
	"go/ast"
	"go/token"
	"strings"
)

const c08CB = "(⟨cb_st, cb_transit, cb_win, cb_nHalf, cb_stateID⟩ : CB)"

func c08Spec(name string) *irSpec {
	return &irSpec{
		Name:    name,
		Binders: "(p : Policy) (cb : CB) (now : Int)",
		BNames:  []string{"p", "cb", "now"},
		RetTy:   "CB",
		Recv:    irTerm{"cb", "CB"},
		State: []irLet{{"cb_st", "St", "cb.st"}, {"cb_transit", "Time", "cb.transit"}, {"cb_win", "Win", "cb.win"},
			{"cb_nHalf", "Nat", "cb.nHalf"}, {"cb_stateID", "Nat", "cb.stateID"}},
		LeanTy: map[string]string{"Time": "Int", "WinType": "Bool"},
		Fields: map[string]irField{
			"CB.policy":                               {Fmt: "p", Ty: "Policy"},
			"CB.state":                                {Fmt: "cb_st", Ty: "St", State: true},
			"CB.transitTime":                          {Fmt: "cb_transit", Ty: "Time", State: true},
			"CB.window":                               {Fmt: "cb_win", Ty: "Win", State: true},
			"CB.numberOfCallsInHalfOpen":              {Fmt: "cb_nHalf", Ty: "Nat", State: true},
			"CB.stateID":                              {Fmt: "cb_stateID", Ty: "Nat", State: true},
			"Policy.FailureRateThreshold":             {Fmt: "%s.failTh", Ty: "Nat"},
			"Policy.SlowCallRateThreshold":            {Fmt: "%s.slowTh", Ty: "Nat"},
			"Policy.SlidingWindowType":                {Fmt: "%s.timeBased", Ty: "WinType"},
			"Policy.SlidingWindowSize":                {Fmt: "%s.size", Ty: "Nat"},
			"Policy.PermittedNumberOfCallsInHalfOpen": {Fmt: "%s.permitted", Ty: "Nat"},
			"Policy.MinimumNumberOfCalls":             {Fmt: "%s.minCalls", Ty: "Nat"},
			"Policy.SlowCallDurationThreshold":        {Fmt: "%s.slowDur", Ty: "Int"},
			"Policy.MaxWaitDurationInHalfOpen":        {Fmt: "%s.maxWaitHalf", Ty: "Int"},
			"Policy.WaitDurationInOpen":               {Fmt: "%s.waitOpen", Ty: "Int"},
			// CountBasedWindow
			"CountWin.total":     {Fmt: "cbw_total", Ty: "Nat", State: true},
			"CountWin.slow":      {Fmt: "cbw_slow", Ty: "Nat", State: true},
			"CountWin.failure":   {Fmt: "cbw_failure", Ty: "Nat", State: true},
			"CountWin.bucketIdx": {Fmt: "cbw_idx", Ty: "Nat", State: true},
			"CountWin.bucket":    {Fmt: "cbw_bucket", Ty: "List Res", State: true},
			// TimeBasedWindow (firstBucket is an `int`: kept as Int, converted at the boundary)
			"TimeWin.total":       {Fmt: "tbw_total", Ty: "Nat", State: true},
			"TimeWin.slow":        {Fmt: "tbw_slow", Ty: "Nat", State: true},
			"TimeWin.failure":     {Fmt: "tbw_failure", Ty: "Nat", State: true},
			"TimeWin.beginAt":     {Fmt: "tbw_beginAt", Ty: "Time", State: true},
			"TimeWin.firstBucket": {Fmt: "tbw_first", Ty: "Int", State: true},
			"TimeWin.bucket":      {Fmt: "tbw_bucket", Ty: "List Bucket", State: true},
			"Bucket.total":        {Fmt: "%s.total", Ty: "Nat"},
			"Bucket.slow":         {Fmt: "%s.slow", Ty: "Nat"},
			"Bucket.failure":      {Fmt: "%s.failure", Ty: "Nat"},
		},
		Consts: map[string]irTerm{
			"StateDisabled": {"St.disabled", "St"}, "StateClosed": {"St.closed", "St"}, "StateHalfOpen": {"St.halfOpen", "St"},
			"StateOpen": {"St.open", "St"}, "StateForceOpen": {"St.forceOpen", "St"},
			"CallResultUnknown": {"Res.unknown", "Res"}, "CallResultSuccess": {"Res.success", "Res"},
			"CallResultSlow": {"Res.slow", "Res"}, "CallResultFailure": {"Res.failure", "Res"},
			// Policy.timeBased = (SlidingWindowType != CountBased)
			"CountBased": {"false", "WinType"}, "TimeBased": {"true", "WinType"},
			"time.Second": {"sec", "Int"},
		},
		Funcs: map[string]irCall{
			"nowFunc":             {Fmt: "now", Ty: "Time", NArgs: 0},
			"fmt.Sprintf":         {Fmt: "\"\"", Ty: "String", NArgs: -1},
			"NewCountBasedWindow": {Fmt: "(Win.count (newCountWin %[1]s))", Ty: "Win", NArgs: 1},
			"NewTimeBasedWindow":  {Fmt: "(Win.time (newTimeWin %[1]s now))", Ty: "Win", NArgs: 1},
			"len:List Res":        {Fmt: "%[1]s.length", Ty: "Nat", NArgs: 1},
			"len:List Bucket":     {Fmt: "(%[1]s.length : Int)", Ty: "Int", NArgs: 1},
		},
		Methods: map[string]irCall{
			"Time.Sub":        {Fmt: "(%[1]s - %[2]s)", Ty: "Int", NArgs: 1},
			"Time.Add":        {Fmt: "(%[1]s + %[2]s)", Ty: "Time", NArgs: 1},
			"Win.Total":       {Fmt: "%[1]s.total", Ty: "Nat", NArgs: 0},
			"Win.FailureRate": {Fmt: "%[1]s.failureRate", Ty: "Nat", NArgs: 0},
			"Win.SlowRate":    {Fmt: "%[1]s.slowRate", Ty: "Nat", NArgs: 0},
		},
		StmtMethods: map[string]irStmtCall{
			// the reason string is not modelled
			"CB.transitTo": {NArgs: 2, Lets: []irLet{
				{"t__", "CB", "transitTo p " + c08CB + " now %[2]s"},
				{"cb_st", "St", "t__.st"}, {"cb_transit", "Time", "t__.transit"}, {"cb_win", "Win", "t__.win"},
				{"cb_nHalf", "Nat", "t__.nHalf"}, {"cb_stateID", "Nat", "t__.stateID"}}},
			"Win.Push": {NArgs: 1, Lets: []irLet{{"%[1]s", "Win", "(%[1]s.push now %[2]s)"}}},
		},
		Index: map[string]irCall{"List Res": {Fmt: "(%[1]s.getD %[2]s Res.unknown)", Ty: "Res"},
			"List Bucket": {Fmt: "(%[1]s.getD %[2]s.toNat Bucket.zero)", Ty: "Bucket"}},
		IndexSet: map[string]string{"List Res": "(%[1]s.set %[2]s %[3]s)", "List Bucket": "(%[1]s.set %[2]s.toNat %[3]s)"},
		FieldSet: map[string]string{"Bucket.total": "total", "Bucket.slow": "slow", "Bucket.failure": "failure"},
		Hook: func(t *irT, e ast.Expr, env *irEnv) (irTerm, bool, error) {
			if cl, ok := e.(*ast.CompositeLit); ok && len(cl.Elts) == 0 && t.r.Src(cl.Type) == "timeBasedWindowBucket" {
				return irTerm{"Bucket.zero", "Bucket"}, true, nil
			}
			return irTerm{}, false, nil
		},
		Ignore: func(src string, s ast.Stmt) bool {
			switch s.(type) {
			case *ast.ExprStmt:
				return strings.HasPrefix(src, "cb.lock.")
			case *ast.DeferStmt:
				return strings.HasPrefix(src, "defer cb.lock.")
			case *ast.IfStmt:
				// the event listener goroutine is not modelled
				return strings.HasPrefix(src, "if cb.listener != nil {")
			}
			return false
		},
		Ret: func(v []irTerm) (string, error) {
			if len(v) != 0 {
				return "", errUnsupportedReturn
			}
			return c08CB, nil
		},
	}
}

func init() {
	register(Extractor{Module: "FactsC08IR", Imports: []string{"EgVerif.Model.CircuitBreaker"}, Run: func(r *Repo, w *Lean) error {
		const file = "pkg/util/circuitbreaker/circuitbreaker.go"
		w.Line("set_option linter.unusedVariables false")
		w.Line("open EgVerif.CircuitBreaker")
		w.Line("")
		// CountBasedWindow.Push
		s := c08Spec("countPushIR")
		s.Binders, s.BNames, s.RetTy = "(w : CountWin) (r : Res)", []string{"w", "r"}, "CountWin"
		s.Recv = irTerm{"w", "CountWin"}
		s.Params = []irTerm{{"r", "Res"}}
		s.State = []irLet{{"cbw_total", "Nat", "w.total"}, {"cbw_slow", "Nat", "w.slow"}, {"cbw_failure", "Nat", "w.failure"},
			{"cbw_idx", "Nat", "w.idx"}, {"cbw_bucket", "List Res", "w.bucket"}}
		s.Ret = func(v []irTerm) (string, error) {
			if len(v) != 0 {
				return "", errUnsupportedReturn
			}
			return "(⟨cbw_total, cbw_slow, cbw_failure, cbw_idx, cbw_bucket⟩ : CountWin)", nil
		}
		if err := irEmit(r, w, file, "CountBasedWindow", "Push", s, "`uint32` counters are `Nat` (truncated subtraction; never underflows on reachable states)."); err != nil {
			return err
		}
		// TimeBasedWindow.evict / Push
		const tw = "(⟨tbw_total, tbw_slow, tbw_failure, tbw_beginAt, tbw_first.toNat, tbw_bucket⟩ : TimeWin)"
		twState := []irLet{{"tbw_total", "Nat", "w.total"}, {"tbw_slow", "Nat", "w.slow"}, {"tbw_failure", "Nat", "w.failure"},
			{"tbw_beginAt", "Time", "w.beginAt"}, {"tbw_first", "Int", "(w.first : Int)"}, {"tbw_bucket", "List Bucket", "w.bucket"}}
		twRet := func(v []irTerm) (string, error) {
			if len(v) != 0 {
				return "", errUnsupportedReturn
			}
			return tw, nil
		}
		s = c08Spec("timeEvictIR")
		s.Binders, s.BNames, s.RetTy = "(w : TimeWin) (now : Int)", []string{"w", "now"}, "TimeWin"
		s.Recv, s.Params, s.State, s.Ret = irTerm{"w", "TimeWin"}, []irTerm{{"now", "Time"}}, twState, twRet
		if err := irEmit(r, w, file, "TimeBasedWindow", "evict", s,
			"`b := &tbw.bucket[i]` is a pointer into the slice: reads / writes go through the list. `firstBucket` is kept as `Int`."); err != nil {
			return err
		}
		s = c08Spec("timePushIR")
		s.Binders, s.BNames, s.RetTy = "(w : TimeWin) (now : Int) (r : Res)", []string{"w", "now", "r"}, "TimeWin"
		s.Recv, s.Params, s.State, s.Ret = irTerm{"w", "TimeWin"}, []irTerm{{"r", "Res"}}, twState, twRet
		s.StmtMethods["TimeWin.evict"] = irStmtCall{NArgs: 1, Lets: []irLet{
			{"e__", "TimeWin", "TimeWin.evict " + tw + " %[2]s"},
			{"tbw_total", "Nat", "e__.total"}, {"tbw_slow", "Nat", "e__.slow"}, {"tbw_failure", "Nat", "e__.failure"},
			{"tbw_beginAt", "Time", "e__.beginAt"}, {"tbw_first", "Int", "(e__.first : Int)"}, {"tbw_bucket", "List Bucket", "e__.bucket"}}}
		if err := irEmit(r, w, file, "TimeBasedWindow", "Push", s,
			"`tbw.evict(now)` is the model's `TimeWin.evict` (= `timeEvictIR`); `now` is the single `nowFunc()` value."); err != nil {
			return err
		}
		// transitTo
		s = c08Spec("transitToIR")
		s.Binders, s.BNames = "(p : Policy) (cb : CB) (now : Int) (s : St)", []string{"p", "cb", "now", "s"}
		s.Params = []irTerm{{"s", "St"}, {"", ""}}
		if err := irEmit(r, w, file, "CircuitBreaker", "transitTo", s, "`now` is the value of the single `nowFunc()` call."); err != nil {
			return err
		}
		// AcquirePermission
		s = c08Spec("acquireIR")
		s.RetTy = "CB × AcqOut"
		s.Ret = func(v []irTerm) (string, error) {
			if len(v) != 2 || v[0].Ty != "Bool" || v[1].Ty != "Nat" {
				return "", errUnsupportedReturn
			}
			return "(" + c08CB + ", (⟨" + v[0].S + ", " + v[1].S + "⟩ : AcqOut))", nil
		}
		if err := irEmit(r, w, file, "CircuitBreaker", "AcquirePermission", s,
			"One critical section reading the clock as one instant `now`; `cb.transitTo` is the model's `transitTo` (= `transitToIR`)."); err != nil {
			return err
		}
		// RecordResult
		s = c08Spec("recordIR")
		s.Binders = "(p : Policy) (cb : CB) (id : Nat) (hasErr : Bool) (d : Int) (now : Int)"
		s.BNames = []string{"p", "cb", "id", "hasErr", "d", "now"}
		s.Params = []irTerm{{"id", "Nat"}, {"hasErr", "Bool"}, {"d", "Int"}}
		return irEmit(r, w, file, "CircuitBreaker", "RecordResult", s,
			"`cb.window.Push` is the model's `Win.push` (count-based part: `countPushIR`).")
	}})
}

// --- Extension resil: pkg/resilience/circuitbreaker.go — circuitBreakerWrapper.Wrap (the returned closure,
// with its deferred `if panicked { RecordResult(…, true, …) }` inlined by irSpec.DeferInline) and
// CircuitBreakerPolicy.CreateWrapper → module FactsC08IRw.

func c08WrapSpec() *irSpec {
	return &irSpec{
		Name:        "wrapIR",
		Binders:     "(permitted : Bool) (o : Outcome)",
		BNames:      []string{"permitted", "o"},
		RetTy:       "List Ev × WrapRet",
		Recv:        irTerm{"()", "W"},
		Params:      []irTerm{{"()", "Handler"}},
		Closure:     &irClosure{Params: []irTerm{{"()", "Ctx"}}},
		DeferInline: true,
		State:       []irLet{{"events", "Events", "([] : List Ev)"}},
		LeanTy: map[string]string{"Events": "List Ev", "W": "Unit", "Handler": "Unit", "Ctx": "Unit", "Err": "Outcome",
			"Time": "Unit", "Dur": "Unit", "SID": "Unit"},
		GoTy:   map[string]string{"error": "Err"},
		Zero:   map[string]string{"Err": "Outcome.ok"},
		Consts: map[string]irTerm{"ErrShortCircuited": {"WrapRet.shortCircuited", "WrapRet"}},
		Funcs: map[string]irCall{
			"time.Now":   {Fmt: "()", Ty: "Time", NArgs: 0},
			"time.Since": {Fmt: "()", Ty: "Dur", NArgs: 1},
		},
		EffMethods: map[string]irEffCall{
			// w.AcquirePermission(): the breaker's answer is the environment's `permitted`
			"W.AcquirePermission": {NArgs: 0, Fmt: "(permitted, ())", Ty: "Bool × SID",
				Pre: []irLet{{"events", "Events", "(events ++ [Ev.acquire])"}}},
		},
		EffFuncs: map[string]irEffCall{
			// handler(ctx): returns nil / an error, or panics (then the statements after it do not run)
			"(Handler)": {NArgs: 1, Fmt: "o", Ty: "Err", Guard: "(o != Outcome.panic)",
				Pre: []irLet{{"events", "Events", "(events ++ [Ev.handler])"}}},
		},
		StmtMethods: map[string]irStmtCall{
			"W.RecordResult": {NArgs: 3, Lets: []irLet{{"events", "Events", "(events ++ [Ev.record %[3]s])"}}},
		},
		// a panic propagates to the caller after the deferred closure ran
		Panic: "(events, WrapRet.panics)",
		Hook: func(t *irT, e ast.Expr, env *irEnv) (irTerm, bool, error) {
			// err != nil / err == nil for the handler's outcome
			if be, ok := e.(*ast.BinaryExpr); ok && (be.Op == token.NEQ || be.Op == token.EQL) {
				if id, ok := be.Y.(*ast.Ident); ok && id.Name == "nil" {
					if v, err := t.tryExpr(be.X, env); err == nil && v.Ty == "Err" {
						if be.Op == token.NEQ {
							return irTerm{"(" + v.S + " != Outcome.ok)", "Bool"}, true, nil
						}
						return irTerm{"(" + v.S + " == Outcome.ok)", "Bool"}, true, nil
					}
				}
			}
			return irTerm{}, false, nil
		},
		Ret: func(v []irTerm) (string, error) {
			if len(v) != 1 {
				return "", errUnsupportedReturn
			}
			switch v[0].Ty {
			case "WrapRet":
				return "(events, " + v[0].S + ")", nil
			case "Err":
				return "(events, if " + v[0].S + " == Outcome.ok then WrapRet.nil else WrapRet.handlerErr)", nil
			}
			return "", errUnsupportedReturn
		},
	}
}

// c08CreateWrapperSpec: CircuitBreakerPolicy.CreateWrapper. The `*libcb.Policy` under construction is a local
// of the model's `Policy` type; `policy.F = v` / `policy.F, _ = f(x)` become `{ policy with f := v }` (StmtHook).
func c08CreateWrapperSpec() *irSpec {
	fieldOf := map[string]string{"FailureRateThreshold": "failTh", "SlowCallRateThreshold": "slowTh", "SlidingWindowType": "timeBased",
		"SlidingWindowSize": "size", "PermittedNumberOfCallsInHalfOpen": "permitted", "MinimumNumberOfCalls": "minCalls",
		"SlowCallDurationThreshold": "slowDur", "MaxWaitDurationInHalfOpen": "maxWaitHalf", "WaitDurationInOpen": "waitOpen"}
	tyOf := map[string]string{"failTh": "Nat", "slowTh": "Nat", "timeBased": "WinType", "size": "Nat", "permitted": "Nat", "minCalls": "Nat",
		"slowDur": "Int", "maxWaitHalf": "Int", "waitOpen": "Int"}
	s := &irSpec{
		Name:    "createWrapperIR",
		Binders: "(raw : RawPolicy) (parse : String → Int × Bool)",
		BNames:  []string{"raw", "parse"},
		RetTy:   "Policy",
		Recv:    irTerm{"raw", "Raw"},
		LeanTy:  map[string]string{"Raw": "RawPolicy", "CBPol": "Policy", "WinType": "Bool"},
		Fields: map[string]irField{
			"Raw.SlidingWindowType":                {Fmt: "%s.winType", Ty: "String"},
			"Raw.FailureRateThreshold":             {Fmt: "%s.failTh", Ty: "Nat"},
			"Raw.SlowCallRateThreshold":            {Fmt: "%s.slowTh", Ty: "Nat"},
			"Raw.SlidingWindowSize":                {Fmt: "%s.size", Ty: "Nat"},
			"Raw.PermittedNumberOfCallsInHalfOpen": {Fmt: "%s.permitted", Ty: "Nat"},
			"Raw.MinimumNumberOfCalls":             {Fmt: "%s.minCalls", Ty: "Nat"},
			"Raw.SlowCallDurationThreshold":        {Fmt: "%s.slowDur", Ty: "String"},
			"Raw.MaxWaitDurationInHalfOpen":        {Fmt: "%s.maxWaitHalf", Ty: "String"},
			"Raw.WaitDurationInOpen":               {Fmt: "%s.waitOpen", Ty: "String"},
		},
		Consts: map[string]irTerm{"libcb.CountBased": {"false", "WinType"}, "libcb.TimeBased": {"true", "WinType"},
			"time.Minute": {"60000000000", "Int"}},
		Funcs: map[string]irCall{
			"strings.ToUpper":    {Fmt: "%[1]s.toUpper", Ty: "String", NArgs: 1},
			"time.ParseDuration": {Fmt: "(parse %[1]s)", Ty: "Int × Error", NArgs: 1},
			"libcb.New":          {Fmt: "%[1]s", Ty: "CBPol", NArgs: 1},
		},
		Ret: func(v []irTerm) (string, error) {
			if len(v) != 1 || v[0].Ty != "CBPol" {
				return "", errUnsupportedReturn
			}
			return v[0].S, nil
		},
	}
	s.Ext.HookAssigns = true
	s.Hook = func(t *irT, e ast.Expr, env *irEnv) (irTerm, bool, error) {
		switch x := e.(type) {
		case *ast.UnaryExpr:
			// &libcb.Policy{Field: value, …}: unset fields are Go's zero values
			cl, ok := x.X.(*ast.CompositeLit)
			if !ok || x.Op != token.AND || t.r.Src(cl.Type) != "libcb.Policy" {
				break
			}
			vals := map[string]string{"failTh": "0", "slowTh": "0", "timeBased": "false", "size": "0", "permitted": "0", "minCalls": "0",
				"slowDur": "0", "maxWaitHalf": "0", "waitOpen": "0"}
			for _, el := range cl.Elts {
				kv, ok := el.(*ast.KeyValueExpr)
				if !ok {
					return irTerm{}, true, fmt.Errorf("unkeyed libcb.Policy literal")
				}
				f, ok := fieldOf[t.r.Src(kv.Key)]
				if !ok {
					return irTerm{}, true, fmt.Errorf("unknown libcb.Policy field %s", t.r.Src(kv.Key))
				}
				v, err := t.expr(kv.Value, env)
				if err != nil {
					return irTerm{}, true, err
				}
				if v.Ty != tyOf[f] && !(v.Ty == "lit" && tyOf[f] != "WinType") {
					return irTerm{}, true, fmt.Errorf("libcb.Policy.%s: value of type %s", t.r.Src(kv.Key), v.Ty)
				}
				vals[f] = v.S
			}
			lit := "({ failTh := " + vals["failTh"] + ", slowTh := " + vals["slowTh"] + ", timeBased := " + vals["timeBased"] +
				", size := " + vals["size"] + ", permitted := " + vals["permitted"] + ", minCalls := " + vals["minCalls"] +
				", slowDur := " + vals["slowDur"] + ", maxWaitHalf := " + vals["maxWaitHalf"] + ", waitOpen := " + vals["waitOpen"] + " } : Policy)"
			return irTerm{lit, "CBPol"}, true, nil
		case *ast.CompositeLit:
			// circuitBreakerWrapper{CircuitBreaker: libcb.New(policy)}: the wrapper is the breaker built from the policy
			if t.r.Src(x.Type) == "circuitBreakerWrapper" && len(x.Elts) == 1 {
				if kv, ok := x.Elts[0].(*ast.KeyValueExpr); ok && t.r.Src(kv.Key) == "CircuitBreaker" {
					v, err := t.expr(kv.Value, env)
					return v, true, err
				}
			}
		}
		return irTerm{}, false, nil
	}
	s.StmtHook = func(t *irT, st ast.Stmt, env *irEnv) ([]irLet, bool, error) {
		as, ok := st.(*ast.AssignStmt)
		if !ok || as.Tok != token.ASSIGN || len(as.Rhs) != 1 || len(as.Lhs) < 1 || len(as.Lhs) > 2 {
			return nil, false, nil
		}
		se, ok := as.Lhs[0].(*ast.SelectorExpr)
		if !ok {
			return nil, false, nil
		}
		id, ok := se.X.(*ast.Ident)
		if !ok {
			return nil, false, nil
		}
		v, ok := env.vars[id.Name]
		if !ok || v.Ty != "CBPol" {
			return nil, false, nil
		}
		f, ok := fieldOf[se.Sel.Name]
		if !ok {
			return nil, true, fmt.Errorf("unknown libcb.Policy field %s", se.Sel.Name)
		}
		if len(as.Lhs) == 2 {
			if b, ok := as.Lhs[1].(*ast.Ident); !ok || b.Name != "_" {
				return nil, true, fmt.Errorf("unsupported assignment %s", t.r.Src(as))
			}
		}
		rhs, err := t.tryExpr(as.Rhs[0], env)
		if err != nil {
			// the merge analysis asks with the environment *outside* the branch (an if-init variable such as `d`
			// is unknown there): the target is what matters to it. In the real pass the term below cannot occur
			// unless the right-hand side really is untranslatable — then the generated file does not compile.
			return []irLet{{v.Lean, "CBPol", "(untranslatable_rhs : Policy)"}}, true, nil
		}
		val := rhs.S
		if len(as.Lhs) == 2 {
			parts := irSplitProd(rhs.Ty)
			if len(parts) != 2 || parts[0] != tyOf[f] {
				return nil, true, fmt.Errorf("%s: value of type %s", t.r.Src(as), rhs.Ty)
			}
			val = rhs.S + ".1"
		} else if rhs.Ty != tyOf[f] && !(rhs.Ty == "lit" && tyOf[f] != "WinType") {
			return nil, true, fmt.Errorf("%s: value of type %s", t.r.Src(as), rhs.Ty)
		}
		return []irLet{{v.Lean, "CBPol", "{ " + v.Lean + " with " + f + " := " + val + " }"}}, true, nil
	}
	return s
}

func init() {
	register(Extractor{Module: "FactsC08IRc", Imports: []string{"EgVerif.Model.CircuitBreaker"}, Run: func(r *Repo, w *Lean) error {
		w.Line("set_option linter.unusedVariables false")
		w.Line("open EgVerif.CircuitBreaker")
		w.Line("")
		return irEmit(r, w, "pkg/resilience/circuitbreaker.go", "CircuitBreakerPolicy", "CreateWrapper", c08CreateWrapperSpec(),
			"Result: the `libcb.Policy` the breaker is created with (`libcb.New(policy)`); `parse` = `time.ParseDuration`.")
	}})
	register(Extractor{Module: "FactsC08IRw", Imports: []string{"EgVerif.Model.CircuitBreaker"}, Run: func(r *Repo, w *Lean) error {
		w.Line("set_option linter.unusedVariables false")
		w.Line("open EgVerif.CircuitBreaker")
		w.Line("")
		return irEmit(r, w, "pkg/resilience/circuitbreaker.go", "circuitBreakerWrapper", "Wrap", c08WrapSpec(),
			"The body of the returned closure; `permitted` = the answer of `AcquirePermission`, `o` = what the wrapped handler does\n"+
				"(a panic makes the call partial: the deferred closure, inlined from the source, runs on that path and before every return).")
	}})
}
