package main

// Regenerated tie by translation for pkg/util/urlrule/urlrule.go (Extension resil, round 3) → module
// FactsC09IRu: StringMatch.Validate / Match, URLRule.Init / Match / DeepEqual, proved equal to
// Model/URLRule.lean. `regexp.MatchString` is the oracle `re pattern value`; `sm.re != nil` is the
// model's `compiled` flag.

import (
	"go/ast"
	"go/token"
)

func c09uSpec(name string) *irSpec {
	s := &irSpec{
		Name:   name,
		LeanTy: map[string]string{"SM": "StringMatch", "Re": "StringMatch", "R": "Rule", "HReq": "Unit", "URLv": "Unit", "ReC": "Bool"},
		Fields: map[string]irField{
			"SM.Empty":    {Fmt: "%s.empty", Ty: "Bool"},
			"SM.Exact":    {Fmt: "%s.exact", Ty: "String"},
			"SM.Prefix":   {Fmt: "%s.pfx", Ty: "String"},
			"SM.RegEx":    {Fmt: "%s.regex", Ty: "String"},
			"SM.re":       {Fmt: "%s", Ty: "Re"}, // the compiled regexp of this StringMatch
			"R.Methods":   {Fmt: "%s.methods", Ty: "List String"},
			"R.URL":       {Fmt: "%s.url", Ty: "SM"},
			"R.PolicyRef": {Fmt: "%s.policyRef", Ty: "String"},
			"HReq.Method": {Fmt: "method", Ty: "String"},
			"HReq.URL":    {Fmt: "()", Ty: "URLv"},
			"URLv.Path":   {Fmt: "path", Ty: "String"},
		},
		Funcs: map[string]irCall{
			"strings.HasPrefix":     {Fmt: "(%[1]s.startsWith %[2]s)", Ty: "Bool", NArgs: 2},
			"stringtool.StrInSlice": {Fmt: "(%[2]s.contains %[1]s)", Ty: "Bool", NArgs: 2},
			"len:List String":       {Fmt: "(%[1]s.length : Int)", Ty: "Int", NArgs: 1},
			"fmt.Errorf":            {Fmt: "true", Ty: "Error", NArgs: -1},
		},
		Methods: map[string]irCall{
			"Re.MatchString": {Fmt: "(re %[1]s.regex %[2]s)", Ty: "Bool", NArgs: 1},
			"SM.Match":       {Fmt: "(StringMatch.matches re %[1]s %[2]s)", Ty: "Bool", NArgs: 1},
		},
		Index: map[string]irCall{"List String": {Fmt: "(%[1]s.getD %[2]s.toNat \"\")", Ty: "String"}},
	}
	s.Hook = func(t *irT, e ast.Expr, env *irEnv) (irTerm, bool, error) {
		// sm.re == nil / != nil
		if be, ok := e.(*ast.BinaryExpr); ok && (be.Op == token.EQL || be.Op == token.NEQ) {
			if id, ok := be.Y.(*ast.Ident); ok && id.Name == "nil" {
				if v, err := t.tryExpr(be.X, env); err == nil && v.Ty == "Re" {
					if be.Op == token.EQL {
						return irTerm{"(!" + v.S + ".compiled)", "Bool"}, true, nil
					}
					return irTerm{v.S + ".compiled", "Bool"}, true, nil
				}
			}
		}
		return irTerm{}, false, nil
	}
	return s
}

func init() {
	register(Extractor{Module: "FactsC09IRu", Imports: []string{"EgVerif.Model.URLRule"}, Run: func(r *Repo, w *Lean) error {
		const file = "pkg/util/urlrule/urlrule.go"
		w.Line("set_option linter.unusedVariables false")
		w.Line("open EgVerif.URLRule")
		w.Line("")
		retBool := func(v []irTerm) (string, error) {
			if len(v) != 1 || v[0].Ty != "Bool" {
				return "", errUnsupportedReturn
			}
			return v[0].S, nil
		}
		// StringMatch.Validate
		s := c09uSpec("smValidIR")
		s.Binders, s.BNames, s.RetTy = "(sm : StringMatch)", []string{"sm"}, "Bool"
		s.Recv = irTerm{"sm", "SM"}
		s.Ret = func(v []irTerm) (string, error) {
			if len(v) != 1 {
				return "", errUnsupportedReturn
			}
			switch v[0].Ty {
			case "nil":
				return "true", nil
			case "Error":
				return "(!" + v[0].S + ")", nil
			}
			return "", errUnsupportedReturn
		}
		if err := irEmit(r, w, file, "StringMatch", "Validate", s, "Result: `Validate() == nil`."); err != nil {
			return err
		}
		// StringMatch.Match
		s = c09uSpec("smMatchIR")
		s.Binders, s.BNames, s.RetTy = "(re : String → String → Bool) (sm : StringMatch) (value : String)", []string{"re", "sm", "value"}, "Bool"
		s.Recv, s.Params, s.Ret = irTerm{"sm", "SM"}, []irTerm{{"value", "String"}}, retBool
		if err := irEmit(r, w, file, "StringMatch", "Match", s, "`re pattern value` = `regexp.MatchString`; `sm.compiled` = `sm.re != nil`."); err != nil {
			return err
		}
		// URLRule.Match
		s = c09uSpec("ruleMatchIR")
		s.Binders, s.BNames, s.RetTy = "(re : String → String → Bool) (r : Rule) (method path : String)", []string{"re", "r", "method", "path"}, "Bool"
		s.Recv, s.Params, s.Ret = irTerm{"r", "R"}, []irTerm{{"()", "HReq"}}, retBool
		if err := irEmit(r, w, file, "URLRule", "Match", s, "`method` = `req.Method`, `path` = `req.URL.Path`."); err != nil {
			return err
		}
		// URLRule.Init
		s = c09uSpec("ruleInitIR")
		s.Binders, s.BNames, s.RetTy = "(r : Rule)", []string{"r"}, "String × Bool"
		s.Recv = irTerm{"r", "R"}
		s.State = []irLet{{"r_id", "String", "\"\""}, {"r_compiled", "ReC", "r.url.compiled"}}
		s.Fields["R.id"] = irField{Fmt: "r_id", Ty: "String", State: true}
		s.Fields["SM.re"] = irField{Fmt: "r_compiled", Ty: "ReC", State: true}
		// regexp.MustCompile panics on an invalid pattern — excluded by the schema's `format=regexp`
		s.Funcs["regexp.MustCompile"] = irCall{Fmt: "true", Ty: "ReC", NArgs: 1}
		s.Ret = func(v []irTerm) (string, error) {
			if len(v) != 0 {
				return "", errUnsupportedReturn
			}
			return "(r_id, r_compiled)", nil
		}
		if err := irEmit(r, w, file, "URLRule", "Init", s, "Result: (`r.id`, `r.URL.re != nil`) afterwards."); err != nil {
			return err
		}
		// URLRule.DeepEqual
		s = c09uSpec("deepEqualIR")
		s.Binders, s.BNames, s.RetTy = "(r r1 : Rule)", []string{"r", "r1"}, "Bool"
		s.Recv, s.Params, s.Ret = irTerm{"r", "R"}, []irTerm{{"r1", "R"}}, retBool
		return irEmit(r, w, file, "URLRule", "DeepEqual", s, "")
	}})
}
