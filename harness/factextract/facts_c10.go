package main

// Facts for C10 (retry / time limit / breaker record): the shape of
// RetryPolicy.Wrap, the wrapper order and per-attempt reset of
// ServerPool.handle, the error classification of doHandle, and the single
// acquire / record of circuitBreakerWrapper.Wrap.

import (
	"go/ast"
	"strings"
)

func init() {
	register(Extractor{Module: "FactsC10", Run: func(r *Repo, w *Lean) error {
		const retryFile = "pkg/resilience/retry.go"
		const cbFile = "pkg/resilience/circuitbreaker.go"
		const poolFile = "pkg/filters/proxy/pool.go"
		const proxyFile = "pkg/filters/proxy/proxy.go"

		// --- RetryPolicy.Wrap
		wrap, err := r.Func(retryFile, "RetryPolicy", "Wrap")
		if err != nil {
			return err
		}
		loopCond, loopFirst, okReturn := "", "", false
		var selectCases []string
		growth := ""
		ast.Inspect(wrap.Body, func(n ast.Node) bool {
			switch x := n.(type) {
			case *ast.ForStmt:
				loopCond = r.Src(x.Cond)
				if len(x.Body.List) > 0 {
					loopFirst = r.Src(x.Body.List[0])
				}
				if len(x.Body.List) > 1 {
					okReturn = r.Src(x.Body.List[1]) == "if err == nil { return nil }"
				}
			case *ast.SelectStmt:
				for _, c := range x.Body.List {
					cc := c.(*ast.CommClause)
					body := []string{}
					for _, st := range cc.Body {
						body = append(body, r.Src(st))
					}
					comm := "default"
					if cc.Comm != nil {
						comm = r.Src(cc.Comm)
					}
					selectCases = append(selectCases, comm+" => "+strings.Join(body, "; "))
				}
			case *ast.IfStmt:
				if r.Src(x.Cond) == `p.BackOffPolicy == "exponential"` && len(x.Body.List) == 1 {
					growth = r.Src(x.Body.List[0])
				}
			}
			return true
		})
		w.Line("/-- `for attempt := 0; <cond>; attempt++` of RetryPolicy.Wrap -/")
		w.Line("def retryLoopCond : String := %s", Str(loopCond))
		w.Line("def retryLoopFirstStmt : String := %s", Str(loopFirst))
		w.Line("def retryReturnsOnNil : Bool := %s", Bool(okReturn))
		w.Line("def retryHandlerCalls : Nat := %d", r.CountCalls(wrap.Body, "handler"))
		w.Line("def retrySelectCases : List String := %s", StrList(selectCases))
		w.Line("def retryGrowth : String := %s", Str(growth))
		delta, dExpr := "", ""
		ast.Inspect(wrap.Body, func(n ast.Node) bool {
			if as, ok := n.(*ast.AssignStmt); ok && len(as.Lhs) == 1 && len(as.Rhs) == 1 {
				switch r.Src(as.Lhs[0]) {
				case "delta":
					delta = r.Src(as.Rhs[0])
				case "d":
					dExpr = r.Src(as.Rhs[0])
				}
			}
			return true
		})
		w.Line("def retryDelta : String := %s", Str(delta))
		w.Line("def retryDuration : String := %s", Str(dExpr))
		cw, err := r.Func(retryFile, "RetryPolicy", "CreateWrapper")
		if err != nil {
			return err
		}
		def := ""
		ast.Inspect(cw.Body, func(n ast.Node) bool {
			if is, ok := n.(*ast.IfStmt); ok && r.Src(is.Cond) == "p.waitDuration <= 0" && len(is.Body.List) == 1 {
				def = r.Src(is.Body.List[0])
			}
			return true
		})
		w.Line("def retryDefaultWait : String := %s", Str(def))

		// --- circuitBreakerWrapper.Wrap
		cbw, err := r.Func(cbFile, "circuitBreakerWrapper", "Wrap")
		if err != nil {
			return err
		}
		w.Line("def cbAcquireCalls : Nat := %d", r.CountCalls(cbw.Body, "w.AcquirePermission"))
		w.Line("/-- RecordResult call sites: the normal path and the deferred `if panicked` path -/")
		w.Line("def cbRecordCalls : Nat := %d", r.CountCalls(cbw.Body, "w.RecordResult"))
		w.Line("def cbHandlerCalls : Nat := %d", r.CountCalls(cbw.Body, "handler"))
		normalRecord := false
		ast.Inspect(cbw.Body, func(n ast.Node) bool {
			if es, ok := n.(*ast.ExprStmt); ok && r.Src(es.X) == "w.RecordResult(stateID, err != nil, time.Since(start))" {
				normalRecord = true
			}
			return true
		})
		w.Line("def cbRecordsErrFlag : Bool := %s", Bool(normalRecord))

		// --- ServerPool.handle
		h, err := r.Func(poolFile, "ServerPool", "handle")
		if err != nil {
			return err
		}
		var wraps, resets []string
		timeoutGuard := false
		ast.Inspect(h.Body, func(n ast.Node) bool {
			switch x := n.(type) {
			case *ast.IfStmt:
				for _, st := range x.Body.List {
					if as, ok := st.(*ast.AssignStmt); ok && len(as.Rhs) == 1 && strings.HasSuffix(r.Src(as.Rhs[0]), ".Wrap(handler)") {
						wraps = append(wraps, r.Src(x.Cond)+" => "+r.Src(as.Rhs[0]))
					}
				}
				if r.Src(x.Cond) == "sp.timeout > 0" && strings.Contains(r.Src(x.Body), "stdcontext.WithTimeout(stdctx, sp.timeout)") {
					timeoutGuard = true
				}
			case *ast.AssignStmt:
				if len(x.Lhs) == 1 && len(x.Rhs) == 1 && r.Src(x.Rhs[0]) == "nil" && strings.HasPrefix(r.Src(x.Lhs[0]), "spCtx.") {
					resets = append(resets, r.Src(x.Lhs[0]))
				}
			}
			return true
		})
		w.Line("/-- wrapper applications in source order: condition => expression -/")
		w.Line("def handleWraps : List String := %s", StrList(wraps))
		w.Line("/-- fields of spCtx set to nil inside the handler closure -/")
		w.Line("def handleResets : List String := %s", StrList(resets))
		w.Line("def handleTimeoutContext : Bool := %s", Bool(timeoutGuard))
		w.Line("def handleCalls : Nat := %d", r.CountCalls(h.Body, "handler"))

		// --- doHandle classification
		dh, err := r.Func(poolFile, "ServerPool", "doHandle")
		if err != nil {
			return err
		}
		var errs []string
		ast.Inspect(dh.Body, func(n ast.Node) bool {
			if rs, ok := n.(*ast.ReturnStmt); ok && len(rs.Results) == 1 {
				if cl, ok := rs.Results[0].(*ast.CompositeLit); ok {
					errs = append(errs, r.Src(cl))
				}
			}
			return true
		})
		w.Line("/-- the serverPoolError values doHandle returns, in source order -/")
		w.Line("def doHandleErrors : List String := %s", StrList(errs))
		w.Line("def doHandleSends : Nat := %d", r.CountCalls(dh.Body, "fnSendRequest"))
		ctxTests := []string{}
		ast.Inspect(dh.Body, func(n ast.Node) bool {
			if is, ok := n.(*ast.IfStmt); ok && is.Init != nil && strings.Contains(r.Src(is.Init), "spCtx.stdReq.Context().Err()") {
				ctxTests = append(ctxTests, r.Src(is.Cond))
				if e, ok := is.Else.(*ast.IfStmt); ok {
					ctxTests = append(ctxTests, r.Src(e.Cond))
				}
			}
			return true
		})
		w.Line("def doHandleCtxTests : List String := %s", StrList(ctxTests))
		var consts []string
		for _, c := range []string{"resultInternalError", "resultClientError", "resultServerError", "resultFailureCode", "resultTimeout", "resultShortCircuited"} {
			e, err := r.PkgValue(proxyFile, c)
			if err != nil {
				return err
			}
			consts = append(consts, c+"="+r.Src(e))
		}
		w.Line("def resultConsts : List String := %s", StrList(consts))
		return nil
	}})
}
