package main

// Facts for C16 (extension mqtt): the LOCK-SCOPE LIST the fine-grained session
// model (`FSt`/`fstep` in lean/EgVerif/Model/BrokerSessions.lean) assumes.
//
// For each function the extractor walks the body in control-flow order and
// records every call on one of the package's own types (Broker, Client,
// Session, SessionManager, TopicManager, storage, sync.Map) and every access to
// a map / channel field of them, together with the set of locks (embedded
// mutexes, named by the TYPE of the value they are embedded in) held at that
// point. Receivers are resolved by a small type inference (struct fields,
// parameters, `:=` from map index / method result / type assertion), so
// renaming locals or fields' holders does not change the result; log/packet/fmt
// calls are not recorded. Two views are emitted: `<fn>Events` (ordered) and
// `<fn>Regions` (per held-lock set: the sorted set of accesses), so that the
// Lean theorem can pin the regions and only the orderings that matter.

import (
	"fmt"
	"go/ast"
	"go/token"
	"sort"
	"strings"
)

const c16Pkg = "pkg/object/mqttproxy/"

var c16Files = []string{"broker.go", "client.go", "session.go", "session_manager.go", "topic.go"}

type lkTypes struct {
	r       *Repo
	fields  map[string]map[string]string // struct type -> field -> type
	embeds  map[string][]string          // struct type -> embedded type names
	results map[string]string            // "Recv.method" / ".func" -> first result type
}

// lkTypeName renders a type expression: *T -> T, map[K]*V -> "map:V", chan T -> "chan", sync.Map -> "sync.Map".
func lkTypeName(e ast.Expr) string {
	switch t := e.(type) {
	case *ast.StarExpr:
		return lkTypeName(t.X)
	case *ast.Ident:
		return t.Name
	case *ast.SelectorExpr:
		if x, ok := t.X.(*ast.Ident); ok {
			return x.Name + "." + t.Sel.Name
		}
	case *ast.MapType:
		return "map:" + lkTypeName(t.Value)
	case *ast.ChanType:
		return "chan"
	case *ast.ArrayType:
		return "slice:" + lkTypeName(t.Elt)
	}
	return ""
}

func newLkTypes(r *Repo) (*lkTypes, error) {
	lt := &lkTypes{r: r, fields: map[string]map[string]string{}, embeds: map[string][]string{}, results: map[string]string{}}
	for _, f := range c16Files {
		af, err := r.File(c16Pkg + f)
		if err != nil {
			return nil, err
		}
		for _, d := range af.Decls {
			switch dd := d.(type) {
			case *ast.GenDecl:
				for _, sp := range dd.Specs {
					ts, ok := sp.(*ast.TypeSpec)
					if !ok {
						continue
					}
					st, ok := ts.Type.(*ast.StructType)
					if !ok {
						continue
					}
					m := map[string]string{}
					for _, fl := range st.Fields.List {
						tn := lkTypeName(fl.Type)
						if len(fl.Names) == 0 {
							lt.embeds[ts.Name.Name] = append(lt.embeds[ts.Name.Name], tn)
						}
						for _, n := range fl.Names {
							m[n.Name] = tn
						}
					}
					lt.fields[ts.Name.Name] = m
				}
			case *ast.FuncDecl:
				recv := ""
				if dd.Recv != nil && len(dd.Recv.List) == 1 {
					recv = recvName(dd.Recv.List[0].Type)
				}
				if dd.Type.Results != nil && len(dd.Type.Results.List) > 0 {
					lt.results[recv+"."+dd.Name.Name] = lkTypeName(dd.Type.Results.List[0].Type)
				}
			}
		}
	}
	return lt, nil
}

func (lt *lkTypes) hasMutex(t string) bool {
	for _, e := range lt.embeds[t] {
		if e == "sync.Mutex" || e == "sync.RWMutex" {
			return true
		}
	}
	return false
}

// own reports whether calls on values of type t are recorded.
func (lt *lkTypes) own(t string) bool {
	if _, ok := lt.fields[t]; ok {
		return true
	}
	return t == "storage" || t == "sync.Map"
}

type lkEvent struct{ held, what string }

type lkWalker struct {
	lt     *lkTypes
	locals map[string]string
	events []lkEvent
	prefix string
	defers []string // deferred unlocks (types)
	err    error
}

func (w *lkWalker) fail(format string, a ...interface{}) {
	if w.err == nil {
		w.err = fmt.Errorf(format, a...)
	}
}

type lkSet map[string]bool

func (s lkSet) copy() lkSet {
	c := lkSet{}
	for k := range s {
		c[k] = true
	}
	return c
}

func (s lkSet) key() string {
	var ks []string
	for k := range s {
		ks = append(ks, k)
	}
	sort.Strings(ks)
	return strings.Join(ks, "+")
}

func (w *lkWalker) emit(st lkSet, what string) {
	w.events = append(w.events, lkEvent{st.key(), w.prefix + what})
}

func (w *lkWalker) typeOf(e ast.Expr) string {
	switch x := e.(type) {
	case *ast.Ident:
		return w.locals[x.Name]
	case *ast.ParenExpr:
		return w.typeOf(x.X)
	case *ast.StarExpr:
		return w.typeOf(x.X)
	case *ast.UnaryExpr:
		return w.typeOf(x.X)
	case *ast.SelectorExpr:
		t := w.typeOf(x.X)
		if m, ok := w.lt.fields[t]; ok {
			return m[x.Sel.Name]
		}
	case *ast.IndexExpr:
		t := w.typeOf(x.X)
		if strings.HasPrefix(t, "map:") {
			return t[4:]
		}
		if strings.HasPrefix(t, "slice:") {
			return t[6:]
		}
	case *ast.TypeAssertExpr:
		if x.Type != nil {
			return lkTypeName(x.Type)
		}
	case *ast.CallExpr:
		switch f := x.Fun.(type) {
		case *ast.SelectorExpr:
			return w.lt.results[w.typeOf(f.X)+"."+f.Sel.Name]
		case *ast.Ident:
			return w.lt.results["."+f.Name]
		}
	}
	return ""
}

// fieldAccess names an access to a map/chan field: "Type.field".
func (w *lkWalker) fieldAccess(e ast.Expr) (string, bool) {
	se, ok := e.(*ast.SelectorExpr)
	if !ok {
		return "", false
	}
	t := w.typeOf(se)
	if strings.HasPrefix(t, "map:") || t == "chan" {
		return w.typeOf(se.X) + "." + se.Sel.Name, true
	}
	return "", false
}

// expr records the accesses of an expression in evaluation order and returns a
// lock operation ("+T" / "-T") if the expression is a Lock/Unlock call.
func (w *lkWalker) expr(e ast.Expr, st lkSet) string {
	switch x := e.(type) {
	case nil:
		return ""
	case *ast.ParenExpr:
		return w.expr(x.X, st)
	case *ast.UnaryExpr:
		if x.Op == token.ARROW {
			if fa, ok := w.fieldAccess(x.X); ok {
				w.emit(st, fa+".recv")
				return ""
			}
		}
		return w.expr(x.X, st)
	case *ast.StarExpr:
		return w.expr(x.X, st)
	case *ast.BinaryExpr:
		w.expr(x.X, st)
		w.expr(x.Y, st)
	case *ast.TypeAssertExpr:
		w.expr(x.X, st)
	case *ast.SelectorExpr:
		w.expr(x.X, st)
	case *ast.CompositeLit:
		for _, el := range x.Elts {
			if kv, ok := el.(*ast.KeyValueExpr); ok {
				w.expr(kv.Value, st)
			} else {
				w.expr(el, st)
			}
		}
	case *ast.IndexExpr:
		w.expr(x.Index, st)
		if fa, ok := w.fieldAccess(x.X); ok {
			w.emit(st, fa+".load")
		} else {
			w.expr(x.X, st)
		}
	case *ast.CallExpr:
		switch f := x.Fun.(type) {
		case *ast.SelectorExpr:
			w.expr(f.X, st)
			for _, a := range x.Args {
				w.expr(a, st)
			}
			t := w.typeOf(f.X)
			switch f.Sel.Name {
			case "Lock", "RLock":
				if w.lt.hasMutex(t) {
					return "+" + t
				}
			case "Unlock", "RUnlock":
				if w.lt.hasMutex(t) {
					return "-" + t
				}
			}
			if w.lt.own(t) {
				w.emit(st, t+"."+f.Sel.Name)
			} else if len(x.Args) > 0 && (f.Sel.Name == "StoreInt32" || f.Sel.Name == "LoadInt32") {
				// atomic access to a field: atomic.StoreInt32(&c.statusFlag, …)
				if ue, ok := x.Args[0].(*ast.UnaryExpr); ok {
					if se, ok := ue.X.(*ast.SelectorExpr); ok && w.lt.own(w.typeOf(se.X)) {
						w.emit(st, w.typeOf(se.X)+"."+se.Sel.Name+".atomic"+strings.TrimSuffix(f.Sel.Name, "Int32"))
					}
				}
			}
		case *ast.Ident:
			switch f.Name {
			case "delete", "close", "len":
				if len(x.Args) > 0 {
					if se, ok := x.Args[0].(*ast.SelectorExpr); ok {
						if fa, ok2 := w.fieldAccess(se); ok2 {
							for _, a := range x.Args[1:] {
								w.expr(a, st)
							}
							w.emit(st, fa+"."+f.Name)
							return ""
						}
						if f.Name == "close" && w.lt.own(w.typeOf(se.X)) {
							w.emit(st, w.typeOf(se.X)+"."+se.Sel.Name+".close")
							return ""
						}
					}
				}
				for _, a := range x.Args {
					w.expr(a, st)
				}
			default:
				for _, a := range x.Args {
					w.expr(a, st)
				}
				if _, ok := w.lt.results["."+f.Name]; ok {
					w.emit(st, f.Name)
				}
			}
		default:
			for _, a := range x.Args {
				w.expr(a, st)
			}
		}
	}
	return ""
}

func (w *lkWalker) applyLock(op string, st lkSet) {
	if op == "" {
		return
	}
	t := op[1:]
	if op[0] == '+' {
		if st[t] {
			w.fail("lock %s taken twice", t)
		}
		st[t] = true
	} else {
		if !st[t] {
			w.fail("unlock of %s which is not held", t)
		}
		delete(st, t)
	}
}

func (w *lkWalker) define(lhs []ast.Expr, rhs []ast.Expr) {
	if len(rhs) == 1 && len(lhs) >= 1 {
		if id, ok := lhs[0].(*ast.Ident); ok && id.Name != "_" {
			if t := w.typeOf(rhs[0]); t != "" {
				w.locals[id.Name] = t
			}
		}
		return
	}
	for i := range lhs {
		if i < len(rhs) {
			if id, ok := lhs[i].(*ast.Ident); ok && id.Name != "_" {
				if t := w.typeOf(rhs[i]); t != "" {
					w.locals[id.Name] = t
				}
			}
		}
	}
}

// stmt walks one statement; it returns whether control leaves the function.
func (w *lkWalker) stmt(s ast.Stmt, st lkSet) bool {
	switch x := s.(type) {
	case nil:
	case *ast.ExprStmt:
		w.applyLock(w.expr(x.X, st), st)
	case *ast.AssignStmt:
		for _, r := range x.Rhs {
			w.expr(r, st)
		}
		for _, l := range x.Lhs {
			if ie, ok := l.(*ast.IndexExpr); ok {
				w.expr(ie.Index, st)
				if fa, ok := w.fieldAccess(ie.X); ok {
					w.emit(st, fa+".store")
					continue
				}
			}
			if _, ok := l.(*ast.Ident); !ok {
				w.expr(l, st)
			}
		}
		if x.Tok == token.DEFINE || x.Tok == token.ASSIGN {
			w.define(x.Lhs, x.Rhs)
		}
	case *ast.DeclStmt:
		if gd, ok := x.Decl.(*ast.GenDecl); ok {
			for _, sp := range gd.Specs {
				if vs, ok := sp.(*ast.ValueSpec); ok {
					for _, v := range vs.Values {
						w.expr(v, st)
					}
					for _, n := range vs.Names {
						if vs.Type != nil {
							w.locals[n.Name] = lkTypeName(vs.Type)
						}
					}
				}
			}
		}
	case *ast.IncDecStmt:
		w.expr(x.X, st)
	case *ast.SendStmt:
		w.expr(x.Value, st)
		if fa, ok := w.fieldAccess(x.Chan); ok {
			w.emit(st, fa+".send")
		}
	case *ast.DeferStmt:
		tmp := lkSet{}
		for k := range st {
			tmp[k] = true
		}
		if fl, ok := x.Call.Fun.(*ast.FuncLit); ok {
			_ = fl // deferred closures run at function exit: not part of the lock-scope list
			return false
		}
		old := w.prefix
		w.prefix = old + "defer "
		op := w.expr(x.Call, tmp)
		w.prefix = old
		if op != "" && op[0] == '-' {
			w.defers = append(w.defers, op[1:]) // held until the function returns
		} else if op != "" {
			w.fail("deferred Lock")
		}
	case *ast.GoStmt:
		old := w.prefix
		if fl, ok := x.Call.Fun.(*ast.FuncLit); ok {
			for _, a := range x.Call.Args {
				w.expr(a, st)
			}
			w.prefix = old + "go "
			w.block(fl.Body.List, lkSet{})
			w.prefix = old
			return false
		}
		// receiver and arguments are evaluated now, the call runs without the caller's locks
		if se, ok := x.Call.Fun.(*ast.SelectorExpr); ok {
			w.expr(se.X, st)
			for _, a := range x.Call.Args {
				w.expr(a, st)
			}
			if t := w.typeOf(se.X); w.lt.own(t) {
				w.emit(st, "go "+t+"."+se.Sel.Name)
			}
		}
	case *ast.ReturnStmt:
		for _, r := range x.Results {
			w.expr(r, st)
		}
		return true
	case *ast.BranchStmt:
	case *ast.BlockStmt:
		return w.block(x.List, st)
	case *ast.LabeledStmt:
		return w.stmt(x.Stmt, st)
	case *ast.IfStmt:
		w.stmt(x.Init, st)
		w.expr(x.Cond, st)
		a := st.copy()
		ta := w.block(x.Body.List, a)
		b := st.copy()
		tb := false
		if x.Else != nil {
			tb = w.stmt(x.Else, b)
		}
		switch {
		case ta && tb:
			return true
		case ta:
			w.assign(st, b)
		case tb:
			w.assign(st, a)
		default:
			if a.key() != b.key() {
				w.fail("lock state differs between the branches of an if")
			}
			w.assign(st, a)
		}
	case *ast.ForStmt:
		w.stmt(x.Init, st)
		w.expr(x.Cond, st)
		a := st.copy()
		w.block(x.Body.List, a)
		w.stmt(x.Post, a)
		if a.key() != st.key() {
			w.fail("lock state changes across a loop body")
		}
	case *ast.RangeStmt:
		if fa, ok := w.fieldAccess(x.X); ok {
			w.emit(st, fa+".range")
		} else {
			w.expr(x.X, st)
		}
		if t := w.typeOf(x.X); strings.HasPrefix(t, "map:") || strings.HasPrefix(t, "slice:") {
			if id, ok := x.Value.(*ast.Ident); ok {
				w.locals[id.Name] = t[strings.Index(t, ":")+1:]
			}
		}
		a := st.copy()
		w.block(x.Body.List, a)
		if a.key() != st.key() {
			w.fail("lock state changes across a loop body")
		}
	case *ast.SwitchStmt:
		w.stmt(x.Init, st)
		w.expr(x.Tag, st)
		w.clauses(x.Body.List, st)
	case *ast.TypeSwitchStmt:
		w.stmt(x.Init, st)
		w.stmt(x.Assign, st)
		w.clauses(x.Body.List, st)
	case *ast.SelectStmt:
		w.clauses(x.Body.List, st)
	default:
		w.fail("unhandled statement %T", s)
	}
	return false
}

func (w *lkWalker) assign(dst, src lkSet) {
	for k := range dst {
		delete(dst, k)
	}
	for k := range src {
		dst[k] = true
	}
}

func (w *lkWalker) clauses(cl []ast.Stmt, st lkSet) {
	for _, c := range cl {
		a := st.copy()
		term := false
		switch cc := c.(type) {
		case *ast.CaseClause:
			for _, e := range cc.List {
				w.expr(e, a)
			}
			term = w.block(cc.Body, a)
		case *ast.CommClause:
			w.stmt(cc.Comm, a)
			term = w.block(cc.Body, a)
		}
		if !term && a.key() != st.key() {
			w.fail("lock state changes inside a switch/select clause")
		}
	}
}

func (w *lkWalker) block(stmts []ast.Stmt, st lkSet) bool {
	for _, s := range stmts {
		if w.stmt(s, st) {
			return true
		}
	}
	return false
}

// c16LockScope walks one function and returns its events.
func c16LockScope(lt *lkTypes, fd *ast.FuncDecl) ([]lkEvent, error) {
	w := &lkWalker{lt: lt, locals: map[string]string{}}
	if fd.Recv != nil {
		for _, f := range fd.Recv.List {
			for _, n := range f.Names {
				w.locals[n.Name] = lkTypeName(f.Type)
			}
		}
	}
	for _, f := range fd.Type.Params.List {
		for _, n := range f.Names {
			w.locals[n.Name] = lkTypeName(f.Type)
		}
	}
	st := lkSet{}
	term := w.block(fd.Body.List, st)
	if !term {
		held := st.copy()
		for _, d := range w.defers {
			delete(held, d)
		}
		if len(held) > 0 {
			w.fail("%s returns holding %s", fd.Name.Name, held.key())
		}
	}
	return w.events, w.err
}

func c16RenderEvents(ev []lkEvent) string {
	var parts []string
	for _, e := range ev {
		parts = append(parts, fmt.Sprintf("(%s, %s)", Str(e.held), Str(e.what)))
	}
	return "[" + strings.Join(parts, ", ") + "]"
}

func c16RenderRegions(ev []lkEvent) string {
	m := map[string]map[string]bool{}
	for _, e := range ev {
		if m[e.held] == nil {
			m[e.held] = map[string]bool{}
		}
		m[e.held][e.what] = true
	}
	var keys []string
	for k := range m {
		keys = append(keys, k)
	}
	sort.Strings(keys)
	var parts []string
	for _, k := range keys {
		var xs []string
		for x := range m[k] {
			xs = append(xs, x)
		}
		sort.Strings(xs)
		parts = append(parts, fmt.Sprintf("(%s, %s)", Str(k), StrList(xs)))
	}
	return "[" + strings.Join(parts, ", ") + "]"
}

func init() {
	register(Extractor{Module: "FactsC16Locks", Run: func(r *Repo, w *Lean) error {
		lt, err := newLkTypes(r)
		if err != nil {
			return err
		}
		type target struct{ file, recv, name, lean string }
		targets := []target{
			{"broker.go", "Broker", "handleConn", "handleConn"},
			{"broker.go", "Broker", "setSession", "setSession"},
			{"broker.go", "Broker", "removeClient", "removeClient"},
			{"broker.go", "Broker", "deleteSession", "deleteSession"},
			{"client.go", "Client", "closeAndDelSession", "closeAndDelSession"},
			{"client.go", "Client", "close", "clientClose"},
			{"client.go", "", "processSubscribe", "processSubscribe"},
			{"client.go", "", "processUnsubscribe", "processUnsubscribe"},
			{"session.go", "Session", "subscribe", "sessionSubscribe"},
			{"session.go", "Session", "unsubscribe", "sessionUnsubscribe"},
			{"session.go", "Session", "allSubscribes", "sessionAllSubscribes"},
			{"session.go", "Session", "updateEGName", "sessionUpdateEGName"},
			{"session.go", "Session", "store", "sessionStore"},
			{"session_manager.go", "SessionManager", "get", "sessMgrGet"},
			{"session_manager.go", "SessionManager", "delLocal", "sessMgrDelLocal"},
			{"session_manager.go", "SessionManager", "delDB", "sessMgrDelDB"},
			{"session_manager.go", "SessionManager", "newSessionFromConn", "sessMgrNewSessionFromConn"},
			{"session_manager.go", "SessionManager", "doStore", "sessMgrDoStore"},
			{"topic.go", "TopicManager", "subscribe", "topicMgrSubscribe"},
			{"topic.go", "TopicManager", "unsubscribe", "topicMgrUnsubscribe"},
		}
		w.Line("/-! Lock-scope list: `(locks held, access)` in control-flow order (`…Events`) and, per set of")
		w.Line("held locks, the sorted set of accesses (`…Regions`). Locks are named by the type that embeds")
		w.Line("the mutex. -/")
		for _, t := range targets {
			fd, err := r.Func(c16Pkg+t.file, t.recv, t.name)
			if err != nil {
				return err
			}
			if fd.Body == nil {
				return fmt.Errorf("%s has no body", t.name)
			}
			ev, err := c16LockScope(lt, fd)
			if err != nil {
				return fmt.Errorf("%s.%s: %v", t.recv, t.name, err)
			}
			w.Line("/-- %s%s.%s -/", c16Pkg, t.file, strings.TrimPrefix(t.recv+"."+t.name, "."))
			w.Line("def %sEvents : List (String × String) := %s", t.lean, c16RenderEvents(ev))
			w.Line("def %sRegions : List (String × List String) := %s", t.lean, c16RenderRegions(ev))
		}
		return nil
	}})
}
