package main

// Regenerated tie by translation for C20 (irlib.go, notes/IR.md):
//
//   * pkg/supervisor/object.go `ObjectRegistry.applyConfig` — the two diff loops (names absent from the
//     snapshot → deleted; create / equal-skip / kind change → deleted+created / update)
//     → Gen.FactsC20IR.applyConfigIR (+ _loop1, _loop2); `applyConfig_regenerated_from_source`
//     (Proofs/LifecycleIR.lean) proves it equal to Model.Lifecycle.diff for every snapshot index, every
//     registry map with unique keys and every snapshot. Inside that definition the loop over the watchers is
//     listed as ignored; its body (the closure executed per watcher) is translated separately, from a
//     synthetic declaration (c20NotifyDecl: free variables become parameters, `watcher.eventChan <- event`
//     becomes `sent = true`) → Gen.FactsC20IR.notifyIR (+ _loop1.._loop3);
//     `applyConfig_notify_regenerated_from_source` proves it equal to Model.Lifecycle.notify together with
//     "sent iff the event is not empty" (stepW).
//   * pkg/object/trafficcontroller/trafficcontroller.go `TrafficController._cleanSpace`
//     → Gen.FactsC20IR.cleanSpaceIR; `cleanSpace_regenerated_from_source` proves it equal to
//     Model.Lifecycle.cleanSpace for every consumer state.
//
// Go maps are association lists (irSpec.RangeKV); `*ObjectEntity` is `Option Entity` (nil = none);
// `m[k] = v` with a nil pointer is not representable in the model's maps and is a no-op
// (`mapSetPtr`); `sync.Map.Range(func(k, v) bool { n++; return false })` is the "non-empty probe"
// `n + (if m.isEmpty then 0 else 1)` (StmtHook below; `return true` would count every entry).

import (
	"fmt"
	"go/ast"
	"go/token"
	"strings"
)

// c20DiffLocals finds the three local maps of applyConfig by the ROLE they play in the watcher loop
// (`for n, e := range X { … event.Delete[n] = e … }` makes X the "deleted" map, and so on), so that
// neither a rename nor a reordering of their declarations changes the generated definition.
func c20DiffLocals(r *Repo, fd *ast.FuncDecl) (map[string]string, error) {
	roles := map[string]string{}
	ast.Inspect(fd.Body, func(n ast.Node) bool {
		rs, ok := n.(*ast.RangeStmt)
		if !ok {
			return true
		}
		id, ok := rs.X.(*ast.Ident)
		if !ok {
			return true
		}
		ast.Inspect(rs.Body, func(m ast.Node) bool {
			as, ok := m.(*ast.AssignStmt)
			if !ok || len(as.Lhs) != 1 {
				return true
			}
			ie, ok := as.Lhs[0].(*ast.IndexExpr)
			if !ok {
				return true
			}
			if se, ok := ie.X.(*ast.SelectorExpr); ok {
				switch se.Sel.Name {
				case "Delete", "Create", "Update":
					if old, dup := roles[se.Sel.Name]; dup && old != id.Name {
						roles["§conflict"] = se.Sel.Name
					}
					roles[se.Sel.Name] = id.Name
				}
			}
			return true
		})
		return true
	})
	if _, bad := roles["§conflict"]; bad || len(roles) != 3 {
		return nil, fmt.Errorf("applyConfig: cannot identify the deleted/created/updated maps from the watcher loop (%v)", roles)
	}
	if roles["Delete"] == roles["Create"] || roles["Delete"] == roles["Update"] || roles["Create"] == roles["Update"] {
		return nil, fmt.Errorf("applyConfig: one local map feeds two event fields (%v)", roles)
	}
	return roles, nil
}

// c20NormaliseDecls puts the declarations of the three local maps into the order deleted, created,
// updated when they are the single-name specs of one `var ( … )` block (independent `make` calls: the
// order has no meaning in Go), so that the positional binders of the generated loop functions do not
// depend on it.
func c20NormaliseDecls(fd *ast.FuncDecl, roles map[string]string) {
	rank := map[string]int{roles["Delete"]: 0, roles["Create"]: 1, roles["Update"]: 2}
	for _, st := range fd.Body.List {
		ds, ok := st.(*ast.DeclStmt)
		if !ok {
			continue
		}
		gd, ok := ds.Decl.(*ast.GenDecl)
		if !ok || gd.Tok != token.VAR || len(gd.Specs) != 3 {
			continue
		}
		sorted := make([]ast.Spec, 3)
		for _, sp := range gd.Specs {
			vs, ok := sp.(*ast.ValueSpec)
			if !ok || len(vs.Names) != 1 || len(vs.Values) != 1 {
				return
			}
			i, ok := rank[vs.Names[0].Name]
			if !ok || sorted[i] != nil {
				return
			}
			sorted[i] = sp
		}
		gd.Specs = sorted
		return
	}
}

// c20Ignore: mutex Lock/Unlock (plain or deferred), logger calls, and (applyConfig only) the loop over
// the watchers. Structural, so that renaming the receiver does not matter.
func c20Ignore(watchers bool) func(string, ast.Stmt) bool {
	isMutexCall := func(e ast.Expr) bool {
		ce, ok := e.(*ast.CallExpr)
		if !ok || len(ce.Args) != 0 {
			return false
		}
		se, ok := ce.Fun.(*ast.SelectorExpr)
		if !ok || (se.Sel.Name != "Lock" && se.Sel.Name != "Unlock") {
			return false
		}
		in, ok := se.X.(*ast.SelectorExpr)
		return ok && in.Sel.Name == "mutex"
	}
	return func(src string, s ast.Stmt) bool {
		switch x := s.(type) {
		case *ast.ExprStmt:
			if isMutexCall(x.X) {
				return true
			}
			if ce, ok := x.X.(*ast.CallExpr); ok {
				if se, ok := ce.Fun.(*ast.SelectorExpr); ok {
					if id, ok := se.X.(*ast.Ident); ok && id.Name == "logger" {
						return true
					}
				}
			}
		case *ast.DeferStmt:
			return isMutexCall(x.Call)
		case *ast.RangeStmt:
			if se, ok := x.X.(*ast.SelectorExpr); watchers && ok && se.Sel.Name == "watchers" {
				return true
			}
		}
		return false
	}
}

// c20RangeShapes describes every `X.<field>.Range(func(k, v interface{}) bool { … })` statement of a
// function: "<field>:close=<number of CloseWithRecovery calls>:continues=<every return is `return true`>".
func c20RangeShapes(r *Repo, fd *ast.FuncDecl) []string {
	var out []string
	ast.Inspect(fd.Body, func(n ast.Node) bool {
		ce, ok := n.(*ast.CallExpr)
		if !ok || len(ce.Args) != 1 {
			return true
		}
		se, ok := ce.Fun.(*ast.SelectorExpr)
		fl, ok2 := ce.Args[0].(*ast.FuncLit)
		if !ok || !ok2 || se.Sel.Name != "Range" {
			return true
		}
		field := r.Src(se.X)
		if in, ok := se.X.(*ast.SelectorExpr); ok {
			field = in.Sel.Name
		}
		closes, cont := 0, true
		ast.Inspect(fl.Body, func(m ast.Node) bool {
			switch x := m.(type) {
			case *ast.CallExpr:
				if s, ok := x.Fun.(*ast.SelectorExpr); ok && s.Sel.Name == "CloseWithRecovery" {
					closes++
				}
			case *ast.ReturnStmt:
				if len(x.Results) != 1 || r.Src(x.Results[0]) != "true" {
					cont = false
				}
			}
			return true
		})
		out = append(out, fmt.Sprintf("%s:close=%d:continues=%s", field, closes, Bool(cont)))
		return false
	})
	return out
}

func c20ApplyConfigSpec(roles map[string]string) *irSpec {
	return &irSpec{
		Name:    "applyConfigIR",
		Binders: "(g : Nat) (es : Map Name Entity) (cfg : Config)",
		BNames:  []string{"g", "es", "cfg"},
		RetTy:   "Diff",
		Recv:    irTerm{"()", "Registry"},
		Params:  []irTerm{{"cfg", "Config"}},
		State:   []irLet{{Var: "ents", Ty: "EMap", Fmt: "es"}},
		LeanTy: map[string]string{"EMap": "Map Name Entity", "OptEntity": "Option Entity", "OptSpec": "Option Entity",
			"OptKind": "Option Kind", "OptYaml": "Option (Kind × Body)", "Super": "Nat"},
		RangeKV: map[string][2]string{"EMap": {"Name", "Entity"}, "Config": {"Name", "OptYaml"}},
		Fields: map[string]irField{
			"Registry.entities": {Fmt: "ents", Ty: "EMap", State: true},
			"Registry.super":    {Fmt: "g", Ty: "Super"},
		},
		Index: map[string]irCall{
			"Config": {Fmt: "(cfgLookup %[1]s %[2]s)", Ty: "OptYaml × Bool"},
			"EMap":   {Fmt: "(entLookup %[1]s %[2]s)", Ty: "OptEntity × Bool"},
		},
		IndexSet: map[string]string{"EMap": "(mapSetPtr %s %s (%s : Option Entity))"},
		Methods: map[string]irCall{
			"Super.NewObjectEntityFromConfig": {Fmt: "(newEntity %[1]s %[2]s)", Ty: "OptEntity × Error", NArgs: 1},
			"OptEntity.Spec":                  {Fmt: "%[1]s", Ty: "OptSpec", NArgs: 0},
			"OptSpec.Equals":                  {Fmt: "(specEquals %[1]s %[2]s)", Ty: "Bool", NArgs: 1},
			"OptSpec.Kind":                    {Fmt: "(specKind %[1]s)", Ty: "OptKind", NArgs: 0},
		},
		StmtFuncs: map[string]irStmtCall{
			"delete": {Lets: []irLet{{Var: "%[1]s", Ty: "EMap", Fmt: "(Map.del %[1]s %[2]s)"}}, NArgs: 2},
		},
		Ignore: c20Ignore(true),
		Hook: func(t *irT, e ast.Expr, env *irEnv) (irTerm, bool, error) {
			// make(map[string]*ObjectEntity): the empty association list
			if ce, ok := e.(*ast.CallExpr); ok && len(ce.Args) == 1 {
				if id, ok := ce.Fun.(*ast.Ident); ok && id.Name == "make" && !irInEnv(env, "make") {
					if strings.ReplaceAll(t.r.Src(ce.Args[0]), " ", "") == "map[string]*ObjectEntity" {
						return irTerm{"([] : Map Name Entity)", "EMap"}, true, nil
					}
					return irTerm{}, true, fmt.Errorf("unsupported make %s", t.r.Src(e))
				}
			}
			return irTerm{}, false, nil
		},
		StmtHook: func(t *irT, s ast.Stmt, env *irEnv) ([]irLet, bool, error) {
			// p = nil for a pointer-typed (Option) local
			as, ok := s.(*ast.AssignStmt)
			if !ok || as.Tok != token.ASSIGN || len(as.Lhs) != 1 || len(as.Rhs) != 1 {
				return nil, false, nil
			}
			l, ok1 := as.Lhs[0].(*ast.Ident)
			rr, ok2 := as.Rhs[0].(*ast.Ident)
			if !ok1 || !ok2 || rr.Name != "nil" || irInEnv(env, "nil") {
				return nil, false, nil
			}
			v, ok := env.vars[l.Name]
			if !ok || v.Param || !strings.HasPrefix(t.leanTy(v.Ty), "Option ") {
				return nil, false, nil
			}
			return []irLet{{Var: v.Lean, Ty: v.Ty, Fmt: "none"}}, true, nil
		},
		Ret: func(vals []irTerm) (string, error) {
			if len(vals) != 0 {
				return "", errUnsupportedReturn
			}
			return fmt.Sprintf("(Diff.mk ents %s %s %s)", irIdent(roles["Delete"]), irIdent(roles["Create"]), irIdent(roles["Update"])), nil
		},
	}
}

// c20NotifyDecl builds a synthetic function declaration from the per-watcher closure of applyConfig
// (`for _, watcher := range or.watchers { func() { … }() }`): parameters = the closure's free variables
// (watcher, the three local maps in role order) plus the synthetic flag `sent`; body = the closure's body
// with the channel send `watcher.eventChan <- event` rewritten into `sent = true`.
func c20NotifyDecl(r *Repo, fd *ast.FuncDecl, roles map[string]string) (*ast.FuncDecl, error) {
	var fl *ast.FuncLit
	watcher := ""
	for _, st := range fd.Body.List {
		rs, ok := st.(*ast.RangeStmt)
		if !ok {
			continue
		}
		se, ok := rs.X.(*ast.SelectorExpr)
		if !ok || se.Sel.Name != "watchers" {
			continue
		}
		id, ok := rs.Value.(*ast.Ident)
		if !ok || len(rs.Body.List) != 1 {
			return nil, fmt.Errorf("applyConfig: unsupported watcher loop")
		}
		es, ok := rs.Body.List[0].(*ast.ExprStmt)
		if !ok {
			return nil, fmt.Errorf("applyConfig: unsupported watcher loop body")
		}
		ce, ok := es.X.(*ast.CallExpr)
		if !ok || len(ce.Args) != 0 {
			return nil, fmt.Errorf("applyConfig: unsupported watcher loop body")
		}
		if fl, ok = ce.Fun.(*ast.FuncLit); !ok || (fl.Type.Params != nil && fl.Type.Params.NumFields() != 0) {
			return nil, fmt.Errorf("applyConfig: unsupported watcher loop body")
		}
		watcher = id.Name
	}
	if fl == nil {
		return nil, fmt.Errorf("applyConfig: watcher loop not found")
	}
	sends := 0
	var rewrite func(l []ast.Stmt) []ast.Stmt
	rewrite = func(l []ast.Stmt) []ast.Stmt {
		out := make([]ast.Stmt, len(l))
		for i, st := range l {
			switch x := st.(type) {
			case *ast.SendStmt:
				if ch, ok := x.Chan.(*ast.SelectorExpr); ok && ch.Sel.Name == "eventChan" && r.Src(ch.X) == watcher && r.Src(x.Value) == "event" {
					sends++
					out[i] = &ast.AssignStmt{Lhs: []ast.Expr{ast.NewIdent("sent")}, Tok: token.ASSIGN, Rhs: []ast.Expr{ast.NewIdent("true")}}
					continue
				}
				out[i] = st
			case *ast.IfStmt:
				c := *x
				c.Body = &ast.BlockStmt{List: rewrite(x.Body.List)}
				if eb, ok := x.Else.(*ast.BlockStmt); ok {
					c.Else = &ast.BlockStmt{List: rewrite(eb.List)}
				}
				out[i] = &c
			default:
				out[i] = st
			}
		}
		return out
	}
	body := rewrite(fl.Body.List)
	if sends != 1 {
		return nil, fmt.Errorf("applyConfig: expected exactly one `%s.eventChan <- event`, found %d", watcher, sends)
	}
	field := func(n string) *ast.Field { return &ast.Field{Names: []*ast.Ident{ast.NewIdent(n)}} }
	return &ast.FuncDecl{
		Name: ast.NewIdent("applyConfig"),
		Type: &ast.FuncType{Params: &ast.FieldList{List: []*ast.Field{field(watcher), field(roles["Delete"]), field(roles["Create"]), field(roles["Update"]), field("sent")}}},
		Body: &ast.BlockStmt{List: body},
	}, nil
}

func c20NotifySpec() *irSpec {
	return &irSpec{
		Name:    "notifyIR",
		Binders: "(P : Params) (w0 : Map Name Entity) (dl : Map Name Entity) (cr : Map Name Entity) (up : Map Name Entity) (sent : Bool)",
		BNames:  []string{"P", "w0", "dl", "cr", "up", "sent"},
		RetTy:   "Map Name Entity × Event × Bool",
		Params:  []irTerm{{"()", "Watcher"}, {"dl", "EMap"}, {"cr", "EMap"}, {"up", "EMap"}, {"sent", "Bool"}},
		State: []irLet{{Var: "wents", Ty: "EMap", Fmt: "w0"}, {Var: "evDel", Ty: "EMap", Fmt: "[]"},
			{Var: "evCre", Ty: "EMap", Fmt: "[]"}, {Var: "evUpd", Ty: "EMap", Fmt: "[]"}},
		LeanTy:  map[string]string{"EMap": "Map Name Entity", "Watcher": "Unit", "EventPtr": "Unit"},
		RangeKV: map[string][2]string{"EMap": {"Name", "Entity"}},
		Fields: map[string]irField{
			"Watcher.entities": {Fmt: "wents", Ty: "EMap", State: true},
			"EventPtr.Delete":  {Fmt: "evDel", Ty: "EMap", State: true},
			"EventPtr.Create":  {Fmt: "evCre", Ty: "EMap", State: true},
			"EventPtr.Update":  {Fmt: "evUpd", Ty: "EMap", State: true},
		},
		IndexSet: map[string]string{"EMap": "(mapSetPtr %s %s (%s : Option Entity))"},
		Methods:  map[string]irCall{"Watcher.filter": {Fmt: "(P.passes %[2]s)", Ty: "Bool", NArgs: 1}},
		Funcs: map[string]irCall{
			// three fresh empty maps (newObjectEntityWatcherEvent, a three-line constructor: trusted reading)
			"newObjectEntityWatcherEvent": {Fmt: "()", Ty: "EventPtr", NArgs: 0},
			"len:EMap":                    {Fmt: "(%[1]s.length : Int)", Ty: "Int", NArgs: 1},
		},
		StmtFuncs: map[string]irStmtCall{
			"delete": {Lets: []irLet{{Var: "%[1]s", Ty: "EMap", Fmt: "(Map.del %[1]s %[2]s)"}}, NArgs: 2},
		},
		Ignore: c20Ignore(false),
		Ret: func(vals []irTerm) (string, error) {
			if len(vals) != 0 {
				return "", errUnsupportedReturn
			}
			return "(wents, Event.mk evDel evCre evUpd, sent)", nil
		},
	}
}

// c20NameInScope: the Lean term of the one variable of type Name in scope (the key variable of the
// enclosing `range event.X` loop — the object's name; the config key equals the spec's name).
func c20NameInScope(env *irEnv) (string, error) {
	found := ""
	for _, k := range env.order {
		if v := env.vars[k]; v.Ty == "Name" {
			if found != "" && found != v.Lean {
				return "", fmt.Errorf("two name variables in scope (%s, %s)", found, v.Lean)
			}
			found = v.Lean
		}
	}
	if found == "" {
		return "", fmt.Errorf("no name variable in scope")
	}
	return found, nil
}

// c20HandleEventSpec: Supervisor.handleEvent. State: the businessControllers sync.Map (slot 0 of the
// model's store) and the call log.
func c20HandleEventSpec() *irSpec {
	ignore := c20Ignore(false)
	return &irSpec{
		Name:    "handleEventIR",
		Binders: "(P : Params) (c : CState) (ev : Event)",
		BNames:  []string{"P", "c", "ev"},
		RetTy:   "CState",
		Recv:    irTerm{"()", "Sup"},
		Params:  []irTerm{{"ev", "EventP"}},
		State:   []irLet{{Var: "store", Ty: "SyncMap", Fmt: "c.store"}, {Var: "log", Ty: "Log", Fmt: "c.log"}},
		LeanTy: map[string]string{"EMap": "Map Name Entity", "OptEntity": "Option Entity", "SyncMap": "Map (Nat × Name) Entity",
			"Log": "List Call", "EventP": "Event"},
		RangeKV: map[string][2]string{"EMap": {"Name", "Entity"}},
		Ext:     irSpecExt{HookAssigns: true}, // the log updates of the StmtHook below count as assignments (loops, merges)
		Fields: map[string]irField{
			"Sup.businessControllers": {Fmt: "store", Ty: "SyncMap", State: true},
			"EventP.Delete":           {Fmt: "%s.del", Ty: "EMap"},
			"EventP.Create":           {Fmt: "%s.cre", Ty: "EMap"},
			"EventP.Update":           {Fmt: "%s.upd", Ty: "EMap"},
		},
		Methods: map[string]irCall{
			"SyncMap.Load": {Fmt: "(syncLoad %[1]s %[2]s)", Ty: "OptEntity × Bool", NArgs: 1},
		},
		EffMethods: map[string]irEffCall{
			"SyncMap.LoadAndDelete": {NArgs: 1, Fmt: "§tmp", Ty: "OptEntity × Bool",
				Pre: []irLet{{"§tmp", "OptEntity × Bool", "(syncLoad store %[2]s)"}, {"store", "SyncMap", "(Map.del store (0, %[2]s))"}}},
		},
		StmtMethods: map[string]irStmtCall{
			"SyncMap.Store": {NArgs: 2, Lets: []irLet{{"store", "SyncMap", "(syncStore %[1]s %[2]s (%[3]s : Option Entity))"}}},
		},
		Ignore: func(src string, st ast.Stmt) bool {
			if ignore(src, st) {
				return true
			}
			// if s.firstHandle { defer func() { s.firstHandle = false; close(s.firstHandleDone) }() }
			if is, ok := st.(*ast.IfStmt); ok && is.Init == nil && is.Else == nil {
				if se, ok := is.Cond.(*ast.SelectorExpr); ok && se.Sel.Name == "firstHandle" && len(is.Body.List) == 1 {
					_, isDefer := is.Body.List[0].(*ast.DeferStmt)
					return isDefer
				}
			}
			return false
		},
		Hook: func(t *irT, e ast.Expr, env *irEnv) (irTerm, bool, error) {
			// x.(*ObjectEntity): sync.Map values are entities
			if ta, ok := e.(*ast.TypeAssertExpr); ok && ta.Type != nil && strings.ReplaceAll(t.r.Src(ta.Type), " ", "") == "*ObjectEntity" {
				x, err := t.expr(ta.X, env)
				return x, true, err
			}
			return irTerm{}, false, nil
		},
		StmtHook: func(t *irT, st ast.Stmt, env *irEnv) ([]irLet, bool, error) {
			// e.CloseWithRecovery() / e.InitWithRecovery(nil) / e.InheritWithRecovery(prev, nil): one recorded call
			es, ok := st.(*ast.ExprStmt)
			if !ok {
				return nil, false, nil
			}
			ce, ok := es.X.(*ast.CallExpr)
			if !ok {
				return nil, false, nil
			}
			se, ok := ce.Fun.(*ast.SelectorExpr)
			if !ok {
				return nil, false, nil
			}
			isNil := func(a ast.Expr) bool { id, ok := a.(*ast.Ident); return ok && id.Name == "nil" }
			var call string
			switch se.Sel.Name {
			case "CloseWithRecovery", "InitWithRecovery", "InheritWithRecovery":
			default:
				return nil, false, nil
			}
			// The merge / loop analysis (irT.assigned) asks this hook in the environment *outside* the
			// loop body, where body-local variables (`entity, exists := …`) are unknown: it only needs to
			// learn that `log` is updated. A term that does not compile is returned in that case, so that
			// an untranslatable receiver can never end up silently in a definition.
			poison := []irLet{{Var: "log", Ty: "Log", Fmt: "(untranslatable lifecycle call)"}}
			recv, err := t.tryExpr(se.X, env)
			if err != nil {
				if !irRootInEnv(se.X, env) {
					return poison, true, nil
				}
				return nil, true, err
			}
			name, err := c20NameInScope(env)
			if err != nil {
				return poison, true, nil
			}
			switch {
			case se.Sel.Name == "CloseWithRecovery" && len(ce.Args) == 0:
				call = fmt.Sprintf("(ptrCall (callClose P %s) (%s : Option Entity))", name, recv.S)
			case se.Sel.Name == "InitWithRecovery" && len(ce.Args) == 1 && isNil(ce.Args[0]):
				call = fmt.Sprintf("(ptrCall (callInit P %s) (%s : Option Entity))", name, recv.S)
			case se.Sel.Name == "InheritWithRecovery" && len(ce.Args) == 2 && isNil(ce.Args[1]):
				prev, err := t.tryExpr(ce.Args[0], env)
				if err != nil {
					if !irRootInEnv(ce.Args[0], env) {
						return poison, true, nil
					}
					return nil, true, err
				}
				call = fmt.Sprintf("(ptrCall2 (callInherit P %s) (%s : Option Entity) (%s : Option Entity))", name, recv.S, prev.S)
			default:
				return nil, true, fmt.Errorf("unsupported lifecycle call %s", t.r.Src(ce))
			}
			return []irLet{{Var: "log", Ty: "Log", Fmt: "(log ++ " + call + ")"}}, true, nil
		},
		Ret: func(vals []irTerm) (string, error) {
			if len(vals) != 0 {
				return "", errUnsupportedReturn
			}
			return "(CState.mk store log c.ns)", nil
		},
	}
}

func c20CleanSpaceSpec() *irSpec {
	return &irSpec{
		Name:    "cleanSpaceIR",
		Binders: "(c : CState)",
		BNames:  []string{"c"},
		RetTy:   "CState",
		Recv:    irTerm{"()", "TC"},
		Params:  []irTerm{{"()", "NsName"}},
		State:   []irLet{{Var: "store", Ty: "Space", Fmt: "c.store"}, {Var: "ns", Ty: "Bool", Fmt: "c.ns"}},
		LeanTy: map[string]string{"Space": "Map (Nat × Name) Entity", "SyncMap": "Map (Nat × Name) Entity",
			"NsMap": "Map (Nat × Name) Entity × Bool", "NsName": "Unit"},
		Fields: map[string]irField{
			"TC.namespaces":      {Fmt: "(store, ns)", Ty: "NsMap"},
			"Space.trafficGates": {Fmt: "(slotOf %s 1)", Ty: "SyncMap"},
			"Space.pipelines":    {Fmt: "(slotOf %s 0)", Ty: "SyncMap"},
		},
		Index: map[string]irCall{"NsMap": {Fmt: "%[1]s", Ty: "Space × Bool"}},
		StmtFuncs: map[string]irStmtCall{
			// delete(tc.namespaces, namespace): the namespace object goes away with whatever it holds
			"delete": {Lets: []irLet{{Var: "store", Ty: "Space", Fmt: "[]"}, {Var: "ns", Ty: "Bool", Fmt: "false"}}, NArgs: 2},
		},
		Ignore: c20Ignore(false),
		StmtHook: func(t *irT, s ast.Stmt, env *irEnv) ([]irLet, bool, error) {
			// m.Range(func(k, v interface{}) bool { n++; return false|true })
			es, ok := s.(*ast.ExprStmt)
			if !ok {
				return nil, false, nil
			}
			ce, ok := es.X.(*ast.CallExpr)
			if !ok || len(ce.Args) != 1 {
				return nil, false, nil
			}
			se, ok := ce.Fun.(*ast.SelectorExpr)
			fl, ok2 := ce.Args[0].(*ast.FuncLit)
			if !ok || !ok2 || se.Sel.Name != "Range" {
				return nil, false, nil
			}
			m, err := t.tryExpr(se.X, env)
			if err != nil || m.Ty != "SyncMap" {
				return nil, true, fmt.Errorf("Range over an unknown map: %s", t.r.Src(se.X))
			}
			bad := func() ([]irLet, bool, error) {
				return nil, true, fmt.Errorf("unsupported Range closure %s", t.r.Src(fl))
			}
			if fl.Type.Params == nil || fl.Type.Params.NumFields() != 2 || len(fl.Body.List) != 2 {
				return bad()
			}
			inc, ok := fl.Body.List[0].(*ast.IncDecStmt)
			ret, ok2 := fl.Body.List[1].(*ast.ReturnStmt)
			if !ok || !ok2 || inc.Tok != token.INC || len(ret.Results) != 1 {
				return bad()
			}
			cnt, ok := inc.X.(*ast.Ident)
			rv, ok2 := ret.Results[0].(*ast.Ident)
			if !ok || !ok2 {
				return bad()
			}
			for _, f := range fl.Type.Params.List { // the closure's parameters must not hide the counter
				for _, n := range f.Names {
					if n.Name == cnt.Name {
						return bad()
					}
				}
			}
			v, ok := env.vars[cnt.Name]
			if !ok || v.Param || v.Ty != "Int" {
				return bad()
			}
			switch rv.Name {
			case "false": // stops after the first entry
				return []irLet{{Var: v.Lean, Ty: "Int", Fmt: fmt.Sprintf("(%s + (if %s.isEmpty then 0 else 1))", v.Lean, m.S)}}, true, nil
			case "true": // visits every entry
				return []irLet{{Var: v.Lean, Ty: "Int", Fmt: fmt.Sprintf("(%s + (%s.length : Int))", v.Lean, m.S)}}, true, nil
			}
			return bad()
		},
		Ret: func(vals []irTerm) (string, error) {
			if len(vals) != 0 {
				return "", errUnsupportedReturn
			}
			return "(CState.mk store c.log ns)", nil
		},
	}
}

func init() {
	register(Extractor{Module: "FactsC20IR", Imports: []string{"EgVerif.Model.Lifecycle"}, Run: func(r *Repo, w *Lean) error {
		w.Line("open EgVerif.Lifecycle")
		w.Line("")
		w.Line("/-- `Supervisor.NewObjectEntityFromConfig(yaml)`: (entity, err != nil); a rejected yaml gives `nil, err`. -/")
		w.Line("def newEntity (g : Nat) : Option (Kind × Body) → Option Entity × Bool")
		w.Line("  | none => (none, true)")
		w.Line("  | some (k, b) => (some ⟨g, k, b⟩, false)")
		w.Line("/-- `v, ok := config[name]` -/")
		w.Line("def cfgLookup (c : Config) (n : Name) : Option (Kind × Body) × Bool :=")
		w.Line("  match c.get n with")
		w.Line("  | some y => (y, true)")
		w.Line("  | none => (none, false)")
		w.Line("/-- `e, ok := entities[name]` (a missing key gives the nil pointer) -/")
		w.Line("def entLookup (m : Map Name Entity) (n : Name) : Option Entity × Bool := (m.get n, (m.get n).isSome)")
		w.Line("/-- `m[name] = e` for a pointer `e`; a nil pointer is not representable in the model's maps: no-op. -/")
		w.Line("def mapSetPtr (m : Map Name Entity) (n : Name) : Option Entity → Map Name Entity")
		w.Line("  | some e => m.set n e")
		w.Line("  | none => m")
		w.Line("/-- `a.Spec().Equals(b.Spec())` = same kind and body (reflect.DeepEqual of the raw specs, trusted). A nil")
		w.Line("receiver panics in Go; the source guards it with `exists &&`; the value `true` makes a dropped guard visible. -/")
		w.Line("def specEquals : Option Entity → Option Entity → Bool")
		w.Line("  | some p, some e => p.kind == e.kind && p.body == e.body")
		w.Line("  | _, _ => true")
		w.Line("/-- `e.Spec().Kind()` -/")
		w.Line("def specKind (s : Option Entity) : Option Kind := s.map (fun e => e.kind)")
		w.Line("/-- `space.pipelines` (slot 0) / `space.trafficGates` (slot 1) of the namespace object -/")
		w.Line("def slotOf (s : Map (Nat × Name) Entity) (i : Nat) : Map (Nat × Name) Entity := s.filter (fun e => e.1.1 == i)")
		w.Line("")

		const obj = "pkg/supervisor/object.go"
		fd, err := r.Func(obj, "ObjectRegistry", "applyConfig")
		if err != nil {
			return err
		}
		roles, err := c20DiffLocals(r, fd)
		if err != nil {
			return err
		}
		c20NormaliseDecls(fd, roles)
		if err := irEmit(r, w, obj, "ObjectRegistry", "applyConfig", c20ApplyConfigSpec(roles),
			"`g` = index of this snapshot, `es` = `or.entities` before the call, `cfg` = the snapshot. The result is\n"+
				"(`or.entities` afterwards, deleted, created, updated) as they are when the watcher loop starts; the three local\n"+
				"maps are identified by the event field they feed in the watcher loop (ignored here, translated below as notifyIR)."); err != nil {
			return err
		}
		// the per-watcher closure of applyConfig, translated from a synthetic declaration
		nfd, err := c20NotifyDecl(r, fd, roles)
		if err != nil {
			return err
		}
		ndef, nskipped, err := irTranslate(r, nfd, c20NotifySpec())
		if err != nil {
			return err
		}
		w.Line("/-! Translated from the per-watcher closure of `ObjectRegistry.applyConfig` (`for _, watcher := range or.watchers { func() { … }() }`) in %s.", obj)
		w.Line("`P` = the watcher (its filter), `w0` = `watcher.entities` before, `dl cr up` = the deleted / created / updated maps, `sent` = false;")
		w.Line("result = (`watcher.entities` afterwards, the event, whether it was sent). `watcher.eventChan <- event` is rewritten into `sent = true`.")
		w.Line("Ignored statements (no modelled effect):")
		for _, sk := range nskipped {
			w.Line("  * `%s`", strings.ReplaceAll(sk, "-/", "- /"))
		}
		w.Line("-/")
		w.sb.WriteString(ndef)
		w.Line("")
		w.Line("/-- `sync.Map.Load(name)` on the supervisor's single map (slot 0 of the model's store) -/")
		w.Line("def syncLoad (s : Map (Nat × Name) Entity) (n : Name) : Option Entity × Bool := (s.get (0, n), (s.get (0, n)).isSome)")
		w.Line("/-- `sync.Map.Store(name, e)`; a nil pointer is not representable: no-op -/")
		w.Line("def syncStore (s : Map (Nat × Name) Entity) (n : Name) : Option Entity → Map (Nat × Name) Entity")
		w.Line("  | some e => s.set (0, n) e")
		w.Line("  | none => s")
		w.Line("/-- a lifecycle call through a pointer (nil: Go panics before anything is recorded) -/")
		w.Line("def ptrCall (f : Entity → Call) : Option Entity → List Call")
		w.Line("  | some e => [f e]")
		w.Line("  | none => []")
		w.Line("def ptrCall2 (f : Entity → Entity → Call) : Option Entity → Option Entity → List Call")
		w.Line("  | some e, some p => [f e p]")
		w.Line("  | _, _ => []")
		w.Line("")
		if err := irEmit(r, w, "pkg/supervisor/supervisor.go", "Supervisor", "handleEvent", c20HandleEventSpec(),
			"`c` = the supervisor's consumer state (`businessControllers` = slot 0 of `store`; `log` = the lifecycle calls made),\n"+
				"`ev` = the event; the three `range event.X` loops run in list order. `e.XWithRecovery(…)` appends the model's\n"+
				"`callX P name e` (name = the loop's key variable: the config key equals the spec's name)."); err != nil {
			return err
		}
		// shutdown paths: which sync.Maps are walked, one CloseWithRecovery per entry, every entry visited
		const tcf = "pkg/object/trafficcontroller/trafficcontroller.go"
		for _, f := range [][3]string{{"pkg/supervisor/supervisor.go", "Supervisor", "close"}, {tcf, "TrafficController", "Close"}, {tcf, "TrafficController", "Clean"}} {
			sfd, err := r.Func(f[0], f[1], f[2])
			if err != nil {
				return err
			}
			w.Line("/-- `X.Range(func…)` statements of `%s.%s`: map, CloseWithRecovery calls per entry, whether every entry is visited -/", f[1], f[2])
			w.Line("def shutdownRanges_%s_%s : List String := %s", f[1], f[2], StrList(c20RangeShapes(r, sfd)))
		}
		w.Line("")
		return irEmit(r, w, tcf, "TrafficController", "_cleanSpace", c20CleanSpaceSpec(),
			"`c` = the consumer state (`store` = the namespace's two sync.Maps keyed by slot, `ns` = the namespace exists).\n"+
				"`!exists` only logs; Go would then dereference nil — every caller has just loaded the namespace (the model calls\n"+
				"`cleanSpace` only with `ns = true`).")
	}})
}
