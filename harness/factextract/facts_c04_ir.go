package main

// Regenerated tie by translation for C04 (irlib.go, notes/IR.md): the five ChooseServer bodies of
// pkg/filters/proxy/loadbalance.go and ServerPoolSpec.Validate (pool.go) → Gen.FactsC04IR.*IR;
// `<fn>_regenerated_from_source` (Props/C04.lean) prove them equal to Model/LoadBalance.lean's
// `choose` (per policy) and `validate`.

func c04Spec(name, recvTy string) *irSpec {
	return &irSpec{
		Name:    name,
		Binders: "(ss : List Server) (x : Sel)",
		BNames:  []string{"ss", "x"},
		RetTy:   "Res",
		Recv:    irTerm{"ss", recvTy},
		Params:  []irTerm{{"x", "Req"}},
		LeanTy:  map[string]string{"Str": "List Nat", "Bytes": "List Nat", "Fnv": "List Nat"},
		Fields: map[string]irField{
			recvTy + ".Servers":    {Fmt: "%s", Ty: "List Server"},
			"WRLB.totalWeight":     {Fmt: "(totalWeight %s)", Ty: "Int"},
			"RRLB.counter":         {Fmt: "x.counter", Ty: "Nat"},
			"HdrHashLB.key":        {Fmt: "\"key\"", Ty: "String"},
			"Server.Weight":        {Fmt: "%s.weight", Ty: "Int"},
			"PoolSpec.ServiceName": {Fmt: "%s.serviceName", Ty: "String"},
			"PoolSpec.Servers":     {Fmt: "%s.servers", Ty: "List Server"},
		},
		Funcs: map[string]irCall{
			"len:List Server": {Fmt: "(%[1]s.length : Int)", Ty: "Int", NArgs: 1},
			// rand.Intn(n): the environment's answer x.rnd; panics for n ≤ 0
			"rand.Intn":        {Fmt: "(x.rnd : Int)", Ty: "Int", NArgs: 1, Guard: "decide (%[1]s > 0)"},
			"atomic.AddUint64": {Fmt: "(%[1]s + %[2]s)", Ty: "Nat", NArgs: 2},
			"fnv.New32":        {Fmt: "([] : List Nat)", Ty: "Fnv", NArgs: 0},
			"fmt.Errorf":       {Fmt: "true", Ty: "Error", NArgs: -1},
		},
		Methods: map[string]irCall{
			"Req.RealIP":     {Fmt: "%[1]s.ip", Ty: "Str", NArgs: 0},
			"Req.HTTPHeader": {Fmt: "%[1]s", Ty: "ReqHeader", NArgs: 0},
			"ReqHeader.Get":  {Fmt: "%[1]s.hdr", Ty: "Str", NArgs: 1},
			"Fnv.Sum32":      {Fmt: "(fnv1 %[1]s)", Ty: "Nat", NArgs: 0},
		},
		StmtMethods: map[string]irStmtCall{
			"Fnv.Write": {Lets: []irLet{{"%[1]s", "Fnv", "(%[1]s ++ %[2]s)"}}, NArgs: 1},
		},
		Conv: map[string]irCall{
			"int:Nat":    {Fmt: "(toInt64 %[1]s)", Ty: "Int"}, // int(uint64): two's complement
			"uint32:Int": {Fmt: "%[1]s.toNat", Ty: "Nat"},
			"[]byte:Str": {Fmt: "%[1]s", Ty: "Bytes"},
		},
		Index: map[string]irCall{"List Server": {Fmt: "(index %[1]s %[2]s)", Ty: "Res"}},
		Panic: "Res.panic",
		Ret: func(v []irTerm) (string, error) {
			if len(v) != 1 {
				return "", errUnsupportedReturn
			}
			switch v[0].Ty {
			case "nil":
				return "Res.nil", nil
			case "Res":
				return v[0].S, nil
			case "Server":
				return "Res.srv " + v[0].S, nil
			}
			return "", errUnsupportedReturn
		},
	}
}

func init() {
	register(Extractor{Module: "FactsC04IR", Imports: []string{"EgVerif.Model.LoadBalance"}, Run: func(r *Repo, w *Lean) error {
		const file = "pkg/filters/proxy/loadbalance.go"
		w.Line("set_option linter.unusedVariables false")
		w.Line("open EgVerif.LoadBalance")
		w.Line("")
		doc := "`ss` = `lb.Servers`; `x : Sel` = what the environment hands to this selection."
		for _, f := range []struct{ recv, name, ty string }{
			{"randomLoadBalancer", "chooseRandomIR", "RandomLB"},
			{"roundRobinLoadBalancer", "chooseRoundRobinIR", "RRLB"},
			{"WeightedRandomLoadBalancer", "chooseWeightedIR", "WRLB"},
			{"ipHashLoadBalancer", "chooseIPHashIR", "IPHashLB"},
			{"headerHashLoadBalancer", "chooseHeaderHashIR", "HdrHashLB"},
		} {
			if err := irEmit(r, w, file, f.recv, "ChooseServer", c04Spec(f.name, f.ty), doc); err != nil {
				return err
			}
		}
		s := c04Spec("validateIR", "PoolSpec")
		s.Binders, s.BNames, s.RetTy = "(sps : PoolSpec)", []string{"sps"}, "Bool"
		s.Recv = irTerm{"sps", "PoolSpec"}
		s.Fields["PoolSpec.Servers"] = irField{Fmt: "%s.servers", Ty: "List Server"}
		s.Params = nil
		s.Panic = ""
		s.Ret = func(v []irTerm) (string, error) {
			if len(v) != 1 {
				return "", errUnsupportedReturn
			}
			switch v[0].Ty {
			case "nil":
				return "true", nil
			case "Error":
				return "(!" + v[0].S + ")", nil
			}
			return "", errUnsupportedReturn
		}
		return irEmit(r, w, "pkg/filters/proxy/pool.go", "ServerPoolSpec", "Validate", s, "Result: `Validate() == nil`.")
	}})
}
