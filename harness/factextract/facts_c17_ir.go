package main

// Regenerated tie by translation for C17 (irlib.go, notes/IR.md):
//
//   pkg/util/sem/semaphore.go           Semaphore.SetMaxCount   → Gen.FactsC17IR.setMaxCountIR
//   pkg/util/limitlistener/limitlistener.go
//                                       LimitListener.Accept    → acceptIR
//                                       limitListenerConn.Close → connCloseIR
//                                       LimitListener.Close     → listenerCloseIR
//
// `<fn>_regenerated_from_source` (Proofs/ConnCapIR.lean, re-exported by Props/C17.lean) prove them
// equal to Model/ConnCap.lean's setMaxCount / acceptBody / connCloseBody for all inputs, and the
// model's `step` is proved to be built from these functions.
//
// Environment effects: the goroutine spawned by SetMaxCount runs later — its body is translated in
// place (irSpecExt.GoInline) with `s.sem.Release(k)` / `s.sem.Acquire(ctx, k)` / `close(done)`
// *recorded*, in order, in the state variable `spawn : List AdjOp`; x/sync's Weighted is the
// model's contract (semRelease / semAcquire). `l.acquire()` (blocking) is the oracle `acquired`,
// `l.ctx.Err()` the oracle `ctxErr`, the inner `Listener.Accept` the oracle `innerErr`;
// `sync.Once.Do(f)` calls f iff the once has not fired and fires it.

import (
	"fmt"
	"go/ast"
	"strings"
)

func c17IsLockStmt(src string, s ast.Stmt) bool {
	if es, ok := s.(*ast.ExprStmt); ok {
		if ce, ok := es.X.(*ast.CallExpr); ok && len(ce.Args) == 0 {
			if sel, ok := ce.Fun.(*ast.SelectorExpr); ok && (sel.Sel.Name == "Lock" || sel.Sel.Name == "Unlock") {
				return strings.HasSuffix(src, ".lock.Lock()") || strings.HasSuffix(src, ".lock.Unlock()")
			}
		}
	}
	return false
}

func c17SetMaxSpec() *irSpec {
	return &irSpec{
		Name:    "setMaxCountIR",
		Binders: "(realCap : Int) (n : Int)",
		BNames:  []string{"realCap", "n"},
		RetTy:   "Int × List AdjOp",
		Recv:    irTerm{"s", "Sem"},
		Params:  []irTerm{{"n", "Int"}},
		State:   []irLet{{"realCapacity", "Int", "realCap"}, {"spawn", "List AdjOp", "[]"}},
		LeanTy:  map[string]string{"Weighted": "Unit", "Ctx": "Unit", "Sem": "Unit"},
		Fields: map[string]irField{
			"Sem.realCapacity": {Fmt: "realCapacity", Ty: "Int", State: true},
			"Sem.sem":          {Fmt: "()", Ty: "Weighted"},
		},
		Consts: map[string]irTerm{"maxCapacity": {"M", "Int"}},
		Funcs:  map[string]irCall{"context.Background": {Fmt: "()", Ty: "Ctx", NArgs: 0}},
		StmtMethods: map[string]irStmtCall{
			"Weighted.Release": {NArgs: 1, Lets: []irLet{{"spawn", "List AdjOp", "(spawn ++ [AdjOp.release %[2]s])"}}},
			"Weighted.Acquire": {NArgs: 2, Lets: []irLet{{"spawn", "List AdjOp", "(spawn ++ [AdjOp.acquire %[3]s])"}}},
		},
		StmtHook: func(t *irT, s ast.Stmt, env *irEnv) ([]irLet, bool, error) {
			// close(<channel>) — the `done` notification
			if es, ok := s.(*ast.ExprStmt); ok {
				if ce, ok := es.X.(*ast.CallExpr); ok && len(ce.Args) == 1 {
					if id, ok := ce.Fun.(*ast.Ident); ok && id.Name == "close" {
						return []irLet{{"spawn", "List AdjOp", "(spawn ++ [AdjOp.done])"}}, true, nil
					}
				}
			}
			return nil, false, nil
		},
		Ignore: func(src string, s ast.Stmt) bool {
			if c17IsLockStmt(src, s) {
				return true
			}
			// <named result> = make(chan struct{})
			if as, ok := s.(*ast.AssignStmt); ok && len(as.Lhs) == 1 && len(as.Rhs) == 1 {
				if ce, ok := as.Rhs[0].(*ast.CallExpr); ok {
					if id, ok := ce.Fun.(*ast.Ident); ok && id.Name == "make" && len(ce.Args) == 1 {
						_, isChan := ce.Args[0].(*ast.ChanType)
						return isChan
					}
				}
			}
			return false
		},
		Ret: func(v []irTerm) (string, error) {
			if len(v) != 0 {
				return "", errUnsupportedReturn
			}
			return "(realCapacity, spawn)", nil
		},
		Ext: irSpecExt{NamedResults: "ignore", ParamKeepsBinderName: true, GoInline: func(string, *ast.GoStmt) bool { return true }},
	}
}

func c17AcceptSpec() *irSpec {
	return &irSpec{
		Name:    "acceptIR",
		Binders: "(acquired ctxErr innerErr : Bool)",
		BNames:  []string{"acquired", "ctxErr", "innerErr"},
		RetTy:   "Bool × Int",
		Recv:    irTerm{"l", "LL"},
		State:   []irLet{{"units", "Int", "(if acquired then 1 else 0)"}},
		LeanTy:  map[string]string{"LL": "Unit", "Ctx": "Unit", "Inner": "Unit", "Conn": "Unit", "ConnPtr": "Unit"},
		Fields: map[string]irField{
			"LL.ctx":      {Fmt: "()", Ty: "Ctx"},
			"LL.Listener": {Fmt: "()", Ty: "Inner"},
		},
		Methods: map[string]irCall{
			"LL.acquire":   {Fmt: "acquired", Ty: "Bool", NArgs: 0},
			"Ctx.Err":      {Fmt: "ctxErr", Ty: "Error", NArgs: 0},
			"Inner.Accept": {Fmt: "((), innerErr)", Ty: "Conn × Error", NArgs: 0},
		},
		StmtMethods: map[string]irStmtCall{
			"LL.release": {NArgs: 0, Lets: []irLet{{"units", "Int", "(units - 1)"}}},
		},
		Hook: func(t *irT, e ast.Expr, env *irEnv) (irTerm, bool, error) {
			// &limitListenerConn{Conn: <the accepted conn>, release: <recv>.release}
			ue, ok := e.(*ast.UnaryExpr)
			if !ok {
				return irTerm{}, false, nil
			}
			cl, ok := ue.X.(*ast.CompositeLit)
			if !ok || t.r.Src(cl.Type) != "limitListenerConn" {
				return irTerm{}, false, nil
			}
			seen := map[string]bool{}
			for _, el := range cl.Elts {
				kv, ok := el.(*ast.KeyValueExpr)
				if !ok {
					return irTerm{}, true, fmt.Errorf("limitListenerConn literal without keys")
				}
				key := t.r.Src(kv.Key)
				switch key {
				case "Conn":
					v, err := t.expr(kv.Value, env)
					if err != nil || v.Ty != "Conn" {
						return irTerm{}, true, fmt.Errorf("limitListenerConn.Conn is not the accepted connection: %s", t.r.Src(kv.Value))
					}
				case "release":
					sel, ok := kv.Value.(*ast.SelectorExpr)
					if !ok || sel.Sel.Name != "release" {
						return irTerm{}, true, fmt.Errorf("limitListenerConn.release is not <listener>.release: %s", t.r.Src(kv.Value))
					}
					v, err := t.expr(sel.X, env)
					if err != nil || v.Ty != "LL" {
						return irTerm{}, true, fmt.Errorf("limitListenerConn.release is not <listener>.release: %s", t.r.Src(kv.Value))
					}
				default:
					return irTerm{}, true, fmt.Errorf("limitListenerConn literal sets %s", key)
				}
				seen[key] = true
			}
			if !seen["Conn"] || !seen["release"] {
				return irTerm{}, true, fmt.Errorf("limitListenerConn literal must set Conn and release")
			}
			return irTerm{"()", "ConnPtr"}, true, nil
		},
		Ret: func(v []irTerm) (string, error) {
			if len(v) != 2 {
				return "", errUnsupportedReturn
			}
			switch {
			case v[0].Ty == "nil" && v[1].Ty == "Error":
				return "(false, units)", nil
			case v[0].Ty == "ConnPtr" && v[1].Ty == "nil":
				return "(true, units)", nil
			}
			return "", errUnsupportedReturn
		},
	}
}

// c17CloseSpec: `err := <inner>.Close(); l.<once>.Do(l.<fn>); return err`
func c17CloseSpec(name, recvTy, innerField, onceField, fnField, fnTerm string) *irSpec {
	return &irSpec{
		Name:    name,
		Binders: "(once : Bool)",
		BNames:  []string{"once"},
		RetTy:   "Bool × List OnceFn",
		Recv:    irTerm{"l", recvTy},
		State:   []irLet{{"fired", "Once", "once"}, {"calls", "List OnceFn", "[]"}},
		LeanTy:  map[string]string{recvTy: "Unit", "Inner": "Unit", "Once": "Bool"},
		Fields: map[string]irField{
			recvTy + "." + innerField: {Fmt: "()", Ty: "Inner"},
			recvTy + "." + onceField:  {Fmt: "fired", Ty: "Once", State: true},
			recvTy + "." + fnField:    {Fmt: fnTerm, Ty: "OnceFn"},
		},
		Methods: map[string]irCall{"Inner.Close": {Fmt: "false", Ty: "Error", NArgs: 0}},
		StmtMethods: map[string]irStmtCall{
			"Once.Do": {NArgs: 1, Lets: []irLet{
				{"calls", "List OnceFn", "(if %[1]s then calls else calls ++ [%[2]s])"},
				{"%[1]s", "Once", "true"}}},
		},
		Ret: func(v []irTerm) (string, error) {
			if len(v) != 1 || v[0].Ty != "Error" {
				return "", errUnsupportedReturn
			}
			return "(fired, calls)", nil
		},
	}
}

func init() {
	register(Extractor{Module: "FactsC17IR", Imports: []string{"EgVerif.Model.ConnCap"}, Run: func(r *Repo, w *Lean) error {
		w.Line("set_option linter.unusedVariables false")
		w.Line("open EgVerif.ConnCap")
		w.Line("")
		w.Line("/-- the function values handed to `sync.Once.Do` -/")
		w.Line("inductive OnceFn")
		w.Line("  | release   -- `l.release` of the limitListenerConn (= the listener's `release`: `sem.Release()`)")
		w.Line("  | cancel    -- `l.cancel` of the LimitListener (context cancel)")
		w.Line("deriving DecidableEq, Repr")
		w.Line("")
		if err := irEmit(r, w, "pkg/util/sem/semaphore.go", "Semaphore", "SetMaxCount", c17SetMaxSpec(),
			"The body of the spawned goroutine is translated in place; its semaphore calls and `close(done)` are recorded in `spawn` (they run later, see Model `applyAdjOps`). Result: (`realCapacity` after the call, recorded actions)."); err != nil {
			return err
		}
		const ll = "pkg/util/limitlistener/limitlistener.go"
		if err := irEmit(r, w, ll, "LimitListener", "Accept", c17AcceptSpec(),
			"`units` = units of the semaphore held by this call (1 iff `l.acquire()` succeeded, minus one per `l.release()`). Result: (a connection is returned, units still held). The returned connection carries `release: l.release` (checked by the extractor)."); err != nil {
			return err
		}
		if err := irEmit(r, w, ll, "limitListenerConn", "Close",
			c17CloseSpec("connCloseIR", "LConn", "Conn", "releaseOnce", "release", "OnceFn.release"),
			"`once` = the connection's `releaseOnce` has fired before. Result: (fired afterwards, functions called through the Once by this Close)."); err != nil {
			return err
		}
		return irEmit(r, w, ll, "LimitListener", "Close",
			c17CloseSpec("listenerCloseIR", "LL", "Listener", "closeOnce", "cancel", "OnceFn.cancel"),
			"`once` = the listener's `closeOnce` has fired before.")
	}})
}
