package main

// Facts for C07: the default limit, the limit selection and error mapping around
// the two FetchPayload call sites (mux.serveHTTP, ServerPool.buildResponse/doHandle).

import (
	"fmt"
	"go/ast"
	"go/constant"
	"go/token"
	"go/types"
	"strings"
)

// constInt evaluates a constant integer expression made of literals and * + - << ( ).
func constInt(e ast.Expr) (int64, error) {
	tv, err := types.Eval(token.NewFileSet(), nil, token.NoPos, exprString(e))
	if err != nil {
		return 0, err
	}
	if tv.Value == nil || tv.Value.Kind() != constant.Int {
		return 0, fmt.Errorf("not a constant integer")
	}
	v, ok := constant.Int64Val(tv.Value)
	if !ok {
		return 0, fmt.Errorf("overflow")
	}
	return v, nil
}

func exprString(e ast.Expr) string { return types.ExprString(e) }

// stmtsAround returns the statement list that directly contains a statement whose
// source contains needle, and the index of that statement.
func stmtsAround(r *Repo, body *ast.BlockStmt, needle string) ([]ast.Stmt, int) {
	var list []ast.Stmt
	idx := -1
	ast.Inspect(body, func(n ast.Node) bool {
		if b, ok := n.(*ast.BlockStmt); ok && idx < 0 {
			for i, s := range b.List {
				if _, isIf := s.(*ast.IfStmt); isIf {
					continue
				}
				if _, isBlock := s.(*ast.BlockStmt); isBlock {
					continue
				}
				if strings.Contains(r.Src(s), needle) {
					list, idx = b.List, i
					return false
				}
			}
		}
		return true
	})
	return list, idx
}

func endsWithReturn(b *ast.BlockStmt) bool {
	if b == nil || len(b.List) == 0 {
		return false
	}
	_, ok := b.List[len(b.List)-1].(*ast.ReturnStmt)
	return ok
}

func firstArgOfCall(r *Repo, n ast.Node, callee string, arg int) string {
	out := ""
	ast.Inspect(n, func(x ast.Node) bool {
		if ce, ok := x.(*ast.CallExpr); ok && out == "" && r.Src(ce.Fun) == callee && len(ce.Args) > arg {
			out = r.Src(ce.Args[arg])
		}
		return true
	})
	return out
}

func init() {
	register(Extractor{Module: "FactsC07", Run: func(r *Repo, w *Lean) error {
		v, err := r.PkgValue("pkg/protocols/httpprot/http.go", "DefaultMaxPayloadSize")
		if err != nil {
			return err
		}
		n, err := constInt(v)
		if err != nil {
			return fmt.Errorf("DefaultMaxPayloadSize: %v", err)
		}
		w.Line("/-- http.go `const DefaultMaxPayloadSize` -/")
		w.Line("def defaultMaxPayloadSize : Int := %d", n)

		// ---- mux.serveHTTP
		fd, err := r.Func("pkg/object/httpserver/mux.go", "muxInstance", "serveHTTP")
		if err != nil {
			return err
		}
		list, i := stmtsAround(r, fd.Body, "req.FetchPayload(")
		if i < 2 || i+2 >= len(list) {
			return fmt.Errorf("serveHTTP: FetchPayload call site not found in the expected shape")
		}
		w.Line("/-- the two statements before `err := req.FetchPayload(maxBodySize)` in serveHTTP -/")
		w.Line("def muxLimitSelection : String := %s", Str(r.Src(list[i-2])+"; "+r.Src(list[i-1])))
		if1, ok1 := list[i+1].(*ast.IfStmt)
		if2, ok2 := list[i+2].(*ast.IfStmt)
		if !ok1 || !ok2 {
			return fmt.Errorf("serveHTTP: the two error branches after FetchPayload not found")
		}
		if r.Src(if1.Cond) != "err == httpprot.ErrRequestEntityTooLarge" || r.Src(if2.Cond) != "err != nil" {
			return fmt.Errorf("serveHTTP: unexpected error conditions %q / %q", r.Src(if1.Cond), r.Src(if2.Cond))
		}
		w.Line("def muxTooLargeStatus : String := %s", Str(firstArgOfCall(r, if1.Body, "buildFailureResponse", 1)))
		w.Line("def muxOtherErrStatus : String := %s", Str(firstArgOfCall(r, if2.Body, "buildFailureResponse", 1)))
		w.Line("/-- both error branches end in `return` -/")
		w.Line("def muxErrBranchesReturn : Bool := %s", Bool(endsWithReturn(if1.Body) && endsWithReturn(if2.Body)))
		// every handler invocation (handler.Handle / globalFilter.Handle) comes after the error branches
		after := true
		seen := 0
		for k, s := range list {
			src := r.Src(s)
			if strings.Contains(src, "handler.Handle(ctx)") || strings.Contains(src, "globalFilter.Handle(ctx, handler)") {
				seen++
				if k <= i+2 {
					after = false
				}
			}
		}
		w.Line("/-- the handler is only invoked in statements after FetchPayload and its two error branches -/")
		w.Line("def muxFetchBeforeHandle : Bool := %s", Bool(after && seen > 0))

		// the write-out (deferred function of serveHTTP): the error of `io.Copy(stdw, resp.GetPayload())` is kept and,
		// when non-nil, the connection is aborted with `panic(http.ErrAbortHandler)` (fixes/C07-stream-abort.patch)
		aborts := false
		ast.Inspect(fd.Body, func(x ast.Node) bool {
			fl, ok := x.(*ast.FuncLit)
			if !ok {
				return true
			}
			errName := ""
			ast.Inspect(fl.Body, func(y ast.Node) bool {
				if as, ok := y.(*ast.AssignStmt); ok && len(as.Rhs) == 1 && len(as.Lhs) == 2 && r.Src(as.Rhs[0]) == "io.Copy(stdw, resp.GetPayload())" {
					if id, ok := as.Lhs[1].(*ast.Ident); ok && id.Name != "_" {
						errName = id.Name
					}
				}
				return true
			})
			if errName == "" {
				return true
			}
			for _, st := range fl.Body.List {
				if is, ok := st.(*ast.IfStmt); ok && (r.Src(is.Cond) == errName+" != nil" || strings.HasPrefix(r.Src(is.Cond), errName+" != nil && ")) && len(is.Body.List) > 0 {
					if r.Src(is.Body.List[len(is.Body.List)-1]) == "panic(http.ErrAbortHandler)" {
						aborts = true
					}
				}
			}
			return true
		})
		w.Line("/-- serveHTTP's write-out aborts the connection when copying the response body failed -/")
		w.Line("def muxAbortsOnCopyError : Bool := %s", Bool(aborts))

		// ---- int64 overflow freedom of both FetchPayloads: the bodies contain no arithmetic at all (only comparisons,
		// conversions between 64-bit integer types, `make`, slicing and the read calls), so no `limit + 1` can wrap
		arith := func(fd *ast.FuncDecl) []string {
			var out []string
			ast.Inspect(fd.Body, func(x ast.Node) bool {
				switch y := x.(type) {
				case *ast.BinaryExpr:
					switch y.Op {
					case token.ADD, token.SUB, token.MUL, token.QUO, token.REM, token.SHL, token.SHR, token.AND, token.OR, token.XOR, token.AND_NOT:
						out = append(out, r.Src(y))
					}
				case *ast.UnaryExpr:
					if y.Op == token.SUB || y.Op == token.XOR {
						out = append(out, r.Src(y))
					}
				case *ast.IncDecStmt:
					out = append(out, r.Src(y))
				case *ast.AssignStmt:
					if y.Tok != token.ASSIGN && y.Tok != token.DEFINE {
						out = append(out, r.Src(y))
					}
				}
				return true
			})
			return out
		}
		fq, err := r.Func("pkg/protocols/httpprot/request.go", "Request", "FetchPayload")
		if err != nil {
			return err
		}
		fp, err := r.Func("pkg/protocols/httpprot/response.go", "Response", "FetchPayload")
		if err != nil {
			return err
		}
		w.Line("/-- every arithmetic / bit operation, `++`/`--` and op-assignment in the bodies of Request.FetchPayload and Response.FetchPayload -/")
		w.Line("def fetchArithmetic : List String := %s", StrList(append(arith(fq), arith(fp)...)))

		// ---- update histories: a path's limit is written once, by newMuxPath, from the path's own spec value; reload
		// publishes an instance that carries the new spec
		mf, err := r.File("pkg/object/httpserver/mux.go")
		if err != nil {
			return err
		}
		kvs, kvOK, assigns := 0, false, 0
		ast.Inspect(mf, func(x ast.Node) bool {
			switch y := x.(type) {
			case *ast.KeyValueExpr:
				if id, ok := y.Key.(*ast.Ident); ok && id.Name == "clientMaxBodySize" {
					kvs++
					kvOK = r.Src(y.Value) == "path.ClientMaxBodySize"
				}
			case *ast.AssignStmt:
				for _, l := range y.Lhs {
					if se, ok := l.(*ast.SelectorExpr); ok && se.Sel.Name == "clientMaxBodySize" {
						assigns++
					}
				}
			case *ast.IncDecStmt:
				if se, ok := y.X.(*ast.SelectorExpr); ok && se.Sel.Name == "clientMaxBodySize" {
					assigns++
				}
			}
			return true
		})
		nmp, err := r.Func("pkg/object/httpserver/mux.go", "", "newMuxPath")
		inNew := 0
		if err == nil {
			ast.Inspect(nmp.Body, func(x ast.Node) bool {
				if kv, ok := x.(*ast.KeyValueExpr); ok {
					if id, ok := kv.Key.(*ast.Ident); ok && id.Name == "clientMaxBodySize" {
						inNew++
					}
				}
				return true
			})
		}
		w.Line("/-- `clientMaxBodySize` of a MuxPath is set exactly once, in newMuxPath's literal, to `path.ClientMaxBodySize`; no assignment anywhere -/")
		w.Line("def pathLimitWrittenOnlyByNewMuxPath : Bool := %s", Bool(kvs == 1 && kvOK && assigns == 0 && inNew == 1))
		rl, err := r.Func("pkg/object/httpserver/mux.go", "mux", "reload")
		if err != nil {
			return err
		}
		newSpec, stores, pathsViaNew := false, 0, r.CountCalls(rl.Body, "newMuxPath")
		ast.Inspect(rl.Body, func(x ast.Node) bool {
			if cl, ok := x.(*ast.CompositeLit); ok && r.Src(cl.Type) == "muxInstance" {
				for _, e := range cl.Elts {
					if kv, ok := e.(*ast.KeyValueExpr); ok && r.Src(kv.Key) == "spec" && r.Src(kv.Value) == "spec" {
						newSpec = true
					}
				}
			}
			if ce, ok := x.(*ast.CallExpr); ok && r.Src(ce.Fun) == "m.inst.Store" {
				stores++
			}
			return true
		})
		w.Line("/-- reload: `&muxInstance{… spec: spec …}`, every path built by newMuxPath, one `m.inst.Store` -/")
		w.Line("def reloadPublishesNewSpec : Bool := %s", Bool(newSpec && stores == 1 && pathsViaNew == 1))

		// ---- ServerPool.buildResponse / doHandle
		bd, err := r.Func("pkg/filters/proxy/pool.go", "ServerPool", "buildResponse")
		if err != nil {
			return err
		}
		plist, pi := c07LimitFragment(r, bd.Body, "resp.FetchPayload")
		if pi < 0 || pi+2 >= len(plist) {
			return fmt.Errorf("buildResponse: limit selection not found")
		}
		w.Line("def poolLimitSelection : String := %s", Str(r.Src(plist[pi])+"; "+r.Src(plist[pi+1])))
		fif, ok := plist[pi+2].(*ast.IfStmt)
		okFetch := ok && fif.Init != nil && strings.HasPrefix(r.Src(fif.Init), "err = resp.FetchPayload(") && r.Src(fif.Cond) == "err != nil"
		if okFetch {
			ret, isRet := fif.Body.List[len(fif.Body.List)-1].(*ast.ReturnStmt)
			okFetch = isRet && len(ret.Results) == 1 && r.Src(ret.Results[0]) == "err"
		}
		w.Line("/-- `if err = resp.FetchPayload(maxBodySize); err != nil { …; return err }` -/")
		w.Line("def poolFetchErrReturned : Bool := %s", Bool(okFetch))
		dh, err := r.Func("pkg/filters/proxy/pool.go", "ServerPool", "doHandle")
		if err != nil {
			return err
		}
		status := ""
		ast.Inspect(dh.Body, func(x ast.Node) bool {
			if is, ok := x.(*ast.IfStmt); ok && is.Init != nil && strings.Contains(r.Src(is.Init), "sp.buildResponse(spCtx)") {
				ast.Inspect(is.Body, func(y ast.Node) bool {
					if cl, ok := y.(*ast.CompositeLit); ok && r.Src(cl.Type) == "serverPoolError" && len(cl.Elts) > 0 {
						status = r.Src(cl.Elts[0])
					}
					return true
				})
			}
			return true
		})
		w.Line("/-- status of the serverPoolError returned by doHandle when buildResponse fails -/")
		w.Line("def poolBuildErrStatus : String := %s", Str(status))
		return nil
	}})
}
