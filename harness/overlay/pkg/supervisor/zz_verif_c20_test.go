package supervisor

// Correspondence harness for property C20 (object lifecycle). Injected with
// `go test -overlay`; nothing is written to /repo.
//
// Test-only kinds are registered with the real supervisor registry. Their
// Init / Inherit / Close record every call and panic on chosen calls (and,
// like every real controller, type-assert their predecessor in Inherit).
//
// Harness "reg" (TestVerifC20): a real ObjectRegistry and a real Supervisor are
// built in-package; snapshots are applied with ObjectRegistry.applyConfig, the
// watchers' event channels are drained and the supervisor's events go through
// Supervisor.handleEvent, all on the harness goroutine (deterministic).
//
// Harness "super" (TestVerifC20Super): supervisor.MustNew on a mocked cluster;
// snapshots are pushed through clustertest.MockedSyncer.SyncPrefix (a harness
// owned channel) and are handled by the real run loops of the registry and the
// supervisor.

import (
	"encoding/json"
	"fmt"
	"os"
	"sort"
	"strings"
	"sync"
	"sync/atomic"
	"testing"
	"time"

	"github.com/megaease/easegress/pkg/cluster"
	"github.com/megaease/easegress/pkg/cluster/clustertest"
	"github.com/megaease/easegress/pkg/context"
	"github.com/megaease/easegress/pkg/logger"
	"github.com/megaease/easegress/pkg/option"
	"github.com/megaease/easegress/pkg/util/verifh"
)

// ---------------------------------------------------------------------------
// test-only kinds

// c20Kinds is the kind table shared with the judge (passed along in every input).
// cat: 0 system, 1 business, 2 pipeline, 3 traffic gate, 9 unregistered.
var c20Kinds = []struct {
	kind string
	cat  int
}{
	{"VerifCtlA", 1}, {"VerifCtlB", 1}, {"VerifGateA", 3}, {"VerifGateB", 3},
	{"VerifPipe", 2}, {"VerifNope", 9}, {"VerifSys", 0},
}

type c20Spec struct {
	Body int `yaml:"body"`
}

// c20Call is one recorded lifecycle call.
type c20Call struct {
	op       string
	self     Object
	prev     Object
	name     string
	kind     string
	body     int
	panicked bool
}

type c20Recorder struct {
	mu     sync.Mutex
	calls  []c20Call
	panics map[string]bool // op/name/kind/body
}

var c20Rec = &c20Recorder{}

func c20Key(op, name, kind string, body int) string {
	return fmt.Sprintf("%s/%s/%s/%d", op, name, kind, body)
}

// record appends the call and reports whether the object has to panic.
func (r *c20Recorder) record(c c20Call, wrongPrev bool) bool {
	r.mu.Lock()
	defer r.mu.Unlock()
	c.panicked = wrongPrev || r.panics[c20Key(c.op, c.name, c.kind, c.body)]
	r.calls = append(r.calls, c)
	return c.panicked
}

func (r *c20Recorder) take() []c20Call {
	r.mu.Lock()
	defer r.mu.Unlock()
	c := r.calls
	r.calls = nil
	return c
}

// c20Base is the state shared by all recorder kinds.
type c20Base struct {
	name string
	body int
}

func (b *c20Base) base() *c20Base { return b }

func (b *c20Base) set(spec *Spec) {
	b.name = spec.Name()
	b.body = c20LogicalBody(spec)
}

type (
	c20CtlA  struct{ c20Base }
	c20CtlB  struct{ c20Base }
	c20GateA struct{ c20Base }
	c20GateB struct{ c20Base }
	c20Pipe  struct{ c20Base }
	c20Sys   struct{ c20Base }
)

func c20Init(o Object, b *c20Base, spec *Spec) {
	b.set(spec)
	if c20Rec.record(c20Call{op: "init", self: o, name: b.name, kind: o.Kind(), body: b.body}, false) {
		panic("verif: init " + b.name)
	}
}

func c20Inherit(o Object, b *c20Base, spec *Spec, prev Object, sameType bool) {
	b.set(spec)
	if c20Rec.record(c20Call{op: "inherit", self: o, prev: prev, name: b.name, kind: o.Kind(), body: b.body}, !sameType) {
		panic("verif: inherit " + b.name)
	}
}

func c20Close(o Object, b *c20Base) {
	if c20Rec.record(c20Call{op: "close", self: o, name: b.name, kind: o.Kind(), body: b.body}, false) {
		panic("verif: close " + b.name)
	}
}

func (o *c20CtlA) Category() ObjectCategory { return CategoryBusinessController }
func (o *c20CtlA) Kind() string             { return "VerifCtlA" }
func (o *c20CtlA) DefaultSpec() interface{} { return &c20Spec{} }
func (o *c20CtlA) Status() *Status          { return &Status{} }
func (o *c20CtlA) Init(s *Spec)             { c20Init(o, &o.c20Base, s) }
func (o *c20CtlA) Inherit(s *Spec, p Object) {
	_, ok := p.(*c20CtlA)
	c20Inherit(o, &o.c20Base, s, p, ok)
}
func (o *c20CtlA) Close() { c20Close(o, &o.c20Base) }

func (o *c20CtlB) Category() ObjectCategory { return CategoryBusinessController }
func (o *c20CtlB) Kind() string             { return "VerifCtlB" }
func (o *c20CtlB) DefaultSpec() interface{} { return &c20Spec{} }
func (o *c20CtlB) Status() *Status          { return &Status{} }
func (o *c20CtlB) Init(s *Spec)             { c20Init(o, &o.c20Base, s) }
func (o *c20CtlB) Inherit(s *Spec, p Object) {
	_, ok := p.(*c20CtlB)
	c20Inherit(o, &o.c20Base, s, p, ok)
}
func (o *c20CtlB) Close() { c20Close(o, &o.c20Base) }

func (o *c20Sys) Category() ObjectCategory { return CategorySystemController }
func (o *c20Sys) Kind() string             { return "VerifSys" }
func (o *c20Sys) DefaultSpec() interface{} { return &c20Spec{} }
func (o *c20Sys) Status() *Status          { return &Status{} }
func (o *c20Sys) Init(s *Spec)             { c20Init(o, &o.c20Base, s) }
func (o *c20Sys) Inherit(s *Spec, p Object) {
	_, ok := p.(*c20Sys)
	c20Inherit(o, &o.c20Base, s, p, ok)
}
func (o *c20Sys) Close() { c20Close(o, &o.c20Base) }

func (o *c20GateA) Category() ObjectCategory          { return CategoryTrafficGate }
func (o *c20GateA) Kind() string                      { return "VerifGateA" }
func (o *c20GateA) DefaultSpec() interface{}          { return &c20Spec{} }
func (o *c20GateA) Status() *Status                   { return &Status{} }
func (o *c20GateA) Close()                            { c20Close(o, &o.c20Base) }
func (o *c20GateA) Init(s *Spec, _ context.MuxMapper) { c20Init(o, &o.c20Base, s) }
func (o *c20GateA) Inherit(s *Spec, p Object, _ context.MuxMapper) {
	_, ok := p.(*c20GateA)
	c20Inherit(o, &o.c20Base, s, p, ok)
}

func (o *c20GateB) Category() ObjectCategory          { return CategoryTrafficGate }
func (o *c20GateB) Kind() string                      { return "VerifGateB" }
func (o *c20GateB) DefaultSpec() interface{}          { return &c20Spec{} }
func (o *c20GateB) Status() *Status                   { return &Status{} }
func (o *c20GateB) Close()                            { c20Close(o, &o.c20Base) }
func (o *c20GateB) Init(s *Spec, _ context.MuxMapper) { c20Init(o, &o.c20Base, s) }
func (o *c20GateB) Inherit(s *Spec, p Object, _ context.MuxMapper) {
	_, ok := p.(*c20GateB)
	c20Inherit(o, &o.c20Base, s, p, ok)
}

func (o *c20Pipe) Category() ObjectCategory          { return CategoryPipeline }
func (o *c20Pipe) Kind() string                      { return "VerifPipe" }
func (o *c20Pipe) DefaultSpec() interface{}          { return &c20Spec{} }
func (o *c20Pipe) Status() *Status                   { return &Status{} }
func (o *c20Pipe) Close()                            { c20Close(o, &o.c20Base) }
func (o *c20Pipe) Init(s *Spec, _ context.MuxMapper) { c20Init(o, &o.c20Base, s) }
func (o *c20Pipe) Inherit(s *Spec, p Object, _ context.MuxMapper) {
	_, ok := p.(*c20Pipe)
	c20Inherit(o, &o.c20Base, s, p, ok)
}

var c20RegisterOnce sync.Once

func c20Register() {
	c20RegisterOnce.Do(func() {
		logger.InitNop()
		Register(&c20Sys{})
		Register(&c20CtlA{})
		Register(&c20CtlB{})
		Register(&c20GateA{})
		Register(&c20GateB{})
		Register(&c20Pipe{})
	})
}

// ---------------------------------------------------------------------------
// input / observation

type c20Entry struct {
	Name int `json:"n"`
	Kind int `json:"k"`
	Body int `json:"b"`
	Bad  int `json:"bad,omitempty"` // 1: yaml that is not a mapping
}

type c20Item struct {
	Snap   []c20Entry `json:"snap"`
	IsSnap bool       `json:"isSnap"`
	Attach int        `json:"attach"` // watcher index when !IsSnap
}

type c20Watcher struct {
	Cats     []int `json:"cats"`
	All      bool  `json:"all"`
	Consumer bool  `json:"consumer"` // the supervisor itself (handleEvent)
	NoEvents bool  `json:"noEvents"` // the harness cannot observe this watcher's events (a run loop consumes them)
}

type c20Panic struct {
	Op   string `json:"op"`
	Name int    `json:"n"`
	Kind int    `json:"k"`
	Body int    `json:"b"`
}

type c20Input struct {
	Cats     []int        `json:"cats"` // category of every kind id (harness table)
	Watchers []c20Watcher `json:"watchers"`
	Hist     []c20Item    `json:"hist"`
	Panics   []c20Panic   `json:"panics"`
	Enum     []int        `json:"enum,omitempty"`     // harness "regx": [global index, size of the enumeration]
	Shutdown bool         `json:"shutdown,omitempty"` // harness "reg"/"regx": call the real Supervisor.close() after the history
}

// entity observation: [name, gen, kind, body]; gen = index of the snapshot whose
// applyConfig created the entity (-1 unknown).
type c20Ent [4]int

// call observation: [op(0 init,1 inherit,2 close), name, gen, kind, body, prevGen, prevKind, prevBody, panicked]
type c20ObsCall [9]int

type c20Event struct {
	W   int      `json:"w"`
	Del []c20Ent `json:"del"`
	Cre []c20Ent `json:"cre"`
	Upd []c20Ent `json:"upd"`
}

type c20Wents struct {
	W    int      `json:"w"`
	Ents []c20Ent `json:"ents"`
}

type c20Step struct {
	Events []c20Event   `json:"events"`
	Wents  []c20Wents   `json:"wents"` // watcher.entities of every attached watcher after the step
	Log    []c20ObsCall `json:"log"`
	Live   []c20Ent     `json:"live"`
	Reg    []c20Ent     `json:"reg"`
}

type c20Obs struct {
	Steps []c20Step `json:"steps"`
	Err   string    `json:"error,omitempty"`
	// Shutdown: the lifecycle calls made by Supervisor.close() after the history (input.shutdown)
	Shutdown *c20Step `json:"shutdown,omitempty"`
}

func c20Name(i int) string { return fmt.Sprintf("n%d", i) }

func c20NameIdx(s string) int {
	var i int
	if _, err := fmt.Sscanf(s, "n%d", &i); err != nil {
		return -1
	}
	return i
}

func c20KindIdx(k string) int {
	for i, e := range c20Kinds {
		if e.kind == k {
			return i
		}
	}
	return -1
}

func c20KindName(i int) string {
	if i >= 0 && i < len(c20Kinds) {
		return c20Kinds[i].kind
	}
	return "VerifNope"
}

// The logical body 2 is written as the typed body 0 plus a non-default meta `version:` — so the histories contain
// spec changes (0 <-> 2) that touch ONLY a meta field of the spec and leave the typed object spec equal (seeded change
// C20-m7: an Equals that compares the typed specs only never inherits such a change).
const c20AltVersion = "easegress.megaease.com/v1"

func c20LogicalBody(spec *Spec) int {
	if spec.Version() != DefaultSpecVersion {
		return 2
	}
	return spec.ObjectSpec().(*c20Spec).Body
}

func c20Yaml(e c20Entry) string {
	if e.Bad == 1 {
		return "- just\n- a list\n"
	}
	if e.Body == 2 {
		return fmt.Sprintf("name: %s\nkind: %s\nversion: %s\nbody: 0\n", c20Name(e.Name), c20KindName(e.Kind), c20AltVersion)
	}
	return fmt.Sprintf("name: %s\nkind: %s\nbody: %d\n", c20Name(e.Name), c20KindName(e.Kind), e.Body)
}

func c20Config(snap []c20Entry, prefix string) map[string]string {
	m := make(map[string]string)
	for _, e := range snap { // a later duplicate overrides an earlier one (Go map)
		m[prefix+c20Name(e.Name)] = c20Yaml(e)
	}
	return m
}

func c20Filter(w c20Watcher) ObjectEntityWatcherFilter {
	var cats []ObjectCategory
	for _, c := range w.Cats {
		switch c {
		case 0:
			cats = append(cats, CategorySystemController)
		case 1:
			cats = append(cats, CategoryBusinessController)
		case 2:
			cats = append(cats, CategoryPipeline)
		case 3:
			cats = append(cats, CategoryTrafficGate)
		}
	}
	if w.All {
		cats = append(cats, CategoryAll)
	}
	return FilterCategory(cats...)
}

// c20Tags maps object instances to the snapshot index that created them.
type c20Tags struct {
	gen map[Object]int
}

func (t *c20Tags) tagNew(or *ObjectRegistry, idx int) {
	or.mutex.Lock()
	defer or.mutex.Unlock()
	for _, e := range or.entities {
		if _, ok := t.gen[e.instance]; !ok {
			t.gen[e.instance] = idx
		}
	}
}

func (t *c20Tags) ent(name string, e *ObjectEntity) c20Ent {
	g, ok := t.gen[e.instance]
	if !ok {
		g = -1
	}
	body := -1
	if _, ok := e.Spec().ObjectSpec().(*c20Spec); ok {
		body = c20LogicalBody(e.Spec())
	}
	return c20Ent{c20NameIdx(name), g, c20KindIdx(e.Spec().Kind()), body}
}

func (t *c20Tags) ents(m map[string]*ObjectEntity) []c20Ent {
	out := make([]c20Ent, 0, len(m))
	for n, e := range m {
		out = append(out, t.ent(n, e))
	}
	sort.Slice(out, func(i, j int) bool { return out[i][0] < out[j][0] })
	return out
}

func (t *c20Tags) calls(cs []c20Call) []c20ObsCall {
	out := make([]c20ObsCall, 0, len(cs))
	for _, c := range cs {
		op := map[string]int{"init": 0, "inherit": 1, "close": 2}[c.op]
		g, ok := t.gen[c.self]
		if !ok {
			g = -1
		}
		oc := c20ObsCall{op, c20NameIdx(c.name), g, c20KindIdx(c.kind), c.body, -1, -1, -1, 0}
		if c.prev != nil {
			pg, ok := t.gen[c.prev]
			if !ok {
				pg = -1
			}
			oc[5], oc[6] = pg, c20KindIdx(c.prev.Kind())
			if p, ok := c.prev.(interface{ base() *c20Base }); ok {
				oc[7] = p.base().body
			}
		}
		if c.panicked {
			oc[8] = 1
		}
		out = append(out, oc)
	}
	return out
}

func c20SetPanics(in *c20Input) {
	m := make(map[string]bool)
	for _, p := range in.Panics {
		m[c20Key(p.Op, c20Name(p.Name), c20KindName(p.Kind), p.Body)] = true
	}
	c20Rec.mu.Lock()
	c20Rec.panics = m
	c20Rec.calls = nil
	c20Rec.mu.Unlock()
}

func c20Live(s *Supervisor, t *c20Tags) []c20Ent {
	m := make(map[string]*ObjectEntity)
	s.businessControllers.Range(func(k, v interface{}) bool {
		m[k.(string)] = v.(*ObjectEntity)
		return true
	})
	return t.ents(m)
}

func c20RegEnts(or *ObjectRegistry, t *c20Tags) []c20Ent {
	or.mutex.Lock()
	defer or.mutex.Unlock()
	return t.ents(or.entities)
}

// ---------------------------------------------------------------------------
// harness "reg": synchronous, in-package

func c20Exec(raw json.RawMessage) interface{} {
	c20Register()
	var in c20Input
	if err := json.Unmarshal(raw, &in); err != nil {
		return c20Obs{Err: "bad-input"}
	}
	// the kind table is the harness's: an input whose table was altered (shrinking) is rejected
	if len(in.Cats) != len(c20Kinds) {
		return c20Obs{Err: "bad-input"}
	}
	for k, e := range c20Kinds {
		if in.Cats[k] != e.cat {
			return c20Obs{Err: "bad-input"}
		}
	}
	c20SetPanics(&in)

	super := &Supervisor{
		options:         option.New(),
		firstHandle:     true,
		firstHandleDone: make(chan struct{}),
		done:            make(chan struct{}),
	}
	or := &ObjectRegistry{
		super:    super,
		entities: make(map[string]*ObjectEntity),
		watchers: map[string]*ObjectEntityWatcher{},
		done:     make(chan struct{}),
	}
	super.objectRegistry = or

	tags := &c20Tags{gen: make(map[Object]int)}
	watchers := make([]*ObjectEntityWatcher, len(in.Watchers))
	obs := c20Obs{Steps: []c20Step{}}
	snapIdx := 0

	for _, it := range in.Hist {
		if it.IsSnap {
			or.applyConfig(c20Config(it.Snap, ""))
			tags.tagNew(or, snapIdx)
			snapIdx++
		} else {
			i := it.Attach
			if i < 0 || i >= len(in.Watchers) {
				obs.Steps = append(obs.Steps, c20Step{})
				continue
			}
			name := fmt.Sprintf("verif-w%d", i)
			if in.Watchers[i].Consumer {
				name = watcherName
			}
			w := or.NewWatcher(name, c20Filter(in.Watchers[i]))
			if w != nil && watchers[i] == nil {
				watchers[i] = w
				if in.Watchers[i].Consumer {
					super.watcher = w
				}
			}
		}
		step := c20Step{Events: []c20Event{}}
		for i, w := range watchers {
			if w == nil {
				continue
			}
			for drained := false; !drained; {
				select {
				case ev := <-w.eventChan:
					step.Events = append(step.Events, c20Event{W: i, Del: tags.ents(ev.Delete), Cre: tags.ents(ev.Create), Upd: tags.ents(ev.Update)})
					if in.Watchers[i].Consumer {
						super.handleEvent(ev)
					}
				default:
					drained = true
				}
			}
		}
		step.Wents = []c20Wents{}
		for i, w := range watchers {
			if w != nil {
				step.Wents = append(step.Wents, c20Wents{W: i, Ents: tags.ents(w.Entities())})
			}
		}
		step.Log = tags.calls(c20Rec.take())
		step.Live = c20Live(super, tags)
		step.Reg = c20RegEnts(or, tags)
		obs.Steps = append(obs.Steps, step)
	}
	if in.Shutdown {
		// the real shutdown path: CloseWatcher, registry close (a mocked syncer), every business controller
		// closed through businessControllers.Range, system controllers (none registered here), close(done)
		or.configSyncer = clustertest.NewMockedSyncer()
		super.close()
		obs.Shutdown = &c20Step{Events: []c20Event{}, Wents: []c20Wents{}, Log: tags.calls(c20Rec.take()), Live: []c20Ent{}, Reg: []c20Ent{}}
	}
	return obs
}

// ---------------------------------------------------------------------------
// generator

var c20Cats = func() []int {
	out := make([]int, len(c20Kinds))
	for i, k := range c20Kinds {
		out[i] = k.cat
	}
	return out
}()

func c20DefaultWatchers() []c20Watcher {
	return []c20Watcher{
		{Cats: []int{1}, Consumer: true},
		{Cats: []int{2, 3}},
		{Cats: []int{}, All: true},
	}
}

// c20Exhaustive enumerates histories of length <= maxLen over 2 names x {absent, 2 kinds x 2 bodies}.
// kinds: kA/kB chosen per block. Returns nil when idx is out of range.
func c20Exhaustive(idx int, maxLen int, kA, kB int) []c20Item {
	const per = 25
	count := per
	for l := 1; l <= maxLen; l++ {
		if idx < count {
			items := []c20Item{}
			for s := 0; s < l; s++ {
				v := idx % per
				idx /= per
				var snap []c20Entry
				for n := 0; n < 2; n++ {
					c := v % 5
					v /= 5
					if c == 0 {
						continue
					}
					c--
					k := kA
					if c/2 == 1 {
						k = kB
					}
					snap = append(snap, c20Entry{Name: n, Kind: k, Body: c % 2})
				}
				items = append(items, c20Item{IsSnap: true, Snap: snap})
			}
			return items
		}
		idx -= count
		count *= per
	}
	return nil
}

func c20Gen(r *verifh.Rand, i int) interface{} {
	cfg := verifh.Env()
	in := c20Input{Cats: c20Cats, Watchers: c20DefaultWatchers(), Panics: []c20Panic{}}
	// exhaustive block (first worker only: seeds are seed*1000+w)
	// (quick tier only: in the thorough tier harness "regx" enumerates every history of length <= 4)
	if cfg.Seed%1000 == 0 && !cfg.Thorough() {
		maxLen := 2
		pairs := [][2]int{{0, 1}, {0, 2}, {2, 4}}
		block := 25 + 625
		if i < block*len(pairs) {
			p := pairs[i/block]
			items := c20Exhaustive(i%block, maxLen, p[0], p[1])
			in.Hist = append([]c20Item{{Attach: 0}, {Attach: 1}, {Attach: 2}}, items...)
			return in
		}
	}
	nNames := r.PickInt(2, 3, 4, 4)
	steps := 12
	if cfg.Thorough() {
		steps = 30
	}
	steps = r.Range(steps/2, steps)
	// attach points: mostly at the start
	attachAt := make([]int, len(in.Watchers))
	for w := range attachAt {
		if r.Bool(1, 4) {
			attachAt[w] = r.Range(0, steps)
		}
	}
	validKinds := []int{0, 1, 2, 3, 4, 6}
	sameCat := map[int]int{0: 1, 1: 0, 2: 3, 3: 2, 4: 4, 6: 6}
	cur := map[int]c20Entry{}
	mutate := func(n int) {
		e, ok := cur[n]
		switch x := r.Intn(20); {
		case x < 8: // unchanged
		case x < 10: // body change
			if ok {
				e.Body = (e.Body + 1 + r.Intn(2)) % 3
				cur[n] = e
			}
		case x < 12: // kind change within the category
			if ok {
				e.Kind = sameCat[e.Kind]
				e.Bad = 0
				if r.Bool(1, 2) {
					e.Body = r.Intn(3)
				}
				cur[n] = e
			}
		case x < 14: // kind change across categories
			if ok {
				e.Kind = validKinds[r.Intn(len(validKinds))]
				e.Bad = 0
				cur[n] = e
			}
		case x < 16: // disappear
			delete(cur, n)
		case x < 19: // appear / replace
			cur[n] = c20Entry{Name: n, Kind: validKinds[r.Intn(5)], Body: r.Intn(3)}
		default: // invalid entry (unregistered kind or yaml of the wrong shape)
			if r.Bool(1, 2) {
				cur[n] = c20Entry{Name: n, Kind: 5, Body: r.Intn(3)}
			} else {
				cur[n] = c20Entry{Name: n, Kind: r.Intn(5), Body: r.Intn(3), Bad: 1}
			}
		}
	}
	for s := 0; s <= steps; s++ {
		for w, a := range attachAt {
			if a == s {
				in.Hist = append(in.Hist, c20Item{Attach: w})
			}
		}
		if s == steps {
			break
		}
		switch r.Intn(10) {
		case 0: // same snapshot again
		case 1: // empty
			cur = map[int]c20Entry{}
		default:
			for n := 0; n < nNames; n++ {
				mutate(n)
			}
		}
		var snap []c20Entry
		for n := 0; n < nNames; n++ {
			if e, ok := cur[n]; ok {
				snap = append(snap, e)
			}
		}
		// map iteration order is arbitrary in Go; the list order is too
		for k := len(snap) - 1; k > 0; k-- {
			j := r.Intn(k + 1)
			snap[k], snap[j] = snap[j], snap[k]
		}
		in.Hist = append(in.Hist, c20Item{IsSnap: true, Snap: snap})
	}
	if r.Bool(1, 8) { // attach a second time (BUG: watcher existed)
		in.Hist = append(in.Hist, c20Item{Attach: r.Intn(len(in.Watchers))})
	}
	// fault sequence
	np := r.PickInt(0, 0, 1, 2, 4, 8)
	for k := 0; k < np; k++ {
		in.Panics = append(in.Panics, c20Panic{Op: r.Pick("init", "inherit", "close"), Name: r.Intn(nNames), Kind: r.Intn(5), Body: r.Intn(3)})
	}
	if r.Bool(1, 30) { // everything panics
		for _, op := range []string{"init", "inherit", "close"} {
			for n := 0; n < nNames; n++ {
				for k := 0; k < 5; k++ {
					for b := 0; b < 3; b++ {
						in.Panics = append(in.Panics, c20Panic{Op: op, Name: n, Kind: k, Body: b})
					}
				}
			}
		}
	}
	in.Shutdown = r.Bool(1, 3)
	return in
}

func TestVerifC20(t *testing.T) {
	verifh.Run(t, c20Gen, c20Exec, 0)
}

// ---------------------------------------------------------------------------
// harness "regx": exhaustive enumeration of the histories of exactly 4 snapshots (every shorter
// history is a prefix of one of them, and the judge compares step by step) over 2 names x {absent,
// 2 kinds x 2 bodies}, for the three kind pairs of c20EnumPairs, after the three watchers were attached
// (no fault injection). Only one representative per orbit of the symmetry group generated by
// exchanging the two names and exchanging the two bodies is executed (the lexicographically least
// digit string): 97 969 of the 25^4 = 390 625 histories per kind pair, 293 907 cases in all.
//
// The enumeration is independent of the number of workers: in the thorough tier worker w (= seed % 1000)
// with VERIF_N = n executes the global indices [w*n, (w+1)*n); an index beyond the enumeration, and every
// case of the quick tier, is a random member of the same set (drawn with the harness PRNG).
// The thorough tier covers the whole set iff workers * (n / workers) >= 293 907 (props/C20.json:
// n = 294 000, 4 workers); the judge tags every case with `enum:<global index>/<total>` buckets so that
// the evidence shows what was covered.

var c20EnumPairs = [][2]int{{0, 1}, {0, 2}, {2, 4}}

var (
	c20EnumOnce  sync.Once
	c20EnumTable []int32 // canonical digit strings (base 25, 4 digits), ascending
)

// c20EnumImage applies (swap names?, swap bodies?) to one snapshot digit v = c0 + 5*c1,
// c = 0 absent | 1 + 2*kindIdx + body.
func c20EnumImage(v int, swapNames, swapBodies bool) int {
	c := [2]int{v % 5, v / 5}
	if swapBodies {
		for i := range c {
			if c[i] != 0 {
				x := c[i] - 1
				c[i] = 1 + (x/2)*2 + (1 - x%2)
			}
		}
	}
	if swapNames {
		c[0], c[1] = c[1], c[0]
	}
	return c[0] + 5*c[1]
}

func c20EnumCanonical(idx int) bool {
	d := [4]int{idx % 25, idx / 25 % 25, idx / 625 % 25, idx / 15625}
	for g := 1; g < 4; g++ {
		for s := 0; s < 4; s++ { // compare the image with d, first snapshot most significant
			im := c20EnumImage(d[s], g&1 != 0, g&2 != 0)
			if im < d[s] {
				return false
			}
			if im > d[s] {
				break
			}
		}
	}
	return true
}

func c20EnumInit() {
	c20EnumOnce.Do(func() {
		for idx := 0; idx < 390625; idx++ {
			if c20EnumCanonical(idx) {
				c20EnumTable = append(c20EnumTable, int32(idx))
			}
		}
	})
}

func c20EnumHistory(idx int, kA, kB int) []c20Item {
	items := []c20Item{}
	for s := 0; s < 4; s++ {
		v := idx % 25
		idx /= 25
		var snap []c20Entry
		for n := 0; n < 2; n++ {
			c := v % 5
			v /= 5
			if c == 0 {
				continue
			}
			c--
			k := kA
			if c/2 == 1 {
				k = kB
			}
			snap = append(snap, c20Entry{Name: n, Kind: k, Body: c % 2})
		}
		items = append(items, c20Item{IsSnap: true, Snap: snap})
	}
	return items
}

func c20GenEnum(r *verifh.Rand, i int) interface{} {
	c20EnumInit()
	cfg := verifh.Env()
	per := len(c20EnumTable)
	total := per * len(c20EnumPairs)
	j := int(cfg.Seed%1000)*cfg.N + i
	if !cfg.Thorough() || j >= total { // quick tier / beyond the enumeration: a random member
		j = r.Intn(total)
	}
	p := c20EnumPairs[j/per]
	in := c20Input{Cats: c20Cats, Watchers: c20DefaultWatchers(), Panics: []c20Panic{}}
	in.Hist = append([]c20Item{{Attach: 0}, {Attach: 1}, {Attach: 2}}, c20EnumHistory(int(c20EnumTable[j%per]), p[0], p[1])...)
	in.Enum = []int{j, total}
	in.Shutdown = true
	return in
}

func TestVerifC20Enum(t *testing.T) {
	verifh.Run(t, c20GenEnum, c20Exec, 0)
}

// ---------------------------------------------------------------------------
// harness "super": MustNew + mocked cluster syncer + the real run loops

// c20Barrier is a business controller kind used to learn that the supervisor's
// run loop has handled every event queued before it.
type c20Barrier struct{ ch chan struct{} }

var c20BarrierCh = make(chan struct{}, 16)

func (o *c20Barrier) Category() ObjectCategory { return CategoryBusinessController }
func (o *c20Barrier) Kind() string             { return "VerifBarrier" }
func (o *c20Barrier) DefaultSpec() interface{} { return &c20Spec{} }
func (o *c20Barrier) Status() *Status          { return &Status{} }
func (o *c20Barrier) Init(s *Spec)             { c20BarrierCh <- struct{}{} }
func (o *c20Barrier) Inherit(s *Spec, p Object) {
	c20BarrierCh <- struct{}{}
}
func (o *c20Barrier) Close() {}

var c20BarrierOnce sync.Once

// c20Stuck counts consecutive cases in which a run loop never reached the barrier; after a few
// of them the remaining cases fail fast.
var c20Stuck int

func c20ExecSuper(raw json.RawMessage) interface{} {
	if c20Stuck >= 3 {
		return c20Obs{Steps: []c20Step{}, Err: "run loops stuck in the previous cases"}
	}
	o := c20ExecSuper1(raw)
	if ob, ok := o.(c20Obs); ok && strings.Contains(ob.Err, "run loop") {
		c20Stuck++
	} else {
		c20Stuck = 0
	}
	return o
}

func c20ExecSuper1(raw json.RawMessage) interface{} {
	c20Register()
	c20BarrierOnce.Do(func() { Register(&c20Barrier{}) })
	var in c20Input
	if err := json.Unmarshal(raw, &in); err != nil {
		return c20Obs{Err: "bad-input"}
	}
	// the kind table is the harness's: an input whose table was altered (shrinking) is rejected
	if len(in.Cats) != len(c20Kinds) {
		return c20Obs{Err: "bad-input"}
	}
	for k, e := range c20Kinds {
		if in.Cats[k] != e.cat {
			return c20Obs{Err: "bad-input"}
		}
	}
	c20SetPanics(&in)

	dir, err := os.MkdirTemp("", "verifc20")
	if err != nil {
		return c20Obs{Err: "tmpdir"}
	}
	defer os.RemoveAll(dir)
	opt := option.New()
	opt.AbsHomeDir = dir

	syncCh := make(chan map[string]string)
	syncer := clustertest.NewMockedSyncer()
	syncer.MockedSyncPrefix = func(string) (<-chan map[string]string, error) { return syncCh, nil }
	cls := clustertest.NewMockedCluster()
	layout := &cluster.Layout{}
	cls.MockedLayout = func() *cluster.Layout { return layout }
	cls.MockedGetPrefix = func(string) (map[string]string, error) { return map[string]string{}, nil }
	cls.MockedSyncer = func(time.Duration) (cluster.Syncer, error) { return syncer, nil }
	prefix := layout.ConfigObjectPrefix()

	oldGlobal := globalSuper
	super := MustNew(opt, cls)
	defer func() {
		var wg sync.WaitGroup
		wg.Add(1)
		super.Close(&wg)
		wg.Wait()
		globalSuper = oldGlobal
	}()
	or := super.objectRegistry
	c20Rec.take() // Init of the system controller kinds

	tags := &c20Tags{gen: make(map[Object]int)}
	obs := c20Obs{Steps: []c20Step{}}
	snapIdx := 0
	barrier := 0
	for _, it := range in.Hist {
		if !it.IsSnap { // the supervisor attached its watcher in MustNew
			obs.Steps = append(obs.Steps, c20Step{Events: []c20Event{}, Log: []c20ObsCall{}, Live: c20Live(super, tags), Reg: c20RegEnts(or, tags)})
			continue
		}
		cfg := c20Config(it.Snap, prefix)
		barrier++
		cfg[prefix+"zbarrier"] = fmt.Sprintf("name: zbarrier\nkind: VerifBarrier\nbody: %d\n", barrier)
		select {
		case syncCh <- cfg:
		case <-time.After(3 * time.Second):
			obs.Err = "registry run loop does not take the snapshot"
			return obs
		}
		select {
		case <-c20BarrierCh:
		case <-time.After(3 * time.Second):
			obs.Err = "supervisor run loop did not reach the barrier"
			return obs
		}
		// the barrier object is created/inherited by the same handleEvent call that
		// reconciles the snapshot; wait until that call has returned: the next event
		// can only be taken by the run loop afterwards, so push an empty marker event.
		marker := newObjectEntityWatcherEvent()
		super.watcher.eventChan <- marker
		for len(super.watcher.eventChan) > 0 {
			time.Sleep(50 * time.Microsecond)
		}
		// handleEvent(marker) is a no-op; once it was taken from the channel the
		// previous handleEvent has returned.
		tags.tagNew(or, snapIdx)
		snapIdx++
		step := c20Step{Events: []c20Event{}}
		step.Log = tags.calls(c20Rec.take())
		live := c20Live(super, tags)
		step.Live = live[:0]
		for _, e := range live {
			if e[0] >= 0 {
				step.Live = append(step.Live, e)
			}
		}
		reg := c20RegEnts(or, tags)
		step.Reg = reg[:0]
		for _, e := range reg {
			if e[0] >= 0 {
				step.Reg = append(step.Reg, e)
			}
		}
		obs.Steps = append(obs.Steps, step)
	}
	return obs
}

func c20GenSuper(r *verifh.Rand, i int) interface{} {
	in := c20Gen(r, i+1000000).(c20Input) // never the exhaustive block
	// the supervisor's own watcher is attached by MustNew before any snapshot
	in.Watchers = []c20Watcher{{Cats: []int{1}, Consumer: true, NoEvents: true}}
	in.Shutdown = false // harness "super" does not shut down through this path
	hist := []c20Item{{Attach: 0}}
	for _, it := range in.Hist {
		if it.IsSnap {
			hist = append(hist, it)
		}
	}
	in.Hist = hist
	return in
}

func TestVerifC20Super(t *testing.T) {
	verifh.Run(t, c20GenSuper, c20ExecSuper, 0)
}

// ---------------------------------------------------------------------------
// harness "superbusy" (engineer mux; seeded change C20-m5): the real run loops with a BUSY consumer.
//
// busy[i] = k > 0: while the supervisor goroutine is inside handleEvent for snapshot i (the scripted kind
// VerifBlock blocks in Init / Inherit on a gate), the harness pushes the next k snapshots; the registry applies
// them and their events queue up in the watcher channel (capacity 10) behind the one being handled; then the gate
// is opened and the supervisor works the queue off. One name is flapped inside such a batch (change or appear,
// disappear, reappear with an equal or a different spec). The steps of the items i … i+k-1 are "deferred", the step
// of item i+k carries all lifecycle calls of the batch (judge "superbusy").

type c20Block struct{}

var (
	c20BlockArmed   int32
	c20BlockEntered = make(chan struct{}, 4)
	c20BlockGate    chan struct{}
	c20BlockOnce    sync.Once
)

func c20BlockWait() {
	if atomic.CompareAndSwapInt32(&c20BlockArmed, 1, 0) {
		gate := c20BlockGate
		c20BlockEntered <- struct{}{}
		<-gate
	}
}

func (o *c20Block) Category() ObjectCategory  { return CategoryBusinessController }
func (o *c20Block) Kind() string              { return "VerifBlock" }
func (o *c20Block) DefaultSpec() interface{}  { return &c20Spec{} }
func (o *c20Block) Status() *Status           { return &Status{} }
func (o *c20Block) Init(s *Spec)              { c20BlockWait() }
func (o *c20Block) Inherit(s *Spec, p Object) { c20BlockWait() }
func (o *c20Block) Close()                    {}

// c20Barrier2: like c20Barrier, but it publishes the body it was last initialised / inherited with, so that the
// harness can wait for "the event of snapshot b has been (at least partly) handled" without counting signals
// (a consumer that merged events would produce fewer of them).
type c20Barrier2 struct{}

var c20Barrier2Seen int64

func c20Barrier2See(s *Spec) {
	if sp, ok := s.ObjectSpec().(*c20Spec); ok {
		atomic.StoreInt64(&c20Barrier2Seen, int64(sp.Body))
	}
}

func (o *c20Barrier2) Category() ObjectCategory  { return CategoryBusinessController }
func (o *c20Barrier2) Kind() string              { return "VerifBarrier2" }
func (o *c20Barrier2) DefaultSpec() interface{}  { return &c20Spec{} }
func (o *c20Barrier2) Status() *Status           { return &Status{} }
func (o *c20Barrier2) Init(s *Spec)              { c20Barrier2See(s) }
func (o *c20Barrier2) Inherit(s *Spec, p Object) { c20Barrier2See(s) }
func (o *c20Barrier2) Close()                    {}

type c20BusyInput struct {
	c20Input
	// Busy[i] = number of following snapshot items applied while the consumer is blocked in item i's event
	Busy []int `json:"busy"`
}

type c20BusyStep struct {
	c20Step
	Deferred bool `json:"deferred,omitempty"`
}

type c20BusyObs struct {
	Steps []c20BusyStep `json:"steps"`
	Err   string        `json:"error,omitempty"`
}

func c20ExecSuperBusy(raw json.RawMessage) interface{} {
	if c20Stuck >= 3 {
		return c20BusyObs{Steps: []c20BusyStep{}, Err: "run loops stuck in the previous cases"}
	}
	o := c20ExecSuperBusy1(raw)
	if strings.Contains(o.Err, "run loop") {
		c20Stuck++
	} else {
		c20Stuck = 0
	}
	return o
}

func c20ExecSuperBusy1(raw json.RawMessage) c20BusyObs {
	c20Register()
	c20BarrierOnce.Do(func() { Register(&c20Barrier{}) })
	c20BlockOnce.Do(func() { Register(&c20Block{}); Register(&c20Barrier2{}) })
	var in c20BusyInput
	if err := json.Unmarshal(raw, &in); err != nil {
		return c20BusyObs{Err: "bad-input"}
	}
	if len(in.Cats) != len(c20Kinds) {
		return c20BusyObs{Err: "bad-input"}
	}
	for k, e := range c20Kinds {
		if in.Cats[k] != e.cat {
			return c20BusyObs{Err: "bad-input"}
		}
	}
	c20SetPanics(&in.c20Input)
	// drain signals a previous (failed) case may have left behind
	atomic.StoreInt64(&c20Barrier2Seen, -1)
	for len(c20BlockEntered) > 0 {
		<-c20BlockEntered
	}
	atomic.StoreInt32(&c20BlockArmed, 0)

	dir, err := os.MkdirTemp("", "verifc20b")
	if err != nil {
		return c20BusyObs{Err: "tmpdir"}
	}
	defer os.RemoveAll(dir)
	opt := option.New()
	opt.AbsHomeDir = dir

	syncCh := make(chan map[string]string)
	syncer := clustertest.NewMockedSyncer()
	syncer.MockedSyncPrefix = func(string) (<-chan map[string]string, error) { return syncCh, nil }
	cls := clustertest.NewMockedCluster()
	layout := &cluster.Layout{}
	cls.MockedLayout = func() *cluster.Layout { return layout }
	cls.MockedGetPrefix = func(string) (map[string]string, error) { return map[string]string{}, nil }
	cls.MockedSyncer = func(time.Duration) (cluster.Syncer, error) { return syncer, nil }
	prefix := layout.ConfigObjectPrefix()

	oldGlobal := globalSuper
	super := MustNew(opt, cls)
	var gate chan struct{}
	defer func() {
		if gate != nil { // never leave the supervisor goroutine blocked
			select {
			case <-gate:
			default:
				close(gate)
			}
		}
		var wg sync.WaitGroup
		wg.Add(1)
		super.Close(&wg)
		wg.Wait()
		globalSuper = oldGlobal
	}()
	or := super.objectRegistry
	c20Rec.take()

	tags := &c20Tags{gen: make(map[Object]int)}
	obs := c20BusyObs{Steps: []c20BusyStep{}}
	snapIdx, barrier, blockBody := 0, 0, 0
	mkCfg := func(it c20Item) map[string]string {
		cfg := c20Config(it.Snap, prefix)
		barrier++
		cfg[prefix+"zbarrier"] = fmt.Sprintf("name: zbarrier\nkind: VerifBarrier2\nbody: %d\n", barrier)
		cfg[prefix+"zblock"] = fmt.Sprintf("name: zblock\nkind: VerifBlock\nbody: %d\n", blockBody)
		return cfg
	}
	push := func(cfg map[string]string) bool {
		select {
		case syncCh <- cfg:
			return true
		case <-time.After(3 * time.Second):
			return false
		}
	}
	waitQueued := func(n int) bool {
		deadline := time.Now().Add(3 * time.Second)
		for len(super.watcher.eventChan) < n {
			if time.Now().After(deadline) {
				return false
			}
			time.Sleep(50 * time.Microsecond)
		}
		return true
	}
	// the barrier object has been initialised / inherited with the body of the newest snapshot pushed
	waitBarrier := func() bool {
		deadline := time.Now().Add(3 * time.Second)
		for atomic.LoadInt64(&c20Barrier2Seen) != int64(barrier) {
			if time.Now().After(deadline) {
				return false
			}
			time.Sleep(50 * time.Microsecond)
		}
		return true
	}
	observe := func() c20Step {
		// the last handleEvent has returned once an (empty) marker event pushed behind it was taken
		marker := newObjectEntityWatcherEvent()
		super.watcher.eventChan <- marker
		for len(super.watcher.eventChan) > 0 {
			time.Sleep(50 * time.Microsecond)
		}
		step := c20Step{Events: []c20Event{}}
		step.Log = tags.calls(c20Rec.take())
		log := step.Log[:0]
		for _, c := range step.Log {
			if c[1] >= 0 {
				log = append(log, c)
			}
		}
		step.Log = log
		live := c20Live(super, tags)
		step.Live = live[:0]
		for _, e := range live {
			if e[0] >= 0 {
				step.Live = append(step.Live, e)
			}
		}
		reg := c20RegEnts(or, tags)
		step.Reg = reg[:0]
		for _, e := range reg {
			if e[0] >= 0 {
				step.Reg = append(step.Reg, e)
			}
		}
		return step
	}
	for i := 0; i < len(in.Hist); {
		it := in.Hist[i]
		if !it.IsSnap { // the supervisor attached its watcher in MustNew
			obs.Steps = append(obs.Steps, c20BusyStep{c20Step: c20Step{Events: []c20Event{}, Log: []c20ObsCall{}, Live: c20Live(super, tags), Reg: c20RegEnts(or, tags)}})
			i++
			continue
		}
		k := 0
		if i < len(in.Busy) {
			k = in.Busy[i]
		}
		if k > 8 {
			k = 8
		}
		for j := 1; j <= k; j++ { // the k following items must be snapshots
			if i+j >= len(in.Hist) || !in.Hist[i+j].IsSnap {
				k = j - 1
				break
			}
		}
		if k <= 0 {
			if !push(mkCfg(it)) {
				obs.Err = "registry run loop does not take the snapshot"
				return obs
			}
			if !waitBarrier() {
				obs.Err = "supervisor run loop did not reach the barrier"
				return obs
			}
			// (the marker inside observe() orders the tagging after the event's handling; the registry has
			// applied the snapshot before it sent the event)
			tags.tagNew(or, snapIdx)
			snapIdx++
			obs.Steps = append(obs.Steps, c20BusyStep{c20Step: observe()})
			i++
			continue
		}
		// --- a batch: block the consumer inside item i's event, apply the next k snapshots, release
		gate = make(chan struct{})
		c20BlockGate = gate
		blockBody++ // the block object changes (or appears): its Init / Inherit runs in this event
		atomic.StoreInt32(&c20BlockArmed, 1)
		if !push(mkCfg(it)) {
			obs.Err = "registry run loop does not take the snapshot"
			return obs
		}
		select {
		case <-c20BlockEntered:
		case <-time.After(3 * time.Second):
			obs.Err = "supervisor run loop did not enter the blocking object"
			return obs
		}
		tags.tagNew(or, snapIdx)
		snapIdx++
		for j := 1; j <= k; j++ {
			if !push(mkCfg(in.Hist[i+j])) {
				obs.Err = "registry run loop does not take the snapshot"
				return obs
			}
			if !waitQueued(j) {
				obs.Err = "registry run loop did not queue the event"
				return obs
			}
			tags.tagNew(or, snapIdx)
			snapIdx++
		}
		close(gate)
		if !waitBarrier() {
			obs.Err = "supervisor run loop did not reach the barrier"
			return obs
		}
		for j := 0; j < k; j++ {
			obs.Steps = append(obs.Steps, c20BusyStep{c20Step: c20Step{Events: []c20Event{}, Log: []c20ObsCall{}, Live: []c20Ent{}, Reg: []c20Ent{}}, Deferred: true})
		}
		obs.Steps = append(obs.Steps, c20BusyStep{c20Step: observe()})
		i += k + 1
	}
	return obs
}

// c20GenSuperBusy: a short sequential prefix, then one or two batches in which one name flaps.
func c20GenSuperBusy(r *verifh.Rand, i int) interface{} {
	base := c20Gen(r, i+2000000).(c20Input)
	in := c20BusyInput{c20Input: base}
	in.Watchers = []c20Watcher{{Cats: []int{1}, Consumer: true, NoEvents: true}}
	in.Shutdown = false
	in.Enum = nil
	// business controller kinds (category 1) and one kind outside the supervisor's filter
	var biz []int
	other := -1
	for k, c := range in.Cats {
		if c == 1 {
			biz = append(biz, k)
		} else if c == 3 && other < 0 {
			other = k
		}
	}
	if len(biz) == 0 {
		return in
	}
	kindA := biz[0]
	kindB := biz[len(biz)-1]
	hist := []c20Item{{Attach: 0}}
	busy := []int{0}
	// current snapshot content: name -> entry
	cur := map[int]c20Entry{}
	snap := func() c20Item {
		var es []c20Entry
		for n := 0; n < 4; n++ {
			if e, ok := cur[n]; ok {
				es = append(es, e)
			}
		}
		return c20Item{IsSnap: true, Snap: es}
	}
	emit := func(b int) {
		hist = append(hist, snap())
		busy = append(busy, b)
	}
	// sequential prefix
	for n := 0; n < 3; n++ {
		if r.Bool(2, 3) {
			cur[n] = c20Entry{Name: n, Kind: r.PickInt(kindA, kindA, kindB), Body: r.Intn(3)}
		}
	}
	emit(0)
	if r.Bool(1, 2) {
		n := r.Intn(3)
		cur[n] = c20Entry{Name: n, Kind: kindA, Body: r.Intn(3)}
		emit(0)
	}
	nb := r.PickInt(1, 1, 2)
	for b := 0; b < nb; b++ {
		x := r.Intn(3) // the flapping name
		k := r.PickInt(3, 3, 4, 5)
		// the item whose event blocks the consumer: some unrelated change (or none)
		if r.Bool(1, 2) {
			y := (x + 1) % 3
			cur[y] = c20Entry{Name: y, Kind: kindA, Body: r.Intn(3)}
		}
		emit(k)
		// step 1: x changes its spec / appears / changes kind
		old, had := cur[x]
		e1 := c20Entry{Name: x, Kind: kindA, Body: r.Intn(3)}
		if had && r.Bool(2, 3) {
			e1 = c20Entry{Name: x, Kind: old.Kind, Body: (old.Body + 1 + r.Intn(2)) % 3}
		} else if had && r.Bool(1, 2) {
			e1.Kind = kindB
		}
		cur[x] = e1
		emit(0)
		// step 2: x disappears (sometimes leaves the supervisor's category instead)
		if other >= 0 && r.Bool(1, 5) {
			cur[x] = c20Entry{Name: x, Kind: other, Body: e1.Body}
		} else {
			delete(cur, x)
		}
		emit(0)
		// step 3: x reappears: with the spec of step 1 (2/3), with another body, or with the spec it had before the batch
		switch {
		case r.Bool(2, 3):
			cur[x] = e1
		case had && r.Bool(1, 2):
			cur[x] = old
		default:
			cur[x] = c20Entry{Name: x, Kind: e1.Kind, Body: (e1.Body + 1) % 3}
		}
		emit(0)
		// further queued snapshots: anything
		for j := 3; j < k; j++ {
			n := r.Intn(4)
			switch r.Intn(3) {
			case 0:
				delete(cur, n)
			case 1:
				cur[n] = c20Entry{Name: n, Kind: r.PickInt(kindA, kindB), Body: r.Intn(3)}
			default:
				if e, ok := cur[n]; ok {
					e.Body = (e.Body + 1) % 3
					cur[n] = e
				}
			}
			emit(0)
		}
		// a sequential snapshot after the batch (later updates of a lost object would be "BUG: update not found")
		if r.Bool(2, 3) {
			if e, ok := cur[x]; ok {
				e.Body = (e.Body + 1) % 3
				cur[x] = e
			} else {
				cur[x] = c20Entry{Name: x, Kind: kindA, Body: r.Intn(3)}
			}
			emit(0)
		}
	}
	in.Hist = hist
	in.Busy = busy
	// faults on the flapped names only rarely (the scripted kinds never panic)
	if r.Bool(3, 4) {
		in.Panics = nil
	}
	return in
}

func TestVerifC20SuperBusy(t *testing.T) {
	verifh.Run(t, c20GenSuperBusy, c20ExecSuperBusy, 0)
}
