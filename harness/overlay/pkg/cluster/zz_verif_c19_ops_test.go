package cluster

// Correspondence harness `ops` for property C19: the data path below syncer.pull
// (cluster.GetRaw / Get / GetRawPrefix / GetPrefix and syncer.pull itself). It lives in its own file —
// listed only in the `ops` entry of props/C19.json — because it calls the unexported `syncer.pull`
// directly: a change of that signature then breaks the build of this harness entry only, while the
// `etcd` and `eq` entries (which enter through Sync / SyncRaw / SyncPrefix / SyncRawPrefix and
// isDataEqual / isKeyValueEqual) still build and run. Shared helpers (c19Cluster, c19Root, c19Canon,
// c19Keys) are in zz_verif_c19_test.go.

import (
	"encoding/json"
	"fmt"
	"io/ioutil"
	"os"
	"strings"
	"sync"
	"sync/atomic"
	"testing"
	"time"

	"github.com/megaease/easegress/pkg/util/verifh"
)

// ---------------------------------------------------------------------------
// the data path below syncer.pull: GetRaw / Get / GetRawPrefix / GetPrefix result mapping
// (found / not found / error). Errors are produced by a cluster handle whose request
// timeout is 1 ns (context deadline exceeded before the request leaves).

type c19Call struct {
	Fn   string `json:"fn"` // GetRaw | Get | GetRawPrefix | GetPrefix | pull | pullPrefix
	Key  string `json:"key"`
	Fail bool   `json:"fail"`
}

type c19OpsInput struct {
	Store [][2]string `json:"store"`
	Calls []c19Call   `json:"calls"`
}

type c19CallRes struct {
	Err bool        `json:"err"`
	Nil bool        `json:"nil"`
	Kvs [][2]string `json:"kvs"`
}

func c19OpsExec(raw json.RawMessage) interface{} {
	var in c19OpsInput
	if err := json.Unmarshal(raw, &in); err != nil {
		return map[string]string{"error": "bad-input"}
	}
	c := c19Cluster
	cl, err := c.getClient()
	if err != nil {
		return map[string]string{"error": "client"}
	}
	bad := &cluster{opt: c.opt, requestTimeout: time.Nanosecond, layout: c.layout, client: cl, done: make(chan struct{})}
	root := fmt.Sprintf("/verif/c19ops/%d/", atomic.AddInt64(&c19Root, 1))
	for _, kv := range in.Store {
		if err := c.Put(root+kv[0], kv[1]); err != nil {
			return map[string]string{"error": "put"}
		}
	}
	out := []c19CallRes{}
	for _, call := range in.Calls {
		h := c
		if call.Fail {
			h = bad
		}
		res := c19CallRes{Kvs: [][2]string{}}
		switch call.Fn {
		case "GetRaw":
			kv, err := h.GetRaw(root + call.Key)
			res.Err, res.Nil = err != nil, kv == nil
			if kv != nil {
				res.Kvs = append(res.Kvs, [2]string{strings.TrimPrefix(string(kv.Key), root), string(kv.Value)})
			}
		case "Get":
			v, err := h.Get(root + call.Key)
			res.Err, res.Nil = err != nil, v == nil
			if v != nil {
				res.Kvs = append(res.Kvs, [2]string{call.Key, *v})
			}
		case "GetRawPrefix":
			m, err := h.GetRawPrefix(root + call.Key)
			res.Err, res.Nil = err != nil, m == nil
			mm := map[string]string{}
			for k, kv := range m {
				if kv == nil || string(kv.Key) != k {
					mm[k] = "<bad-entry>"
				} else {
					mm[k] = string(kv.Value)
				}
			}
			res.Kvs = c19Canon(mm, root)
		case "GetPrefix":
			m, err := h.GetPrefix(root + call.Key)
			res.Err, res.Nil = err != nil, m == nil
			res.Kvs = c19Canon(m, root)
		case "pull", "pullPrefix":
			sy := &syncer{cluster: h, client: cl, pullInterval: time.Second, done: make(chan struct{})}
			m, err := sy.pull(root+call.Key, call.Fn == "pullPrefix")
			res.Err, res.Nil = err != nil, m == nil
			mm := map[string]string{}
			for k, kv := range m {
				if kv == nil || string(kv.Key) != k {
					mm[k] = "<bad-entry>"
				} else {
					mm[k] = string(kv.Value)
				}
			}
			res.Kvs = c19Canon(mm, root)
		}
		out = append(out, res)
	}
	c.DeletePrefix(root)
	return map[string]interface{}{"res": out}
}

func c19OpsGen(r *verifh.Rand, i int) interface{} {
	in := c19OpsInput{Store: [][2]string{}}
	for _, k := range c19Keys {
		if r.Bool(1, 2) {
			in.Store = append(in.Store, [2]string{k, r.Pick("1", "2", "")})
		}
	}
	for k, n := 0, r.Range(2, 8); k < n; k++ {
		in.Calls = append(in.Calls, c19Call{Fn: r.Pick("GetRaw", "Get", "GetRawPrefix", "GetPrefix", "pull", "pullPrefix"),
			Key: r.Pick("p/a", "p", "p/", "pp", "q", "zz", "p/a/x"), Fail: r.Bool(1, 3)})
	}
	return in
}

func TestVerifC19Ops(t *testing.T) {
	if verifh.Env().Out == "" {
		t.Skip("VERIF_OUT not set")
	}
	dir, err := ioutil.TempDir("", "verif-c19ops")
	if err != nil {
		t.Fatal(err)
	}
	defer os.RemoveAll(dir)
	c19Cluster = CreateClusterForTest(dir).(*cluster)
	if _, err := c19Cluster.getClient(); err != nil {
		t.Fatalf("client: %v", err)
	}
	defer func() {
		wg := &sync.WaitGroup{}
		wg.Add(1)
		c19Cluster.Close(wg)
	}()
	verifh.Run(t, c19OpsGen, c19OpsExec, 300*time.Second)
}
