package cluster

// Correspondence harnesses for property C19 (syncer). Injected with
// `go test -overlay`; nothing is written into /repo.
//
//   TestVerifC19   one embedded single-node etcd for the whole run; every case is a
//                  write history (put / delete / delete-prefix / txn) against a fresh key
//                  root, with a real Syncer attached through Sync / SyncRaw / SyncPrefix /
//                  SyncRawPrefix. Observed: the snapshots received on the channel and
//                  the final content of the store.
//   TestVerifC19Eq pure: isDataEqual / isKeyValueEqual on generated maps.

import (
	"context"
	"encoding/json"
	"fmt"
	"io/ioutil"
	"os"
	"sort"
	"strings"
	"sync"
	"sync/atomic"
	"testing"
	"time"

	"go.etcd.io/etcd/api/v3/mvccpb"
	clientv3 "go.etcd.io/etcd/client/v3"

	"github.com/megaease/easegress/pkg/util/verifh"
)

type c19Sub struct {
	Op string `json:"op"` // put | del | delp
	K  string `json:"k"`
	V  string `json:"v"`
}

type c19Write struct {
	Subs    []c19Sub `json:"subs"`
	PauseUs int      `json:"pauseUs"` // sleep before the write
}

type c19Input struct {
	Mode      string     `json:"mode"` // sync | raw | prefix | rawprefix
	Key       string     `json:"key"`  // key or prefix, relative to the case root
	Init      []c19Write `json:"init"` // applied before the syncer is created
	Writes    []c19Write `json:"writes"`
	Seq       bool       `json:"seq"`       // wait for the delivery of every change before the next write
	PullMs    int        `json:"pullMs"`    // pullInterval
	ConsumeUs int        `json:"consumeUs"` // consumer sleeps this long after every snapshot
	Fault     string     `json:"fault"`     // "" | "restart": stop the etcd server before write faultAt, keep it down for outageMs, start it again | "compact": compact the store at its current revision, then restart (the syncer's watcher resumes below the compacted revision and is cancelled by etcd with ErrCompacted)
	FaultAt   int        `json:"faultAt"`
	OutageMs  int        `json:"outageMs"` // how long the server stays down
	HoldAfter int        `json:"holdAfter"`
	HoldMs    int        `json:"holdMs"`
	Big       *c19Big    `json:"big,omitempty"` // large-prefix scenario (c19ExecBig); all other fields are ignored then
	ReqMs     int        `json:"reqMs"`         // > 0: the syncer's cluster handle uses this request timeout (so that pulls FAIL during the outage)
}

// (continued: c19Input) HoldAfter / HoldMs: slow consumer. The consumer stops reading after it has received
// HoldAfter snapshots and resumes HoldMs after the last write (lower bounds only): meanwhile the syncer
// fills the 10-slot channel and blocks in its send; once the consumer drains, the last snapshot it
// receives must be the final content, without any further write.

// c19Big: a prefix with Keys keys (more than one "page" of any paged reader), a writer that keeps
// committing ONE transaction {first key = i, last key = i} (so every content the store ever had has
// first == last), and a SyncPrefix / SyncRawPrefix syncer pulling meanwhile.
type c19Big struct {
	Mode    string `json:"mode"` // prefix | rawprefix
	Keys    int    `json:"keys"`
	PullMs  int    `json:"pullMs"`
	WriteMs int    `json:"writeMs"` // the writer runs at least this long (lower bound)
	MinTxns int    `json:"minTxns"` // … and commits at least this many transactions
}

// c19BigSnap is the compact observation of one delivered snapshot.
type c19BigSnap struct {
	Count  int    `json:"count"`  // number of keys in the snapshot
	First  string `json:"first"`  // value of the first key
	Last   string `json:"last"`   // value of the last key
	Others bool   `json:"others"` // every other key is present with its initial value "0"
}

type c19BigObs struct {
	Big       bool         `json:"big"`
	Keys      int          `json:"keys"`
	Commits   int          `json:"commits"`   // transactions 1..Commits were acknowledged, in this order
	WriteErrs int          `json:"writeErrs"` // failed transactions (may or may not have been applied)
	Snaps     []c19BigSnap `json:"snaps"`
	Converged bool         `json:"converged"`
	Stopped   bool         `json:"stopped"` // the case was cut short at the first snapshot with first != last
	SetupErr  string       `json:"setupErr,omitempty"`
	ElapsedMs int64        `json:"elapsedMs"`
}

func c19ExecBig(b c19Big) interface{} {
	c := c19Cluster
	tStart := time.Now()
	if b.Keys < 2 {
		b.Keys = 2
	}
	if b.Keys > 5000 {
		b.Keys = 5000
	}
	if b.PullMs <= 0 {
		b.PullMs = 5
	}
	obs := c19BigObs{Big: true, Keys: b.Keys, Snaps: []c19BigSnap{}}
	root := fmt.Sprintf("/verif/c19big/%d/", atomic.AddInt64(&c19Root, 1))
	prefix := root + "b/"
	name := func(i int) string { return fmt.Sprintf("%sk%05d", prefix, i) }
	first, last := name(0), name(b.Keys-1)
	defer c.DeletePrefix(root)
	zero := "0"
	for lo := 0; lo < b.Keys; lo += 400 {
		batch := map[string]*string{}
		for i := lo; i < lo+400 && i < b.Keys; i++ {
			batch[name(i)] = &zero
		}
		if err := c.PutAndDelete(batch); err != nil {
			obs.SetupErr = "setup"
			return obs
		}
	}
	sy, err := c.Syncer(time.Duration(b.PullMs) * time.Millisecond)
	if err != nil {
		obs.SetupErr = "syncer"
		return obs
	}
	var mu sync.Mutex
	var mixed int32
	push := func(count int, get func(k string) (string, bool), each func(f func(k, v string))) {
		sn := c19BigSnap{Count: count, Others: true}
		sn.First, _ = get(first)
		sn.Last, _ = get(last)
		each(func(k, v string) {
			if k != first && k != last && (v != "0" || !strings.HasPrefix(k, prefix)) {
				sn.Others = false
			}
		})
		mu.Lock()
		obs.Snaps = append(obs.Snaps, sn)
		mu.Unlock()
		if sn.First != sn.Last {
			atomic.StoreInt32(&mixed, 1)
		}
	}
	closed := make(chan struct{})
	if b.Mode == "rawprefix" {
		ch, _ := sy.SyncRawPrefix(prefix)
		go func() {
			defer close(closed)
			for kvs := range ch {
				m := kvs
				push(len(m), func(k string) (string, bool) {
					kv, ok := m[k]
					if !ok || kv == nil {
						return "<missing>", false
					}
					return string(kv.Value), true
				}, func(f func(k, v string)) {
					for k, kv := range m {
						if kv == nil || string(kv.Key) != k {
							f(k, "<bad-entry>")
						} else {
							f(k, string(kv.Value))
						}
					}
				})
			}
		}()
	} else {
		ch, _ := sy.SyncPrefix(prefix)
		go func() {
			defer close(closed)
			for kvs := range ch {
				m := kvs
				push(len(m), func(k string) (string, bool) {
					v, ok := m[k]
					if !ok {
						return "<missing>", false
					}
					return v, true
				}, func(f func(k, v string)) {
					for k, v := range m {
						f(k, v)
					}
				})
			}
		}()
	}
	count := func() int { mu.Lock(); defer mu.Unlock(); return len(obs.Snaps) }
	lastIs := func(v string) bool {
		mu.Lock()
		defer mu.Unlock()
		n := len(obs.Snaps)
		return n > 0 && obs.Snaps[n-1].First == v && obs.Snaps[n-1].Last == v
	}
	wait := func(cond func() bool, d time.Duration) bool {
		end := time.Now().Add(d)
		for !cond() {
			if time.Now().After(end) || atomic.LoadInt32(&mixed) == 1 {
				return false
			}
			time.Sleep(500 * time.Microsecond)
		}
		return true
	}
	wait(func() bool { return count() >= 1 }, 15*time.Second) // the initial snapshot (all "0")
	// the writer: one transaction per step, first and last key get the same value
	end := time.Now().Add(time.Duration(b.WriteMs) * time.Millisecond)
	hardEnd := time.Now().Add(20 * time.Second)
	for i := 1; (time.Now().Before(end) || obs.Commits < b.MinTxns) && time.Now().Before(hardEnd); i++ {
		if atomic.LoadInt32(&mixed) == 1 || obs.WriteErrs > 0 {
			break
		}
		v := fmt.Sprintf("%d", i)
		if err := c.PutAndDelete(map[string]*string{first: &v, last: &v}); err != nil {
			obs.WriteErrs++
			break
		}
		obs.Commits = i
	}
	if atomic.LoadInt32(&mixed) == 1 {
		obs.Stopped = true
	} else if obs.WriteErrs == 0 {
		want := fmt.Sprintf("%d", obs.Commits)
		obs.Converged = wait(func() bool { return lastIs(want) }, 15*time.Second)
		if atomic.LoadInt32(&mixed) == 1 {
			obs.Stopped = true
		}
	}
	sy.Close()
	select {
	case <-closed:
	case <-time.After(3 * time.Second):
	}
	obs.ElapsedMs = time.Since(tStart).Milliseconds()
	mu.Lock()
	defer mu.Unlock()
	return obs
}

type c19Obs struct {
	Snaps      [][][2]string `json:"snaps"` // each snapshot: sorted [key,value] pairs, keys relative to the root
	Final      [][2]string   `json:"final"` // content of the whole case root at the end
	Closed     bool          `json:"closed"`
	WriteErrs  int           `json:"writeErrs"`
	Late       int           `json:"late"` // snapshots that arrived after convergence was observed
	FaultDone  bool          `json:"faultDone"`
	CancelSeen bool          `json:"cancelSeen"` // compact fault: a canary watcher created right after the syncer's (same client, key, options) received Canceled with a compact revision (diagnostics / tag only)
	Skipped    string        `json:"skipped,omitempty"`
	ConvergeMs int64         `json:"convergeMs"` // diagnostics only (not judged)
	ElapsedMs  int64         `json:"elapsedMs"`  // diagnostics only (not judged)
}

var (
	c19Cluster *cluster
	c19Root    int64
)

func c19Restricted(store map[string]string, prefix bool, key string) map[string]string {
	m := map[string]string{}
	for k, v := range store {
		if (prefix && strings.HasPrefix(k, key)) || (!prefix && k == key) {
			m[k] = v
		}
	}
	return m
}

func c19ApplyLocal(store map[string]string, w c19Write) {
	for _, s := range w.Subs {
		switch s.Op {
		case "put":
			store[s.K] = s.V
		case "del":
			delete(store, s.K)
		case "delp":
			for k := range store {
				if strings.HasPrefix(k, s.K) {
					delete(store, k)
				}
			}
		}
	}
}

func c19MapEq(a, b map[string]string) bool {
	if len(a) != len(b) {
		return false
	}
	for k, v := range a {
		if w, ok := b[k]; !ok || w != v {
			return false
		}
	}
	return true
}

func c19Canon(m map[string]string, root string) [][2]string {
	out := make([][2]string, 0, len(m))
	for k, v := range m {
		out = append(out, [2]string{strings.TrimPrefix(k, root), v})
	}
	sort.Slice(out, func(i, j int) bool { return out[i][0] < out[j][0] })
	return out
}

// c19Do performs one write through the cluster's own operations.
func c19Do(c *cluster, root string, w c19Write) error {
	if len(w.Subs) == 1 {
		s := w.Subs[0]
		switch s.Op {
		case "put":
			return c.Put(root+s.K, s.V)
		case "del":
			return c.Delete(root + s.K)
		case "delp":
			return c.DeletePrefix(root + s.K)
		}
		return nil
	}
	kvs := map[string]*string{}
	for _, s := range w.Subs {
		switch s.Op {
		case "put":
			v := s.V
			kvs[root+s.K] = &v
		case "del":
			kvs[root+s.K] = nil
		}
	}
	if len(kvs) == 0 {
		return nil
	}
	return c.PutAndDelete(kvs)
}

func c19Exec(raw json.RawMessage) interface{} {
	var in c19Input
	if err := json.Unmarshal(raw, &in); err != nil {
		return map[string]string{"error": "bad-input"}
	}
	if in.Big != nil {
		return c19ExecBig(*in.Big)
	}
	c := c19Cluster
	tStart := time.Now()
	obs := c19Obs{Snaps: [][][2]string{}, Final: [][2]string{}}
	root := fmt.Sprintf("/verif/c19/%d/", atomic.AddInt64(&c19Root, 1))
	prefix := in.Mode == "prefix" || in.Mode == "rawprefix"
	if in.PullMs <= 0 {
		in.PullMs = 20
	}
	local := map[string]string{}
	for _, w := range in.Init {
		if err := c19Do(c, root, w); err != nil {
			obs.WriteErrs++
			continue
		}
		c19ApplyLocal(local, w)
	}

	sc := c
	if in.ReqMs > 0 {
		// same client, own request timeout: what a cluster configured with a short
		// cluster-request-timeout does; only the syncer's pulls go through it
		cl, cerr := c.getClient()
		if cerr != nil {
			return map[string]string{"error": "client"}
		}
		sc = &cluster{opt: c.opt, requestTimeout: time.Duration(in.ReqMs) * time.Millisecond, layout: c.layout, client: cl, done: make(chan struct{})}
	}
	sy, err := sc.Syncer(time.Duration(in.PullMs) * time.Millisecond)
	if err != nil {
		return map[string]string{"error": "syncer"}
	}
	var mu sync.Mutex
	var snaps []map[string]string
	gate := make(chan struct{})
	var gateOnce sync.Once
	openGate := func() { gateOnce.Do(func() { close(gate) }) }
	defer openGate()
	push := func(m map[string]string) {
		mu.Lock()
		snaps = append(snaps, m)
		n := len(snaps)
		mu.Unlock()
		if in.HoldMs > 0 && n == in.HoldAfter {
			<-gate // the consumer is away
		}
		if in.ConsumeUs > 0 {
			time.Sleep(time.Duration(in.ConsumeUs) * time.Microsecond)
		}
	}
	count := func() int { mu.Lock(); defer mu.Unlock(); return len(snaps) }
	lastView := func() map[string]string {
		mu.Lock()
		defer mu.Unlock()
		if len(snaps) == 0 {
			return map[string]string{}
		}
		return snaps[len(snaps)-1]
	}
	closed := make(chan struct{})
	key := root + in.Key
	switch in.Mode {
	case "sync":
		ch, _ := sy.Sync(key)
		go func() {
			defer close(closed)
			for v := range ch {
				m := map[string]string{}
				if v != nil {
					m[key] = *v
				}
				push(m)
			}
		}()
	case "raw":
		ch, _ := sy.SyncRaw(key)
		go func() {
			defer close(closed)
			for kv := range ch {
				m := map[string]string{}
				if kv != nil {
					m[string(kv.Key)] = string(kv.Value)
				}
				push(m)
			}
		}()
	case "rawprefix":
		ch, _ := sy.SyncRawPrefix(key)
		go func() {
			defer close(closed)
			for kvs := range ch {
				m := map[string]string{}
				for k, kv := range kvs {
					if kv == nil {
						m[k] = "<nil>"
					} else if k != string(kv.Key) {
						m[k] = "<key-mismatch>"
					} else {
						m[k] = string(kv.Value)
					}
				}
				push(m)
			}
		}()
	default:
		in.Mode = "prefix"
		prefix = true
		ch, _ := sy.SyncPrefix(key)
		go func() {
			defer close(closed)
			for kvs := range ch {
				m := map[string]string{}
				for k, v := range kvs {
					m[k] = v
				}
				push(m)
			}
		}()
	}

	// compact fault: a canary watcher with the options of syncer.watch, created after the syncer's
	// watcher, so it is resumed (and cancelled) under the same conditions
	var cancelSeen int32
	if in.Fault == "compact" {
		if cl, cerr := c.getClient(); cerr == nil {
			opts := make([]clientv3.OpOption, 0, 1)
			if prefix {
				opts = append(opts, clientv3.WithPrefix())
			}
			time.Sleep(300 * time.Millisecond) // let the syncer's watch get registered first
			cw := clientv3.NewWatcher(cl)
			cch := cw.Watch(context.Background(), key, opts...)
			defer cw.Close()
			go func() {
				for resp := range cch {
					if resp.Canceled && resp.CompactRevision != 0 {
						atomic.StoreInt32(&cancelSeen, 1)
					}
				}
			}()
			time.Sleep(200 * time.Millisecond)
		}
	}

	rootedLocal := func() map[string]string {
		m := map[string]string{}
		for k, v := range c19Restricted(local, prefix, in.Key) {
			m[root+k] = v
		}
		return m
	}
	waitUntil := func(cond func() bool, d time.Duration) bool {
		end := time.Now().Add(d)
		for !cond() {
			if time.Now().After(end) {
				return false
			}
			time.Sleep(200 * time.Microsecond)
		}
		return true
	}
	if in.Seq || in.Fault != "" {
		// the initial snapshot (if the restricted content is non-empty) before the first write
		// (fault cases: the outage must hit a syncer that already holds the current content)
		if len(rootedLocal()) > 0 {
			waitUntil(func() bool { return count() >= 1 }, 15*time.Second)
		} else {
			time.Sleep(2 * time.Millisecond)
		}
	}
	if in.PullMs >= 1000 {
		time.Sleep(300 * time.Millisecond) // let the watch get registered
	}
	if in.HoldMs > 0 && in.HoldAfter > 0 {
		// the consumer must be away before the writes start
		waitUntil(func() bool { return count() >= in.HoldAfter }, 5*time.Second)
	}
	for i, w := range in.Writes {
		if in.Fault == "restart" && i == in.FaultAt {
			obs.FaultDone = c19Restart(c, time.Duration(in.OutageMs)*time.Millisecond)
		}
		if in.Fault == "compact" && i == in.FaultAt {
			obs.FaultDone = c19CompactRestart(c, time.Duration(in.OutageMs)*time.Millisecond)
			// the resumed watchers are cancelled shortly after the server answers again; the wait only
			// makes the following writes meet the re-created watcher (a write that meets no watcher is
			// repaired by the ticker, which is fine too)
			waitUntil(func() bool { return atomic.LoadInt32(&cancelSeen) == 1 }, 10*time.Second)
			time.Sleep(200 * time.Millisecond)
		}
		if w.PauseUs > 0 {
			time.Sleep(time.Duration(w.PauseUs) * time.Microsecond)
		}
		before := rootedLocal()
		n0 := count()
		if err := c19Do(c, root, w); err != nil {
			obs.WriteErrs++
			continue
		}
		c19ApplyLocal(local, w)
		if in.Seq && !c19MapEq(before, rootedLocal()) {
			waitUntil(func() bool { return count() > n0 }, 15*time.Second)
		}
	}
	if in.HoldMs > 0 {
		time.Sleep(time.Duration(in.HoldMs) * time.Millisecond)
		openGate() // the consumer comes back and drains the channel
	}
	// convergence: no further writes; the view must reach the final content
	want := rootedLocal()
	t0 := time.Now()
	waitUntil(func() bool { return c19MapEq(lastView(), want) }, 15*time.Second)
	obs.ConvergeMs = time.Since(t0).Milliseconds()
	nConv := count()
	linger := 3 * time.Duration(in.PullMs) * time.Millisecond
	if linger < 25*time.Millisecond {
		linger = 25 * time.Millisecond
	}
	if linger > 60*time.Millisecond {
		linger = 60 * time.Millisecond
	}
	time.Sleep(linger)
	obs.Late = count() - nConv
	obs.CancelSeen = atomic.LoadInt32(&cancelSeen) == 1
	sy.Close()
	select {
	case <-closed:
		obs.Closed = true
	case <-time.After(3 * time.Second):
	}
	mu.Lock()
	for _, m := range snaps {
		obs.Snaps = append(obs.Snaps, c19Canon(m, root))
	}
	mu.Unlock()
	if fin, err := c.GetPrefix(root); err == nil {
		obs.Final = c19Canon(fin, root)
	} else {
		obs.Final = [][2]string{{"<error>", err.Error()}}
	}
	c.DeletePrefix(root)
	obs.ElapsedMs = time.Since(tStart).Milliseconds()
	return obs
}

// c19Restart stops and restarts the embedded etcd server (same data directory, same ports).
func c19Restart(c *cluster, outage time.Duration) bool {
	c.closeServer()
	if outage < 20*time.Millisecond {
		outage = 20 * time.Millisecond
	}
	time.Sleep(outage)
	done, timeout, err := c.startServer()
	if err != nil {
		return false
	}
	select {
	case <-done:
	case <-timeout:
		return false
	}
	// wait until the client talks to the server again
	for i := 0; i < 1200; i++ {
		if _, err := c.Get("/verif/ping"); err == nil {
			return true
		}
		time.Sleep(50 * time.Millisecond)
	}
	return false
}

// c19CompactRestart compacts the store at its current revision and restarts the server. A watcher
// that was created before at least one later write and has received no event since resumes, after
// the restart, from its creation revision, which is now below the compacted revision: etcd answers
// the resumed watch with Canceled + CompactRevision (ErrCompacted) — the `resp.Canceled` branch of
// syncer.run. (A watcher that stays connected is never cancelled by a compaction.)
func c19CompactRestart(c *cluster, outage time.Duration) bool {
	cl, err := c.getClient()
	if err != nil {
		return false
	}
	ctx, cancel := context.WithTimeout(context.Background(), 10*time.Second)
	resp, err := cl.Get(ctx, "/verif/ping")
	cancel()
	if err != nil {
		return false
	}
	ctx, cancel = context.WithTimeout(context.Background(), 10*time.Second)
	_, err = cl.Compact(ctx, resp.Header.Revision, clientv3.WithCompactPhysical())
	cancel()
	if err != nil {
		return false
	}
	return c19Restart(c, outage)
}

var c19Keys = []string{"p/a", "p/b", "p/ab", "p", "pp", "q/a", "p/a/x"}

func c19GenWrite(r *verifh.Rand, local map[string]string) c19Write {
	w := c19Write{}
	existing := func() string {
		ks := make([]string, 0, len(local))
		for k := range local {
			ks = append(ks, k)
		}
		sort.Strings(ks)
		if len(ks) == 0 {
			return c19Keys[r.Intn(len(c19Keys))]
		}
		return ks[r.Intn(len(ks))]
	}
	switch r.Intn(12) {
	case 0, 1, 2, 3: // put, fresh or changed value
		w.Subs = []c19Sub{{Op: "put", K: c19Keys[r.Intn(len(c19Keys))], V: r.Pick("1", "2", "3", "")}}
	case 4: // same-value put
		k := existing()
		w.Subs = []c19Sub{{Op: "put", K: k, V: local[k]}}
	case 5, 6: // delete an existing key
		w.Subs = []c19Sub{{Op: "del", K: existing()}}
	case 7: // delete a key that may not exist
		w.Subs = []c19Sub{{Op: "del", K: c19Keys[r.Intn(len(c19Keys))]}}
	case 8: // delete by prefix
		w.Subs = []c19Sub{{Op: "delp", K: r.Pick("p/", "p", "q", "p/a")}}
	default: // transaction on distinct keys
		n := r.Range(2, 3)
		perm := r.Intn(len(c19Keys))
		for j := 0; j < n; j++ {
			k := c19Keys[(perm+j*2)%len(c19Keys)]
			dup := false
			for _, s := range w.Subs {
				if s.K == k {
					dup = true
				}
			}
			if dup {
				continue
			}
			if r.Bool(2, 3) {
				w.Subs = append(w.Subs, c19Sub{Op: "put", K: k, V: r.Pick("1", "2", "")})
			} else {
				w.Subs = append(w.Subs, c19Sub{Op: "del", K: k})
			}
		}
	}
	return w
}

// c19GenOutage: a single-key (or prefix) syncer on an EXISTING key while the server is down for
// longer than the syncer's request timeout: its pulls fail during the outage.
func c19GenOutage(r *verifh.Rand) interface{} {
	in := c19Input{Mode: r.Pick("sync", "raw", "sync", "raw", "prefix", "rawprefix"), PullMs: r.PickInt(20, 50), ReqMs: r.PickInt(200, 300)}
	in.Key = "p/a"
	if in.Mode == "prefix" || in.Mode == "rawprefix" {
		in.Key = "p/"
	}
	in.Init = []c19Write{{Subs: []c19Sub{{Op: "put", K: "p/a", V: "1"}}}}
	vals := []string{"2", "3", "1", "", "2"}
	for k, n := 0, r.Range(1, 4); k < n; k++ {
		w := c19Write{Subs: []c19Sub{{Op: "put", K: r.Pick("p/a", "p/a", "q/a"), V: vals[r.Intn(len(vals))]}}}
		in.Writes = append(in.Writes, w)
	}
	// the write after the outage may leave the value unchanged: nothing may be delivered then
	in.Fault = "restart"
	in.FaultAt = r.Intn(len(in.Writes))
	in.OutageMs = in.ReqMs*3 + r.Range(0, 300)
	return in
}

// c19GenCompact: writes outside the watched key / prefix (the watcher receives nothing, so it would
// resume from its creation revision), then compaction + restart, then writes inside.
func c19GenCompact(r *verifh.Rand) interface{} {
	in := c19Input{Mode: r.Pick("sync", "raw", "prefix", "rawprefix"), PullMs: r.PickInt(20, 1000, 1000, 10000)}
	in.Key = "p/a"
	if in.Mode == "prefix" || in.Mode == "rawprefix" {
		in.Key = "p/"
	}
	if r.Bool(2, 3) {
		in.Init = []c19Write{{Subs: []c19Sub{{Op: "put", K: "p/a", V: "1"}}}}
	}
	vals := []string{"2", "3", "1", ""}
	for k, n := 0, r.Range(3, 5); k < n; k++ {
		in.Writes = append(in.Writes, c19Write{Subs: []c19Sub{{Op: "put", K: r.Pick("q/a", "pp"), V: vals[r.Intn(len(vals))]}}})
	}
	in.Fault = "compact"
	in.FaultAt = len(in.Writes)
	in.OutageMs = r.PickInt(20, 50, 200)
	local := map[string]string{"p/a": "1"}
	for k, n := 0, r.Range(1, 6); k < n; k++ {
		w := c19GenWrite(r, local)
		w.PauseUs = r.PickInt(0, 0, 500, 3000)
		c19ApplyLocal(local, w)
		in.Writes = append(in.Writes, w)
	}
	return in
}

// c19GenHold: a consumer that is away while more distinct states are produced than the channel
// buffers (10), for several pull intervals beyond the last write; then it comes back.
func c19GenHold(r *verifh.Rand) interface{} {
	in := c19Input{Mode: r.Pick("sync", "raw", "prefix", "rawprefix"), PullMs: r.PickInt(10, 20, 20)}
	in.Key = "p/a"
	if in.Mode == "prefix" || in.Mode == "rawprefix" {
		in.Key = "p/"
	}
	in.Init = []c19Write{{Subs: []c19Sub{{Op: "put", K: "p/a", V: "0"}}}}
	for k, n := 1, r.Range(14, 20); k <= n; k++ {
		key := "p/a"
		if in.Key == "p/" && r.Bool(1, 4) {
			key = "p/b"
		}
		in.Writes = append(in.Writes, c19Write{Subs: []c19Sub{{Op: "put", K: key, V: fmt.Sprintf("v%d", k)}}, PauseUs: r.PickInt(8000, 12000, 15000)})
	}
	in.HoldAfter = 1
	in.HoldMs = 8*in.PullMs + r.PickInt(100, 200)
	return in
}

// c19GenAtomic: a prefix syncer and ATOMIC writes that touch several keys under the prefix (PutAndDelete
// of 2–3 keys, DeletePrefix over the existing keys), mostly delivered by the watch (long pullInterval):
// the events of one atomic write share a revision and arrive in one watch response, so a syncer that
// emitted a snapshot per event would deliver contents the store never had.
func c19GenAtomic(r *verifh.Rand) interface{} {
	in := c19Input{Mode: r.Pick("prefix", "rawprefix"), Key: "p/", PullMs: r.PickInt(1000, 3000, 10000, 20), Seq: r.Bool(1, 2)}
	under := []string{"p/a", "p/b", "p/ab", "p/a/x"}
	local := map[string]string{}
	for k, n := 0, r.Range(0, 3); k < n; k++ {
		w := c19Write{Subs: []c19Sub{{Op: "put", K: under[r.Intn(len(under))], V: r.Pick("1", "2")}}}
		c19ApplyLocal(local, w)
		in.Init = append(in.Init, w)
	}
	for k, n := 0, r.Range(1, 5); k < n; k++ {
		w := c19Write{PauseUs: r.PickInt(0, 0, 1000, 5000)}
		if r.Bool(1, 4) && len(local) >= 2 {
			w.Subs = []c19Sub{{Op: "delp", K: "p/"}}
		} else {
			perm := r.Intn(len(under))
			for j, m := 0, r.Range(2, 3); j < m; j++ {
				key := under[(perm+j)%len(under)]
				if _, ok := local[key]; ok && r.Bool(1, 3) {
					w.Subs = append(w.Subs, c19Sub{Op: "del", K: key})
				} else {
					w.Subs = append(w.Subs, c19Sub{Op: "put", K: key, V: r.Pick("1", "2", "3")})
				}
			}
		}
		c19ApplyLocal(local, w)
		in.Writes = append(in.Writes, w)
	}
	return in
}

func c19Gen(r *verifh.Rand, i int) interface{} {
	in := c19Input{}
	in.Mode = r.Pick("prefix", "prefix", "rawprefix", "sync", "raw")
	if in.Mode == "prefix" || in.Mode == "rawprefix" {
		in.Key = r.Pick("p/", "p/", "p", "p/a", "q")
	} else {
		in.Key = r.Pick("p/a", "p/a", "p", "p/b")
	}
	in.PullMs = r.PickInt(5, 5, 10, 20)
	if r.Bool(1, 8) {
		// watch-driven: the ticker fires only every 10 s, changes normally arrive through
		// watch events (the harness still waits longer than one ticker period, so that an
		// event missed before the watch was registered cannot raise a false alarm; a late
		// convergence is only tagged)
		in.PullMs = 10000
	}
	in.Seq = r.Bool(1, 3)
	if r.Bool(1, 2) {
		in.ConsumeUs = r.PickInt(100, 1000, 5000, 20000)
	}
	local := map[string]string{}
	for k, n := 0, r.PickInt(0, 0, 1, 2, 4); k < n; k++ {
		w := c19GenWrite(r, local)
		c19ApplyLocal(local, w)
		in.Init = append(in.Init, w)
	}
	n := r.Range(1, 30)
	if r.Bool(1, 10) {
		n = 0
	}
	burst := r.Bool(1, 2)
	for k := 0; k < n; k++ {
		w := c19GenWrite(r, local)
		if !burst || r.Bool(1, 6) {
			w.PauseUs = r.PickInt(0, 100, 200, 500, 1000, 3000, (in.PullMs%1000)*1500)
		}
		c19ApplyLocal(local, w)
		in.Writes = append(in.Writes, w)
		if r.Bool(1, 8) && len(w.Subs) == 1 && w.Subs[0].Op == "del" { // delete-then-recreate
			w2 := c19Write{Subs: []c19Sub{{Op: "put", K: w.Subs[0].K, V: r.Pick("1", "2")}}}
			c19ApplyLocal(local, w2)
			in.Writes = append(in.Writes, w2)
		}
	}
	if verifh.Env().Thorough() && r.Bool(1, 40) && len(in.Writes) > 0 {
		in.Fault = "restart"
		in.FaultAt = r.Intn(len(in.Writes))
		in.Seq = false
	}
	den := 110
	if verifh.Env().Thorough() {
		den = 40
	}
	if r.Bool(1, den) {
		return c19GenOutage(r)
	}
	if r.Bool(1, den) {
		return c19GenCompact(r)
	}
	if r.Bool(1, 20) {
		return c19GenHold(r)
	}
	if r.Bool(1, 20) {
		return c19GenAtomic(r)
	}
	if verifh.Env().Thorough() && r.Bool(1, 150) {
		return c19Input{Big: &c19Big{Mode: r.Pick("prefix", "rawprefix"), Keys: r.PickInt(600, 1100, 1100, 1600), PullMs: r.PickInt(2, 5, 10),
			WriteMs: r.PickInt(300, 600, 1000), MinTxns: r.PickInt(30, 60)}}
	}
	return in
}

func TestVerifC19(t *testing.T) {
	if verifh.Env().Out == "" {
		t.Skip("VERIF_OUT not set")
	}
	dir, err := ioutil.TempDir("", "verif-c19")
	if err != nil {
		t.Fatal(err)
	}
	defer os.RemoveAll(dir)
	c19Cluster = CreateClusterForTest(dir).(*cluster)
	if _, err := c19Cluster.getClient(); err != nil {
		t.Fatalf("client: %v", err)
	}
	defer func() {
		wg := &sync.WaitGroup{}
		wg.Add(1)
		c19Cluster.Close(wg)
	}()
	verifh.Run(t, c19Gen, c19Exec, 600*time.Second)
}

// ---------------------------------------------------------------------------
// pure harness: isDataEqual / isKeyValueEqual

type c19Entry struct {
	K   string `json:"k"`   // map key
	Nil bool   `json:"nil"` // nil *KeyValue
	KK  string `json:"kk"`  // kv.Key
	KV  string `json:"kv"`  // kv.Value
}

type c19EqInput struct {
	A []c19Entry `json:"a"`
	B []c19Entry `json:"b"`
}

type c19EqObs struct {
	Eq   bool   `json:"eq"`
	Rev  bool   `json:"rev"`  // isDataEqual(b, a)
	Self bool   `json:"self"` // isDataEqual(a, a)
	KVEq []bool `json:"kveq"` // isKeyValueEqual(a[i], b[i]) position-wise
	LenA int    `json:"lenA"` // sizes of the Go maps actually built (duplicates collapse)
	LenB int    `json:"lenB"`
}

func c19Build(es []c19Entry) (map[string]*mvccpb.KeyValue, []*mvccpb.KeyValue) {
	m := map[string]*mvccpb.KeyValue{}
	var l []*mvccpb.KeyValue
	for _, e := range es {
		var kv *mvccpb.KeyValue
		if !e.Nil {
			kv = &mvccpb.KeyValue{Key: []byte(e.KK), Value: []byte(e.KV), ModRevision: int64(len(l) + 1), Version: 7}
		}
		m[e.K] = kv
		l = append(l, kv)
	}
	return m, l
}

func c19EqExec(raw json.RawMessage) interface{} {
	var in c19EqInput
	if err := json.Unmarshal(raw, &in); err != nil {
		return map[string]string{"error": "bad-input"}
	}
	a, la := c19Build(in.A)
	b, lb := c19Build(in.B)
	o := c19EqObs{Eq: isDataEqual(a, b), Rev: isDataEqual(b, a), Self: isDataEqual(a, a), LenA: len(a), LenB: len(b), KVEq: []bool{}}
	for i := 0; i < len(la) && i < len(lb); i++ {
		o.KVEq = append(o.KVEq, isKeyValueEqual(la[i], lb[i]))
	}
	return o
}

func c19EqGen(r *verifh.Rand, i int) interface{} {
	keys := []string{"a", "b", "ab", "", "c"}
	vals := []string{"", "1", "2", "1 "}
	mk := func(n int) []c19Entry {
		var es []c19Entry
		perm := r.Intn(len(keys))
		for j := 0; j < n; j++ {
			k := keys[(perm+j)%len(keys)]
			e := c19Entry{K: k, KK: k, KV: vals[r.Intn(len(vals))]}
			if r.Bool(1, 12) {
				e.Nil = true
			}
			if r.Bool(1, 15) {
				e.KK = keys[r.Intn(len(keys))]
			}
			es = append(es, e)
		}
		return es
	}
	in := c19EqInput{}
	in.A = mk(r.Range(0, 5))
	switch r.Intn(5) {
	case 0: // identical
		in.B = append([]c19Entry(nil), in.A...)
	case 1: // permuted
		in.B = append([]c19Entry(nil), in.A...)
		for j := len(in.B) - 1; j > 0; j-- {
			k := r.Intn(j + 1)
			in.B[j], in.B[k] = in.B[k], in.B[j]
		}
	case 2: // one entry changed
		in.B = append([]c19Entry(nil), in.A...)
		if len(in.B) > 0 {
			j := r.Intn(len(in.B))
			switch r.Intn(4) {
			case 0:
				in.B[j].KV = vals[r.Intn(len(vals))]
			case 1:
				in.B[j].Nil = !in.B[j].Nil
			case 2:
				in.B[j].K = keys[r.Intn(len(keys))]
				in.B[j].KK = in.B[j].K
			default:
				in.B = append(in.B[:j], in.B[j+1:]...)
			}
		}
	default:
		in.B = mk(r.Range(0, 5))
	}
	return in
}

func TestVerifC19Eq(t *testing.T) {
	verifh.Run(t, c19EqGen, c19EqExec, 0)
}
