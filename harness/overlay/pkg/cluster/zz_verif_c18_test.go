package cluster

// Correspondence harness for property C18, mutex part. Injected with `go test -overlay`.
//
// One embedded single-node etcd (primary member) plus secondary members (own lease =>
// own session) for the whole run. A case: goroutines spread over the members contend
// for one lock name through cluster.Mutex (ONE mutex object per member, as api.Server
// does) with generated hold times and a short lock timeout. Observed: the order of
// acquired / releasing / failed events (one global atomic counter), the largest value
// of a shared "inside" counter, a final Lock/Unlock probe on every member and the keys
// left under the lock prefix.

import (
	"encoding/json"
	"fmt"
	"io/ioutil"
	"os"
	"sort"
	"sync"
	"sync/atomic"
	"testing"
	"time"

	"github.com/phayes/freeport"

	"github.com/megaease/easegress/pkg/env"
	"github.com/megaease/easegress/pkg/option"
	"github.com/megaease/easegress/pkg/util/verifh"
)

type c18Attempt struct {
	HoldUs int `json:"holdUs"` // time spent inside the critical section
	GapUs  int `json:"gapUs"`  // pause before the attempt
}

type c18G struct {
	Member   int          `json:"member"`
	Obj      int          `json:"obj"` // 0: the member's single mutex object; >0 only in the negative configuration
	Attempts []c18Attempt `json:"attempts"`
}

type c18Input struct {
	Members   int    `json:"members"`
	TimeoutMs int    `json:"timeoutMs"` // mutex timeout (cluster request timeout) for this case
	Gs        []c18G `json:"gs"`
	// negative configuration: a member uses several mutex objects for the same name
	// (what the model's hypothesis excludes); only reported, never judged.
	MultiObj bool `json:"multiObj"`
}

type c18Ev struct {
	Seq  int64  `json:"seq"`
	G    int    `json:"g"`
	Kind string `json:"kind"` // acquired | releasing | failed
}

type c18Obs struct {
	Events     []c18Ev `json:"events"`
	MaxInside  int32   `json:"maxInside"`
	Probe      []bool  `json:"probe"`      // final Lock+Unlock per member succeeded
	Leftover   int     `json:"leftover"`   // keys left under the lock prefix at the end
	Stale      int     `json:"stale"`      // keys under the lock prefix when every goroutine is done, before the probe
	UnlockErrs int     `json:"unlockErrs"` // Unlock returned an error (etcd trouble; case inconclusive)
	Members    int     `json:"members"`
}

var (
	c18Members []*cluster
	c18Case    int64
)

func c18Secondary(primary *cluster, dir string, i int) *cluster {
	ports, err := freeport.GetFreePorts(1)
	check(err)
	opt := option.New()
	opt.Name = fmt.Sprintf("verif-secondary-%d", i)
	opt.ClusterName = primary.opt.ClusterName
	opt.ClusterRole = "secondary"
	opt.ClusterRequestTimeout = "10s"
	opt.Cluster.PrimaryListenPeerURLs = primary.opt.Cluster.InitialAdvertisePeerURLs
	opt.APIAddr = fmt.Sprintf("localhost:%d", ports[0])
	opt.HomeDir = fmt.Sprintf("%s/sec-%d", dir, i)
	_, err = opt.Parse()
	check(err)
	env.InitServerDir(opt)
	c, err := New(opt)
	check(err)
	return c.(*cluster)
}

func c18Exec(raw json.RawMessage) interface{} {
	var in c18Input
	if err := json.Unmarshal(raw, &in); err != nil {
		return map[string]string{"error": "bad-input"}
	}
	if in.Members < 1 {
		in.Members = 1
	}
	if in.Members > len(c18Members) {
		in.Members = len(c18Members)
	}
	if in.TimeoutMs <= 0 {
		in.TimeoutMs = 100
	}
	name := fmt.Sprintf("/verif/c18/lock-%d", atomic.AddInt64(&c18Case, 1))
	timeout := time.Duration(in.TimeoutMs) * time.Millisecond
	// mutex objects: objs[member][obj]
	objs := make([]map[int]*mutex, in.Members)
	for m := range objs {
		objs[m] = map[int]*mutex{}
	}
	getObj := func(m, o int) (*mutex, error) {
		if !in.MultiObj {
			o = 0
		}
		if mu, ok := objs[m][o]; ok {
			return mu, nil
		}
		x, err := c18Members[m].Mutex(name)
		if err != nil {
			return nil, err
		}
		mu := x.(*mutex)
		mu.timeout = timeout
		objs[m][o] = mu
		return mu, nil
	}
	for _, g := range in.Gs {
		m := g.Member % in.Members
		if m < 0 {
			m = 0
		}
		if _, err := getObj(m, g.Obj); err != nil {
			return map[string]string{"error": "mutex: " + err.Error()}
		}
	}
	var seq int64
	var inside, maxInside int32
	var unlockErrs int32
	var mu sync.Mutex
	var events []c18Ev
	rec := func(g int, kind string) {
		mu.Lock()
		events = append(events, c18Ev{Seq: atomic.AddInt64(&seq, 1), G: g, Kind: kind})
		mu.Unlock()
	}
	var wg sync.WaitGroup
	for gi, g := range in.Gs {
		m := g.Member % in.Members
		if m < 0 {
			m = 0
		}
		lock, _ := getObj(m, g.Obj)
		wg.Add(1)
		go func(gi int, g c18G, lock *mutex) {
			defer wg.Done()
			for _, a := range g.Attempts {
				if a.GapUs > 0 {
					time.Sleep(time.Duration(a.GapUs) * time.Microsecond)
				}
				if err := lock.Lock(); err != nil {
					rec(gi, "failed")
					continue
				}
				n := atomic.AddInt32(&inside, 1)
				for {
					old := atomic.LoadInt32(&maxInside)
					if n <= old || atomic.CompareAndSwapInt32(&maxInside, old, n) {
						break
					}
				}
				rec(gi, "acquired")
				if a.HoldUs > 0 {
					time.Sleep(time.Duration(a.HoldUs) * time.Microsecond)
				}
				rec(gi, "releasing")
				atomic.AddInt32(&inside, -1)
				if err := lock.Unlock(); err != nil {
					atomic.AddInt32(&unlockErrs, 1)
				}
			}
		}(gi, g, lock)
	}
	wg.Wait()
	obs := c18Obs{Events: events, MaxInside: maxInside, UnlockErrs: int(unlockErrs), Members: in.Members}
	sort.Slice(obs.Events, func(i, j int) bool { return obs.Events[i].Seq < obs.Events[j].Seq })
	if obs.Events == nil {
		obs.Events = []c18Ev{}
	}
	if kvs, err := c18Members[0].GetPrefix(name + "/"); err == nil {
		obs.Stale = len(kvs)
	} else {
		obs.Stale = -1
	}
	// the lock must be free now: every member can take and release it
	for m := 0; m < in.Members; m++ {
		lock, err := getObj(m, 0)
		ok := false
		if err == nil {
			lock.timeout = 30 * time.Second
			if err := lock.Lock(); err == nil {
				ok = lock.Unlock() == nil
			}
		}
		obs.Probe = append(obs.Probe, ok)
	}
	if kvs, err := c18Members[0].GetPrefix(name + "/"); err == nil {
		obs.Leftover = len(kvs)
	} else {
		obs.Leftover = -1
	}
	c18Members[0].DeletePrefix(name + "/")
	return obs
}

// c18GenStress: three members, timeouts of the order of one etcd round trip, many goroutines —
// aims the deadline at the first (key-creating) request of the etcd lock.
func c18GenStress(r *verifh.Rand) interface{} {
	in := c18Input{Members: 3, TimeoutMs: r.PickInt(8, 15, 15, 30)}
	for g, ng := 0, r.Range(3, 7); g < ng; g++ {
		x := c18G{Member: r.Intn(3)}
		for a, na := 0, r.Range(2, 5); a < na; a++ {
			x.Attempts = append(x.Attempts, c18Attempt{HoldUs: r.PickInt(0, 200, 3000, 9000), GapUs: r.Range(0, 2000)})
		}
		in.Gs = append(in.Gs, x)
	}
	return in
}

func c18Gen(r *verifh.Rand, i int) interface{} {
	if r.Bool(1, 4) {
		return c18GenStress(r)
	}
	in := c18Input{}
	in.Members = r.PickInt(1, 2, 2, 3, 3)
	in.TimeoutMs = r.PickInt(15, 30, 60, 150, 2000)
	ng := r.Range(2, 7)
	if r.Bool(1, 25) {
		in.MultiObj = true
	}
	for g := 0; g < ng; g++ {
		x := c18G{Member: r.Intn(in.Members)}
		if in.MultiObj {
			x.Obj = r.Intn(2)
		}
		na := r.Range(1, 5)
		for a := 0; a < na; a++ {
			at := c18Attempt{}
			switch r.Intn(5) {
			case 0:
				at.HoldUs = 0
			case 1:
				at.HoldUs = r.Range(0, 500)
			case 2:
				at.HoldUs = r.Range(500, 5000)
			default:
				at.HoldUs = r.Range(0, in.TimeoutMs*600) // around the timeout once a few queue up
				if at.HoldUs > 40000 {
					at.HoldUs = 40000
				}
			}
			if r.Bool(1, 2) {
				at.GapUs = r.Range(0, 3000)
			}
			x.Attempts = append(x.Attempts, at)
		}
		in.Gs = append(in.Gs, x)
	}
	return in
}

func TestVerifC18Mutex(t *testing.T) {
	if verifh.Env().Out == "" {
		t.Skip("VERIF_OUT not set")
	}
	dir, err := ioutil.TempDir("", "verif-c18")
	if err != nil {
		t.Fatal(err)
	}
	defer os.RemoveAll(dir)
	primary := CreateClusterForTest(dir).(*cluster)
	if _, err := primary.getClient(); err != nil {
		t.Fatalf("client: %v", err)
	}
	c18Members = []*cluster{primary}
	for i := 1; i <= 2; i++ {
		c18Members = append(c18Members, c18Secondary(primary, dir, i))
	}
	defer func() {
		for i := len(c18Members) - 1; i >= 0; i-- {
			wg := &sync.WaitGroup{}
			wg.Add(1)
			c18Members[i].Close(wg)
		}
	}()
	verifh.Run(t, c18Gen, c18Exec, 180*time.Second)
}
