package httpprot

// Correspondence harness for property C07, pure level (injected with
// `go test -overlay`): drives the real Request.FetchPayload and
// Response.FetchPayload with body readers of chosen declared / actual sizes.

import (
	"encoding/json"
	"io"
	"math"
	"net/http"
	"testing"

	"github.com/megaease/easegress/pkg/util/verifh"
)

type c07fInput struct {
	Dir      string `json:"dir"`      // "req" | "resp"
	Limit    int64  `json:"limit"`    // argument of FetchPayload
	Declared int64  `json:"declared"` // ContentLength (-1 unknown)
	Actual   int    `json:"actual"`   // bytes the reader delivers before io.EOF
	Step     int    `json:"step"`     // max bytes per Read call
	Head     bool   `json:"head"`     // resp only: reply to a HEAD request
}

type c07fObs struct {
	Outcome  string `json:"outcome"` // stream | ok | tooLarge | shortRead | other
	N        int    `json:"n"`       // buffered payload length
	Consumed int    `json:"consumed"`
	Content  bool   `json:"content"` // buffered bytes equal the first N source bytes
	Default  int64  `json:"default"` // DefaultMaxPayloadSize as compiled
}

type c07fReader struct {
	left, step, consumed int
}

func c07fByte(i int) byte { return byte(i*31 + i/251) }

func (r *c07fReader) Read(p []byte) (int, error) {
	if r.left == 0 {
		return 0, io.EOF
	}
	n := len(p)
	if n > r.step {
		n = r.step
	}
	if n > r.left {
		n = r.left
	}
	for i := 0; i < n; i++ {
		p[i] = c07fByte(r.consumed + i)
	}
	r.left -= n
	r.consumed += n
	return n, nil
}

func (r *c07fReader) Close() error { return nil }

func c07fGen(r *verifh.Rand, i int) interface{} {
	in := c07fInput{Dir: r.Pick("req", "resp")}
	lim := r.PickInt(1, 2, 5, 10, 64, 1000, 4096, 65536)
	switch r.Intn(8) {
	case 0:
		in.Limit = -1
	case 1:
		in.Limit = int64(-r.Range(2, 100))
	case 2:
		in.Limit = 0
		lim = DefaultMaxPayloadSize
		if !r.Bool(1, 8) { // the 4 MiB default is exercised, but not on every such case
			in.Limit = int64(lim)
		}
	default:
		in.Limit = int64(lim)
	}
	// the int64 boundary: a limit of MaxInt64 / MaxInt64-1 with ordinary body sizes (any `limit + 1` would wrap)
	if r.Bool(1, 12) {
		in.Limit = math.MaxInt64 - int64(r.PickInt(0, 0, 1))
		lim = r.PickInt(1, 100, 5000)
	}
	size := func() int {
		switch r.Intn(9) {
		case 0:
			return 0
		case 1:
			return 1
		case 2:
			return lim - 1
		case 3, 4:
			return lim
		case 5, 6:
			return lim + 1
		case 7:
			if lim > 1<<20 {
				return lim + 4096
			}
			return 8 * lim
		default:
			return r.Range(0, 2*lim+2)
		}
	}
	in.Actual = size()
	switch r.Intn(6) {
	case 0, 1: // chunked / unknown length
		in.Declared = -1
	case 2: // lying: announces more than it delivers
		in.Declared = int64(in.Actual + r.PickInt(1, 2, lim))
	case 3: // lying: announces fewer (net/http would cut the body; the raw reader has more)
		in.Declared = int64(r.Range(0, in.Actual))
	case 4: // declared independent of actual, around the limit
		in.Declared = int64(size())
	default:
		in.Declared = int64(in.Actual)
	}
	in.Step = r.PickInt(1, 3, 512, 4096, 1<<20)
	if in.Actual > 1<<16 && in.Step < 512 {
		in.Step = 4096
	}
	if in.Dir == "resp" && r.Bool(1, 6) {
		in.Head = true
		in.Actual = 0
		if in.Declared < 0 {
			in.Declared = int64(size())
		}
	}
	return in
}

func c07fExec(raw json.RawMessage) interface{} {
	var in c07fInput
	if err := json.Unmarshal(raw, &in); err != nil {
		return map[string]string{"error": "bad-input"}
	}
	if in.Actual < 0 || in.Actual > 64<<20 || in.Declared > 64<<20 {
		return map[string]string{"error": "bad-input"}
	}
	if in.Step <= 0 {
		in.Step = 4096
	}
	src := &c07fReader{left: in.Actual, step: in.Step}
	obs := &c07fObs{Default: DefaultMaxPayloadSize}
	var err error
	var isStream bool
	var payload []byte
	if in.Dir == "resp" {
		stdr := &http.Response{StatusCode: 200, Header: http.Header{}, ContentLength: in.Declared, Body: src}
		method := http.MethodGet
		if in.Head {
			method = http.MethodHead
		}
		stdr.Request, _ = http.NewRequest(method, "http://backend/", nil)
		resp, _ := NewResponse(stdr)
		err = resp.FetchPayload(in.Limit)
		if isStream = resp.IsStream(); !isStream {
			payload = resp.RawPayload()
		}
	} else {
		stdr, _ := http.NewRequest(http.MethodPost, "http://front/", nil)
		stdr.ContentLength = in.Declared
		stdr.Body = src
		req, _ := NewRequest(stdr)
		err = req.FetchPayload(in.Limit)
		if isStream = req.IsStream(); !isStream {
			payload = req.RawPayload()
		}
	}
	obs.Consumed = src.consumed
	switch {
	case err == ErrRequestEntityTooLarge || err == ErrResponseEntityTooLarge:
		obs.Outcome = "tooLarge"
	case err == io.ErrUnexpectedEOF:
		obs.Outcome = "shortRead"
	case err != nil:
		obs.Outcome = "other"
	case isStream:
		obs.Outcome = "stream"
	default:
		obs.Outcome = "ok"
		obs.N = len(payload)
		obs.Content = true
		for i, b := range payload {
			if b != c07fByte(i) {
				obs.Content = false
				break
			}
		}
	}
	return obs
}

func TestVerifC07Fetch(t *testing.T) {
	verifh.Run(t, c07fGen, c07fExec, 0)
}
