package globalfilter

// Correspondence harness for property C02, GlobalFilter part. Injected with
// `go test -overlay`. Enters through globalfilter.Spec.Validate,
// GlobalFilter.Init (supervisor.NewSpec + reload) and GlobalFilter.Handle; the
// main pipeline is built through supervisor.NewSpec + Pipeline.Init.

import (
	"encoding/json"
	"testing"

	"github.com/megaease/easegress/pkg/context"
	"github.com/megaease/easegress/pkg/logger"
	"github.com/megaease/easegress/pkg/object/pipeline"
	"github.com/megaease/easegress/pkg/supervisor"
	"github.com/megaease/easegress/pkg/tracing"
	"github.com/megaease/easegress/pkg/util/verifc02"
	"github.com/megaease/easegress/pkg/util/verifh"
	"gopkg.in/yaml.v2"
)

func c02PSpec(p *verifc02.Part) pipeline.Spec {
	s := pipeline.Spec{}
	if p == nil {
		return s
	}
	s.Filters = verifc02.FilterMaps(p)
	for _, n := range p.Flow {
		s.Flow = append(s.Flow, pipeline.FlowNode{FilterName: n.F, FilterAlias: n.A, Namespace: n.Ns, JumpIf: verifc02.JumpMap(n.J)})
	}
	return s
}

func c02Part(p *verifc02.Part) map[string]interface{} {
	m := map[string]interface{}{"filters": verifc02.FilterMaps(p)}
	if len(p.Flow) > 0 {
		m["flow"] = verifc02.FlowMaps(p)
	}
	return m
}

func c02GfExec(raw json.RawMessage) interface{} {
	in, ok := verifc02.Parse(raw)
	if !ok {
		return map[string]string{"error": "bad-input"}
	}
	verifc02.Register(in.Kinds)
	obs := verifc02.Obs{Valid: map[string]string{}, Init: "skipped", Runs: []verifc02.Run{}}

	// validation: the main pipeline spec, the two parts, and the GlobalFilter spec as a whole
	mainSpec := c02PSpec(in.Main)
	obs.Valid["main"] = verifc02.ErrClass(mainSpec.Validate())
	bs, as := c02PSpec(in.Before), c02PSpec(in.After)
	obs.Valid["before"] = verifc02.ErrClass(bs.Validate())
	obs.Valid["after"] = verifc02.ErrClass(as.Validate())
	gspec := &Spec{BeforePipeline: c02PSpec(in.Before), AfterPipeline: c02PSpec(in.After)}
	if err := gspec.Validate(); err != nil {
		obs.GF = "reject"
	} else {
		obs.GF = "ok"
	}
	if obs.Valid["main"] != "ok" || obs.GF != "ok" {
		return obs
	}

	// main pipeline
	buf, err := yaml.Marshal(verifc02.PipelineMap("verif-main", in.Main))
	if err != nil {
		obs.Init = "yaml:main"
		return obs
	}
	ms, err := supervisor.NewSpec(string(buf))
	if err != nil {
		obs.Init = "newspec:main"
		return obs
	}
	pl := &pipeline.Pipeline{}
	pl.Init(ms, nil)
	defer pl.Close()

	// global filter
	gm := map[string]interface{}{"name": "verif-gf", "kind": Kind}
	if in.Before != nil {
		gm["beforePipeline"] = c02Part(in.Before)
	}
	if in.After != nil {
		gm["afterPipeline"] = c02Part(in.After)
	}
	buf, err = yaml.Marshal(gm)
	if err != nil {
		obs.Init = "yaml:gf"
		return obs
	}
	gs, err := supervisor.NewSpec(string(buf))
	if err != nil {
		obs.Init = "newspec:gf"
		return obs
	}
	gf := &GlobalFilter{}
	gf.Init(gs)
	defer gf.Close()
	obs.Init = "ok"

	for _, script := range in.Scripts {
		verifc02.Reset(script)
		ctx := context.New(tracing.NoopSpan)
		gf.Handle(ctx, pl)
		// GlobalFilter.Handle drops the pipeline result; it is visible as the last stat's result.
		run := verifc02.Collect(ctx, "")
		if n := len(run.Stats); n > 0 {
			run.Result = run.Stats[n-1][1]
		}
		obs.Runs = append(obs.Runs, run)
	}
	return obs
}

func c02GfGen(r *verifh.Rand, i int) interface{} {
	return verifc02.Gen(r, i, []string{"gf"}, verifh.Env().Thorough())
}

func TestVerifC02GF(t *testing.T) {
	logger.InitNop()
	verifh.Run(t, c02GfGen, c02GfExec, 0)
}
