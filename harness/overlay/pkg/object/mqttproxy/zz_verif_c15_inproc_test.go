package mqttproxy

// Correspondence harness for property C15, in-process part (volume): a socket-less
// Broker with real Client / Session / TopicManager objects. Messages enter through
// Broker.httpTopicsPublishHandler (httptest recorder, real validation + the async
// hand-off) or directly through Broker.sendMsgToClient; PUBACKs through
// Client.processPacket; resend ticks through Session.doResend (the sessions are created
// without their 200 ms background ticker so that ticks are events of the scenario).
// What every client's outbound queue (writeCh) received is recorded after every event.
// Go's map iteration order differs from call to call, so repeated messages visit the
// subscribers in varying orders.

import (
	"bytes"
	"encoding/json"
	"fmt"
	"net/http"
	"net/http/httptest"
	"runtime"
	"sort"
	"strings"
	"sync"
	"testing"
	"time"

	"github.com/eclipse/paho.mqtt.golang/packets"
	"github.com/megaease/easegress/pkg/util/verifh"
)

type c15Sub struct {
	F string `json:"f"`
	Q int    `json:"q"`
}

type c15Client struct {
	ID    string   `json:"id"`
	Subs  []c15Sub `json:"subs"`
	Ghost bool     `json:"ghost,omitempty"` // subscribed in the trie, not connected to this broker
	Pers  bool     `json:"pers,omitempty"`  // connects with cleanSession=false (its session is persisted; see event "resume")
}

type c15Event struct {
	K       string   `json:"k"`              // m message, a puback, t resend tick, off / on, sub / unsub / disc, pub (client PUBLISH burst)
	Subs    []c15Sub `json:"subs,omitempty"` // sub
	Fs      []string `json:"fs,omitempty"`   // unsub
	Pubs    []c15Pub `json:"pubs,omitempty"` // pub: PUBLISH packets processed back-to-back before the queue is written out
	Via     string   `json:"via,omitempty"`
	Topic   string   `json:"topic,omitempty"`
	QoS     int      `json:"qos,omitempty"`
	Payload string   `json:"payload,omitempty"`
	B64     bool     `json:"b64,omitempty"`
	B64OK   bool     `json:"b64ok,omitempty"` // oracle (encoding/base64): the payload decodes
	Dec     string   `json:"dec,omitempty"`   // oracle: the decoded payload
	Bad     string   `json:"bad,omitempty"`   // "", method, json, b64 (HTTP only)
	Full    []string `json:"full,omitempty"`  // clients whose writeCh is full at this instant (QoS0 messages only)
	C       string   `json:"c,omitempty"`
	ID      int      `json:"id,omitempty"`
	N       int      `json:"n,omitempty"` // mn: the QoS0 message is sent N times (queues drained after each send)
}

type c15Pub struct {
	Topic string `json:"topic"`
	QoS   int    `json:"qos"`
	ID    int    `json:"id"`
	Dup   bool   `json:"dup,omitempty"` // DUP flag of the PUBLISH (a client retransmitting, or just setting it)
}

type c15Input struct {
	Limit   int         `json:"limit,omitempty"` // ClientPublishLimit.RequestRate per 1000 s for every client (0 = none)
	Clients []c15Client `json:"clients"`
	Events  []c15Event  `json:"events"`
	Rep     int         `json:"rep,omitempty"` // run the scenario this many times on fresh state (map orders vary)
}

type c15Step struct {
	Status int                 `json:"st"`
	Out    map[string][]string `json:"out,omitempty"`  // client -> "id:qos:payload" of PUBLISH packets queued
	Acks   []int               `json:"acks,omitempty"` // pub: packet ids of the PUBACKs as encoded when the queue is written out
	Cnt    map[string]int      `json:"cnt,omitempty"`  // mn: client -> number of PUBLISH packets queued over the N sends (out = first and last)
	Pipe   []c15wPipe          `json:"pipe,omitempty"` // pub: calls seen by the Publish pipeline
	Note   string              `json:"note,omitempty"`
}

type c15Obs struct {
	Steps []c15Step `json:"steps"`
}

var (
	c15Once   sync.Once
	c15Broker *Broker
	c15Rec    = &c15wRecorder{}
)

func c15GetBroker() *Broker {
	c15Once.Do(func() {
		b := &Broker{
			egName:    "verif",
			name:      "verif-c15",
			spec:      &Spec{Name: "verif-c15", EGName: "verif"},
			clients:   make(map[string]*Client),
			pipelines: map[PacketType]string{Publish: "verif-publish"},
			muxMapper: &c15wMapper{h: c15Rec},
			done:      make(chan struct{}),
			memberURL: func(string, string) ([]string, error) { return nil, nil },
		}
		b.topicMgr = newTopicManager(64)
		b.sessMgr = newSessionManager(b, newStorage(nil))
		b.connectionLimiter = newLimiter(nil)
		c15Broker = b
	})
	return c15Broker
}

// c15Connect registers a connected client whose session has no background resend goroutine.
func c15Connect(b *Broker, cid string, limit int, persistent ...bool) *Client {
	connect := packets.NewControlPacket(packets.Connect).(*packets.ConnectPacket)
	connect.ClientIdentifier = cid
	connect.CleanSession = !(len(persistent) > 0 && persistent[0])
	var lim *RateLimit
	if limit > 0 {
		lim = &RateLimit{RequestRate: limit, TimePeriod: 1000}
	}
	c := newClient(connect, b, nil, lim)
	s := &Session{}
	s.init(b.sessMgr, b, connect)
	b.sessMgr.sessionMap.Store(cid, s)
	c.session = s
	b.Lock()
	b.clients[cid] = c
	b.Unlock()
	return c
}

// c15StoreIdle: every Session.store() issued so far has reached the storage (no sender goroutine of
// `go func(){ s.storeCh <- ss }()` left, SessionManager.doStore parked in its select). Model-free.
func c15StoreIdle() bool {
	buf := make([]byte, 1<<16)
	for {
		n := runtime.Stack(buf, true)
		if n < len(buf) {
			buf = buf[:n]
			break
		}
		buf = make([]byte, 2*len(buf))
	}
	for _, g := range strings.Split(string(buf), "\n\n") {
		if strings.Contains(g, "mqttproxy.(*Session).store.func1") || strings.Contains(g, "created by github.com/megaease/easegress/pkg/object/mqttproxy.(*Session).store") {
			return false
		}
		if strings.Contains(g, "\ngithub.com/megaease/easegress/pkg/object/mqttproxy.(*SessionManager).doStore(") {
			hdr := g
			if i := strings.Index(g, "\n"); i >= 0 {
				hdr = g[:i]
			}
			if !strings.Contains(hdr, "[select") {
				return false
			}
		}
	}
	return true
}

func c15WaitStoreIdle() bool {
	deadline := time.Now().Add(10 * time.Second)
	for !c15StoreIdle() {
		if time.Now().After(deadline) {
			return false
		}
		time.Sleep(200 * time.Microsecond)
	}
	return true
}

// c15Resume: the persistent client's connection ends normally (closeAndDelSession: the local session object is
// dropped, its subscriptions leave the TopicManager; the persisted copy stays) and the client reconnects with
// cleanSession=false without re-subscribing: the session is rebuilt from the PERSISTED copy
// (SessionManager.store.get + Session.decode, as newSessionFromYaml does — but without starting the background
// resend goroutine, ticks stay events of the scenario) and, as in Broker.handleConn, stored again
// (updateEGName) and its subscriptions are registered from `allSubscribes()`.
func c15Resume(b *Broker, old *Client, limit int) (*Client, string) {
	cid := old.info.cid
	if !c15WaitStoreIdle() {
		return old, "store-not-idle"
	}
	old.closeAndDelSession()
	b.removeClient(cid)
	connect := packets.NewControlPacket(packets.Connect).(*packets.ConnectPacket)
	connect.ClientIdentifier = cid
	connect.CleanSession = false
	var lim *RateLimit
	if limit > 0 {
		lim = &RateLimit{RequestRate: limit, TimePeriod: 1000}
	}
	c := newClient(connect, b, nil, lim)
	s := &Session{}
	s.init(b.sessMgr, b, connect)
	note := ""
	if str, err := b.sessMgr.store.get(sessionStoreKey(cid)); err == nil && str != nil {
		if s.decode(*str) != nil {
			note = "stored-session-undecodable"
		}
	} else {
		note = "no-stored-session"
	}
	b.sessMgr.sessionMap.Store(cid, s)
	c.session = s
	b.Lock()
	b.clients[cid] = c
	b.Unlock()
	c.session.updateEGName(b.egName, b.name)
	topics, qoss, _ := c.session.allSubscribes()
	if len(topics) > 0 {
		if b.topicMgr.subscribe(topics, qoss, cid) != nil {
			note = "resubscribe-failed"
		}
	}
	if !c15WaitStoreIdle() {
		note = "store-not-idle"
	}
	return c, note
}

// c15Drain empties the client's outbound queue the way writeLoop does: every packet is *encoded*
// (ControlPacket.Write) at the moment it leaves the queue and decoded again with the paho codec, so what
// is recorded is what would be on the wire (a packet object mutated after it was queued shows its
// final content). QoS0 PUBLISH packets carry no id on the wire: their id is taken from the object.
func c15Drain(c *Client) (pubs []string, acks []int) {
	for {
		select {
		case p := <-c.writeCh:
			var buf bytes.Buffer
			if err := p.Write(&buf); err != nil {
				continue
			}
			dp, err := packets.ReadPacket(&buf)
			if err != nil {
				continue
			}
			switch d := dp.(type) {
			case *packets.PublishPacket:
				id := d.MessageID
				if d.Qos == 0 {
					if o, ok := p.(*packets.PublishPacket); ok {
						id = o.MessageID
					}
				}
				pubs = append(pubs, fmt.Sprintf("%d:%d:%s", id, d.Qos, string(d.Payload)))
			case *packets.PubackPacket:
				acks = append(acks, int(d.MessageID))
			}
		default:
			return pubs, acks
		}
	}
}

func c15DrainPublishes(c *Client) []string {
	pubs, _ := c15Drain(c)
	return pubs
}

// c15FanoutRunning reports whether a goroutine started by httpTopicsPublishHandler is alive
// (its stack dump carries "created by …httpTopicsPublishHandler", also before it first runs):
// the handler starts the fan-out with `go` before it returns, so "no such goroutine" after the
// handler returned means the fan-out is complete.
func c15FanoutRunning() bool {
	buf := make([]byte, 1<<16)
	for {
		n := runtime.Stack(buf, true)
		if n < len(buf) {
			return bytes.Contains(buf[:n], []byte("httpTopicsPublishHandler"))
		}
		buf = make([]byte, 2*len(buf))
	}
}

func c15Exec(raw json.RawMessage) interface{} {
	var in c15Input
	if err := json.Unmarshal(raw, &in); err != nil {
		return map[string]string{"error": "bad-input"}
	}
	if in.Rep <= 1 {
		return c15ExecOnce(in)
	}
	if in.Rep > 16 {
		in.Rep = 16
	}
	runs := make([]c15Obs, 0, in.Rep)
	for k := 0; k < in.Rep; k++ {
		runs = append(runs, c15ExecOnce(in))
	}
	return map[string]interface{}{"runs": runs}
}

func c15ExecOnce(in c15Input) c15Obs {
	b := c15GetBroker()
	b.topicMgr = newTopicManager(64)
	c15Rec.mu.Lock()
	c15Rec.calls = nil
	c15Rec.mu.Unlock()
	clients := map[string]*Client{}
	order := []string{}
	defer func() {
		c15WaitStoreIdle()
		for cid, c := range clients {
			b.Lock()
			b.clients[cid] = c
			b.Unlock()
			c.closeAndDelSession()
			b.removeClient(cid)
			b.sessMgr.store.delete(sessionStoreKey(cid))
		}
	}()
	for _, cl := range in.Clients {
		if cl.ID == "" {
			continue
		}
		topics := make([]string, 0, len(cl.Subs))
		qoss := make([]byte, 0, len(cl.Subs))
		for _, s := range cl.Subs {
			topics = append(topics, s.F)
			qoss = append(qoss, byte(s.Q))
		}
		if cl.Ghost {
			if len(topics) > 0 {
				b.topicMgr.subscribe(topics, qoss, cl.ID)
			}
			continue
		}
		if _, dup := clients[cl.ID]; dup {
			continue
		}
		if cl.Pers {
			b.sessMgr.store.delete(sessionStoreKey(cl.ID)) // nothing left over from an earlier scenario
		}
		c := c15Connect(b, cl.ID, in.Limit, cl.Pers)
		clients[cl.ID] = c
		order = append(order, cl.ID)
		if len(topics) > 0 {
			p := packets.NewControlPacket(packets.Subscribe).(*packets.SubscribePacket)
			p.MessageID = 1
			p.Topics = topics
			p.Qoss = qoss
			c.processPacket(p)
			if cl.Pers {
				c15WaitStoreIdle() // two Session.store() calls in flight may reach the storage in either order
			}
			c15DrainPublishes(c)
		}
	}
	collect := func() map[string][]string {
		out := map[string][]string{}
		for _, cid := range order {
			if ps := c15DrainPublishes(clients[cid]); len(ps) > 0 {
				out[cid] = ps
			}
		}
		return out
	}
	obs := c15Obs{Steps: make([]c15Step, 0, len(in.Events))}
	for _, ev := range in.Events {
		st := c15Step{}
		switch ev.K {
		case "m":
			var filled []*Client
			if ev.QoS == 0 && ev.Bad == "" {
				for _, cid := range ev.Full {
					if c, ok := clients[cid]; ok {
						for len(c.writeCh) < cap(c.writeCh) {
							c.writeCh <- packets.NewControlPacket(packets.Pingresp)
						}
						filled = append(filled, c)
					}
				}
			}
			if ev.Via == "h" {
				method := http.MethodPost
				if ev.Bad == "method" {
					method = http.MethodGet
				}
				body, _ := json.Marshal(HTTPJsonData{Topic: ev.Topic, QoS: ev.QoS, Payload: ev.Payload, Base64: ev.B64, Distributed: true})
				if ev.Bad == "json" {
					body = []byte("{not json")
				}
				req := httptest.NewRequest(method, "http://verif/mqtt", bytes.NewReader(body))
				rec := httptest.NewRecorder()
				b.httpTopicsPublishHandler(rec, req)
				st.Status = rec.Code
				deadline := time.Now().Add(3 * time.Second)
				for c15FanoutRunning() {
					if time.Now().After(deadline) {
						st.Note = "fanout-goroutine-not-finished"
						break
					}
					runtime.Gosched()
				}
			} else {
				b.sendMsgToClient(nil, ev.Topic, []byte(ev.Payload), byte(ev.QoS))
			}
			for _, c := range filled {
				if len(c.writeCh) != cap(c.writeCh) {
					st.Note = "full-queue-changed"
				}
			}
			st.Out = collect()
		case "mn":
			// the same QoS0 message N times through Broker.sendMsgToClient; every client's queue is written
			// out after each send (so nothing is dropped for a full queue). Lets a history consume many
			// packet ids (uint16 wrap-around of Session.nextID) with a short input.
			n := ev.N
			if n < 0 {
				n = 0
			}
			if n > 70000 {
				n = 70000
			}
			st.Cnt = map[string]int{}
			st.Out = map[string][]string{}
			last := map[string]string{}
			for k := 0; k < n; k++ {
				b.sendMsgToClient(nil, ev.Topic, []byte(ev.Payload), 0)
				for _, cid := range order {
					for _, pk := range c15DrainPublishes(clients[cid]) {
						if st.Cnt[cid] == 0 {
							st.Out[cid] = []string{pk}
						}
						st.Cnt[cid]++
						last[cid] = pk
					}
				}
			}
			for cid, pk := range last {
				if st.Cnt[cid] > 1 {
					st.Out[cid] = append(st.Out[cid], pk)
				}
			}
		case "a":
			if c, ok := clients[ev.C]; ok {
				p := packets.NewControlPacket(packets.Puback).(*packets.PubackPacket)
				p.MessageID = uint16(ev.ID)
				c.processPacket(p)
			}
			st.Out = collect()
		case "t":
			if c, ok := clients[ev.C]; ok {
				c.session.doResend()
			}
			st.Out = collect()
		case "sub":
			if c, ok := clients[ev.C]; ok && len(ev.Subs) > 0 {
				p := packets.NewControlPacket(packets.Subscribe).(*packets.SubscribePacket)
				p.MessageID = 2
				for _, s := range ev.Subs {
					p.Topics = append(p.Topics, s.F)
					p.Qoss = append(p.Qoss, byte(s.Q))
				}
				c.processPacket(p)
				if !c.session.cleanSession() {
					c15WaitStoreIdle()
				}
			}
			st.Out = collect()
		case "unsub":
			if c, ok := clients[ev.C]; ok && len(ev.Fs) > 0 {
				p := packets.NewControlPacket(packets.Unsubscribe).(*packets.UnsubscribePacket)
				p.MessageID = 3
				p.Topics = append([]string{}, ev.Fs...)
				c.processPacket(p)
				if !c.session.cleanSession() {
					c15WaitStoreIdle()
				}
			}
			st.Out = collect()
		case "disc":
			if c, ok := clients[ev.C]; ok {
				c.closeAndDelSession()
				b.removeClient(ev.C)
				b.Lock()
				delete(b.clients, ev.C)
				b.Unlock()
				delete(clients, ev.C)
				for i, id := range order {
					if id == ev.C {
						order = append(order[:i:i], order[i+1:]...)
						break
					}
				}
			}
			st.Out = collect()
		case "pub":
			if c, ok := clients[ev.C]; ok {
				c15Rec.mu.Lock()
				before := len(c15Rec.calls)
				c15Rec.mu.Unlock()
				for _, pb := range ev.Pubs {
					if len(c.writeCh) >= cap(c.writeCh)-1 {
						break // never block: there is no writeLoop here
					}
					p := packets.NewControlPacket(packets.Publish).(*packets.PublishPacket)
					p.TopicName = pb.Topic
					p.Qos = byte(pb.QoS)
					p.MessageID = uint16(pb.ID)
					p.Dup = pb.Dup
					p.Payload = []byte("up")
					c.processPacket(p)
				}
				// only now is the queue written out (a write loop that lags behind the read loop)
				pubs, acks := c15Drain(c)
				st.Acks = acks
				if len(pubs) > 0 {
					st.Out = map[string][]string{ev.C: pubs}
				}
				c15Rec.mu.Lock()
				st.Pipe = append([]c15wPipe{}, c15Rec.calls[before:]...)
				c15Rec.mu.Unlock()
			}
		case "refill":
			// the period of the client's publish limiter has elapsed: it admits `limit` publishes again
			// (a fresh limiter instead of waiting for the real period)
			if c, ok := clients[ev.C]; ok && in.Limit > 0 {
				c.publishLimit = newLimiter(&RateLimit{RequestRate: in.Limit, TimePeriod: 1000})
			}
		case "resume":
			if c, ok := clients[ev.C]; ok && !c.session.cleanSession() {
				// nothing is queued for it any more
				c15DrainPublishes(c)
				nc, note := c15Resume(b, c, in.Limit)
				clients[ev.C] = nc
				if note != "" && note != "no-stored-session" {
					st.Note = "resume:" + note
				}
			}
			st.Out = collect()
		case "off":
			b.Lock()
			delete(b.clients, ev.C)
			b.Unlock()
		case "on":
			if c, ok := clients[ev.C]; ok {
				b.Lock()
				b.clients[ev.C] = c
				b.Unlock()
			}
		}
		obs.Steps = append(obs.Steps, st)
	}
	return obs
}

func c15GenFilter(r *verifh.Rand) string {
	return r.Pick("a", "a/b", "a/b", "a/+", "a/#", "+/b", "#", "+/+", "b", "a/b/#", "a/b/#", "+", "b/#", "a/b/a", "a/b/a", "a/b/+")
}

func c15GenTopic(r *verifh.Rand) string {
	return r.Pick("a", "a/b", "a/b", "a/b", "b", "a/a", "b/b", "a/b/a", "c")
}

func c15Gen(r *verifh.Rand, i int) interface{} {
	in := c15Input{Rep: 3}
	if r.Bool(1, 4) {
		in.Limit = r.PickInt(1, 2, 3)
	}
	held := map[string][]string{}
	n := r.Range(2, 6)
	var ids []string
	for k := 0; k < n; k++ {
		cl := c15Client{ID: fmt.Sprintf("c%d", k)}
		ns := r.PickInt(1, 1, 2, 2, 3, 4)
		fullOnly0 := r.Bool(1, 4) // a client that may be used as "queue full": QoS0 subscriptions only
		for j := 0; j < ns; j++ {
			q := r.PickInt(0, 1, 1)
			if fullOnly0 {
				q = 0
			}
			cl.Subs = append(cl.Subs, c15Sub{F: c15GenFilter(r), Q: q})
			held[cl.ID] = append(held[cl.ID], cl.Subs[j].F)
		}
		if r.Bool(1, 10) {
			cl.Ghost = true
		} else if r.Bool(1, 3) {
			cl.Pers = true
		}
		in.Clients = append(in.Clients, cl)
		if !cl.Ghost {
			ids = append(ids, cl.ID)
		}
	}
	only0 := func(id string) bool {
		for _, cl := range in.Clients {
			if cl.ID == id {
				for _, s := range cl.Subs {
					if s.Q != 0 {
						return false
					}
				}
			}
		}
		return true
	}
	ne := r.Range(3, 30)
	seq := 0
	for k := 0; k < ne; k++ {
		switch x := r.Intn(28); {
		case x >= 20 && len(ids) > 0:
			c := ids[r.Intn(len(ids))]
			switch y := x - 20; {
			case y < 2: // another SUBSCRIBE (also re-subscription with another QoS)
				f := c15GenFilter(r)
				if len(held[c]) > 0 && r.Bool(1, 2) {
					f = held[c][r.Intn(len(held[c]))] // re-subscribe a held filter, often at another QoS
				}
				in.Events = append(in.Events, c15Event{K: "sub", C: c, Subs: []c15Sub{{F: f, Q: r.PickInt(0, 1, 1)}}})
				held[c] = append(held[c], f)
			case y < 5: // UNSUBSCRIBE, mostly of something held: routing state changes before later messages
				var fs []string
				for j := r.PickInt(1, 1, 2); j > 0; j-- {
					if len(held[c]) > 0 && r.Bool(4, 5) {
						fs = append(fs, held[c][r.Intn(len(held[c]))])
					} else {
						fs = append(fs, c15GenFilter(r))
					}
				}
				in.Events = append(in.Events, c15Event{K: "unsub", C: c, Fs: fs})
			case y < 6:
				in.Events = append(in.Events, c15Event{K: "disc", C: c})
				held[c] = nil
			default: // burst of client PUBLISH packets, acknowledged only after the whole burst was read
				ev := c15Event{K: "pub", C: c}
				base := r.PickInt(1, 10, 100, 65533)
				// packet-id discipline of the client: consecutive ids, always the same id (in-flight window of
				// 1), or alternating two ids; DUP set on some (retransmissions, e.g. after a limiter drop)
				mode := r.Intn(3)
				for j := r.Range(1, 6); j > 0; j-- {
					id := base % 65536
					switch mode {
					case 1:
						id = 1
					case 2:
						id = 1 + j%2
					}
					ev.Pubs = append(ev.Pubs, c15Pub{Topic: r.Pick("up/x", "up/y", "up/x", "drop/x"), QoS: r.PickInt(0, 1, 1, 1), ID: id, Dup: mode != 0 && r.Bool(1, 2)})
					base++
				}
				in.Events = append(in.Events, ev)
				if in.Limit > 0 && r.Bool(1, 2) {
					// the limiter period elapses and the client sends again (same id discipline, DUP set)
					in.Events = append(in.Events, c15Event{K: "refill", C: c})
					ev2 := c15Event{K: "pub", C: c}
					for j := r.Range(1, 3); j > 0; j-- {
						id := 1 + j%2
						if mode == 1 {
							id = 1
						}
						ev2.Pubs = append(ev2.Pubs, c15Pub{Topic: r.Pick("up/x", "up/y"), QoS: 1, ID: id, Dup: r.Bool(2, 3)})
					}
					in.Events = append(in.Events, ev2)
				}
			}
		case x < 11 || len(ids) == 0:
			ev := c15Event{K: "m", Via: "d", Topic: c15GenTopic(r), QoS: r.PickInt(0, 1, 1, 1), Payload: fmt.Sprintf("p%d", seq)}
			seq++
			if r.Bool(1, 3) {
				ev.Via = "h"
				switch r.Intn(12) {
				case 0:
					ev.Bad = "method"
				case 1:
					ev.Bad = "json"
				case 2:
					ev.Bad = "b64"
					ev.B64 = true
					ev.Payload = "%%%not-base64"
				case 3:
					ev.QoS = r.PickInt(3, -1, 2, 7)
				case 4:
					ev.B64 = true
					ev.Payload = "cDk5" // "p99"
					ev.B64OK = true
					ev.Dec = "p99"
				}
			}
			if r.Bool(1, 25) {
				ev.Topic = r.Pick("a/#/b", "a+", "#/a") // malformed topic: nobody
			}
			if ev.QoS == 0 && len(ids) > 0 && r.Bool(1, 3) {
				for _, id := range ids {
					if only0(id) && r.Bool(1, 2) {
						ev.Full = append(ev.Full, id)
					}
				}
			}
			in.Events = append(in.Events, ev)
		case x < 15:
			in.Events = append(in.Events, c15Event{K: "a", C: ids[r.Intn(len(ids))], ID: r.PickInt(0, 0, 1, 1, 2, 3, 4, 5, 9, 65535)})
		case x < 19:
			in.Events = append(in.Events, c15Event{K: "t", C: ids[r.Intn(len(ids))]})
		default:
			in.Events = append(in.Events, c15Event{K: r.Pick("off", "off", "on", "resume", "resume"), C: ids[r.Intn(len(ids))]})
		}
	}
	sort.Strings(ids)
	return in
}

func TestVerifC15Inproc(t *testing.T) {
	verifh.Run(t, c15Gen, c15Exec, 20*time.Second)
}
