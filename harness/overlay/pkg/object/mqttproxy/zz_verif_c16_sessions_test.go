package mqttproxy

// Correspondence harness for property C16 (sessions across reconnect and
// client-id takeover). Injected with `go test -overlay`.
//
// A case is a schedule of macro actions for ONE client id, executed on a real
// Broker (listener on an ephemeral port) with raw MQTT connections:
//
//	connect k clean  CONNECT on a fresh TCP connection k, wait for CONNACK, then a
//	                 PINGREQ/PINGRESP round trip (=> re-subscribe from the session is done)
//	sub k f / unsub k f   SUBSCRIBE / UNSUBSCRIBE topic f on connection k, wait for the ack
//	drop k [disc]    end of connection k as seen by the broker: half-close (FIN) or a
//	                 DISCONNECT packet; waits until the broker closes its side, i.e. until
//	                 readLoop's deferred cleanup (closeAndDelSession, removeClient) is over
//	admindel         DELETE through Broker.httpDeleteSessionHandler
//	watch            deliver ONE queued delete event of the session store (the oldest) to Broker.watchDelete
//	                 and wait, model-free, until the broker is done with it (watchDelete parked in its
//	                 select again, no deleteSession goroutine left). Whether the event is the echo of a
//	                 connection's own delDB or stems from an admin delete is NOT told to the broker (the
//	                 store's events carry only the key); the judge tracks the origins from the actions.
//	par [a, b]       two macro actions issued concurrently (real race)
//
// The moment at which the broker's read loop for an old connection notices its
// end is therefore exactly the position of `drop k` in the schedule: before,
// between or after the steps of the connection that took the id over.
//
// The session store is the package's storage interface implemented here with a
// delete-event queue, so that the asynchronous watch notification (etcd in
// production) is delivered at a scheduled point. After every action a snapshot
// of Broker.clients / sessionMap / the persisted copy / TopicManager is taken.

import (
	"bytes"
	"encoding/json"
	"fmt"
	"net"
	"net/http"
	"net/http/httptest"
	"os"
	"runtime"
	"sort"
	"strings"
	"sync"
	"sync/atomic"
	"testing"
	"time"

	"github.com/eclipse/paho.mqtt.golang/packets"
	"github.com/megaease/easegress/pkg/util/verifh"
	"gopkg.in/yaml.v2"
)

const c16Cid = "c16dev"

// every wait is a poll for a definite event; the bound only ends a genuine hang and is
// generous so that a heavily loaded machine cannot turn slowness into a finding
const c16Patience = 40 * time.Second

// Hang budget (extension mqtt): a wait that runs into c16Patience is a genuine hang (or a changed broker that no
// longer produces the awaited event). It is reported through the case it happened in; from then on this
// process waits at most c16ShortPatience, and after c16MaxHangs such waits the remaining cases are not executed
// (`{"aborted":…}`), so that a run against a broken tree ends in bounded time instead of cases × waits × 40 s.
const c16ShortPatience = 3 * time.Second
const c16MaxHangs = 3

var c16Hangs int32

func c16PatienceNow() time.Duration {
	if atomic.LoadInt32(&c16Hangs) > 0 {
		return c16ShortPatience
	}
	if os.Getenv("VERIF_MODE") == "replay" {
		// replay / shrink runs re-execute inputs that already FAILED: a wait that does not end is the finding being
		// reproduced, not slowness — keep every candidate of the shrinker short
		return 10 * time.Second
	}
	return c16Patience
}

type c16Action struct {
	Op    string      `json:"op"`
	K     int         `json:"k"`
	Clean bool        `json:"clean,omitempty"`
	F     int         `json:"f,omitempty"`
	Q     int         `json:"q,omitempty"`    // sub: requested QoS (0 / 1)
	Disc  bool        `json:"disc,omitempty"` // drop by DISCONNECT packet instead of FIN
	Par   []c16Action `json:"par,omitempty"`
}

type c16Input struct {
	Actions []c16Action `json:"actions"`
}

type c16Snap struct {
	Skipped    bool   `json:"skipped"`
	Err        string `json:"err,omitempty"`
	Code       int    `json:"code"`       // CONNACK return code of a connect (-1: none)
	Reg        int    `json:"reg"`        // connection index registered in Broker.clients (-1 none, -2 unknown)
	RegDisc    bool   `json:"regDisc"`    // its disconnected() flag
	Seen       []int  `json:"seen"`       // connections whose broker-side Client the harness got hold of
	Disc       []int  `json:"disc"`       // those of them whose Client is disconnected()
	SessMap    bool   `json:"sessMap"`    // sessionMap has the id
	SessTopics []int  `json:"sessTopics"` // its topics
	SessClean  bool   `json:"sessClean"`
	SessClosed bool   `json:"sessClosed"` // its done channel is closed
	DB         bool   `json:"db"`         // persisted copy present
	DBTopics   []int  `json:"dbTopics"`
	DBClean    bool   `json:"dbClean"`
	TM         []int  `json:"tm"`    // topics under which TopicManager routes to the id
	Watch      int    `json:"watch"` // queued delete events
	// QoS per listed topic (same order as sessTopics / dbTopics / tm)
	SessQos []int `json:"sessQos"`
	DBQos   []int `json:"dbQos"`
	TMQos   []int `json:"tmQos"`
}

type c16Obs struct {
	Steps []c16Snap `json:"steps"`
	// final delivery probe: topics of the PUBLISH packets the registered live
	// connection received when one message per topic was sent; nil if no probe
	Probed    bool  `json:"probed"`
	Delivered []int `json:"delivered"`
}

const c16NTopics = 3

func c16Topic(i int) string { return "c16/t" + string(rune('a'+i)) }

func c16TopicIdx(s string) int {
	for i := 0; i < c16NTopics; i++ {
		if c16Topic(i) == s {
			return i
		}
	}
	return -1
}

// ---- storage with a scheduled delete watch

type c16Store struct {
	mu      sync.Mutex
	data    map[string]string
	puts    int
	pending []string
	ch      chan map[string]*string
}

func c16NewStore() *c16Store {
	return &c16Store{data: map[string]string{}, ch: make(chan map[string]*string)}
}

func (s *c16Store) get(key string) (*string, error) {
	s.mu.Lock()
	defer s.mu.Unlock()
	if v, ok := s.data[key]; ok {
		return &v, nil
	}
	return nil, nil
}

func (s *c16Store) getPrefix(prefix string, keysOnly bool) (map[string]string, error) {
	s.mu.Lock()
	defer s.mu.Unlock()
	out := map[string]string{}
	for k, v := range s.data {
		if strings.HasPrefix(k, prefix) {
			if keysOnly {
				v = ""
			}
			out[k] = v
		}
	}
	return out, nil
}

func (s *c16Store) put(key, value string) error {
	s.mu.Lock()
	s.data[key] = value
	s.puts++
	s.mu.Unlock()
	return nil
}

func (s *c16Store) delete(key string) error {
	s.mu.Lock()
	delete(s.data, key)
	s.pending = append(s.pending, key)
	s.mu.Unlock()
	return nil
}

func (s *c16Store) watchDelete(prefix string) (<-chan map[string]*string, func(), error) {
	return s.ch, func() {}, nil
}

func (s *c16Store) putCount() int {
	s.mu.Lock()
	defer s.mu.Unlock()
	return s.puts
}

func (s *c16Store) pendingCount() int {
	s.mu.Lock()
	defer s.mu.Unlock()
	return len(s.pending)
}

// fire delivers the oldest queued delete event; false if none.
func (s *c16Store) fire() bool {
	s.mu.Lock()
	if len(s.pending) == 0 {
		s.mu.Unlock()
		return false
	}
	k := s.pending[0]
	s.pending = s.pending[1:]
	s.mu.Unlock()
	select {
	case s.ch <- map[string]*string{k: nil}:
		return true
	case <-time.After(c16Patience):
		return false
	}
}

// ---- one run

type c16Conn struct {
	sock      net.Conn
	connected bool // CONNACK accepted
	dropped   bool
}

type c16Run struct {
	b        *Broker
	st       *c16Store
	addr     string
	mu       sync.Mutex
	conns    map[int]*c16Conn
	wantPuts int
	live     int32           // connections whose CONNECT was accepted and that have not been ended
	clientOf map[int]*Client // broker-side Client of a harness connection, once seen registered
}

func c16Wait(cond func() bool) bool {
	deadline := time.Now().Add(c16PatienceNow())
	for i := 0; ; i++ {
		if cond() {
			return true
		}
		if time.Now().After(deadline) {
			atomic.AddInt32(&c16Hangs, 1)
			return false
		}
		if i < 50 {
			time.Sleep(50 * time.Microsecond)
		} else {
			time.Sleep(time.Millisecond)
		}
	}
}

func (r *c16Run) addPut() {
	r.mu.Lock()
	r.wantPuts++
	r.mu.Unlock()
}

// settlePuts waits until every Session.store() issued so far has reached the storage. Model-free (extension
// mqtt): `store()` hands the encoded session to `go func(){ s.storeCh <- ss }()` and SessionManager.doStore puts
// it; the puts are settled when no such sender goroutine exists any more and doStore is parked in its select.
// (The earlier version waited for a put COUNT derived from the actions: a broker that stores less often than
// expected then made every wait run into the patience bound instead of showing up in the snapshot.)
func (r *c16Run) settlePuts() bool {
	return c16Wait(c16StoreIdle)
}

func c16StoreIdle() bool {
	buf := make([]byte, 1<<16)
	for {
		n := runtime.Stack(buf, true)
		if n < len(buf) {
			buf = buf[:n]
			break
		}
		buf = make([]byte, 2*len(buf))
	}
	for _, g := range strings.Split(string(buf), "\n\n") {
		// a sender goroutine of Session.store, running, blocked on storeCh, or not yet started
		if strings.Contains(g, "mqttproxy.(*Session).store.func1") || strings.Contains(g, "created by github.com/megaease/easegress/pkg/object/mqttproxy.(*Session).store") {
			return false
		}
		if strings.Contains(g, "\ngithub.com/megaease/easegress/pkg/object/mqttproxy.(*SessionManager).doStore(") {
			hdr := g
			if i := strings.Index(g, "\n"); i >= 0 {
				hdr = g[:i]
			}
			if !strings.Contains(hdr, "[select") {
				return false
			}
		}
	}
	return true
}

func (r *c16Run) conn(k int) *c16Conn {
	r.mu.Lock()
	defer r.mu.Unlock()
	return r.conns[k]
}

// clientOf finds the broker-side Client of harness connection k among a set of
// candidates by comparing socket addresses.
func (r *c16Run) isConn(c *Client, k int) bool {
	hc := r.conn(k)
	if hc == nil || hc.sock == nil || c == nil || c.conn == nil {
		return false
	}
	return c.conn.RemoteAddr().String() == hc.sock.LocalAddr().String()
}

func c16ReadUntil(sock net.Conn, want func(packets.ControlPacket) bool, onPublish func(*packets.PublishPacket)) string {
	sock.SetReadDeadline(time.Now().Add(c16PatienceNow()))
	defer sock.SetReadDeadline(time.Time{})
	for {
		p, err := packets.ReadPacket(sock)
		if err != nil {
			if c16ErrClass(err) == "timeout" {
				atomic.AddInt32(&c16Hangs, 1)
			}
			return "read:" + c16ErrClass(err)
		}
		if pub, ok := p.(*packets.PublishPacket); ok && onPublish != nil {
			onPublish(pub)
			continue
		}
		if want(p) {
			return ""
		}
	}
}

func c16ErrClass(err error) string {
	if ne, ok := err.(net.Error); ok && ne.Timeout() {
		return "timeout"
	}
	if strings.Contains(err.Error(), "EOF") {
		return "eof"
	}
	return "other"
}

func (r *c16Run) ping(sock net.Conn, onPublish func(*packets.PublishPacket)) string {
	ping := packets.NewControlPacket(packets.Pingreq)
	if err := ping.Write(sock); err != nil {
		return "write"
	}
	return c16ReadUntil(sock, func(p packets.ControlPacket) bool { _, ok := p.(*packets.PingrespPacket); return ok }, onPublish)
}

func (r *c16Run) registered() *Client {
	r.b.Lock()
	defer r.b.Unlock()
	return r.b.clients[c16Cid]
}

// do executes one macro action; returns (skipped, connack code, error class).
func (r *c16Run) do(a c16Action) (bool, int, string) {
	switch a.Op {
	case "connect":
		r.mu.Lock()
		if a.K < 0 || a.K > 15 || r.conns[a.K] != nil {
			r.mu.Unlock()
			return true, -1, ""
		}
		hc := &c16Conn{}
		r.conns[a.K] = hc
		r.mu.Unlock()
		old := r.registered()
		sock, err := net.DialTimeout("tcp", r.addr, c16Patience)
		if err != nil {
			return false, -1, "dial"
		}
		r.mu.Lock()
		hc.sock = sock
		r.mu.Unlock()
		cp := packets.NewControlPacket(packets.Connect).(*packets.ConnectPacket)
		cp.ProtocolName = "MQTT"
		cp.ProtocolVersion = 4
		cp.ClientIdentifier = c16Cid
		cp.CleanSession = a.Clean
		cp.Keepalive = 0
		if err := cp.Write(sock); err != nil {
			return false, -1, "write"
		}
		code := -1
		e := c16ReadUntil(sock, func(p packets.ControlPacket) bool {
			if ca, ok := p.(*packets.ConnackPacket); ok {
				code = int(ca.ReturnCode)
				return true
			}
			return false
		}, nil)
		if e != "" {
			return false, code, e
		}
		if code != int(packets.Accepted) {
			return false, code, ""
		}
		r.mu.Lock()
		hc.connected = true
		r.mu.Unlock()
		atomic.AddInt32(&r.live, 1)
		r.addPut() // updateEGName stores the session once
		if e := r.ping(sock, nil); e != "" {
			return false, code, "ping-" + e
		}
		if old != nil {
			// `go oldClient.close()` of the takeover branch
			if !c16Wait(old.disconnected) {
				return false, code, "old-not-closed"
			}
		}
		return false, code, ""
	case "sub", "unsub":
		hc := r.conn(a.K)
		if hc == nil || !hc.connected || hc.dropped || a.F < 0 || a.F >= c16NTopics {
			return true, -1, ""
		}
		// only the registered, live connection issues packets (see the model's guard)
		cur := r.registered()
		if cur == nil || !r.isConn(cur, a.K) || cur.disconnected() {
			return true, -1, ""
		}
		if a.Op == "sub" {
			sp := packets.NewControlPacket(packets.Subscribe).(*packets.SubscribePacket)
			sp.MessageID = 7
			sp.Topics = []string{c16Topic(a.F)}
			q := a.Q
			if q < 0 || q > 1 {
				q = 0
			}
			sp.Qoss = []byte{byte(q)}
			sp.Qos = 1
			if err := sp.Write(hc.sock); err != nil {
				return false, -1, "write"
			}
			e := c16ReadUntil(hc.sock, func(p packets.ControlPacket) bool { _, ok := p.(*packets.SubackPacket); return ok }, nil)
			if e != "" {
				return false, -1, e
			}
		} else {
			up := packets.NewControlPacket(packets.Unsubscribe).(*packets.UnsubscribePacket)
			up.MessageID = 8
			up.Topics = []string{c16Topic(a.F)}
			up.Qos = 1
			if err := up.Write(hc.sock); err != nil {
				return false, -1, "write"
			}
			e := c16ReadUntil(hc.sock, func(p packets.ControlPacket) bool { _, ok := p.(*packets.UnsubackPacket); return ok }, nil)
			if e != "" {
				return false, -1, e
			}
		}
		r.addPut()
		return false, -1, ""
	case "drop":
		hc := r.conn(a.K)
		if hc == nil || !hc.connected || hc.dropped {
			return true, -1, ""
		}
		r.mu.Lock()
		hc.dropped = true
		r.mu.Unlock()
		atomic.AddInt32(&r.live, -1)
		// Connections are ended without leaving TIME_WAIT sockets behind (tens of
		// thousands of cases per run): a network drop is a TCP reset; a clean end is a
		// DISCONNECT packet followed, once the broker is done, by a reset of our side.
		// "Done" = the connection's handleConn goroutine is gone, i.e. readLoop's
		// deferred cleanup (closeAndDelSession, removeClient) has run.
		tc, _ := hc.sock.(*net.TCPConn)
		if a.Disc {
			dp := packets.NewControlPacket(packets.Disconnect)
			dp.Write(hc.sock)
		} else if tc != nil {
			tc.SetLinger(0)
			tc.Close()
		}
		r.mu.Lock()
		bc := r.clientOf[a.K]
		r.mu.Unlock()
		ok := c16Wait(func() bool {
			if bc != nil {
				// c.close() is the last statement of closeAndDelSession; removeClient follows
				if !bc.disconnected() {
					return false
				}
				r.b.Lock()
				still := r.b.clients[c16Cid] == bc
				r.b.Unlock()
				if still {
					return false
				}
			}
			// read the expected number FIRST: a CONNECT racing with this teardown (par) adds
			// its handler before it is counted as live, never the other way round; taking the
			// goroutine dump first and `live` afterwards let this return while the old
			// connection's handler was still running (seen under load)
			live := int(atomic.LoadInt32(&r.live))
			return c16Handlers() <= live
		})
		if tc != nil {
			tc.SetLinger(0)
		}
		hc.sock.Close()
		if !ok {
			return false, -1, "teardown-timeout"
		}
		return false, -1, ""
	case "admindel":
		body, _ := json.Marshal(HTTPSessions{Sessions: []*HTTPSession{{SessionID: c16Cid}}})
		req := httptest.NewRequest(http.MethodDelete, "/mqttproxy/x/session/delete", bytes.NewReader(body))
		r.b.httpDeleteSessionHandler(httptest.NewRecorder(), req)
		return false, -1, ""
	case "watch":
		if r.st.pendingCount() == 0 {
			return true, -1, ""
		}
		// The event is handed to Broker.watchDelete through an unbuffered channel: when fire returns the
		// broker has received it. What it does with it is up to the broker (`go b.deleteSession(id)`, or
		// nothing when it recognises the echo of its own delDB — fixes/C16-own-delete-event.patch), so the
		// end of the handling is awaited model-free: watchDelete is parked in its select again and no
		// goroutine started by it (deleteSession) exists any more. The effect is read from the snapshot.
		if !r.st.fire() {
			return false, -1, "watch-not-received"
		}
		if !c16Wait(c16WatchIdle) {
			return false, -1, "watch-not-settled"
		}
		return false, -1, ""
	case "par":
		if len(a.Par) == 0 {
			return true, -1, ""
		}
		var wg sync.WaitGroup
		errs := make([]string, len(a.Par))
		codes := make([]int, len(a.Par))
		for i, sub := range a.Par {
			if sub.Op == "par" {
				continue
			}
			wg.Add(1)
			go func(i int, sub c16Action) {
				defer wg.Done()
				_, codes[i], errs[i] = r.do(sub)
			}(i, sub)
		}
		wg.Wait()
		code := -1
		for i := range codes {
			if codes[i] >= 0 {
				code = codes[i]
			}
		}
		return false, code, strings.Join(errs, "")
	}
	return true, -1, ""
}

func c16SortedTopics(m map[string]int) []int {
	out := []int{}
	for k := range m {
		out = append(out, c16TopicIdx(k))
	}
	sort.Ints(out)
	return out
}

// c16QosOf lists the QoS values of the topics in the order of c16SortedTopics.
func c16QosOf(m map[string]int, topics []int) []int {
	out := []int{}
	for _, i := range topics {
		out = append(out, m[c16Topic(i)])
	}
	return out
}

// c16ReadLoopsParked reports whether every broker-side read loop is blocked in
// its socket read. A read loop that is still on its way back to ReadPacket after
// the last packet could otherwise see a c.done closed by the *next* action and
// end the connection at a moment the schedule did not ask for.
func c16ReadLoopsParked() bool {
	buf := make([]byte, 1<<16)
	for {
		n := runtime.Stack(buf, true)
		if n < len(buf) {
			buf = buf[:n]
			break
		}
		buf = make([]byte, 2*len(buf))
	}
	for _, g := range strings.Split(string(buf), "\n\n") {
		// frames only (a "created by …handleConn" line also names the function)
		if !strings.Contains(g, "\ngithub.com/megaease/easegress/pkg/object/mqttproxy.(*Client).readLoop(") &&
			!strings.Contains(g, "\ngithub.com/megaease/easegress/pkg/object/mqttproxy.(*Broker).handleConn(") {
			continue
		}
		hdr := g
		if i := strings.Index(g, "\n"); i >= 0 {
			hdr = g[:i]
		}
		if !strings.Contains(hdr, "[IO wait") {
			return false
		}
	}
	return true
}

// c16WatchIdle reports whether a delete event handed to Broker.watchDelete has been dealt with completely:
// every watchDelete loop is parked in its select and no goroutine that it started (deleteSession) is left,
// running, blocked on the broker lock or not yet scheduled.
func c16WatchIdle() bool {
	buf := make([]byte, 1<<16)
	for {
		n := runtime.Stack(buf, true)
		if n < len(buf) {
			buf = buf[:n]
			break
		}
		buf = make([]byte, 2*len(buf))
	}
	for _, g := range strings.Split(string(buf), "\n\n") {
		if strings.Contains(g, "\ngithub.com/megaease/easegress/pkg/object/mqttproxy.(*Broker).deleteSession(") ||
			strings.Contains(g, "created by github.com/megaease/easegress/pkg/object/mqttproxy.(*Broker).watchDelete") {
			return false
		}
		if strings.Contains(g, "\ngithub.com/megaease/easegress/pkg/object/mqttproxy.(*Broker).watchDelete(") {
			hdr := g
			if i := strings.Index(g, "\n"); i >= 0 {
				hdr = g[:i]
			}
			if !strings.Contains(hdr, "[select") {
				return false
			}
		}
	}
	return true
}

// c16Handlers counts the goroutines running Broker.handleConn.
func c16Handlers() int {
	buf := make([]byte, 1<<16)
	for {
		n := runtime.Stack(buf, true)
		if n < len(buf) {
			buf = buf[:n]
			break
		}
		buf = make([]byte, 2*len(buf))
	}
	return strings.Count(string(buf), "\ngithub.com/megaease/easegress/pkg/object/mqttproxy.(*Broker).handleConn(")
}

func (r *c16Run) snap() c16Snap {
	settled := r.settlePuts()
	parked := c16Wait(c16ReadLoopsParked)
	s := c16Snap{Code: -1, Reg: -1, Disc: []int{}, Seen: []int{}, SessTopics: []int{}, DBTopics: []int{}, TM: []int{},
		SessQos: []int{}, DBQos: []int{}, TMQos: []int{}}
	r.b.Lock()
	cur := r.b.clients[c16Cid]
	r.b.Unlock()
	r.mu.Lock()
	idx := make([]int, 0, len(r.conns))
	for k := range r.conns {
		idx = append(idx, k)
	}
	r.mu.Unlock()
	sort.Ints(idx)
	if cur != nil {
		s.Reg = -2
		s.RegDisc = cur.disconnected()
		for _, k := range idx {
			if r.isConn(cur, k) {
				s.Reg = k
			}
		}
	}
	if v, ok := r.b.sessMgr.sessionMap.Load(c16Cid); ok {
		sess := v.(*Session)
		s.SessMap = true
		sess.Lock()
		s.SessTopics = c16SortedTopics(sess.info.Topics)
		s.SessQos = c16QosOf(sess.info.Topics, s.SessTopics)
		s.SessClean = sess.info.CleanFlag
		sess.Unlock()
		select {
		case <-sess.done:
			s.SessClosed = true
		default:
		}
	}
	if str, _ := r.st.get(sessionStoreKey(c16Cid)); str != nil {
		info := &SessionInfo{}
		if yaml.Unmarshal([]byte(*str), info) == nil {
			s.DB = true
			s.DBTopics = c16SortedTopics(info.Topics)
			s.DBQos = c16QosOf(info.Topics, s.DBTopics)
			s.DBClean = info.CleanFlag
		}
	}
	for i := 0; i < c16NTopics; i++ {
		subs, _ := r.b.topicMgr.findSubscribers(c16Topic(i))
		if q, ok := subs[c16Cid]; ok {
			s.TM = append(s.TM, i)
			s.TMQos = append(s.TMQos, int(q))
		}
	}
	s.Watch = r.st.pendingCount()
	if !settled {
		s.Err = "puts-not-settled"
	} else if !parked {
		s.Err = "read-loops-not-parked"
	}
	return s
}

// discOf lists the harness connections whose broker-side Client reports
// disconnected(); Clients are remembered when they are first seen registered.
type c16Seen struct {
	byK map[int]*Client
}

func c16Exec(raw json.RawMessage) interface{} {
	var in c16Input
	if err := json.Unmarshal(raw, &in); err != nil {
		return map[string]string{"error": "bad-input"}
	}
	if n := atomic.LoadInt32(&c16Hangs); n >= c16MaxHangs {
		return map[string]interface{}{"aborted": fmt.Sprintf("after %d waits ran into the patience bound (reported by the cases they happened in)", n)}
	}
	spec := &Spec{Name: "c16", EGName: "c16", Port: 0}
	st := c16NewStore()
	b := newBroker(spec, st, nil, func(s, ss string) ([]string, error) { return nil, nil })
	if b == nil {
		_, lerr := net.Listen("tcp", ":0")
		return map[string]string{"error": "no-broker", "detail": fmt.Sprint(lerr)}
	}
	defer b.close()
	r := &c16Run{b: b, st: st, conns: map[int]*c16Conn{}, clientOf: map[int]*Client{}}
	r.addr = "127.0.0.1:" + c16Port(b.listener.Addr())
	defer func() {
		r.mu.Lock()
		for _, c := range r.conns {
			if c.sock != nil {
				if tc, ok := c.sock.(*net.TCPConn); ok {
					tc.SetLinger(0)
				}
				c.sock.Close()
			}
		}
		r.mu.Unlock()
	}()
	seen := &c16Seen{byK: map[int]*Client{}}
	obs := c16Obs{Steps: []c16Snap{}, Delivered: []int{}}
	for _, a := range in.Actions {
		skipped, code, e := r.do(a)
		s := r.snap()
		s.Skipped, s.Code = skipped, code
		if e != "" {
			s.Err = e
		}
		if cur := r.registered(); cur != nil && s.Reg >= 0 {
			seen.byK[s.Reg] = cur
			r.mu.Lock()
			r.clientOf[s.Reg] = cur
			r.mu.Unlock()
		}
		ks := make([]int, 0, len(seen.byK))
		for k := range seen.byK {
			ks = append(ks, k)
		}
		sort.Ints(ks)
		for _, k := range ks {
			s.Seen = append(s.Seen, k)
			if seen.byK[k].disconnected() {
				s.Disc = append(s.Disc, k)
			}
		}
		obs.Steps = append(obs.Steps, s)
	}
	// delivery probe through the surviving registered connection
	if cur := r.registered(); cur != nil && !cur.disconnected() {
		k := -1
		r.mu.Lock()
		for i := range r.conns {
			if r.conns[i].connected && !r.conns[i].dropped {
				r.mu.Unlock()
				ok := r.isConn(cur, i)
				r.mu.Lock()
				if ok {
					k = i
				}
			}
		}
		r.mu.Unlock()
		if k >= 0 {
			for i := 0; i < c16NTopics; i++ {
				b.sendMsgToClient(nil, c16Topic(i), []byte("x"), 0)
			}
			got := map[int]bool{}
			e := r.ping(r.conn(k).sock, func(p *packets.PublishPacket) { got[c16TopicIdx(p.TopicName)] = true })
			if e == "" {
				obs.Probed = true
				for i := 0; i < c16NTopics; i++ {
					if got[i] {
						obs.Delivered = append(obs.Delivered, i)
					}
				}
			}
		}
	}
	return obs
}

func c16Port(a net.Addr) string {
	s := a.String()
	return s[strings.LastIndex(s, ":")+1:]
}

// ---- generator

func c16Gen(r *verifh.Rand, i int) interface{} {
	in := c16Input{}
	next := 0       // next fresh connection index
	live := []int{} // connected, not dropped
	cur := -1
	n := r.Range(3, 14)
	newConn := func(clean bool) c16Action {
		a := c16Action{Op: "connect", K: next, Clean: clean}
		live = append(live, next)
		cur = next
		next++
		return a
	}
	lastF := -1
	cleanBias := r.Intn(4) // 0: mostly persistent, 1: mostly clean, else mixed
	pickClean := func() bool {
		switch cleanBias {
		case 0:
			return r.Bool(1, 8)
		case 1:
			return r.Bool(7, 8)
		}
		return r.Bool(1, 2)
	}
	dropOf := func(k int) c16Action {
		for j, x := range live {
			if x == k {
				live = append(live[:j], live[j+1:]...)
				break
			}
		}
		if cur == k {
			cur = -1
		}
		return c16Action{Op: "drop", K: k, Disc: r.Bool(1, 4)}
	}
	in.Actions = append(in.Actions, newConn(pickClean()))
	for len(in.Actions) < n && next < 8 {
		switch r.Intn(12) {
		case 0, 1, 2:
			if cur >= 0 {
				f := r.Intn(c16NTopics)
				if lastF >= 0 && r.Bool(1, 3) {
					f = lastF // re-subscribe a filter that was subscribed before, often at another QoS
				}
				lastF = f
				in.Actions = append(in.Actions, c16Action{Op: "sub", K: cur, F: f, Q: r.Intn(2)})
			}
		case 3:
			if cur >= 0 {
				in.Actions = append(in.Actions, c16Action{Op: "unsub", K: cur, F: r.Intn(c16NTopics)})
			}
		case 4, 5: // takeover (or reconnect if nothing is live)
			in.Actions = append(in.Actions, newConn(pickClean()))
		case 6, 7: // the oldest live connection (usually a superseded one) ends now
			if len(live) > 0 {
				in.Actions = append(in.Actions, dropOf(live[0]))
			}
		case 8: // the current connection ends
			if cur >= 0 {
				in.Actions = append(in.Actions, dropOf(cur))
			}
		case 9:
			if r.Bool(1, 2) {
				in.Actions = append(in.Actions, c16Action{Op: "admindel"})
			}
			in.Actions = append(in.Actions, c16Action{Op: "watch"})
		case 10: // stale packets of a superseded connection, unknown connections (must be skipped)
			in.Actions = append(in.Actions, c16Action{Op: r.Pick("sub", "unsub", "drop"), K: r.Intn(next + 1), F: r.Intn(c16NTopics), Q: r.Intn(2)})
		case 11: // real race: teardown of an old connection against a new connection's CONNECT
			if len(live) > 0 && r.Bool(1, 2) {
				d := dropOf(live[0])
				c := newConn(pickClean())
				in.Actions = append(in.Actions, c16Action{Op: "par", Par: []c16Action{d, c}})
			}
		}
	}
	return in
}

func TestVerifC16(t *testing.T) {
	verifh.Run(t, c16Gen, c16Exec, 180*time.Second)
}
