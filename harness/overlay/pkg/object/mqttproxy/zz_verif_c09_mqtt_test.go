package mqttproxy

// Correspondence harness for property C09 (MQTT proxy Limiter: newLimiter's choice
// of limiter and acquirePermission). The limiter reads the clock through
// pkg/util/ratelimiter's package variable nowFunc; the overlay-only setter
// ratelimiter.VerifSetNow (harness/overlay/pkg/util/ratelimiter/zz_verif_clock_export.go,
// added to that package for this harness by `extra_overlay`) puts it on a virtual
// clock: the limiter is created at virtual time 0 and packet k arrives after the
// advances dts[0..k] (missing / negative = 0), so a case spans several periods.

import (
	"encoding/json"
	"reflect"
	"testing"
	"time"

	"github.com/megaease/easegress/pkg/util/ratelimiter"
	"github.com/megaease/easegress/pkg/util/verifh"
)

type c09qInput struct {
	Nil         bool  `json:"nil"`
	RequestRate int   `json:"requestRate"`
	BytesRate   int   `json:"bytesRate"`
	TimePeriod  int   `json:"timePeriod"`
	Packets     []int `json:"packets"`
	// Dts: virtual-clock advance (ns) before packet k; shorter than Packets = 0 for the rest
	Dts []int64 `json:"dts,omitempty"`
}

var c09qBase = time.Date(2024, 1, 1, 0, 0, 0, 0, time.UTC)

type c09qObs struct {
	Kind      string  `json:"kind"`
	Permitted []int   `json:"permitted"`
	P         int64   `json:"P"`  // refresh period of the limiter that was built (ns), read by reflection
	T         int64   `json:"T"`  // its timeout (ns)
	Ls        []int64 `json:"Ls"` // its limit(s)
}

func c09qPolicy(limiter interface{}, obs *c09qObs) {
	pol := reflect.ValueOf(limiter).Elem().FieldByName("policy").Elem()
	obs.P = pol.FieldByName("LimitRefreshPeriod").Int()
	obs.T = pol.FieldByName("TimeoutDuration").Int()
	l := pol.FieldByName("LimitForPeriod")
	if l.Kind() == reflect.Slice {
		for i := 0; i < l.Len(); i++ {
			obs.Ls = append(obs.Ls, l.Index(i).Int())
		}
	} else {
		obs.Ls = append(obs.Ls, l.Int())
	}
}

func c09qGen(r *verifh.Rand, i int) interface{} {
	in := c09qInput{Nil: r.Bool(1, 30)}
	in.RequestRate = r.PickInt(0, 0, 1, 2, 3, 5, 10, -1)
	in.BytesRate = r.PickInt(0, 0, 1, 10, 16, 50, 100, -1)
	in.TimePeriod = r.PickInt(0, 1, 2, 60, -3)
	n := r.Range(1, 40)
	for k := 0; k < n; k++ {
		in.Packets = append(in.Packets, r.PickInt(1, 2, 3, 7, 10, 16, 45, 50, 51, 120))
	}
	if r.Bool(3, 4) { // varied clock: bursts, fractions of the period, the boundary, idle gaps
		tp := int64(in.TimePeriod)
		if tp <= 0 {
			tp = 1
		}
		P := tp * int64(time.Second)
		for k := 0; k < n; k++ {
			var d int64
			switch r.Intn(12) {
			case 0:
				d = P / 4
			case 1:
				d = P / 2
			case 2:
				d = P - 1
			case 3:
				d = P
			case 4:
				d = 1
			case 5:
				d = 2*P + P/3
			}
			in.Dts = append(in.Dts, d)
		}
	}
	return in
}

func c09qExec(raw json.RawMessage) interface{} {
	var in c09qInput
	if err := json.Unmarshal(raw, &in); err != nil {
		return map[string]string{"error": "bad-input"}
	}
	var spec *RateLimit
	if !in.Nil {
		spec = &RateLimit{RequestRate: in.RequestRate, BytesRate: in.BytesRate, TimePeriod: in.TimePeriod}
	}
	var virt int64
	ratelimiter.VerifSetNow(func() time.Time { return c09qBase.Add(time.Duration(virt)) })
	defer ratelimiter.VerifSetNow(nil)
	l := newLimiter(spec)
	obs := c09qObs{Kind: "none", Permitted: []int{}}
	switch {
	case l.multiLimiter != nil:
		obs.Kind = "multi"
		c09qPolicy(l.multiLimiter, &obs)
	case l.requestLimiter != nil:
		obs.Kind = "request"
		c09qPolicy(l.requestLimiter, &obs)
	case l.byteLimiter != nil:
		obs.Kind = "byte"
		c09qPolicy(l.byteLimiter, &obs)
	}
	for k, p := range in.Packets {
		if k < len(in.Dts) && in.Dts[k] > 0 {
			virt += in.Dts[k]
		}
		b := 0
		if l.acquirePermission(p) {
			b = 1
		}
		obs.Permitted = append(obs.Permitted, b)
	}
	return obs
}

func TestVerifC09MQTT(t *testing.T) {
	verifh.Run(t, c09qGen, c09qExec, 0)
}
