package mqttproxy

// Correspondence harness for property C09 (MQTT proxy Limiter: newLimiter's choice
// of limiter and acquirePermission). The util limiter's clock is not reachable
// from this package; the period is at least one second and a case runs in
// microseconds right after the limiter is created, so every packet of a case
// arrives in period 0.

import (
	"encoding/json"
	"reflect"
	"testing"

	"github.com/megaease/easegress/pkg/util/verifh"
)

type c09qInput struct {
	Nil         bool  `json:"nil"`
	RequestRate int   `json:"requestRate"`
	BytesRate   int   `json:"bytesRate"`
	TimePeriod  int   `json:"timePeriod"`
	Packets     []int `json:"packets"`
}

type c09qObs struct {
	Kind      string  `json:"kind"`
	Permitted []int   `json:"permitted"`
	P         int64   `json:"P"`  // refresh period of the limiter that was built (ns), read by reflection
	T         int64   `json:"T"`  // its timeout (ns)
	Ls        []int64 `json:"Ls"` // its limit(s)
}

func c09qPolicy(limiter interface{}, obs *c09qObs) {
	pol := reflect.ValueOf(limiter).Elem().FieldByName("policy").Elem()
	obs.P = pol.FieldByName("LimitRefreshPeriod").Int()
	obs.T = pol.FieldByName("TimeoutDuration").Int()
	l := pol.FieldByName("LimitForPeriod")
	if l.Kind() == reflect.Slice {
		for i := 0; i < l.Len(); i++ {
			obs.Ls = append(obs.Ls, l.Index(i).Int())
		}
	} else {
		obs.Ls = append(obs.Ls, l.Int())
	}
}

func c09qGen(r *verifh.Rand, i int) interface{} {
	in := c09qInput{Nil: r.Bool(1, 30)}
	in.RequestRate = r.PickInt(0, 0, 1, 2, 3, 5, 10, -1)
	in.BytesRate = r.PickInt(0, 0, 1, 10, 16, 50, 100, -1)
	in.TimePeriod = r.PickInt(0, 1, 2, 60, -3)
	n := r.Range(1, 40)
	for k := 0; k < n; k++ {
		in.Packets = append(in.Packets, r.PickInt(1, 2, 3, 7, 10, 16, 45, 50, 51, 120))
	}
	return in
}

func c09qExec(raw json.RawMessage) interface{} {
	var in c09qInput
	if err := json.Unmarshal(raw, &in); err != nil {
		return map[string]string{"error": "bad-input"}
	}
	var spec *RateLimit
	if !in.Nil {
		spec = &RateLimit{RequestRate: in.RequestRate, BytesRate: in.BytesRate, TimePeriod: in.TimePeriod}
	}
	l := newLimiter(spec)
	obs := c09qObs{Kind: "none", Permitted: []int{}}
	switch {
	case l.multiLimiter != nil:
		obs.Kind = "multi"
		c09qPolicy(l.multiLimiter, &obs)
	case l.requestLimiter != nil:
		obs.Kind = "request"
		c09qPolicy(l.requestLimiter, &obs)
	case l.byteLimiter != nil:
		obs.Kind = "byte"
		c09qPolicy(l.byteLimiter, &obs)
	}
	for _, p := range in.Packets {
		b := 0
		if l.acquirePermission(p) {
			b = 1
		}
		obs.Permitted = append(obs.Permitted, b)
	}
	return obs
}

func TestVerifC09MQTT(t *testing.T) {
	verifh.Run(t, c09qGen, c09qExec, 0)
}
